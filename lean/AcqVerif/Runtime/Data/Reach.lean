import AcqVerif.Runtime.Data.CA
import AcqVerif.Runtime.Data.CB
import AcqVerif.Runtime.Data.CC
import AcqVerif.Runtime.Data.CD
import AcqVerif.Runtime.Data.CE
import AcqVerif.Runtime.Data.CF
import AcqVerif.Runtime.Data.CG0
import AcqVerif.Runtime.Data.CG1
import AcqVerif.Runtime.Data.CG2
/-! # M1 — the channel is used within its rules in every state any schedule reaches -/
namespace AcqVerif.Runtime
open AcqVerif.Channel

theorem DUse.client_flush (s0 r0 : Nat) (hr : r0 ∈ ([2, 0, 1] : List Nat)) : ∀ a ∈ clientFlush s0 r0, DUse.Kept a := by
  simp only [List.mem_cons, List.mem_nil_iff, or_false] at hr
  rcases hr with rfl | rfl | rfl
  · exact DUse.client_flush2 s0
  · exact DUse.client_flush0 s0
  · exact DUse.client_flush1 s0

theorem fresh_ok (ring : Nat) : Ok (freshChan ring) :=
  ⟨ring, _, (Reachable.init ring).step .join (by simp [Op.wf, Sys.init])⟩

theorem DUse.init (ring : Nat) (c : Option StreamCfg) (prog : List COp) (s : Nat) : DUse s (initStream ring c) { prog := prog } := by
  have hc : (freshChan ring).c.cap = ring := fresh_cap ring
  cases c <;> (constructor <;> simp [initStream, stage, srcHold, snkHold, clHolds0, clFlush1, clFlush1Free, fresh_ok, hc])
  all_goals (simp [cv, freshChan, step, Sys.init, readMap, readerInit, readMapAt, readMapCore, nth, C02.regionLen])

theorem DUse.default (prog : List COp) (s : Nat) : DUse s {} { prog := prog } := by
  have e : ({} : Stream).sinkCh = freshChan 4096 := rfl
  have e2 : ({} : Stream).filtCh = freshChan 4096 := rfl
  have hc : (freshChan 4096).c.cap = 4096 := fresh_cap 4096
  constructor
  case ok => exact fresh_ok 4096
  all_goals (simp [stage, srcHold, snkHold, clHolds0, clFlush1, clFlush1Free, e, e2, hc])
  all_goals (simp [cv, freshChan, step, Sys.init, readMap, readerInit, readMapAt, readMapCore, nth, C02.regionLen])


/-- the premises of `DUseP` are about things no action changes -/
theorem DUseP.worker (s : Nat) (cl : Client) (st st' : Stream) (he : st'.cam.emptyEvery = st.cam.emptyEvery)
    (h : DUse s st cl → DUse s st' cl) (hp : DUseP s st cl) : DUseP s st' cl := by
  intro _ c
  exact h (hp (Here.intro _) c)

theorem src_keeps_script (s : Nat) : ∀ a ∈ srcActs s, ∀ st, (a.upd st).cam.failAt = st.cam.failAt ∧ (a.upd st).cam.emptyEvery = st.cam.emptyEvery := by
  intro a ha st; unfold srcActs at ha; each_action ha <;> exact ⟨rfl, rfl⟩
theorem flt_keeps_script : ∀ a ∈ fltActs, ∀ st, (a.upd st).cam.failAt = st.cam.failAt ∧ (a.upd st).cam.emptyEvery = st.cam.emptyEvery := by
  intro a ha st; unfold fltActs at ha; each_action ha <;> exact ⟨rfl, rfl⟩
theorem snk_keeps_script (s : Nat) : ∀ a ∈ snkActs s, ∀ st, (a.upd st).cam.failAt = st.cam.failAt ∧ (a.upd st).cam.emptyEvery = st.cam.emptyEvery := by
  intro a ha st; unfold snkActs at ha; each_action ha <;> exact ⟨rfl, rfl⟩

/-- **`sink.in` is used within the channel's rules, and the threads' bookkeeping agrees with it, in every state of every
schedule** (scripted camera faults and empty frames included; for clients that keep the monitoring API's usage rule) -/
theorem DUse.micro : ∀ rt, MReach rt → ∀ s, DUseP s (getS rt s) rt.client := by
  apply MReach.inv' (fun rt => ∀ s, DUseP s (getS rt s) rt.client)
  · intro ring cfgs prog s _ _
    rw [getS_initRT]
    split
    · exact DUse.init ring _ prog s
    · exact DUse.default prog s
  · intro s a ha rt hr hg h
    refine all_setS_cl DUseP rt s _ ?_ h
    exact DUseP.worker s rt.client _ _ (src_keeps_script s a ha _).2
      (fun hd => DUse.src s rt.client rt.state a ha _ hg (TInvAll.micro rt hr s) hd) (h s)
  · intro s a ha rt _ hg h
    refine all_setS_cl DUseP rt s _ ?_ h
    exact DUseP.worker s rt.client _ _ (flt_keeps_script a ha _).2
      (fun hd => DUse.flt s rt.client a ha _ hg hd) (h s)
  · intro s a ha rt hr hg h
    refine all_setS_cl DUseP rt s _ ?_ h
    exact DUseP.worker s rt.client _ _ (snk_keeps_script s a ha _).2
      (fun hd => DUse.snk s rt.client rt.state a ha _ hg (TInvAll.micro rt hr s) hd) (h s)
  · intro a ha rt hr hg h
    exact client_families DUse.Kept DUse.client_base DUse.client_mon DUse.client_cfg DUse.client_start DUse.client_err
      DUse.client_stop DUse.client_acc DUse.client_flush a ha rt (TInvAll.micro rt hr) hg h

end AcqVerif.Runtime
