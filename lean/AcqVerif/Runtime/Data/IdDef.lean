import AcqVerif.Runtime.Data.LogReach
/-!
# M1 — the frames committed in a run are the camera's frames 0, 1, 2, … of that run, in order

`DId`: since the storage was started, the source has committed `ncommit` frames; they lie at `base + j·F` and are the
camera's frames `j = 0 … ncommit-1` of the current camera run (frame id = hardware frame id = `j`); no frame is
committed after one was refused (which happens only while the channel refuses writes: abort, storage failure).
-/
namespace AcqVerif.Runtime
open AcqVerif.Channel

/-- the committed frames a run is expected to consist of -/
def expected (run base F k : Nat) : List (Nat × Frame) := (List.range k).map fun j => (base + j * F, ⟨run, j, j⟩)

/-- the frames committed at or after stream position `base` -/
def since (fs : List (Nat × Frame)) (base : Nat) : List (Nat × Frame) := fs.filter fun p => decide (base ≤ p.1)

theorem expected_succ (run base F k : Nat) : expected run base F (k + 1) = expected run base F k ++ [(base + k * F, ⟨run, k, k⟩)] := by
  simp [expected, List.range_succ]

theorem since_snoc_in (fs : List (Nat × Frame)) (base : Nat) (p : Nat × Frame) (h : base ≤ p.1) :
    since (fs ++ [p]) base = since fs base ++ [p] := by
  simp [since, List.filter_append, h]

theorem since_total_nil {fs : List (Nat × Frame)} {F total : Nat} (h : FramesOk fs F total) (hF : 0 < F) : since fs total = [] := by
  unfold since
  rw [List.filter_eq_nil_iff]
  intro p hp
  have := h.2 p hp
  simp; omega

structure DId (s : Nat) (st : Stream) (cl : Client) : Prop where
  frames : since st.sinkFrames st.sto.base = expected st.cam.run st.sto.base st.F st.sto.ncommit
  total : (cv st.sinkCh).total = st.sto.base + st.sto.ncommit * st.F
  count : st.src.pc ≠ .done → st.sto.dropped = false → st.src.iframe = st.sto.ncommit + (if st.src.cur.isSome then 1 else 0)
  hwid : st.src.pc ≠ .done → st.cam.frame = st.src.iframe
  cur : ∀ f, st.src.cur = some f → st.src.pc = .commitLock ∧ 0 < st.src.iframe ∧ f = ⟨st.cam.run, st.src.iframe - 1, st.src.iframe - 1⟩
  curlock : st.src.pc = .abortLock → st.src.cur = none
  dropped : st.sto.dropped = true → (cv st.sinkCh).acc = false ∨ st.src.pc = .done
  fresh : 2 ≤ stage cl.pc s → st.sto.ncommit = 0 ∧ st.sto.dropped = false
  fresh8 : stage cl.pc s = 8 → st.cam.frame = 0

/-- `DId` under the premises of `DUseP`, for frames of positive size -/
def DIdP (s : Nat) (st : Stream) (cl : Client) : Prop :=
  Here st → cl.misused = false → 0 < st.F → DId s st cl

end AcqVerif.Runtime
