import AcqVerif.Runtime.Data.EndReach
/-! # M1 — a source that has left its loop has committed every frame it produced (unless one was refused) -/
namespace AcqVerif.Runtime
open AcqVerif.Channel

structure DFin (s : Nat) (st : Stream) (cl : Client) : Prop where
  fin_count : srcFin st.src.pc = true → st.sto.dropped = false →
    st.sto.disturbed = true ∨ 2 ≤ stage cl.pc s ∨ st.sto.ncommit = st.src.iframe

def DFinP (s : Nat) (st : Stream) (cl : Client) : Prop :=
  Here st → cl.misused = false → 0 < st.F → DFin s st cl

theorem DFin.src (s : Nat) (cl : Client) (rs : DevState) : ∀ a ∈ srcActs s, ∀ st, a.guard st = true → TInv s st cl rs → DId s st cl → DFin s st cl → DFin s (a.upd st) cl := by
  intro a ha st hg ht hi h
  obtain ⟨i1, i2, i3, i3', i4, i4', i5, i6, i7⟩ := hi
  obtain ⟨f1⟩ := h
  have tS := ht.start_src; have hs8 := stage_le cl.pc s
  have hcn : st.src.pc ≠ .commitLock → (st.src.cur.isSome = true → False) := by
    intro hpc hs; obtain ⟨f, hf⟩ := Option.isSome_iff_exists.mp hs; exact hpc (i4 f hf).1
  unfold srcActs at ha
  each_action ha
  all_goals (simp only [setSrcPc, atWmap, Bool.and_eq_true, Bool.or_eq_true, decide_eq_true_eq, Bool.not_eq_true', ne_eq] at hg ⊢)
  all_goals (first | (constructor <;> (first | assumption | ((try simp only [srcFin] at *) <;> grind))))

theorem DFin.flt (s : Nat) (cl : Client) : ∀ a ∈ fltActs, ∀ st, a.guard st = true → DFin s st cl → DFin s (a.upd st) cl := by
  intro a ha st hg h
  obtain ⟨f1⟩ := h
  unfold fltActs at ha
  each_action ha
  all_goals (exact ⟨f1⟩)

theorem DFin.snk (s : Nat) (cl : Client) : ∀ a ∈ snkActs s, ∀ st, a.guard st = true → DFin s st cl → DFin s (a.upd st) cl := by
  intro a ha st hg h
  obtain ⟨f1⟩ := h
  unfold snkActs at ha
  each_action ha
  all_goals (simp only [setSnkPc, notifySink] at hg ⊢)
  all_goals (first | (constructor <;> (first | assumption | ((try simp only [srcFin] at *) <;> grind))))

/-- what each client family has to establish -/
def DFin.Kept (a : Act RT) : Prop :=
  ∀ rt, TInvAll rt → a.guard rt = true → (∀ s, DFinP s (getS rt s) rt.client) → ∀ s, DFinP s (getS (a.upd rt) s) (a.upd rt).client

end AcqVerif.Runtime
