import AcqVerif.Runtime.Data.MonReach
/-!
# M1 — an undisturbed finite acquisition is complete when the sink has drained it

`DEnd` follows the wind-down chain of an acquisition that nobody disturbed (no abort, no storage failure, no failed start,
no re-configuration while it ran): the source leaves its loop only after `max_frame_count` frames and tells the filter to
stop; the filter exits only after that and tells the sink; the sink enters its final flush only after that, and ends it
with an empty read — at which moment everything ever committed has been appended.
-/
namespace AcqVerif.Runtime
open AcqVerif.Channel

/-- the source has left its loop for good: no more commits -/
def srcFin (pc : SrcPc) : Bool :=
  match pc with
  | .finalize | .camStop | .done => true
  | _ => false

/-- the source is inside an iteration of its loop, before the frame is in the buffer -/
def srcInLoop (pc : SrcPc) : Bool :=
  match pc with
  | .getShape | .wmapLock | .wmapWait | .wmapAsleep | .wmapWoken | .afterMap | .getFrame => true
  | _ => false

/-- the sink's error path, after it has asked the source to stop -/
def snkErr (pc : SnkPc) : Bool :=
  match pc with
  | .errAccLock | .errAccNotify | .errAfterAcc | .errUnmapLock | .errUnmapNotify => true
  | _ => false

/-- … after all `max_frame_count` frames -/
def srcComplete (st : Stream) : Prop := srcFin st.src.pc = true ∧ st.src.iframe = st.maxFrames

structure DEnd (s : Nat) (st : Stream) (cl : Client) : Prop where
  /-- a stop request or a refused commit means the run was disturbed -/
  stopping : st.srcStopping = true → st.sto.disturbed = true ∨ srcFin st.src.pc = true
  dropped : st.sto.dropped = true → st.sto.disturbed = true
  refusing : (cv st.sinkCh).acc = false → st.sto.disturbed = true ∨ (1 ≤ stage cl.pc s ∧ stage cl.pc s ≤ 2)
  /-- the source never overshoots, and leaves its loop only when told to or when it has all its frames -/
  bound : st.src.pc ≠ .done → st.sto.disturbed = true ∨ st.src.iframe ≤ st.maxFrames
  inloop : srcInLoop st.src.pc = true → st.sto.disturbed = true ∨ st.src.iframe < st.maxFrames
  fin : (st.src.pc = .finalize ∨ st.src.pc = .camStop) → st.sto.disturbed = true ∨ st.src.iframe = st.maxFrames
  /-- the chain source → filter → sink -/
  flt_stop : st.fltStopping = true → (1 ≤ stage cl.pc s ∧ stage cl.pc s ≤ 4) ∨ st.sto.disturbed = true ∨ srcComplete st
  flt_flush : st.flt.flush = true → st.flt.pc ≠ .done → st.sto.disturbed = true ∨ srcComplete st
  flt_done : st.flt.pc = .done → st.sto.disturbed = true ∨ srcFin st.src.pc = true
  snk_stop : st.snkStopping = true → (1 ≤ stage cl.pc s ∧ stage cl.pc s ≤ 3) ∨ (st.flt.pc = .done ∧ (st.sto.disturbed = true ∨ srcComplete st))
  snk_flush : st.snk.flush = true → st.snk.pc ≠ .done → st.sto.state = .running → st.snkStopping = true
  /-- inside `acquire_start` of this stream the flags are fresh: nobody asks the new filter or sink to stop before the source exists -/
  w2 : 2 ≤ stage cl.pc s → st.sto.drained = false
  w4 : 4 ≤ stage cl.pc s → st.snkStopping = false
  w5 : 5 ≤ stage cl.pc s → st.fltStopping = false
  w6 : 6 ≤ stage cl.pc s → st.flt.flush = false ∧ st.flt.pc ≠ .done
  stop8 : stage cl.pc s = 8 → st.srcStopping = true → st.sto.disturbed = true
  /-- `acquire_abort` marks the run before it refuses writes -/
  abort_dist : (cl.pc = .accLock s false 1 ∨ cl.pc = .accNotify s 1) → st.sto.disturbed = true
  /-- an empty read in the final flush means everything was consumed -/
  empty_read : st.snk.flush = true → st.sto.state = .running → (st.snk.pc = .rmapNotify ∨ st.snk.pc = .afterMap) → st.snk.len = 0 →
      st.sto.disturbed = false → (cv st.sinkCh).i0 = (cv st.sinkCh).total
  /-- the sink's error path belongs to a disturbed run; `drained` is recorded at the very end of the sink's life -/
  err_disturbed : snkErr st.snk.pc = true → st.sto.disturbed = true
  drained_pc : st.sto.drained = true → st.snk.pc = .stoStop ∨ st.snk.pc = .exit ∨ st.snk.pc = .done
  /-- **drained**: everything committed has been appended, and the source had delivered all its frames -/
  drained : st.sto.drained = true → st.sto.disturbed = false → st.sto.clean = true →
      st.sto.appended = (cv st.sinkCh).total ∧ srcComplete st ∧ st.src.cur = none
  /-- a failed `camera_get_frame` marks the run -/
  failstop : st.src.pc = .failStop → st.sto.disturbed = true

def DEndP (s : Nat) (st : Stream) (cl : Client) : Prop :=
  Here st → cl.misused = false → 0 < st.F → DEnd s st cl

end AcqVerif.Runtime
