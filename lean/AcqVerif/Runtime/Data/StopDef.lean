import AcqVerif.Runtime.Data.WakeReach
/-!
# M1 — `acquire_stop` never waits for a sleeping source that nobody can wake

`DStop` records who may ask the filter and the sink of a stream to stop — the source once it has left its loop, or the
client on `acquire_start`'s error path — and that after `acquire_abort` (or that error path) has refused writes on a
stream, the channel keeps refusing them for as long as that stream's source thread exists.
-/
namespace AcqVerif.Runtime
open AcqVerif.Channel

/-- inside `acquire_abort`'s loop: the loop has already refused writes on stream `s` -/
def pastAccIdx (pc : CPc) (s : Nat) : Bool :=
  match pc with
  | .accNotify x 1 => decide (s ≤ x)
  | .abortAt k => decide (s < k)
  | .accLock x false 1 => decide (s < x)
  | _ => false

/-- `acquire_abort`'s loop has already refused writes on stream `s` (or the client is past that loop) -/
def pastAccFalse (pc : CPc) (s : Nat) : Bool := pastAccIdx pc s || (stopBelow pc).isSome || afterErrStop pc

theorem pastAccFalse_of_stop {pc : CPc} {s : Nat} (h : (stopBelow pc).isSome = true) : pastAccFalse pc s = true := by
  simp [pastAccFalse, h]

theorem pastAccFalse_of_err {pc : CPc} {s : Nat} (h : afterErrStop pc = true) : pastAccFalse pc s = true := by
  simp [pastAccFalse, h]

theorem pastAccFalse_elim {pc : CPc} {s : Nat} (h : pastAccFalse pc s = true) :
    pastAccIdx pc s = true ∨ (stopBelow pc).isSome = true ∨ afterErrStop pc = true := by
  simpa [pastAccFalse, or_assoc] using h

/-- the sink is on its error path, past the point where it refused writes -/
def snkErrLate (pc : SnkPc) : Bool :=
  match pc with
  | .errAccNotify | .errAfterAcc | .errUnmapLock | .errUnmapNotify => true
  | _ => false

structure DStop (s : Nat) (st : Stream) (cl : Client) : Prop where
  flt_stop : st.fltStopping = true → (1 ≤ stage cl.pc s ∧ stage cl.pc s ≤ 4) ∨ srcFin st.src.pc = true ∨ cl.startFailed = true
  flt_flush : st.flt.flush = true → st.flt.pc ≠ .done → srcFin st.src.pc = true ∨ cl.startFailed = true
  flt_done : st.flt.pc = .done → srcFin st.src.pc = true ∨ cl.startFailed = true
  snk_stop : st.snkStopping = true → (1 ≤ stage cl.pc s ∧ stage cl.pc s ≤ 3) ∨ (st.flt.pc = .done ∧ (srcFin st.src.pc = true ∨ cl.startFailed = true))
  /-- a sink that went down its error path keeps the channel refusing writes while the source exists -/
  err_refuses : (snkErrLate st.snk.pc = true ∨ ((st.snk.pc = .exit ∨ st.snk.pc = .done) ∧ st.sto.drained = false)) →
      (st.src.pc ≠ .done ∨ 5 ≤ stage cl.pc s) → (cv st.sinkCh).acc = false
  at_stostop : st.snk.pc = .stoStop → st.sto.drained = true
  /-- a sink ends normally only after the source has left its loop (or on `acquire_start`'s error path) -/
  drained_fin : st.sto.drained = true → srcFin st.src.pc = true ∨ cl.startFailed = true
  /-- after abort refused writes on this stream they stay refused while its source exists -/
  abort_refuses : (cl.aborting = true ∨ cl.startFailed = true) → pastAccFalse cl.pc s = true → st.valid = true →
      st.src.pc ≠ .done → (cv st.sinkCh).acc = false

  /-- outside start/abort/stop the client's `aborting` / `startFailed` marks are clear -/
  flags_clear : quiet cl.pc = true → cl.aborting = false ∧ cl.startFailed = false
  flags_start : (pendingFrom cl.pc).isSome = true → cl.aborting = false ∧ cl.startFailed = false
  flags_excl : cl.startFailed = true → cl.aborting = false
  flags_err : afterErrStop cl.pc = true → cl.startFailed = true
  /-- a sink that has ended in an acquisition nobody disturbed has ended normally: after its final, empty read -/
  ended : (st.snk.pc = .exit ∨ st.snk.pc = .done) → 0 < st.sto.run →
      st.sto.drained = true ∨ st.sto.disturbed = true ∨ (2 ≤ stage cl.pc s ∧ stage cl.pc s ≤ 4)

def DStopP (s : Nat) (st : Stream) (cl : Client) : Prop :=
  Here st → cl.misused = false → 0 < st.F → DStop s st cl

end AcqVerif.Runtime
