import AcqVerif.Runtime.Data.IdReach
/-!
# M1 — the monitoring client's reader across acquisitions

`DMon`: once `acquire_stop` has flushed a registered monitor reader it has consumed everything that was ever committed
(`monFlushed → i1 = total`), and stays so until the next source thread is created; a monitor reader that was registered and
caught up when the storage was started (`monFresh`) never sees a byte committed before that start (`base ≤ i1`).
-/
namespace AcqVerif.Runtime
open AcqVerif.Channel

structure DMon (s : Nat) (st : Stream) (cl : Client) : Prop where
  flushed : st.monFlushed = true → st.monReg = true ∧ (cv st.sinkCh).i1 = (cv st.sinkCh).total ∧ st.src.pc = .done
  fresh : st.sto.monFresh = true → st.monReg = true ∧ st.sto.base ≤ (cv st.sinkCh).i1
  empty_read : (cl.pc = .flushAfterRead s 1 ∨ cl.pc = .flushRmapNotify s 1) → cl.flushLen = 0 → (cv st.sinkCh).i1 = (cv st.sinkCh).total

def DMonP (s : Nat) (st : Stream) (cl : Client) : Prop :=
  Here st → cl.misused = false → DMon s st cl

end AcqVerif.Runtime
