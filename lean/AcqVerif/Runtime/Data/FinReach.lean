import AcqVerif.Runtime.Data.FinDef
/-! # M1 — `DFin` is kept by the client actions; the completeness of an undisturbed acquisition -/
namespace AcqVerif.Runtime
open AcqVerif.Channel

set_option maxHeartbeats 8000000 in
theorem DFin.client_base : ∀ a ∈ clientBase, DFin.Kept a := by
  intro a ha rt hT hg h s'
  have tS := (hT s').start_src; have tV := (hT s').start_valid; have tP := (hT s').pending
  have hs8 := stage_le rt.client.pc s'
  have hvr := valid_in_range rt
  have hnvv := nv_spec rt
  unfold DFinP at h ⊢
  unfold clientBase at ha
  each_action ha
  client_expose
  all_goals (try (simp only [isOp, atPc, notifySink, setReaderChan, readerChan, readerIdx, getS, getD_stopAllFilters, markFlt, Bool.and_eq_true, Bool.or_eq_true, decide_eq_true_eq, Bool.not_eq_true', ne_eq] at hg ⊢))
  all_goals (try (simp at hg; done))
  all_goals (repeat' split)
  all_goals (intro he hm hF)
  all_goals (first | (cases hm; done) | (obtain ⟨f1⟩ := h _ (Here.intro _) hm hF))
  all_goals constructor
  all_goals (try dsimp only)
  all_goals (repeat' split)
  all_goals (first | assumption | ((try simp only [srcFin] at *) <;> (try simp only [stage] at ⊢) <;> grind [stage]) | (grind [stage, srcFin]))

set_option maxHeartbeats 8000000 in
theorem DFin.client_mon (s0 : Nat) : ∀ a ∈ clMon s0, DFin.Kept a := by
  intro a ha rt hT hg h s'
  have tS := (hT s').start_src; have tV := (hT s').start_valid; have tP := (hT s').pending
  have hs8 := stage_le rt.client.pc s'
  have hvr := valid_in_range rt
  have hnvv := nv_spec rt
  unfold DFinP at h ⊢
  unfold clMon at ha
  each_action ha
  client_expose
  all_goals (try (simp only [isOp, atPc, notifySink, setReaderChan, readerChan, readerIdx, getS, getD_stopAllFilters, markFlt, Bool.and_eq_true, Bool.or_eq_true, decide_eq_true_eq, Bool.not_eq_true', ne_eq] at hg ⊢))
  all_goals (try (simp at hg; done))
  all_goals (repeat' split)
  all_goals (intro he hm hF)
  all_goals (first | (cases hm; done) | (obtain ⟨f1⟩ := h _ (Here.intro _) hm hF))
  all_goals constructor
  all_goals (try dsimp only)
  all_goals (repeat' split)
  all_goals (first | assumption | ((try simp only [srcFin] at *) <;> (try simp only [stage] at ⊢) <;> grind [stage]) | (by_cases hs0 : s0 = s' <;> (try subst hs0) <;> (try simp only [stage, srcFin] at *) <;> grind [stage]))

set_option maxHeartbeats 8000000 in
theorem DFin.client_cfg (s0 : Nat) : ∀ a ∈ clCfg s0, DFin.Kept a := by
  intro a ha rt hT hg h s'
  have tS := (hT s').start_src; have tV := (hT s').start_valid; have tP := (hT s').pending
  have hs8 := stage_le rt.client.pc s'
  have hvr := valid_in_range rt
  have hnvv := nv_spec rt
  unfold DFinP at h ⊢
  unfold clCfg at ha
  each_action ha
  client_expose
  all_goals (try (simp only [isOp, atPc, notifySink, setReaderChan, readerChan, readerIdx, getS, getD_stopAllFilters, markFlt, Bool.and_eq_true, Bool.or_eq_true, decide_eq_true_eq, Bool.not_eq_true', ne_eq] at hg ⊢))
  all_goals (try (simp at hg; done))
  all_goals (repeat' split)
  all_goals (intro he hm hF)
  all_goals (first | (cases hm; done) | (obtain ⟨f1⟩ := h _ (Here.intro _) hm hF))
  all_goals constructor
  all_goals (try dsimp only)
  all_goals (repeat' split)
  all_goals (first | assumption | ((try simp only [srcFin] at *) <;> (try simp only [stage] at ⊢) <;> grind [stage]) | (by_cases hs0 : s0 = s' <;> (try subst hs0) <;> (try simp only [stage, srcFin] at *) <;> grind [stage]))

set_option maxHeartbeats 8000000 in
theorem DFin.client_err (s0 : Nat) : ∀ a ∈ clErr s0, DFin.Kept a := by
  intro a ha rt hT hg h s'
  have tS := (hT s').start_src; have tV := (hT s').start_valid; have tP := (hT s').pending
  have hs8 := stage_le rt.client.pc s'
  have hvr := valid_in_range rt
  have hnvv := nv_spec rt
  unfold DFinP at h ⊢
  unfold clErr at ha
  each_action ha
  client_expose
  all_goals (try (simp only [isOp, atPc, notifySink, setReaderChan, readerChan, readerIdx, getS, getD_stopAllFilters, markFlt, Bool.and_eq_true, Bool.or_eq_true, decide_eq_true_eq, Bool.not_eq_true', ne_eq] at hg ⊢))
  all_goals (try (simp at hg; done))
  all_goals (repeat' split)
  all_goals (intro he hm hF)
  all_goals (first | (cases hm; done) | (obtain ⟨f1⟩ := h _ (Here.intro _) hm hF))
  all_goals constructor
  all_goals (try dsimp only)
  all_goals (repeat' split)
  all_goals (first | assumption | ((try simp only [srcFin] at *) <;> (try simp only [stage] at ⊢) <;> grind [stage]) | (by_cases hs0 : s0 = s' <;> (try subst hs0) <;> (try simp only [stage, srcFin] at *) <;> grind [stage]))

set_option maxHeartbeats 8000000 in
theorem DFin.client_start (s0 : Nat) : ∀ a ∈ clStart s0, DFin.Kept a := by
  intro a ha rt hT hg h s'
  have tS := (hT s').start_src; have tV := (hT s').start_valid; have tP := (hT s').pending
  have hs8 := stage_le rt.client.pc s'
  have hvr := valid_in_range rt
  have hnvv := nv_spec rt
  unfold DFinP at h ⊢
  unfold clStart at ha
  each_action ha
  client_expose
  all_goals (try (simp only [isOp, atPc, notifySink, setReaderChan, readerChan, readerIdx, getS, getD_stopAllFilters, markFlt, Bool.and_eq_true, Bool.or_eq_true, decide_eq_true_eq, Bool.not_eq_true', ne_eq] at hg ⊢))
  all_goals (try (simp at hg; done))
  all_goals (repeat' split)
  all_goals (intro he hm hF)
  all_goals (first | (cases hm; done) | (obtain ⟨f1⟩ := h _ (Here.intro _) hm hF))
  all_goals constructor
  all_goals (try dsimp only)
  all_goals (repeat' split)
  all_goals (first | assumption | ((try simp only [srcFin] at *) <;> (try simp only [stage] at ⊢) <;> grind [stage]) | (by_cases hs0 : s0 = s' <;> (try subst hs0) <;> (try simp only [stage, srcFin] at *) <;> grind [stage]))

set_option maxHeartbeats 8000000 in
theorem DFin.client_stop (s0 : Nat) : ∀ a ∈ clStop s0, DFin.Kept a := by
  intro a ha rt hT hg h s'
  have tS := (hT s').start_src; have tV := (hT s').start_valid; have tP := (hT s').pending
  have hs8 := stage_le rt.client.pc s'
  have hvr := valid_in_range rt
  have hnvv := nv_spec rt
  unfold DFinP at h ⊢
  unfold clStop at ha
  each_action ha
  client_expose
  all_goals (try (simp only [isOp, atPc, notifySink, setReaderChan, readerChan, readerIdx, getS, getD_stopAllFilters, markFlt, Bool.and_eq_true, Bool.or_eq_true, decide_eq_true_eq, Bool.not_eq_true', ne_eq] at hg ⊢))
  all_goals (try (simp at hg; done))
  all_goals (repeat' split)
  all_goals (intro he hm hF)
  all_goals (first | (cases hm; done) | (obtain ⟨f1⟩ := h _ (Here.intro _) hm hF))
  all_goals constructor
  all_goals (try dsimp only)
  all_goals (repeat' split)
  all_goals (first | assumption | ((try simp only [srcFin] at *) <;> (try simp only [stage] at ⊢) <;> grind [stage]) | (by_cases hs0 : s0 = s' <;> (try subst hs0) <;> (try simp only [stage, srcFin] at *) <;> grind [stage]))

set_option maxHeartbeats 8000000 in
theorem DFin.client_acc (s0 : Nat) : ∀ a ∈ clAcc s0, DFin.Kept a := by
  intro a ha rt hT hg h s'
  have tS := (hT s').start_src; have tV := (hT s').start_valid; have tP := (hT s').pending
  have hs8 := stage_le rt.client.pc s'
  have hvr := valid_in_range rt
  have hnvv := nv_spec rt
  unfold DFinP at h ⊢
  unfold clAcc at ha
  each_action ha
  client_expose
  all_goals (try (simp only [isOp, atPc, notifySink, setReaderChan, readerChan, readerIdx, getS, getD_stopAllFilters, markFlt, Bool.and_eq_true, Bool.or_eq_true, decide_eq_true_eq, Bool.not_eq_true', ne_eq] at hg ⊢))
  all_goals (try (simp at hg; done))
  all_goals (repeat' split)
  all_goals (intro he hm hF)
  all_goals (first | (cases hm; done) | (obtain ⟨f1⟩ := h _ (Here.intro _) hm hF))
  all_goals constructor
  all_goals (try dsimp only)
  all_goals (repeat' split)
  all_goals (first | assumption | ((try simp only [srcFin] at *) <;> (try simp only [stage] at ⊢) <;> grind [stage]) | (by_cases hs0 : s0 = s' <;> (try subst hs0) <;> (try simp only [stage, srcFin] at *) <;> grind [stage]))

set_option maxHeartbeats 8000000 in
theorem DFin.client_flush (s0 r0 : Nat) : ∀ a ∈ clientFlush s0 r0, DFin.Kept a := by
  intro a ha rt hT hg h s'
  have tS := (hT s').start_src; have tV := (hT s').start_valid; have tP := (hT s').pending
  have hs8 := stage_le rt.client.pc s'
  have hvr := valid_in_range rt
  have hnvv := nv_spec rt
  unfold DFinP at h ⊢
  unfold clientFlush at ha
  each_action ha
  client_expose
  all_goals (try (simp only [isOp, atPc, notifySink, setReaderChan, readerChan, readerIdx, getS, getD_stopAllFilters, markFlt, Bool.and_eq_true, Bool.or_eq_true, decide_eq_true_eq, Bool.not_eq_true', ne_eq] at hg ⊢))
  all_goals (try (simp at hg; done))
  all_goals (repeat' split)
  all_goals (intro he hm hF)
  all_goals (first | (cases hm; done) | (obtain ⟨f1⟩ := h _ (Here.intro _) hm hF))
  all_goals constructor
  all_goals (try dsimp only)
  all_goals (repeat' split)
  all_goals (first | assumption | ((try simp only [srcFin] at *) <;> (try simp only [stage] at ⊢) <;> grind [stage]) | (by_cases hs0 : s0 = s' <;> (try subst hs0) <;> (try simp only [stage, srcFin] at *) <;> grind [stage]))

theorem DFin.micro : ∀ rt, MReach rt → ∀ s, DFinP s (getS rt s) rt.client := by
  apply MReach.inv' (fun rt => ∀ s, DFinP s (getS rt s) rt.client)
  · intro ring cfgs prog s _ _ _
    rw [getS_initRT]
    split
    · rename_i hlt; cases cfgs[s] <;> exact ⟨by simp [initStream]⟩
    · exact ⟨by simp⟩
  · intro s a ha rt hr hg h
    refine all_setS_cl DFinP rt s _ ?_ h
    intro he hm hF
    rw [src_keeps_F s a ha] at hF
    exact DFin.src s rt.client rt.state a ha _ hg (TInvAll.micro rt hr s) (DId.micro rt hr s (Here.intro _) hm hF) (h s (Here.intro _) hm hF)
  · intro s a ha rt _ hg h
    refine all_setS_cl DFinP rt s _ ?_ h
    intro he hm hF
    rw [flt_keeps_F a ha] at hF
    exact DFin.flt s rt.client a ha _ hg (h s (Here.intro _) hm hF)
  · intro s a ha rt _ hg h
    refine all_setS_cl DFinP rt s _ ?_ h
    intro he hm hF
    rw [snk_keeps_F s a ha] at hF
    exact DFin.snk s rt.client a ha _ hg (h s (Here.intro _) hm hF)
  · intro a ha rt hr hg h
    exact client_families DFin.Kept DFin.client_base DFin.client_mon DFin.client_cfg DFin.client_start DFin.client_err
      DFin.client_stop DFin.client_acc (fun s r _ => DFin.client_flush s r) a ha rt (TInvAll.micro rt hr) hg h

end AcqVerif.Runtime
