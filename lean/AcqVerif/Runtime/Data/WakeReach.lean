import AcqVerif.Runtime.Data.WA
import AcqVerif.Runtime.Data.WB
import AcqVerif.Runtime.Data.WD
import AcqVerif.Runtime.Data.WE
import AcqVerif.Runtime.Data.WG0
import AcqVerif.Runtime.Data.WG1
import AcqVerif.Runtime.Data.WG2
/-! # M1 — `DWake` holds in every state any schedule reaches -/
namespace AcqVerif.Runtime
open AcqVerif.Channel

theorem DWake.client_flush (s0 r0 : Nat) (hr : r0 ∈ ([2, 0, 1] : List Nat)) : ∀ a ∈ clientFlush s0 r0, DWake.Kept a := by
  simp only [List.mem_cons, List.mem_nil_iff, or_false] at hr
  rcases hr with rfl | rfl | rfl
  · exact DWake.client_flush2 s0
  · exact DWake.client_flush0 s0
  · exact DWake.client_flush1 s0

/-- **no lost wake-up at pipeline level, in every state of every schedule** -/
theorem DWake.micro : ∀ rt, MReach rt → ∀ s, DWakeP s (getS rt s) rt.client := by
  apply MReach.inv' (fun rt => ∀ s, DWakeP s (getS rt s) rt.client)
  · intro ring cfgs prog s _ _
    rw [getS_initRT]
    split
    · rename_i hlt; cases cfgs[s] <;> exact ⟨by simp [initStream], by simp [initStream]⟩
    · exact ⟨by simp, by simp⟩
  · intro s a ha rt hr hg h
    refine all_setS_cl DWakeP rt s _ ?_ h
    intro he hm
    exact DWake.src s rt.client a ha _ hg (DUse.micro rt hr s (Here.intro _) hm) (h s (Here.intro _) hm)
  · intro s a ha rt _ hg h
    refine all_setS_cl DWakeP rt s _ ?_ h
    intro he hm
    exact DWake.flt s rt.client a ha _ hg (h s (Here.intro _) hm)
  · intro s a ha rt hr hg h
    refine all_setS_cl DWakeP rt s _ ?_ h
    intro he hm
    exact DWake.snk s rt.client rt.state a ha _ hg (TInvAll.micro rt hr s) (DUse.micro rt hr s (Here.intro _) hm) (h s (Here.intro _) hm)
  · intro a ha rt hr hg h
    exact client_families DWake.Kept DWake.client_base DWake.client_mon DWake.client_cfg DWake.client_start DWake.client_err
      DWake.client_stop DWake.client_acc DWake.client_flush a ha rt (TInvAll.micro rt hr) (DUse.micro rt hr) hg h

end AcqVerif.Runtime
