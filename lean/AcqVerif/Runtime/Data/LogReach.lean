import AcqVerif.Runtime.Data.LA
import AcqVerif.Runtime.Data.LB
import AcqVerif.Runtime.Data.LC
import AcqVerif.Runtime.Data.LD
import AcqVerif.Runtime.Data.LE
import AcqVerif.Runtime.Data.LF
import AcqVerif.Runtime.Data.LG0
import AcqVerif.Runtime.Data.LG1
import AcqVerif.Runtime.Data.LG2
/-! # M1 — `DLog` holds in every state any schedule reaches -/
namespace AcqVerif.Runtime
open AcqVerif.Channel

theorem DLog.client_flush (s0 r0 : Nat) (hr : r0 ∈ ([2, 0, 1] : List Nat)) : ∀ a ∈ clientFlush s0 r0, DLog.Kept a := by
  simp only [List.mem_cons, List.mem_nil_iff, or_false] at hr
  rcases hr with rfl | rfl | rfl
  · exact DLog.client_flush2 s0
  · exact DLog.client_flush0 s0
  · exact DLog.client_flush1 s0

theorem FramesOk.nil (F total : Nat) : FramesOk [] F total := ⟨List.Pairwise.nil, fun _ h => by cases h⟩

theorem DLog.init (ring : Nat) (c : Option StreamCfg) (prog : List COp) (s : Nat) : DLog s (initStream ring c) { prog := prog } := by
  cases c <;> (constructor <;> simp [initStream, stage, logpos, FramesOk.nil, framesIn_nil])
  all_goals (simp [cv, freshChan, step, Sys.init, readMap, readerInit, readMapAt, readMapCore, nth])

theorem DLog.default (prog : List COp) (s : Nat) : DLog s {} { prog := prog } := by
  constructor <;> simp [stage, logpos, FramesOk.nil, framesIn_nil]
  all_goals (simp [cv, step, Sys.init, readMap, readerInit, readMapAt, readMapCore, nth])

theorem DLogP.worker (s : Nat) (cl : Client) (st st' : Stream)
    (h : cl.misused = false → DLog s st cl → DLog s st' cl) (hp : DLogP s st cl) : DLogP s st' cl := by
  intro _ c
  exact h c (hp (Here.intro _) c)

/-- **the storage log is a run of consecutive committed frames, in every state of every schedule** -/
theorem DLog.micro : ∀ rt, MReach rt → ∀ s, DLogP s (getS rt s) rt.client := by
  apply MReach.inv' (fun rt => ∀ s, DLogP s (getS rt s) rt.client)
  · intro ring cfgs prog s _ _
    rw [getS_initRT]
    split
    · exact DLog.init ring _ prog s
    · exact DLog.default prog s
  · intro s a ha rt hr hg h
    refine all_setS_cl DLogP rt s _ ?_ h
    exact DLogP.worker s rt.client _ _
      (fun hm hd => DLog.src s rt.client a ha _ hg (DUse.micro rt hr s (Here.intro _) hm) hd) (h s)
  · intro s a ha rt _ hg h
    refine all_setS_cl DLogP rt s _ ?_ h
    exact DLogP.worker s rt.client _ _
      (fun _ hd => DLog.flt s rt.client a ha _ hg hd) (h s)
  · intro s a ha rt hr hg h
    refine all_setS_cl DLogP rt s _ ?_ h
    exact DLogP.worker s rt.client _ _
      (fun hm hd => DLog.snk s rt.client rt.state a ha _ hg (TInvAll.micro rt hr s) (DUse.micro rt hr s (Here.intro _) hm) hd) (h s)
  · intro a ha rt hr hg h
    exact client_families DLog.Kept DLog.client_base DLog.client_mon DLog.client_cfg DLog.client_start DLog.client_err
      DLog.client_stop DLog.client_acc DLog.client_flush a ha rt (TInvAll.micro rt hr) (DUse.micro rt hr) hg h

end AcqVerif.Runtime
