import AcqVerif.Runtime.Data.IdDef
/-! # M1 — `DId` is kept by every action of the worker threads -/
namespace AcqVerif.Runtime
open AcqVerif.Channel

set_option maxHeartbeats 4000000 in
theorem DId.src (s : Nat) (cl : Client) (rs : DevState) : ∀ a ∈ srcActs s, ∀ st, a.guard st = true → TInv s st cl rs → DUse s st cl → DLog s st cl →
    0 < st.F → DId s st cl → DId s (a.upd st) cl := by
  intro a ha st hg ht hu hl hF h
  obtain ⟨k1, k2, k3, k4, k5, k6, k7, k8, k9, k10, k11, k12, k13, k14⟩ := hu
  obtain ⟨i1, i2, i3, i3', i4, i4', i5, i6, i7⟩ := h
  have tS := ht.start_src; have hs8 := stage_le cl.pc s
  have hcurn : st.src.pc ≠ .commitLock → st.src.cur = none := by
    intro h
    cases hc : st.src.cur with
    | none => rfl
    | some f => exact absurd (i4 f hc).1 h
  have hwf := cv_wmap_fail st.sinkCh st.F
  have hwo := fun b => cv_wmap_ok k1 st.F b
  have hcm := cv_wcommit k1
  unfold srcActs at ha
  each_action ha
  all_goals (simp only [setSrcPc, atWmap, wmapOut, wmapSys, chanOp, Bool.and_eq_true, Bool.or_eq_true, decide_eq_true_eq, Bool.not_eq_true', ne_eq] at hg ⊢)
  -- src.wmap.ok
  case inr.inr.inr.inr.inr.inr.inr.inr.inl =>
    obtain ⟨b, hb⟩ := (isWok_iff _).mp hg.2
    obtain ⟨hok, hcv⟩ := hwo b hb
    constructor
    all_goals (try simp only [hcv])
    all_goals (first | assumption | grind)
  -- src.wmap.refused
  case inr.inr.inr.inr.inr.inr.inr.inr.inr.inl =>
    have hs : (step st.sinkCh (Op.wmap st.F)).1 = st.sinkCh := by
      apply hwf; intro b hb; have := hg.2; rw [hb] at this; simp [isWok] at this
    constructor
    all_goals (try simp only [hs])
    all_goals (first | assumption | grind)
  -- src.frame.ok
  case inr.inr.inr.inr.inr.inr.inr.inr.inr.inr.inr.inr.inr.inr.inr.inl =>
    have hpc : st.src.pc ≠ .done := by rw [hg.1.1]; simp
    have hcn : st.src.cur = none := by
      cases hc : st.src.cur with
      | none => rfl
      | some f => have := (i4 f hc).1; rw [hg.1.1] at this; cases this
    have hw := i3' hpc
    constructor
    · exact i1
    · exact i2
    · intro _ hd; have := i3 hpc hd; simp [hcn] at this ⊢; omega
    · intro _; simp; omega
    · intro f hf'; simp at hf'; subst hf'; simp; rw [hw]
    · intro h; cases h
    · intro hd; rcases i5 hd with h1 | h1
      · left; exact h1
      · exact absurd h1 hpc
    · exact i6
    · intro h8; have := tS (by omega) (by omega); exact absurd this hpc
  -- src.abort
  case inr.inr.inr.inr.inr.inr.inr.inr.inr.inr.inr.inr.inr.inr.inr.inr.inr.inl =>
    have hsh : srcHold st.src.pc = true := by (have := hg.1; simp_all [srcHold])
    have hp : (cv st.sinkCh).pending = true := by
      rcases k7 hsh with h | h
      · exact h
      · have := hg.1; rw [h.1] at this; cases this
    obtain ⟨hok, hcv⟩ := cv_wabort k1 hp
    constructor
    all_goals (try simp only [hcv, logpos])
    all_goals (first | assumption | grind)
  -- src.commit
  case inr.inr.inr.inr.inr.inr.inr.inr.inr.inr.inr.inr.inr.inr.inr.inr.inr.inr.inl =>
    have hpc : st.src.pc ≠ .done := by rw [hg.1]; simp
    have hsh : srcHold st.src.pc = true := by (have := hg.1; simp_all [srcHold])
    by_cases hcn : st.src.cur = none
    · -- the unmap after an aborted write (empty frame): nothing in flight, nothing changes
      have hs : (step st.sinkCh Op.wcommit).1 = st.sinkCh := wcommit_idle (k14 hg.1 hcn)
      constructor
      all_goals (try simp only [hs, hcn, addFrame, Option.isSome_none, Bool.false_and, Bool.or_false, ite_false, Nat.add_zero, logpos])
      all_goals (first | assumption | grind)
    have hp : (cv st.sinkCh).pending = true := by
      rcases k7 hsh with h | h
      · exact h
      · exact absurd h.2 hcn
    obtain ⟨hok, hcv⟩ := hcm hp
    have hw := k8 hsh
    have ht : (step st.sinkCh Op.wcommit).1.total = (cv (step st.sinkCh Op.wcommit).1).total := rfl
    have ht0 : st.sinkCh.total = (cv st.sinkCh).total := rfl
    obtain ⟨f, hcur⟩ := Option.ne_none_iff_exists'.mp hcn
    obtain ⟨_, hpos, hfid⟩ := i4 f hcur
    cases hacc : (cv st.sinkCh).acc with
    | true =>
      have hnd : st.sto.dropped = false := by
        cases hd : st.sto.dropped with
        | false => rfl
        | true => rcases i5 hd with h1 | h1
                  · rw [hacc] at h1; cases h1
                  · exact absurd h1 hpc
      have hcount := i3 hpc hnd
      simp only [hcur, Option.isSome_some, ite_true] at hcount
      have hgrow : (cv (step st.sinkCh Op.wcommit).1).total > (cv st.sinkCh).total := by
        rw [hcv]; simp only [hacc, ite_true, hw]; omega
      constructor
      all_goals (simp only [ht, ht0, hcv, hacc, ite_true, hw, hcur, Option.isSome_some, addFrame, Bool.true_and])
      all_goals (try simp only [show (cv st.sinkCh).total + st.F > (cv st.sinkCh).total from by omega, decide_true, ite_true, Bool.not_true, Bool.or_false, and_self, if_true])
      · rw [since_snoc_in _ _ _ (by rw [i2]; omega), i1, expected_succ]
        have e1 : st.src.iframe - 1 = st.sto.ncommit := by omega
        rw [i2, hfid, e1]
      · rw [i2]; simp [Nat.add_mul]; omega
      · intro _ _; simp; omega
      · intro _; exact i3' hpc
      · intro f' hf'; cases hf'
      · intro h'; cases h'
      · intro hd; rw [hnd] at hd; cases hd
      · intro h2; have := tS (by omega) (by omega); exact absurd this hpc
      · intro h8; have := tS (by omega) (by omega); exact absurd this hpc
    | false =>
      constructor
      all_goals (simp only [ht, ht0, hcv, hacc, hw, hcur, Option.isSome_some, addFrame, Bool.true_and])
      all_goals (try simp only [show ¬ ((cv st.sinkCh).total + 0 > (cv st.sinkCh).total) from by omega, show ((cv st.sinkCh).total + 0 > (cv st.sinkCh).total) = False from by simp, Nat.add_zero, gt_iff_lt, Nat.lt_irrefl, decide_false, ite_false, Bool.false_eq_true, Bool.not_false, Bool.or_true])
      · exact i1
      · simpa using i2
      · intro _ hd; simp at hd
      · intro _; exact i3' hpc
      · intro f' hf'; cases hf'
      · intro h'; cases h'
      · first | (intro _; left; rfl) | trivial | simp
      · intro h2; have := tS (by omega) (by omega); exact absurd this hpc
      · intro h8; have := tS (by omega) (by omega); exact absurd this hpc
  all_goals (first | (constructor <;> (first | assumption | grind)))
theorem DId.flt (s : Nat) (cl : Client) : ∀ a ∈ fltActs, ∀ st, a.guard st = true → DId s st cl → DId s (a.upd st) cl := by
  intro a ha st hg h
  obtain ⟨i1, i2, i3, i3', i4, i4', i5, i6, i7⟩ := h
  unfold fltActs at ha
  each_action ha
  all_goals (exact ⟨i1, i2, i3, i3', i4, i4', i5, i6, i7⟩)

set_option maxHeartbeats 4000000 in
theorem DId.snk (s : Nat) (cl : Client) (rs : DevState) : ∀ a ∈ snkActs s, ∀ st, a.guard st = true → TInv s st cl rs → DUse s st cl → DId s st cl → DId s (a.upd st) cl := by
  intro a ha st hg ht hu h
  have t1 := ht.start_snk; have t3 := ht.joined_snk; have hs8 := stage_le cl.pc s
  have hch := clHolds0_stop cl.pc s
  obtain ⟨k1, k2, k3, k4, k5, k6, k7, k8, k9, k10, k11, k12, k13, k14⟩ := hu
  obtain ⟨i1, i2, i3, i3', i4, i4', i5, i6, i7⟩ := h
  have hn1 := nrd_pos k3
  have hrm := cv_rmap0 k1 hn1
  have hru := fun k => cv_runmap0 k1 k hn1
  have hac := cv_accept k1 false
  have hml := mapped_pos0 k1 hn1
  unfold snkActs at ha
  each_action ha
  all_goals (simp only [setSnkPc, snkRead, snkFrames, notifySink, chanOp, outLen_eq, getD0_eq, getD_idx0, Bool.and_eq_true, Bool.or_eq_true, decide_eq_true_eq, Bool.not_eq_true', ne_eq] at hg ⊢)
  all_goals (first | (constructor <;> (first | assumption | ((try simp only [snkHold] at *) <;> grind))))

/-- what each client family has to establish -/
def DId.Kept (a : Act RT) : Prop :=
  ∀ rt, TInvAll rt → (∀ s, DUseP s (getS rt s) rt.client) → (∀ s, DLogP s (getS rt s) rt.client) → a.guard rt = true →
    (∀ s, DIdP s (getS rt s) rt.client) → ∀ s, DIdP s (getS (a.upd rt) s) (a.upd rt).client

end AcqVerif.Runtime
