import AcqVerif.Runtime.Data.LogDef
/-! # M1 — `DLog` is kept by every action of the worker threads -/
namespace AcqVerif.Runtime
open AcqVerif.Channel

theorem addFrame_cases (fs : List (Nat × Frame)) (t0 t1 : Nat) (cur : Option Frame) :
    addFrame fs t0 t1 cur = fs ∨ (t0 < t1 ∧ ∃ fr, addFrame fs t0 t1 cur = fs ++ [(t0, fr)]) := by
  unfold addFrame
  cases cur with
  | none => left; rfl
  | some fr =>
    simp only
    split
    · right; exact ⟨by omega, fr, rfl⟩
    · left; rfl

set_option maxHeartbeats 4000000 in
theorem DLog.src (s : Nat) (cl : Client) : ∀ a ∈ srcActs s, ∀ st, a.guard st = true → DUse s st cl → DLog s st cl → DLog s (a.upd st) cl := by
  intro a ha st hg hu h
  obtain ⟨k1, k2, k3, k4, k5, k6, k7, k8, k9, k10, k11, k12, k13, k14⟩ := hu
  obtain ⟨d1, d2, d3, d4⟩ := h
  have hn1 := nrd_pos k3
  have hwf := cv_wmap_fail st.sinkCh st.F
  have hwo := fun b => cv_wmap_ok k1 st.F b
  have hcm := cv_wcommit k1
  have hle := cv_i0_le k1 hn1
  unfold srcActs at ha
  each_action ha
  all_goals (simp only [setSrcPc, atWmap, wmapOut, wmapSys, chanOp, Bool.and_eq_true, Bool.or_eq_true, decide_eq_true_eq, Bool.not_eq_true', ne_eq] at hg ⊢)
  -- src.wmap.ok
  case inr.inr.inr.inr.inr.inr.inr.inr.inl =>
    obtain ⟨b, hb⟩ := (isWok_iff _).mp hg.2
    obtain ⟨hok, hcv⟩ := hwo b hb
    constructor
    all_goals (try simp only [logpos, hcv])
    all_goals (first | assumption | ((try simp only [logpos] at *) <;> grind))
  -- src.wmap.refused
  case inr.inr.inr.inr.inr.inr.inr.inr.inr.inl =>
    have hs : (step st.sinkCh (Op.wmap st.F)).1 = st.sinkCh := by
      apply hwf; intro b hb; have := hg.2; rw [hb] at this; simp [isWok] at this
    constructor
    all_goals (try simp only [logpos, hs])
    all_goals (first | assumption | ((try simp only [logpos] at *) <;> grind))
  -- src.abort
  case inr.inr.inr.inr.inr.inr.inr.inr.inr.inr.inr.inr.inr.inr.inr.inr.inr.inl =>
    have hsh : srcHold st.src.pc = true := by (have := hg.1; simp_all [srcHold])
    have hp : (cv st.sinkCh).pending = true := by
      rcases k7 hsh with h | h
      · exact h
      · have := hg.1; rw [h.1] at this; cases this
    obtain ⟨hok, hcv⟩ := cv_wabort k1 hp
    constructor
    all_goals (try simp only [hcv, logpos])
    all_goals (first | assumption | ((try simp only [logpos] at *) <;> grind))
  -- src.commit
  case inr.inr.inr.inr.inr.inr.inr.inr.inr.inr.inr.inr.inr.inr.inr.inr.inr.inr.inl =>
    have hsh : srcHold st.src.pc = true := by (have := hg.1; simp_all [srcHold])
    by_cases hcn : st.src.cur = none
    · -- the unmap after an aborted write (empty frame): nothing in flight, nothing changes
      have hs : (step st.sinkCh Op.wcommit).1 = st.sinkCh := wcommit_idle (k14 hg.1 hcn)
      constructor
      all_goals (try simp only [hs, hcn, addFrame, Option.isSome_none, Bool.false_and, Bool.or_false, ite_false, Nat.add_zero, logpos])
      all_goals (first | assumption | ((try simp only [logpos] at *) <;> grind))
    have hp : (cv st.sinkCh).pending = true := by
      rcases k7 hsh with h | h
      · exact h
      · exact absurd h.2 hcn
    obtain ⟨hok, hcv⟩ := hcm hp
    have hw := k8 hsh
    have ht : (step st.sinkCh Op.wcommit).1.total = (cv (step st.sinkCh Op.wcommit).1).total := rfl
    rcases addFrame_cases st.sinkFrames st.sinkCh.total (step st.sinkCh Op.wcommit).1.total st.src.cur with e | ⟨hlt, fr, e⟩
    · constructor
      all_goals (simp only [logpos, e, hcv])
      · exact d1.mono (by simp only [cv_total]; omega)
      · intro hc; obtain ⟨a1, a2, a3⟩ := d2 hc; exact ⟨a1, by simp only [cv_total] at *; omega, a3⟩
      · intro hc hd; have := d3 hc hd; simpa [logpos] using this
      · exact d4
    · rw [ht, hcv] at hlt
      have hacc : (cv st.sinkCh).acc = true := by
        cases ha : (cv st.sinkCh).acc with
        | true => rfl
        | false => rw [ha] at hlt; simp at hlt
      constructor
      all_goals (simp only [logpos, e, hcv, hacc, ite_true])
      · rw [hw]; exact d1.snoc fr
      · intro hc
        obtain ⟨a1, a2, a3⟩ := d2 hc
        refine ⟨a1, by simp only [cv_total] at *; omega, ?_⟩
        rw [framesIn_snoc_out _ _ _ _ (by simp only [cv_total] at *; omega)]
        exact a3
      · intro hc hd; have := d3 hc hd; simpa [logpos] using this
      · exact d4
  all_goals (first | (constructor <;> (first | assumption | ((try simp only [logpos] at *) <;> grind))))
theorem DLog.flt (s : Nat) (cl : Client) : ∀ a ∈ fltActs, ∀ st, a.guard st = true → DLog s st cl → DLog s (a.upd st) cl := by
  intro a ha st hg h
  obtain ⟨d1, d2, d3, d4⟩ := h
  unfold fltActs at ha
  each_action ha
  all_goals (exact ⟨d1, d2, d3, d4⟩)

set_option maxHeartbeats 4000000 in
theorem DLog.snk (s : Nat) (cl : Client) (rs : DevState) : ∀ a ∈ snkActs s, ∀ st, a.guard st = true → TInv s st cl rs → DUse s st cl →
    DLog s st cl → DLog s (a.upd st) cl := by
  intro a ha st hg ht hu h
  obtain ⟨k1, k2, k3, k4, k5, k6, k7, k8, k9, k10, k11, k12, k13, k14⟩ := hu
  obtain ⟨d1, d2, d3, d4⟩ := h
  have t1 := ht.start_snk; have t3 := ht.joined_snk; have hs8 := stage_le cl.pc s
  have hch := clHolds0_stop cl.pc s
  have hn1 := nrd_pos k3
  have hrm := cv_rmap0 k1 hn1
  have hru := fun k => cv_runmap0 k1 k hn1
  have hac := cv_accept k1 false
  have hle := cv_i0_le k1 hn1
  have hml := mapped_pos0 k1 hn1
  unfold snkActs at ha
  each_action ha
  all_goals (simp only [setSnkPc, snkRead, snkFrames, notifySink, chanOp, outLen_eq, getD0_eq, getD_idx0, Bool.and_eq_true, Bool.or_eq_true, decide_eq_true_eq, Bool.not_eq_true', ne_eq] at hg ⊢)
  -- snk.append.ok
  case inr.inr.inr.inr.inr.inr.inr.inr.inr.inr.inr.inr.inl =>
    have hpos := k10 (by rw [hg.1]; rfl)
    have hne : st.snk.pc ≠ .done := by rw [hg.1]; simp
    have hnr : st.snk.pc ≠ .runmapLock := by rw [hg.1]; simp
    constructor
    · exact d1
    · intro hc
      obtain ⟨a1, a2, a3⟩ := d2 hc
      have hal := d3 hc hne
      simp only [logpos, if_neg hnr] at hal
      have hidx : st.sto.appended = st.snk.idx := by rw [← hal, hpos.1]
      dsimp only
      refine ⟨by omega, by rw [← hpos.1, ← hpos.2]; exact hle, ?_⟩
      rw [a3, hidx]
      have hb : st.sto.base ≤ st.snk.idx := by omega
      have := framesIn_split st.sinkFrames st.F st.sto.base (st.snk.idx - st.sto.base) st.snk.len d1.1
      rw [show st.sto.base + (st.snk.idx - st.sto.base) = st.snk.idx by omega] at this
      rw [this]
      congr 1; omega
    · intro _ _; simp [logpos]
    · intro hc h2 h4; have := t1 (by omega) h4; rw [hg.1] at this; cases this
  all_goals (first | (constructor <;> (first | assumption | ((try simp only [logpos, snkHold] at *) <;> grind))))

/-- what each client family has to establish -/
def DLog.Kept (a : Act RT) : Prop :=
  ∀ rt, TInvAll rt → (∀ s, DUseP s (getS rt s) rt.client) → a.guard rt = true → (∀ s, DLogP s (getS rt s) rt.client) →
    ∀ s, DLogP s (getS (a.upd rt) s) (a.upd rt).client

end AcqVerif.Runtime
