import AcqVerif.Runtime.Data.EA
import AcqVerif.Runtime.Data.EB
import AcqVerif.Runtime.Data.EC
import AcqVerif.Runtime.Data.EC2
import AcqVerif.Runtime.Data.ED
import AcqVerif.Runtime.Data.EE
import AcqVerif.Runtime.Data.EF
import AcqVerif.Runtime.Data.EG0
import AcqVerif.Runtime.Data.EG1
import AcqVerif.Runtime.Data.EG2
/-! # M1 — `DEnd` holds in every state any schedule reaches -/
namespace AcqVerif.Runtime
open AcqVerif.Channel

theorem DEnd.client_flush (s0 r0 : Nat) (hr : r0 ∈ ([2, 0, 1] : List Nat)) : ∀ a ∈ clientFlush s0 r0, DEnd.Kept a := by
  simp only [List.mem_cons, List.mem_nil_iff, or_false] at hr
  rcases hr with rfl | rfl | rfl
  · exact DEnd.client_flush2 s0
  · exact DEnd.client_flush0 s0
  · exact DEnd.client_flush1 s0

theorem DEnd.init (ring : Nat) (c : Option StreamCfg) (prog : List COp) (s : Nat) : DEnd s (initStream ring c) { prog := prog } := by
  cases c <;> (constructor <;> simp [initStream, stage, srcFin, srcInLoop, snkErr, srcComplete])
  all_goals (simp [cv, freshChan, step, Sys.init, readMap, readerInit, readMapAt, readMapCore, nth])

theorem DEnd.default (prog : List COp) (s : Nat) : DEnd s {} { prog := prog } := by
  constructor <;> simp [stage, srcFin, srcInLoop, snkErr, srcComplete]
  all_goals (simp [cv, step, Sys.init, readMap, readerInit, readMapAt, readMapCore, nth])

/-- **the wind-down chain of an undisturbed acquisition, in every state of every schedule** -/
theorem DEnd.micro : ∀ rt, MReach rt → ∀ s, DEndP s (getS rt s) rt.client := by
  apply MReach.inv' (fun rt => ∀ s, DEndP s (getS rt s) rt.client)
  · intro ring cfgs prog s _ _ _
    rw [getS_initRT]
    split
    · exact DEnd.init ring _ prog s
    · exact DEnd.default prog s
  · intro s a ha rt hr hg h
    refine all_setS_cl DEndP rt s _ ?_ h
    intro he hm hF
    rw [src_keeps_F s a ha] at hF
    exact DEnd.src s rt.client rt.state a ha _ hg (TInvAll.micro rt hr s) (DUse.micro rt hr s (Here.intro _) hm) (DLog.micro rt hr s (Here.intro _) hm)
      (DId.micro rt hr s (Here.intro _) hm hF) hF (h s (Here.intro _) hm hF)
  · intro s a ha rt hr hg h
    refine all_setS_cl DEndP rt s _ ?_ h
    intro he hm hF
    rw [flt_keeps_F a ha] at hF
    exact DEnd.flt s rt.client rt.state a ha _ hg (TInvAll.micro rt hr s) (DUse.micro rt hr s (Here.intro _) hm) (h s (Here.intro _) hm hF)
  · intro s a ha rt hr hg h
    refine all_setS_cl DEndP rt s _ ?_ h
    intro he hm hF
    rw [snk_keeps_F s a ha] at hF
    exact DEnd.snk s rt.client rt.state a ha _ hg (TInvAll.micro rt hr s) (DUse.micro rt hr s (Here.intro _) hm) (DLog.micro rt hr s (Here.intro _) hm)
      (DId.micro rt hr s (Here.intro _) hm hF) (h s (Here.intro _) hm hF)
  · intro a ha rt hr hg h
    exact client_families DEnd.Kept DEnd.client_base DEnd.client_mon DEnd.client_cfg DEnd.client_start DEnd.client_err
      DEnd.client_stop DEnd.client_acc DEnd.client_flush a ha rt (TInvAll.micro rt hr) (DUse.micro rt hr) (DLog.micro rt hr) (DId.micro rt hr) hg h

end AcqVerif.Runtime
