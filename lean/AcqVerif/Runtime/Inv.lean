import AcqVerif.Runtime.Init
/-!
# M1 — invariants of every reachable state, under every schedule

Each invariant is shown for every action of every thread (`srcActs`, `fltActs`, `snkActs`,
`clientBase`, `clientPerStream s`, `clientFlush s r`) and lifted to scheduler steps by
`stepThread_inv`.
-/
namespace AcqVerif.Runtime
open AcqVerif.Channel

/-- a statement about every client action follows from the statement for each family -/
theorem client_families (P : Act RT → Prop) (hb : ∀ a ∈ clientBase, P a)
    (hmon : ∀ s, ∀ a ∈ clMon s, P a) (hcfg : ∀ s, ∀ a ∈ clCfg s, P a) (hstart : ∀ s, ∀ a ∈ clStart s, P a)
    (herr : ∀ s, ∀ a ∈ clErr s, P a) (hstop : ∀ s, ∀ a ∈ clStop s, P a) (hacc : ∀ s, ∀ a ∈ clAcc s, P a)
    (hflush : ∀ s, ∀ r ∈ ([2, 0, 1] : List Nat), ∀ a ∈ clientFlush s r, P a) : ∀ a ∈ clientActs, P a := by
  intro a h
  unfold clientActs clientPerStream at h
  simp only [List.mem_append, List.mem_flatMap] at h
  rcases h with (h | ⟨s, _, h⟩) | ⟨s, _, r, hr, h⟩
  · exact hb a h
  · rcases h with ((((h | h) | h) | h) | h) | h
    · exact hmon s a h
    · exact hcfg s a h
    · exact hstart s a h
    · exact herr s a h
    · exact hstop s a h
    · exact hacc s a h
  · exact hflush s r hr a h

/-! ## how client updates touch a stream -/

@[simp] theorem getS_setPc (rt : RT) (pc : CPc) (s : Nat) : getS (setPc rt pc) s = getS rt s := rfl
@[simp] theorem getS_popOp (rt : RT) (s : Nat) : getS (popOp rt) s = getS rt s := rfl
@[simp] theorem getS_getState (rt : RT) (s : Nat) : getS (getState rt) s = getS rt s := rfl

theorem getS_stopAllFilters (rt : RT) (s : Nat) : getS (stopAllFilters rt) s = markFlt (getS rt s) := by
  unfold stopAllFilters getS
  by_cases h : s < rt.streams.length
  · simp [List.getD, h]
  · simp [List.getD, List.getElem?_eq_none (Nat.le_of_not_lt h)]; rfl

theorem getD_stopAllFilters (rt : RT) (s : Nat) : (stopAllFilters rt).streams.getD s {} = markFlt (rt.streams.getD s {}) :=
  getS_stopAllFilters rt s

theorem getS_modS (rt : RT) (s s' : Nat) (f : Stream → Stream) :
    getS (modS rt s f) s' = if s = s' ∧ s < rt.streams.length then f (getS rt s) else getS rt s' := by
  unfold modS setS getS
  by_cases e : s = s'
  · subst e
    by_cases h : s < rt.streams.length
    · simp [List.getD, h]
    · simp [List.getD, h, List.getElem?_eq_none (Nat.le_of_not_lt h)]
  · simp [List.getD, e]

/-- a property of streams that every `modS` with a `P`-preserving function keeps -/
theorem all_modS (P : Stream → Prop) (rt : RT) (s : Nat) (f : Stream → Stream)
    (hf : P (getS rt s) → P (f (getS rt s))) (h : ∀ s', P (getS rt s')) : ∀ s', P (getS (modS rt s f) s') := by
  intro s'
  rw [getS_modS]
  split
  · exact hf (h s)
  · exact h s'

theorem getD_set' {α : Type} (l : List α) (i j : Nat) (v d : α) :
    (l.set i v).getD j d = if i = j ∧ i < l.length then v else l.getD j d := by
  by_cases e : i = j
  · subst e
    by_cases h : i < l.length
    · simp [List.getD, h]
    · simp [List.getD, h, List.getElem?_eq_none (Nat.le_of_not_lt h)]
  · simp [List.getD, e]

/-- unfold what a client action does to the streams -/
macro "client_streams" : tactic =>
  `(tactic| simp only [getS, modS, setS, setPc, popOp, getState, notifyIf, getD_set', getD_stopAllFilters, markFlt] at *)

set_option hygiene false in
/-- split `ha : a ∈ [x₁, …, xₙ]` into one goal per action -/
macro "each_action" h:ident : tactic =>
  `(tactic| (simp only [List.cons_append, List.nil_append, List.mem_cons, List.mem_nil_iff, or_false] at $h:ident
             repeat' (first | (rcases $h:ident with rfl | $h:ident) | subst $h:ident)))

set_option hygiene false in
/-- after `each_action` on a client family: expose which stream record the action rewrites -/
macro "client_expose" : tactic =>
  `(tactic| (all_goals (try dsimp only at hg ⊢)
             all_goals (repeat' split)
             all_goals (try client_streams)
             all_goals (repeat' split)
             all_goals (try client_streams)
             all_goals (repeat' split)))


/-! ## Inv1 — a failed storage is not appended to again -/

/-- per stream: a failed storage is not Running; the sink is at its `append` only with a storage that has not
failed; no append has ever reached a storage after it failed -/
structure StoOk (st : Stream) : Prop where
  failed_not_running : st.sto.failed = true → st.sto.state ≠ .running
  append_not_failed : st.snk.pc = .append → st.sto.failed = false
  none_after_failure : st.sto.appendsAfterFailure = 0

theorem StoOk.src (s : Nat) : ∀ a ∈ srcActs s, ∀ st, a.guard st = true → StoOk st → StoOk (a.upd st) := by
  intro a ha st _ h
  simp only [srcActs, List.mem_cons, List.mem_nil_iff, or_false] at ha
  rcases ha with rfl | rfl | rfl | rfl | rfl | rfl | rfl | rfl | rfl | rfl | rfl | rfl | rfl | rfl | rfl | rfl | rfl | rfl | rfl | rfl <;>
    exact ⟨h.1, h.2, h.3⟩

theorem StoOk.flt : ∀ a ∈ fltActs, ∀ st, a.guard st = true → StoOk st → StoOk (a.upd st) := by
  intro a ha st _ h
  simp only [fltActs, List.mem_cons, List.mem_nil_iff, or_false] at ha
  rcases ha with rfl | rfl | rfl | rfl | rfl | rfl | rfl | rfl | rfl | rfl <;> exact ⟨h.1, h.2, h.3⟩

theorem StoOk.snk (s : Nat) : ∀ a ∈ snkActs s, ∀ st, a.guard st = true → StoOk st → StoOk (a.upd st) := by
  intro a ha st hg h
  have h1 := h.1; have h2 := h.2; have h3 := h.3
  simp only [snkActs, List.mem_cons, List.mem_nil_iff, or_false] at ha
  rcases ha with rfl | rfl | rfl | rfl | rfl | rfl | rfl | rfl | rfl | rfl | rfl | rfl | rfl | rfl | rfl | rfl | rfl | rfl | rfl | rfl | rfl | rfl | rfl | rfl <;>
    (refine ⟨?_, ?_, ?_⟩ <;> simp_all [setSnkPc, notifySink])



theorem StoOk.client_base : ∀ a ∈ clientBase, ∀ rt, a.guard rt = true → (∀ s, StoOk (getS rt s)) → ∀ s, StoOk (getS (a.upd rt) s) := by
  intro a ha rt hg h s'
  have hs := h s'
  unfold clientBase at ha
  each_action ha
  client_expose
  all_goals (first | (simp_all; done) | exact hs | exact ⟨(h _).1, (h _).2, (h _).3⟩)

theorem StoOk.client_clMon (s0 : Nat) : ∀ a ∈ clMon s0, ∀ rt, a.guard rt = true → (∀ s, StoOk (getS rt s)) → ∀ s, StoOk (getS (a.upd rt) s) := by
  intro a ha rt hg h s'
  have hs := h s'
  unfold clMon at ha
  each_action ha
  client_expose
  all_goals (first | (simp_all; done) | exact hs | exact ⟨(h _).1, (h _).2, (h _).3⟩ | (obtain ⟨a1, a2, a3⟩ := h s0; refine ⟨?_, ?_, ?_⟩ <;> simp_all [notifySink] <;> done) | (obtain ⟨a1, a2, a3⟩ := h s0; refine ⟨?_, ?_, ?_⟩ <;> (unfold setReaderChan; repeat' split) <;> simp_all <;> done))

theorem StoOk.client_clCfg (s0 : Nat) : ∀ a ∈ clCfg s0, ∀ rt, a.guard rt = true → (∀ s, StoOk (getS rt s)) → ∀ s, StoOk (getS (a.upd rt) s) := by
  intro a ha rt hg h s'
  have hs := h s'
  unfold clCfg at ha
  each_action ha
  client_expose
  all_goals (first | (simp_all; done) | exact hs | exact ⟨(h _).1, (h _).2, (h _).3⟩ | (obtain ⟨a1, a2, a3⟩ := h s0; refine ⟨?_, ?_, ?_⟩ <;> simp_all [notifySink] <;> done) | (obtain ⟨a1, a2, a3⟩ := h s0; refine ⟨?_, ?_, ?_⟩ <;> (unfold setReaderChan; repeat' split) <;> simp_all <;> done))

theorem StoOk.client_clStart (s0 : Nat) : ∀ a ∈ clStart s0, ∀ rt, a.guard rt = true → (∀ s, StoOk (getS rt s)) → ∀ s, StoOk (getS (a.upd rt) s) := by
  intro a ha rt hg h s'
  have hs := h s'
  unfold clStart at ha
  each_action ha
  client_expose
  all_goals (first | (simp_all; done) | exact hs | exact ⟨(h _).1, (h _).2, (h _).3⟩ | (obtain ⟨a1, a2, a3⟩ := h s0; refine ⟨?_, ?_, ?_⟩ <;> simp_all [notifySink] <;> done) | (obtain ⟨a1, a2, a3⟩ := h s0; refine ⟨?_, ?_, ?_⟩ <;> (unfold setReaderChan; repeat' split) <;> simp_all <;> done))

theorem StoOk.client_clErr (s0 : Nat) : ∀ a ∈ clErr s0, ∀ rt, a.guard rt = true → (∀ s, StoOk (getS rt s)) → ∀ s, StoOk (getS (a.upd rt) s) := by
  intro a ha rt hg h s'
  have hs := h s'
  unfold clErr at ha
  each_action ha
  client_expose
  all_goals (first | (simp_all; done) | exact hs | exact ⟨(h _).1, (h _).2, (h _).3⟩ | (obtain ⟨a1, a2, a3⟩ := h s0; refine ⟨?_, ?_, ?_⟩ <;> simp_all [notifySink] <;> done) | (obtain ⟨a1, a2, a3⟩ := h s0; refine ⟨?_, ?_, ?_⟩ <;> (unfold setReaderChan; repeat' split) <;> simp_all <;> done))

theorem StoOk.client_clStop (s0 : Nat) : ∀ a ∈ clStop s0, ∀ rt, a.guard rt = true → (∀ s, StoOk (getS rt s)) → ∀ s, StoOk (getS (a.upd rt) s) := by
  intro a ha rt hg h s'
  have hs := h s'
  unfold clStop at ha
  each_action ha
  client_expose
  all_goals (first | (simp_all; done) | exact hs | exact ⟨(h _).1, (h _).2, (h _).3⟩ | (obtain ⟨a1, a2, a3⟩ := h s0; refine ⟨?_, ?_, ?_⟩ <;> simp_all [notifySink] <;> done) | (obtain ⟨a1, a2, a3⟩ := h s0; refine ⟨?_, ?_, ?_⟩ <;> (unfold setReaderChan; repeat' split) <;> simp_all <;> done))

theorem StoOk.client_clAcc (s0 : Nat) : ∀ a ∈ clAcc s0, ∀ rt, a.guard rt = true → (∀ s, StoOk (getS rt s)) → ∀ s, StoOk (getS (a.upd rt) s) := by
  intro a ha rt hg h s'
  have hs := h s'
  unfold clAcc at ha
  each_action ha
  client_expose
  all_goals (first | (simp_all; done) | exact hs | exact ⟨(h _).1, (h _).2, (h _).3⟩ | (obtain ⟨a1, a2, a3⟩ := h s0; refine ⟨?_, ?_, ?_⟩ <;> simp_all [notifySink] <;> done) | (obtain ⟨a1, a2, a3⟩ := h s0; refine ⟨?_, ?_, ?_⟩ <;> (unfold setReaderChan; repeat' split) <;> simp_all <;> done))

theorem StoOk.client_flush (s0 r0 : Nat) : ∀ a ∈ clientFlush s0 r0, ∀ rt, a.guard rt = true → (∀ s, StoOk (getS rt s)) → ∀ s, StoOk (getS (a.upd rt) s) := by
  intro a ha rt hg h s'
  have hs := h s'
  unfold clientFlush at ha
  each_action ha
  client_expose
  all_goals (first | (simp_all; done) | exact hs | exact ⟨(h _).1, (h _).2, (h _).3⟩ | (obtain ⟨a1, a2, a3⟩ := h s0; refine ⟨?_, ?_, ?_⟩ <;> simp_all [notifySink] <;> done) | (obtain ⟨a1, a2, a3⟩ := h s0; refine ⟨?_, ?_, ?_⟩ <;> (unfold setReaderChan; repeat' split) <;> simp_all <;> done))

theorem StoOk.client : ∀ a ∈ clientActs, ∀ rt, a.guard rt = true → (∀ s, StoOk (getS rt s)) → ∀ s, StoOk (getS (a.upd rt) s) :=
  client_families _ StoOk.client_base StoOk.client_clMon StoOk.client_clCfg StoOk.client_clStart StoOk.client_clErr
    StoOk.client_clStop StoOk.client_clAcc (fun s r _ => StoOk.client_flush s r)

/-! ## lifting to scheduler steps and reachable states -/

theorem setS_getS (rt : RT) (s : Nat) : setS rt s (getS rt s) = rt := by
  unfold setS getS
  by_cases h : s < rt.streams.length
  · have : rt.streams.set s (rt.streams.getD s {}) = rt.streams := by
      apply List.ext_getElem (by simp)
      intro i h1 h2
      by_cases e : s = i
      · subst e; simp [List.getD, h]
      · simp [List.getElem_set, e]
    rw [this]
  · rw [List.set_eq_of_length_le (Nat.le_of_not_lt h)]

theorem setS_setS (rt : RT) (s : Nat) (x y : Stream) : setS (setS rt s x) s y = setS rt s y := by
  simp [setS, List.set_set]

/-- **Proof principle for the whole system**: an invariant kept by every action of every thread (a worker's
action is applied to its own stream record) is kept by every scheduler step. -/
theorem rtStep_inv (I : RT → Prop)
    (hsrc : ∀ s, ∀ a ∈ srcActs s, ∀ rt, a.guard (getS rt s) = true → I rt → I (setS rt s (a.upd (getS rt s))))
    (hflt : ∀ s, ∀ a ∈ fltActs, ∀ rt, a.guard (getS rt s) = true → I rt → I (setS rt s (a.upd (getS rt s))))
    (hsnk : ∀ s, ∀ a ∈ snkActs s, ∀ rt, a.guard (getS rt s) = true → I rt → I (setS rt s (a.upd (getS rt s))))
    (hcl : ∀ a ∈ clientActs, ∀ rt, a.guard rt = true → I rt → I (a.upd rt))
    (rt : RT) (t : Nat) (rt' : RT) (o : List String) (h : rtStep rt t = some (rt', o)) (hI : I rt) : I rt' := by
  -- a worker thread of stream `s`, in general
  have worker : ∀ (s : Nat) (acts : List (Act Stream)) (parked : Stream → Bool) (fuel : Nat),
      (∀ a ∈ acts, ∀ rt, a.guard (getS rt s) = true → I rt → I (setS rt s (a.upd (getS rt s)))) →
      ∀ st o, stepThread acts parked fuel (getS rt s) = some (st, o) → I (setS rt s st) := by
    intro s acts parked fuel hacts st o hst
    by_cases hlen : s < rt.streams.length
    · refine stepThread_inv (fun x => I (setS rt s x)) acts parked fuel ?_ (getS rt s) st o hst (by simpa [setS_getS] using hI)
      intro a ha x hg hx
      have := hacts a ha (setS rt s x) (by rw [getS_setS_same _ _ _ hlen]; exact hg) hx
      rw [getS_setS_same _ _ _ hlen, setS_setS] at this
      exact this
    · have : setS rt s st = rt := by
        unfold setS; rw [List.set_eq_of_length_le (Nat.le_of_not_lt hlen)]
      rw [this]; exact hI
  unfold rtStep at h
  split at h
  · exact stepThread_inv I clientActs clientParked _ hcl rt rt' o h hI
  · split at h
    · cases h
    · rename_i s _
      cases hs : srcStep s (getS rt s) with
      | none => rw [hs] at h; cases h
      | some r =>
        obtain ⟨st, o'⟩ := r
        rw [hs] at h; simp only [Option.map_some, Option.some.injEq, Prod.mk.injEq] at h
        rw [← h.1]; exact worker s _ _ _ (hsrc s) st o' hs
    · rename_i s _
      cases hs : snkStep s (getS rt s) with
      | none => rw [hs] at h; cases h
      | some r =>
        obtain ⟨st, o'⟩ := r
        rw [hs] at h; simp only [Option.map_some, Option.some.injEq, Prod.mk.injEq] at h
        rw [← h.1]; exact worker s _ _ _ (hsnk s) st o' hs
    · rename_i s _
      cases hs : fltStep (getS rt s) with
      | none => rw [hs] at h; cases h
      | some r =>
        obtain ⟨st, o'⟩ := r
        rw [hs] at h; simp only [Option.map_some, Option.some.injEq, Prod.mk.injEq] at h
        rw [← h.1]; exact worker s _ _ _ (hflt s) st o' hs

/-- reachable states satisfy every invariant that holds initially and is kept by every action -/
theorem RReach.inv (init I : RT → Prop) (h0 : ∀ rt, init rt → I rt)
    (hstep : ∀ rt t rt' o, rtStep rt t = some (rt', o) → I rt → I rt') : ∀ rt, RReach init rt → I rt := by
  intro rt hr
  induction hr with
  | init rt h => exact h0 rt h
  | step rt t rt' o _ hs ih => exact hstep rt t rt' o hs ih

/-- a per-stream property kept by the workers' actions on their own record is kept as a property of all streams -/
theorem all_setS (P : Stream → Prop) (rt : RT) (s : Nat) (st : Stream) (hst : P st) (h : ∀ s', P (getS rt s')) :
    ∀ s', P (getS (setS rt s st) s') := by
  intro s'
  by_cases e : s = s'
  · subst e
    by_cases hl : s < rt.streams.length
    · rw [getS_setS_same _ _ _ hl]; exact hst
    · have : setS rt s st = rt := by unfold setS; rw [List.set_eq_of_length_le (Nat.le_of_not_lt hl)]
      rw [this]; exact h s
  · rw [getS_setS_other _ _ _ _ e]; exact h s'

/-- **Proof principle, complete**: an invariant that holds in the configured initial state of every scenario and is
kept by every action of every thread holds in every state that any schedule reaches. -/
theorem Reach.inv (I : RT → Prop)
    (h0 : ∀ ring cfgs prog, I (initRT ring cfgs prog))
    (hsrc : ∀ s, ∀ a ∈ srcActs s, ∀ rt, a.guard (getS rt s) = true → I rt → I (setS rt s (a.upd (getS rt s))))
    (hflt : ∀ s, ∀ a ∈ fltActs, ∀ rt, a.guard (getS rt s) = true → I rt → I (setS rt s (a.upd (getS rt s))))
    (hsnk : ∀ s, ∀ a ∈ snkActs s, ∀ rt, a.guard (getS rt s) = true → I rt → I (setS rt s (a.upd (getS rt s))))
    (hcl : ∀ a ∈ clientActs, ∀ rt, a.guard rt = true → I rt → I (a.upd rt)) :
    ∀ rt, Reach rt → I rt := by
  apply RReach.inv IsBoot I
  · rintro rt ⟨ring, cfgs, prog, rfl⟩
    exact settleT_inv I clientActs clientParked hcl _ (initRT ring cfgs prog, []) (h0 ring cfgs prog)
  · exact rtStep_inv I hsrc hflt hsnk hcl

/-- a per-stream invariant: holds for every initial stream, kept by the workers on their own record and by the client -/
theorem Reach.inv_streams (P : Stream → Prop)
    (h0 : ∀ ring c, P (initStream ring c)) (hd : P {})
    (hsrc : ∀ s, ∀ a ∈ srcActs s, ∀ st, a.guard st = true → P st → P (a.upd st))
    (hflt : ∀ a ∈ fltActs, ∀ st, a.guard st = true → P st → P (a.upd st))
    (hsnk : ∀ s, ∀ a ∈ snkActs s, ∀ st, a.guard st = true → P st → P (a.upd st))
    (hcl : ∀ a ∈ clientActs, ∀ rt, a.guard rt = true → (∀ s, P (getS rt s)) → ∀ s, P (getS (a.upd rt) s)) :
    ∀ rt, Reach rt → ∀ s, P (getS rt s) := by
  apply Reach.inv (fun rt => ∀ s, P (getS rt s))
  · intro ring cfgs prog s
    rw [getS_initRT]; split
    · exact h0 _ _
    · exact hd
  · intro s a ha rt hg h; exact all_setS P rt s _ (hsrc s a ha _ hg (h s)) h
  · intro s a ha rt hg h; exact all_setS P rt s _ (hflt a ha _ hg (h s)) h
  · intro s a ha rt hg h; exact all_setS P rt s _ (hsnk s a ha _ hg (h s)) h
  · exact hcl

/-- **Inv1 holds in every reachable state, under every schedule** -/
theorem StoOk.reach : ∀ rt, Reach rt → ∀ s, StoOk (getS rt s) := by
  apply Reach.inv_streams StoOk
  · intro ring c; cases c <;> exact ⟨by simp [initStream], by simp [initStream], by simp [initStream]⟩
  · exact ⟨by simp, by simp, by simp⟩
  · exact StoOk.src
  · exact StoOk.flt
  · exact StoOk.snk
  · exact StoOk.client

end AcqVerif.Runtime
