import AcqVerif.Runtime.Cam.Reach
/-!
# M1 — consequences of the invariants: what holds when a call has returned
-/
namespace AcqVerif.Runtime
open AcqVerif.Channel

theorem stage_of_pending_none (pc : CPc) (s : Nat) (h : pendingFrom pc = none) : stage pc s = 0 := by
  unfold pendingFrom at h
  unfold stage
  split at h
  all_goals (first | cases h | skip)
  split <;> simp_all
theorem stage_of_quiet (pc : CPc) (s : Nat) (h : quiet pc = true) : stage pc s = 0 := by
  apply stage_of_pending_none
  unfold quiet at h
  simp only [Bool.and_eq_true, Option.isNone_iff_eq_none] at h
  exact h.1.1.1

/-- everything belonging to stream `st` is at rest -/
structure Clean (st : Stream) : Prop where
  workers : AllDone st
  flags : st.srcRunning = false ∧ st.fltRunning = false ∧ st.snkRunning = false
  camera : st.cam.state ≠ .running
  storage : st.sto.state ≠ .running

/-- outside `acquire_start`/`acquire_abort`/`acquire_stop`, a runtime whose state is not Running has no worker
thread left, and every camera and storage device is stopped -/
theorem idle_is_clean (rt : RT) (hr : MReach rt) (hq : quiet rt.client.pc = true) (hs : rt.state ≠ .running) (s : Nat) :
    Clean (getS rt s) := by
  have t := TInvAll.micro rt hr s
  have h0 := stage_of_quiet rt.client.pc s hq
  have hd := t.quiet_done hq hs
  have f1 := t.src_done hd.1 (by omega)
  have f2 := t.flt_done hd.2.1 (by omega)
  have f3 := t.snk_done hd.2.2 (by omega)
  refine ⟨hd, ⟨f1, f2, f3⟩, ?_, ?_⟩
  · intro hc; have := t.cam_running hc; simp_all
  · intro hc; rcases t.sto_running hc with h | h | h <;> simp_all

theorem alive_false_of (rt : RT) (h : ∀ s, (getS rt s).srcRunning = false ∧ (getS rt s).fltRunning = false ∧ (getS rt s).snkRunning = false) :
    alive rt = false := by
  unfold alive
  rw [List.any_eq_false]
  intro x hx
  obtain ⟨i, hi, rfl⟩ := List.mem_iff_getElem.mp hx
  have := h i
  unfold getS at this
  simp [List.getD, hi] at this
  simp [this]

/-- `acquire_get_state` does not say Running once every worker has exited -/
theorem not_running_once_workers_exited (rt : RT) (hr : MReach rt) (hq : quiet rt.client.pc = true)
    (hd : ∀ s, AllDone (getS rt s)) : (getState rt).state ≠ .running := by
  have hal : alive rt = false := by
    apply alive_false_of
    intro s
    have t := TInvAll.micro rt hr s
    have h0 := stage_of_quiet rt.client.pc s hq
    exact ⟨t.src_done (hd s).1 (by omega), t.flt_done (hd s).2.1 (by omega), t.snk_done (hd s).2.2 (by omega)⟩
  unfold getState
  simp only
  split
  · rw [hal]; simp
  · assumption

/-- `acquire_get_state` says Running only while some configured stream still has a worker that has not finished -/
theorem running_means_a_worker_is_alive (rt : RT) (hr : MReach rt) (h : (getState rt).state = .running) :
    ∃ s, (getS rt s).valid = true ∧ ¬ AllDone (getS rt s) := by
  unfold getState at h
  simp only at h
  split at h
  · split at h
    · rename_i _ hal
      unfold alive at hal
      rw [List.any_eq_true] at hal
      obtain ⟨x, hx, hflag⟩ := hal
      obtain ⟨i, hi, rfl⟩ := List.mem_iff_getElem.mp hx
      have hg : getS rt i = rt.streams[i] := by unfold getS; simp [List.getD, hi]
      refine ⟨i, ?_, ?_⟩
      · rw [hg]; simp_all
      · have t := TInvAll.micro rt hr i
        rw [hg] at t ⊢
        intro hd
        simp only [Bool.and_eq_true, Bool.or_eq_true] at hflag
        -- a set flag with a finished thread happens only inside acquire_start, where runtime.state is not yet Running
        have hst : rt.state = .running := by assumption
        have hp : pendingFrom rt.client.pc = none := by
          cases hpf : pendingFrom rt.client.pc with
          | none => rfl
          | some k => exact absurd hst (t.start_not_running (by rw [hpf]; rfl))
        have h0 := stage_of_pending_none rt.client.pc i hp
        rcases hflag.2 with (h1 | h2) | h3
        · have := t.src_done hd.1 (by omega); simp_all
        · have := t.flt_done hd.2.1 (by omega); simp_all
        · have := t.snk_done hd.2.2 (by omega); simp_all
    · cases h
  · rename_i hne; exact absurd h hne
end AcqVerif.Runtime
