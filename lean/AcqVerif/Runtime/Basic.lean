import AcqVerif.Runtime.Client
/-!
# M1 — reachability, and the proof principle for guarded-command threads:
an invariant preserved by every action is preserved by every scheduler step
-/
namespace AcqVerif.Runtime
open AcqVerif.Channel

theorem fire_some {σ : Type} (acts : List (Act σ)) (x y : σ) (o : List String) (h : fire acts x = some (y, o)) :
    ∃ a ∈ acts, a.guard x = true ∧ y = a.upd x := by
  unfold fire at h
  cases hf : acts.find? (fun a => a.guard x) with
  | none => rw [hf] at h; cases h
  | some a =>
    rw [hf] at h
    simp only [Option.map_some, Option.some.injEq, Prod.mk.injEq] at h
    exact ⟨a, List.mem_of_find?_eq_some hf, by simpa using List.find?_some hf, h.1.symm⟩

theorem settleT_inv {σ : Type} (P : σ → Prop) (acts : List (Act σ)) (parked : σ → Bool)
    (hP : ∀ a ∈ acts, ∀ x, a.guard x = true → P x → P (a.upd x)) :
    ∀ (n : Nat) (r : σ × List String), P r.1 → P (settleT acts parked n r).1 := by
  intro n
  induction n with
  | zero => intro r h; exact h
  | succ n ih =>
    intro r h
    obtain ⟨y, o⟩ := r
    unfold settleT
    split
    · exact h
    · cases hf : fire acts y with
      | none => exact h
      | some zo =>
        obtain ⟨z, o'⟩ := zo
        simp only
        obtain ⟨a, ha, hg, e⟩ := fire_some acts y z o' hf
        exact ih (z, o ++ o') (by rw [e]; exact hP a ha y hg h)

/-- **Proof principle**: what every action preserves, every scheduler step of the thread preserves. -/
theorem stepThread_inv {σ : Type} (P : σ → Prop) (acts : List (Act σ)) (parked : σ → Bool) (fuel : Nat)
    (hP : ∀ a ∈ acts, ∀ x, a.guard x = true → P x → P (a.upd x))
    (x y : σ) (o : List String) (h : stepThread acts parked fuel x = some (y, o)) (hx : P x) : P y := by
  unfold stepThread at h
  cases hf : fire acts x with
  | none => rw [hf] at h; cases h
  | some r =>
    rw [hf] at h
    simp only [Option.some.injEq] at h
    obtain ⟨z, o'⟩ := r
    obtain ⟨a, ha, hg, e⟩ := fire_some acts x z o' hf
    have := settleT_inv P acts parked hP fuel (z, o') (by rw [e]; exact hP a ha x hg hx)
    rw [h] at this; exact this

/-- reachable states of the runtime model: any schedule, from any state satisfying `init` -/
inductive RReach (init : RT → Prop) : RT → Prop
  | init (rt : RT) : init rt → RReach init rt
  | step (rt : RT) (t : Nat) (rt' : RT) (o : List String) : RReach init rt → rtStep rt t = some (rt', o) → RReach init rt'

theorem getS_setS_same (rt : RT) (s : Nat) (st : Stream) (h : s < rt.streams.length) : getS (setS rt s st) s = st := by
  simp [getS, setS, List.getD, h]

theorem getS_setS_other (rt : RT) (s s' : Nat) (st : Stream) (h : s ≠ s') : getS (setS rt s st) s' = getS rt s' := by
  simp [getS, setS, List.getD, h]

end AcqVerif.Runtime
