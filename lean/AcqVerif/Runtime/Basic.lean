import AcqVerif.Runtime.Client
/-!
# M1 — reachability and frame lemmas (which thread step can change which part of a stream)
-/
namespace AcqVerif.Runtime
open AcqVerif.Channel

/-- reachable states of the runtime model: any schedule, from any state the window can open in -/
inductive RReach (init : RT → Prop) : RT → Prop
  | init (rt : RT) : init rt → RReach init rt
  | step (rt : RT) (t : Nat) (rt' : RT) : RReach init rt → rtStep rt t = some rt' → RReach init rt'

theorem getS_setS_same (rt : RT) (s : Nat) (st : Stream) (h : s < rt.streams.length) : getS (setS rt s st) s = st := by
  simp [getS, setS, List.getD, h]

theorem getS_setS_other (rt : RT) (s s' : Nat) (st : Stream) (h : s ≠ s') : getS (setS rt s st) s' = getS rt s' := by
  simp [getS, setS, List.getD, List.getElem?_set, h]

theorem setS_length (rt : RT) (s : Nat) (st : Stream) : (setS rt s st).streams.length = rt.streams.length := by
  simp [setS]

end AcqVerif.Runtime
