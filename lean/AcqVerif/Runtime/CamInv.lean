import AcqVerif.Runtime.TInv.Reach
/-!
# M1 — the camera: no frame call after a failed one, and one driver `stop` per driver `start`
-/
namespace AcqVerif.Runtime
open AcqVerif.Channel

/-- like `MReach.inv`, but every preservation step may also use that the pre-state is reachable
(hence every invariant proved before) -/
theorem MReach.inv' (I : RT → Prop)
    (h0 : ∀ ring cfgs prog, I (initRT ring cfgs prog))
    (hsrc : ∀ s, ∀ a ∈ srcActs s, ∀ rt, MReach rt → a.guard (getS rt s) = true → I rt → I (setS rt s (a.upd (getS rt s))))
    (hflt : ∀ s, ∀ a ∈ fltActs, ∀ rt, MReach rt → a.guard (getS rt s) = true → I rt → I (setS rt s (a.upd (getS rt s))))
    (hsnk : ∀ s, ∀ a ∈ snkActs s, ∀ rt, MReach rt → a.guard (getS rt s) = true → I rt → I (setS rt s (a.upd (getS rt s))))
    (hcl : ∀ a ∈ clientActs, ∀ rt, MReach rt → a.guard rt = true → I rt → I (a.upd rt)) :
    ∀ rt, MReach rt → I rt := by
  intro rt h
  induction h with
  | init ring cfgs prog => exact h0 ring cfgs prog
  | client rt a hr ha hg ih => exact hcl a ha rt hr hg ih
  | src rt s a hr ha hg ih => exact hsrc s a ha rt hr hg ih
  | flt rt s a hr ha hg ih => exact hflt s a ha rt hr hg ih
  | snk rt s a hr ha hg ih => exact hsnk s a ha rt hr hg ih

/-- a per-stream statement (relative to the client) lifted over `setS` -/
theorem all_setS_cl (Q : Nat → Stream → Client → Prop) (rt : RT) (s : Nat) (st : Stream)
    (hst : Q s st rt.client) (h : ∀ s', Q s' (getS rt s') rt.client) :
    ∀ s', Q s' (getS (setS rt s st) s') (setS rt s st).client := by
  intro s'
  have hc : (setS rt s st).client = rt.client := rfl
  rw [hc]
  by_cases e : s = s'
  · subst e
    by_cases hl : s < rt.streams.length
    · rw [getS_setS_same _ _ _ hl]; exact hst
    · have : setS rt s st = rt := by unfold setS; rw [List.set_eq_of_length_le (Nat.le_of_not_lt hl)]
      rw [this]; exact h s
  · rw [getS_setS_other _ _ _ _ e]; exact h s'

structure CamOk (s : Nat) (st : Stream) (cl : Client) : Prop where
  /-- after a failed `get_frame` the camera is on its way to being stopped, or stopped -/
  failed_stopped : st.cam.failed = true → st.src.pc = .failStop ∨ st.cam.state ≠ .running
  frame_not_failed : st.src.pc = .getFrame → st.cam.failed = false
  /-- **no `get_frame` reaches the driver after a failed one** -/
  none_after_failure : st.cam.callsAfterFailure = 0
  fresh_at_create : stage cl.pc s = 8 → st.cam.failed = false
  /-- **driver starts and stops pair up**: one more start than stops exactly while the camera is Running -/
  count : st.cam.drvStarts = st.cam.drvStops + (if st.cam.state = .running then 1 else 0)
  /-- the driver's `start` is called on an Armed camera -/
  armed_at_start : stage cl.pc s = 7 → st.cam.state = .armed
  /-- the driver's `get_frame` and `stop` are called on a Running camera -/
  frame_running : st.src.pc = .getFrame → st.cam.state = .running
  stop_running : st.src.pc = .camStop ∨ st.src.pc = .failStop → st.cam.state = .running
  err_stop_running : cl.pc = .errCamStop s → st.cam.state = .running

theorem CamOk.src (s : Nat) (cl : Client) (rs : DevState) : ∀ a ∈ srcActs s, ∀ st, a.guard st = true → TInv s st cl rs → CamOk s st cl → CamOk s (a.upd st) cl := by
  intro a ha st hg ht h
  obtain ⟨k1, k2, k3, k4, k5, k6, k7, k8, k9⟩ := h
  have t1 := ht.start_src; have t2 := ht.after_err_stop
  unfold srcActs at ha
  each_action ha
  all_goals (simp only [setSrcPc, atWmap, Bool.and_eq_true, Bool.or_eq_true, decide_eq_true_eq, Bool.not_eq_true', ne_eq] at hg ⊢)
  all_goals constructor
  all_goals (first | assumption | (unfold AllDone at *; grind [afterErrStop, stage]))

theorem CamOk.flt (s : Nat) (cl : Client) : ∀ a ∈ fltActs, ∀ st, a.guard st = true → CamOk s st cl → CamOk s (a.upd st) cl := by
  intro a ha st _ h
  obtain ⟨k1, k2, k3, k4, k5, k6, k7, k8, k9⟩ := h
  unfold fltActs at ha
  each_action ha <;> exact ⟨k1, k2, k3, k4, k5, k6, k7, k8, k9⟩

theorem CamOk.snk (s : Nat) (cl : Client) : ∀ a ∈ snkActs s, ∀ st, a.guard st = true → CamOk s st cl → CamOk s (a.upd st) cl := by
  intro a ha st hg h
  obtain ⟨k1, k2, k3, k4, k5, k6, k7, k8, k9⟩ := h
  unfold snkActs at ha
  each_action ha
  all_goals (simp only [setSnkPc, notifySink, Bool.and_eq_true, Bool.or_eq_true, decide_eq_true_eq, Bool.not_eq_true', ne_eq] at hg ⊢)
  all_goals constructor
  all_goals (first | assumption | grind)

/-- what each client family has to establish -/
def CamOk.Kept (a : Act RT) : Prop :=
  ∀ rt, TInvAll rt → a.guard rt = true → (∀ s, CamOk s (getS rt s) rt.client) → ∀ s, CamOk s (getS (a.upd rt) s) (a.upd rt).client

end AcqVerif.Runtime
