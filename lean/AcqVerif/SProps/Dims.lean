import AcqVerif.SProps.Step
/-!
# The dimension array: `DStep`, element updates, `dimensions_destroy`, `dimensions_init`
-/
namespace AcqVerif.SProps

/-- the array in block `d` is in order -/
structure DPre (h : Heap) (d : Nat) : Prop where
  hok : HeapOK h
  live : h.live d = true
  names : ∀ dm ∈ h.dimsOf d, StrOK h dm.name
  owns : ∀ k, (if d = k then 1 else 0) + namesCount (h.dimsOf d) k ≤ b2n (h.live k)

/-- a change confined to the array in block `d` and the names it owns -/
structure DStep (h : Heap) (d : Nat) (h' : Heap) : Prop where
  hok : HeapOK h'
  live : h'.live d = true
  len : (h'.dimsOf d).length = (h.dimsOf d).length
  names : ∀ dm ∈ h'.dimsOf d, StrOK h' dm.name
  bal : ∀ k, namesCount (h'.dimsOf d) k + b2n (h.live k) = namesCount (h.dimsOf d) k + b2n (h'.live k)
  frame : ∀ k, k < h.next → k ≠ d → namesCount (h.dimsOf d) k = 0 → h'.cells k = h.cells k
  mono : h.next ≤ h'.next

theorem live_congr {h h' : Heap} {k : Nat} (e : h'.cells k = h.cells k) (hk : k < h.next) (mono : h.next ≤ h'.next) :
    h'.live k = h.live k := by
  simp only [Heap.live, e]
  have : Nat.blt k h'.next = Nat.blt k h.next := by
    rw [Bool.eq_iff_iff]; simp only [Nat.blt_eq]; omega
  rw [this]

theorem DPre.one {h : Heap} {d : Nat} (pre : DPre h d) (k : Nat) :
    (if d = k then 1 else 0) + namesCount (h.dimsOf d) k ≤ 1 := Nat.le_trans (pre.owns k) (b2n_le_one _)

theorem DPre.names_d {h : Heap} {d : Nat} (pre : DPre h d) : namesCount (h.dimsOf d) d = 0 := by
  have := pre.one d; simp at this; omega

theorem DPre.lt {h : Heap} {d : Nat} (pre : DPre h d) {k : Nat} (hk : 0 < namesCount (h.dimsOf d) k) : k < h.next := by
  have := pre.owns k
  cases hl : h.live k with
  | true => exact live_lt hl
  | false => simp [hl] at this; omega

theorem DPre.live_of {h : Heap} {d : Nat} (pre : DPre h d) {k : Nat} (hk : 0 < namesCount (h.dimsOf d) k) : h.live k = true := by
  have := pre.owns k
  cases hl : h.live k with
  | true => rfl
  | false => simp [hl] at this; omega

theorem DStep.refl {h : Heap} {d : Nat} (pre : DPre h d) : DStep h d h :=
  ⟨pre.hok, pre.live, rfl, pre.names, fun _ => rfl, fun _ _ _ _ => rfl, Nat.le_refl _⟩

theorem DStep.pre {h h' : Heap} {d : Nat} (st : DStep h d h') (pre : DPre h d) : DPre h' d := by
  refine ⟨st.hok, st.live, st.names, ?_⟩
  intro k
  have := st.bal k
  have := pre.owns k
  have := b2n_le_one (h.live k)
  omega

theorem DStep.trans {h h' h'' : Heap} {d : Nat} (s1 : DStep h d h') (s2 : DStep h' d h'') : DStep h d h'' := by
  refine ⟨s2.hok, s2.live, by rw [s2.len, s1.len], s2.names, ?_, ?_, Nat.le_trans s1.mono s2.mono⟩
  · intro k
    have := s1.bal k
    have := s2.bal k
    omega
  · intro k hk hkd hz
    have e1 := s1.frame k hk hkd hz
    have hb := s1.bal k
    have hlive := live_congr e1 hk s1.mono
    have hz' : namesCount (h'.dimsOf d) k = 0 := by rw [hlive] at hb; omega
    rw [s2.frame k (Nat.lt_of_lt_of_le hk s1.mono) hkd hz', e1]

/-- two different elements of the array cannot both own block `k` more often than the array does -/
theorem namesCount_two (l : List Dim) {i j : Nat} (hi : i < l.length) (hj : j < l.length) (hij : i ≠ j) (k : Nat) :
    strCount l[i].name k + strCount l[j].name k ≤ namesCount l k := by
  have h1 := namesCount_set l i default k hi
  have hj' : j < (l.set i default).length := by simpa using hj
  have h2 := namesCount_mem_le (l.set i default) _ (List.getElem_mem hj') k
  rw [List.getElem_set] at h2
  simp only [hij, if_false] at h2
  have : strCount (default : Dim).name k = 0 := by show strCount ({} : Dim).name k = 0; simp
  omega

theorem DPre_of_obj {h : Heap} {o : Obj} {d : Nat} (hd : o.dimsData = some d) (hok : HeapOK h) (ok : ObjOK h o) (ow : Owns h o) :
    DPre h d := by
  have hdc : ∀ k, dimsCount h o k = (if d = k then 1 else 0) + namesCount (h.dimsOf d) k := by
    intro k; simp [dimsCount, hd]
  refine ⟨hok, ?_, ?_, ?_⟩
  · apply ow.live (k := d); unfold objCount; rw [hdc d]; simp; omega
  · have := ok.dims; unfold DimsOK at this; simp only [hd] at this; exact this.2.2
  · intro k; have := ow k; unfold objCount at this; rw [hdc k] at this; omega

/-- a change confined to the array is a `Step` of the object that holds the array -/
theorem Step_of_DStep {h h' : Heap} {o : Obj} {d : Nat} (hd : o.dimsData = some d) (ok : ObjOK h o) (ow : Owns h o)
    (ds : DStep h d h') : Step h o h' o := by
  have hdc : ∀ (hh : Heap) k, dimsCount hh o k = (if d = k then 1 else 0) + namesCount (hh.dimsOf d) k := by
    intro hh k; simp [dimsCount, hd]
  have one : ∀ k, objCount h o k ≤ 1 := fun k => Nat.le_trans (ow k) (b2n_le_one _)
  have hstr : ∀ k, 0 < strsCount o k → h'.cells k = h.cells k := by
    intro k hk
    have h1 := one k
    unfold objCount at h1; rw [hdc h k] at h1
    apply ds.frame k (ow.lt (by unfold objCount; omega))
    · intro e; subst e; simp at h1; omega
    · omega
  refine ⟨ds.hok, ?_, ?_, ?_, ds.mono⟩
  · apply ObjOK_of_fields
    · intro g
      apply StrOK_congr (ok.get g)
      intro k hk
      exact hstr k (by have := strCount_get_le o g k; omega)
    · have h0 := ok.dims
      unfold DimsOK at h0 ⊢
      simp only [hd] at h0 ⊢
      exact ⟨h0.1, by rw [ds.len]; exact h0.2.1, ds.names⟩
  · intro k
    unfold objCount
    rw [hdc h' k, hdc h k]
    have := ds.bal k
    omega
  · intro k hk hz
    unfold objCount at hz; rw [hdc h k] at hz
    apply ds.frame k hk
    · intro e; simp [e] at hz
    · omega

/-- replace element `i` by `x`, after a `copy_string`-like change (`h ↦ h1`) of that element's name -/
theorem DStep_store {h h1 : Heap} {d i : Nat} {x : Dim} (pre : DPre h d) (hi : i < (h.dimsOf d).length)
    (hok1 : HeapOK h1) (hd1 : h1.cells d = h.cells d) (sx : StrOK h1 x.name)
    (bal : ∀ k, strCount x.name k + b2n (h.live k) = strCount (h.dimsOf d)[i].name k + b2n (h1.live k))
    (fr : ∀ k, k < h.next → k ≠ d → strCount (h.dimsOf d)[i].name k = 0 → h1.cells k = h.cells k)
    (mono : h.next ≤ h1.next) :
    DStep h d (h1.setCell d ⟨.dims ((h.dimsOf d).set i x), false⟩) ∧
    (h1.setCell d ⟨.dims ((h.dimsOf d).set i x), false⟩).dimsOf d = (h.dimsOf d).set i x ∧
    (∀ k, k < h.next → k ≠ d → strCount (h.dimsOf d)[i].name k = 0 →
      (h1.setCell d ⟨.dims ((h.dimsOf d).set i x), false⟩).cells k = h.cells k) ∧
    (∀ k, 0 < strCount x.name k → (h1.setCell d ⟨.dims ((h.dimsOf d).set i x), false⟩).cells k = h1.cells k) := by
  have hdlt : d < h.next := live_lt pre.live
  have hl1 : h1.live d = true := by rw [live_congr hd1 hdlt mono]; exact pre.live
  have hfr1 : (h1.cells d).freed = false := ((live_iff _ _).mp hl1).2
  have hnd : namesCount (h.dimsOf d) d = 0 := pre.names_d
  have hid : strCount (h.dimsOf d)[i].name d = 0 := by
    have := namesCount_mem_le (h.dimsOf d) _ (List.getElem_mem hi) d; omega
  have hxd : strCount x.name d = 0 := by
    have := bal d; rw [hid, pre.live, hl1] at this; omega
  have hxk : ∀ k, 0 < strCount x.name k → k ≠ d := by
    intro k hk e; rw [e] at hk; omega
  refine ⟨⟨HeapOK_setCell hok1 _ _ (by simp [hfr1]), ?_, ?_, ?_, ?_, ?_, ?_⟩, by simp, ?_, ?_⟩
  · rw [setCell_live _ _ _ _ (by simp [hfr1])]; exact hl1
  · simp
  · intro dm hdm
    rw [dimsOf_setCell_same] at hdm
    obtain ⟨j, hj, rfl⟩ := List.getElem_of_mem hdm
    rw [List.getElem_set]
    have hj' : j < (h.dimsOf d).length := by simpa using hj
    split
    · exact StrOK_congr sx (fun k hk => setCell_cells_ne _ _ _ _ (hxk k hk))
    · next hij =>
      apply StrOK_congr (pre.names _ (List.getElem_mem hj'))
      intro k hk
      have hle := namesCount_mem_le (h.dimsOf d) _ (List.getElem_mem hj') k
      have hkd : k ≠ d := by intro e; rw [e] at hle hk; omega
      have h2 := namesCount_two (h.dimsOf d) hi hj' hij k
      have h3 := pre.one k
      rw [setCell_cells_ne _ _ _ _ hkd]
      exact fr k (pre.lt (by omega)) hkd (by omega)
  · intro k
    rw [dimsOf_setCell_same, setCell_live _ _ _ _ (by simp [hfr1])]
    have := namesCount_set (h.dimsOf d) i x k hi
    have := bal k
    omega
  · intro k hk hkd hz
    rw [setCell_cells_ne _ _ _ _ hkd]
    have := namesCount_mem_le (h.dimsOf d) _ (List.getElem_mem hi) k
    exact fr k hk hkd (by omega)
  · exact mono
  · intro k hk hkd hz
    rw [setCell_cells_ne _ _ _ _ hkd]
    exact fr k hk hkd hz
  · intro k hk
    exact setCell_cells_ne _ _ _ _ (hxk k hk)

/-! ### `storage_dimension_destroy` and the loop over it -/

theorem default_name_count (k : Nat) : strCount (default : Dim).name k = 0 := by
  show strCount ({} : Dim).name k = 0; simp

theorem dimensionDestroy_spec {h : Heap} {d i : Nat} (pre : DPre h d) (hi : i < (h.dimsOf d).length) :
    DStep h d (dimensionDestroy h (some d) i) ∧
    (dimensionDestroy h (some d) i).dimsOf d = (h.dimsOf d).set i default := by
  have sdef : ∀ hh : Heap, StrOK hh (default : Dim).name := by
    intro hh; show StrOK hh ({} : Dim).name; simp [StrOK]
  unfold dimensionDestroy
  rw [loadDim_some pre.live i hi]
  simp only
  have hnok := pre.names _ (List.getElem_mem hi)
  by_cases hc : (h.dimsOf d)[i].name.isRef = false ∧ (h.dimsOf d)[i].name.str ≠ .null
  · simp only [hc, and_self, if_true, ne_eq, not_false_eq_true]
    -- the name is an owned block
    have hid : ∃ nid, (h.dimsOf d)[i].name.str = .heap nid := by
      unfold StrOK at hnok
      split at hnok
      · next e => exact absurd e hc.2
      · next nid e => exact ⟨nid, e⟩
      · next b e => simp [hc.1] at hnok
    obtain ⟨nid, hn⟩ := hid
    have hcnt : ∀ k, strCount (h.dimsOf d)[i].name k = if nid = k then 1 else 0 := by
      intro k; simp [strCount, hn, hc.1]
    have hle := namesCount_mem_le (h.dimsOf d) _ (List.getElem_mem hi) nid
    rw [hcnt nid] at hle; simp at hle
    have hlive : h.live nid = true := pre.live_of (by omega)
    have hnd : nid ≠ d := by intro e; have := pre.names_d; rw [e] at hle; omega
    rw [hn]
    simp only [Heap.freePtr]
    rw [free_live hlive]
    have hdn : d ≠ nid := fun e => hnd e.symm
    have hl1 : (h.release nid).live d = true := by
      rw [release_live]; simp [hdn, pre.live]
    rw [storeDim_some hl1 i _ (by rw [dimsOf_release]; exact hi), dimsOf_release]
    obtain ⟨a, b, _, _⟩ := DStep_store (h1 := h.release nid) (x := default) pre hi (HeapOK_release pre.hok _ hlive)
      (release_cells_ne _ _ _ hdn) (sdef _)
      (fun k => by
        rw [default_name_count, hcnt k, release_live]
        by_cases hk : k = nid
        · subst hk; simp [hlive]
        · have : nid ≠ k := fun e => hk e.symm
          simp [hk, this])
      (fun k _ _ hz => by
        rw [hcnt k] at hz
        have : k ≠ nid := by intro e; simp [e] at hz
        exact release_cells_ne _ _ _ this)
      (Nat.le_refl _)
    exact ⟨a, b⟩
  · simp only [hc, if_false]
    have hcnt : ∀ k, strCount (h.dimsOf d)[i].name k = 0 := by
      intro k
      by_cases hs : (h.dimsOf d)[i].name.str = .null
      · exact strCount_null hs k
      · by_cases hr : (h.dimsOf d)[i].name.isRef = true
        · exact strCount_ref hr k
        · exact absurd ⟨by simpa using hr, hs⟩ hc
    rw [storeDim_some pre.live i _ hi]
    obtain ⟨a, b, _, _⟩ := DStep_store (h1 := h) (x := default) pre hi pre.hok rfl (sdef _)
      (fun k => by rw [default_name_count, hcnt k])
      (fun k _ _ _ => rfl)
      (Nat.le_refl _)
    exact ⟨a, b⟩

theorem destroyLoop_spec {d : Nat} (k : Nat) : ∀ (h : Heap) (i : Nat), DPre h d → i + k ≤ (h.dimsOf d).length →
    DStep h d (destroyLoop h (some d) i k) ∧
    ∀ j, ((destroyLoop h (some d) i k).dimsOf d)[j]? =
      if i ≤ j ∧ j < i + k then some default else (h.dimsOf d)[j]? := by
  induction k with
  | zero =>
    intro h i pre _
    refine ⟨DStep.refl pre, fun j => ?_⟩
    simp [destroyLoop]; omega
  | succ k ih =>
    intro h i pre hik
    have hi : i < (h.dimsOf d).length := by omega
    obtain ⟨s1, e1⟩ := dimensionDestroy_spec pre hi
    have pre1 := s1.pre pre
    obtain ⟨s2, e2⟩ := ih (dimensionDestroy h (some d) i) (i + 1) pre1 (by rw [s1.len]; omega)
    refine ⟨s1.trans s2, fun j => ?_⟩
    simp only [destroyLoop]
    rw [e2 j, e1, List.getElem?_set]
    by_cases h1 : i + 1 ≤ j ∧ j < i + 1 + k
    · have : i ≤ j ∧ j < i + (k + 1) := by omega
      simp [h1, this]
    · simp only [h1, if_false]
      by_cases h2 : i = j
      · subst h2; simp [hi]
      · have : ¬ (i ≤ j ∧ j < i + (k + 1)) := by omega
        simp [h2, this]

/-- `storage_properties_dimensions_destroy` on an object that has dimensions -/
theorem dimensionsDestroy_step {h : Heap} {o : Obj} {d : Nat} (hd : o.dimsData = some d) (hok : HeapOK h) (ok : ObjOK h o)
    (ow : Owns h o) :
    Step h o (dimensionsDestroy h o).1 (dimensionsDestroy h o).2 ∧
    (dimensionsDestroy h o).2 = { o with dimsData := none, dimsSize := 0 } := by
  have pre := DPre_of_obj hd hok ok ow
  have hlen : (h.dimsOf d).length = o.dimsSize := by
    have := ok.dims; unfold DimsOK at this; simp only [hd] at this; exact this.2.1
  obtain ⟨ds, el⟩ := destroyLoop_spec (d := d) o.dimsSize h 0 pre (by omega)
  have st := Step_of_DStep hd ok ow ds
  have e2 : (dimensionsDestroy h o).2 = { o with dimsData := none, dimsSize := 0 } := by
    simp [dimensionsDestroy, hd]
  have e1 : (dimensionsDestroy h o).1 = (destroyLoop h (some d) 0 o.dimsSize).free d := by
    simp [dimensionsDestroy, hd]
  refine ⟨?_, e2⟩
  rw [e1, e2]
  -- after the loop every element is zeroed, so the array owns nothing but its block
  generalize destroyLoop h (some d) 0 o.dimsSize = h1 at *
  have hall : h1.dimsOf d = List.replicate o.dimsSize default := by
    apply List.ext_getElem?
    intro j
    rw [el j, List.getElem?_replicate]
    by_cases hj : j < o.dimsSize
    · simp [hj]
    · simp only [Nat.zero_le, Nat.zero_add, hj, and_false, if_false]
      rw [List.getElem?_eq_none (by omega)]
  have hnc : ∀ k, namesCount (h1.dimsOf d) k = 0 := by
    intro k; rw [hall]; exact namesCount_replicate_default _ _
  have hl1 : h1.live d = true := ds.live
  rw [free_live hl1]
  have ow1 : Owns h1 o := st.owns ow
  have hdc1 : ∀ k, dimsCount h1 o k = if d = k then 1 else 0 := by
    intro k; simp [dimsCount, hd, hnc k]
  have hs1 : ∀ k, 0 < strsCount o k → k ≠ d := by
    intro k hk e
    subst e
    have h3 := ow1 k; unfold objCount at h3; rw [hdc1 k] at h3
    have h4 := b2n_le_one (h1.live k)
    simp at h3; omega
  apply st.trans
  refine ⟨HeapOK_release st.hok _ hl1, ?_, ?_, ?_, Nat.le_refl _⟩
  · apply ObjOK_of_fields
    · intro g
      have : ({ o with dimsData := none, dimsSize := 0 } : Obj).get g = o.get g := by cases g <;> rfl
      rw [this]
      apply StrOK_congr (st.ok.get g)
      intro k hk
      exact release_cells_ne _ _ _ (hs1 k (by have := strCount_get_le o g k; omega))
    · simp [DimsOK]
  · intro k
    have e1 : objCount (h1.release d) { o with dimsData := none, dimsSize := 0 } k = strsCount o k := by
      simp [objCount, dimsCount, strsCount]
    have e2 : objCount h1 o k = strsCount o k + if d = k then 1 else 0 := by
      unfold objCount; rw [hdc1 k]
    rw [e1, e2, release_live]
    by_cases hk : k = d
    · subst hk; simp [hl1]
    · have : d ≠ k := fun e => hk e.symm
      simp [hk, this]
  · intro k _ hz
    have e2 : objCount h1 o k = strsCount o k + if d = k then 1 else 0 := by
      unfold objCount; rw [hdc1 k]
    rw [e2] at hz
    have : k ≠ d := by intro e; simp [e] at hz
    exact release_cells_ne _ _ _ this

/-- `storage_properties_dimensions_destroy` on an object without dimensions does nothing -/
theorem dimensionsDestroy_none {h : Heap} {o : Obj} (hd : o.dimsData = none) : dimensionsDestroy h o = (h, o) := by
  simp [dimensionsDestroy, hd]

/-! ### `storage_properties_dimensions_init` -/

theorem dimensionsInit_step {h : Heap} {o : Obj} (n : Nat) (hok : HeapOK h) (ok : ObjOK h o) (ow : Owns h o) :
    Step h o (dimensionsInit h o n).1 (dimensionsInit h o n).2.1 ∧
    ((dimensionsInit h o n).2.2 = true → o.dimsData = none ∧ 0 < n ∧
      (dimensionsInit h o n).2.1 = { o with dimsData := some h.next, dimsSize := n } ∧
      (dimensionsInit h o n).1.dimsOf h.next = List.replicate n default ∧
      (dimensionsInit h o n).1 = (h.malloc (.dims (List.replicate n default))).1) ∧
    ((dimensionsInit h o n).2.2 = false → (dimensionsInit h o n).1 = h ∧ (dimensionsInit h o n).2.1 = o) := by
  by_cases h0 : n = 0
  · have e : dimensionsInit h o n = (h, o, false) := by simp [dimensionsInit, h0]
    rw [e]; simp [Step.refl hok ok]
  · by_cases hd : o.dimsData ≠ none
    · have e : dimensionsInit h o n = (h, o, false) := by simp [dimensionsInit, h0, hd]
      rw [e]; simp [Step.refl hok ok]
    · simp only [ne_eq, Decidable.not_not] at hd
      have e : dimensionsInit h o n = ((h.malloc (.dims (List.replicate n default))).1,
          { o with dimsData := some h.next, dimsSize := n }, true) := by
        simp [dimensionsInit, h0, hd, dimensionArrayInit]
      rw [e]
      refine ⟨?_, fun _ => ⟨hd, by omega, rfl, by simp, rfl⟩, by simp⟩
      let h1 := (h.malloc (.dims (List.replicate n default))).1
      have hcells : ∀ k, k < h.next → h1.cells k = h.cells k := fun k hk => malloc_cells_lt h _ k hk
      have hdc0 : ∀ k, dimsCount h o k = 0 := by intro k; simp [dimsCount, hd]
      refine ⟨HeapOK_malloc hok _, ?_, ?_, ?_, by show h.next ≤ h.next + 1; omega⟩
      · apply ObjOK_of_fields
        · intro g
          have : ({ o with dimsData := some h.next, dimsSize := n } : Obj).get g = o.get g := by cases g <;> rfl
          rw [this]
          apply StrOK_congr (ok.get g)
          intro k hk
          apply hcells k
          apply ow.lt
          have := strCount_get_le o g k; unfold objCount; omega
        · simp only [DimsOK, dimsOf_malloc_new, List.length_replicate, true_and]
          refine ⟨by omega, ?_⟩
          intro dm hdm
          rw [List.mem_replicate] at hdm
          rw [hdm.2]
          show StrOK _ ({} : Dim).name
          simp [StrOK]
      · intro k
        have e1 : objCount h1 { o with dimsData := some h.next, dimsSize := n } k = strsCount o k + if h.next = k then 1 else 0 := by
          simp only [objCount, dimsCount, strsCount, h1, dimsOf_malloc_new, namesCount_replicate_default]
          omega
        have e2 : objCount h o k = strsCount o k := by unfold objCount; rw [hdc0 k]; omega
        rw [e1, e2, malloc_live]
        by_cases hk : k = h.next
        · subst hk; simp [not_live_of_ge (Nat.le_refl _)]
        · have : h.next ≠ k := fun e => hk e.symm
          simp [hk, this]
      · intro k hk _
        exact hcells k hk

end AcqVerif.SProps
