import AcqVerif.SProps.DimsCopy
/-!
# Every API function as a `Step` of its target object; what `copy` establishes
-/
namespace AcqVerif.SProps

/-- the dimensions of an object by content -/
def dimsView (h : Heap) (o : Obj) : List (List Byte × Nat × Nat × Nat × Nat) :=
  match o.dimsData with
  | none => []
  | some d => (h.dimsOf d).map (dimView h)

/-- an object by content: what "equal in every field" means -/
structure ObjView where
  uri : List Byte
  mdata : List Byte
  akey : List Byte
  skey : List Byte
  firstFrameId : Nat
  pxX : Nat
  pxY : Nat
  multiscale : Nat
  dimsSize : Nat
  dims : List (List Byte × Nat × Nat × Nat × Nat)
deriving DecidableEq, Repr

def objView (h : Heap) (o : Obj) : ObjView :=
  { uri := strVal h o.uri, mdata := strVal h o.mdata, akey := strVal h o.akey, skey := strVal h o.skey,
    firstFrameId := o.firstFrameId, pxX := o.pxX, pxY := o.pxY, multiscale := o.multiscale,
    dimsSize := o.dimsSize, dims := dimsView h o }

theorem dimView_congr {h h' : Heap} {dm : Dim} (e : ∀ k, 0 < strCount dm.name k → h'.cells k = h.cells k)
    (ok : StrOK h dm.name) : dimView h' dm = dimView h dm := by
  simp only [dimView]
  congr 1
  exact strVal_congr (fun k hk => e k (by rw [ok.heap_count hk]; omega))

theorem dimsView_congr {h h' : Heap} {o : Obj} (ok : DimsOK h o)
    (e : ∀ k, 0 < dimsCount h o k → h'.cells k = h.cells k) : dimsView h' o = dimsView h o := by
  unfold dimsView
  unfold DimsOK at ok
  unfold dimsCount at e
  cases hd : o.dimsData with
  | none => rfl
  | some d =>
    simp only [hd] at ok e ⊢
    rw [dimsOf_congr (e d (by simp; omega))]
    apply List.map_congr_left
    intro dm hdm
    apply dimView_congr _ (ok.2.2 dm hdm)
    intro k hk
    have := namesCount_mem_le (h.dimsOf d) dm hdm k
    exact e k (by omega)

theorem strVal_congr_ok {h h' : Heap} {s : Str} (ok : StrOK h s) (e : ∀ k, 0 < strCount s k → h'.cells k = h.cells k) :
    strVal h' s = strVal h s :=
  strVal_congr (fun k hk => e k (by rw [ok.heap_count hk]; omega))

theorem objView_congr {h h' : Heap} {o : Obj} (ok : ObjOK h o)
    (e : ∀ k, 0 < objCount h o k → h'.cells k = h.cells k) : objView h' o = objView h o := by
  have es : ∀ f k, 0 < strCount (o.get f) k → h'.cells k = h.cells k := fun f k hk =>
    e k (by have := strCount_get_le o f k; unfold objCount; omega)
  simp only [objView]
  rw [strVal_congr_ok ok.uri (es .uri), strVal_congr_ok ok.mdata (es .mdata), strVal_congr_ok ok.akey (es .akey),
    strVal_congr_ok ok.skey (es .skey), dimsView_congr ok.dims (fun k hk => e k (by unfold objCount; omega))]

/-! ### one `copy_string` into a field, with everything the later links need -/

theorem setStr_link {h : Heap} {o : Obj} (f : Field) {src : Str} (hok : HeapOK h) (ok : ObjOK h o) (ow : Owns h o)
    (sok : SrcOK h src) (na : ∀ k, src.str = .heap k → objCount h o k = 0) :
    (setStr h o f src).2.2 = true ∧
    Step h o (setStr h o f src).1 (setStr h o f src).2.1 ∧
    strVal (setStr h o f src).1 ((setStr h o f src).2.1.get f) = term (strVal h src) ∧
    (∀ g, g ≠ f → (setStr h o f src).2.1.get g = o.get g ∧ strVal (setStr h o f src).1 (o.get g) = strVal h (o.get g)) ∧
    (setStr h o f src).2.1.dimsData = o.dimsData ∧ (setStr h o f src).2.1.dimsSize = o.dimsSize ∧
    (setStr h o f src).2.1.firstFrameId = o.firstFrameId ∧ (setStr h o f src).2.1.pxX = o.pxX ∧
    (setStr h o f src).2.1.pxY = o.pxY ∧ (setStr h o f src).2.1.multiscale = o.multiscale ∧
    (∀ k, 0 < dimsCount h o k → (setStr h o f src).1.cells k = h.cells k) := by
  have one : ∀ k, objCount h o k ≤ 1 := fun k => Nat.le_trans (ow k) (b2n_le_one _)
  have dl : ∀ k, strCount (o.get f) k ≤ b2n (h.live k) := fun k => by
    have := strCount_get_le o f k; have := ow k; unfold objCount at *; omega
  have na' : ∀ k, src.str = .heap k → (o.get f).str ≠ .heap k := by
    intro k hk e
    have h1 := (ok.get f).heap_count e
    have := na k hk
    have := strCount_get_le o f k
    unfold objCount at *; omega
  obtain ⟨r1, cs⟩ := copyString_spec hok (ok.get f) dl sok na'
  have hset : (setStr h o f src).2.1 = o.set f (copyString h (o.get f) src).2.1 := rfl
  have hh : (setStr h o f src).1 = (copyString h (o.get f) src).1 := rfl
  refine ⟨r1, Step_of_field cs.hok ok ow cs.sok cs.bal cs.frame cs.mono, ?_, ?_, ?_, ?_, ?_, ?_, ?_, ?_, ?_⟩
  · rw [hset, hh, get_set]; simp only [if_true]; exact cs.val
  · intro g hg
    rw [hset, hh, get_set]
    simp only [hg, if_false, true_and]
    apply strVal_congr_ok (ok.get g)
    intro k hk
    apply cells_outside_field ow cs.frame k
    · have := strCount_get_le o g k; unfold objCount; omega
    · have := strCount_get_add_le o (fun e => hg e.symm) k
      have := one k; unfold objCount at *; omega
  · rw [hset]; simp
  · rw [hset]; simp
  · rw [hset]; simp
  · rw [hset]; simp
  · rw [hset]; simp
  · rw [hset]; simp
  · intro k hk
    rw [hh]
    apply cells_outside_field ow cs.frame k (by unfold objCount; omega)
    have := one k; have := strCount_get_le o f k; unfold objCount at *; omega

/-! ### the setters -/

theorem setUri_step {h : Heap} {o : Obj} {a : InStr} (hok : HeapOK h) (ok : ObjOK h o) (ow : Owns h o) (wf : a.wf = true) :
    Step h o (setUri h o a).1 (setUri h o a).2.1 :=
  (setStr_link .uri hok ok ow (InStr.srcOK h wf) (fun k hk => absurd hk (InStr.not_heap a k))).2.1

theorem setExternalMetadata_step {h : Heap} {o : Obj} {a : InStr} (hok : HeapOK h) (ok : ObjOK h o) (ow : Owns h o)
    (wf : a.wf = true) : Step h o (setExternalMetadata h o a).1 (setExternalMetadata h o a).2.1 :=
  (setStr_link .mdata hok ok ow (InStr.srcOK h wf) (fun k hk => absurd hk (InStr.not_heap a k))).2.1

theorem setAccessKeyAndSecret_step {h : Heap} {o : Obj} {a b : InStr} (hok : HeapOK h) (ok : ObjOK h o) (ow : Owns h o)
    (wa : a.wf = true) (wb : b.wf = true) :
    Step h o (setAccessKeyAndSecret h o a b).1 (setAccessKeyAndSecret h o a b).2.1 := by
  obtain ⟨r1, s1, _⟩ := setStr_link .akey hok ok ow (InStr.srcOK h wa) (fun k hk => absurd hk (InStr.not_heap a k))
  unfold setAccessKeyAndSecret
  simp only [r1, if_true]
  obtain ⟨_, s2, _⟩ := setStr_link (h := (setStr h o .akey a.toStr).1) (o := (setStr h o .akey a.toStr).2.1) .skey
    s1.hok s1.ok (s1.owns ow) (InStr.srcOK _ wb) (fun k hk => absurd hk (InStr.not_heap b k))
  exact s1.trans s2

theorem setEnableMultiscale_step {h : Heap} {o : Obj} (v : Nat) (hok : HeapOK h) (ok : ObjOK h o) :
    Step h o (setEnableMultiscale h o v).1 (setEnableMultiscale h o v).2.1 := by
  refine ⟨hok, ⟨ok.uri, ok.mdata, ok.akey, ok.skey, ok.dims⟩, fun _ => rfl, fun _ _ _ => rfl, Nat.le_refl _⟩

/-- storing a borrowed, terminated string over a field that owns nothing -/
theorem ref_step {h : Heap} {o : Obj} (f : Field) (b : List Byte) (hok : HeapOK h) (ok : ObjOK h o)
    (ht : terminated b = true) (hn : (o.get f).isRef = true ∨ (o.get f).str = .null) :
    Step h o h (o.set f { str := .ext b, nbytes := b.length, isRef := true }) := by
  have hz : ∀ k, strCount (o.get f) k = 0 := by
    intro k; rcases hn with hn | hn
    · exact strCount_ref hn k
    · exact strCount_null hn k
  have hnew : ∀ k, strCount ({ str := .ext b, nbytes := b.length, isRef := true } : Str) k = 0 := fun k => strCount_ref rfl k
  have hcount : ∀ k, objCount h (o.set f { str := .ext b, nbytes := b.length, isRef := true }) k = objCount h o k := by
    intro k
    have := strsCount_set o f { str := .ext b, nbytes := b.length, isRef := true } k
    unfold objCount; rw [dimsCount_set, hz k, hnew k] at *; omega
  refine ⟨hok, ?_, fun k => by rw [hcount k], fun _ _ _ => rfl, Nat.le_refl _⟩
  apply ObjOK_of_fields
  · intro g
    rw [get_set]
    by_cases hg : g = f
    · simp only [hg, if_true, StrOK, true_and]
      unfold terminated at ht
      rw [List.getLast?_eq_getElem?] at ht
      have hne : b ≠ [] := by intro e; simp [e] at ht
      have : 1 ≤ b.length := by cases b with | nil => exact absurd rfl hne | cons _ _ => simp
      exact ⟨this, by simpa using ht⟩
    · simp only [hg, if_false]; exact ok.get g
  · rw [DimsOK_set]; exact ok.dims

/-! ### `storage_properties_init` -/

theorem init_step {h : Heap} (ffid : Nat) {uri mdata : InStr} (px py nd : Nat) (hok : HeapOK h)
    (wu : uri.wf = true) (wm : mdata.wf = true) :
    Step h {} (init h ffid uri mdata px py nd).1 (init h ffid uri mdata px py nd).2.1 := by
  have ow0 : Owns h {} := fun k => by rw [objCount_default]; omega
  obtain ⟨r1, s1, _⟩ := setStr_link (o := {}) .uri hok (ObjOK_default h) ow0 (InStr.srcOK h wu)
    (fun k hk => absurd hk (InStr.not_heap uri k))
  unfold init
  have e1 : setUri h {} uri = setStr h {} .uri uri.toStr := rfl
  simp only [e1, r1, Bool.not_true, Bool.false_eq_true, if_false]
  obtain ⟨r2, s2, _⟩ := setStr_link (h := (setStr h {} .uri uri.toStr).1) (o := (setStr h {} .uri uri.toStr).2.1) .mdata
    s1.hok s1.ok (s1.owns ow0) (InStr.srcOK _ wm) (fun k hk => absurd hk (InStr.not_heap mdata k))
  have e2 : ∀ hh oo, setExternalMetadata hh oo mdata = setStr hh oo .mdata mdata.toStr := fun _ _ => rfl
  simp only [e2, r2, Bool.not_true, Bool.false_eq_true, if_false]
  have s12 := s1.trans s2
  generalize (setStr (setStr h {} .uri uri.toStr).1 (setStr h {} .uri uri.toStr).2.1 .mdata mdata.toStr) = r at *
  -- scalar assignments do not change what is owned
  have s3 : Step h {} r.1 { r.2.1 with firstFrameId := ffid, pxX := px, pxY := py } :=
    ⟨s12.hok, ⟨s12.ok.uri, s12.ok.mdata, s12.ok.akey, s12.ok.skey, s12.ok.dims⟩, s12.bal, s12.frame, s12.mono⟩
  by_cases hnd : nd > 0
  · simp only [hnd, if_true]
    exact s3.trans (dimensionsInit_step nd s3.hok s3.ok (s3.owns ow0)).1
  · simp only [hnd, if_false]
    exact s3

/-! ### `storage_properties_destroy` -/

theorem destroyStr_step {h : Heap} {o : Obj} (f : Field) (hok : HeapOK h) (ok : ObjOK h o) (ow : Owns h o) :
    Step h o (destroyStr h o f).1 (destroyStr h o f).2 ∧
    (∀ k, strCount ((destroyStr h o f).2.get f) k = 0) ∧
    (∀ g, g ≠ f → (destroyStr h o f).2.get g = o.get g) ∧
    (destroyStr h o f).2.dimsData = o.dimsData ∧ (destroyStr h o f).2.dimsSize = o.dimsSize := by
  unfold destroyStr
  by_cases hc : (o.get f).isRef = false ∧ (o.get f).str ≠ .null
  · simp only [hc, and_self, if_true, ne_eq, not_false_eq_true]
    have hid : ∃ id, (o.get f).str = .heap id := by
      have hs := ok.get f
      unfold StrOK at hs
      split at hs
      · next e => exact absurd e hc.2
      · next id e => exact ⟨id, e⟩
      · next b e => simp [hc.1] at hs
    obtain ⟨id, hd⟩ := hid
    have hcnt : ∀ k, strCount (o.get f) k = if id = k then 1 else 0 := by
      intro k; simp [strCount, hd, hc.1]
    have hlive : h.live id = true := by
      apply ow.live
      have := strCount_get_le o f id
      rw [hcnt id] at this; simp at this
      unfold objCount; omega
    rw [hd]
    simp only [Heap.freePtr]
    rw [free_live hlive]
    refine ⟨?_, ?_, ?_, by simp, by simp⟩
    · apply Step_of_field (HeapOK_release hok _ hlive) ok ow
      · simp [StrOK]
      · intro k
        rw [strCount_default, hcnt k, release_live]
        by_cases hk : k = id
        · subst hk; simp [hlive]
        · have : id ≠ k := fun e => hk e.symm
          simp [hk, this]
      · intro k _ hz
        rw [hcnt k] at hz
        have : k ≠ id := by intro e; simp [e] at hz
        exact release_cells_ne _ _ _ this
      · exact Nat.le_refl _
    · intro k; rw [get_set]; simp
    · intro g hg; rw [get_set]; simp [hg]
  · simp only [hc, if_false]
    refine ⟨Step.refl hok ok, ?_, fun _ _ => trivial, by trivial, by trivial⟩
    intro k
    by_cases hs : (o.get f).str = .null
    · exact strCount_null hs k
    · by_cases hr : (o.get f).isRef = true
      · exact strCount_ref hr k
      · exact absurd ⟨by simpa using hr, hs⟩ hc

theorem destroy_step {h : Heap} {o : Obj} (hok : HeapOK h) (ok : ObjOK h o) (ow : Owns h o) :
    Step h o (destroy h o).1 (destroy h o).2 ∧ ∀ k hh, objCount hh (destroy h o).2 k = 0 := by
  obtain ⟨s1, z1, g1, d1, _⟩ := destroyStr_step .uri hok ok ow
  obtain ⟨s2, z2, g2, d2, _⟩ := destroyStr_step (h := (destroyStr h o .uri).1) (o := (destroyStr h o .uri).2) .mdata
    s1.hok s1.ok (s1.owns ow)
  have s12 := s1.trans s2
  generalize hr2 : destroyStr (destroyStr h o .uri).1 (destroyStr h o .uri).2 .mdata = r2 at *
  obtain ⟨s3, z3, g3, d3, _⟩ := destroyStr_step (h := r2.1) (o := r2.2) .akey s12.hok s12.ok (s12.owns ow)
  have s13 := s12.trans s3
  generalize hr3 : destroyStr r2.1 r2.2 .akey = r3 at *
  obtain ⟨s4, z4, g4, d4, _⟩ := destroyStr_step (h := r3.1) (o := r3.2) .skey s13.hok s13.ok (s13.owns ow)
  have s14 := s13.trans s4
  generalize hr4 : destroyStr r3.1 r3.2 .skey = r4 at *
  have hstr : ∀ k, strsCount r4.2 k = 0 := by
    intro k
    have e1 : strCount r4.2.uri k = 0 := by
      have := z1 k
      have a := g4 .uri (by decide); have b := g3 .uri (by decide); have c := g2 .uri (by decide)
      simp only [Obj.get] at a b c this
      rw [a, b, c]; exact this
    have e2 : strCount r4.2.mdata k = 0 := by
      have := z2 k
      have a := g4 .mdata (by decide); have b := g3 .mdata (by decide)
      simp only [Obj.get] at a b this
      rw [a, b]; exact this
    have e3 : strCount r4.2.akey k = 0 := by
      have := z3 k
      have a := g4 .akey (by decide)
      simp only [Obj.get] at a this
      rw [a]; exact this
    have e4 : strCount r4.2.skey k = 0 := by
      have := z4 k
      simp only [Obj.get] at this
      exact this
    unfold strsCount; omega
  have e : destroy h o = dimensionsDestroy r4.1 r4.2 := by
    unfold destroy
    simp only [hr2, hr3, hr4]
  rw [e]
  cases hd : r4.2.dimsData with
  | none =>
    rw [dimensionsDestroy_none hd]
    refine ⟨s14, fun k hh => ?_⟩
    simp [objCount, hstr k, dimsCount, hd]
  | some d =>
    obtain ⟨s5, e5⟩ := dimensionsDestroy_step hd s14.hok s14.ok (s14.owns ow)
    refine ⟨s14.trans s5, fun k hh => ?_⟩
    rw [e5]
    have := hstr k
    simp only [objCount, dimsCount, strsCount] at this ⊢
    omega

end AcqVerif.SProps
