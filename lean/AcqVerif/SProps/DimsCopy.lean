import AcqVerif.SProps.Dims
/-!
# Copying a dimension array element by element, and `set_dimension`
-/
namespace AcqVerif.SProps

/-- what "equal" means for one dimension: name by content, the rest by value -/
def dimView (h : Heap) (d : Dim) : List Byte × Nat × Nat × Nat × Nat :=
  (strVal h d.name, d.kind, d.arraySizePx, d.chunkSizePx, d.shardSizeChunks)

/-- the source array `sd` (owned by another object) as seen while the array `d` is being filled -/
structure SrcArr (h : Heap) (d sd : Nat) : Prop where
  ne : sd ≠ d
  live : h.live sd = true
  notOwned : namesCount (h.dimsOf d) sd = 0
  names : ∀ dm ∈ h.dimsOf sd, StrOK h dm.name ∧
    ∀ k, 0 < strCount dm.name k → h.live k = true ∧ k ≠ d ∧ namesCount (h.dimsOf d) k = 0

theorem SrcArr.step {h h' : Heap} {d sd : Nat} (sa : SrcArr h d sd) (ds : DStep h d h') :
    SrcArr h' d sd ∧ h'.dimsOf sd = h.dimsOf sd ∧ ∀ dm ∈ h.dimsOf sd, strVal h' dm.name = strVal h dm.name := by
  have hsd : sd < h.next := live_lt sa.live
  have ec : h'.cells sd = h.cells sd := ds.frame sd hsd sa.ne sa.notOwned
  have ed : h'.dimsOf sd = h.dimsOf sd := dimsOf_congr ec
  have hcell : ∀ dm ∈ h.dimsOf sd, ∀ k, 0 < strCount dm.name k → h'.cells k = h.cells k := by
    intro dm hdm k hk
    obtain ⟨_, hn⟩ := sa.names dm hdm
    obtain ⟨l, nd, nz⟩ := hn k hk
    exact ds.frame k (live_lt l) nd nz
  refine ⟨⟨sa.ne, ?_, ?_, ?_⟩, ed, ?_⟩
  · rw [live_congr ec hsd ds.mono]; exact sa.live
  · have := ds.bal sd
    rw [live_congr ec hsd ds.mono, sa.notOwned] at this; omega
  · intro dm hdm
    rw [ed] at hdm
    obtain ⟨sok, hn⟩ := sa.names dm hdm
    refine ⟨StrOK_congr sok (hcell dm hdm), ?_⟩
    intro k hk
    obtain ⟨l, nd, nz⟩ := hn k hk
    have e := hcell dm hdm k hk
    have hl := live_congr e (live_lt l) ds.mono
    refine ⟨by rw [hl]; exact l, nd, ?_⟩
    have := ds.bal k
    rw [hl, nz] at this; omega
  · intro dm hdm
    apply strVal_congr
    intro k hk
    have sok := (sa.names dm hdm).1
    exact hcell dm hdm k (by rw [sok.heap_count hk]; omega)

/-- `storage_dimension_copy(&dst[i], &src[i])` -/
theorem dimensionCopy_spec {h : Heap} {d sd i : Nat} (pre : DPre h d) (sa : SrcArr h d sd)
    (hi : i < (h.dimsOf d).length) (hsi : i < (h.dimsOf sd).length) :
    (dimensionCopy h (some d) (some sd) i).2 = true ∧
    DStep h d (dimensionCopy h (some d) (some sd) i).1 ∧
    ∃ x, (dimensionCopy h (some d) (some sd) i).1.dimsOf d = (h.dimsOf d).set i x ∧
      dimView (dimensionCopy h (some d) (some sd) i).1 x = dimView h (h.dimsOf sd)[i] ∧
      (∀ k, k < h.next → k ≠ d → strCount (h.dimsOf d)[i].name k = 0 →
        (dimensionCopy h (some d) (some sd) i).1.cells k = h.cells k) := by
  have hsmem := List.getElem_mem hsi
  have hmem := List.getElem_mem hi
  obtain ⟨ssok, slive⟩ := sa.names _ hsmem
  have hle : ∀ k, strCount (h.dimsOf d)[i].name k ≤ namesCount (h.dimsOf d) k :=
    fun k => namesCount_mem_le _ _ hmem k
  have dl : ∀ k, strCount (h.dimsOf d)[i].name k ≤ b2n (h.live k) := by
    intro k; have := pre.owns k; have := hle k; omega
  have sl : ∀ k, strCount (h.dimsOf sd)[i].name k ≤ b2n (h.live k) := by
    intro k
    by_cases hk : 0 < strCount (h.dimsOf sd)[i].name k
    · rw [(slive k hk).1]; exact strCount_le_one _ _
    · omega
  have na : ∀ k, (h.dimsOf sd)[i].name.str = .heap k → (h.dimsOf d)[i].name.str ≠ .heap k := by
    intro k hk e
    have h1 := ssok.heap_count hk
    have h2 := (pre.names _ hmem).heap_count e
    have := (slive k (by omega)).2.2
    have := hle k
    omega
  obtain ⟨r1, cs⟩ := copyString_spec pre.hok (pre.names _ hmem) dl (StrOK_SrcOK ssok sl) na
  have hdlt : d < h.next := live_lt pre.live
  have hid : strCount (h.dimsOf d)[i].name d = 0 := by have := hle d; have := pre.names_d; omega
  have ecd := cs.frame d hdlt hid
  have hl1 := live_congr ecd hdlt cs.mono
  unfold dimensionCopy
  rw [loadDim_some sa.live i hsi]
  simp only
  rw [loadDim_some pre.live i hi]
  simp only [r1, if_true]
  rw [storeDim_some (by rw [hl1]; exact pre.live) i _ (by rw [dimsOf_congr ecd]; exact hi), dimsOf_congr ecd]
  obtain ⟨a, b, c, e⟩ := DStep_store (h1 := (copyString h (h.dimsOf d)[i].name (h.dimsOf sd)[i].name).1)
    (x := { name := (copyString h (h.dimsOf d)[i].name (h.dimsOf sd)[i].name).2.1, kind := (h.dimsOf sd)[i].kind,
            arraySizePx := (h.dimsOf sd)[i].arraySizePx, chunkSizePx := (h.dimsOf sd)[i].chunkSizePx,
            shardSizeChunks := (h.dimsOf sd)[i].shardSizeChunks })
    pre hi cs.hok ecd cs.sok cs.bal (fun k hk _ hz => cs.frame k hk hz) cs.mono
  refine ⟨trivial, a, _, b, ?_, c⟩
  simp only [dimView]
  congr 1
  rw [strVal_congr (fun k hk => e k (by rw [cs.sok.heap_count hk]; omega)), cs.val, term_strVal_of_StrOK ssok]

/-- the copy loop: elements `i … i+k-1` of `d` become copies of the same elements of `sd` -/
theorem copyLoop_spec {d sd : Nat} (k : Nat) : ∀ (h : Heap) (i : Nat), DPre h d → SrcArr h d sd →
    i + k ≤ (h.dimsOf d).length → i + k ≤ (h.dimsOf sd).length →
    (copyLoop h (some d) (some sd) i k).2 = true ∧
    DStep h d (copyLoop h (some d) (some sd) i k).1 ∧
    (∀ j (hj : j < (h.dimsOf d).length), j < i →
      ((copyLoop h (some d) (some sd) i k).1.dimsOf d)[j]? = some (h.dimsOf d)[j] ∧
      ∀ m, 0 < strCount (h.dimsOf d)[j].name m → (copyLoop h (some d) (some sd) i k).1.cells m = h.cells m) ∧
    (∀ j (hj : j < (h.dimsOf sd).length), i ≤ j → j < i + k →
      ∃ x, ((copyLoop h (some d) (some sd) i k).1.dimsOf d)[j]? = some x ∧
        dimView (copyLoop h (some d) (some sd) i k).1 x = dimView h (h.dimsOf sd)[j]) := by
  induction k with
  | zero =>
    intro h i pre _ _ _
    refine ⟨rfl, DStep.refl pre, ?_, ?_⟩
    · intro j hj _
      exact ⟨by simp [copyLoop, hj], fun _ _ => rfl⟩
    · intro j _ h1 h2; omega
  | succ k ih =>
    intro h i pre sa hik hsk
    have hi : i < (h.dimsOf d).length := by omega
    have hsi : i < (h.dimsOf sd).length := by omega
    obtain ⟨ok1, s1, x, ex, vx, fx⟩ := dimensionCopy_spec pre sa hi hsi
    have pre1 := s1.pre pre
    obtain ⟨sa1, esd, esv⟩ := sa.step s1
    have hlen1 : ((dimensionCopy h (some d) (some sd) i).1.dimsOf d).length = (h.dimsOf d).length := s1.len
    obtain ⟨ok2, s2, A, B⟩ := ih (dimensionCopy h (some d) (some sd) i).1 (i + 1) pre1 sa1
      (by rw [hlen1]; omega) (by rw [esd]; omega)
    simp only [copyLoop, ok1, if_true]
    refine ⟨ok2, s1.trans s2, ?_, ?_⟩
    · intro j hj hji
      have hj1 : j < ((dimensionCopy h (some d) (some sd) i).1.dimsOf d).length := by rw [hlen1]; exact hj
      obtain ⟨a1, a2⟩ := A j hj1 (by omega)
      have eqj : ((dimensionCopy h (some d) (some sd) i).1.dimsOf d)[j] = (h.dimsOf d)[j] := by
        simp only [ex]
        rw [List.getElem_set]
        have : i ≠ j := by omega
        simp [this]
      rw [eqj] at a1 a2
      refine ⟨a1, fun m hm => ?_⟩
      rw [a2 m hm]
      have hle := namesCount_mem_le (h.dimsOf d) _ (List.getElem_mem hj) m
      have h2 := namesCount_two (h.dimsOf d) hi hj (by omega) m
      have h3 := pre.one m
      apply fx m (pre.lt (by omega))
      · intro e; subst e; have := pre.names_d; omega
      · omega
    · intro j hj hij hjk
      by_cases hji : j = i
      · subst hji
        have hj1 : j < ((dimensionCopy h (some d) (some sd) j).1.dimsOf d).length := by rw [hlen1]; exact hi
        obtain ⟨a1, a2⟩ := A j hj1 (by omega)
        have eqj : ((dimensionCopy h (some d) (some sd) j).1.dimsOf d)[j] = x := by
          simp only [ex]
          rw [List.getElem_set]
          simp
        rw [eqj] at a1 a2
        refine ⟨x, a1, ?_⟩
        rw [← vx]
        simp only [dimView]
        congr 1
        apply strVal_congr
        intro m hm
        have hxs : StrOK (dimensionCopy h (some d) (some sd) j).1 x.name := by
          apply pre1.names
          rw [← eqj]; exact List.getElem_mem hj1
        exact a2 m (by rw [hxs.heap_count hm]; omega)
      · have hj' : j < ((dimensionCopy h (some d) (some sd) i).1.dimsOf sd).length := by rw [esd]; exact hj
        obtain ⟨y, b1, b2⟩ := B j hj' (by omega) (by omega)
        refine ⟨y, b1, ?_⟩
        rw [b2]
        simp only [esd, dimView]
        congr 1
        exact esv _ (List.getElem_mem hj)

/-! ### `storage_properties_set_dimension` -/

theorem setDimension_step {h : Heap} {o : Obj} (index : Int) (name : InStr) (kind a c sh : Nat)
    (hok : HeapOK h) (ok : ObjOK h o) (ow : Owns h o) (wf : name.wf = true) :
    Step h o (setDimension h o index name kind a c sh).1 (setDimension h o index name kind a c sh).2.1 ∧
    (setDimension h o index name kind a c sh).2.1 = o := by
  unfold setDimension
  by_cases h1 : index < 0 ∨ index.toNat ≥ o.dimsSize
  · simp [h1, Step.refl hok ok]
  · simp only [h1, if_false]
    cases hp : name.ptr with
    | none => simp [Step.refl hok ok]
    | some b =>
      simp only
      by_cases h2 : name.nbytes = 0
      · simp [h2, Step.refl hok ok]
      · simp only [h2, if_false]
        have hb : b.length = name.nbytes := by
          unfold InStr.wf at wf; simp [hp] at wf; exact wf
        rw [load_ext h b 1 (by omega)]
        simp only
        by_cases h3 : b.take 1 = [0]
        · simp [h3, Step.refl hok ok]
        · simp only [h3, if_false]
          by_cases h4 : kind ≥ dimensionTypeCount
          · simp [h4, Step.refl hok ok]
          · simp only [h4, if_false]
            -- the index is in range, so there is an array
            have hsz : index.toNat < o.dimsSize := by omega
            have hdd : ∃ d, o.dimsData = some d := by
              have := ok.dims; unfold DimsOK at this
              cases hd : o.dimsData with
              | none => simp [hd] at this; omega
              | some d => exact ⟨d, rfl⟩
            obtain ⟨d, hd⟩ := hdd
            have hlen : (h.dimsOf d).length = o.dimsSize := by
              have := ok.dims; unfold DimsOK at this; simp only [hd] at this; exact this.2.1
            have pre := DPre_of_obj hd hok ok ow
            rw [hd]
            generalize index.toNat = i at *
            have hi : i < (h.dimsOf d).length := by omega
            obtain ⟨s1, e1⟩ := dimensionDestroy_spec pre hi
            have pre1 := s1.pre pre
            generalize dimensionDestroy h (some d) i = h1 at *
            have hi1 : i < (h1.dimsOf d).length := by rw [s1.len]; exact hi
            have eli : (h1.dimsOf d)[i] = default := by simp [e1]
            rw [loadDim_some pre1.live i hi1, eli]
            simp only
            have sdef : StrOK h1 (default : Dim).name := by show StrOK h1 ({} : Dim).name; simp [StrOK]
            obtain ⟨r1, cs⟩ := copyString_spec (dst := (default : Dim).name) (src := name.toStr) pre1.hok sdef
              (fun k => by rw [default_name_count]; omega) (InStr.srcOK h1 wf) (fun k hk => absurd hk (InStr.not_heap name k))
            have hdlt : d < h1.next := live_lt pre1.live
            have ecd := cs.frame d hdlt (default_name_count d)
            have hl2 := live_congr ecd hdlt cs.mono
            simp only [r1, if_true]
            rw [storeDim_some (by rw [hl2]; exact pre1.live) i _ (by rw [dimsOf_congr ecd]; exact hi1), dimsOf_congr ecd]
            obtain ⟨s2, _, _, _⟩ := DStep_store (h1 := (copyString h1 (default : Dim).name name.toStr).1)
              (x := { name := (copyString h1 (default : Dim).name name.toStr).2.1, kind := kind,
                      arraySizePx := a, chunkSizePx := c, shardSizeChunks := sh })
              pre1 hi1 cs.hok ecd cs.sok (by rw [eli]; exact cs.bal) (fun k hk _ hz => cs.frame k hk (by rw [eli] at hz; exact hz)) cs.mono
            exact ⟨Step_of_DStep hd ok ow (s1.trans s2), trivial⟩

end AcqVerif.SProps
