import AcqVerif.SProps.Ops
/-!
# `storage_properties_copy`
-/
namespace AcqVerif.SProps

/-- `src` is a well-formed object whose blocks are live and none of which `dst` owns -/
structure Sep (h : Heap) (dst src : Obj) : Prop where
  ok : ObjOK h src
  disj : ∀ k, 0 < objCount h src k → h.live k = true ∧ objCount h dst k = 0

theorem Sep.step {h h' : Heap} {dst dst' src : Obj} (sp : Sep h dst src) (st : Step h dst h' dst') :
    Sep h' dst' src ∧ (∀ k, 0 < objCount h src k → h'.cells k = h.cells k) ∧
    objView h' src = objView h src ∧ (∀ k, objCount h' src k = objCount h src k) := by
  have hc : ∀ k, 0 < objCount h src k → h'.cells k = h.cells k := fun k hk =>
    st.frame k (live_lt (sp.disj k hk).1) (sp.disj k hk).2
  have hcnt := objCount_congr hc
  refine ⟨⟨ObjOK_congr sp.ok hc, ?_⟩, hc, objView_congr sp.ok hc, hcnt⟩
  intro k hk
  rw [hcnt k] at hk
  obtain ⟨l, z⟩ := sp.disj k hk
  have hl := live_congr (hc k hk) (live_lt l) st.mono
  refine ⟨by rw [hl]; exact l, ?_⟩
  have := st.bal k
  rw [hl, z] at this; omega

theorem Sep.srcOK {h : Heap} {dst src : Obj} (sp : Sep h dst src) (f : Field) : SrcOK h (src.get f) := by
  apply StrOK_SrcOK (sp.ok.get f)
  intro k
  by_cases hk : 0 < strCount (src.get f) k
  · have := strCount_get_le src f k
    rw [(sp.disj k (by unfold objCount; omega)).1]
    exact strCount_le_one _ _
  · omega

theorem Sep.na {h : Heap} {dst src : Obj} (sp : Sep h dst src) (f : Field) (k : Nat) (hk : (src.get f).str = .heap k) :
    objCount h dst k = 0 := by
  have h1 := (sp.ok.get f).heap_count hk
  have := strCount_get_le src f k
  exact (sp.disj k (by unfold objCount; omega)).2

/-- state of `storage_properties_copy` between two `copy_string` calls: fields in `done` are copied -/
structure CopyInv (h : Heap) (dst src : Obj) (done : Field → Prop) (hi : Heap) (oi : Obj) : Prop where
  st : Step h dst hi oi
  sp : Sep hi oi src
  vals : ∀ g, done g → strVal hi (oi.get g) = strVal h (src.get g)
  srcv : ∀ g, strVal hi (src.get g) = strVal h (src.get g)
  dd : oi.dimsData = dst.dimsData
  ds : oi.dimsSize = dst.dimsSize
  s1 : oi.firstFrameId = dst.firstFrameId
  s2 : oi.pxX = dst.pxX
  s3 : oi.pxY = dst.pxY
  s4 : oi.multiscale = dst.multiscale
  dcells : ∀ k, 0 < dimsCount h dst k → hi.cells k = h.cells k

theorem copy_link {h : Heap} {dst src : Obj} {done : Field → Prop} {hi : Heap} {oi : Obj} (owd : Owns h dst)
    (ci : CopyInv h dst src done hi oi) (f : Field) :
    (setStr hi oi f (src.get f)).2.2 = true ∧
    CopyInv h dst src (fun g => done g ∨ g = f) (setStr hi oi f (src.get f)).1 (setStr hi oi f (src.get f)).2.1 := by
  have owi := ci.st.owns owd
  obtain ⟨r1, st, v, oth, l1, l2, l3, l4, l5, l6, dc⟩ :=
    setStr_link f ci.st.hok ci.st.ok owi (ci.sp.srcOK f) (ci.sp.na f)
  obtain ⟨sp', hc, _, _⟩ := ci.sp.step st
  have hdc : ∀ k, dimsCount hi oi k = dimsCount h dst k := by
    intro k
    have e : ∀ k, 0 < dimsCount h dst k → hi.cells k = h.cells k := ci.dcells
    have := dimsCount_congr (o := dst) e k
    simp only [dimsCount, ci.dd] at this ⊢
    exact this
  refine ⟨r1, ⟨ci.st.trans st, sp', ?_, ?_, by rw [l1, ci.dd], by rw [l2, ci.ds], by rw [l3, ci.s1], by rw [l4, ci.s2],
    by rw [l5, ci.s3], by rw [l6, ci.s4], ?_⟩⟩
  · intro g hg
    by_cases hgf : g = f
    · subst hgf
      rw [v, term_strVal_of_StrOK (ci.sp.ok.get g), ci.srcv g]
    · rcases hg with hg | hg
      · obtain ⟨e1, e2⟩ := oth g hgf
        rw [e1, e2, ci.vals g hg]
      · exact absurd hg hgf
  · intro g
    rw [← ci.srcv g]
    apply strVal_congr_ok (ci.sp.ok.get g)
    intro k hk
    exact hc k (by have := strCount_get_le src g k; unfold objCount; omega)
  · intro k hk
    rw [dc k (by rw [hdc k]; exact hk), ci.dcells k hk]

/-- step 2 of the copy: the four strings -/
theorem copyStrings_spec {h : Heap} {dst src : Obj} (hok : HeapOK h) (okd : ObjOK h dst) (owd : Owns h dst)
    (sp : Sep h dst src) :
    (copyStrings h dst src).2.2 = true ∧
    CopyInv h dst src (fun _ => True) (copyStrings h dst src).1 (copyStrings h dst src).2.1 := by
  have c0 : CopyInv h dst src (fun _ => False) h dst :=
    ⟨Step.refl hok okd, sp, fun _ hf => absurd hf id, fun _ => rfl, rfl, rfl, rfl, rfl, rfl, rfl, fun _ _ => rfl⟩
  obtain ⟨r1, c1⟩ := copy_link owd c0 .uri
  unfold copyStrings
  have eu : src.uri = src.get .uri := rfl
  have em : src.mdata = src.get .mdata := rfl
  have ea : src.akey = src.get .akey := rfl
  have es : src.skey = src.get .skey := rfl
  rw [eu, em, ea, es]
  simp only [r1, Bool.not_true, Bool.false_eq_true, if_false]
  generalize setStr h dst .uri (src.get .uri) = q1 at *
  obtain ⟨r2, c2⟩ := copy_link owd c1 .mdata
  simp only [r2, Bool.not_true, Bool.false_eq_true, if_false]
  generalize setStr q1.1 q1.2.1 .mdata (src.get .mdata) = q2 at *
  obtain ⟨r3, c3⟩ := copy_link owd c2 .akey
  simp only [r3, Bool.not_true, Bool.false_eq_true, if_false]
  generalize setStr q2.1 q2.2.1 .akey (src.get .akey) = q3 at *
  obtain ⟨r4, c4⟩ := copy_link owd c3 .skey
  refine ⟨r4, ⟨c4.st, c4.sp, ?_, c4.srcv, c4.dd, c4.ds, c4.s1, c4.s2, c4.s3, c4.s4, c4.dcells⟩⟩
  intro g _
  apply c4.vals g
  cases g <;> simp

/-! ### step 3: the dimensions -/

theorem dimensionsDestroy_cells {h : Heap} {o : Obj} {d : Nat} (hd : o.dimsData = some d) (hok : HeapOK h) (ok : ObjOK h o)
    (ow : Owns h o) (k : Nat) (hk : k < h.next) (hkd : k ≠ d) (hz : namesCount (h.dimsOf d) k = 0) :
    (dimensionsDestroy h o).1.cells k = h.cells k := by
  have pre := DPre_of_obj hd hok ok ow
  have hlen : (h.dimsOf d).length = o.dimsSize := by
    have := ok.dims; unfold DimsOK at this; simp only [hd] at this; exact this.2.1
  obtain ⟨ds, _⟩ := destroyLoop_spec (d := d) o.dimsSize h 0 pre (by omega)
  have e1 : (dimensionsDestroy h o).1 = (destroyLoop h (some d) 0 o.dimsSize).free d := by
    simp [dimensionsDestroy, hd]
  rw [e1, free_live ds.live, release_cells_ne _ _ _ hkd]
  exact ds.frame k hk hkd hz

/-- the strings of an object are untouched by anything confined to its dimension array -/
theorem strs_outside_dims {h : Heap} {o : Obj} {d : Nat} (hd : o.dimsData = some d) (ow : Owns h o) (k : Nat)
    (hk : 0 < strsCount o k) : k < h.next ∧ k ≠ d ∧ namesCount (h.dimsOf d) k = 0 := by
  have h1 : objCount h o k ≤ 1 := Nat.le_trans (ow k) (b2n_le_one _)
  have hdc : dimsCount h o k = (if d = k then 1 else 0) + namesCount (h.dimsOf d) k := by simp [dimsCount, hd]
  unfold objCount at h1; rw [hdc] at h1
  refine ⟨ow.lt (by unfold objCount; omega), ?_, by omega⟩
  intro e; subst e; simp at h1; omega

theorem copyDims_clear {h : Heap} {dst : Obj} (hok : HeapOK h) (okd : ObjOK h dst) (owd : Owns h dst) :
    Step h dst (if dst.dimsData ≠ none then dimensionsDestroy h dst else (h, dst)).1
      (if dst.dimsData ≠ none then dimensionsDestroy h dst else (h, dst)).2 ∧
    (if dst.dimsData ≠ none then dimensionsDestroy h dst else (h, dst)).2 = { dst with dimsData := none, dimsSize := 0 } ∧
    (∀ k, 0 < strsCount dst k →
      (if dst.dimsData ≠ none then dimensionsDestroy h dst else (h, dst)).1.cells k = h.cells k) := by
  cases hd : dst.dimsData with
  | none =>
    simp only [ne_eq, not_true_eq_false, if_false]
    refine ⟨Step.refl hok okd, ?_, by simp⟩
    have := okd.dims; unfold DimsOK at this; simp only [hd] at this
    cases dst; simp_all
  | some d =>
    simp only [ne_eq, reduceCtorEq, not_false_eq_true, if_true]
    obtain ⟨s, e⟩ := dimensionsDestroy_step hd hok okd owd
    refine ⟨s, e, ?_⟩
    intro k hk
    obtain ⟨a, b, c⟩ := strs_outside_dims hd owd k hk
    exact dimensionsDestroy_cells hd hok okd owd k a b c

/-- what step 3 establishes -/
structure DimsCopied (h : Heap) (dst src : Obj) (h' : Heap) (o' : Obj) : Prop where
  st : Step h dst h' o'
  get : ∀ f, o'.get f = dst.get f
  strs : ∀ k, 0 < strsCount dst k → h'.cells k = h.cells k
  s1 : o'.firstFrameId = dst.firstFrameId
  s2 : o'.pxX = dst.pxX
  s3 : o'.pxY = dst.pxY
  s4 : o'.multiscale = dst.multiscale
  size : o'.dimsSize = src.dimsSize
  view : dimsView h' o' = dimsView h src

theorem get_with_dims (o : Obj) (dd : Option Nat) (n : Nat) (f : Field) :
    ({ o with dimsData := dd, dimsSize := n } : Obj).get f = o.get f := by cases f <;> rfl

theorem strsCount_with_dims (o : Obj) (dd : Option Nat) (n : Nat) (k : Nat) :
    strsCount ({ o with dimsData := dd, dimsSize := n } : Obj) k = strsCount o k := rfl

theorem copyDims_spec {h : Heap} {dst src : Obj} (hok : HeapOK h) (okd : ObjOK h dst) (owd : Owns h dst)
    (sp : Sep h dst src) :
    (copyDims h dst src).2.2 = true ∧ DimsCopied h dst src (copyDims h dst src).1 (copyDims h dst src).2.1 := by
  obtain ⟨sc, ec, cc⟩ := copyDims_clear hok okd owd
  unfold copyDims
  generalize (if dst.dimsData ≠ none then dimensionsDestroy h dst else (h, dst)) = c at *
  obtain ⟨spc, hsc, vsc, _⟩ := sp.step sc
  have owc := sc.owns owd
  cases hs : src.dimsData with
  | none =>
    simp only [ne_eq, not_true_eq_false, if_false]
    have hss : src.dimsSize = 0 := by have := sp.ok.dims; unfold DimsOK at this; simpa [hs] using this
    refine ⟨by simp, ⟨sc, ?_, cc, ?_, ?_, ?_, ?_, ?_, ?_⟩⟩
    · intro f; rw [ec, get_with_dims]
    · rw [ec]
    · rw [ec]
    · rw [ec]
    · rw [ec]
    · rw [ec, hss]
    · simp [dimsView, ec, hs]
  | some sd =>
    simp only [ne_eq, reduceCtorEq, not_false_eq_true, if_true]
    -- the source array
    have hsdims := sp.ok.dims
    unfold DimsOK at hsdims; simp only [hs] at hsdims
    obtain ⟨hn, hslen, hsnames⟩ := hsdims
    have hsdc : ∀ (hh : Heap) k, dimsCount hh src k = (if sd = k then 1 else 0) + namesCount (hh.dimsOf sd) k := by
      intro hh k; simp [dimsCount, hs]
    -- allocate dst's new array
    obtain ⟨si, isucc, ifail⟩ := dimensionsInit_step src.dimsSize sc.hok sc.ok owc
    have hcd : c.2.dimsData = none := by rw [ec]
    have hi2 : (dimensionsInit c.1 c.2 src.dimsSize).2.2 = true := by
      have : src.dimsSize ≠ 0 := by omega
      simp [dimensionsInit, hcd, dimensionArrayInit, this]
    obtain ⟨_, _, eo, edims, eh⟩ := isucc hi2
    simp only [hi2, Bool.not_true, Bool.false_eq_true, if_false]
    have sci := sc.trans si
    obtain ⟨spi, hsi, vsi, csi⟩ := spc.step si
    have owi := si.owns owc
    generalize dimensionsInit c.1 c.2 src.dimsSize = q at *
    have hqd : q.2.1.dimsData = some c.1.next := by rw [eo]
    rw [hqd]
    have pre := DPre_of_obj hqd si.hok si.ok owi
    -- the source array seen from the new one
    have hsdlive : q.1.live sd = true := (spi.disj sd (by unfold objCount; rw [hsdc]; simp; omega)).1
    have hsdlt : sd < c.1.next := by
      have l := (spc.disj sd (by unfold objCount; rw [hsdc]; simp; omega)).1
      exact live_lt l
    have hqsd : q.1.dimsOf sd = c.1.dimsOf sd := by rw [eh]; exact dimsOf_congr (malloc_cells_lt _ _ _ hsdlt)
    have hcsd : c.1.dimsOf sd = h.dimsOf sd :=
      dimsOf_congr (hsc sd (by unfold objCount; rw [hsdc]; simp; omega))
    have sa : SrcArr q.1 c.1.next sd := by
      refine ⟨by omega, hsdlive, by rw [edims]; exact namesCount_replicate_default _ _, ?_⟩
      intro dm hdm
      have hdm' : dm ∈ h.dimsOf sd := by rw [← hcsd, ← hqsd]; exact hdm
      have okq : StrOK q.1 dm.name := by
        have := spi.ok.dims; unfold DimsOK at this; simp only [hs] at this; exact this.2.2 dm hdm
      refine ⟨okq, fun k hk => ?_⟩
      have hle := namesCount_mem_le (q.1.dimsOf sd) dm hdm k
      have hpos : 0 < objCount q.1 src k := by unfold objCount; rw [hsdc]; omega
      obtain ⟨l, z⟩ := spi.disj k hpos
      refine ⟨l, ?_, by rw [edims]; exact namesCount_replicate_default _ _⟩
      intro e
      rw [e] at z
      have : objCount q.1 q.2.1 c.1.next = strsCount q.2.1 c.1.next + ((if c.1.next = c.1.next then 1 else 0) + namesCount (q.1.dimsOf c.1.next) c.1.next) := by
        unfold objCount; simp [dimsCount, hqd]
      rw [this] at z; simp at z
    have hlen : (q.1.dimsOf c.1.next).length = src.dimsSize := by rw [edims]; simp
    obtain ⟨lok, ls, _, lB⟩ := copyLoop_spec (d := c.1.next) (sd := sd) src.dimsSize q.1 0 pre sa
      (by rw [hlen]; omega) (by rw [hqsd, hcsd, hslen]; omega)
    have sl := Step_of_DStep hqd si.ok owi ls
    generalize copyLoop q.1 (some c.1.next) (some sd) 0 src.dimsSize = l at *
    refine ⟨lok, ⟨sci.trans sl, ?_, ?_, ?_, ?_, ?_, ?_, ?_, ?_⟩⟩
    · intro f; rw [eo, get_with_dims, ec, get_with_dims]
    · intro k hk
      have hk1 : 0 < strsCount c.2 k := by rw [ec, strsCount_with_dims]; exact hk
      have hk2 : 0 < strsCount q.2.1 k := by rw [eo, strsCount_with_dims]; exact hk1
      obtain ⟨a, b, z⟩ := strs_outside_dims hqd owi k hk2
      rw [ls.frame k a b z, eh, malloc_cells_lt _ _ _ (owc.lt (by unfold objCount; omega)), cc k hk]
    · rw [eo, ec]
    · rw [eo, ec]
    · rw [eo, ec]
    · rw [eo, ec]
    · rw [eo]
    · -- element by element
      simp only [dimsView, hqd, hs]
      apply List.ext_getElem?
      intro j
      simp only [List.getElem?_map]
      by_cases hj : j < src.dimsSize
      · have hj' : j < (q.1.dimsOf sd).length := by rw [hqsd, hcsd, hslen]; exact hj
        obtain ⟨x, ex, vx⟩ := lB j hj' (Nat.zero_le _) (by omega)
        have hjs : j < (h.dimsOf sd).length := by rw [hslen]; exact hj
        rw [ex, List.getElem?_eq_getElem hjs]
        simp only [Option.map_some, Option.some.injEq]
        rw [vx]
        have eel : (q.1.dimsOf sd)[j] = (h.dimsOf sd)[j] := by simp only [hqsd, hcsd]
        rw [eel]
        have hmem := List.getElem_mem hjs
        apply dimView_congr _ (hsnames _ hmem)
        intro k hk
        have hle := namesCount_mem_le (h.dimsOf sd) _ hmem k
        have hpos : 0 < objCount h src k := by unfold objCount; rw [hsdc]; omega
        have hpc : 0 < objCount c.1 src k := by
          obtain ⟨_, _, _, e⟩ := sp.step sc; rw [e k]; exact hpos
        rw [hsi k hpc, hsc k hpos]
      · have h1 : (l.1.dimsOf c.1.next).length = src.dimsSize := by rw [ls.len, hlen]
        rw [List.getElem?_eq_none (by omega), List.getElem?_eq_none (by omega)]
        simp

/-! ### the whole function -/

theorem copyScalars_count (h : Heap) (dst src : Obj) (k : Nat) : objCount h (copyScalars dst src) k = objCount h dst k := rfl

theorem copyScalars_get (dst src : Obj) (f : Field) : (copyScalars dst src).get f = dst.get f := by cases f <;> rfl

theorem copy_spec {h : Heap} {dst src : Obj} (hok : HeapOK h) (okd : ObjOK h dst) (owd : Owns h dst) (sp : Sep h dst src) :
    (copy h dst src).2.2 = true ∧
    Step h dst (copy h dst src).1 (copy h dst src).2.1 ∧
    objView (copy h dst src).1 (copy h dst src).2.1 = objView h src := by
  have ok0 : ObjOK h (copyScalars dst src) := ⟨okd.uri, okd.mdata, okd.akey, okd.skey, okd.dims⟩
  have ow0 : Owns h (copyScalars dst src) := fun k => by rw [copyScalars_count]; exact owd k
  have sp0 : Sep h (copyScalars dst src) src := ⟨sp.ok, fun k hk => by rw [copyScalars_count]; exact sp.disj k hk⟩
  obtain ⟨r1, ci⟩ := copyStrings_spec hok ok0 ow0 sp0
  unfold copy
  simp only [r1, Bool.not_true, Bool.false_eq_true, if_false]
  generalize copyStrings h (copyScalars dst src) src = q at *
  have ow1 := ci.st.owns ow0
  obtain ⟨r2, dc⟩ := copyDims_spec ci.st.hok ci.st.ok ow1 ci.sp
  obtain ⟨_, _, v1, _⟩ := sp0.step ci.st
  generalize copyDims q.1 q.2.1 src = p at *
  refine ⟨r2, (ci.st.trans dc.st).of_count_eq (fun k => (copyScalars_count h dst src k).symm), ?_⟩
  have hs : ∀ f, strVal p.1 (p.2.1.get f) = strVal h (src.get f) := by
    intro f
    rw [dc.get f, ← ci.vals f trivial]
    apply strVal_congr_ok (ci.st.ok.get f)
    intro k hk
    exact dc.strs k (by have := strCount_get_le q.2.1 f k; omega)
  have hu := hs .uri; have hm := hs .mdata; have ha := hs .akey; have hk := hs .skey
  simp only [Obj.get] at hu hm ha hk
  have hdv : dimsView q.1 src = dimsView h src := congrArg ObjView.dims v1
  simp only [objView, hu, hm, ha, hk, dc.s1, dc.s2, dc.s3, dc.s4, dc.size, dc.view, hdv, ci.s1, ci.s2, ci.s3, ci.s4]
  rfl

end AcqVerif.SProps
