import AcqVerif.SProps.Heap
/-!
# Ownership counts, well-formed strings and objects

`objCount h o id` counts the fields of object `o` that *own* block `id` (a `String` with
`is_ref = 0` whose pointer is the block; the `acquisition_dimensions.data` pointer; the names of
the dimensions stored in that block).  The ownership invariant of a state is
`∀ id, Σ_objects objCount h o id = (1 if id is live else 0)`: every live block has exactly one
owning field in exactly one object and nothing owns a released block.
-/
namespace AcqVerif.SProps

/-- 1 iff `s` owns block `id` -/
def strCount (s : Str) (id : Nat) : Nat := if s.str = .heap id ∧ s.isRef = false then 1 else 0

def namesCount (l : List Dim) (id : Nat) : Nat := (l.map fun d => strCount d.name id).sum

def dimsCount (h : Heap) (o : Obj) (id : Nat) : Nat :=
  match o.dimsData with
  | none => 0
  | some d => (if d = id then 1 else 0) + namesCount (h.dimsOf d) id

def strsCount (o : Obj) (id : Nat) : Nat :=
  strCount o.uri id + strCount o.mdata id + strCount o.akey id + strCount o.skey id

def objCount (h : Heap) (o : Obj) (id : Nat) : Nat := strsCount o id + dimsCount h o id

/-- a stored string: NULL, or an owned block holding `nbytes ≥ 1` bytes ending in NUL, or a borrowed
terminated string -/
def StrOK (h : Heap) (s : Str) : Prop :=
  match s.str with
  | .null => s.isRef = false ∧ s.nbytes = 0
  | .heap id => s.isRef = false ∧ 1 ≤ s.nbytes ∧ s.nbytes ≤ (h.bytesOf id).length ∧ (h.bytesOf id)[s.nbytes - 1]? = some 0
  | .ext b => s.isRef = true ∧ 1 ≤ s.nbytes ∧ s.nbytes = b.length ∧ b[s.nbytes - 1]? = some 0

def DimsOK (h : Heap) (o : Obj) : Prop :=
  match o.dimsData with
  | none => o.dimsSize = 0
  | some d => 0 < o.dimsSize ∧ (h.dimsOf d).length = o.dimsSize ∧ ∀ dm ∈ h.dimsOf d, StrOK h dm.name

structure ObjOK (h : Heap) (o : Obj) : Prop where
  uri : StrOK h o.uri
  mdata : StrOK h o.mdata
  akey : StrOK h o.akey
  skey : StrOK h o.skey
  dims : DimsOK h o

/-- the object owns only live blocks, each at most once -/
def Owns (h : Heap) (o : Obj) : Prop := ∀ id, objCount h o id ≤ b2n (h.live id)

theorem b2n_le_one (b : Bool) : b2n b ≤ 1 := by cases b <;> simp [b2n]
@[simp] theorem b2n_true : b2n true = 1 := rfl
@[simp] theorem b2n_false : b2n false = 0 := rfl

theorem b2n_eq_one {b : Bool} : b2n b = 1 ↔ b = true := by cases b <;> simp [b2n]
theorem b2n_eq_zero {b : Bool} : b2n b = 0 ↔ b = false := by cases b <;> simp [b2n]

theorem strCount_le_one (s : Str) (id : Nat) : strCount s id ≤ 1 := by
  unfold strCount; split <;> omega

@[simp] theorem strCount_default (id : Nat) : strCount {} id = 0 := by simp [strCount]

theorem strCount_eq_one {s : Str} {id : Nat} : strCount s id = 1 ↔ s.str = .heap id ∧ s.isRef = false := by
  unfold strCount; split <;> simp_all

theorem strCount_pos {s : Str} {id : Nat} (h : 0 < strCount s id) : s.str = .heap id ∧ s.isRef = false := by
  unfold strCount at h; split at h
  · assumption
  · omega

theorem strCount_heap (id k : Nat) (n : Nat) : strCount { str := .heap id, nbytes := n, isRef := false } k = if id = k then 1 else 0 := by
  simp [strCount]

theorem strCount_ref {s : Str} (hr : s.isRef = true) (k : Nat) : strCount s k = 0 := by
  simp [strCount, hr]

theorem strCount_null {s : Str} (hr : s.str = .null) (k : Nat) : strCount s k = 0 := by
  simp [strCount, hr]

theorem strCount_ext {s : Str} {b : List Byte} (hr : s.str = .ext b) (k : Nat) : strCount s k = 0 := by
  simp [strCount, hr]

/-! ### sums over a dimension array -/

theorem sum_set (l : List Nat) (i x : Nat) (h : i < l.length) : (l.set i x).sum + l[i] = l.sum + x := by
  induction l generalizing i with
  | nil => simp at h
  | cons a t ih =>
    cases i with
    | zero => simp; omega
    | succ j => simp at h ⊢; have := ih j h; omega

theorem namesCount_set (l : List Dim) (i : Nat) (d : Dim) (id : Nat) (h : i < l.length) :
    namesCount (l.set i d) id + strCount l[i].name id = namesCount l id + strCount d.name id := by
  unfold namesCount
  rw [List.map_set]
  have := sum_set (l.map fun d => strCount d.name id) i (strCount d.name id) (by simpa using h)
  simpa using this

theorem namesCount_replicate_default (n id : Nat) : namesCount (List.replicate n (default : Dim)) id = 0 := by
  induction n with
  | zero => simp [namesCount]
  | succ k ih =>
    simp only [namesCount, List.replicate_succ, List.map_cons, List.sum_cons] at ih ⊢
    have : strCount (default : Dim).name id = 0 := by
      show strCount ({} : Dim).name id = 0
      simp
    omega

theorem namesCount_mem_le (l : List Dim) (d : Dim) (hd : d ∈ l) (id : Nat) : strCount d.name id ≤ namesCount l id := by
  induction l with
  | nil => simp at hd
  | cons a t ih =>
    simp only [namesCount, List.map_cons, List.sum_cons] at ih ⊢
    rcases List.mem_cons.mp hd with rfl | hd
    · omega
    · have := ih hd; omega

theorem namesCount_eq_zero {l : List Dim} {id : Nat} (h : ∀ d ∈ l, strCount d.name id = 0) : namesCount l id = 0 := by
  induction l with
  | nil => simp [namesCount]
  | cons a t ih =>
    simp only [namesCount, List.map_cons, List.sum_cons] at ih ⊢
    have h1 := h a (by simp)
    have h2 := ih (fun d hd => h d (by simp [hd]))
    omega

/-! ### congruence: counts and well-formedness look only at the blocks the object owns -/

theorem StrOK_congr {h h' : Heap} {s : Str} (ok : StrOK h s)
    (e : ∀ k, 0 < strCount s k → h'.cells k = h.cells k) : StrOK h' s := by
  unfold StrOK at ok ⊢
  split
  · next hs => simpa [hs] using ok
  · next id hs =>
    simp only [hs] at ok
    have : h'.bytesOf id = h.bytesOf id := bytesOf_congr (e id (by simp [strCount, hs, ok.1]))
    rw [this]; exact ok
  · next b hs => simpa [hs] using ok

theorem dimsCount_congr {h h' : Heap} {o : Obj}
    (e : ∀ k, 0 < dimsCount h o k → h'.cells k = h.cells k) (id : Nat) : dimsCount h' o id = dimsCount h o id := by
  unfold dimsCount at e ⊢
  split
  · rfl
  · next d hd =>
    simp only [hd] at e
    have : h'.dimsOf d = h.dimsOf d := dimsOf_congr (e d (by simp; omega))
    rw [this]

theorem objCount_congr {h h' : Heap} {o : Obj}
    (e : ∀ k, 0 < objCount h o k → h'.cells k = h.cells k) (id : Nat) : objCount h' o id = objCount h o id := by
  unfold objCount
  rw [dimsCount_congr (fun k hk => e k (by unfold objCount; omega))]

theorem DimsOK_congr {h h' : Heap} {o : Obj} (ok : DimsOK h o)
    (e : ∀ k, 0 < dimsCount h o k → h'.cells k = h.cells k) : DimsOK h' o := by
  unfold DimsOK at ok ⊢
  unfold dimsCount at e
  split
  · next hd => simpa [hd] using ok
  · next d hd =>
    simp only [hd] at ok e
    have : h'.dimsOf d = h.dimsOf d := dimsOf_congr (e d (by simp; omega))
    rw [this]
    refine ⟨ok.1, ok.2.1, fun dm hdm => StrOK_congr (ok.2.2 dm hdm) (fun k hk => e k ?_)⟩
    have := namesCount_mem_le (h.dimsOf d) dm hdm k
    omega

theorem ObjOK_congr {h h' : Heap} {o : Obj} (ok : ObjOK h o)
    (e : ∀ k, 0 < objCount h o k → h'.cells k = h.cells k) : ObjOK h' o := by
  have es : ∀ k, 0 < strsCount o k → h'.cells k = h.cells k := fun k hk => e k (by unfold objCount; omega)
  constructor
  · exact StrOK_congr ok.uri (fun k hk => es k (by unfold strsCount; omega))
  · exact StrOK_congr ok.mdata (fun k hk => es k (by unfold strsCount; omega))
  · exact StrOK_congr ok.akey (fun k hk => es k (by unfold strsCount; omega))
  · exact StrOK_congr ok.skey (fun k hk => es k (by unfold strsCount; omega))
  · exact DimsOK_congr ok.dims (fun k hk => e k (by unfold objCount; omega))

/-! ### fields -/

theorem get_set (o : Obj) (f g : Field) (s : Str) : (o.set f s).get g = if g = f then s else o.get g := by
  cases f <;> cases g <;> simp [Obj.set, Obj.get]

theorem strsCount_set (o : Obj) (f : Field) (s : Str) (id : Nat) :
    strsCount (o.set f s) id + strCount (o.get f) id = strsCount o id + strCount s id := by
  cases f <;> simp [Obj.set, Obj.get, strsCount] <;> omega

@[simp] theorem set_dimsData (o : Obj) (f : Field) (s : Str) : (o.set f s).dimsData = o.dimsData := by
  cases f <;> rfl
@[simp] theorem set_dimsSize (o : Obj) (f : Field) (s : Str) : (o.set f s).dimsSize = o.dimsSize := by
  cases f <;> rfl
@[simp] theorem set_firstFrameId (o : Obj) (f : Field) (s : Str) : (o.set f s).firstFrameId = o.firstFrameId := by
  cases f <;> rfl
@[simp] theorem set_pxX (o : Obj) (f : Field) (s : Str) : (o.set f s).pxX = o.pxX := by cases f <;> rfl
@[simp] theorem set_pxY (o : Obj) (f : Field) (s : Str) : (o.set f s).pxY = o.pxY := by cases f <;> rfl
@[simp] theorem set_multiscale (o : Obj) (f : Field) (s : Str) : (o.set f s).multiscale = o.multiscale := by
  cases f <;> rfl

theorem dimsCount_set (h : Heap) (o : Obj) (f : Field) (s : Str) (id : Nat) : dimsCount h (o.set f s) id = dimsCount h o id := by
  simp [dimsCount]

theorem DimsOK_set {h : Heap} {o : Obj} (f : Field) (s : Str) : DimsOK h (o.set f s) ↔ DimsOK h o := by
  simp [DimsOK]

theorem ObjOK.get {h : Heap} {o : Obj} (ok : ObjOK h o) (f : Field) : StrOK h (o.get f) := by
  cases f
  · exact ok.uri
  · exact ok.mdata
  · exact ok.akey
  · exact ok.skey

theorem strCount_get_le (o : Obj) (f : Field) (id : Nat) : strCount (o.get f) id ≤ strsCount o id := by
  cases f <;> simp [Obj.get, strsCount] <;> omega

theorem ObjOK_of_fields {h : Heap} {o : Obj} (hs : ∀ f, StrOK h (o.get f)) (hd : DimsOK h o) : ObjOK h o :=
  ⟨hs .uri, hs .mdata, hs .akey, hs .skey, hd⟩

theorem ObjOK_default (h : Heap) : ObjOK h {} := by
  constructor <;> simp [StrOK, DimsOK]

theorem objCount_default (h : Heap) (id : Nat) : objCount h {} id = 0 := by
  simp [objCount, strsCount, dimsCount]

end AcqVerif.SProps
