import AcqVerif.SProps.CopyString
/-!
# What one call does to the object it is applied to (`Step`) — strings

`Step h o h' o'`: the heap stays well-formed, the object stays well-formed, the change of what
the object owns equals the change of what is live (`bal`), and no block outside the object's
footprint is touched (`frame`).
-/
namespace AcqVerif.SProps

structure Step (h : Heap) (o : Obj) (h' : Heap) (o' : Obj) : Prop where
  hok : HeapOK h'
  ok : ObjOK h' o'
  bal : ∀ k, objCount h' o' k + b2n (h.live k) = objCount h o k + b2n (h'.live k)
  frame : ∀ k, k < h.next → objCount h o k = 0 → h'.cells k = h.cells k
  mono : h.next ≤ h'.next

theorem Owns.lt {h : Heap} {o : Obj} (ow : Owns h o) {k : Nat} (hk : 0 < objCount h o k) : k < h.next := by
  have := ow k
  cases hl : h.live k with
  | true => exact live_lt hl
  | false => simp [hl] at this; omega

theorem Owns.live {h : Heap} {o : Obj} (ow : Owns h o) {k : Nat} (hk : 0 < objCount h o k) : h.live k = true := by
  have := ow k
  cases hl : h.live k with
  | true => rfl
  | false => simp [hl] at this; omega

theorem Step.refl {h : Heap} {o : Obj} (hok : HeapOK h) (ok : ObjOK h o) : Step h o h o :=
  ⟨hok, ok, fun _ => rfl, fun _ _ _ => rfl, Nat.le_refl _⟩

theorem Step.owns {h h' : Heap} {o o' : Obj} (st : Step h o h' o') (ow : Owns h o) : Owns h' o' := by
  intro k
  have := st.bal k
  have := ow k
  have := b2n_le_one (h.live k)
  omega

theorem Step.trans {h h' h'' : Heap} {o o' o'' : Obj} (s1 : Step h o h' o') (s2 : Step h' o' h'' o'') :
    Step h o h'' o'' := by
  refine ⟨s2.hok, s2.ok, ?_, ?_, Nat.le_trans s1.mono s2.mono⟩
  · intro k
    have := s1.bal k
    have := s2.bal k
    omega
  · intro k hk hz
    have e1 := s1.frame k hk hz
    have hb := s1.bal k
    have hlt : k < h'.next := Nat.lt_of_lt_of_le hk s1.mono
    have hz' : objCount h' o' k = 0 := by
      have := b2n_le_one (h'.live k)
      have hlive : h'.live k = h.live k := by
        simp only [Heap.live, e1]
        have : Nat.blt k h'.next = Nat.blt k h.next := by
          rw [Bool.eq_iff_iff]; simp only [Nat.blt_eq]; omega
        rw [this]
      rw [hlive] at hb
      omega
    rw [s2.frame k hlt hz', e1]

/-- replace the object by one that owns the same blocks (used for `init`, which starts from zeroed memory) -/
theorem Step.of_count_eq {h h' : Heap} {o o0 o' : Obj} (st : Step h o0 h' o') (e : ∀ k, objCount h o k = objCount h o0 k) :
    Step h o h' o' :=
  ⟨st.hok, st.ok, fun k => by rw [e k]; exact st.bal k, fun k hk hz => st.frame k hk (by rw [← e k]; exact hz), st.mono⟩

theorem strCount_get_add_le (o : Obj) {f g : Field} (hfg : f ≠ g) (k : Nat) :
    strCount (o.get f) k + strCount (o.get g) k ≤ strsCount o k := by
  cases f <;> cases g <;> simp [Obj.get, strsCount] at hfg ⊢ <;> omega

/-- the part of an object not owned through field `f` is untouched by a change confined to `f`'s block -/
theorem cells_outside_field {h h' : Heap} {o : Obj} {f : Field} (ow : Owns h o)
    (fr : ∀ k, k < h.next → strCount (o.get f) k = 0 → h'.cells k = h.cells k)
    (k : Nat) (hk : 0 < objCount h o k) (hz : strCount (o.get f) k = 0) : h'.cells k = h.cells k :=
  fr k (ow.lt hk) hz

/-- a `StrOK` string that is a heap pointer owns its block -/
theorem StrOK.heap_count {h : Heap} {s : Str} (ok : StrOK h s) {k : Nat} (hs : s.str = .heap k) : strCount s k = 1 := by
  unfold StrOK at ok; simp only [hs] at ok
  simp [strCount, hs, ok.1]

/-- replacing the string of one field by the result of a `copy_string`-like change -/
theorem Step_of_field {h h' : Heap} {o : Obj} {f : Field} {d' : Str} (hok' : HeapOK h') (ok : ObjOK h o) (ow : Owns h o)
    (sok : StrOK h' d')
    (bal : ∀ k, strCount d' k + b2n (h.live k) = strCount (o.get f) k + b2n (h'.live k))
    (fr : ∀ k, k < h.next → strCount (o.get f) k = 0 → h'.cells k = h.cells k)
    (mono : h.next ≤ h'.next) :
    Step h o h' (o.set f d') := by
  have one : ∀ k, objCount h o k ≤ 1 := fun k => Nat.le_trans (ow k) (b2n_le_one _)
  have hdc : ∀ k, dimsCount h' o k = dimsCount h o k := by
    apply dimsCount_congr
    intro k hk
    apply cells_outside_field ow fr k (by unfold objCount; omega)
    have := one k; have := strCount_get_le o f k; unfold objCount at *; omega
  refine ⟨hok', ?_, ?_, ?_, mono⟩
  · apply ObjOK_of_fields
    · intro g
      rw [get_set]
      by_cases hg : g = f
      · simp [hg]; exact sok
      · simp only [hg, if_false]
        apply StrOK_congr (ok.get g)
        intro k hk
        apply cells_outside_field ow fr k
        · have := strCount_get_le o g k; unfold objCount; omega
        · have := strCount_get_add_le o (fun e => hg e.symm) k
          have := one k; unfold objCount at *; omega
    · rw [DimsOK_set]
      apply DimsOK_congr ok.dims
      intro k hk
      apply cells_outside_field ow fr k (by unfold objCount; omega)
      have := one k; have := strCount_get_le o f k; unfold objCount at *; omega
  · intro k
    have := strsCount_set o f d' k
    have := bal k
    unfold objCount
    rw [dimsCount_set, hdc k]
    omega
  · intro k hk hz
    apply fr k hk
    have := strCount_get_le o f k; unfold objCount at hz; omega

/-- `copy_string(&o-><f>, src)` for a source that `o` does not own -/
theorem setStr_step {h : Heap} {o : Obj} (f : Field) {src : Str} (hok : HeapOK h) (ok : ObjOK h o) (ow : Owns h o)
    (sok : SrcOK h src) (na : ∀ k, src.str = .heap k → objCount h o k = 0) :
    (setStr h o f src).2.2 = true ∧
    Step h o (setStr h o f src).1 (setStr h o f src).2.1 ∧
    (∃ d', (setStr h o f src).2.1 = o.set f d' ∧ strVal (setStr h o f src).1 d' = term (strVal h src) ∧
           d'.isRef = false ∧ d'.str ≠ .null) := by
  have dl : ∀ k, strCount (o.get f) k ≤ b2n (h.live k) := fun k => by
    have := strCount_get_le o f k; have := ow k; unfold objCount at *; omega
  have na' : ∀ k, src.str = .heap k → (o.get f).str ≠ .heap k := by
    intro k hk e
    have h1 := (ok.get f).heap_count e
    have := na k hk
    have := strCount_get_le o f k
    unfold objCount at *; omega
  obtain ⟨r1, cs⟩ := copyString_spec hok (ok.get f) dl sok na'
  refine ⟨r1, ?_, ⟨_, rfl, cs.val, cs.notRef, cs.notNull⟩⟩
  exact Step_of_field cs.hok ok ow cs.sok cs.bal cs.frame cs.mono

/-- a caller argument can always be read (`Op.wf`: the buffer is as long as stated) -/
theorem InStr.srcOK (h : Heap) {a : InStr} (wf : a.wf = true) : SrcOK h a.toStr := by
  unfold InStr.wf at wf; unfold SrcOK InStr.toStr
  cases hp : a.ptr with
  | none => simp
  | some b => simp [hp] at wf ⊢; omega

theorem InStr.not_heap (a : InStr) (k : Nat) : a.toStr.str ≠ .heap k := by
  unfold InStr.toStr; cases a.ptr <;> simp

end AcqVerif.SProps
