import AcqVerif.Generated.SPropsConst
/-!
# Model of `acquire-device-properties/device/props/storage.c` (property C13)

A literal transcription of every function of the first half of `props/storage.c`
(the second half are unit tests) over an abstract heap.

* The heap maps allocation ids (`0,1,2,…` in allocation order — the harness numbers
  the blocks handed out by the library's `malloc`/`realloc` the same way) to cells
  holding either bytes (string storage) or an array of `Dim` (the block behind
  `acquisition_dimensions.data`), plus a `freed` flag.  Nothing is ever removed:
  a stale pointer stays resolvable, and using it is *recorded* as an event.
* Every heap access goes through the primitives below, which append to `log`:
  `alloc`/`free` for the allocator calls, and `uaf` (access to a released or never
  allocated block), `dfree` (second `free`), `wild` (write / free / `realloc`
  through `NULL` or caller memory), `oob` (access beyond the end of a block) for the
  things C leaves undefined.  The theorems show the last four never happen.
* A C function that mutates through pointers becomes a function returning the new
  heap and the new struct; `goto Error` becomes an early return with `ok = false`.
* `malloc`/`realloc` are assumed to succeed (allocation failure is not in the
  quantifier of C13); `realloc` always moves (the harness's does too).
* Caller memory (`const char*` arguments, strings with `is_ref = 1`) is carried by
  value in the pointer: `Ptr.ext bytes`.

The model is of the code WITH the three proposed repairs of `fixes/11-*.patch`
(`storage_properties_copy` keeps dst's dimensions instead of aliasing src's;
`storage_properties_set_dimension` releases the previous name and tests `name[0]`
instead of calling `strlen`).
-/
namespace AcqVerif.SProps

abbrev Byte := UInt8

/-- a `char*` -/
inductive Ptr where
  | null
  | heap (id : Nat)
  | ext (bytes : List Byte)
deriving DecidableEq, Repr, Inhabited

/-- `struct String` -/
structure Str where
  str : Ptr := .null
  nbytes : Nat := 0
  isRef : Bool := false
deriving DecidableEq, Repr, Inhabited

/-- `struct StorageDimension` -/
structure Dim where
  name : Str := {}
  kind : Nat := 0
  arraySizePx : Nat := 0
  chunkSizePx : Nat := 0
  shardSizeChunks : Nat := 0
deriving DecidableEq, Repr, Inhabited

inductive Content where
  | bytes (b : List Byte)
  | dims (d : List Dim)
deriving Repr, Inhabited

def Content.size : Content → Nat
  | .bytes b => b.length
  | .dims d => d.length * sizeofStorageDimension

structure Cell where
  content : Content := .bytes []
  freed : Bool := false
deriving Repr, Inhabited

inductive Event where
  | alloc (id size : Nat)
  | free (id : Nat)
  | uaf (id : Nat)
  | dfree (id : Nat)
  | wild
  | oob
deriving DecidableEq, Repr, Inhabited

/-- newest event first -/
structure Heap where
  cells : Nat → Cell
  next : Nat
  log : List Event

def Heap.empty : Heap := ⟨fun _ => {}, 0, []⟩

def Heap.live (h : Heap) (id : Nat) : Bool := Nat.blt id h.next && !(h.cells id).freed

def Heap.ev (h : Heap) (e : Event) : Heap := { h with log := e :: h.log }

def Heap.setCell (h : Heap) (id : Nat) (c : Cell) : Heap :=
  { h with cells := fun k => if k = id then c else h.cells k }

/-- every dereference of a heap pointer checks the block is still there -/
def Heap.touch (h : Heap) (id : Nat) : Heap := if h.live id then h else h.ev (.uaf id)

def Heap.malloc (h : Heap) (c : Content) : Heap × Nat :=
  ({ cells := fun k => if k = h.next then ⟨c, false⟩ else h.cells k,
     next := h.next + 1,
     log := .alloc h.next c.size :: h.log }, h.next)

def Heap.free (h : Heap) (id : Nat) : Heap :=
  if id < h.next then
    if (h.cells id).freed then h.ev (.dfree id)
    else (h.setCell id ⟨(h.cells id).content, true⟩).ev (.free id)
  else h.ev .wild

/-- `free(p)` -/
def Heap.freePtr (h : Heap) : Ptr → Heap
  | .null => h
  | .heap id => h.free id
  | .ext _ => h.ev .wild

def Heap.bytesOf (h : Heap) (id : Nat) : List Byte :=
  match (h.cells id).content with
  | .bytes b => b
  | .dims _ => []

def Heap.dimsOf (h : Heap) (id : Nat) : List Dim :=
  match (h.cells id).content with
  | .dims d => d
  | .bytes _ => []

def pad (bs : List Byte) (n : Nat) : List Byte := bs.take n ++ List.replicate (n - bs.length) 0

/-- read `n` bytes at `p` -/
def Heap.load (h : Heap) (p : Ptr) (n : Nat) : Heap × List Byte :=
  match p with
  | .null => (h.ev .wild, List.replicate n 0)
  | .ext b => if n ≤ b.length then (h, b.take n) else (h.ev .oob, pad b n)
  | .heap id =>
    let h := h.touch id
    let b := h.bytesOf id
    if n ≤ b.length then (h, b.take n) else (h.ev .oob, pad b n)

/-- write `bs` at `p + off` -/
def Heap.store (h : Heap) (p : Ptr) (off : Nat) (bs : List Byte) : Heap :=
  match p with
  | .heap id =>
    let h := h.touch id
    let b := h.bytesOf id
    if off + bs.length ≤ b.length then
      h.setCell id ⟨.bytes (b.take off ++ bs ++ b.drop (off + bs.length)), (h.cells id).freed⟩
    else h.ev .oob
  | _ => h.ev .wild

/-- `realloc(p, n)`; always moves -/
def Heap.realloc (h : Heap) (p : Ptr) (n : Nat) : Heap × Ptr :=
  match p with
  | .null => let (h, id) := h.malloc (.bytes (List.replicate n 0)); (h, .heap id)
  | .ext _ => (h.ev .wild, .null)
  | .heap id =>
    let h := h.touch id
    let (h, new) := h.malloc (.bytes (pad (h.bytesOf id) n))
    (h.free id, .heap new)

/-- read `data[i]` -/
def Heap.loadDim (h : Heap) (data : Option Nat) (i : Nat) : Heap × Dim :=
  match data with
  | none => (h.ev .wild, default)
  | some id =>
    let h := h.touch id
    match (h.dimsOf id)[i]? with
    | some d => (h, d)
    | none => (h.ev .oob, default)

/-- write `data[i]` -/
def Heap.storeDim (h : Heap) (data : Option Nat) (i : Nat) (d : Dim) : Heap :=
  match data with
  | none => h.ev .wild
  | some id =>
    let h := h.touch id
    let l := h.dimsOf id
    if i < l.length then h.setCell id ⟨.dims (l.set i d), (h.cells id).freed⟩ else h.ev .oob

/-! ## `copy_string` -/

/-- `const struct String empty = { .is_ref = 1, .str = "", .nbytes = 1 }` -/
def emptyStr : Str := { str := .ext [0], nbytes := 1, isRef := true }

/-- `if (!(src && src->str && src->nbytes)) src = &empty;` (callers never pass a null `src`) -/
def csSrc (src : Str) : Str := if src.str = .null ∨ src.nbytes = 0 then emptyStr else src

/-- `if (!dst->str || dst->is_ref) { dst->str = malloc(src->nbytes); … }` -/
def csAlloc (h : Heap) (dst : Str) (n : Nat) : Heap × Str :=
  if dst.str = .null ∨ dst.isRef = true then
    let r := h.malloc (.bytes (List.replicate n 0))
    (r.1, { str := .heap r.2, nbytes := n, isRef := false })
  else (h, dst)

/-- `if (src->nbytes > dst->nbytes) { dst->str = realloc(dst->str, src->nbytes); }` -/
def csGrow (h : Heap) (dst : Str) (n : Nat) : Heap × Str :=
  if n > dst.nbytes then
    let r := h.realloc dst.str n
    (r.1, { dst with str := r.2 })
  else (h, dst)

/-- `memset(dst->str,0,n); memcpy(dst->str, src->str, n); if (n>0) dst->str[n-1]=0;` -/
def csFill (h : Heap) (p : Ptr) (src : Str) : Heap :=
  let n := src.nbytes
  let h := h.store p 0 (List.replicate n 0)
  let r := h.load src.str n
  let h := r.1.store p 0 r.2
  if n > 0 then h.store p (n - 1) [0] else h

def copyString (h : Heap) (dst src : Str) : Heap × Str × Bool :=
  let src := csSrc src
  let a := csAlloc h dst src.nbytes
  let g := csGrow a.1 a.2 src.nbytes
  let dst := { g.2 with nbytes := src.nbytes }
  (csFill g.1 dst.str src, dst, true)

/-! ## objects -/

/-- `struct StorageProperties` (pixel scale: two opaque values, copied verbatim) -/
structure Obj where
  uri : Str := {}
  mdata : Str := {}
  akey : Str := {}
  skey : Str := {}
  firstFrameId : Nat := 0
  pxX : Nat := 0
  pxY : Nat := 0
  dimsData : Option Nat := none
  dimsSize : Nat := 0
  multiscale : Nat := 0
deriving DecidableEq, Repr, Inhabited

inductive Field where
  | uri | mdata | akey | skey
deriving DecidableEq, Repr, Inhabited

def Obj.get (o : Obj) : Field → Str
  | .uri => o.uri
  | .mdata => o.mdata
  | .akey => o.akey
  | .skey => o.skey

def Obj.set (o : Obj) (f : Field) (s : Str) : Obj :=
  match f with
  | .uri => { o with uri := s }
  | .mdata => { o with mdata := s }
  | .akey => { o with akey := s }
  | .skey => { o with skey := s }

/-- a `(const char* p, size_t bytes_of_p)` argument pair; `ptr = none` is `NULL` -/
structure InStr where
  ptr : Option (List Byte) := none
  nbytes : Nat := 0
deriving DecidableEq, Repr, Inhabited

/-- `const struct String s = { .is_ref = 1, .nbytes = n, .str = (char*)p };` -/
def InStr.toStr (a : InStr) : Str :=
  { str := match a.ptr with | none => .null | some b => .ext b, nbytes := a.nbytes, isRef := true }

/-- `copy_string(&out-><field>, &s)` -/
def setStr (h : Heap) (o : Obj) (f : Field) (s : Str) : Heap × Obj × Bool :=
  let r := copyString h (o.get f) s
  (r.1, o.set f r.2.1, r.2.2)

def setUri (h : Heap) (o : Obj) (a : InStr) : Heap × Obj × Bool := setStr h o .uri a.toStr

def setExternalMetadata (h : Heap) (o : Obj) (a : InStr) : Heap × Obj × Bool := setStr h o .mdata a.toStr

def setAccessKeyAndSecret (h : Heap) (o : Obj) (a b : InStr) : Heap × Obj × Bool :=
  let r := setStr h o .akey a.toStr
  if r.2.2 then setStr r.1 r.2.1 .skey b.toStr else (r.1, r.2.1, false)

/-- `storage_dimension_array_init` -/
def dimensionArrayInit (h : Heap) (size : Nat) : Heap × Option Nat × Bool :=
  if size = 0 then (h, none, true)
  else
    let r := h.malloc (.dims (List.replicate size default))
    (r.1, some r.2, true)

/-- `storage_properties_dimensions_init` -/
def dimensionsInit (h : Heap) (o : Obj) (size : Nat) : Heap × Obj × Bool :=
  if size = 0 then (h, o, false)
  else if o.dimsData ≠ none then (h, o, false)
  else
    let r := dimensionArrayInit h size
    if r.2.1 = none then (r.1, { o with dimsData := r.2.1 }, false)
    else (r.1, { o with dimsData := r.2.1, dimsSize := size }, true)

/-- `storage_dimension_destroy(&data[i])` -/
def dimensionDestroy (h : Heap) (data : Option Nat) (i : Nat) : Heap :=
  let r := h.loadDim data i
  let h := if r.2.name.isRef = false ∧ r.2.name.str ≠ .null then r.1.freePtr r.2.name.str else r.1
  h.storeDim data i default

/-- the loop of `storage_properties_dimensions_destroy`: elements `i, i+1, …, i+k-1` -/
def destroyLoop (h : Heap) (data : Option Nat) (i : Nat) : Nat → Heap
  | 0 => h
  | k + 1 => destroyLoop (dimensionDestroy h data i) data (i + 1) k

/-- `storage_properties_dimensions_destroy` -/
def dimensionsDestroy (h : Heap) (o : Obj) : Heap × Obj :=
  match o.dimsData with
  | none => (h, o)
  | some id =>
    let h := destroyLoop h o.dimsData 0 o.dimsSize
    (h.free id, { o with dimsData := none, dimsSize := 0 })

/-- `storage_dimension_copy(&dst[i], &src[i])` -/
def dimensionCopy (h : Heap) (dst src : Option Nat) (i : Nat) : Heap × Bool :=
  let s := h.loadDim src i
  let d := s.1.loadDim dst i
  let r := copyString d.1 d.2.name s.2.name
  if r.2.2 then
    (r.1.storeDim dst i { name := r.2.1, kind := s.2.kind, arraySizePx := s.2.arraySizePx,
                          chunkSizePx := s.2.chunkSizePx, shardSizeChunks := s.2.shardSizeChunks }, true)
  else (r.1.storeDim dst i { d.2 with name := r.2.1 }, false)

/-- the loop of `storage_properties_copy`: elements `i, …, i+k-1` -/
def copyLoop (h : Heap) (dst src : Option Nat) (i : Nat) : Nat → Heap × Bool
  | 0 => (h, true)
  | k + 1 =>
    let r := dimensionCopy h dst src i
    if r.2 then copyLoop r.1 dst src (i + 1) k else (r.1, false)

/-- `storage_properties_set_dimension` (repaired).  `index` is a C `int` compared with a `size_t`. -/
def setDimension (h : Heap) (o : Obj) (index : Int) (name : InStr) (kind a c sh : Nat) : Heap × Obj × Bool :=
  if index < 0 ∨ index.toNat ≥ o.dimsSize then (h, o, false)
  else match name.ptr with
  | none => (h, o, false)
  | some b =>
    if name.nbytes = 0 then (h, o, false)
    else
      let r := h.load (.ext b) 1
      if r.2 = [0] then (r.1, o, false)
      else if kind ≥ dimensionTypeCount then (r.1, o, false)
      else
        let i := index.toNat
        let h := dimensionDestroy r.1 o.dimsData i
        let d := h.loadDim o.dimsData i
        let cs := copyString d.1 d.2.name name.toStr
        if cs.2.2 then
          (cs.1.storeDim o.dimsData i { name := cs.2.1, kind := kind, arraySizePx := a,
                                         chunkSizePx := c, shardSizeChunks := sh }, o, true)
        else (cs.1.storeDim o.dimsData i { d.2 with name := cs.2.1 }, o, false)

/-- `storage_properties_set_enable_multiscale` -/
def setEnableMultiscale (h : Heap) (o : Obj) (v : Nat) : Heap × Obj × Bool :=
  (h, { o with multiscale := v }, true)

/-- `storage_properties_init`; begins with `memset(out, 0, sizeof(*out))` -/
def init (h : Heap) (ffid : Nat) (uri mdata : InStr) (px py : Nat) (ndims : Nat) : Heap × Obj × Bool :=
  let r := setUri h {} uri
  if !r.2.2 then r else
  let r := setExternalMetadata r.1 r.2.1 mdata
  if !r.2.2 then r else
  let o := { r.2.1 with firstFrameId := ffid, pxX := px, pxY := py }
  if ndims > 0 then dimensionsInit r.1 o ndims else (r.1, o, true)

/-- step 2 of `storage_properties_copy`: "Reallocate and copy the Strings" -/
def copyStrings (h : Heap) (dst src : Obj) : Heap × Obj × Bool :=
  let r := setStr h dst .uri src.uri
  if !r.2.2 then r else
  let r := setStr r.1 r.2.1 .mdata src.mdata
  if !r.2.2 then r else
  let r := setStr r.1 r.2.1 .akey src.akey
  if !r.2.2 then r else
  setStr r.1 r.2.1 .skey src.skey

/-- step 3 of `storage_properties_copy` (repaired): release dst's dimensions, duplicate src's -/
def copyDims (h : Heap) (dst src : Obj) : Heap × Obj × Bool :=
  let d := if dst.dimsData ≠ none then dimensionsDestroy h dst else (h, dst)
  if src.dimsData ≠ none then
    let i := dimensionsInit d.1 d.2 src.dimsSize
    if !i.2.2 then i else
    let l := copyLoop i.1 i.2.1.dimsData src.dimsData 0 src.dimsSize
    (l.1, i.2.1, l.2)
  else (d.1, d.2, true)

/-- step 1 of `storage_properties_copy` (repaired): everything except the strings and the dimensions -/
def copyScalars (dst src : Obj) : Obj :=
  { src with uri := dst.uri, mdata := dst.mdata, akey := dst.akey, skey := dst.skey,
             dimsData := dst.dimsData, dimsSize := dst.dimsSize }

/-- `storage_properties_copy` (repaired) -/
def copy (h : Heap) (dst src : Obj) : Heap × Obj × Bool :=
  let r := copyStrings h (copyScalars dst src) src
  if !r.2.2 then r else copyDims r.1 r.2.1 src

/-- the string loop of `storage_properties_destroy` -/
def destroyStr (h : Heap) (o : Obj) (f : Field) : Heap × Obj :=
  let s := o.get f
  if s.isRef = false ∧ s.str ≠ .null then (h.freePtr s.str, o.set f {}) else (h, o)

/-- `storage_properties_destroy` -/
def destroy (h : Heap) (o : Obj) : Heap × Obj :=
  let r := destroyStr h o .uri
  let r := destroyStr r.1 r.2 .mdata
  let r := destroyStr r.1 r.2 .akey
  let r := destroyStr r.1 r.2 .skey
  dimensionsDestroy r.1 r.2

/-! ## operation scripts over a pool of objects -/

inductive Op where
  | init (o : Nat) (ffid : Nat) (uri mdata : InStr) (px py : Nat) (ndims : Nat)
  | setUri (o : Nat) (a : InStr)
  | setMeta (o : Nat) (a : InStr)
  | setKeys (o : Nat) (a b : InStr)
  | setDim (o : Nat) (index : Int) (name : InStr) (kind a c sh : Nat)
  | setMultiscale (o : Nat) (v : Nat)
  | copy (dst src : Nat)
  | destroy (o : Nat)
  /-- the caller stores a borrowed string (`is_ref = 1`) in a field -/
  | ref (o : Nat) (f : Field) (bytes : List Byte)
  | dimsInit (o : Nat) (n : Nat)
  | dimsDestroy (o : Nat)
deriving Repr, Inhabited

structure State where
  h : Heap := Heap.empty
  objs : List Obj := []

def State.init (n : Nat) : State := { objs := List.replicate n {} }

def State.obj (s : State) (i : Nat) : Obj := s.objs.getD i {}

def State.put (s : State) (i : Nat) (r : Heap × Obj) : State := { h := r.1, objs := s.objs.set i r.2 }

def b2n (b : Bool) : Nat := if b then 1 else 0

/-- an `InStr` describes a caller buffer of exactly `nbytes` bytes (or `NULL`) -/
def InStr.wf (a : InStr) : Bool :=
  match a.ptr with
  | none => true
  | some b => b.length == a.nbytes

/-- an object that holds no heap memory (zero-initialised or destroyed): what `init` may overwrite -/
def Obj.holdsNothing (o : Obj) : Bool :=
  (o.uri.isRef || o.uri.str == .null) && (o.mdata.isRef || o.mdata.str == .null) &&
  (o.akey.isRef || o.akey.str == .null) && (o.skey.isRef || o.skey.str == .null) && o.dimsData == none

def terminated (b : List Byte) : Bool := b.getLast? == some 0

/-- the usage rules of the API: operands exist; caller buffers are as long as stated; `init` is a
constructor (its first act is `memset(out,0)`); copy is between two different objects; a borrowed
string is a terminated C string and is not stored over an owned one. -/
def Op.wf (s : State) : Op → Bool
  | .init o _ uri mdata _ _ _ => decide (o < s.objs.length) && uri.wf && mdata.wf && (s.obj o).holdsNothing
  | .setUri o a => decide (o < s.objs.length) && a.wf
  | .setMeta o a => decide (o < s.objs.length) && a.wf
  | .setKeys o a b => decide (o < s.objs.length) && a.wf && b.wf
  | .setDim o _ name _ _ _ _ => decide (o < s.objs.length) && name.wf
  | .setMultiscale o _ => decide (o < s.objs.length)
  | .copy d c => decide (d < s.objs.length) && decide (c < s.objs.length) && decide (d ≠ c)
  | .destroy o => decide (o < s.objs.length)
  | .ref o f b => decide (o < s.objs.length) && terminated b &&
      (((s.obj o).get f).isRef || ((s.obj o).get f).str == .null)
  | .dimsInit o _ => decide (o < s.objs.length)
  | .dimsDestroy o => decide (o < s.objs.length)

/-- one API call on the pool; the second component is the C return value -/
def step (s : State) : Op → State × Nat
  | .init o ffid uri mdata px py nd =>
    let r := init s.h ffid uri mdata px py nd
    (s.put o (r.1, r.2.1), b2n r.2.2)
  | .setUri o a => let r := setUri s.h (s.obj o) a; (s.put o (r.1, r.2.1), b2n r.2.2)
  | .setMeta o a => let r := setExternalMetadata s.h (s.obj o) a; (s.put o (r.1, r.2.1), b2n r.2.2)
  | .setKeys o a b => let r := setAccessKeyAndSecret s.h (s.obj o) a b; (s.put o (r.1, r.2.1), b2n r.2.2)
  | .setDim o ix nm k a c sh =>
    let r := setDimension s.h (s.obj o) ix nm k a c sh; (s.put o (r.1, r.2.1), b2n r.2.2)
  | .setMultiscale o v => let r := setEnableMultiscale s.h (s.obj o) v; (s.put o (r.1, r.2.1), b2n r.2.2)
  | .copy d c => let r := copy s.h (s.obj d) (s.obj c); (s.put d (r.1, r.2.1), b2n r.2.2)
  | .destroy o => (s.put o (destroy s.h (s.obj o)), 1)
  | .ref o f b => (s.put o (s.h, (s.obj o).set f { str := .ext b, nbytes := b.length, isRef := true }), 1)
  | .dimsInit o n => let r := dimensionsInit s.h (s.obj o) n; (s.put o (r.1, r.2.1), b2n r.2.2)
  | .dimsDestroy o => (s.put o (dimensionsDestroy s.h (s.obj o)), 1)

/-- run a script; ill-formed operations are skipped (the harness skips them too) -/
def run (s : State) : List Op → State
  | [] => s
  | op :: rest => if op.wf s then run (step s op).1 rest else run s rest

/-- `storage_properties_destroy` on objects `i, …, i+k-1` -/
def destroyFrom (s : State) (i : Nat) : Nat → State
  | 0 => s
  | k + 1 => destroyFrom (s.put i (destroy s.h (s.obj i))) (i + 1) k

/-- what the harness does at the end of a case -/
def destroyAll (s : State) : State := destroyFrom s 0 s.objs.length

end AcqVerif.SProps
