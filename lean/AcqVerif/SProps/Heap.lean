import AcqVerif.SProps.Model
/-!
# Heap primitives: what they do when used correctly, and the heap-level invariant

`HeapOK h`: the event log contains no `uaf`/`dfree`/`wild`/`oob`, every block that was handed
out has exactly one `alloc` event, and a block has exactly one `free` event if it is released
and none otherwise.  Under the natural preconditions (the block is live, the access is in
bounds) every primitive reduces to one of three state changes — `malloc`, `release`, `setCell`
with the `freed` flag kept — each of which preserves `HeapOK`.
-/
namespace AcqVerif.SProps

def Event.bad : Event → Bool
  | .alloc _ _ => false
  | .free _ => false
  | _ => true

def Event.isAlloc (id : Nat) : Event → Bool
  | .alloc k _ => k == id
  | _ => false

def Event.isFree (id : Nat) : Event → Bool
  | .free k => k == id
  | _ => false

structure HeapOK (h : Heap) : Prop where
  clean : ∀ e ∈ h.log, e.bad = false
  allocs : ∀ id, h.log.countP (Event.isAlloc id) = b2n (Nat.blt id h.next)
  frees : ∀ id, h.log.countP (Event.isFree id) = b2n (Nat.blt id h.next && (h.cells id).freed)

theorem blt_self (n : Nat) : Nat.blt n n = false := by rw [Bool.eq_false_iff]; simp [Nat.blt_eq]
theorem blt_succ_self (n : Nat) : Nat.blt n (n + 1) = true := by simp [Nat.blt_eq]
theorem blt_zero (n : Nat) : Nat.blt n 0 = false := by rw [Bool.eq_false_iff]; simp [Nat.blt_eq]

theorem HeapOK_empty : HeapOK Heap.empty := by
  constructor <;> simp [Heap.empty, blt_zero, b2n]

/-- mark a live block released (what `free` does to a live block) -/
def Heap.release (h : Heap) (id : Nat) : Heap :=
  (h.setCell id ⟨(h.cells id).content, true⟩).ev (.free id)

@[simp] theorem setCell_cells_same (h : Heap) (id : Nat) (c : Cell) : (h.setCell id c).cells id = c := by
  simp [Heap.setCell]

theorem setCell_cells_ne (h : Heap) (id k : Nat) (c : Cell) (hk : k ≠ id) : (h.setCell id c).cells k = h.cells k := by
  simp [Heap.setCell, hk]

@[simp] theorem setCell_next (h : Heap) (id : Nat) (c : Cell) : (h.setCell id c).next = h.next := rfl
@[simp] theorem setCell_log (h : Heap) (id : Nat) (c : Cell) : (h.setCell id c).log = h.log := rfl
@[simp] theorem ev_cells (h : Heap) (e : Event) : (h.ev e).cells = h.cells := rfl
@[simp] theorem ev_next (h : Heap) (e : Event) : (h.ev e).next = h.next := rfl
@[simp] theorem ev_log (h : Heap) (e : Event) : (h.ev e).log = e :: h.log := rfl

theorem live_iff (h : Heap) (id : Nat) : h.live id = true ↔ id < h.next ∧ (h.cells id).freed = false := by
  simp [Heap.live, Nat.blt_eq]

theorem live_lt {h : Heap} {id : Nat} (hl : h.live id = true) : id < h.next := ((live_iff h id).mp hl).1

theorem not_live_of_ge {h : Heap} {id : Nat} (hge : h.next ≤ id) : h.live id = false := by
  cases hl : h.live id with
  | false => rfl
  | true => have := live_lt hl; omega

/-! ### `malloc` -/

@[simp] theorem malloc_id (h : Heap) (c : Content) : (h.malloc c).2 = h.next := rfl
@[simp] theorem malloc_next (h : Heap) (c : Content) : (h.malloc c).1.next = h.next + 1 := rfl
@[simp] theorem malloc_log (h : Heap) (c : Content) : (h.malloc c).1.log = .alloc h.next c.size :: h.log := rfl
@[simp] theorem malloc_cells_new (h : Heap) (c : Content) : (h.malloc c).1.cells h.next = ⟨c, false⟩ := by
  simp [Heap.malloc]

theorem malloc_cells_ne (h : Heap) (c : Content) (k : Nat) (hk : k ≠ h.next) : (h.malloc c).1.cells k = h.cells k := by
  simp [Heap.malloc, hk]

theorem malloc_cells_lt (h : Heap) (c : Content) (k : Nat) (hk : k < h.next) : (h.malloc c).1.cells k = h.cells k :=
  malloc_cells_ne h c k (by omega)

theorem malloc_live (h : Heap) (c : Content) (k : Nat) :
    (h.malloc c).1.live k = if k = h.next then true else h.live k := by
  by_cases hk : k = h.next
  · subst hk; simp [Heap.live, Nat.blt_eq]
  · simp only [hk, if_false]
    simp only [Heap.live, malloc_next, malloc_cells_ne h c k hk]
    have : Nat.blt k (h.next + 1) = Nat.blt k h.next := by
      rw [Bool.eq_iff_iff]; simp only [Nat.blt_eq]; omega
    rw [this]

theorem blt_succ_ne {k n : Nat} (hk : k ≠ n) : Nat.blt k (n + 1) = Nat.blt k n := by
  rw [Bool.eq_iff_iff]; simp only [Nat.blt_eq]; omega

theorem HeapOK_malloc {h : Heap} (ok : HeapOK h) (c : Content) : HeapOK (h.malloc c).1 := by
  constructor
  · intro e he
    simp only [malloc_log, List.mem_cons] at he
    rcases he with rfl | he
    · rfl
    · exact ok.clean e he
  · intro id
    simp only [malloc_log, malloc_next, List.countP_cons, ok.allocs id, Event.isAlloc]
    by_cases h1 : id = h.next
    · subst h1
      simp [blt_self, blt_succ_self, b2n]
    · have : (h.next == id) = false := by simp; omega
      simp [this, blt_succ_ne h1]
  · intro id
    simp only [malloc_log, malloc_next, List.countP_cons, ok.frees id, Event.isFree]
    by_cases h1 : id = h.next
    · subst h1
      simp [blt_self, b2n]
    · rw [malloc_cells_ne h c id h1, blt_succ_ne h1]; simp

/-! ### `setCell` keeping the `freed` flag (every in-place write) -/

theorem setCell_live (h : Heap) (id k : Nat) (c : Cell) (hc : c.freed = (h.cells id).freed) :
    (h.setCell id c).live k = h.live k := by
  by_cases hk : k = id
  · subst hk; simp [Heap.live, hc]
  · simp [Heap.live, setCell_cells_ne h id k c hk]

theorem HeapOK_setCell {h : Heap} (ok : HeapOK h) (id : Nat) (c : Cell) (hc : c.freed = (h.cells id).freed) :
    HeapOK (h.setCell id c) := by
  constructor
  · exact ok.clean
  · exact ok.allocs
  · intro k
    simp only [setCell_log, setCell_next, ok.frees k]
    by_cases hk : k = id
    · subst hk; simp [hc]
    · rw [setCell_cells_ne h id k c hk]

/-! ### `release` -/

@[simp] theorem release_next (h : Heap) (id : Nat) : (h.release id).next = h.next := rfl
@[simp] theorem release_log (h : Heap) (id : Nat) : (h.release id).log = .free id :: h.log := rfl
@[simp] theorem release_cells_same (h : Heap) (id : Nat) : (h.release id).cells id = ⟨(h.cells id).content, true⟩ := by
  simp [Heap.release]

theorem release_cells_ne (h : Heap) (id k : Nat) (hk : k ≠ id) : (h.release id).cells k = h.cells k := by
  simp [Heap.release, setCell_cells_ne _ _ _ _ hk]

theorem release_content (h : Heap) (id k : Nat) : ((h.release id).cells k).content = (h.cells k).content := by
  by_cases hk : k = id
  · subst hk; simp
  · rw [release_cells_ne h id k hk]

theorem release_live (h : Heap) (id k : Nat) : (h.release id).live k = if k = id then false else h.live k := by
  by_cases hk : k = id
  · subst hk; simp [Heap.live]
  · simp [Heap.live, release_cells_ne h id k hk, hk]

theorem HeapOK_release {h : Heap} (ok : HeapOK h) (id : Nat) (hl : h.live id = true) : HeapOK (h.release id) := by
  obtain ⟨h1, h2⟩ := (live_iff h id).mp hl
  constructor
  · intro e he
    simp only [release_log, List.mem_cons] at he
    rcases he with rfl | he
    · rfl
    · exact ok.clean e he
  · intro k
    simp only [release_log, release_next, List.countP_cons, ok.allocs k, Event.isAlloc]
    simp
  · intro k
    simp only [release_log, release_next, List.countP_cons, ok.frees k, Event.isFree]
    by_cases hk : k = id
    · subst hk
      have : Nat.blt k h.next = true := by simp [Nat.blt_eq, h1]
      simp [h2, this, b2n]
    · have : (id == k) = false := by simp; omega
      rw [release_cells_ne h id k hk]
      simp [this]

/-! ### the primitives of the model, used correctly -/

theorem touch_live {h : Heap} {id : Nat} (hl : h.live id = true) : h.touch id = h := by
  simp [Heap.touch, hl]

theorem free_live {h : Heap} {id : Nat} (hl : h.live id = true) : h.free id = h.release id := by
  obtain ⟨h1, h2⟩ := (live_iff h id).mp hl
  simp [Heap.free, h1, h2, Heap.release]

theorem load_ext (h : Heap) (b : List Byte) (n : Nat) (hn : n ≤ b.length) : h.load (.ext b) n = (h, b.take n) := by
  simp [Heap.load, hn]

theorem load_heap {h : Heap} {id : Nat} (hl : h.live id = true) (n : Nat) (hn : n ≤ (h.bytesOf id).length) :
    h.load (.heap id) n = (h, (h.bytesOf id).take n) := by
  simp [Heap.load, touch_live hl, hn]

theorem store_heap {h : Heap} {id : Nat} (hl : h.live id = true) (off : Nat) (bs : List Byte)
    (hn : off + bs.length ≤ (h.bytesOf id).length) :
    h.store (.heap id) off bs =
      h.setCell id ⟨.bytes ((h.bytesOf id).take off ++ bs ++ (h.bytesOf id).drop (off + bs.length)), false⟩ := by
  obtain ⟨_, h2⟩ := (live_iff h id).mp hl
  simp [Heap.store, touch_live hl, hn, h2]

theorem loadDim_some {h : Heap} {id : Nat} (hl : h.live id = true) (i : Nat) (hi : i < (h.dimsOf id).length) :
    h.loadDim (some id) i = (h, (h.dimsOf id)[i]) := by
  simp [Heap.loadDim, touch_live hl, hi]

theorem storeDim_some {h : Heap} {id : Nat} (hl : h.live id = true) (i : Nat) (d : Dim) (hi : i < (h.dimsOf id).length) :
    h.storeDim (some id) i d = h.setCell id ⟨.dims ((h.dimsOf id).set i d), false⟩ := by
  obtain ⟨_, h2⟩ := (live_iff h id).mp hl
  simp [Heap.storeDim, touch_live hl, hi, h2]

theorem bytesOf_setCell_ne (h : Heap) (id k : Nat) (c : Cell) (hk : k ≠ id) : (h.setCell id c).bytesOf k = h.bytesOf k := by
  simp [Heap.bytesOf, setCell_cells_ne h id k c hk]

@[simp] theorem bytesOf_setCell_same (h : Heap) (id : Nat) (b : List Byte) (f : Bool) :
    (h.setCell id ⟨.bytes b, f⟩).bytesOf id = b := by
  simp [Heap.bytesOf]

@[simp] theorem dimsOf_setCell_same (h : Heap) (id : Nat) (d : List Dim) (f : Bool) :
    (h.setCell id ⟨.dims d, f⟩).dimsOf id = d := by
  simp [Heap.dimsOf]

theorem dimsOf_setCell_ne (h : Heap) (id k : Nat) (c : Cell) (hk : k ≠ id) : (h.setCell id c).dimsOf k = h.dimsOf k := by
  simp [Heap.dimsOf, setCell_cells_ne h id k c hk]

theorem setCell_setCell (h : Heap) (id : Nat) (a b : Cell) : (h.setCell id a).setCell id b = h.setCell id b := by
  simp only [Heap.setCell]
  congr 1
  funext k
  by_cases hk : k = id <;> simp [hk]

theorem bytesOf_congr {h h' : Heap} {k : Nat} (e : h'.cells k = h.cells k) : h'.bytesOf k = h.bytesOf k := by
  simp [Heap.bytesOf, e]

theorem dimsOf_congr {h h' : Heap} {k : Nat} (e : h'.cells k = h.cells k) : h'.dimsOf k = h.dimsOf k := by
  simp [Heap.dimsOf, e]

theorem bytesOf_release (h : Heap) (id k : Nat) : (h.release id).bytesOf k = h.bytesOf k := by
  simp [Heap.bytesOf, release_content]

theorem dimsOf_release (h : Heap) (id k : Nat) : (h.release id).dimsOf k = h.dimsOf k := by
  simp [Heap.dimsOf, release_content]

@[simp] theorem bytesOf_malloc_new (h : Heap) (b : List Byte) : (h.malloc (.bytes b)).1.bytesOf h.next = b := by
  simp [Heap.bytesOf]

@[simp] theorem dimsOf_malloc_new (h : Heap) (d : List Dim) : (h.malloc (.dims d)).1.dimsOf h.next = d := by
  simp [Heap.dimsOf]

end AcqVerif.SProps
