import AcqVerif.SProps.Inv
/-!
# `copy_string`: what it does to the heap and to the destination `String`
-/
namespace AcqVerif.SProps

/-- the bytes a `String` stands for, as `copy_string` reads a source: NULL / empty ↦ `"\0"` -/
def strVal (h : Heap) (s : Str) : List Byte :=
  if s.nbytes = 0 then [0] else
  match s.str with
  | .null => [0]
  | .heap id => (h.bytesOf id).take s.nbytes
  | .ext b => b.take s.nbytes

/-- force the last byte to NUL -/
def term (bs : List Byte) : List Byte := bs.take (bs.length - 1) ++ [0]

/-- the source can be read: it is NULL, caller memory of the stated length, or a live block of at
least the stated length -/
def SrcOK (h : Heap) (s : Str) : Prop :=
  match s.str with
  | .null => True
  | .heap id => h.live id = true ∧ s.nbytes ≤ (h.bytesOf id).length
  | .ext b => s.nbytes ≤ b.length

theorem term_length (bs : List Byte) (_h : 1 ≤ bs.length) : (term bs).length = bs.length := by
  simp [term]; omega

theorem term_last (bs : List Byte) (h : 1 ≤ bs.length) : (term bs)[bs.length - 1]? = some 0 := by
  unfold term
  rw [List.getElem?_append_right (by simp)]
  simp

theorem term_of_terminated (bs : List Byte) (h1 : 1 ≤ bs.length) (h : bs[bs.length - 1]? = some 0) : term bs = bs := by
  unfold term
  have hlt : bs.length - 1 < bs.length := by omega
  rw [List.getElem?_eq_getElem hlt] at h
  have h' : bs[bs.length - 1] = 0 := by simpa using h
  conv => rhs; rw [← List.take_append_drop (bs.length - 1) bs]
  congr 1
  rw [List.drop_eq_getElem_cons hlt, h']
  have : bs.length - 1 + 1 = bs.length := by omega
  simp [this]

theorem StrOK_SrcOK {h : Heap} {s : Str} (ok : StrOK h s) (hl : ∀ k, strCount s k ≤ b2n (h.live k)) : SrcOK h s := by
  unfold StrOK at ok; unfold SrcOK
  split
  · trivial
  · next id hs =>
    simp only [hs] at ok
    have := hl id
    simp only [strCount, hs, ok.1, and_self, if_true] at this
    refine ⟨?_, ok.2.2.1⟩
    cases hlv : h.live id with
    | true => rfl
    | false => simp [hlv] at this
  · next b hs => simp only [hs] at ok; omega

/-- a stored string is terminated: forcing the last byte changes nothing -/
theorem term_strVal_of_StrOK {h : Heap} {s : Str} (ok : StrOK h s) : term (strVal h s) = strVal h s := by
  unfold StrOK at ok; unfold strVal
  split at ok
  · next hs => simp [ok.2, term]
  · next id hs =>
    obtain ⟨_, h1, h2, h3⟩ := ok
    have hn : s.nbytes ≠ 0 := by omega
    simp only [hn, if_false, hs]
    have hlen : ((h.bytesOf id).take s.nbytes).length = s.nbytes := by simp; omega
    apply term_of_terminated
    · omega
    · rw [hlen, List.getElem?_take]
      simp only [show s.nbytes - 1 < s.nbytes by omega, if_true]
      exact h3
  · next b hs =>
    obtain ⟨_, h1, h2, h3⟩ := ok
    have hn : s.nbytes ≠ 0 := by omega
    simp only [hn, if_false, hs]
    have hlen : (b.take s.nbytes).length = s.nbytes := by simp; omega
    apply term_of_terminated
    · omega
    · rw [hlen, List.getElem?_take]
      simp only [show s.nbytes - 1 < s.nbytes by omega, if_true]
      exact h3

theorem setCell_live_ne (h : Heap) (id k : Nat) (c : Cell) (hk : k ≠ id) : (h.setCell id c).live k = h.live k := by
  simp [Heap.live, setCell_cells_ne h id k c hk]

/-! ### the source after normalisation -/

theorem csSrc_nbytes (s : Str) : 1 ≤ (csSrc s).nbytes := by
  unfold csSrc; split
  · simp [emptyStr]
  · next h => simp only [not_or] at h; omega

theorem csSrc_val (h : Heap) (s : Str) : strVal h (csSrc s) = strVal h s := by
  unfold csSrc; split
  · next hc =>
    rcases hc with hc | hc
    · unfold strVal; simp [emptyStr, hc]
    · unfold strVal; simp [emptyStr, hc]
  · rfl

theorem csSrc_SrcOK {h : Heap} {s : Str} (ok : SrcOK h s) : SrcOK h (csSrc s) := by
  unfold csSrc; split
  · simp [SrcOK, emptyStr]
  · exact ok

theorem csSrc_heap {s : Str} {k : Nat} (hs : (csSrc s).str = .heap k) : s.str = .heap k := by
  unfold csSrc at hs; split at hs
  · simp [emptyStr] at hs
  · exact hs

theorem strVal_length {h : Heap} {s : Str} (ok : SrcOK h s) (hn : 1 ≤ s.nbytes) (hnn : s.str ≠ .null) :
    (strVal h s).length = s.nbytes := by
  unfold SrcOK at ok; unfold strVal
  have : s.nbytes ≠ 0 := by omega
  simp only [this, if_false]
  split
  · next hs => exact absurd hs hnn
  · next id hs => simp only [hs] at ok; simp only [List.length_take]; omega
  · next b hs => simp only [hs] at ok; simp only [List.length_take]; omega

theorem csSrc_not_null (s : Str) : (csSrc s).str ≠ .null := by
  unfold csSrc; split
  · simp [emptyStr]
  · next h => simp only [not_or] at h; exact h.1

/-! ### `csFill` -/

/-- reading the (normalised) source from a heap that differs from `h` only in block `id`, which is not the source's -/
theorem load_src {h : Heap} {s : Str} (ok : SrcOK h s) (hnn : s.str ≠ .null) (hn : 1 ≤ s.nbytes) (id : Nat) (c : Cell)
    (hne : s.str ≠ .heap id) :
    (h.setCell id c).load s.str s.nbytes = (h.setCell id c, strVal h s) := by
  unfold SrcOK at ok; unfold strVal
  have : s.nbytes ≠ 0 := by omega
  simp only [this, if_false]
  split
  · next hs => exact absurd hs hnn
  · next k hs =>
    simp only [hs] at ok hne ⊢
    have hk : k ≠ id := fun e => hne (by rw [e])
    have hl : (h.setCell id c).live k = true := by rw [setCell_live_ne h id k c hk]; exact ok.1
    rw [load_heap hl _ (by rw [bytesOf_setCell_ne h id k c hk]; exact ok.2), bytesOf_setCell_ne h id k c hk]
  · next b hs =>
    simp only [hs] at ok ⊢
    rw [load_ext _ _ _ ok]

theorem csFill_spec {h : Heap} {id : Nat} {s : Str} (hl : h.live id = true) (ok : SrcOK h s) (hnn : s.str ≠ .null)
    (hn : 1 ≤ s.nbytes) (hlen : s.nbytes ≤ (h.bytesOf id).length) (hne : s.str ≠ .heap id) :
    csFill h (.heap id) s =
      h.setCell id ⟨.bytes (term (strVal h s) ++ (h.bytesOf id).drop s.nbytes), false⟩ := by
  have hvl := strVal_length ok hn hnn
  have hfr : (h.cells id).freed = false := ((live_iff h id).mp hl).2
  unfold csFill
  simp only [show s.nbytes > 0 by omega, if_true]
  rw [store_heap hl 0 _ (by simp; exact hlen)]
  rw [load_src ok hnn hn id _ hne]
  simp only
  have hl2 : ∀ b, (h.setCell id ⟨.bytes b, false⟩).live id = true := by
    intro b; rw [setCell_live h id id _ (by simp [hfr])]; exact hl
  rw [store_heap (hl2 _) 0 _ (by simp [hvl])]
  rw [setCell_setCell]
  rw [store_heap (hl2 _) _ _ (by simp [hvl]; omega)]
  rw [setCell_setCell]
  congr 2
  simp only [bytesOf_setCell_same, List.take_zero, List.nil_append, Nat.zero_add, List.length_replicate, term, hvl]
  have e1 : s.nbytes - 1 + [(0 : Byte)].length = s.nbytes := by simp; omega
  rw [e1]
  have e2 : List.drop s.nbytes (List.replicate s.nbytes (0 : Byte) ++ List.drop s.nbytes (h.bytesOf id)) = List.drop s.nbytes (h.bytesOf id) := by
    rw [List.drop_append_of_le_length (by simp)]; simp
  rw [e2]
  have e3 : List.take (s.nbytes - 1) (strVal h s ++ List.drop s.nbytes (h.bytesOf id)) = List.take (s.nbytes - 1) (strVal h s) := by
    rw [List.take_append_of_le_length (by omega)]
  have e4 : List.drop s.nbytes (strVal h s ++ List.drop s.nbytes (h.bytesOf id)) = List.drop s.nbytes (h.bytesOf id) := by
    rw [List.drop_append_of_le_length (by omega), List.drop_eq_nil_of_le (by omega)]; simp
  rw [e3, e4]

/-! ### `copy_string` -/

theorem strVal_congr {h h' : Heap} {s : Str} (e : ∀ k, s.str = .heap k → h'.cells k = h.cells k) : strVal h' s = strVal h s := by
  unfold strVal
  split
  · rfl
  · split
    · rfl
    · next id hs => rw [bytesOf_congr (e id hs)]
    · rfl

theorem SrcOK_congr {h h' : Heap} {s : Str} (ok : SrcOK h s)
    (e : ∀ k, s.str = .heap k → h'.cells k = h.cells k ∧ h'.live k = true) : SrcOK h' s := by
  unfold SrcOK at ok ⊢
  split
  · trivial
  · next id hs =>
    simp only [hs] at ok
    obtain ⟨e1, e2⟩ := e id hs
    exact ⟨e2, by rw [bytesOf_congr e1]; exact ok.2⟩
  · next b hs => simpa [hs] using ok

theorem SrcOK_heap_live {h : Heap} {s : Str} {k : Nat} (ok : SrcOK h s) (hs : s.str = .heap k) : h.live k = true := by
  unfold SrcOK at ok; simp only [hs] at ok; exact ok.1

theorem pad_length (bs : List Byte) (n : Nat) : (pad bs n).length = n := by
  simp [pad]; omega

/-- what `copy_string` establishes -/
structure CSpec (h : Heap) (dst : Str) (v : List Byte) (h' : Heap) (dst' : Str) : Prop where
  hok : HeapOK h'
  sok : StrOK h' dst'
  bal : ∀ k, strCount dst' k + b2n (h.live k) = strCount dst k + b2n (h'.live k)
  frame : ∀ k, k < h.next → strCount dst k = 0 → h'.cells k = h.cells k
  val : strVal h' dst' = term v
  mono : h.next ≤ h'.next
  notRef : dst'.isRef = false
  notNull : dst'.str ≠ .null

/-- the filled block: everything `CSpec` needs to know about it -/
theorem filled_ok (h : Heap) (id n : Nat) (v rest : List Byte) (hv : v.length = n) (hn : 1 ≤ n) :
    StrOK (h.setCell id ⟨.bytes (term v ++ rest), false⟩) { str := .heap id, nbytes := n, isRef := false } ∧
    strVal (h.setCell id ⟨.bytes (term v ++ rest), false⟩) { str := .heap id, nbytes := n, isRef := false } = term v := by
  have htl : (term v).length = n := by rw [term_length v (by omega), hv]
  constructor
  · simp only [StrOK, bytesOf_setCell_same, List.length_append, htl, true_and]
    refine ⟨hn, by omega, ?_⟩
    rw [List.getElem?_append_left (by omega)]
    have := term_last v (by omega)
    rwa [hv] at this
  · unfold strVal
    simp only [show n ≠ 0 by omega, if_false, bytesOf_setCell_same]
    rw [List.take_append_of_le_length (by omega), List.take_of_length_le (by omega)]

theorem copyString_spec {h : Heap} {dst src : Str} (hok : HeapOK h) (dok : StrOK h dst)
    (dl : ∀ k, strCount dst k ≤ b2n (h.live k)) (sok : SrcOK h src)
    (na : ∀ k, src.str = .heap k → dst.str ≠ .heap k) :
    (copyString h dst src).2.2 = true ∧ CSpec h dst (strVal h src) (copyString h dst src).1 (copyString h dst src).2.1 := by
  refine ⟨rfl, ?_⟩
  have hn := csSrc_nbytes src
  have hs := csSrc_SrcOK sok
  have hnn := csSrc_not_null src
  have hv := csSrc_val h src
  have na' : ∀ k, (csSrc src).str = .heap k → dst.str ≠ .heap k := fun k hk => na k (csSrc_heap hk)
  have hvl := strVal_length hs hn hnn
  rw [← hv]
  unfold copyString
  generalize csSrc src = s at *
  simp only
  by_cases hA : dst.str = .null ∨ dst.isRef = true
  · -- the destination owns nothing: allocate
    have hc0 : ∀ k, strCount dst k = 0 := by
      intro k; rcases hA with hA | hA
      · exact strCount_null hA k
      · exact strCount_ref hA k
    simp only [csAlloc, hA, if_true, csGrow, gt_iff_lt, Nat.lt_irrefl, if_false]
    let h1 := (h.malloc (.bytes (List.replicate s.nbytes 0))).1
    have hl1 : h1.live h.next = true := by simp [h1, malloc_live]
    have hs1 : SrcOK h1 s := SrcOK_congr hs (fun k hk => by
      have hlk := SrcOK_heap_live hs hk
      have := live_lt hlk
      exact ⟨malloc_cells_lt h _ k this, by simp [h1, malloc_live, hlk]⟩)
    have hne : s.str ≠ .heap h.next := by
      intro e; have := live_lt (SrcOK_heap_live hs e); omega
    have hv1 : strVal h1 s = strVal h s := strVal_congr (fun k hk => malloc_cells_lt h _ k (live_lt (SrcOK_heap_live hs hk)))
    have hfill := csFill_spec hl1 hs1 hnn hn (by simp [h1]) hne
    simp only [malloc_id]
    rw [hfill, hv1]
    obtain ⟨f1, f2⟩ := filled_ok h1 h.next s.nbytes (strVal h s) (List.drop s.nbytes (h1.bytesOf h.next)) hvl hn
    have hfr : (h1.cells h.next).freed = false := ((live_iff _ _).mp hl1).2
    refine ⟨HeapOK_setCell (HeapOK_malloc hok _) _ _ (by simp [hfr]), f1, ?_, ?_, f2, ?_, rfl, by simp⟩
    · intro k
      rw [setCell_live _ _ _ _ (by simp [hfr]), malloc_live, hc0 k, strCount_heap]
      by_cases hk : k = h.next
      · subst hk; simp [not_live_of_ge (Nat.le_refl _)]
      · have : h.next ≠ k := fun e => hk e.symm
        simp [hk, this]
    · intro k hk _
      rw [setCell_cells_ne _ _ _ _ (by omega), malloc_cells_lt h _ k hk]
    · show h.next ≤ h.next + 1; omega
  · -- the destination owns a block
    simp only [not_or, Bool.not_eq_true] at hA
    obtain ⟨hA1, hA2⟩ := hA
    have hA' : ¬ (dst.str = .null ∨ dst.isRef = true) := by simp [hA1, hA2]
    simp only [csAlloc, hA', if_false]
    -- which block
    have hid : ∃ id, dst.str = .heap id := by
      unfold StrOK at dok
      split at dok
      · next e => exact absurd e hA1
      · next id e => exact ⟨id, e⟩
      · next b e => simp [hA2] at dok
    obtain ⟨id, hd⟩ := hid
    have hc : ∀ k, strCount dst k = if id = k then 1 else 0 := by
      intro k; simp [strCount, hd, hA2]
    have hlid : h.live id = true := by
      have := dl id; rw [hc id] at this; simp at this
      cases hx : h.live id with
      | true => rfl
      | false => simp [hx] at this
    have hfr : (h.cells id).freed = false := ((live_iff _ _).mp hlid).2
    have hsid : s.str ≠ .heap id := fun e => na' id e hd
    unfold StrOK at dok
    simp only [hd] at dok
    obtain ⟨_, d1, d2, d3⟩ := dok
    by_cases hG : s.nbytes > dst.nbytes
    · -- grow: realloc moves the block
      simp only [csGrow, hG, if_true, hd, Heap.realloc, touch_live hlid, malloc_id]
      let h1 := (h.malloc (.bytes (pad (h.bytesOf id) s.nbytes))).1
      have hlid1 : h1.live id = true := by
        have := live_lt hlid
        simp [h1, malloc_live, hlid]
      rw [free_live hlid1]
      let h2 := h1.release id
      have hne2 : h.next ≠ id := by have := live_lt hlid; omega
      have hl2 : h2.live h.next = true := by simp [h2, h1, release_live, malloc_live, hne2]
      have hcells : ∀ k, k < h.next → k ≠ id → h2.cells k = h.cells k := by
        intro k hk hki
        simp only [h2, h1]
        rw [release_cells_ne _ _ _ hki, malloc_cells_lt h _ k hk]
      have hs2 : SrcOK h2 s := SrcOK_congr hs (fun k hk => by
        have hlk := SrcOK_heap_live hs hk
        have hlt := live_lt hlk
        have hki : k ≠ id := fun e => hsid (by rw [hk, e])
        refine ⟨hcells k hlt hki, ?_⟩
        simp only [h2, h1, release_live, malloc_live, hki, if_false]
        have : k ≠ h.next := by omega
        simp [this, hlk])
      have hne : s.str ≠ .heap h.next := by
        intro e; have := live_lt (SrcOK_heap_live hs e); omega
      have hv2 : strVal h2 s = strVal h s := strVal_congr (fun k hk => by
        have hlk := SrcOK_heap_live hs hk
        exact hcells k (live_lt hlk) (fun e => hsid (by rw [hk, e])))
      have hb2 : h2.bytesOf h.next = pad (h.bytesOf id) s.nbytes := by
        simp only [h2, h1, bytesOf_release, bytesOf_malloc_new]
      have hfill := csFill_spec hl2 hs2 hnn hn (by rw [hb2, pad_length]; exact Nat.le_refl _) hne
      rw [hfill, hv2]
      obtain ⟨f1, f2⟩ := filled_ok h2 h.next s.nbytes (strVal h s) (List.drop s.nbytes (h2.bytesOf h.next)) hvl hn
      have hfr2 : (h2.cells h.next).freed = false := ((live_iff _ _).mp hl2).2
      simp only [hA2]
      refine ⟨HeapOK_setCell (HeapOK_release (HeapOK_malloc hok _) _ hlid1) _ _ (by show false = _; exact hfr2.symm), f1, ?_, ?_, f2, ?_, rfl, by simp⟩
      · intro k
        rw [setCell_live _ _ _ _ (by show false = _; exact hfr2.symm), hc k, strCount_heap]
        simp only [h2, h1, release_live, malloc_live]
        by_cases hk : k = h.next
        · subst hk
          have : id ≠ h.next := fun e => hne2 e.symm
          simp [not_live_of_ge (Nat.le_refl _), this, hne2]
        · have hk' : h.next ≠ k := fun e => hk e.symm
          by_cases hki : k = id
          · subst hki; simp [hk, hk', hlid]
          · have : id ≠ k := fun e => hki e.symm
            simp [hk, hk', hki, this]
      · intro k hk hz
        have hki : k ≠ id := by
          intro e; rw [hc k] at hz; simp [e] at hz
        rw [setCell_cells_ne _ _ _ _ (by omega)]
        exact hcells k hk hki
      · show h.next ≤ h.next + 1; omega
    · -- it fits: write in place
      simp only [csGrow, hG, if_false, hd]
      have hfill := csFill_spec hlid hs hnn hn (by omega) hsid
      rw [hfill]
      obtain ⟨f1, f2⟩ := filled_ok h id s.nbytes (strVal h s) (List.drop s.nbytes (h.bytesOf id)) hvl hn
      simp only [hA2]
      refine ⟨HeapOK_setCell hok _ _ (by simp [hfr]), f1, ?_, ?_, f2, ?_, rfl, by simp⟩
      · intro k
        rw [setCell_live _ _ _ _ (by simp [hfr]), hc k, strCount_heap]
      · intro k _ hz
        have hki : k ≠ id := by
          intro e; rw [hc k] at hz; simp [e] at hz
        rw [setCell_cells_ne _ _ _ _ hki]
      · simp

end AcqVerif.SProps
