import AcqVerif.SProps.Copy
/-!
# The invariant of a pool of objects, preserved by every well-formed operation
-/
namespace AcqVerif.SProps

/-- how many fields of how many objects own block `k` -/
def ownSum (s : State) (k : Nat) : Nat := (s.objs.map fun o => objCount s.h o k).sum

structure Inv (s : State) : Prop where
  hok : HeapOK s.h
  ok : ∀ o ∈ s.objs, ObjOK s.h o
  own : ∀ k, ownSum s k = b2n (s.h.live k)

/-! ### sums over the pool -/

theorem le_sum_map {α : Type} (l : List α) (f : α → Nat) (i : Nat) (hi : i < l.length) : f l[i] ≤ (l.map f).sum := by
  induction l generalizing i with
  | nil => simp at hi
  | cons a t ih =>
    cases i with
    | zero => simp
    | succ j => simp at hi ⊢; have := ih j hi; omega

theorem sum_map_set {α : Type} (l : List α) (f : α → Nat) (i : Nat) (x : α) (hi : i < l.length) :
    ((l.set i x).map f).sum + f l[i] = (l.map f).sum + f x := by
  rw [List.map_set]
  have := sum_set (l.map f) i (f x) (by simpa using hi)
  simpa using this

theorem sum_map_two {α : Type} (l : List α) (f : α → Nat) {i j : Nat} (hi : i < l.length) (hj : j < l.length) (hij : i ≠ j) :
    f l[i] + f l[j] ≤ (l.map f).sum := by
  induction l generalizing i j with
  | nil => simp at hi
  | cons a t ih =>
    cases i with
    | zero =>
      cases j with
      | zero => exact absurd rfl hij
      | succ j' =>
        simp at hj ⊢
        have := le_sum_map t f j' hj; omega
    | succ i' =>
      cases j with
      | zero =>
        simp at hi ⊢
        have := le_sum_map t f i' hi; omega
      | succ j' =>
        simp at hi hj ⊢
        have := ih hi hj (by omega); omega

theorem sum_map_congr {α : Type} (l : List α) (f g : α → Nat) (e : ∀ x ∈ l, f x = g x) : (l.map f).sum = (l.map g).sum := by
  rw [List.map_congr_left e]

theorem obj_eq_getElem (s : State) (i : Nat) (hi : i < s.objs.length) : s.obj i = s.objs[i] := by
  simp [State.obj, List.getD, hi]

theorem Inv.owns {s : State} (inv : Inv s) {i : Nat} (hi : i < s.objs.length) : Owns s.h (s.obj i) := by
  intro k
  rw [← inv.own k, obj_eq_getElem s i hi]
  exact le_sum_map s.objs (fun o => objCount s.h o k) i hi

theorem Inv.obj_ok {s : State} (inv : Inv s) {i : Nat} (hi : i < s.objs.length) : ObjOK s.h (s.obj i) := by
  rw [obj_eq_getElem s i hi]; exact inv.ok _ (List.getElem_mem hi)

/-- two different objects of the pool share no block, and what one owns is live -/
theorem Inv.sep {s : State} (inv : Inv s) {i j : Nat} (hi : i < s.objs.length) (hj : j < s.objs.length) (hij : i ≠ j) :
    Sep s.h (s.obj i) (s.obj j) := by
  refine ⟨inv.obj_ok hj, fun k hk => ?_⟩
  have h2 : objCount s.h s.objs[i] k + objCount s.h s.objs[j] k ≤ (s.objs.map fun o => objCount s.h o k).sum :=
    sum_map_two s.objs (fun o => objCount s.h o k) hi hj hij
  have h3 := inv.own k
  unfold ownSum at h3
  rw [obj_eq_getElem s i hi, obj_eq_getElem s j hj] at *
  have := b2n_le_one (s.h.live k)
  refine ⟨?_, by omega⟩
  cases hl : s.h.live k with
  | true => rfl
  | false => rw [hl] at h3; simp at h3; omega

/-- replacing object `i` by the result of a `Step` keeps the invariant and leaves the others alone -/
theorem Inv.put {s : State} (inv : Inv s) {i : Nat} (hi : i < s.objs.length) {h' : Heap} {o' : Obj}
    (st : Step s.h (s.obj i) h' o') :
    Inv (s.put i (h', o')) ∧
    ∀ j, j ≠ i → j < s.objs.length →
      (s.put i (h', o')).obj j = s.obj j ∧
      (∀ k, 0 < objCount s.h (s.obj j) k → h'.cells k = s.h.cells k) ∧
      objView h' (s.obj j) = objView s.h (s.obj j) := by
  have others : ∀ j, j ≠ i → j < s.objs.length → ∀ k, 0 < objCount s.h (s.obj j) k → h'.cells k = s.h.cells k := by
    intro j hji hj k hk
    have sp := inv.sep hi hj (fun e => hji e.symm)
    exact (sp.step st).2.1 k hk
  have hlen : (s.objs.set i o').length = s.objs.length := by simp
  refine ⟨⟨st.hok, ?_, ?_⟩, ?_⟩
  · intro o ho
    simp only [State.put] at ho ⊢
    obtain ⟨j, hj, rfl⟩ := List.getElem_of_mem ho
    rw [List.getElem_set]
    split
    · exact st.ok
    · next hij =>
      have hj' : j < s.objs.length := by rw [hlen] at hj; exact hj
      have := ObjOK_congr (inv.obj_ok hj') (others j (fun e => hij e.symm) hj')
      rwa [obj_eq_getElem s j hj'] at this
  · intro k
    unfold ownSum
    simp only [State.put]
    have h1 := sum_map_set s.objs (fun o => objCount h' o k) i o' hi
    have h2 : (s.objs.map fun o => objCount h' o k).sum + objCount s.h s.objs[i] k =
        (s.objs.map fun o => objCount s.h o k).sum + objCount h' s.objs[i] k := by
      -- every object other than `i` counts the same in both heaps
      have hsame : ∀ j (hj : j < s.objs.length), j ≠ i → objCount h' s.objs[j] k = objCount s.h s.objs[j] k := by
        intro j hj hji
        have := objCount_congr (others j hji hj) k
        rwa [obj_eq_getElem s j hj] at this
      have hmid : ((s.objs.set i s.objs[i]).map fun o => objCount h' o k).sum + objCount s.h s.objs[i] k =
          ((s.objs.set i s.objs[i]).map fun o => objCount s.h o k).sum + objCount h' s.objs[i] k := by
        simp only [List.set_getElem_self]
        -- pointwise comparison with the exception of index i
        have gen : ∀ (l : List Obj) (f g : Obj → Nat) (i : Nat) (hi : i < l.length),
            (∀ j (hj : j < l.length), j ≠ i → f l[j] = g l[j]) →
            (l.map f).sum + g l[i] = (l.map g).sum + f l[i] := by
          intro l f g
          induction l with
          | nil => intro i hi; simp at hi
          | cons a t ih =>
            intro i hi hsame
            cases i with
            | zero =>
              simp only [List.map_cons, List.sum_cons, List.getElem_cons_zero]
              have : (t.map f).sum = (t.map g).sum := by
                apply sum_map_congr
                intro x hx
                obtain ⟨j, hj, rfl⟩ := List.getElem_of_mem hx
                have := hsame (j + 1) (by simp; omega) (by omega)
                simpa using this
              omega
            | succ i' =>
              simp only [List.map_cons, List.sum_cons, List.getElem_cons_succ]
              have h0 := hsame 0 (by simp) (by omega)
              simp only [List.getElem_cons_zero] at h0
              have := ih i' (by simpa using hi) (fun j hj hji => by
                have := hsame (j + 1) (by simp; omega) (by omega)
                simpa using this)
              omega
        exact gen s.objs (fun o => objCount h' o k) (fun o => objCount s.h o k) i hi hsame
      simp only [List.set_getElem_self] at hmid
      exact hmid
    have h3 := st.bal k
    have h4 := inv.own k
    unfold ownSum at h4
    rw [obj_eq_getElem s i hi] at h3
    omega
  · intro j hji hj
    refine ⟨?_, others j hji hj, objView_congr (inv.obj_ok hj) (others j hji hj)⟩
    have hij : i ≠ j := fun e => hji e.symm
    simp [State.put, State.obj, List.getD, hij]

/-! ### every well-formed operation preserves the invariant -/

/-- the object an operation is applied to (for `copy`: the destination) -/
def Op.target : Op → Nat
  | .init o _ _ _ _ _ _ => o
  | .setUri o _ => o
  | .setMeta o _ => o
  | .setKeys o _ _ => o
  | .setDim o _ _ _ _ _ _ => o
  | .setMultiscale o _ => o
  | .copy d _ => d
  | .destroy o => o
  | .ref o _ _ => o
  | .dimsInit o _ => o
  | .dimsDestroy o => o

theorem holdsNothing_count {h : Heap} {o : Obj} (hn : o.holdsNothing = true) (k : Nat) : objCount h o k = 0 := by
  simp only [Obj.holdsNothing, Bool.and_eq_true, Bool.or_eq_true, beq_iff_eq] at hn
  obtain ⟨⟨⟨⟨h1, h2⟩, h3⟩, h4⟩, h5⟩ := hn
  have z : ∀ s : Str, (s.isRef = true ∨ s.str = .null) → strCount s k = 0 := by
    intro s hs; rcases hs with hs | hs
    · exact strCount_ref hs k
    · exact strCount_null hs k
  simp [objCount, strsCount, dimsCount, z _ h1, z _ h2, z _ h3, z _ h4, h5]

/-- the result of `step` for each operation is `put` of a `Step` -/
theorem step_is_put {s : State} (inv : Inv s) (op : Op) (wf : op.wf s = true) :
    op.target < s.objs.length ∧
    ∃ h' o', (step s op).1 = s.put op.target (h', o') ∧ Step s.h (s.obj op.target) h' o' := by
  cases op with
  | init o ffid uri mdata px py nd =>
    simp only [Op.wf, Bool.and_eq_true, decide_eq_true_eq] at wf
    obtain ⟨⟨⟨ho, wu⟩, wm⟩, hn⟩ := wf
    refine ⟨ho, _, _, rfl, ?_⟩
    exact (init_step ffid px py nd inv.hok wu wm).of_count_eq
      (fun k => by show objCount s.h (s.obj o) k = _; rw [holdsNothing_count hn k, objCount_default])
  | setUri o a =>
    simp only [Op.wf, Bool.and_eq_true, decide_eq_true_eq] at wf
    exact ⟨wf.1, _, _, rfl, setUri_step inv.hok (inv.obj_ok wf.1) (inv.owns wf.1) wf.2⟩
  | setMeta o a =>
    simp only [Op.wf, Bool.and_eq_true, decide_eq_true_eq] at wf
    exact ⟨wf.1, _, _, rfl, setExternalMetadata_step inv.hok (inv.obj_ok wf.1) (inv.owns wf.1) wf.2⟩
  | setKeys o a b =>
    simp only [Op.wf, Bool.and_eq_true, decide_eq_true_eq] at wf
    exact ⟨wf.1.1, _, _, rfl, setAccessKeyAndSecret_step inv.hok (inv.obj_ok wf.1.1) (inv.owns wf.1.1) wf.1.2 wf.2⟩
  | setDim o ix nm kd a c sh =>
    simp only [Op.wf, Bool.and_eq_true, decide_eq_true_eq] at wf
    exact ⟨wf.1, _, _, rfl, (setDimension_step ix nm kd a c sh inv.hok (inv.obj_ok wf.1) (inv.owns wf.1) wf.2).1⟩
  | setMultiscale o v =>
    simp only [Op.wf, decide_eq_true_eq] at wf
    exact ⟨wf, _, _, rfl, setEnableMultiscale_step v inv.hok (inv.obj_ok wf)⟩
  | copy d c =>
    simp only [Op.wf, Bool.and_eq_true, decide_eq_true_eq] at wf
    obtain ⟨⟨hd, hc⟩, hne⟩ := wf
    exact ⟨hd, _, _, rfl, (copy_spec inv.hok (inv.obj_ok hd) (inv.owns hd) (inv.sep hd hc hne)).2.1⟩
  | destroy o =>
    simp only [Op.wf, decide_eq_true_eq] at wf
    exact ⟨wf, _, _, rfl, (destroy_step inv.hok (inv.obj_ok wf) (inv.owns wf)).1⟩
  | ref o f b =>
    simp only [Op.wf, Bool.and_eq_true, decide_eq_true_eq, Bool.or_eq_true, beq_iff_eq] at wf
    obtain ⟨⟨ho, ht⟩, hn⟩ := wf
    exact ⟨ho, _, _, rfl, ref_step f b inv.hok (inv.obj_ok ho) ht hn⟩
  | dimsInit o n =>
    simp only [Op.wf, decide_eq_true_eq] at wf
    exact ⟨wf, _, _, rfl, (dimensionsInit_step n inv.hok (inv.obj_ok wf) (inv.owns wf)).1⟩
  | dimsDestroy o =>
    simp only [Op.wf, decide_eq_true_eq] at wf
    refine ⟨wf, (dimensionsDestroy s.h (s.obj o)).1, (dimensionsDestroy s.h (s.obj o)).2, rfl, ?_⟩
    show Step s.h (s.obj o) _ _
    cases hd : (s.obj o).dimsData with
    | none => rw [dimensionsDestroy_none hd]; exact Step.refl inv.hok (inv.obj_ok wf)
    | some d => exact (dimensionsDestroy_step hd inv.hok (inv.obj_ok wf) (inv.owns wf)).1

@[simp] theorem put_length (s : State) (i : Nat) (r : Heap × Obj) : (s.put i r).objs.length = s.objs.length := by
  simp [State.put]

theorem step_inv {s : State} (inv : Inv s) (op : Op) (wf : op.wf s = true) :
    Inv (step s op).1 ∧ (step s op).1.objs.length = s.objs.length := by
  obtain ⟨hi, h', o', e, st⟩ := step_is_put inv op wf
  rw [e]
  exact ⟨(inv.put hi st).1, by simp⟩

theorem init_inv (n : Nat) : Inv (State.init n) := by
  refine ⟨HeapOK_empty, ?_, ?_⟩
  · intro o ho
    simp only [State.init, List.mem_replicate] at ho
    rw [ho.2]; exact ObjOK_default _
  · intro k
    have hl : (State.init n).h.live k = false := not_live_of_ge (Nat.zero_le _)
    rw [hl]
    unfold ownSum
    have : ((State.init n).objs.map fun o => objCount (State.init n).h o k) = List.replicate n 0 := by
      simp only [State.init, List.map_replicate, objCount_default]
    rw [this]; simp

theorem run_inv (ops : List Op) : ∀ s, Inv s → Inv (run s ops) ∧ (run s ops).objs.length = s.objs.length := by
  induction ops with
  | nil => intro s inv; exact ⟨inv, rfl⟩
  | cons op rest ih =>
    intro s inv
    simp only [run]
    by_cases wf : op.wf s = true
    · simp only [wf, if_true]
      obtain ⟨i1, l1⟩ := step_inv inv op wf
      obtain ⟨i2, l2⟩ := ih _ i1
      exact ⟨i2, by rw [l2, l1]⟩
    · simp only [wf]
      exact ih s inv

/-! ### destroying every object empties the heap -/

theorem destroyFrom_spec (k : Nat) : ∀ (s : State) (i : Nat), Inv s → i + k ≤ s.objs.length →
    (∀ j, j < i → ∀ m, objCount s.h (s.obj j) m = 0) →
    Inv (destroyFrom s i k) ∧ (destroyFrom s i k).objs.length = s.objs.length ∧
    ∀ j, j < i + k → ∀ m, objCount (destroyFrom s i k).h ((destroyFrom s i k).obj j) m = 0 := by
  induction k with
  | zero => intro s i inv _ hz; exact ⟨inv, rfl, fun j hj m => hz j (by omega) m⟩
  | succ k ih =>
    intro s i inv hik hz
    have hi : i < s.objs.length := by omega
    obtain ⟨st, zero⟩ := destroy_step inv.hok (inv.obj_ok hi) (inv.owns hi)
    obtain ⟨inv1, oth⟩ := inv.put hi st
    have hz1 : ∀ j, j < i + 1 → ∀ m, objCount (s.put i (destroy s.h (s.obj i))).h ((s.put i (destroy s.h (s.obj i))).obj j) m = 0 := by
      intro j hj m
      by_cases hji : j = i
      · subst hji
        have : (s.put j (destroy s.h (s.obj j))).obj j = (destroy s.h (s.obj j)).2 := by
          simp [State.put, State.obj, List.getD, hi]
        rw [this]; exact zero m _
      · obtain ⟨e1, e2, _⟩ := oth j hji (by omega)
        rw [e1]
        have := objCount_congr (h := s.h) (h' := (s.put i (destroy s.h (s.obj i))).h) (o := s.obj j) e2 m
        rw [this]; exact hz j (by omega) m
    obtain ⟨a, b, c⟩ := ih (s.put i (destroy s.h (s.obj i))) (i + 1) inv1 (by simp; omega) hz1
    simp only [destroyFrom]
    refine ⟨a, by rw [b]; simp, fun j hj m => c j (by omega) m⟩

theorem sum_map_zero {α : Type} (l : List α) : (l.map fun _ => 0).sum = 0 := by
  induction l with
  | nil => rfl
  | cons a t ih => simp only [List.map_cons, List.sum_cons, ih]

theorem destroyAll_spec {s : State} (inv : Inv s) :
    Inv (destroyAll s) ∧ ∀ k, (destroyAll s).h.live k = false := by
  obtain ⟨a, b, c⟩ := destroyFrom_spec s.objs.length s 0 inv (by omega) (fun j hj => by omega)
  show Inv (destroyFrom s 0 s.objs.length) ∧ ∀ k, (destroyFrom s 0 s.objs.length).h.live k = false
  generalize destroyFrom s 0 s.objs.length = s' at *
  refine ⟨a, fun k => ?_⟩
  have h1 := a.own k
  have hz : ownSum s' k = 0 := by
    unfold ownSum
    have : (s'.objs.map fun o => objCount s'.h o k) = s'.objs.map fun _ => 0 := by
      apply List.map_congr_left
      intro o ho
      obtain ⟨j, hj, rfl⟩ := List.getElem_of_mem ho
      have := c j (by omega) k
      rwa [obj_eq_getElem _ j hj] at this
    rw [this]; exact sum_map_zero _
  rw [hz] at h1
  exact b2n_eq_zero.mp h1.symm

end AcqVerif.SProps
