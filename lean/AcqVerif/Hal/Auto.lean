import AcqVerif.Hal.Model
/-!
# Facts about the protocol automaton itself (independent of the HAL model)

What acceptance of a log means in plain terms: a closed device is never touched again
(`dead_stays_dead`, `nothing_after_close`), and every device that was created and is no longer
live has a `drvClose` in the log (`closed_in_log`).
-/
namespace AcqVerif.Hal

def ids (l : List LiveDev) : List Nat := l.map (·.id)

/-- the device an event is about (for `drvOpen`: the device it creates) -/
def Ev.dev : Ev → Option Nat
  | .drvOpen _ none => none
  | .drvOpen _ (some (id, _, _)) => some id
  | .drvDescribe id _ => some id
  | .drvClose id _ => some id
  | .call id _ _ => some id
  | .rd id _ => some id
  | .wr id _ _ => some id

/-- all live devices have ordinals below the counter -/
def Bounded (a : Auto) : Prop := ∀ id ∈ ids a.live, id < a.n

theorem ids_updLive (l : List LiveDev) (x : LiveDev) : ids (updLive l x) = ids l := by
  induction l with
  | nil => rfl
  | cons y t ih =>
    simp only [ids, updLive, List.map_cons] at *
    rw [ih]
    by_cases h : y.id = x.id <;> simp [h]

theorem mem_ids_delLive (l : List LiveDev) (id j : Nat) : j ∈ ids (delLive l id) ↔ j ∈ ids l ∧ j ≠ id := by
  simp only [ids, delLive, List.mem_map, List.mem_filter]
  constructor
  · rintro ⟨x, ⟨hx, hne⟩, rfl⟩
    exact ⟨⟨x, hx, rfl⟩, by simpa using hne⟩
  · rintro ⟨⟨x, hx, rfl⟩, hne⟩
    exact ⟨x, ⟨hx, by simpa using hne⟩, rfl⟩

theorem findLive_some_mem {l : List LiveDev} {id : Nat} {x : LiveDev} (h : findLive l id = some x) :
    id ∈ ids l ∧ x.id = id := by
  unfold findLive at h
  have h1 := List.find?_some h
  have h2 := List.mem_of_find?_eq_some h
  simp at h1
  exact ⟨by rw [← h1]; exact List.mem_map_of_mem h2, h1⟩

theorem findLive_isSome_mem {l : List LiveDev} {id : Nat} (h : (findLive l id).isSome) : id ∈ ids l := by
  cases hx : findLive l id with
  | none => simp [hx] at h
  | some x => exact (findLive_some_mem hx).1

theorem callStep_id {x x' : LiveDev} {f : Fn} {r : Nat} (h : callStep x f r = some x') : x'.id = x.id := by
  unfold callStep at h
  split at h <;> (try split at h) <;> simp at h <;> (try (subst h; rfl)) <;> (try (obtain ⟨_, h⟩ := h; subst h; rfl))

/-- an accepted event about an existing device needs that device to be live -/
theorem autoStep_touch {a a' : Auto} {e : Ev} {id : Nat} (h : autoStep a e = some a') (hd : e.dev = some id) :
    id ∈ ids a.live ∨ (id = a.n ∧ ∃ st k i, e = .drvOpen st (some (id, k, i))) := by
  cases e with
  | drvOpen st d =>
    cases d with
    | none => simp [Ev.dev] at hd
    | some t =>
      obtain ⟨j, k, i⟩ := t
      simp [Ev.dev] at hd; subst hd
      simp only [autoStep] at h
      split at h
      · rename_i hc; exact Or.inr ⟨hc.2, st, k, i, rfl⟩
      · simp at h
  | drvDescribe j r =>
    simp [Ev.dev] at hd; subst hd
    simp only [autoStep] at h; split at h
    · rename_i hc; exact Or.inl (findLive_isSome_mem hc)
    · simp at h
  | drvClose j r =>
    simp [Ev.dev] at hd; subst hd
    simp only [autoStep] at h; split at h
    · rename_i hc; exact Or.inl (findLive_isSome_mem hc)
    · simp at h
  | rd j f =>
    simp [Ev.dev] at hd; subst hd
    simp only [autoStep] at h; split at h
    · rename_i hc; exact Or.inl (findLive_isSome_mem hc)
    · simp at h
  | wr j f v =>
    simp [Ev.dev] at hd; subst hd
    simp only [autoStep] at h; split at h
    · simp at h
    · rename_i x hc; exact Or.inl (findLive_some_mem hc).1
  | call j f r =>
    simp [Ev.dev] at hd; subst hd
    simp only [autoStep] at h; split at h
    · simp at h
    · rename_i x hc; exact Or.inl (findLive_some_mem hc).1

theorem live_same {a a' : Auto} (e : Ev) (hn : a'.n = a.n) (hl : ids a'.live = ids a.live) :
    a.n ≤ a'.n ∧
    (∀ j, j ∈ ids a'.live → j ∈ ids a.live ∨ (a.n ≤ j ∧ j < a'.n)) ∧
    (∀ j, j ∈ ids a.live → j ∈ ids a'.live ∨ ∃ r, e = .drvClose j r) ∧
    (∀ j, j < a'.n → j < a.n ∨ j ∈ ids a'.live) := by
  rw [hn, hl]
  exact ⟨Nat.le_refl _, fun _ h => Or.inl h, fun _ h => Or.inl h, fun _ h => Or.inl h⟩

/-- how one accepted event changes the counter and the live set -/
theorem autoStep_live {a a' : Auto} {e : Ev} (h : autoStep a e = some a') :
    a.n ≤ a'.n ∧
    (∀ j, j ∈ ids a'.live → j ∈ ids a.live ∨ (a.n ≤ j ∧ j < a'.n)) ∧
    (∀ j, j ∈ ids a.live → j ∈ ids a'.live ∨ ∃ r, e = .drvClose j r) ∧
    (∀ j, j < a'.n → j < a.n ∨ j ∈ ids a'.live) := by
  cases e with
  | drvOpen st d =>
    cases d with
    | none => simp [autoStep] at h; subst h; exact live_same _ rfl rfl
    | some t =>
      obtain ⟨j, k, i⟩ := t
      simp only [autoStep] at h
      split at h
      · rename_i hc
        simp at h; subst h
        obtain ⟨_, hj⟩ := hc
        show a.n ≤ a.n + 1 ∧ _
        simp only []
        refine ⟨Nat.le_succ _, ?_, ?_, ?_⟩
        · intro j' hj'
          simp only [ids, List.map_cons, List.mem_cons] at hj'
          rcases hj' with h1 | h1
          · right; omega
          · left; exact h1
        · intro j' hj'
          left
          simp only [ids, List.map_cons, List.mem_cons]
          exact Or.inr hj'
        · intro j' hj'
          simp only [ids, List.map_cons, List.mem_cons]
          by_cases hjj : j' = j
          · exact Or.inr (Or.inl hjj)
          · left; omega
      · simp at h
  | drvDescribe j r =>
    simp only [autoStep] at h; split at h <;> simp at h; subst h; exact live_same _ rfl rfl
  | rd j f =>
    simp only [autoStep] at h; split at h <;> simp at h; subst h; exact live_same _ rfl rfl
  | drvClose j r =>
    simp only [autoStep] at h; split at h <;> simp at h; subst h
    simp only [mem_ids_delLive]
    refine ⟨Nat.le_refl _, ?_, ?_, ?_⟩
    · intro j' hj; exact Or.inl hj.1
    · intro j' hj
      by_cases hjj : j' = j
      · subst hjj; exact Or.inr ⟨r, rfl⟩
      · exact Or.inl ⟨hj, hjj⟩
    · intro j' hj; exact Or.inl hj
  | wr j f v =>
    simp only [autoStep] at h; split at h <;> simp at h; subst h
    exact live_same _ rfl (ids_updLive _ _)
  | call j f r =>
    simp only [autoStep] at h; split at h
    · simp at h
    · split at h <;> simp at h; subst h
      exact live_same _ rfl (ids_updLive _ _)

theorem autoStep_bounded {a a' : Auto} {e : Ev} (h : autoStep a e = some a') (hb : Bounded a) : Bounded a' := by
  obtain ⟨h1, h2, _, _⟩ := autoStep_live h
  intro j hj
  rcases h2 j hj with h3 | h3
  · exact Nat.lt_of_lt_of_le (hb j h3) h1
  · exact h3.2

theorem autoRun_cons {a : Auto} {e : Ev} {t : List Ev} {a' : Auto} (h : autoRun a (e :: t) = some a') :
    ∃ a1, autoStep a e = some a1 ∧ autoRun a1 t = some a' := by
  simp only [autoRun] at h
  split at h
  · simp at h
  · rename_i a1 h1; exact ⟨a1, h1, h⟩

theorem autoRun_append {a : Auto} {l1 l2 : List Ev} {a' : Auto} (h : autoRun a (l1 ++ l2) = some a') :
    ∃ a1, autoRun a l1 = some a1 ∧ autoRun a1 l2 = some a' := by
  induction l1 generalizing a with
  | nil => exact ⟨a, rfl, h⟩
  | cons e t ih =>
    obtain ⟨a1, h1, h2⟩ := autoRun_cons (by simpa using h)
    obtain ⟨a2, h3, h4⟩ := ih h2
    exact ⟨a2, by simp [autoRun, h1, h3], h4⟩

theorem autoRun_append_some {a a1 a2 : Auto} {l1 l2 : List Ev} (h1 : autoRun a l1 = some a1) (h2 : autoRun a1 l2 = some a2) :
    autoRun a (l1 ++ l2) = some a2 := by
  induction l1 generalizing a with
  | nil => simp [autoRun] at h1; subst h1; exact h2
  | cons e t ih =>
    obtain ⟨a3, h3, h4⟩ := autoRun_cons h1
    simp [autoRun, h3, ih h4]

theorem autoRun_bounded {a a' : Auto} {l : List Ev} (h : autoRun a l = some a') (hb : Bounded a) : Bounded a' := by
  induction l generalizing a with
  | nil => simp [autoRun] at h; subst h; exact hb
  | cons e t ih =>
    obtain ⟨a1, h1, h2⟩ := autoRun_cons h
    exact ih h2 (autoStep_bounded h1 hb)

/-- a device that has been created and is not live (i.e. was closed) is never touched again -/
theorem dead_stays_dead {a a' : Auto} {l : List Ev} {id : Nat} (h : autoRun a l = some a')
    (hn : id < a.n) (hd : id ∉ ids a.live) : ∀ e ∈ l, e.dev ≠ some id := by
  induction l generalizing a with
  | nil => simp
  | cons e t ih =>
    obtain ⟨a1, h1, h2⟩ := autoRun_cons h
    obtain ⟨g1, g2, _, _⟩ := autoStep_live h1
    have hn1 : id < a1.n := Nat.lt_of_lt_of_le hn g1
    have hd1 : id ∉ ids a1.live := by
      intro hc
      rcases g2 id hc with h3 | h3
      · exact hd h3
      · omega
    intro e' he'
    rcases List.mem_cons.mp he' with h3 | h3
    · subst h3
      intro hc
      rcases autoStep_touch h1 hc with h4 | h4
      · exact hd h4
      · omega
    · exact ih h2 hn1 hd1 e' h3

theorem dead_final {a a' : Auto} {l : List Ev} {id : Nat} (h : autoRun a l = some a')
    (hn : id < a.n) (hd : id ∉ ids a.live) : id ∉ ids a'.live := by
  induction l generalizing a with
  | nil => simp [autoRun] at h; subst h; exact hd
  | cons e t ih =>
    obtain ⟨a1, h1, h2⟩ := autoRun_cons h
    obtain ⟨g1, g2, _, _⟩ := autoStep_live h1
    refine ih h2 (Nat.lt_of_lt_of_le hn g1) ?_
    intro hc
    rcases g2 id hc with h3 | h3
    · exact hd h3
    · omega

/-- after an accepted `drvClose id`, `id` is dead -/
theorem close_kills {a a' : Auto} {id r : Nat} (hb : Bounded a) (h : autoStep a (Ev.drvClose id r) = some a') :
    id < a'.n ∧ id ∉ ids a'.live := by
  have hlive : id ∈ ids a.live := by
    rcases autoStep_touch h (id := id) (by simp [Ev.dev]) with h5 | h5
    · exact h5
    · obtain ⟨_, _, _, _, h6⟩ := h5; simp at h6
  refine ⟨Nat.lt_of_lt_of_le (hb id hlive) (autoStep_live h).1, ?_⟩
  simp only [autoStep] at h
  split at h <;> simp at h
  subst h
  simp [mem_ids_delLive]

/-- **nothing after close**: in a log the automaton accepts, no event after `drvClose id` is about `id`
(no call, no second close, no read, no write, and no new device under the same ordinal). -/
theorem nothing_after_close {a a' : Auto} {pre post : List Ev} {id r : Nat} (hb : Bounded a)
    (h : autoRun a (pre ++ Ev.drvClose id r :: post) = some a') : ∀ e ∈ post, e.dev ≠ some id := by
  obtain ⟨a1, h1, h2⟩ := autoRun_append h
  obtain ⟨a2, h3, h4⟩ := autoRun_cons h2
  have hb1 := autoRun_bounded h1 hb
  have hlive : id ∈ ids a1.live := by
    rcases autoStep_touch h3 (id := id) (by simp [Ev.dev]) with h5 | h5
    · exact h5
    · obtain ⟨_, _, _, _, h6⟩ := h5; simp at h6
  have hn : id < a2.n := Nat.lt_of_lt_of_le (hb1 id hlive) (autoStep_live h3).1
  have hd : id ∉ ids a2.live := by
    simp only [autoStep] at h3
    split at h3 <;> simp at h3
    subst h3
    simp [mem_ids_delLive]
  exact dead_stays_dead h4 hn hd

/-- every device that has been created and is not live any more has a `drvClose` in the log -/
theorem closed_in_log {a a' : Auto} {l : List Ev} {id : Nat} (h : autoRun a l = some a')
    (hn : id < a'.n) (hd : id ∉ ids a'.live) : (id < a.n ∧ id ∉ ids a.live) ∨ ∃ r, Ev.drvClose id r ∈ l := by
  induction l generalizing a with
  | nil => simp [autoRun] at h; subst h; exact Or.inl ⟨hn, hd⟩
  | cons e t ih =>
    obtain ⟨a1, h1, h2⟩ := autoRun_cons h
    rcases ih h2 with h3 | ⟨r, h3⟩
    · obtain ⟨_, _, g3, g4⟩ := autoStep_live h1
      by_cases hl : id ∈ ids a.live
      · rcases g3 id hl with h5 | ⟨r, h5⟩
        · exact absurd h5 h3.2
        · exact Or.inr ⟨r, by simp [h5]⟩
      · rcases g4 id h3.1 with h5 | h5
        · exact Or.inl ⟨h5, hl⟩
        · exact absurd h5 h3.2
    · exact Or.inr ⟨r, by simp [h3]⟩

/-- the counter only moves when the driver hands out the device with that ordinal -/
theorem opened_in_log {a a' : Auto} {l : List Ev} {id : Nat} (h : autoRun a l = some a') (hn : id < a'.n) :
    id < a.n ∨ ∃ k i, Ev.drvOpen Ok (some (id, k, i)) ∈ l := by
  induction l generalizing a with
  | nil => simp [autoRun] at h; subst h; exact Or.inl hn
  | cons e t ih =>
    obtain ⟨a1, h1, h2⟩ := autoRun_cons h
    rcases ih h2 with h3 | ⟨k, i, h3⟩
    · by_cases hlt : id < a.n
      · exact Or.inl hlt
      · right
        cases e with
        | drvOpen st d =>
          cases d with
          | none => simp [autoStep] at h1; subst h1; exact absurd h3 hlt
          | some t' =>
            obtain ⟨j, k, i⟩ := t'
            simp only [autoStep] at h1
            split at h1
            · rename_i hc
              simp at h1; subst h1
              obtain ⟨hc1, hc2⟩ := hc
              have : id = j := by simp only at h3; omega
              subst this; subst hc1
              exact ⟨k, i, by simp⟩
            · simp at h1
        | drvDescribe j r => simp only [autoStep] at h1; split at h1 <;> simp at h1; subst h1; exact absurd h3 hlt
        | rd j f => simp only [autoStep] at h1; split at h1 <;> simp at h1; subst h1; exact absurd h3 hlt
        | drvClose j r => simp only [autoStep] at h1; split at h1 <;> simp at h1; subst h1; exact absurd h3 hlt
        | wr j f v => simp only [autoStep] at h1; split at h1 <;> simp at h1; subst h1; exact absurd h3 hlt
        | call j f r =>
          simp only [autoStep] at h1; split at h1
          · simp at h1
          · split at h1 <;> simp at h1; subst h1; exact absurd h3 hlt
    · exact Or.inr ⟨k, i, by simp [h3]⟩

end AcqVerif.Hal
