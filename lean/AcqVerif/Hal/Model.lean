/-!
# Model of the device HAL: `hal/camera.c`, `hal/storage.c`, `hal/driver.c`

A literal transcription of the C (with the two repairs of `fixes/` applied):
same functions, same branches, same order.  Every HAL function is a pure function of

* the HAL-visible state (`HalState`: the caller's handle, i.e. the device object
  with its `state` field, plus the number of devices the driver has created),
* the call with its arguments (`Call`), and
* the driver's answers (`Q`: the queue of values the driver returns to the calls
  the HAL makes during this one HAL call, in order; an arbitrary oracle),

returning the new state, the list of **events** and the returned status.
Events are what the driver sees (`drvOpen`, `drvDescribe`, `drvClose`, vtable
`call`s) *and* every read / write of the device object's memory (`rd` / `wr`),
so that "not even a memory write after close" is a statement about the log.

`enum DeviceStatusCode` and `enum DeviceState` are `Nat` (a driver can return any
integer; the C compares with the enumerators and `switch`es without default).

No import outside core: this file is linked into the native driver `acq_hal`.
-/
namespace AcqVerif.Hal

/-! ## enumerators (`device/props/device.h`) -/
@[reducible] def Ok : Nat := 0        -- Device_Ok
@[reducible] def Err : Nat := 1       -- Device_Err
@[reducible] def Closed : Nat := 0    -- DeviceState_Closed
@[reducible] def Await : Nat := 1     -- DeviceState_AwaitingConfiguration
@[reducible] def Armed : Nat := 2     -- DeviceState_Armed
@[reducible] def Running : Nat := 3   -- DeviceState_Running

inductive Kind where
  | camera | storage
deriving DecidableEq, Repr, Inhabited

/-- vtable slots of `struct Camera` / `struct Storage` -/
inductive Fn where
  | set | get | getMeta | getShape | start | stop | trigger | getFrame | append | reserve | destroy
deriving DecidableEq, Repr, Inhabited

/-- parts of the device object's memory the HAL touches -/
inductive Field where
  | state                -- `self->state`
  | fn (f : Fn)          -- a vtable slot `self->f`
  | driver               -- `self->device.driver`
  | identifier           -- `self->device.identifier`
deriving DecidableEq, Repr, Inhabited

/-- what happens to / around a device; `id` = ordinal of the device (k-th device the driver created) -/
inductive Ev where
  /-- `driver->open` returned `status`; `dev = some (id, kind, init)` iff it handed out a device
      (whose `state` field its constructor initialised to `init`) -/
  | drvOpen (status : Nat) (dev : Option (Nat × Kind × Nat))
  | drvDescribe (id : Nat) (status : Nat)
  | drvClose (id : Nat) (status : Nat)
  /-- vtable call `dev->f(dev, …)` answered `resp` (a status code for cameras, a `DeviceState`
      for storage `set/start/stop/append`, `0` for `void` functions) -/
  | call (id : Nat) (f : Fn) (resp : Nat)
  | rd (id : Nat) (fld : Field)
  /-- `v` = value stored (meaningful for `Field.state`) -/
  | wr (id : Nat) (fld : Field) (v : Nat)
deriving DecidableEq, Repr, Inhabited

/-- the device object behind the caller's handle -/
structure Dev where
  id : Nat
  kind : Kind
  state : Nat
deriving DecidableEq, Repr, Inhabited

structure HalState where
  /-- number of devices the driver has created so far (next ordinal) -/
  nopen : Nat := 0
  /-- the caller's handle (`none` = NULL) -/
  dev : Option Dev := none
deriving DecidableEq, Repr, Inhabited

/-- queue of driver answers for one HAL call; an exhausted queue answers 0 -/
abbrev Q := List Nat
def pop (q : Q) : Nat × Q := (q.headD 0, q.tail)

/-! ## driver.c -/

/-- `driver_open_device` (repaired: a device whose `describe` fails is closed again).
The driver's `open` answers `v`: `0` = `Device_Ok` with a fresh device whose constructor set
`state` to the next answer; `2` = `Device_Ok` but `*out` left NULL; anything else = that status,
no device.  Returns the device (if the caller gets one), the new device count, events, status. -/
def driverOpenDevice (nopen : Nat) (kind : Kind) (q : Q) : Option Dev × Nat × List Ev × Nat × Q :=
  let (v, q) := pop q
  if v = 0 then
    let (i, q) := pop q
    let id := nopen
    let e := [Ev.drvOpen Ok (some (id, kind, i))]
    -- CHECK(*out) holds
    let (r, q) := pop q
    let e := e ++ [Ev.drvDescribe id r]
    if r = Ok then
      (some ⟨id, kind, i⟩, nopen + 1, e ++ [Ev.wr id .driver 0], Ok, q)
    else
      let (c, q) := pop q
      (none, nopen + 1, e ++ [Ev.drvClose id c], Err, q)
  else if v = 2 then
    (none, nopen, [Ev.drvOpen Ok none], Err, q)      -- CHECK(*out) fails
  else
    (none, nopen, [Ev.drvOpen v none], Err, q)

/-- `driver_close_device` -/
def driverCloseDevice (d : Dev) (q : Q) : List Ev × Nat × Q :=
  let (r, q) := pop q
  ([Ev.rd d.id .driver, Ev.drvClose d.id r], if r = Ok then Ok else Err, q)

/-! ## camera.c (functions on a non-NULL `self`; the NULL check is in `step`) -/

def cameraStop (d : Dev) (q : Q) : Dev × List Ev × Nat × Q :=
  if d.state = Running then
    let (r, q) := pop q
    let e := [Ev.rd d.id .state, Ev.rd d.id .identifier, Ev.rd d.id (.fn .stop), Ev.call d.id .stop r]
    if r = Ok then ({ d with state := Armed }, e ++ [Ev.wr d.id .state Armed], r, q)
    else if r = Err then ({ d with state := Await }, e ++ [Ev.wr d.id .state Await], r, q)
    else (d, e, r, q)
  else (d, [Ev.rd d.id .state], Ok, q)

def cameraSet (d : Dev) (arg : Bool) (q : Q) : Dev × List Ev × Nat × Q :=
  if !arg then (d, [], Err, q) else     -- CHECK(settings)
  let (r, q) := pop q
  let e := [Ev.rd d.id (.fn .set), Ev.call d.id .set r]
  if r = Ok then
    if d.state ≠ Running then ({ d with state := Armed }, e ++ [Ev.rd d.id .state, Ev.wr d.id .state Armed], r, q)
    else (d, e ++ [Ev.rd d.id .state], r, q)
  else if r = Err then
    let (d1, e1, _, q) := cameraStop d q
    ({ d1 with state := Await }, e ++ e1 ++ [Ev.wr d.id .state Await], r, q)
  else (d, e, r, q)

/-- `camera_get`, `camera_get_meta`, `camera_get_image_shape` -/
def cameraGetter (d : Dev) (f : Fn) (arg : Bool) (q : Q) : Dev × List Ev × Nat × Q :=
  if !arg then (d, [], Err, q) else
  let (r, q) := pop q
  (d, [Ev.rd d.id (.fn f), Ev.call d.id f r], r, q)

def cameraStart (d : Dev) (q : Q) : Dev × List Ev × Nat × Q :=
  let (r, q) := pop q
  let e := [Ev.rd d.id (.fn .start), Ev.call d.id .start r]
  if r = Ok then ({ d with state := Running }, e ++ [Ev.wr d.id .state Running], r, q)
  else if r = Err then ({ d with state := Await }, e ++ [Ev.wr d.id .state Await], r, q)
  else (d, e, r, q)

def cameraExecuteTrigger (d : Dev) (q : Q) : Dev × List Ev × Nat × Q :=
  if d.state = Running then
    let (r, q) := pop q
    (d, [Ev.rd d.id .state, Ev.rd d.id (.fn .trigger), Ev.call d.id .trigger r], r, q)
  else (d, [Ev.rd d.id .state], Ok, q)

def cameraGetFrame (d : Dev) (q : Q) : Dev × List Ev × Nat × Q :=
  if d.state ≠ Running then (d, [Ev.rd d.id .state], Err, q) else   -- CHECK(self->state == Running)
  let (r, q) := pop q
  let e := [Ev.rd d.id .state, Ev.rd d.id (.fn .getFrame), Ev.call d.id .getFrame r]
  if r ≠ Ok then
    let (d1, e1, _, q) := cameraStop d q
    ({ d1 with state := Await }, e ++ e1 ++ [Ev.wr d.id .state Await], r, q)
  else (d, e, r, q)

def cameraClose (d : Dev) (q : Q) : List Ev × Q :=
  let (r, q) := pop q
  ([Ev.rd d.id .driver, Ev.drvClose d.id r], q)

/-- the eight `CHECK(self->f != NULL)` of `camera_open` (the mock's vtable is complete) -/
def cameraVtableChecks (id : Nat) : List Ev :=
  [Fn.set, .get, .getShape, .getMeta, .start, .stop, .trigger, .getFrame].map fun f => Ev.rd id (.fn f)

def cameraOpen (nopen : Nat) (q : Q) : Option Dev × Nat × List Ev × Q :=
  match driverOpenDevice nopen .camera q with
  | (some d, n, e, _, q) => (some d, n, e ++ cameraVtableChecks d.id, q)
  | (none, n, e, _, q) => (none, n, e, q)

/-! ## storage.c -/

def storageStop (d : Dev) (q : Q) : Dev × List Ev × Nat × Q :=
  let e0 := [Ev.rd d.id (.fn .stop), Ev.rd d.id .state]
  if d.state = Running then
    let (r, q) := pop q
    let e := e0 ++ [Ev.call d.id .stop r, Ev.wr d.id .state r, Ev.rd d.id .state]
    if r = Armed ∨ r = Await then ({ d with state := r }, e, Ok, q)
    else ({ d with state := r }, e, Err, q)
  else (d, e0, Ok, q)

/-- `storage_close` (repaired: `state = Closed` is stored *before* the driver releases the device) -/
def storageClose (d : Dev) (q : Q) : List Ev × Q :=
  let (d1, e1, _, q) := storageStop d q
  let (e2, _, q) := driverCloseDevice d1 q
  (e1 ++ [Ev.wr d.id .state Closed] ++ e2, q)

def storageVtableChecks (id : Nat) : List Ev :=
  [Fn.set, .get, .getMeta, .start, .append, .stop, .destroy, .reserve].map fun f => Ev.rd id (.fn f)

def storageOpen (nopen : Nat) (q : Q) : Option Dev × Nat × List Ev × Q :=
  match driverOpenDevice nopen .storage q with
  | (some d, n, e, _, q) => (some d, n, e ++ storageVtableChecks d.id, q)
  | (none, n, e, _, q) => (none, n, e, q)     -- storage_close(0) does nothing

/-- `storage_validate`: opens a device of its own, `set`s it, closes it.  Returns `is_ok`. -/
def storageValidate (nopen : Nat) (q : Q) : Nat × List Ev × Bool × Q :=
  match driverOpenDevice nopen .storage q with
  | (some d, n, e, _, q) =>
    let e := e ++ [Ev.rd d.id .identifier, Ev.wr d.id .identifier 0]
    let (r, q) := pop q
    let e := e ++ [Ev.rd d.id (.fn .set), Ev.call d.id .set r, Ev.wr d.id .state r, Ev.rd d.id .state]
    let (e2, q) := storageClose { d with state := r } q
    (n, e ++ e2, decide (r = Armed), q)
  | (none, n, e, _, q) => (n, e, false, q)

def storageSet (d : Dev) (arg : Bool) (q : Q) : Dev × List Ev × Nat × Q :=
  if !arg then (d, [], Err, q) else     -- CHECK(settings)
  let (r, q) := pop q
  let e := [Ev.rd d.id (.fn .set), Ev.call d.id .set r, Ev.wr d.id .state r, Ev.rd d.id .state]
  ({ d with state := r }, e, if r = Armed then Ok else Err, q)

/-- `storage_get`, `storage_get_meta`, `storage_reserve_image_shape` (`void` vtable functions) -/
def storageVoid (d : Dev) (f : Fn) (q : Q) : Dev × List Ev × Nat × Q :=
  (d, [Ev.rd d.id (.fn f), Ev.rd d.id (.fn f), Ev.call d.id f 0], Ok, q)

def storageStart (d : Dev) (q : Q) : Dev × List Ev × Nat × Q :=
  if d.state ≠ Armed then (d, [Ev.rd d.id .state], Err, q) else    -- CHECK(self->state == Armed)
  let (r, q) := pop q
  let e := [Ev.rd d.id .state, Ev.rd d.id (.fn .start), Ev.call d.id .start r, Ev.wr d.id .state r]
  ({ d with state := r }, e, if r = Running then Ok else Err, q)

/-- `cmp`: 0 = `end < beg`, 1 = `end == beg`, ≥2 = `beg < end` -/
def storageAppend (d : Dev) (cmp : Nat) (q : Q) : Dev × List Ev × Nat × Q :=
  if d.state ≠ Running then (d, [Ev.rd d.id .state], Err, q) else  -- CHECK(self->state == Running)
  if cmp = 0 then (d, [Ev.rd d.id .state], Err, q) else             -- CHECK(end >= beg)
  if cmp = 1 then (d, [Ev.rd d.id .state], Ok, q) else
  let (r, q) := pop q
  let e := [Ev.rd d.id .state, Ev.rd d.id (.fn .append), Ev.call d.id .append r, Ev.wr d.id .state r, Ev.rd d.id .state]
  ({ d with state := r }, e, if r = Running then Ok else Err, q)

/-! ## the HAL API as one step function -/

inductive Call where
  | camOpen | camSet (arg : Bool) | camGet (arg : Bool) | camGetMeta (arg : Bool) | camGetShape (arg : Bool)
  | camStart | camStop | camTrigger | camGetFrame | camClose
  | stoValidate | stoOpen | stoSet (arg : Bool) | stoGet | stoGetMeta | stoStart | stoStop
  | stoAppend (cmp : Nat) | stoReserve | stoClose
deriving DecidableEq, Repr, Inhabited

def Call.kind : Call → Kind
  | .camOpen | .camSet _ | .camGet _ | .camGetMeta _ | .camGetShape _
  | .camStart | .camStop | .camTrigger | .camGetFrame | .camClose => .camera
  | _ => .storage

def Call.isOpen : Call → Bool
  | .camOpen | .stoOpen => true
  | _ => false

/-- well-formed use of the one handle: `open` only without a live handle (else the caller leaks
it), and camera functions only on a camera handle / storage functions on a storage handle (C types).
`storage_validate` never uses the handle. -/
def Call.wf (s : HalState) (c : Call) : Bool :=
  match c, s.dev with
  | .stoValidate, _ => true
  | _, none => true
  | c, some d => !c.isOpen && c.kind == d.kind

/-- status returned for a NULL handle: every function fails its `CHECK(self)`; `close` is void -/
def nullRet : Call → Nat
  | .camClose | .stoClose => Ok
  | _ => Err

def onDev (s : HalState) (r : Dev × List Ev × Nat × Q) : HalState × List Ev × Nat :=
  ({ s with dev := some r.1 }, r.2.1, r.2.2.1)

/-- one HAL call.  Ill-formed calls (see `Call.wf`) are no-ops. -/
def step (s : HalState) (c : Call) (q : Q) : HalState × List Ev × Nat :=
  if !c.wf s then (s, [], Err) else
  match c, s.dev with
  | .stoValidate, _ =>
    let (n, e, ok, _) := storageValidate s.nopen q
    ({ s with nopen := n }, e, if ok then Ok else Err)
  | .camOpen, _ =>
    let (d, n, e, _) := cameraOpen s.nopen q
    ({ nopen := n, dev := d }, e, if d.isSome then Ok else Err)
  | .stoOpen, _ =>
    let (d, n, e, _) := storageOpen s.nopen q
    ({ nopen := n, dev := d }, e, if d.isSome then Ok else Err)
  | c, none => (s, [], nullRet c)
  | .camSet a, some d => onDev s (cameraSet d a q)
  | .camGet a, some d => onDev s (cameraGetter d .get a q)
  | .camGetMeta a, some d => onDev s (cameraGetter d .getMeta a q)
  | .camGetShape a, some d => onDev s (cameraGetter d .getShape a q)
  | .camStart, some d => onDev s (cameraStart d q)
  | .camStop, some d => onDev s (cameraStop d q)
  | .camTrigger, some d => onDev s (cameraExecuteTrigger d q)
  | .camGetFrame, some d => onDev s (cameraGetFrame d q)
  | .camClose, some d => ({ s with dev := none }, (cameraClose d q).1, Ok)
  | .stoSet a, some d => onDev s (storageSet d a q)
  | .stoGet, some d => onDev s (storageVoid d .get q)
  | .stoGetMeta, some d => onDev s (storageVoid d .getMeta q)
  | .stoReserve, some d => onDev s (storageVoid d .reserve q)
  | .stoStart, some d => onDev s (storageStart d q)
  | .stoStop, some d => onDev s (storageStop d q)
  | .stoAppend k, some d => onDev s (storageAppend d k q)
  | .stoClose, some d => ({ s with dev := none }, (storageClose d q).1, Ok)

/-- `camera_get_state` / `storage_get_state` (NULL ⇒ Closed) -/
def reported (s : HalState) : Nat :=
  match s.dev with
  | none => Closed
  | some d => d.state

/-- a history: HAL calls, each with the driver's answers during that call -/
abbrev History := List (Call × Q)

/-- state after a history and the complete event log -/
def run (s : HalState) : History → HalState × List Ev
  | [] => (s, [])
  | (c, q) :: t =>
    let (s1, e, _) := step s c q
    let (s2, e2) := run s1 t
    (s2, e ++ e2)

/-! ## the device protocol as an automaton over event logs

Per device the driver created and has not yet closed: its kind, the value of its `state` field
(initial value, then every `wr … state v`), and whether the *driver* is running: it answered `Ok`
(camera) / `Running` (storage) to `start` and no `stop` has been answered since (a camera `stop`
answered with a value that is neither `Device_Ok` nor `Device_Err` is not an answer: nothing changes).  For storage, whose
vtable functions answer with the state the device is in, "running" is the driver's last such answer
being `Running` (also when it gives that answer to `set`, or constructs the device that way). -/
structure LiveDev where
  id : Nat
  kind : Kind
  st : Nat
  run : Bool
deriving DecidableEq, Repr, Inhabited

structure Auto where
  /-- devices created so far: ordinals `0 … n-1` -/
  n : Nat := 0
  /-- those not yet closed -/
  live : List LiveDev := []
deriving DecidableEq, Repr, Inhabited

def findLive (l : List LiveDev) (id : Nat) : Option LiveDev := l.find? (fun x => x.id == id)
def updLive (l : List LiveDev) (x : LiveDev) : List LiveDev := l.map fun y => if y.id == x.id then x else y
def delLive (l : List LiveDev) (id : Nat) : List LiveDev := l.filter fun y => y.id != id

/-- effect of a vtable call on a live device; `none` = illegal call -/
def callStep (x : LiveDev) (f : Fn) (r : Nat) : Option LiveDev :=
  match x.kind, f with
  | .camera, .stop => if x.st = Running ∧ x.run then some { x with run := !(decide (r = Ok) || decide (r = Err)) } else none
  | .camera, .getFrame => if x.st = Running ∧ x.run then some x else none
  | .camera, .start => some { x with run := x.run || decide (r = Ok) }
  | .storage, .stop => if x.st = Running ∧ x.run then some { x with run := decide (r = Running) } else none
  | .storage, .append => if x.st = Running ∧ x.run then some { x with run := decide (r = Running) } else none
  | .storage, .start => some { x with run := decide (r = Running) }
  | .storage, .set => some { x with run := decide (r = Running) }
  | _, _ => some x

/-- one event; `none` = the log is rejected -/
def autoStep (a : Auto) : Ev → Option Auto
  | .drvOpen _ none => some a
  | .drvOpen status (some (id, k, i)) =>
    if status = Ok ∧ id = a.n then some ⟨a.n + 1, ⟨id, k, i, decide (i = Running)⟩ :: a.live⟩ else none
  | .drvDescribe id _ => if (findLive a.live id).isSome then some a else none
  | .rd id _ => if (findLive a.live id).isSome then some a else none
  | .wr id fld v =>
    match findLive a.live id with
    | none => none
    | some x => some { a with live := updLive a.live (if fld = .state then { x with st := v } else x) }
  | .drvClose id _ => if (findLive a.live id).isSome then some { a with live := delLive a.live id } else none
  | .call id f r =>
    match findLive a.live id with
    | none => none
    | some x =>
      match callStep x f r with
      | none => none
      | some x' => some { a with live := updLive a.live x' }

def autoRun (a : Auto) : List Ev → Option Auto
  | [] => some a
  | e :: t =>
    match autoStep a e with
    | none => none
    | some a' => autoRun a' t

/-- the protocol accepts the log -/
def Accepted (log : List Ev) : Prop := (autoRun {} log).isSome

instance : DecidablePred Accepted := fun log => inferInstanceAs (Decidable ((autoRun {} log).isSome))

/-! ## the table: which state the HAL reports after a call

`h` = kind of the handle (`none` = NULL), `prev` = state reported before the call, `q` = the
driver's answers during the call (`q[0]` is the answer of the function the call names). -/
def table (h : Option Kind) (prev : Nat) (c : Call) (q : Q) : Nat :=
  let r := q.headD 0
  match h, c with
  | _, .stoValidate => prev
  | none, .camOpen | none, .stoOpen => if q.getD 0 0 = 0 ∧ q.getD 2 0 = Ok then q.getD 1 0 else Closed
  | none, _ => Closed
  | some .camera, .camClose | some .storage, .stoClose => Closed
  | some .camera, .camSet true =>
    if r = Ok then (if prev = Running then Running else Armed) else if r = Err then Await else prev
  | some .camera, .camStart => if r = Ok then Running else if r = Err then Await else prev
  | some .camera, .camStop =>
    if prev = Running then (if r = Ok then Armed else if r = Err then Await else prev) else prev
  | some .camera, .camGetFrame => if prev = Running ∧ r ≠ Ok then Await else prev
  | some .storage, .stoSet true => r
  | some .storage, .stoStart => if prev = Armed then r else prev
  | some .storage, .stoStop => if prev = Running then r else prev
  | some .storage, .stoAppend k => if prev = Running ∧ k ≥ 2 then r else prev
  | _, _ => prev

end AcqVerif.Hal
