import AcqVerif.Hal.Auto
/-!
# The HAL model produces only logs the protocol automaton accepts

Per HAL function: starting from an automaton state whose first live device mirrors the device
object (`LD d b`: same id, kind, `state` field; driver-running flag `b` with
`d.state = Running → b`), the function's events are accepted and lead to the mirror of the
device object it returns.  `step_inv` lifts this to `step`, `run_inv` to histories.
-/
namespace AcqVerif.Hal

def NotIn (id : Nat) (l : List LiveDev) : Prop := ∀ y ∈ l, y.id ≠ id

theorem updLive_notin {l : List LiveDev} {x : LiveDev} (h : NotIn x.id l) : updLive l x = l := by
  induction l with
  | nil => rfl
  | cons y t ih =>
    have hy : y.id ≠ x.id := h y (by simp)
    have ht : NotIn x.id t := fun z hz => h z (by simp [hz])
    simp only [updLive, List.map_cons] at *
    rw [ih ht]
    simp [hy]

theorem delLive_notin {l : List LiveDev} {id : Nat} (h : NotIn id l) : delLive l id = l := by
  unfold delLive
  apply List.filter_eq_self.mpr
  intro y hy
  simpa using h y hy

/-! automaton steps on a state whose head is the device concerned -/
section steps
variable {n id st : Nat} {k : Kind} {b : Bool} {rest : List LiveDev}

@[simp] theorem findLive_head : findLive (⟨id, k, st, b⟩ :: rest) id = some ⟨id, k, st, b⟩ := by
  simp [findLive]

theorem step_rd (f : Field) : autoStep ⟨n, ⟨id, k, st, b⟩ :: rest⟩ (.rd id f) = some ⟨n, ⟨id, k, st, b⟩ :: rest⟩ := by
  simp [autoStep]

theorem step_describe (r : Nat) : autoStep ⟨n, ⟨id, k, st, b⟩ :: rest⟩ (.drvDescribe id r) = some ⟨n, ⟨id, k, st, b⟩ :: rest⟩ := by
  simp [autoStep]

theorem step_wr_state (h : NotIn id rest) (v : Nat) :
    autoStep ⟨n, ⟨id, k, st, b⟩ :: rest⟩ (.wr id .state v) = some ⟨n, ⟨id, k, v, b⟩ :: rest⟩ := by
  have := updLive_notin (l := rest) (x := ⟨id, k, v, b⟩) h
  simp [autoStep, updLive] at *
  exact this

theorem step_wr_other (h : NotIn id rest) (f : Field) (hf : f ≠ .state) (v : Nat) :
    autoStep ⟨n, ⟨id, k, st, b⟩ :: rest⟩ (.wr id f v) = some ⟨n, ⟨id, k, st, b⟩ :: rest⟩ := by
  have := updLive_notin (l := rest) (x := ⟨id, k, st, b⟩) h
  simp [autoStep, updLive, hf] at *
  exact this

theorem step_close (h : NotIn id rest) (r : Nat) :
    autoStep ⟨n, ⟨id, k, st, b⟩ :: rest⟩ (.drvClose id r) = some ⟨n, rest⟩ := by
  have := delLive_notin h
  simp [autoStep, delLive] at *
  exact this

theorem step_call (h : NotIn id rest) (f : Fn) (r : Nat) {x' : LiveDev}
    (hc : callStep ⟨id, k, st, b⟩ f r = some x') :
    autoStep ⟨n, ⟨id, k, st, b⟩ :: rest⟩ (.call id f r) = some ⟨n, x' :: rest⟩ := by
  have hid : x'.id = id := callStep_id hc
  have := updLive_notin (l := rest) (x := x') (by rw [hid]; exact h)
  simp [autoStep, hc, updLive, hid] at *
  exact this

theorem step_call' (h : NotIn id rest) (f : Fn) (r : Nat) :
    autoStep ⟨n, ⟨id, k, st, b⟩ :: rest⟩ (.call id f r) =
      (callStep ⟨id, k, st, b⟩ f r).map (fun x' => ⟨n, x' :: rest⟩) := by
  cases hc : callStep ⟨id, k, st, b⟩ f r with
  | none => simp [autoStep, hc]
  | some x' => simp [step_call h f r hc]

theorem step_open (kk : Kind) (i : Nat) (l : List LiveDev) :
    autoStep ⟨n, l⟩ (.drvOpen Ok (some (n, kk, i))) = some ⟨n + 1, ⟨n, kk, i, decide (i = Running)⟩ :: l⟩ := by
  simp [autoStep]

theorem step_open_none (v : Nat) (a : Auto) : autoStep a (.drvOpen v none) = some a := by
  simp [autoStep]
end steps

/-- the automaton's view of a device object -/
def LD (d : Dev) (b : Bool) : LiveDev := ⟨d.id, d.kind, d.state, b⟩

/-- `f` (a HAL function on a device object) keeps the automaton in step with the object -/
def Keeps (d : Dev) (out : Dev × List Ev × Nat × Q) : Prop :=
  ∀ (n : Nat) (rest : List LiveDev) (b : Bool), NotIn d.id rest → (d.state = Running → b = true) →
    ∃ b', autoRun ⟨n, LD d b :: rest⟩ out.2.1 = some ⟨n, LD out.1 b' :: rest⟩ ∧
      (out.1.state = Running → b' = true) ∧ out.1.id = d.id ∧ out.1.kind = d.kind

/-! the enumerators are distinct (kept folded so that hypotheses such as `d.state = Running` stay usable) -/
@[simp] theorem closed_ne_await : (Closed = Await) = False := by decide
@[simp] theorem closed_ne_armed : (Closed = Armed) = False := by decide
@[simp] theorem closed_ne_running : (Closed = Running) = False := by decide
@[simp] theorem await_ne_closed : (Await = Closed) = False := by decide
@[simp] theorem await_ne_armed : (Await = Armed) = False := by decide
@[simp] theorem await_ne_running : (Await = Running) = False := by decide
@[simp] theorem armed_ne_closed : (Armed = Closed) = False := by decide
@[simp] theorem armed_ne_await : (Armed = Await) = False := by decide
@[simp] theorem armed_ne_running : (Armed = Running) = False := by decide
@[simp] theorem running_ne_closed : (Running = Closed) = False := by decide
@[simp] theorem running_ne_await : (Running = Await) = False := by decide
@[simp] theorem running_ne_armed : (Running = Armed) = False := by decide
@[simp] theorem ok_ne_err : (Ok = Err) = False := by decide
@[simp] theorem err_ne_ok : (Err = Ok) = False := by decide

/-- evaluate the automaton on a literal event list (hypotheses `NotIn …`, `d.kind = …`, `d.state = …` from the context) -/
macro "hal_simp" : tactic =>
  `(tactic| simp [*, autoRun, LD, step_rd, step_describe, step_call', callStep, step_wr_state, step_wr_other, step_close] <;> try assumption)

/-! ## camera.c -/

theorem cameraStop_keeps (d : Dev) (q : Q) (hk : d.kind = .camera) : Keeps d (cameraStop d q) := by
  intro n rest b hni hb
  unfold cameraStop
  by_cases hr : d.state = Running
  · have hb' := hb hr; subst hb'
    simp only [pop, hr, if_true]
    obtain ⟨r, hq⟩ : ∃ r, q.headD 0 = r := ⟨_, rfl⟩
    simp only [hq]
    clear hq
    by_cases h0 : r = Ok
    · subst h0; exact ⟨false, by hal_simp⟩
    · by_cases h1 : r = Err
      · subst h1; exact ⟨false, by hal_simp⟩
      · exact ⟨true, by hal_simp⟩
  · exact ⟨b, by hal_simp⟩

theorem cameraSet_keeps (d : Dev) (arg : Bool) (q : Q) (hk : d.kind = .camera) : Keeps d (cameraSet d arg q) := by
  intro n rest b hni hb
  unfold cameraSet
  cases arg with
  | false => exact ⟨b, by hal_simp⟩
  | true =>
    simp only [pop, Bool.not_true, Bool.false_eq_true, if_false]
    obtain ⟨r, hq⟩ : ∃ r, q.headD 0 = r := ⟨_, rfl⟩
    simp only [hq]
    clear hq
    by_cases h0 : r = Ok
    · subst h0
      by_cases hr : d.state = Running
      · have hb' := hb hr; subst hb'; exact ⟨true, by hal_simp⟩
      · exact ⟨b, by hal_simp⟩
    · by_cases h1 : r = Err
      · subst h1
        obtain ⟨b1, g1, _, g3, g4⟩ := cameraStop_keeps d q.tail hk n rest b hni hb
        rcases hcs : cameraStop d q.tail with ⟨d1, e1, r1, q1⟩
        rw [hcs] at g1 g3 g4
        simp only at g1 g3 g4
        refine ⟨b1, ?_, by hal_simp, by hal_simp, by hal_simp⟩
        simp only [err_ne_ok, if_false, if_true]
        have p1 : autoRun ⟨n, LD d b :: rest⟩ [Ev.rd d.id (.fn .set), Ev.call d.id .set Err] = some ⟨n, LD d b :: rest⟩ := by
          hal_simp
        have p3 : autoRun ⟨n, LD d1 b1 :: rest⟩ [Ev.wr d.id .state Await] = some ⟨n, LD { d1 with state := Await } b1 :: rest⟩ := by
          hal_simp
        exact autoRun_append_some (autoRun_append_some p1 g1) p3
      · exact ⟨b, by hal_simp⟩

theorem cameraGetter_keeps (d : Dev) (f : Fn) (arg : Bool) (q : Q) (hk : d.kind = .camera)
    (hf : f = .get ∨ f = .getMeta ∨ f = .getShape) : Keeps d (cameraGetter d f arg q) := by
  intro n rest b hni hb
  unfold cameraGetter
  cases arg with
  | false => exact ⟨b, by hal_simp⟩
  | true => rcases hf with h | h | h <;> subst h <;> exact ⟨b, by hal_simp⟩

theorem cameraStart_keeps (d : Dev) (q : Q) (hk : d.kind = .camera) : Keeps d (cameraStart d q) := by
  intro n rest b hni hb
  unfold cameraStart
  simp only [pop]
  obtain ⟨r, hq⟩ : ∃ r, q.headD 0 = r := ⟨_, rfl⟩
  simp only [hq]
  clear hq
  by_cases h0 : r = Ok
  · subst h0; exact ⟨true, by hal_simp⟩
  · by_cases h1 : r = Err
    · subst h1; exact ⟨b, by hal_simp⟩
    · exact ⟨b, by hal_simp⟩

theorem cameraExecuteTrigger_keeps (d : Dev) (q : Q) (hk : d.kind = .camera) : Keeps d (cameraExecuteTrigger d q) := by
  intro n rest b hni hb
  unfold cameraExecuteTrigger
  by_cases hr : d.state = Running
  · exact ⟨b, by hal_simp⟩
  · exact ⟨b, by hal_simp⟩

theorem cameraGetFrame_keeps (d : Dev) (q : Q) (hk : d.kind = .camera) : Keeps d (cameraGetFrame d q) := by
  intro n rest b hni hb
  unfold cameraGetFrame
  by_cases hr : d.state = Running
  · have hb' := hb hr; subst hb'
    simp only [pop, hr, ne_eq, not_true_eq_false, if_false]
    obtain ⟨r, hq⟩ : ∃ r, q.headD 0 = r := ⟨_, rfl⟩
    simp only [hq]
    clear hq
    by_cases h0 : r = Ok
    · subst h0; exact ⟨true, by hal_simp⟩
    · obtain ⟨b1, g1, _, g3, g4⟩ := cameraStop_keeps d q.tail hk n rest true hni hb
      rcases hcs : cameraStop d q.tail with ⟨d1, e1, r1, q1⟩
      rw [hcs] at g1 g3 g4
      simp only at g1 g3 g4
      refine ⟨b1, ?_, by hal_simp, by hal_simp, by hal_simp⟩
      simp only [h0, not_false_eq_true, if_true]
      have p1 : autoRun ⟨n, LD d true :: rest⟩ [Ev.rd d.id .state, Ev.rd d.id (.fn .getFrame), Ev.call d.id .getFrame r]
          = some ⟨n, LD d true :: rest⟩ := by
        hal_simp
      have p3 : autoRun ⟨n, LD d1 b1 :: rest⟩ [Ev.wr d.id .state Await] = some ⟨n, LD { d1 with state := Await } b1 :: rest⟩ := by
        hal_simp
      exact autoRun_append_some (autoRun_append_some p1 g1) p3
  · exact ⟨b, by hal_simp⟩

/-! ## storage.c -/

theorem storageStop_keeps (d : Dev) (q : Q) (hk : d.kind = .storage) : Keeps d (storageStop d q) := by
  intro n rest b hni hb
  unfold storageStop
  by_cases hr : d.state = Running
  · have hb' := hb hr; subst hb'
    simp only [pop, hr, if_true]
    obtain ⟨r, hq⟩ : ∃ r, q.headD 0 = r := ⟨_, rfl⟩
    simp only [hq]
    clear hq
    by_cases h0 : r = Armed ∨ r = Await
    · exact ⟨decide (r = Running), by hal_simp⟩
    · exact ⟨decide (r = Running), by hal_simp⟩
  · exact ⟨b, by hal_simp⟩

theorem storageSet_keeps (d : Dev) (arg : Bool) (q : Q) (hk : d.kind = .storage) : Keeps d (storageSet d arg q) := by
  intro n rest b hni hb
  unfold storageSet
  cases arg with
  | false => exact ⟨b, by hal_simp⟩
  | true => exact ⟨decide ((pop q).1 = Running), by hal_simp⟩

theorem storageVoid_keeps (d : Dev) (f : Fn) (q : Q) (hk : d.kind = .storage)
    (hf : f = .get ∨ f = .getMeta ∨ f = .reserve) : Keeps d (storageVoid d f q) := by
  intro n rest b hni hb
  unfold storageVoid
  rcases hf with h | h | h <;> subst h <;> exact ⟨b, by hal_simp⟩

theorem storageStart_keeps (d : Dev) (q : Q) (hk : d.kind = .storage) : Keeps d (storageStart d q) := by
  intro n rest b hni hb
  unfold storageStart
  by_cases hr : d.state = Armed
  · exact ⟨decide ((pop q).1 = Running), by hal_simp⟩
  · exact ⟨b, by hal_simp⟩

theorem storageAppend_keeps (d : Dev) (cmp : Nat) (q : Q) (hk : d.kind = .storage) : Keeps d (storageAppend d cmp q) := by
  intro n rest b hni hb
  unfold storageAppend
  by_cases hr : d.state = Running
  · have hb' := hb hr; subst hb'
    by_cases c0 : cmp = 0
    · exact ⟨true, by hal_simp⟩
    · by_cases c1 : cmp = 1
      · exact ⟨true, by hal_simp⟩
      · exact ⟨decide ((pop q).1 = Running), by hal_simp⟩
  · exact ⟨b, by hal_simp⟩

/-! ## close, open, validate -/

theorem cameraClose_auto (d : Dev) (q : Q) (n : Nat) (rest : List LiveDev) (b : Bool) (hni : NotIn d.id rest) :
    autoRun ⟨n, LD d b :: rest⟩ (cameraClose d q).1 = some ⟨n, rest⟩ := by
  unfold cameraClose
  hal_simp

theorem storageClose_auto (d : Dev) (q : Q) (n : Nat) (rest : List LiveDev) (b : Bool) (hk : d.kind = .storage)
    (hni : NotIn d.id rest) (hb : d.state = Running → b = true) :
    autoRun ⟨n, LD d b :: rest⟩ (storageClose d q).1 = some ⟨n, rest⟩ := by
  unfold storageClose
  obtain ⟨b1, g1, _, g3, g4⟩ := storageStop_keeps d q hk n rest b hni hb
  rcases hcs : storageStop d q with ⟨d1, e1, r1, q1⟩
  rw [hcs] at g1 g3 g4
  simp only at g1 g3 g4
  simp only [driverCloseDevice, pop]
  have p2 : autoRun ⟨n, LD d1 b1 :: rest⟩ ([Ev.wr d.id .state Closed] ++ [Ev.rd d1.id .driver, Ev.drvClose d1.id (q1.headD 0)])
      = some ⟨n, rest⟩ := by
    hal_simp
  have := autoRun_append_some g1 p2
  simpa using this

theorem vtable_auto (id : Nat) (k : Kind) (st : Nat) (b : Bool) (n : Nat) (rest : List LiveDev) (l : List Fn) :
    autoRun ⟨n, ⟨id, k, st, b⟩ :: rest⟩ (l.map fun f => Ev.rd id (.fn f)) = some ⟨n, ⟨id, k, st, b⟩ :: rest⟩ := by
  induction l with
  | nil => rfl
  | cons f t ih => simp [autoRun, step_rd, ih]

theorem driverOpenDevice_auto (nopen : Nat) (kind : Kind) (q : Q) (rest : List LiveDev) (hrest : NotIn nopen rest) :
    match driverOpenDevice nopen kind q with
    | (some d, n', e, _, _) =>
      d.id = nopen ∧ d.kind = kind ∧ n' = nopen + 1 ∧
        autoRun ⟨nopen, rest⟩ e = some ⟨n', LD d (decide (d.state = Running)) :: rest⟩
    | (none, n', e, _, _) => nopen ≤ n' ∧ n' ≤ nopen + 1 ∧ autoRun ⟨nopen, rest⟩ e = some ⟨n', rest⟩ := by
  unfold driverOpenDevice
  simp only [pop]
  by_cases h0 : q.headD 0 = 0
  · simp only [h0, if_true]
    by_cases h1 : q.tail.tail.headD 0 = Ok
    · simp only [h1, if_true]
      simp [autoRun, step_open, LD, step_describe, step_wr_other hrest]
    · simp only [h1, if_false]
      refine ⟨Nat.le_succ _, Nat.le_refl _, ?_⟩
      simp [autoRun, step_open, step_describe, step_close hrest]
  · simp only [h0, if_false]
    by_cases h2 : q.headD 0 = 2
    · simp only [h2, if_true]
      exact ⟨Nat.le_refl _, Nat.le_succ _, by simp [autoRun, step_open_none]⟩
    · simp only [h2, if_false]
      exact ⟨Nat.le_refl _, Nat.le_succ _, by simp [autoRun, step_open_none]⟩

theorem storageValidate_auto (nopen : Nat) (q : Q) (rest : List LiveDev) (hrest : NotIn nopen rest) :
    nopen ≤ (storageValidate nopen q).1 ∧
      autoRun ⟨nopen, rest⟩ (storageValidate nopen q).2.1 = some ⟨(storageValidate nopen q).1, rest⟩ := by
  unfold storageValidate
  have h := driverOpenDevice_auto nopen .storage q rest hrest
  rcases hd : driverOpenDevice nopen .storage q with ⟨od, n', e, r, q'⟩
  rw [hd] at h
  cases od with
  | none => simp only at h ⊢; exact ⟨h.1, h.2.2⟩
  | some d =>
    simp only at h ⊢
    obtain ⟨hid, hk, hn, hrun⟩ := h
    simp only [pop]
    have hni : NotIn d.id rest := by rw [hid]; exact hrest
    refine ⟨by omega, ?_⟩
    have hk' : ({ d with state := q'.headD 0 } : Dev).kind = .storage := hk
    have p3 := storageClose_auto { d with state := q'.headD 0 } q'.tail n' rest (decide (q'.headD 0 = Running)) hk' hni
      (by intro h; simpa using h)
    have p2 : autoRun ⟨n', LD d (decide (d.state = Running)) :: rest⟩
        ([Ev.rd d.id .identifier, Ev.wr d.id .identifier 0] ++
          [Ev.rd d.id (.fn .set), Ev.call d.id .set (q'.headD 0), Ev.wr d.id .state (q'.headD 0), Ev.rd d.id .state])
        = some ⟨n', LD { d with state := q'.headD 0 } (decide (q'.headD 0 = Running)) :: rest⟩ := by
      hal_simp
    have := autoRun_append_some (autoRun_append_some hrun p2) p3
    simpa [List.append_assoc] using this

/-! ## the invariant of `step` and `run` -/

/-- the automaton state that mirrors a HAL state: the devices created so far, of which only the
caller's handle is live -/
def mirror (s : HalState) (b : Bool) : Auto :=
  ⟨s.nopen, match s.dev with | none => [] | some d => [LD d b]⟩

/-- the handle is a device the driver created, and if it is Running the driver knows -/
def Good (s : HalState) (b : Bool) : Prop :=
  ∀ d, s.dev = some d → d.id < s.nopen ∧ (d.state = Running → b = true)

theorem onDev_inv (s : HalState) (d : Dev) (b : Bool) (out : Dev × List Ev × Nat × Q) (hs : s.dev = some d)
    (hg : Good s b) (hk : Keeps d out) :
    ∃ b', autoRun (mirror s b) (onDev s out).2.1 = some (mirror (onDev s out).1 b') ∧ Good (onDev s out).1 b' := by
  obtain ⟨h1, h2⟩ := hg d hs
  obtain ⟨b', g1, g2, g3, g4⟩ := hk s.nopen [] b (by intro y hy; simp at hy) h2
  refine ⟨b', ?_, ?_⟩
  · simp only [mirror, hs, onDev]; exact g1
  · intro d' hd'
    simp only [onDev, Option.some.injEq] at hd'
    subst hd'
    exact ⟨by simp only [onDev]; omega, g2⟩

theorem open_inv (s : HalState) (b : Bool) (kind : Kind) (hs : s.dev = none)
    (od : Option Dev) (n' : Nat) (e : List Ev)
    (h : match (od, n', e) with
      | (some d, n', e) => d.id = s.nopen ∧ d.kind = kind ∧ n' = s.nopen + 1 ∧
          autoRun ⟨s.nopen, []⟩ e = some ⟨n', [LD d (decide (d.state = Running))]⟩
      | (none, n', e) => s.nopen ≤ n' ∧ autoRun ⟨s.nopen, []⟩ e = some ⟨n', []⟩) :
    ∃ b', autoRun (mirror s b) e = some (mirror { nopen := n', dev := od } b') ∧ Good { nopen := n', dev := od } b' := by
  cases od with
  | none =>
    simp only at h
    refine ⟨b, by simp only [mirror, hs]; exact h.2, ?_⟩
    intro d hd; simp at hd
  | some d =>
    simp only at h
    obtain ⟨hid, _, hn, hrun⟩ := h
    refine ⟨decide (d.state = Running), by simp only [mirror, hs]; exact hrun, ?_⟩
    intro d' hd'
    simp only [Option.some.injEq] at hd'
    subst hd'
    exact ⟨by simp only; omega, by intro h; simpa using h⟩

theorem step_inv (s : HalState) (c : Call) (q : Q) (b : Bool) (hg : Good s b) :
    ∃ b', autoRun (mirror s b) (step s c q).2.1 = some (mirror (step s c q).1 b') ∧ Good (step s c q).1 b' := by
  unfold step
  by_cases hwf : c.wf s = false
  · simp only [hwf, Bool.not_false, if_true]; exact ⟨b, rfl, hg⟩
  replace hwf : c.wf s = true := by simpa using hwf
  simp only [hwf, Bool.not_true, Bool.false_eq_true, if_false]
  -- storage_validate: a device of its own, whatever the handle is
  by_cases hv : c = .stoValidate
  · subst hv
    have hrest : NotIn s.nopen (mirror s b).live := by
      intro y hy
      simp only [mirror] at hy
      cases hs : s.dev with
      | none => simp [hs] at hy
      | some d =>
        simp only [hs, List.mem_singleton] at hy
        subst hy
        have := (hg d hs).1
        simp only [LD]; omega
    obtain ⟨h1, h2⟩ := storageValidate_auto s.nopen q (mirror s b).live hrest
    refine ⟨b, ?_, ?_⟩
    · simp only [mirror] at h2 ⊢; exact h2
    · intro d hd
      simp only at hd
      exact ⟨Nat.lt_of_lt_of_le (hg d hd).1 h1, (hg d hd).2⟩
  cases hs : s.dev with
  | none =>
    cases c
    case stoValidate => exact absurd rfl hv
    case camOpen =>
      dsimp only
      have h := driverOpenDevice_auto s.nopen .camera q [] (by intro y hy; simp at hy)
      simp only [cameraOpen]
      rcases hd : driverOpenDevice s.nopen .camera q with ⟨od, n', e, r, q'⟩
      rw [hd] at h
      cases od with
      | none => exact open_inv s b .camera hs none n' e ⟨h.1, h.2.2⟩
      | some d =>
        obtain ⟨g1, g2, g3, g4⟩ := h
        refine open_inv s b .camera hs (some d) n' _ ⟨g1, g2, g3, ?_⟩
        exact autoRun_append_some g4 (vtable_auto d.id d.kind d.state _ n' [] _)
    case stoOpen =>
      dsimp only
      have h := driverOpenDevice_auto s.nopen .storage q [] (by intro y hy; simp at hy)
      simp only [storageOpen]
      rcases hd : driverOpenDevice s.nopen .storage q with ⟨od, n', e, r, q'⟩
      rw [hd] at h
      cases od with
      | none => exact open_inv s b .storage hs none n' e ⟨h.1, h.2.2⟩
      | some d =>
        obtain ⟨g1, g2, g3, g4⟩ := h
        refine open_inv s b .storage hs (some d) n' _ ⟨g1, g2, g3, ?_⟩
        exact autoRun_append_some g4 (vtable_auto d.id d.kind d.state _ n' [] _)
    all_goals
      dsimp only
      refine ⟨b, ?_, ?_⟩
      · simp [mirror, hs, autoRun]
      · intro d hd; simp [hs] at hd
  | some d =>
    have hkind : c.isOpen = false ∧ c.kind = d.kind := by
      cases c <;> simp_all [Call.wf, Call.isOpen, Call.kind]
    obtain ⟨hg1, hg2⟩ := hg d hs
    have hnil : NotIn d.id [] := by intro y hy; simp at hy
    have hk := hkind.2.symm
    have ho := hkind.1
    have hg' : Good s b := hg
    rw [← hs]
    cases c
    case stoValidate => exact absurd rfl hv
    case camOpen => simp [Call.isOpen] at ho
    case stoOpen => simp [Call.isOpen] at ho
    case camSet a => rw [hs]; exact onDev_inv s d b _ hs hg (cameraSet_keeps d _ q hk)
    case camGet a => rw [hs]; exact onDev_inv s d b _ hs hg (cameraGetter_keeps d _ _ q hk (Or.inl rfl))
    case camGetMeta a => rw [hs]; exact onDev_inv s d b _ hs hg (cameraGetter_keeps d _ _ q hk (Or.inr (Or.inl rfl)))
    case camGetShape a => rw [hs]; exact onDev_inv s d b _ hs hg (cameraGetter_keeps d _ _ q hk (Or.inr (Or.inr rfl)))
    case camStart => rw [hs]; exact onDev_inv s d b _ hs hg (cameraStart_keeps d q hk)
    case camStop => rw [hs]; exact onDev_inv s d b _ hs hg (cameraStop_keeps d q hk)
    case camTrigger => rw [hs]; exact onDev_inv s d b _ hs hg (cameraExecuteTrigger_keeps d q hk)
    case camGetFrame => rw [hs]; exact onDev_inv s d b _ hs hg (cameraGetFrame_keeps d q hk)
    case camClose =>
      rw [hs]; dsimp only
      refine ⟨b, ?_, ?_⟩
      · simp only [mirror, hs]; exact cameraClose_auto d q s.nopen [] b hnil
      · intro d' hd'; simp at hd'
    case stoSet a => rw [hs]; exact onDev_inv s d b _ hs hg (storageSet_keeps d _ q hk)
    case stoGet => rw [hs]; exact onDev_inv s d b _ hs hg (storageVoid_keeps d _ q hk (Or.inl rfl))
    case stoGetMeta => rw [hs]; exact onDev_inv s d b _ hs hg (storageVoid_keeps d _ q hk (Or.inr (Or.inl rfl)))
    case stoStart => rw [hs]; exact onDev_inv s d b _ hs hg (storageStart_keeps d q hk)
    case stoStop => rw [hs]; exact onDev_inv s d b _ hs hg (storageStop_keeps d q hk)
    case stoAppend k => rw [hs]; exact onDev_inv s d b _ hs hg (storageAppend_keeps d _ q hk)
    case stoReserve => rw [hs]; exact onDev_inv s d b _ hs hg (storageVoid_keeps d _ q hk (Or.inr (Or.inr rfl)))
    case stoClose =>
      rw [hs]; dsimp only
      refine ⟨b, ?_, ?_⟩
      · simp only [mirror, hs]; exact storageClose_auto d q s.nopen [] b hk hnil hg2
      · intro d' hd'; simp at hd'

theorem run_inv (s : HalState) (h : History) (b : Bool) (hg : Good s b) :
    ∃ b', autoRun (mirror s b) (run s h).2 = some (mirror (run s h).1 b') ∧ Good (run s h).1 b' := by
  induction h generalizing s b with
  | nil => exact ⟨b, rfl, hg⟩
  | cons cq t ih =>
    obtain ⟨c, q⟩ := cq
    obtain ⟨b1, h1, g1⟩ := step_inv s c q b hg
    obtain ⟨b2, h2, g2⟩ := ih (step s c q).1 b1 g1
    exact ⟨b2, by simp only [run]; exact autoRun_append_some h1 h2, by simp only [run]; exact g2⟩

theorem good_init : Good {} false := by
  intro d hd; simp at hd

theorem mirror_init : mirror {} false = {} := rfl

end AcqVerif.Hal
