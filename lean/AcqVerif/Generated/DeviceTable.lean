/-! GENERATED on every run of `bin/check C12` by harness/select/extract_devtable.c from the
real `acquire-driver-common/src/basics.driver.c` (built from the repository's working tree and
executed: describe / open / describe / close for every index).  Do not edit. -/
namespace AcqVerif.Generated.DeviceTable

def Device_Ok : Nat := 0
def Device_Err : Nat := 1
def DeviceKind_None : Nat := 0
def DeviceKind_Camera : Nat := 1
def DeviceKind_Storage : Nat := 2
def DeviceKind_StageAxis : Nat := 3
def DeviceKind_Signals : Nat := 4
def DeviceKind_Count : Nat := 5
def DeviceKind_Unknown : Nat := 6
/-- `sizeof(DeviceIdentifier.name)` -/
def nameCapacity : Nat := 256

/-- one index of the driver, as observed by running it -/
structure Row where
  index : Nat
  descOk : Bool        -- describe(index) == Device_Ok
  deviceId : Nat       -- identifier after describe (prefilled with the manager's default)
  kind : Nat
  name : List Nat
  openOk : Bool        -- open(index) == Device_Ok and *out != NULL
  oDescOk : Bool       -- describe(index) into the opened device
  oDeviceId : Nat
  oKind : Nat
  oName : List Nat
  closeOk : Bool
deriving DecidableEq, Repr, Inhabited

/-- `basic_device_count()` -/
def deviceCount : Nat := 7

def rows : List Row := [
  -- 0: simulated: uniform random
  { index := 0, descOk := true, deviceId := 0, kind := 1, name := [115, 105, 109, 117, 108, 97, 116, 101, 100, 58, 32, 117, 110, 105, 102, 111, 114, 109, 32, 114, 97, 110, 100, 111, 109],
    openOk := true, oDescOk := true, oDeviceId := 0, oKind := 1, oName := [115, 105, 109, 117, 108, 97, 116, 101, 100, 58, 32, 117, 110, 105, 102, 111, 114, 109, 32, 114, 97, 110, 100, 111, 109], closeOk := true },
  -- 1: simulated: radial sin
  { index := 1, descOk := true, deviceId := 1, kind := 1, name := [115, 105, 109, 117, 108, 97, 116, 101, 100, 58, 32, 114, 97, 100, 105, 97, 108, 32, 115, 105, 110],
    openOk := true, oDescOk := true, oDeviceId := 1, oKind := 1, oName := [115, 105, 109, 117, 108, 97, 116, 101, 100, 58, 32, 114, 97, 100, 105, 97, 108, 32, 115, 105, 110], closeOk := true },
  -- 2: simulated: empty
  { index := 2, descOk := true, deviceId := 2, kind := 1, name := [115, 105, 109, 117, 108, 97, 116, 101, 100, 58, 32, 101, 109, 112, 116, 121],
    openOk := true, oDescOk := true, oDeviceId := 2, oKind := 1, oName := [115, 105, 109, 117, 108, 97, 116, 101, 100, 58, 32, 101, 109, 112, 116, 121], closeOk := true },
  -- 3: raw
  { index := 3, descOk := true, deviceId := 3, kind := 2, name := [114, 97, 119],
    openOk := true, oDescOk := true, oDeviceId := 3, oKind := 2, oName := [114, 97, 119], closeOk := true },
  -- 4: tiff
  { index := 4, descOk := true, deviceId := 4, kind := 2, name := [116, 105, 102, 102],
    openOk := true, oDescOk := true, oDeviceId := 4, oKind := 2, oName := [116, 105, 102, 102], closeOk := true },
  -- 5: trash
  { index := 5, descOk := true, deviceId := 5, kind := 2, name := [116, 114, 97, 115, 104],
    openOk := true, oDescOk := true, oDeviceId := 5, oKind := 2, oName := [116, 114, 97, 115, 104], closeOk := true },
  -- 6: tiff-json
  { index := 6, descOk := true, deviceId := 6, kind := 2, name := [116, 105, 102, 102, 45, 106, 115, 111, 110],
    openOk := true, oDescOk := true, oDeviceId := 6, oKind := 2, oName := [116, 105, 102, 102, 45, 106, 115, 111, 110], closeOk := true },
  -- 7: 
  { index := 7, descOk := false, deviceId := 0, kind := 6, name := [],
    openOk := false, oDescOk := false, oDeviceId := 0, oKind := 6, oName := [], closeOk := false },
  -- 8: 
  { index := 8, descOk := false, deviceId := 0, kind := 6, name := [],
    openOk := false, oDescOk := false, oDeviceId := 0, oKind := 6, oName := [], closeOk := false },
  -- 255: 
  { index := 255, descOk := false, deviceId := 0, kind := 6, name := [],
    openOk := false, oDescOk := false, oDeviceId := 0, oKind := 6, oName := [], closeOk := false },
  -- 256: 
  { index := 256, descOk := false, deviceId := 0, kind := 6, name := [],
    openOk := false, oDescOk := false, oDeviceId := 0, oKind := 6, oName := [], closeOk := false },
  -- 262: 
  { index := 262, descOk := false, deviceId := 0, kind := 6, name := [],
    openOk := false, oDescOk := false, oDeviceId := 0, oKind := 6, oName := [], closeOk := false },
  -- 65537: 
  { index := 65537, descOk := false, deviceId := 0, kind := 6, name := [],
    openOk := false, oDescOk := false, oDeviceId := 0, oKind := 6, oName := [], closeOk := false },
  -- 2147483648: 
  { index := 2147483648, descOk := false, deviceId := 0, kind := 6, name := [],
    openOk := false, oDescOk := false, oDeviceId := 0, oKind := 6, oName := [], closeOk := false },
  -- 2147483649: 
  { index := 2147483649, descOk := false, deviceId := 0, kind := 6, name := [],
    openOk := false, oDescOk := false, oDeviceId := 0, oKind := 6, oName := [], closeOk := false },
  -- 4294967296: 
  { index := 4294967296, descOk := false, deviceId := 0, kind := 6, name := [],
    openOk := false, oDescOk := false, oDeviceId := 0, oKind := 6, oName := [], closeOk := false },
  -- 4294967297: 
  { index := 4294967297, descOk := false, deviceId := 0, kind := 6, name := [],
    openOk := false, oDescOk := false, oDeviceId := 0, oKind := 6, oName := [], closeOk := false },
  -- 4294967298: 
  { index := 4294967298, descOk := false, deviceId := 0, kind := 6, name := [],
    openOk := false, oDescOk := false, oDeviceId := 0, oKind := 6, oName := [], closeOk := false },
  -- 4294967299: 
  { index := 4294967299, descOk := false, deviceId := 0, kind := 6, name := [],
    openOk := false, oDescOk := false, oDeviceId := 0, oKind := 6, oName := [], closeOk := false },
  -- 4294967300: 
  { index := 4294967300, descOk := false, deviceId := 0, kind := 6, name := [],
    openOk := false, oDescOk := false, oDeviceId := 0, oKind := 6, oName := [], closeOk := false },
  -- 4294967301: 
  { index := 4294967301, descOk := false, deviceId := 0, kind := 6, name := [],
    openOk := false, oDescOk := false, oDeviceId := 0, oKind := 6, oName := [], closeOk := false },
  -- 4294967302: 
  { index := 4294967302, descOk := false, deviceId := 0, kind := 6, name := [],
    openOk := false, oDescOk := false, oDeviceId := 0, oKind := 6, oName := [], closeOk := false },
  -- 4294967303: 
  { index := 4294967303, descOk := false, deviceId := 0, kind := 6, name := [],
    openOk := false, oDescOk := false, oDeviceId := 0, oKind := 6, oName := [], closeOk := false },
  -- 30064771078: 
  { index := 30064771078, descOk := false, deviceId := 0, kind := 6, name := [],
    openOk := false, oDescOk := false, oDeviceId := 0, oKind := 6, oName := [], closeOk := false },
  -- 9223372036854775808: 
  { index := 9223372036854775808, descOk := false, deviceId := 0, kind := 6, name := [],
    openOk := false, oDescOk := false, oDeviceId := 0, oKind := 6, oName := [], closeOk := false },
  -- 18446744073709551615: 
  { index := 18446744073709551615, descOk := false, deviceId := 0, kind := 6, name := [],
    openOk := false, oDescOk := false, oDeviceId := 0, oKind := 6, oName := [], closeOk := false }
]

end AcqVerif.Generated.DeviceTable
