/-! GENERATED on every run of the channel checks by extract/c2lean.py from the current
`acquire-video-runtime/src/runtime/channel.c` (clang-14 AST).  Do not edit.  Conventions: see extract/c2lean.py. -/
namespace AcqVerif.Generated.ChannelC

/-- `(int)v` for an unsigned `v`: the low 32 bits, two's complement -/
def toInt32 (v : Nat) : Int := if v % 4294967296 < 2147483648 then (v % 4294967296 : Nat) else ((v % 4294967296 : Nat) : Int) - 4294967296

/-- `struct channel` (without lock and condition variable; `notified`, `blocked` are ghosts: number of `condition_variable_notify_all` calls, 1 = reached `condition_variable_wait`) -/
structure CChannel where
  data : Nat := 0
  capacity : Nat := 0
  head : Nat := 0
  high : Nat := 0
  cycle : Nat := 0
  mapped : Nat := 0
  is_accepting_writes : Nat := 0
  holds_pos : List Nat := []
  holds_cycles : List Nat := []
  holds_n : Nat := 0
  notified : Nat := 0
  blocked : Nat := 0
deriving Repr, DecidableEq

/-- `struct channel_reader` -/
structure CReader where
  id : Nat := 0
  pos : Nat := 0
  cycle : Nat := 0
  status : Nat := 0
  state : Nat := 0
deriving Repr, DecidableEq

def ChannelState_Mapped : Nat := 1
def ChannelState_Unmapped : Nat := 0
def Channel_Error : Nat := 1
def Channel_Expected_Unmapped_Reader : Nat := 2
def Channel_Ok : Nat := 0

/-- `cursor_cmp` (channel.c:12) -/
def cursor_cmp (cycle_a : Nat) (pos_a : Nat) (cycle_b : Nat) (pos_b : Nat) : Int :=
  if (cycle_a < cycle_b) then
    (-(1 : Int))
  else
    if (cycle_a > cycle_b) then
      (1 : Int)
    else
      if (pos_a < pos_b) then
        (-(1 : Int))
      else
        if (pos_a > pos_b) then
          (1 : Int)
        else
          (0 : Int)

/-- `reader_min` (channel.c:26) -/
def reader_min (tails : List Nat) (cycles : List Nat) (n : Nat) : Nat :=
  let mn_tail := (tails.getD 0 0)
  let mn_cycle := (cycles.getD 0 0)
  let argmin := 0
  let (mn_tail, mn_cycle, argmin) := (List.range' 1 (n - 1)).foldl (fun (mn_tail, mn_cycle, argmin) i =>
      if ((cursor_cmp mn_cycle mn_tail (cycles.getD i 0) (tails.getD i 0)) = (1 : Int)) then
        let mn_tail := (tails.getD i 0)
        let mn_cycle := (cycles.getD i 0)
        let argmin := i
        (mn_tail, mn_cycle, argmin)
      else
        (mn_tail, mn_cycle, argmin)) (mn_tail, mn_cycle, argmin)
  argmin

/-- `next_write` (channel.c:47) -/
def next_write (self : CChannel) (nbytes : Nat) (beg : Nat) (should_wrap : Nat) : Nat × Nat × Nat :=
  let should_wrap := 0
  if (self.is_accepting_writes ≠ 0) then
    let argmin := (reader_min self.holds_pos self.holds_cycles self.holds_n)
    let tail := (self.holds_pos.getD argmin 0)
    if (self.head < tail) then
      let beg := self.head
      ((if (nbytes ≤ (tail - self.head)) then 1 else 0), beg, should_wrap)
    else
      if (tail = self.head) then
        if (self.cycle = ((self.holds_cycles.getD argmin 0) + 1)) then
        (0, beg, should_wrap)
        else
        if (nbytes ≤ (self.capacity - self.head)) then
          let beg := self.head
          (1, beg, should_wrap)
        else
          if (nbytes ≤ tail) then
            let beg := 0
            (1, beg, should_wrap)
          else
            if (tail = self.head) then
              let beg := 0
              let should_wrap := 1
              ((if (nbytes < self.capacity) then 1 else 0), beg, should_wrap)
            else
              (0, beg, should_wrap)
      else
        if (nbytes ≤ (self.capacity - self.head)) then
          let beg := self.head
          (1, beg, should_wrap)
        else
          if (nbytes ≤ tail) then
            let beg := 0
            (1, beg, should_wrap)
          else
            if (tail = self.head) then
              let beg := 0
              let should_wrap := 1
              ((if (nbytes < self.capacity) then 1 else 0), beg, should_wrap)
            else
              (0, beg, should_wrap)
  else
    (0, beg, should_wrap)

/-- `reader_initialize` (channel.c:90) -/
def reader_initialize (self : CChannel) (reader : CReader) : Int × CChannel × CReader :=
  if (reader.id > 0) then
    ((1 : Int), self, reader)
  else
    let self := { self with holds_n := self.holds_n + 1 }
    let reader := { reader with id := self.holds_n }
    let self := { self with holds_cycles := self.holds_cycles.set (reader.id - 1) (self.cycle) }
    let self := { self with holds_pos := self.holds_pos.set (reader.id - 1) (0) }
    if (self.holds_n ≥ 8) then
      ((0 : Int), self, reader)
    else
      ((1 : Int), self, reader)

/-- `get_available_byte_count` (channel.c:103) -/
def get_available_byte_count (reader : CReader) (pos : Nat) (cycle : Nat) (high : Nat) : Nat :=
  if (reader.pos = pos) then
    if (reader.cycle = cycle) then
    0
    else
    if (reader.pos = 0) then
      (high - pos)
    else
      (reader.pos - pos)
  else
    if (reader.pos = 0) then
      (high - pos)
    else
      (reader.pos - pos)

/-- `channel_accept_writes` (channel.c:143) -/
def channel_accept_writes (self : CChannel) (tf : Nat) : CChannel :=
  let self := { self with is_accepting_writes := (tf % 256) }
  let self := { self with notified := self.notified + 1 }
  self

/-- `channel_abort_write` (channel.c:156) -/
def channel_abort_write (self : CChannel) : CChannel :=
  if (self.is_accepting_writes ≠ 0) then
    let self := { self with mapped := self.head }
    self
  else
    self

/-- `channel_read_map` (channel.c:166) -/
def channel_read_map (self : CChannel) (reader : CReader) : (Nat × Nat) × CChannel × CReader :=
  let nbytes := 0
  let bookmark_moved := 0
  let (r1_, self, reader) := reader_initialize self reader
  let cycle_ix := ((0 + reader.id) - 1)
  let pos_ix := ((0 + reader.id) - 1)
  let out := (self.data + (self.holds_pos.getD pos_ix 0))
  if (reader.state = ChannelState_Mapped) then
    let reader := { reader with status := Channel_Expected_Unmapped_Reader }
    let out := 0
    let nbytes := 0
    let self := { self with holds_pos := self.holds_pos.set pos_ix (self.head) }
    let self := { self with holds_cycles := self.holds_cycles.set cycle_ix (self.cycle) }
    let bookmark_moved := 1
    if (bookmark_moved ≠ 0) then
      let self := { self with notified := self.notified + 1 }
      ((out, (out + nbytes)), self, reader)
    else
      ((out, (out + nbytes)), self, reader)
  else
    if ((self.holds_pos.getD pos_ix 0) = self.head) then
      if ((self.holds_cycles.getD cycle_ix 0) = self.cycle) then
      if (bookmark_moved ≠ 0) then
        let self := { self with notified := self.notified + 1 }
        ((out, (out + nbytes)), self, reader)
      else
        ((out, (out + nbytes)), self, reader)
      else
      if ((self.holds_pos.getD pos_ix 0) < self.head) then
        if ((self.holds_cycles.getD cycle_ix 0) ≠ self.cycle) then
          let reader := { reader with status := Channel_Error }
          let out := 0
          let nbytes := 0
          let self := { self with holds_pos := self.holds_pos.set pos_ix (self.head) }
          let self := { self with holds_cycles := self.holds_cycles.set cycle_ix (self.cycle) }
          let bookmark_moved := 1
          if (bookmark_moved ≠ 0) then
            let self := { self with notified := self.notified + 1 }
            ((out, (out + nbytes)), self, reader)
          else
            ((out, (out + nbytes)), self, reader)
        else
          let nbytes := (self.head - (self.holds_pos.getD pos_ix 0))
          let reader := { reader with pos := self.head }
          let reader := { reader with cycle := self.cycle }
          if (nbytes ≠ 0) then
            let reader := { reader with state := ChannelState_Mapped }
            if (bookmark_moved ≠ 0) then
              let self := { self with notified := self.notified + 1 }
              ((out, (out + nbytes)), self, reader)
            else
              ((out, (out + nbytes)), self, reader)
          else
            let self := { self with holds_pos := self.holds_pos.set pos_ix (0) }
            let self := { self with holds_cycles := self.holds_cycles.set cycle_ix (self.cycle) }
            let bookmark_moved := 1
            let nbytes := self.head
            if (nbytes ≠ 0) then
              let out := self.data
              let reader := { reader with pos := self.head }
              let reader := { reader with cycle := self.cycle }
              let reader := { reader with state := ChannelState_Mapped }
              if (bookmark_moved ≠ 0) then
                let self := { self with notified := self.notified + 1 }
                ((out, (out + nbytes)), self, reader)
              else
                ((out, (out + nbytes)), self, reader)
            else
              let out := 0
              if (bookmark_moved ≠ 0) then
                let self := { self with notified := self.notified + 1 }
                ((out, (out + nbytes)), self, reader)
              else
                ((out, (out + nbytes)), self, reader)
      else
        if (self.cycle ≠ ((self.holds_cycles.getD cycle_ix 0) + 1)) then
          let reader := { reader with status := Channel_Error }
          let out := 0
          let nbytes := 0
          let self := { self with holds_pos := self.holds_pos.set pos_ix (self.head) }
          let self := { self with holds_cycles := self.holds_cycles.set cycle_ix (self.cycle) }
          let bookmark_moved := 1
          if (bookmark_moved ≠ 0) then
            let self := { self with notified := self.notified + 1 }
            ((out, (out + nbytes)), self, reader)
          else
            ((out, (out + nbytes)), self, reader)
        else
          let nbytes := (self.high - (self.holds_pos.getD pos_ix 0))
          let reader := { reader with pos := 0 }
          let reader := { reader with cycle := ((self.holds_cycles.getD cycle_ix 0) + 1) }
          if (nbytes ≠ 0) then
            let reader := { reader with state := ChannelState_Mapped }
            if (bookmark_moved ≠ 0) then
              let self := { self with notified := self.notified + 1 }
              ((out, (out + nbytes)), self, reader)
            else
              ((out, (out + nbytes)), self, reader)
          else
            let self := { self with holds_pos := self.holds_pos.set pos_ix (0) }
            let self := { self with holds_cycles := self.holds_cycles.set cycle_ix (self.cycle) }
            let bookmark_moved := 1
            let nbytes := self.head
            if (nbytes ≠ 0) then
              let out := self.data
              let reader := { reader with pos := self.head }
              let reader := { reader with cycle := self.cycle }
              let reader := { reader with state := ChannelState_Mapped }
              if (bookmark_moved ≠ 0) then
                let self := { self with notified := self.notified + 1 }
                ((out, (out + nbytes)), self, reader)
              else
                ((out, (out + nbytes)), self, reader)
            else
              let out := 0
              if (bookmark_moved ≠ 0) then
                let self := { self with notified := self.notified + 1 }
                ((out, (out + nbytes)), self, reader)
              else
                ((out, (out + nbytes)), self, reader)
    else
      if ((self.holds_pos.getD pos_ix 0) < self.head) then
        if ((self.holds_cycles.getD cycle_ix 0) ≠ self.cycle) then
          let reader := { reader with status := Channel_Error }
          let out := 0
          let nbytes := 0
          let self := { self with holds_pos := self.holds_pos.set pos_ix (self.head) }
          let self := { self with holds_cycles := self.holds_cycles.set cycle_ix (self.cycle) }
          let bookmark_moved := 1
          if (bookmark_moved ≠ 0) then
            let self := { self with notified := self.notified + 1 }
            ((out, (out + nbytes)), self, reader)
          else
            ((out, (out + nbytes)), self, reader)
        else
          let nbytes := (self.head - (self.holds_pos.getD pos_ix 0))
          let reader := { reader with pos := self.head }
          let reader := { reader with cycle := self.cycle }
          if (nbytes ≠ 0) then
            let reader := { reader with state := ChannelState_Mapped }
            if (bookmark_moved ≠ 0) then
              let self := { self with notified := self.notified + 1 }
              ((out, (out + nbytes)), self, reader)
            else
              ((out, (out + nbytes)), self, reader)
          else
            let self := { self with holds_pos := self.holds_pos.set pos_ix (0) }
            let self := { self with holds_cycles := self.holds_cycles.set cycle_ix (self.cycle) }
            let bookmark_moved := 1
            let nbytes := self.head
            if (nbytes ≠ 0) then
              let out := self.data
              let reader := { reader with pos := self.head }
              let reader := { reader with cycle := self.cycle }
              let reader := { reader with state := ChannelState_Mapped }
              if (bookmark_moved ≠ 0) then
                let self := { self with notified := self.notified + 1 }
                ((out, (out + nbytes)), self, reader)
              else
                ((out, (out + nbytes)), self, reader)
            else
              let out := 0
              if (bookmark_moved ≠ 0) then
                let self := { self with notified := self.notified + 1 }
                ((out, (out + nbytes)), self, reader)
              else
                ((out, (out + nbytes)), self, reader)
      else
        if (self.cycle ≠ ((self.holds_cycles.getD cycle_ix 0) + 1)) then
          let reader := { reader with status := Channel_Error }
          let out := 0
          let nbytes := 0
          let self := { self with holds_pos := self.holds_pos.set pos_ix (self.head) }
          let self := { self with holds_cycles := self.holds_cycles.set cycle_ix (self.cycle) }
          let bookmark_moved := 1
          if (bookmark_moved ≠ 0) then
            let self := { self with notified := self.notified + 1 }
            ((out, (out + nbytes)), self, reader)
          else
            ((out, (out + nbytes)), self, reader)
        else
          let nbytes := (self.high - (self.holds_pos.getD pos_ix 0))
          let reader := { reader with pos := 0 }
          let reader := { reader with cycle := ((self.holds_cycles.getD cycle_ix 0) + 1) }
          if (nbytes ≠ 0) then
            let reader := { reader with state := ChannelState_Mapped }
            if (bookmark_moved ≠ 0) then
              let self := { self with notified := self.notified + 1 }
              ((out, (out + nbytes)), self, reader)
            else
              ((out, (out + nbytes)), self, reader)
          else
            let self := { self with holds_pos := self.holds_pos.set pos_ix (0) }
            let self := { self with holds_cycles := self.holds_cycles.set cycle_ix (self.cycle) }
            let bookmark_moved := 1
            let nbytes := self.head
            if (nbytes ≠ 0) then
              let out := self.data
              let reader := { reader with pos := self.head }
              let reader := { reader with cycle := self.cycle }
              let reader := { reader with state := ChannelState_Mapped }
              if (bookmark_moved ≠ 0) then
                let self := { self with notified := self.notified + 1 }
                ((out, (out + nbytes)), self, reader)
              else
                ((out, (out + nbytes)), self, reader)
            else
              let out := 0
              if (bookmark_moved ≠ 0) then
                let self := { self with notified := self.notified + 1 }
                ((out, (out + nbytes)), self, reader)
              else
                ((out, (out + nbytes)), self, reader)

/-- `channel_read_unmap` (channel.c:241) -/
def channel_read_unmap (self : CChannel) (reader : CReader) (consumed_bytes : Nat) : CChannel × CReader :=
  if (reader.state ≠ ChannelState_Mapped) then
    (self, reader)
  else
    let cycle_ix := ((0 + reader.id) - 1)
    let pos_ix := ((0 + reader.id) - 1)
    let length := (get_available_byte_count reader (self.holds_pos.getD pos_ix 0) (self.holds_cycles.getD cycle_ix 0) self.high)
    let consumed_bytes := (if (length < consumed_bytes) then length else consumed_bytes)
    if (consumed_bytes ≥ length) then
      let self := { self with holds_cycles := self.holds_cycles.set cycle_ix (reader.cycle) }
      let self := { self with holds_pos := self.holds_pos.set pos_ix (reader.pos) }
      if (self.head < (self.holds_pos.getD pos_ix 0)) then
        if ((self.holds_pos.getD pos_ix 0) = self.high) then
        let self := { self with holds_pos := self.holds_pos.set pos_ix (0) }
        let self := { self with holds_cycles := self.holds_cycles.set cycle_ix ((self.holds_cycles.getD cycle_ix 0) + 1) }
        let reader := { reader with state := ChannelState_Unmapped }
        let self := { self with notified := self.notified + 1 }
        (self, reader)
        else
        let reader := { reader with state := ChannelState_Unmapped }
        let self := { self with notified := self.notified + 1 }
        (self, reader)
      else
        let reader := { reader with state := ChannelState_Unmapped }
        let self := { self with notified := self.notified + 1 }
        (self, reader)
    else
      let self := { self with holds_pos := self.holds_pos.set pos_ix ((self.holds_pos.getD pos_ix 0) + consumed_bytes) }
      if (self.head < (self.holds_pos.getD pos_ix 0)) then
        if ((self.holds_pos.getD pos_ix 0) = self.high) then
        let self := { self with holds_pos := self.holds_pos.set pos_ix (0) }
        let self := { self with holds_cycles := self.holds_cycles.set cycle_ix ((self.holds_cycles.getD cycle_ix 0) + 1) }
        let reader := { reader with state := ChannelState_Unmapped }
        let self := { self with notified := self.notified + 1 }
        (self, reader)
        else
        let reader := { reader with state := ChannelState_Unmapped }
        let self := { self with notified := self.notified + 1 }
        (self, reader)
      else
        let reader := { reader with state := ChannelState_Unmapped }
        let self := { self with notified := self.notified + 1 }
        (self, reader)

/-- `channel_write_map` (channel.c:270) -/
def channel_write_map (self : CChannel) (nbytes : Nat) : Nat × CChannel :=
  let out := 0
  if (nbytes ≥ self.capacity) then
    (0, self)
  else
    let beg := 0 -- (uninitialised in the C)
    let end_ := 0 -- (uninitialised in the C)
    if (self.holds_n ≠ 0) then
      let should_wrap := 0
      if (((self.is_accepting_writes : Nat) : Int) ≠ 0) then
        let (r1_, beg, should_wrap) := next_write self nbytes beg should_wrap
        if (r1_ ≠ 0) then
        if (self.is_accepting_writes ≠ 0) then
          let end_ := (beg + nbytes)
          if (beg ≠ self.head) then
            let self := { self with high := self.head }
            let self := { self with head := beg }
            let self := { self with cycle := self.cycle + 1 }
            if (should_wrap ≠ 0) then
              let self := (List.range' 0 (self.holds_n - 0)).foldl (fun self i =>
                  let self := { self with holds_pos := self.holds_pos.set i (0) }
                  let self := { self with holds_cycles := self.holds_cycles.set i (self.cycle) }
                  self) self
              let out := (self.data + beg)
              let self := { self with mapped := end_ }
              (out, self)
            else
              let out := (self.data + beg)
              let self := { self with mapped := end_ }
              (out, self)
          else
            if (should_wrap ≠ 0) then
              let self := (List.range' 0 (self.holds_n - 0)).foldl (fun self i =>
                  let self := { self with holds_pos := self.holds_pos.set i (0) }
                  let self := { self with holds_cycles := self.holds_cycles.set i (self.cycle) }
                  self) self
              let out := (self.data + beg)
              let self := { self with mapped := end_ }
              (out, self)
            else
              let out := (self.data + beg)
              let self := { self with mapped := end_ }
              (out, self)
        else
          (out, self)
        else
        let self := { self with blocked := 1 }
        (0, self)
      else
        if (self.is_accepting_writes ≠ 0) then
          let end_ := (beg + nbytes)
          if (beg ≠ self.head) then
            let self := { self with high := self.head }
            let self := { self with head := beg }
            let self := { self with cycle := self.cycle + 1 }
            if (should_wrap ≠ 0) then
              let self := (List.range' 0 (self.holds_n - 0)).foldl (fun self i =>
                  let self := { self with holds_pos := self.holds_pos.set i (0) }
                  let self := { self with holds_cycles := self.holds_cycles.set i (self.cycle) }
                  self) self
              let out := (self.data + beg)
              let self := { self with mapped := end_ }
              (out, self)
            else
              let out := (self.data + beg)
              let self := { self with mapped := end_ }
              (out, self)
          else
            if (should_wrap ≠ 0) then
              let self := (List.range' 0 (self.holds_n - 0)).foldl (fun self i =>
                  let self := { self with holds_pos := self.holds_pos.set i (0) }
                  let self := { self with holds_cycles := self.holds_cycles.set i (self.cycle) }
                  self) self
              let out := (self.data + beg)
              let self := { self with mapped := end_ }
              (out, self)
            else
              let out := (self.data + beg)
              let self := { self with mapped := end_ }
              (out, self)
        else
          (out, self)
    else
      let beg := self.head
      let end_ := (self.head + nbytes)
      if (end_ ≥ self.capacity) then
        let self := { self with high := self.head }
        let self := { self with cycle := self.cycle + 1 }
        let beg := 0
        let self := { self with head := beg }
        let end_ := nbytes
        let out := (self.data + beg)
        let self := { self with mapped := end_ }
        (out, self)
      else
        let out := (self.data + beg)
        let self := { self with mapped := end_ }
        (out, self)

/-- `channel_write_unmap` (channel.c:318) -/
def channel_write_unmap (self : CChannel) : CChannel :=
  if (self.is_accepting_writes ≠ 0) then
    let self := { self with head := self.mapped }
    self
  else
    self

/-- functions of channel.c the translator does not express (not used by the equivalence theorems) -/
def untranslated : List String := ["channel_new", "channel_release"]
-- channel_new: dereference
-- channel_release: call of memory_free

end AcqVerif.Generated.ChannelC
