import AcqVerif.Control.Lifecycle
/-!
# Invariants of M2

`Inv0`: every open device sits in the slot its pool assigns it to and is the latest instance of its device, and per device
instance the log so far drives the life-cycle automaton into the phase the state says (`phaseOf`): never opened / open with the
handle's HAL state / closed.  `NR`: no device is Running.  `RV`: a Running device belongs to a valid stream.
Each HAL primitive preserves `Inv0` under a local precondition; the API calls are compositions of primitives.
-/
namespace AcqVerif.Control

def phaseOf (P : Pools) (st : State) (d : Dev) (n : Nat) : Phase :=
  if n = 0 ∨ st.opens d < n then .fresh
  else match st.slot (P.owner d) (P.kind d) with
    | some h => if h.dev = d ∧ h.inst = n then .opened h.hal else .closed
    | none => .closed

structure Inv0 (P : Pools) (st : State) : Prop where
  own : ∀ i k h, st.slot i k = some h → P.owner h.dev = i ∧ P.kind h.dev = k ∧ h.inst = st.opens h.dev ∧ 0 < h.inst
  life : ∀ d n, runA .fresh (proj st.log d n) = some (phaseOf P st d n)

def NR (st : State) : Prop := ∀ i k h, st.slot i k = some h → h.hal ≠ .running
def RV (st : State) : Prop := ∀ i k h, st.slot i k = some h → h.hal = .running → st.valid i = true

theorem life_step (P : Pools) (st st' : State) (e : Event) (hl : st'.log = st.log ++ [e])
    (h0 : ∀ d n, runA .fresh (proj st.log d n) = some (phaseOf P st d n))
    (hs : stepA (phaseOf P st e.dev e.inst) e.act = some (phaseOf P st' e.dev e.inst))
    (ho : ∀ d n, ¬ (e.dev = d ∧ e.inst = n) → phaseOf P st' d n = phaseOf P st d n) :
    ∀ d n, runA .fresh (proj st'.log d n) = some (phaseOf P st' d n) := by
  intro d n
  rw [hl, proj_append, runA_append, h0 d n, proj_single]
  by_cases h : e.dev = d ∧ e.inst = n
  · obtain ⟨rfl, rfl⟩ := h
    simp [runA_single, hs]
  · simp [h, runA, ho d n h]

theorem stepA_close_ok {h : Hal} (hr : h ≠ .running) : stepA (.opened h) .close = some .closed := by
  cases h <;> simp_all [stepA]
theorem stepA_set_ok {h : Hal} (hr : h ≠ .running) : stepA (.opened h) .set = some (.opened .armed) := by
  cases h <;> simp_all [stepA]

theorem drvClose_inv0 {P : Pools} {st : State} {i : Sid} {k : Kind} (h0 : Inv0 P st)
    (hnr : ∀ h, st.slot i k = some h → h.hal ≠ .running) : Inv0 P (drvClose st i k) := by
  unfold drvClose
  cases hs : st.slot i k with
  | none => exact h0
  | some h =>
    have ho := h0.own i k h hs
    have hr := hnr h hs
    constructor
    · intro i' k' h' hs'
      simp only [setH, emit] at hs' ⊢
      split at hs'
      · cases hs'
      · exact h0.own _ _ _ hs'
    · apply life_step P st _ ⟨h.dev, h.inst, .close⟩ rfl h0.life
      · simp only [phaseOf, setH, emit]
        grind [stepA_close_ok]
      · intro d n hne
        simp only [phaseOf, setH, emit]
        grind

theorem halStop_inv0 {P : Pools} {st : State} {i : Sid} {k : Kind} (h0 : Inv0 P st) : Inv0 P (halStop st i k) := by
  unfold halStop
  cases hs : st.slot i k with
  | none => exact h0
  | some h =>
    have ho := h0.own i k h hs
    simp only []
    split
    · rename_i hr
      constructor
      · intro i' k' h' hs'
        simp only [setH, emit] at hs' ⊢
        split at hs'
        · cases hs'; grind
        · exact h0.own _ _ _ hs'
      · apply life_step P st _ ⟨h.dev, h.inst, .stop⟩ rfl h0.life
        · simp only [phaseOf, setH, emit]
          grind [stepA]
        · intro d n hne
          simp only [phaseOf, setH, emit]
          grind
    · exact h0

theorem halOpen_inv0 {P : Pools} {st : State} {i : Sid} {k : Kind} {d : Dev} (h0 : Inv0 P st)
    (hn : st.slot i k = none) (hi : P.owner d = i) (hk : P.kind d = k) : Inv0 P (halOpen st i k d) := by
  unfold halOpen
  split
  · constructor
    · intro i' k' h' hs'
      exact h0.own _ _ _ hs'
    · apply life_step P st _ ⟨d, st.opens d + 1, .openFail⟩ rfl h0.life
      · simp only [phaseOf, emit]
        grind [stepA]
      · intro d' n hne
        rfl
  · constructor
    · intro i' k' h' hs'
      simp only [setH, emit, upd] at hs' ⊢
      split at hs'
      · cases hs'; grind
      · have := h0.own _ _ _ hs'
        grind
    · apply life_step P st _ ⟨d, st.opens d + 1, .open⟩ rfl h0.life
      · simp only [phaseOf, setH, emit, upd]
        grind [stepA]
      · intro d' n hne
        have hown := h0.own
        simp only [phaseOf, setH, emit, upd]
        grind

theorem halSet_inv0 {P : Pools} {st : State} {i : Sid} {k : Kind} (h0 : Inv0 P st)
    (hnr : ∀ h, st.slot i k = some h → h.hal ≠ .running) : Inv0 P (halSet st i k) := by
  unfold halSet
  cases hs : st.slot i k with
  | none => exact h0
  | some h =>
    have ho := h0.own i k h hs
    have hr := hnr h hs
    constructor
    · intro i' k' h' hs'
      simp only [setH, emit] at hs' ⊢
      split at hs'
      · cases hs'; grind
      · exact h0.own _ _ _ hs'
    · apply life_step P st _ ⟨h.dev, h.inst, .set⟩ rfl h0.life
      · simp only [phaseOf, setH, emit]
        cases k <;> grind [stepA_set_ok]
      · intro d n hne
        simp only [phaseOf, setH, emit]
        grind

theorem videoSinkStart_inv0 {P : Pools} {st : State} {i : Sid} (h0 : Inv0 P st) : Inv0 P (videoSinkStart st i).1 := by
  unfold videoSinkStart
  cases hs : st.slot i .sto with
  | none => exact h0
  | some h =>
    have ho := h0.own i .sto h hs
    simp only []
    split
    · rename_i hr
      constructor
      · intro i' k' h' hs'
        simp only [setH, emit] at hs' ⊢
        split at hs'
        · cases hs'; grind
        · exact h0.own _ _ _ hs'
      · apply life_step P st _ ⟨h.dev, h.inst, .start⟩ rfl h0.life
        · simp only [phaseOf, setH, emit]
          grind [stepA]
        · intro d n hne
          simp only [phaseOf, setH, emit]
          grind
    · exact h0

theorem videoSourceStart_inv0 {P : Pools} {st : State} {i : Sid} (h0 : Inv0 P st) : Inv0 P (videoSourceStart st i).1 := by
  unfold videoSourceStart
  cases hs : st.slot i .cam with
  | none => exact h0
  | some h =>
    have ho := h0.own i .cam h hs
    simp only []
    split
    · rename_i hr
      split
      · constructor
        · intro i' k' h' hs'
          simp only [setH, emit] at hs' ⊢
          split at hs'
          · cases hs'; grind
          · exact h0.own _ _ _ hs'
        · apply life_step P st _ ⟨h.dev, h.inst, .startFail⟩ rfl h0.life
          · simp only [phaseOf, setH, emit]
            grind [stepA]
          · intro d n hne
            simp only [phaseOf, setH, emit]
            grind
      · constructor
        · intro i' k' h' hs'
          simp only [setH, emit] at hs' ⊢
          split at hs'
          · cases hs'; grind
          · exact h0.own _ _ _ hs'
        · apply life_step P st _ ⟨h.dev, h.inst, .start⟩ rfl h0.life
          · simp only [phaseOf, setH, emit]
            grind [stepA]
          · intro d n hne
            simp only [phaseOf, setH, emit]
            grind
    · exact h0

/-- `Inv0` looks at the slots, the instance counters and the log only -/
theorem Inv0.of_eq {P : Pools} {st st' : State} (h0 : Inv0 P st) (hs : st'.slot = st.slot) (ho : st'.opens = st.opens)
    (hl : st'.log = st.log) : Inv0 P st' := by
  have hp : ∀ d n, phaseOf P st' d n = phaseOf P st d n := by
    intro d n; simp only [phaseOf, hs, ho]
  constructor
  · intro i k h hh
    rw [hs] at hh
    rw [ho]
    exact h0.own i k h hh
  · intro d n
    rw [hl, hp]
    exact h0.life d n

theorem NR.of_eq {st st' : State} (h : NR st) (hs : st'.slot = st.slot) : NR st' := by
  intro i k hh e; rw [hs] at e; exact h i k hh e

/-! ### what the primitives do to the slots -/

def stopH (h : Handle) : Handle := if h.hal = .running then { h with hal := .armed } else h

theorem stopH_not_running (h : Handle) : (stopH h).hal ≠ .running := by
  unfold stopH; split <;> simp_all

theorem halStop_slot (st : State) (i : Sid) (k : Kind) (i' : Sid) (k' : Kind) :
    (halStop st i k).slot i' k' = if i' = i ∧ k' = k then (st.slot i k).map stopH else st.slot i' k' := by
  unfold halStop
  cases hs : st.slot i k with
  | none => simp only []; split <;> simp_all
  | some h =>
    simp only []
    split
    · simp only [setH, emit]
      split
      · simp [stopH, *]
      · rfl
    · split
      · rename_i hh; obtain ⟨rfl, rfl⟩ := hh; simp [stopH, *]
      · rfl

@[simp] theorem halStop_valid (st : State) (i : Sid) (k : Kind) : (halStop st i k).valid = st.valid := by
  unfold halStop; split
  · rfl
  · split <;> rfl

@[simp] theorem halStop_rstate (st : State) (i : Sid) (k : Kind) : (halStop st i k).rstate = st.rstate := by
  unfold halStop; split
  · rfl
  · split <;> rfl

theorem drvClose_slot (st : State) (i : Sid) (k : Kind) (i' : Sid) (k' : Kind) :
    (drvClose st i k).slot i' k' = if i' = i ∧ k' = k then none else st.slot i' k' := by
  unfold drvClose
  cases hs : st.slot i k with
  | none => simp only []; split <;> simp_all
  | some h => simp only [setH, emit]

theorem halClose_slot (st : State) (i : Sid) (k : Kind) (i' : Sid) (k' : Kind) :
    (halClose st i k).slot i' k' = if i' = i ∧ k' = k then none else st.slot i' k' := by
  unfold halClose
  cases k with
  | cam => simp only [drvClose_slot]
  | sto => simp only [drvClose_slot, halStop_slot]; split <;> simp_all

@[simp] theorem drvClose_valid (st : State) (i : Sid) (k : Kind) : (drvClose st i k).valid = st.valid := by
  unfold drvClose; split <;> rfl
@[simp] theorem drvClose_rstate (st : State) (i : Sid) (k : Kind) : (drvClose st i k).rstate = st.rstate := by
  unfold drvClose; split <;> rfl
@[simp] theorem halClose_valid (st : State) (i : Sid) (k : Kind) : (halClose st i k).valid = st.valid := by
  unfold halClose; cases k <;> simp
@[simp] theorem halClose_rstate (st : State) (i : Sid) (k : Kind) : (halClose st i k).rstate = st.rstate := by
  unfold halClose; cases k <;> simp

/-! ### winding down -/

theorem windDownStream_slot (st : State) (i i' : Sid) (k' : Kind) :
    (windDownStream st i).slot i' k' = if st.valid i = true ∧ i' = i then (st.slot i' k').map stopH else st.slot i' k' := by
  unfold windDownStream
  split
  · simp only [halStop_slot]
    cases k' <;> cases i <;> cases i' <;> simp_all
  · simp_all

@[simp] theorem windDownStream_valid (st : State) (i : Sid) : (windDownStream st i).valid = st.valid := by
  unfold windDownStream; split <;> simp
@[simp] theorem windDownStream_rstate (st : State) (i : Sid) : (windDownStream st i).rstate = st.rstate := by
  unfold windDownStream; split <;> simp

theorem windDown_slot (st : State) (i' : Sid) (k' : Kind) :
    (windDown st).slot i' k' = if st.valid i' = true then (st.slot i' k').map stopH else st.slot i' k' := by
  unfold windDown
  simp only [windDownStream_slot, windDownStream_valid]
  cases i' <;> simp

@[simp] theorem windDown_valid (st : State) : (windDown st).valid = st.valid := by unfold windDown; simp
@[simp] theorem windDown_rstate (st : State) : (windDown st).rstate = st.rstate := by unfold windDown; simp

theorem windDownStream_inv0 {P : Pools} {st : State} {i : Sid} (h0 : Inv0 P st) : Inv0 P (windDownStream st i) := by
  unfold windDownStream; split
  · exact halStop_inv0 (halStop_inv0 h0)
  · exact h0

theorem windDown_inv0 {P : Pools} {st : State} (h0 : Inv0 P st) : Inv0 P (windDown st) :=
  windDownStream_inv0 (windDownStream_inv0 h0)

/-- the workers of the valid streams have stopped their devices; no other device was running -/
theorem windDown_nr {st : State} (hrv : RV st) : NR (windDown st) := by
  intro i k h hs
  rw [windDown_slot] at hs
  split at hs
  · cases hh : st.slot i k with
    | none => simp [hh] at hs
    | some h0 => simp [hh] at hs; subst hs; exact stopH_not_running h0
  · rename_i hv
    intro hr
    exact hv (hrv i k h hs hr)

theorem halStop_nr {st : State} {i : Sid} {k : Kind} (h : NR st) : NR (halStop st i k) := by
  intro i' k' hh hs
  rw [halStop_slot] at hs
  split at hs
  · cases e : st.slot i k with
    | none => simp [e] at hs
    | some h0 => simp [e] at hs; subst hs; exact stopH_not_running h0
  · exact h _ _ _ hs

theorem halClose_nr {st : State} {i : Sid} {k : Kind} (h : NR st) : NR (halClose st i k) := by
  intro i' k' hh hs
  rw [halClose_slot] at hs
  split at hs
  · cases hs
  · exact h _ _ _ hs

/-! ### quiescent states: nothing is running (configure, shutdown) -/

def Q (P : Pools) (st : State) : Prop := Inv0 P st ∧ NR st

theorem halClose_q {P : Pools} {st : State} {i : Sid} {k : Kind} (h : Q P st) : Q P (halClose st i k) := by
  refine ⟨?_, halClose_nr h.2⟩
  unfold halClose
  cases k with
  | cam => exact drvClose_inv0 h.1 (fun hh e => h.2 _ _ hh e)
  | sto => exact drvClose_inv0 (halStop_inv0 h.1) (fun hh e => halStop_nr h.2 _ _ hh e)

theorem halOpen_nr {st : State} {i : Sid} {k : Kind} {d : Dev} (h : NR st) : NR (halOpen st i k d) := by
  intro i' k' hh hs
  unfold halOpen at hs
  split at hs
  · exact h _ _ _ hs
  · simp only [setH, emit] at hs
    split at hs
    · cases hs; simp
    · exact h _ _ _ hs

theorem halSet_nr {st : State} {i : Sid} {k : Kind} (h : NR st) : NR (halSet st i k) := by
  intro i' k' hh hs
  unfold halSet at hs
  cases e : st.slot i k with
  | none => simp only [e] at hs; exact h _ _ _ hs
  | some h0 =>
    simp only [e, setH, emit] at hs
    split at hs
    · cases hs
      have := h _ _ _ e
      cases k <;> simp_all
    · exact h _ _ _ hs

theorem halSet_q {P : Pools} {st : State} {i : Sid} {k : Kind} (h : Q P st) : Q P (halSet st i k) :=
  ⟨halSet_inv0 h.1 (fun hh e => h.2 _ _ hh e), halSet_nr h.2⟩

theorem closeIfOther_q {P : Pools} {st : State} {i : Sid} {k : Kind} {id : Dev} (h : Q P st) : Q P (closeIfOther st i k id) := by
  unfold closeIfOther
  split
  · exact h
  · split
    · exact h
    · exact halClose_q h

/-- after the close-on-identifier-change the slot is empty or holds the requested device -/
theorem closeIfOther_slot (st : State) (i : Sid) (k : Kind) (id : Dev) :
    (closeIfOther st i k id).slot i k = none ∨ ∃ h, (closeIfOther st i k id).slot i k = some h ∧ h.dev = id := by
  unfold closeIfOther
  cases e : st.slot i k with
  | none => simp [e]
  | some h =>
    simp only []
    split
    · rename_i hd; exact Or.inr ⟨h, e, hd⟩
    · left; rw [halClose_slot]; simp

theorem openIfNone_q {P : Pools} {st : State} {i : Sid} {k : Kind} {id : Dev} (h : Q P st) (hi : P.owner id = i)
    (hk : P.kind id = k) : Q P (openIfNone st i k id) := by
  unfold openIfNone
  cases e : st.slot i k with
  | none => exact ⟨halOpen_inv0 h.1 e hi hk, halOpen_nr h.2⟩
  | some h0 => exact h

theorem deviceConfigure_q {P : Pools} {st : State} {i : Sid} {k : Kind} {id : Dev} (h : Q P st) (hi : P.owner id = i)
    (hk : P.kind id = k) : Q P (deviceConfigure st i k id) :=
  halSet_q (openIfNone_q (closeIfOther_q h) hi hk)

theorem configureVideoStream_q {P : Pools} {st : State} {i : Sid} {c s : Dev} (h : Q P st)
    (hc : P.owner c = i ∧ P.kind c = .cam) (hs : P.owner s = i ∧ P.kind s = .sto) : Q P (configureVideoStream st i c s) :=
  deviceConfigure_q (deviceConfigure_q h hc.1 hc.2) hs.1 hs.2

theorem Q.of_eq {P : Pools} {st st' : State} (h : Q P st) (hs : st'.slot = st.slot) (ho : st'.opens = st.opens)
    (hl : st'.log = st.log) : Q P st' := ⟨h.1.of_eq hs ho hl, h.2.of_eq hs⟩

theorem configureOne_q {P : Pools} {st : State} {i : Sid} {cfg : Option (Dev × Dev)} (h : Q P st) (hc : cfgOk P i cfg = true) :
    Q P (configureOne st i cfg) := by
  unfold configureOne
  cases cfg with
  | none => exact h
  | some cs =>
    obtain ⟨c, s⟩ := cs
    simp only [cfgOk, Bool.and_eq_true, decide_eq_true_eq] at hc
    exact (configureVideoStream_q h ⟨hc.1.1.1, hc.1.1.2⟩ ⟨hc.1.2, hc.2⟩).of_eq rfl rfl rfl

theorem configureAll_q {P : Pools} {st : State} {c0 c1 : Option (Dev × Dev)} (h : Q P st) (h0 : cfgOk P .s0 c0 = true)
    (h1 : cfgOk P .s1 c1 = true) : Q P (configureAll st c0 c1) := by
  unfold configureAll
  exact configureOne_q (configureOne_q (h.of_eq rfl rfl rfl) h0) h1

theorem windDown_q {P : Pools} {st : State} (h : Q P st) : Q P (windDown st) :=
  ⟨windDown_inv0 h.1, windDown_nr (fun i k hh e r => absurd r (h.2 i k hh e))⟩

/-! ### the invariant between API calls -/

structure Inv (P : Pools) (st : State) : Prop where
  inv0 : Inv0 P st
  rv : RV st
  nr : st.rstate ≠ .running → NR st
  cl : st.rstate = .closed → ∀ i k, st.slot i k = none

theorem NR.rv {st : State} (h : NR st) : RV st := fun i k hh e r => absurd r (h i k hh e)

theorem Inv.ofQ {P : Pools} {st : State} (h : Q P st) (hc : st.rstate ≠ .closed) : Inv P st :=
  ⟨h.1, h.2.rv, fun _ => h.2, fun e => absurd e hc⟩

theorem init_inv (P : Pools) (orc : Oracle) : Inv P (init orc) := by
  refine ⟨⟨?_, ?_⟩, ?_, ?_, ?_⟩
  · intro i k h hs; simp [init] at hs
  · intro d n
    simp only [init, proj, List.filter_nil, List.map_nil, runA, phaseOf]
    have : n = 0 ∨ 0 < n := by omega
    simp [this]
  · intro i k h hs; simp [init] at hs
  · intro _ i k h hs; simp [init] at hs
  · intro h; simp [init] at h

theorem acquireStop_q {P : Pools} {st : State} (h0 : Inv0 P st) (hrv : RV st) : Q P (acquireStop st) :=
  (show Q P (windDown st) from ⟨windDown_inv0 h0, windDown_nr hrv⟩).of_eq rfl rfl rfl

theorem camStopValid_q {P : Pools} {st : State} {i : Sid} (h : Q P st) : Q P (camStopValid st i) := by
  unfold camStopValid; split
  · exact ⟨halStop_inv0 h.1, halStop_nr h.2⟩
  · exact h

theorem startError_q {P : Pools} {st : State} (h0 : Inv0 P st) (hrv : RV st) : Q P (startError st) := by
  unfold startError
  exact (camStopValid_q (camStopValid_q (acquireStop_q h0 hrv))).of_eq rfl rfl rfl

theorem startError_rstate (st : State) : (startError st).rstate = .awaiting := rfl

theorem videoSinkStart_rv {st : State} {i : Sid} (hv : st.valid i = true) (h : RV st) : RV (videoSinkStart st i).1 := by
  unfold videoSinkStart
  cases e : st.slot i .sto with
  | none => exact h
  | some h0 =>
    simp only []
    split
    · intro i' k' hh hs hr
      simp only [setH, emit] at hs ⊢
      split at hs
      · rename_i c; rw [c.1]; exact hv
      · exact h _ _ _ hs hr
    · exact h

theorem videoSourceStart_rv {st : State} {i : Sid} (hv : st.valid i = true) (h : RV st) : RV (videoSourceStart st i).1 := by
  unfold videoSourceStart
  cases e : st.slot i .cam with
  | none => exact h
  | some h0 =>
    simp only []
    split
    · split
      · intro i' k' hh hs hr
        simp only [setH, emit] at hs ⊢
        split at hs
        · rename_i c; rw [c.1]; exact hv
        · exact h _ _ _ hs hr
      · intro i' k' hh hs hr
        simp only [setH, emit] at hs ⊢
        split at hs
        · rename_i c; rw [c.1]; exact hv
        · exact h _ _ _ hs hr
    · exact h

theorem videoSinkStart_valid (st : State) (i : Sid) : (videoSinkStart st i).1.valid = st.valid := by
  unfold videoSinkStart; split
  · rfl
  · split <;> rfl

theorem startStream_inv0 {P : Pools} {st : State} {i : Sid} (h0 : Inv0 P st) : Inv0 P (startStream st i).1 := by
  unfold startStream
  split
  · have h1 : Inv0 P (videoSinkStart st i).1 := videoSinkStart_inv0 h0
    split
    · rename_i st1 e; rw [e] at h1; exact videoSourceStart_inv0 h1
    · rename_i st1 e; rw [e] at h1; exact h1
  · exact h0

theorem startStream_rv {st : State} {i : Sid} (h : RV st) : RV (startStream st i).1 := by
  unfold startStream
  split
  · rename_i hv
    have h1 : RV (videoSinkStart st i).1 := videoSinkStart_rv hv h
    have h2 : (videoSinkStart st i).1.valid = st.valid := videoSinkStart_valid st i
    split
    · rename_i st1 e; rw [e] at h1 h2; simp only at h1 h2
      exact videoSourceStart_rv (by rw [h2]; exact hv) h1
    · rename_i st1 e; rw [e] at h1; exact h1
  · exact h

theorem acquireGetState_inv {P : Pools} {st : State} (fin : Bool) (h : Inv P st) (hc : st.rstate ≠ .closed) :
    Inv P (acquireGetState st fin) ∧ (acquireGetState st fin).rstate ≠ .closed := by
  unfold acquireGetState
  split
  · exact ⟨Inv.ofQ ((show Q P (windDown st) from ⟨windDown_inv0 h.inv0, windDown_nr h.rv⟩).of_eq rfl rfl rfl) (by simp), by simp⟩
  · exact ⟨h, hc⟩

theorem acquireStart_inv {P : Pools} {st : State} (fin : Bool) (h : Inv P st) (hc : st.rstate ≠ .closed) :
    Inv P (acquireStart st fin).1 ∧ (acquireStart st fin).1.rstate ≠ .closed := by
  unfold acquireStart
  split
  · exact ⟨Inv.ofQ (startError_q h.inv0 h.rv) (by simp [startError_rstate]), by simp [startError_rstate]⟩
  · have hg := acquireGetState_inv fin h hc
    split
    · exact hg
    · have a0 : Inv0 P (startStream (acquireGetState st fin) .s0).1 := startStream_inv0 hg.1.inv0
      have r0 : RV (startStream (acquireGetState st fin) .s0).1 := startStream_rv hg.1.rv
      split
      · rename_i st1 e; rw [e] at a0 r0
        exact ⟨Inv.ofQ (startError_q a0 r0) (by simp [startError_rstate]), by simp [startError_rstate]⟩
      · rename_i st1 e; rw [e] at a0 r0; simp only at a0 r0
        have a1 : Inv0 P (startStream st1 .s1).1 := startStream_inv0 a0
        have r1 : RV (startStream st1 .s1).1 := startStream_rv r0
        split
        · rename_i st2 e2; rw [e2] at a1 r1
          exact ⟨Inv.ofQ (startError_q a1 r1) (by simp [startError_rstate]), by simp [startError_rstate]⟩
        · rename_i st2 e2; rw [e2] at a1 r1; simp only at a1 r1
          refine ⟨⟨a1.of_eq rfl rfl rfl, fun i k hh e r => r1 i k hh e r, fun x => absurd rfl x, fun x => by simp at x⟩, by simp⟩

theorem configureFinish_inv {P : Pools} {old : RState} {st : State} (h : Q P st) (ho : old ≠ .running) :
    Inv P (configureFinish old st) ∧ (configureFinish old st).rstate ≠ .closed ∧ (configureFinish old st).rstate ≠ .running := by
  unfold configureFinish
  split
  · exact ⟨Inv.ofQ (h.of_eq rfl rfl rfl) (by simp), by simp, by simp⟩
  · exact ⟨Inv.ofQ ((acquireStop_q h.1 h.2.rv).of_eq rfl rfl rfl) (by simp), by simp, by simp⟩

theorem acquireConfigure_inv {P : Pools} {st : State} {c0 c1 : Option (Dev × Dev)} (h : Inv P st) (hr : st.rstate ≠ .running)
    (h0 : cfgOk P .s0 c0 = true) (h1 : cfgOk P .s1 c1 = true) :
    Inv P (acquireConfigure st c0 c1) ∧ (acquireConfigure st c0 c1).rstate ≠ .closed := by
  unfold acquireConfigure
  have := configureFinish_inv (configureAll_q (show Q P st from ⟨h.inv0, h.nr hr⟩) h0 h1) hr
  exact ⟨this.1, this.2.1⟩

theorem acquireShutdown_slot (st : State) (i : Sid) (k : Kind) : (acquireShutdown st).slot i k = none := by
  unfold acquireShutdown destroyStream
  simp only [halClose_slot]
  cases i <;> cases k <;> simp

theorem destroyStream_q {P : Pools} {st : State} {i : Sid} (h : Q P st) : Q P (destroyStream st i) :=
  halClose_q (halClose_q h)

theorem acquireShutdown_inv {P : Pools} {st : State} (h : Inv P st) : Inv P (acquireShutdown st) := by
  have q : Q P (destroyStream (destroyStream (acquireAbort st) .s0) .s1) :=
    destroyStream_q (destroyStream_q (acquireStop_q h.inv0 h.rv))
  have q' : Q P (acquireShutdown st) := q.of_eq rfl rfl rfl
  exact ⟨q'.1, q'.2.rv, fun _ => q'.2, fun _ i k => acquireShutdown_slot st i k⟩

theorem acquireShutdown_rstate (st : State) : (acquireShutdown st).rstate = .closed := rfl

/-- one API call preserves the invariant -/
theorem step_inv {P : Pools} {st : State} (op : Op) (h : Inv P st) : Inv P (step P st op).1 := by
  unfold step
  split
  · rename_i hg
    cases op with
    | configure c0 c1 =>
      simp only [guard, Bool.and_eq_true, bne_iff_ne, ne_eq] at hg
      exact (acquireConfigure_inv h hg.1.1.2 hg.1.2 hg.2).1
    | start fin =>
      simp only [guard, bne_iff_ne, ne_eq] at hg
      exact (acquireStart_inv fin h hg).1
    | stop => exact Inv.ofQ (acquireStop_q h.inv0 h.rv) (by simp [api, acquireStop])
    | abort => exact Inv.ofQ (acquireStop_q h.inv0 h.rv) (by simp [api, acquireAbort, acquireStop])
    | trigger i => exact h
    | state fin =>
      simp only [guard, bne_iff_ne, ne_eq] at hg
      exact (acquireGetState_inv fin h hg).1
    | shutdown => exact acquireShutdown_inv h
  · exact h

theorem run_inv {P : Pools} {st : State} (prog : List Op) (h : Inv P st) : Inv P (run P st prog) := by
  induction prog generalizing st with
  | nil => exact h
  | cons op rest ih => exact ih (step_inv op h)

theorem run_append (P : Pools) (st : State) (p q : List Op) : run P st (p ++ q) = run P (run P st p) q := by
  induction p generalizing st with
  | nil => rfl
  | cons op rest ih => simp only [List.cons_append, run]; exact ih _

/-- once shut down, every call is a usage error and is skipped -/
theorem run_closed (P : Pools) (st : State) (prog : List Op) (h : st.rstate = .closed) : run P st prog = st := by
  induction prog with
  | nil => rfl
  | cons op rest ih =>
    have : step P st op = (st, .illformed) := by
      unfold step
      cases op <;> simp [guard, h]
    simp only [run, this]
    exact ih

theorem NR.phase {P : Pools} {st : State} (h : NR st) (d : Dev) (n : Nat) : phaseOf P st d n ≠ .opened .running := by
  unfold phaseOf
  split
  · simp
  · split
    · rename_i hh e
      split
      · intro c; injection c with c; exact h _ _ _ e c
      · simp
    · simp

/-- with every slot empty an instance is either still to be opened or closed -/
theorem phaseOf_no_slots {P : Pools} {st : State} (h : ∀ i k, st.slot i k = none) (d : Dev) (n : Nat) :
    phaseOf P st d n = .fresh ∨ phaseOf P st d n = .closed := by
  unfold phaseOf
  split
  · exact Or.inl rfl
  · rw [h]; exact Or.inr rfl

/-- `Running` is entered only by a successful `acquire_start` -/
theorem step_running {P : Pools} {st : State} {op : Op} (h : (step P st op).1.rstate = .running) :
    st.rstate = .running ∨ ∃ fin, op = .start fin ∧ (step P st op).2 = .ok := by
  unfold step at h ⊢
  split at h
  · rename_i hg
    simp only [hg, if_true]
    cases op with
    | configure c0 c1 =>
      simp only [guard, Bool.and_eq_true, bne_iff_ne, ne_eq] at hg
      simp only [api, acquireConfigure] at h
      unfold configureFinish at h
      split at h
      · simp [hg.1.1.2] at h
      · simp at h
    | start fin =>
      simp only [api] at h ⊢
      unfold acquireStart at h ⊢
      split
      · rename_i c; simp [c, startError_rstate] at h
      · rename_i c
        simp only [c] at h
        split
        · rename_i c2
          left
          unfold acquireGetState at c2
          split at c2
          · simp at c2
          · exact c2
        · rename_i c2
          simp only [c2, if_false] at h
          split
          · rename_i st1 e; simp [e, startError_rstate] at h
          · rename_i st1 e
            simp only [e] at h
            split
            · rename_i st2 e2; simp [e2, startError_rstate] at h
            · right; exact ⟨fin, rfl, rfl⟩
    | stop => simp [api, acquireStop] at h
    | abort => simp [api, acquireAbort, acquireStop] at h
    | trigger i => left; exact h
    | state fin =>
      left
      simp only [api] at h
      unfold acquireGetState at h
      split at h
      · simp at h
      · exact h
    | shutdown => simp [api, acquireShutdown_rstate] at h
  · left; exact h

/-! ### while Running is reported, the devices of every valid stream are started -/

/-- camera and storage of stream `i` are open and Running -/
def RunS (st : State) (i : Sid) : Prop := ∀ k, ∃ hd, st.slot i k = some hd ∧ hd.hal = .running

def RunOk (st : State) : Prop :=
  st.rstate = .running → (st.valid .s0 = true ∨ st.valid .s1 = true) ∧ ∀ i, st.valid i = true → RunS st i

theorem videoSinkStart_ok {st : State} {i : Sid} (h : (videoSinkStart st i).2 = true) :
    ∃ hd, (videoSinkStart st i).1.slot i .sto = some hd ∧ hd.hal = .running := by
  unfold videoSinkStart at h ⊢
  cases e : st.slot i .sto with
  | none => simp [e] at h
  | some h0 =>
    simp only [e] at h ⊢
    split
    · simp [setH, emit]
    · rename_i c; simp [c] at h

theorem videoSinkStart_other {st : State} {i i' : Sid} {k' : Kind} (hne : ¬ (i' = i ∧ k' = .sto)) :
    (videoSinkStart st i).1.slot i' k' = st.slot i' k' := by
  unfold videoSinkStart
  split
  · rfl
  · split
    · simp [setH, emit, hne]
    · rfl

theorem videoSourceStart_ok {st : State} {i : Sid} (h : (videoSourceStart st i).2 = true) :
    ∃ hd, (videoSourceStart st i).1.slot i .cam = some hd ∧ hd.hal = .running := by
  unfold videoSourceStart at h ⊢
  cases e : st.slot i .cam with
  | none => simp [e] at h
  | some h0 =>
    simp only [e] at h ⊢
    by_cases c1 : h0.hal = .armed
    · by_cases c2 : (st.orc.startFail h0.dev).headD false = true
      · rw [if_pos c1, if_pos c2] at h; simp at h
      · rw [if_pos c1, if_neg c2]; simp [setH, emit]
    · rw [if_neg c1] at h; simp at h

theorem videoSourceStart_other {st : State} {i i' : Sid} {k' : Kind} (hne : ¬ (i' = i ∧ k' = .cam)) :
    (videoSourceStart st i).1.slot i' k' = st.slot i' k' := by
  unfold videoSourceStart
  split
  · rfl
  · split
    · split <;> simp [setH, emit, hne]
    · rfl

theorem videoSourceStart_valid (st : State) (i : Sid) : (videoSourceStart st i).1.valid = st.valid := by
  unfold videoSourceStart; split
  · rfl
  · split
    · split <;> rfl
    · rfl

theorem startStream_valid (st : State) (i : Sid) : (startStream st i).1.valid = st.valid := by
  unfold startStream
  split
  · have h2 := videoSinkStart_valid st i
    split
    · rename_i st1 e; rw [e] at h2; simp only at h2; rw [videoSourceStart_valid, h2]
    · rename_i st1 e; rw [e] at h2; exact h2
  · rfl

theorem startStream_other {st : State} {i j : Sid} (hne : j ≠ i) (k : Kind) : (startStream st i).1.slot j k = st.slot j k := by
  unfold startStream
  split
  · have h1 : (videoSinkStart st i).1.slot j k = st.slot j k := videoSinkStart_other (fun c => hne c.1)
    split
    · rename_i st1 e; rw [e] at h1; simp only at h1
      rw [videoSourceStart_other (fun c => hne c.1), h1]
    · rename_i st1 e; rw [e] at h1; exact h1
  · rfl

theorem startStream_ok {st : State} {i : Sid} (hv : st.valid i = true) (h : (startStream st i).2 = true) :
    RunS (startStream st i).1 i := by
  unfold startStream at h ⊢
  simp only [hv, if_true] at h ⊢
  have hk := @videoSinkStart_ok st i
  split
  · rename_i st1 e
    rw [e] at hk; simp only at hk
    rw [e] at h; simp only at h
    intro k
    cases k with
    | cam => exact videoSourceStart_ok h
    | sto =>
      rw [videoSourceStart_other (by simp)]
      exact hk trivial
  · rename_i st1 e
    rw [e] at h; simp at h

theorem acquireGetState_valid (st : State) (fin : Bool) : (acquireGetState st fin).valid = st.valid := by
  unfold acquireGetState; split <;> simp

theorem acquireStart_runok {st : State} {fin : Bool} (h : RunOk st) : RunOk (acquireStart st fin).1 := by
  unfold acquireStart
  split
  · intro c; simp [startError_rstate] at c
  · rename_i hv
    split
    · rename_i c2
      have : acquireGetState st fin = st := by
        unfold acquireGetState at c2 ⊢
        split at c2
        · simp at c2
        · rename_i hn; rw [if_neg hn]
      rw [this]; exact h
    · have v0 := startStream_valid (acquireGetState st fin) .s0
      have o0 := @startStream_ok (acquireGetState st fin) .s0
      have f0 := @startStream_other (acquireGetState st fin) .s0
      split
      · intro c; simp [startError_rstate] at c
      · rename_i st1 e
        rw [e] at v0 o0 f0; simp only at v0 o0 f0
        have v1 := startStream_valid st1 .s1
        have o1 := @startStream_ok st1 .s1
        have f1 := @startStream_other st1 .s1
        split
        · intro c; simp [startError_rstate] at c
        · rename_i st2 e2
          rw [e2] at v1 o1 f1; simp only at v1 o1 f1
          intro _
          have hvv : st2.valid = st.valid := by rw [v1, v0, acquireGetState_valid]
          refine ⟨by rw [hvv]; cases h0 : st.valid .s0 <;> cases h1 : st.valid .s1 <;> simp_all, fun i hi => ?_⟩
          simp only at hi
          rw [hvv] at hi
          cases i with
          | s0 =>
            have r := o0 (by rw [acquireGetState_valid]; exact hi) trivial
            intro k
            obtain ⟨hd, e1, e2'⟩ := r k
            exact ⟨hd, by simp only; rw [f1 (by simp) k]; exact e1, e2'⟩
          | s1 => exact o1 (by rw [v0, acquireGetState_valid]; exact hi) trivial

theorem step_runok {P : Pools} {st : State} (op : Op) (h : RunOk st) : RunOk (step P st op).1 := by
  unfold step
  split
  · rename_i hg
    cases op with
    | configure c0 c1 =>
      simp only [guard, Bool.and_eq_true, bne_iff_ne, ne_eq] at hg
      intro c
      simp only [api, acquireConfigure] at c
      unfold configureFinish at c
      split at c
      · simp [hg.1.1.2] at c
      · simp at c
    | start fin => exact acquireStart_runok h
    | stop => intro c; simp [api, acquireStop] at c
    | abort => intro c; simp [api, acquireAbort, acquireStop] at c
    | trigger i => exact h
    | state fin =>
      simp only [api]
      unfold acquireGetState
      split
      · intro c; simp at c
      · exact h
    | shutdown => intro c; simp [api, acquireShutdown_rstate] at c
  · exact h

theorem run_runok {P : Pools} {st : State} (prog : List Op) (h : RunOk st) : RunOk (run P st prog) := by
  induction prog generalizing st with
  | nil => exact h
  | cons op rest ih => exact ih (step_runok op h)

/-! ### a call within the usage rules is never skipped -/

theorem api_res (st : State) (op : Op) : (api st op).2 ≠ .illformed := by
  cases op with
  | start fin =>
    simp only [api]
    unfold acquireStart
    repeat' split
    all_goals simp
  | trigger i => simp only [api, acquireTrigger]; split <;> simp
  | _ => simp [api]

theorem wf_results {P : Pools} {st : State} {prog : List Op} (h : WF P st prog = true) : Res.illformed ∉ results P st prog := by
  induction prog generalizing st with
  | nil => simp [results]
  | cons op rest ih =>
    simp only [WF, Bool.and_eq_true] at h
    simp only [results, List.mem_cons, not_or]
    refine ⟨?_, ih h.2⟩
    unfold step
    rw [if_pos h.1]
    exact fun c => api_res st op c.symm

end AcqVerif.Control
