/-!
# M2 — the control plane of the runtime (`acquire.c`, `source.c`, `sink.c`, HAL open/close/set/start/stop)

Which devices the runtime opens, closes, sets, starts and stops, per public API call, for any client program over
`acquire_configure` (per-stream camera/storage identifiers, "none" = stream disabled, identifiers that change between
calls, opens that fail) / `acquire_start` (also while running, also failing) / `acquire_stop` / `acquire_abort` /
`acquire_execute_trigger` / `acquire_get_state` / `acquire_shutdown`.

Literal transcription of the control flow of

* `acquire.c`: `acquire_configure` + `configure_video_stream`, `acquire_start` incl. its `Error:` path,
  `acquire_stop`, `acquire_abort`, `acquire_shutdown`, `acquire_get_state`, `acquire_execute_trigger`;
* `runtime/source.c`: `video_source_configure`, `video_source_start`, `video_source_destroy`;
* `runtime/sink.c`: `video_sink_configure`, `video_sink_start`, `video_sink_destroy`;
* HAL `camera.c` / `storage.c` / `driver.c`: `*_open`, `*_close`, `*_set`, `*_start`, `*_stop` (which of them reach the
  driver in which HAL state, and what they do to the HAL state).

Abstractions (each is tied to the code by the correspondence check `checks/c08m2.py`, or proved about M1):

* **Devices** are abstract ids (`Dev`); an open device is a `Handle` = (device, instance number, HAL state).  The instance
  number counts the successful opens of that device, so a re-open is a new instance.
* **Driver answers**: `open` fails when the oracle says so (`Oracle.openFail d` = the outcomes of the upcoming open attempts
  of device `d`, `true` = fails; the mock's `openfail <dev> <n>` is `n` times `true`); a camera's `start` likewise
  (`Oracle.startFail`, the mock's `camstartfail`).  `set`, `stop`, `close` and a storage's `start` succeed and report the
  state the contract names (set → Armed, start → Running, stop → Armed), as the mock driver does.
* **Worker threads** are not modelled.  An acquisition that was started is wound down completely by whatever ends it
  (`windDown`): each started camera is stopped by its source thread, each started storage by its sink thread — exactly once,
  whichever path the threads take; this is what M1's theorems (`Props/C07.lean`, `Props/C08.lean`) establish for every
  schedule.  So per device the order `start … stop` is fixed although devices interleave differently under different
  schedules.  Data calls (`get_frame`, `append`, `execute_trigger`) are not events of this model: between the `start` and the
  `stop` of a device any number of them may occur.
* Whether the workers of a running acquisition have all exited by themselves when the client calls `acquire_get_state` /
  `acquire_start` depends on the schedule; it is an argument (`fin`) of those two operations.
* A camera/storage identifier of kind None next to one that is given is resolved by `device_manager_select_default`
  (property C12) before `configure_video_stream` proceeds; the model starts from resolved identifiers, so a stream's
  configuration is either `none` (both identifiers None: the stream is skipped) or a pair of devices.
-/
namespace AcqVerif.Control

abbrev Dev := Nat

/-- index of `runtime.video[2]` -/
inductive Sid | s0 | s1
  deriving DecidableEq, Repr

inductive Kind | cam | sto
  deriving DecidableEq, Repr

/-- `Camera.state` / `Storage.state` of an open device -/
inductive Hal | awaiting | armed | running
  deriving DecidableEq, Repr

/-- `runtime.state`; `closed` = after `acquire_shutdown` (the runtime has been freed) -/
inductive RState | awaiting | armed | running | closed
  deriving DecidableEq, Repr

/-- what a driver sees: one constructor per line kind of the mock's call log that M2 talks about -/
inductive Act | openFail | open | set | start | startFail | stop | close
  deriving DecidableEq, Repr

/-- a driver call on instance `inst` of device `dev` (a failed open belongs to the instance that was to be created) -/
structure Event where
  dev : Dev
  inst : Nat
  act : Act
  deriving DecidableEq, Repr

/-- `struct Camera*` / `struct Storage*`: an open device -/
structure Handle where
  dev : Dev
  inst : Nat
  hal : Hal
  deriving DecidableEq, Repr

/-- scripted driver answers -/
structure Oracle where
  /-- outcomes of the upcoming `open` attempts per device, `true` = fails; exhausted = succeeds -/
  openFail : Dev → List Bool
  /-- outcomes of the upcoming camera `start` calls per device -/
  startFail : Dev → List Bool

structure State where
  /-- `video[i].source.camera` / `video[i].sink.storage` (with `last_camera_id` / `identifier` = the handle's device) -/
  slot : Sid → Kind → Option Handle
  /-- bit `i` of `valid_video_streams` -/
  valid : Sid → Bool
  rstate : RState
  /-- successful opens per device so far (the next instance number minus one) -/
  opens : Dev → Nat
  orc : Oracle
  /-- ghost: every driver call so far, in program order -/
  log : List Event

def upd {α : Type} (f : Dev → α) (d : Dev) (v : α) : Dev → α := fun x => if x = d then v else f x

def Oracle.none : Oracle := ⟨fun _ => [], fun _ => []⟩

/-- after `acquire_init` -/
def init (orc : Oracle) : State :=
  { slot := fun _ _ => none, valid := fun _ => false, rstate := .awaiting, opens := fun _ => 0, orc := orc, log := [] }

def setH (st : State) (i : Sid) (k : Kind) (v : Option Handle) : State :=
  { st with slot := fun i' k' => if i' = i ∧ k' = k then v else st.slot i' k' }

def setValid (st : State) (i : Sid) (b : Bool) : State :=
  { st with valid := fun i' => if i' = i then b else st.valid i' }

def emit (st : State) (e : Event) : State := { st with log := st.log ++ [e] }

/-! ## HAL + driver -/

/-- `camera_close` / `driver_close_device`: the driver's `close`; the caller forgets the pointer -/
def drvClose (st : State) (i : Sid) (k : Kind) : State :=
  match st.slot i k with
  | none => st
  | some h => setH (emit st ⟨h.dev, h.inst, .close⟩) i k none

/-- `camera_stop` / `storage_stop`: reaches the driver only in HAL state Running; the device reports Armed -/
def halStop (st : State) (i : Sid) (k : Kind) : State :=
  match st.slot i k with
  | none => st
  | some h =>
    if h.hal = .running then setH (emit st ⟨h.dev, h.inst, .stop⟩) i k (some { h with hal := .armed }) else st

/-- `camera_close` (no stop) / `storage_close` (`storage_stop` first) -/
def halClose (st : State) (i : Sid) (k : Kind) : State :=
  match k with
  | .cam => drvClose st i .cam
  | .sto => drvClose (halStop st i .sto) i .sto

/-- `camera_open` / `storage_open` → `driver_open_device` → the driver's `open`; on success the pointer is stored -/
def halOpen (st : State) (i : Sid) (k : Kind) (d : Dev) : State :=
  if (st.orc.openFail d).headD false then
    emit { st with orc := { st.orc with openFail := upd st.orc.openFail d (st.orc.openFail d).tail } } ⟨d, st.opens d + 1, .openFail⟩
  else
    setH (emit { st with orc := { st.orc with openFail := upd st.orc.openFail d (st.orc.openFail d).tail },
                         opens := upd st.opens d (st.opens d + 1) } ⟨d, st.opens d + 1, .open⟩)
      i k (some ⟨d, st.opens d + 1, .awaiting⟩)

/-- `camera_set`: Armed unless Running (`try_camera_set` succeeds at the first attempt);
    `storage_set`: `self->state = self->set(...)` = Armed -/
def halSet (st : State) (i : Sid) (k : Kind) : State :=
  match st.slot i k with
  | none => st
  | some h =>
    setH (emit st ⟨h.dev, h.inst, .set⟩) i k
      (some { h with hal := match k with
                            | .cam => if h.hal = .running then .running else .armed
                            | .sto => .armed })

/-! ## `video_source_configure` / `video_sink_configure` -/

/-- `if (self->camera && !is_equal(&self->last_camera_id, identifier)) { camera_close(self->camera); self->camera = 0; }` -/
def closeIfOther (st : State) (i : Sid) (k : Kind) (id : Dev) : State :=
  match st.slot i k with
  | none => st
  | some h => if h.dev = id then st else halClose st i k

/-- `if (!self->camera) { CHECK(self->camera = camera_open(device_manager, identifier)); … }` -/
def openIfNone (st : State) (i : Sid) (k : Kind) (id : Dev) : State :=
  match st.slot i k with
  | none => halOpen st i k id
  | some _ => st

/-- `video_source_configure` (k = cam) / `video_sink_configure` (k = sto); it returns `Device_Ok` iff the slot holds a
    device afterwards (when the open fails the `CHECK` jumps over the `set`) -/
def deviceConfigure (st : State) (i : Sid) (k : Kind) (id : Dev) : State :=
  halSet (openIfNone (closeIfOther st i k id) i k id) i k

/-- `configure_video_stream`: source, (filter,) sink — no short-circuit: the sink is configured even when the camera's open
    failed — then `reserve_image_shape`, which fails on a NULL camera/storage -/
def configureVideoStream (st : State) (i : Sid) (c s : Dev) : State :=
  deviceConfigure (deviceConfigure st i .cam c) i .sto s

/-- one iteration of the loop of `acquire_configure`: a stream whose identifiers are both None is skipped -/
def configureOne (st : State) (i : Sid) (cfg : Option (Dev × Dev)) : State :=
  match cfg with
  | none => st
  | some (c, s) =>
    setValid (configureVideoStream st i c s) i
      (((configureVideoStream st i c s).slot i .cam).isSome && ((configureVideoStream st i c s).slot i .sto).isSome)

/-! ## the worker threads, abstracted -/

/-- what the workers of stream `i` do to their devices on the way out: the source thread stops the camera, the sink thread
    the storage (each a no-op unless the HAL state is Running) -/
def windDownStream (st : State) (i : Sid) : State :=
  if st.valid i then halStop (halStop st i .cam) i .sto else st

def windDown (st : State) : State := windDownStream (windDownStream st .s0) .s1

/-! ## the API -/

inductive Res | ok | err | illformed
  deriving DecidableEq, Repr

/-- `acquire_stop`: joins the workers of the valid streams; `self->state = DeviceState_Armed` -/
def acquireStop (st : State) : State := { windDown st with rstate := .armed }

/-- `acquire_abort`: signals the sources of the valid streams, then `acquire_stop` -/
def acquireAbort (st : State) : State := acquireStop st

/-- `acquire_get_state`: Running is re-derived from the worker flags (`fin` = all workers of the valid streams have exited —
    then they have stopped their devices) -/
def acquireGetState (st : State) (fin : Bool) : State :=
  if st.rstate = .running ∧ fin = true then { windDown st with rstate := .armed } else st

/-- the loop of `acquire_configure`: `self->valid_video_streams = 0`, then stream 0, then stream 1 -/
def configureAll (st : State) (c0 c1 : Option (Dev × Dev)) : State :=
  configureOne (configureOne { st with valid := fun _ => false } .s0 c0) .s1 c1

/-- the end of `acquire_configure` (`old` = `self->state` on entry) -/
def configureFinish (old : RState) (st : State) : State :=
  if (st.valid .s0 || st.valid .s1) = true then
    -- self->state = max(self->state, DeviceState_Armed)
    { st with rstate := if old = .running then .running else .armed }
  else
    -- acquire_abort(self_); self->state = DeviceState_AwaitingConfiguration
    { acquireAbort st with rstate := .awaiting }

def acquireConfigure (st : State) (c0 c1 : Option (Dev × Dev)) : State :=
  configureFinish st.rstate (configureAll st c0 c1)

/-- `video_sink_start`: storage open and Armed, then `storage_start` (the storage answers Running) -/
def videoSinkStart (st : State) (i : Sid) : State × Bool :=
  match st.slot i .sto with
  | none => (st, false)
  | some h =>
    if h.hal = .armed then
      (setH (emit st ⟨h.dev, h.inst, .start⟩) i .sto (some { h with hal := .running }), true)
    else (st, false)

/-- `video_source_start`: camera open and Armed, then `camera_start`: Running, or AwaitingConfiguration when the driver fails -/
def videoSourceStart (st : State) (i : Sid) : State × Bool :=
  match st.slot i .cam with
  | none => (st, false)
  | some h =>
    if h.hal = .armed then
      if (st.orc.startFail h.dev).headD false then
        (setH (emit { st with orc := { st.orc with startFail := upd st.orc.startFail h.dev (st.orc.startFail h.dev).tail } }
                 ⟨h.dev, h.inst, .startFail⟩) i .cam (some { h with hal := .awaiting }), false)
      else
        (setH (emit { st with orc := { st.orc with startFail := upd st.orc.startFail h.dev (st.orc.startFail h.dev).tail } }
                 ⟨h.dev, h.inst, .start⟩) i .cam (some { h with hal := .running }), true)
    else (st, false)

/-- body of the loop of `acquire_start` for one stream: sink, (filter,) source; `false` = a `CHECK` failed -/
def startStream (st : State) (i : Sid) : State × Bool :=
  if st.valid i then
    match videoSinkStart st i with
    | (st1, true) => videoSourceStart st1 i
    | (st1, false) => (st1, false)
  else (st, true)

/-- `camera_stop(self->video[i].source.camera)` for a valid stream -/
def camStopValid (st : State) (i : Sid) : State := if st.valid i then halStop st i .cam else st

/-- `Error:` of `acquire_start`: the filters are told to stop, `acquire_abort` winds everything down, `camera_stop` on the
    valid streams' cameras (no-ops by then), `self->state = DeviceState_AwaitingConfiguration` -/
def startError (st : State) : State :=
  { camStopValid (camStopValid (acquireAbort st) .s0) .s1 with rstate := .awaiting }

def acquireStart (st : State) (fin : Bool) : State × Res :=
  -- EXPECT(self->valid_video_streams > 0, …)
  if (st.valid .s0 || st.valid .s1) = false then (startError st, .err) else
  -- if (acquire_get_state(self_) == DeviceState_Running) return AcquireStatus_Error;
  if (acquireGetState st fin).rstate = .running then (acquireGetState st fin, .err) else
  match startStream (acquireGetState st fin) .s0 with
  | (st1, false) => (startError st1, .err)
  | (st1, true) =>
    match startStream st1 .s1 with
    | (st2, false) => (startError st2, .err)
    | (st2, true) => ({ st2 with rstate := .running }, .ok)

/-- `video_source_destroy` + `video_sink_destroy` of one stream (valid or not) -/
def destroyStream (st : State) (i : Sid) : State := halClose (halClose st i .cam) i .sto

/-- `acquire_shutdown`: `acquire_abort`, destroy both streams, free the runtime -/
def acquireShutdown (st : State) : State :=
  { destroyStream (destroyStream (acquireAbort st) .s0) .s1 with rstate := .closed }

/-- `acquire_execute_trigger`: fails only on a NULL camera (the trigger itself is a data call) -/
def acquireTrigger (st : State) (i : Sid) : Res := if (st.slot i .cam).isSome then .ok else .err

/-! ## programs -/

inductive Op
  | configure (c0 c1 : Option (Dev × Dev))
  | start (fin : Bool)
  | stop
  | abort
  | trigger (i : Sid)
  | state (fin : Bool)
  | shutdown
  deriving DecidableEq, Repr

/-- per-stream device pools: which stream a device may be given to, and whether it is a camera or a storage -/
structure Pools where
  owner : Dev → Sid
  kind : Dev → Kind

def cfgOk (P : Pools) (i : Sid) : Option (Dev × Dev) → Bool
  | none => true
  | some (c, s) => P.owner c = i && P.kind c = .cam && P.owner s = i && P.kind s = .sto

/-- the usage rules the code relies on, evaluated where the call is made:
    * nothing is called on a runtime that has been shut down (it has been freed);
    * `acquire_configure` is not called while an acquisition is running (it would re-`set` and possibly close devices the
      worker threads are using), and hands each stream devices of the right kind from that stream's own pool (the runtime
      never checks whether the other stream — or the same stream's other slot — already holds the device). -/
def guard (P : Pools) (st : State) : Op → Bool
  | .configure c0 c1 => st.rstate != .closed && st.rstate != .running && cfgOk P .s0 c0 && cfgOk P .s1 c1
  | _ => st.rstate != .closed

/-- one API call (precondition: `guard`) -/
def api (st : State) : Op → State × Res
  | .configure c0 c1 => (acquireConfigure st c0 c1, .ok)
  | .start fin => acquireStart st fin
  | .stop => (acquireStop st, .ok)
  | .abort => (acquireAbort st, .ok)
  | .trigger i => (st, acquireTrigger st i)
  | .state fin => (acquireGetState st fin, .ok)
  | .shutdown => (acquireShutdown st, .ok)

/-- a call that violates the usage rules is skipped (and reported `illformed`, identically on both sides of the
    correspondence check) -/
def step (P : Pools) (st : State) (op : Op) : State × Res :=
  if guard P st op then api st op else (st, .illformed)

def run (P : Pools) (st : State) : List Op → State
  | [] => st
  | op :: rest => run P (step P st op).1 rest

/-- what the calls of a program return -/
def results (P : Pools) (st : State) : List Op → List Res
  | [] => []
  | op :: rest => (step P st op).2 :: results P (step P st op).1 rest

/-- every call of the program respects the usage rules at the point where it is made -/
def WF (P : Pools) (st : State) : List Op → Bool
  | [] => true
  | op :: rest => guard P st op && WF P (step P st op).1 rest

end AcqVerif.Control
