import AcqVerif.Control.Model
/-!
# The life cycle of one device instance, as an automaton over what the driver sees

`openFail* open (set | start stop | startFail)* close?` with the HAL state tracked:
`set` only while not Running, `start` only when Armed, `stop` only when Running, `close` only when not Running,
nothing after `close`.  `runA` runs the automaton; the lemmas below are the readable consequences of acceptance.
-/
namespace AcqVerif.Control

inductive Phase | fresh | opened (h : Hal) | closed
  deriving DecidableEq, Repr

def stepA (p : Phase) (a : Act) : Option Phase :=
  match p, a with
  | .fresh, .openFail => some .fresh
  | .fresh, .open => some (.opened .awaiting)
  | .opened .awaiting, .set => some (.opened .armed)
  | .opened .armed, .set => some (.opened .armed)
  | .opened .armed, .start => some (.opened .running)
  | .opened .armed, .startFail => some (.opened .awaiting)
  | .opened .running, .stop => some (.opened .armed)
  | .opened .awaiting, .close => some .closed
  | .opened .armed, .close => some .closed
  | _, _ => none

def runA (p : Phase) : List Act → Option Phase
  | [] => some p
  | a :: l => (stepA p a).bind fun q => runA q l

/-- the driver calls on instance `n` of device `d`, in order -/
def proj (log : List Event) (d : Dev) (n : Nat) : List Act :=
  (log.filter fun e => decide (e.dev = d ∧ e.inst = n)).map (·.act)

theorem proj_append (l1 l2 : List Event) (d : Dev) (n : Nat) : proj (l1 ++ l2) d n = proj l1 d n ++ proj l2 d n := by
  simp [proj, List.filter_append]

theorem proj_single (e : Event) (d : Dev) (n : Nat) :
    proj [e] d n = if e.dev = d ∧ e.inst = n then [e.act] else [] := by
  by_cases h : (e.dev = d ∧ e.inst = n)
  · simp only [proj, List.filter_cons, List.filter_nil, h, and_self, decide_true, if_true, List.map_cons, List.map_nil]
  · simp only [proj, List.filter_cons, List.filter_nil, h, decide_false, if_false]
    simp

theorem runA_append (p : Phase) (l1 l2 : List Act) : runA p (l1 ++ l2) = (runA p l1).bind fun q => runA q l2 := by
  induction l1 generalizing p with
  | nil => simp [runA]
  | cons a l ih =>
    simp only [List.cons_append, runA]
    cases h : stepA p a with
    | none => simp
    | some q => simp [ih]

theorem runA_single (p : Phase) (a : Act) : runA p [a] = stepA p a := by
  simp only [runA]
  cases stepA p a <;> simp

/-! ### single steps -/

/-- case split on a phase, including the HAL state of an opened instance -/
macro "cases_phase " p:ident : tactic =>
  `(tactic| (rcases $p:ident with _ | hh | _ <;> try cases hh))

def isOpened (p : Phase) : Nat := if p = .fresh then 0 else 1
def isClosed (p : Phase) : Nat := if p = .closed then 1 else 0
def isRunning (p : Phase) : Nat := if p = .opened .running then 1 else 0
def ind (b : Bool) : Nat := if b then 1 else 0

theorem stepA_counts {p q : Phase} {a : Act} (h : stepA p a = some q) :
    ind (a == .open) + isOpened p = isOpened q ∧
    ind (a == .close) + isClosed p = isClosed q ∧
    ind (a == .start) + isRunning p = ind (a == .stop) + isRunning q := by
  cases_phase p <;> cases a <;> simp [stepA] at h <;> subst h <;> decide

theorem stepA_closed (a : Act) : stepA .closed a = none := by cases a <;> rfl

theorem stepA_start {p q : Phase} (h : stepA p .start = some q) : p = .opened .armed ∧ q = .opened .running := by
  cases_phase p <;> simp [stepA] at h <;> simp [h]

theorem stepA_startFail {p q : Phase} (h : stepA p .startFail = some q) : p = .opened .armed ∧ q = .opened .awaiting := by
  cases_phase p <;> simp [stepA] at h <;> simp [h]

theorem stepA_stop {p q : Phase} (h : stepA p .stop = some q) : p = .opened .running ∧ q = .opened .armed := by
  cases_phase p <;> simp [stepA] at h <;> simp [h]

theorem stepA_from_running {a : Act} {q : Phase} (h : stepA (.opened .running) a = some q) : a = .stop := by
  cases a <;> simp [stepA] at h <;> rfl

theorem stepA_to_running {p : Phase} {a : Act} (h : stepA p a = some (.opened .running)) : a = .start := by
  cases_phase p <;> cases a <;> simp [stepA] at h <;> rfl

theorem stepA_to_armed {p : Phase} {a : Act} (h : stepA p a = some (.opened .armed)) : a = .set ∨ a = .stop := by
  cases_phase p <;> cases a <;> simp [stepA] at h <;> simp

/-! ### runs -/

theorem runA_counts {p q : Phase} {l : List Act} (h : runA p l = some q) :
    l.count .open + isOpened p = isOpened q ∧
    l.count .close + isClosed p = isClosed q ∧
    l.count .start + isRunning p = l.count .stop + isRunning q := by
  induction l generalizing p with
  | nil => simp [runA] at h; subst h; simp
  | cons a l ih =>
    simp only [runA] at h
    cases hs : stepA p a with
    | none => simp [hs] at h
    | some r =>
      simp [hs] at h
      have h1 := stepA_counts hs
      have h2 := ih h
      simp only [List.count_cons]
      have e1 : (if (a == Act.open) = true then 1 else 0) = ind (a == .open) := rfl
      have e2 : (if (a == Act.close) = true then 1 else 0) = ind (a == .close) := rfl
      have e3 : (if (a == Act.start) = true then 1 else 0) = ind (a == .start) := rfl
      have e4 : (if (a == Act.stop) = true then 1 else 0) = ind (a == .stop) := rfl
      rw [e1, e2, e3, e4]
      omega

theorem runA_closed {q : Phase} {l : List Act} (h : runA .closed l = some q) : l = [] := by
  cases l with
  | nil => rfl
  | cons a l => simp [runA, stepA_closed] at h

/-- acceptance of `pre ++ a :: post` passes through a phase in which `a` is allowed -/
theorem runA_split {p q : Phase} {pre post : List Act} {a : Act} (h : runA p (pre ++ a :: post) = some q) :
    ∃ p1 p2, runA p pre = some p1 ∧ stepA p1 a = some p2 ∧ runA p2 post = some q := by
  rw [runA_append] at h
  cases h1 : runA p pre with
  | none => simp [h1] at h
  | some p1 =>
    simp [h1, runA] at h
    cases h2 : stepA p1 a with
    | none => simp [h2] at h
    | some p2 =>
      simp [h2] at h
      exact ⟨p1, p2, rfl, h2, h⟩

theorem runA_last {p q : Phase} {l : List Act} {a : Act} (h : runA p (l ++ [a]) = some q) :
    ∃ p1, runA p l = some p1 ∧ stepA p1 a = some q := by
  obtain ⟨p1, p2, h1, h2, h3⟩ := runA_split h
  simp [runA] at h3
  subst h3
  exact ⟨p1, h1, h2⟩

/-! ### what acceptance means, without the automaton -/

/-- `E` is a prefix of a life cycle -/
def Accepts (E : List Act) : Prop := ∃ q, runA .fresh E = some q

theorem isOpened_le (p : Phase) : isOpened p ≤ 1 := by unfold isOpened; split <;> omega
theorem isClosed_le (p : Phase) : isClosed p ≤ 1 := by unfold isClosed; split <;> omega
theorem isRunning_le (p : Phase) : isRunning p ≤ 1 := by unfold isRunning; split <;> omega

theorem Accepts.open_le_one {E : List Act} (h : Accepts E) : E.count .open ≤ 1 := by
  obtain ⟨q, h⟩ := h
  have := (runA_counts h).1
  have := isOpened_le q
  omega

theorem Accepts.close_le_one {E : List Act} (h : Accepts E) : E.count .close ≤ 1 := by
  obtain ⟨q, h⟩ := h
  have := (runA_counts h).2.1
  have := isClosed_le q
  omega

/-- no driver call follows the close -/
theorem Accepts.nothing_after_close {E pre post : List Act} (h : Accepts E) (e : E = pre ++ .close :: post) : post = [] := by
  obtain ⟨q, h⟩ := h
  subst e
  obtain ⟨p1, p2, _, h2, h3⟩ := runA_split h
  have : p2 = .closed := by
    cases_phase p1 <;> simp [stepA] at h2 <;> simp [h2]
  subst this
  exact runA_closed h3

/-- a close is preceded by the open, and not by an unfinished start -/
theorem Accepts.close_after_open {E pre post : List Act} (h : Accepts E) (e : E = pre ++ .close :: post) :
    pre.count .open = 1 ∧ pre.count .start = pre.count .stop := by
  obtain ⟨q, h⟩ := h
  subst e
  obtain ⟨p1, p2, h1, h2, _⟩ := runA_split h
  have c := runA_counts h1
  cases_phase p1 <;> simp [stepA] at h2 <;>
    simp [isOpened, isRunning] at c <;> omega

/-- `start` (successful or not) reaches the driver only when the instance is Armed:
    the instance's previous driver call was a successful `set`, or the `stop` of the previous run -/
theorem Accepts.start_only_armed {E pre post : List Act} {a : Act} (h : Accepts E) (ha : a = .start ∨ a = .startFail)
    (e : E = pre ++ a :: post) :
    runA .fresh pre = some (.opened .armed) ∧ ∃ pre', pre = pre' ++ [.set] ∨ pre = pre' ++ [.stop] := by
  obtain ⟨q, h⟩ := h
  subst e
  obtain ⟨p1, p2, h1, h2, _⟩ := runA_split h
  have hp : p1 = .opened .armed := by
    rcases ha with rfl | rfl
    · exact (stepA_start h2).1
    · exact (stepA_startFail h2).1
  subst hp
  refine ⟨h1, ?_⟩
  rcases List.eq_nil_or_concat pre with rfl | ⟨L, b, hL⟩
  · simp [runA] at h1
  · rw [List.concat_eq_append] at hL
    subst hL
    obtain ⟨p0, _, hb⟩ := runA_last h1
    rcases stepA_to_armed hb with rfl | rfl
    · exact ⟨L, Or.inl rfl⟩
    · exact ⟨L, Or.inr rfl⟩

/-- no stop without start: the instance's driver call before a `stop` is its `start` -/
theorem Accepts.stop_after_start {E pre post : List Act} (h : Accepts E) (e : E = pre ++ .stop :: post) :
    ∃ pre', pre = pre' ++ [.start] := by
  obtain ⟨q, h⟩ := h
  subst e
  obtain ⟨p1, p2, h1, h2, _⟩ := runA_split h
  have hp := (stepA_stop h2).1
  subst hp
  rcases List.eq_nil_or_concat pre with rfl | ⟨L, b, hL⟩
  · simp [runA] at h1
  · rw [List.concat_eq_append] at hL
    subst hL
    obtain ⟨p0, _, hb⟩ := runA_last h1
    have := stepA_to_running hb
    subst this
    exact ⟨L, rfl⟩

/-- exactly one stop per start: the instance's next driver call after a successful `start`, if any, is the `stop` -/
theorem Accepts.start_then_stop {E pre post : List Act} (h : Accepts E) (e : E = pre ++ .start :: post) :
    post = [] ∨ ∃ post', post = .stop :: post' := by
  obtain ⟨q, h⟩ := h
  subst e
  obtain ⟨p1, p2, _, h2, h3⟩ := runA_split h
  have hp := (stepA_start h2).2
  subst hp
  cases post with
  | nil => exact Or.inl rfl
  | cons b t =>
    simp only [runA] at h3
    cases hb : stepA (.opened .running) b with
    | none => simp [hb] at h3
    | some r =>
      have := stepA_from_running hb
      subst this
      exact Or.inr ⟨t, rfl⟩

/-- as many stops as starts, plus the one outstanding while the instance is Running -/
theorem runA_balance {q : Phase} {E : List Act} (h : runA .fresh E = some q) :
    E.count .start = E.count .stop + isRunning q := by
  have := (runA_counts h).2.2
  simpa [isRunning] using this

end AcqVerif.Control
