import AcqVerif.Tiff.Layout
/-!
# Ties between the hand-written model and the constants extracted from `tiff.cpp`

`Generated/TiffConstants.lean` is rewritten on every run from the current source
(struct sizes and offsets, the tag constructors evaluated on probe arguments, the
per-sample-type tables, `align8` on probe values, and the order of the tags read
back from a file the real `Tiff::append` wrote).  Each `example` below fails to
compile — and is reported as a broken proof obligation of C15 — if the source has
moved away from what the model transcribes.
-/
namespace AcqVerif.Tiff

/-- a probe frame -/
def probeFrame : Frame := { width := 4, height := 2, type := 0, frameId := 0, hwFrameId := 0, tsHardware := 0, tsAcq := 0,
                            data := List.replicate 8 0 }

-- struct layout
example : K.sizeofHeader = 16 ∧ K.offHdrVer = 2 ∧ K.offHdrSizeofOffset = 4 ∧ K.offHdrZero = 6 ∧ K.offHdrFirstIfd = 8 := by decide
example : K.sizeofTag = 20 ∧ K.offTagType = 2 ∧ K.offTagCount = 4 ∧ K.offTagValue = 12 := by decide
example : K.offsetofTags = 8 ∧ K.offsetofNext = K.offsetofTags + K.ntags * K.sizeofTag ∧ K.sizeofIfd = K.offsetofNext + 8 := by decide
example : header.length = K.sizeofHeader := by decide
example : K.hdrFirstIfd = K.sizeofHeader := by decide

-- `align8`
example : K.align8Probes.all (fun p => align8 p.1 == p.2) = true := by decide

-- value constructors: where the bytes of the value go inside the 8-byte union
example : (asU64 7 0x0807060504030201).value.map (·.toNat) = K.asU64Value := by decide
example : (asU32 7 0x04030201).value.map (·.toNat) = K.asU32Value := by decide
example : (asU16 7 0x0201).value.map (·.toNat) = K.asU16Value := by decide
example : (asRational 7 0x04030201 0x08070605).value.map (·.toNat) = K.asRationalValue := by decide

-- per-sample-type tables against the model's functions
example : K.bitsPerSampleTable = (List.range (K.sampleTypeCount + 2)).map (fun t => (8 * bytesOfType t) % 2 ^ 16) := by decide
example : K.sampleFormatTable = (List.range (K.sampleTypeCount + 2)).map sampleFormatCode := by decide

-- the string section: a 10-character text goes to the section (count 11, value = offset, section advances by 11),
-- a 7-character text is stored inline
example : (imageDescription (({} : StringSection).reset 1000) (List.replicate 10 48)).1 =
    ⟨K.imageDescriptionLong10.1, K.imageDescriptionLong10.2.1, K.imageDescriptionLong10.2.2, leBytes 8 K.imageDescriptionLong10Value⟩ := by
  decide
example : (imageDescription (({} : StringSection).reset 1000) (List.replicate 10 48)).2.offset = 1000 + K.imageDescriptionLong10Advance := by
  decide
example : (imageDescription (({} : StringSection).reset 1000) (List.replicate 7 48)).2.offset = 1000 + K.imageDescriptionShort7Advance ∧
    (imageDescription (({} : StringSection).reset 1000) (List.replicate 7 48)).1.count = K.imageDescriptionShort7.2.2 := by
  decide

-- the order of the tags in a directory, as read back from a file written by the real code
example : (ifdTags ⟨[], 1000, 1000⟩ probeFrame (frameLayout ⟨[], 1000, 1000⟩ 16 0 probeFrame) (descOf ⟨[], 1000, 1000⟩ 0 probeFrame)).map (·.tag) =
    K.ifdTagOrder := by decide

-- tag ids and TIFF field types the independent reader relies on (TIFF 6.0 / BigTIFF numbers)
example : K.imageWidth = (256, 4, 1) ∧ K.imageLength = (257, 4, 1) ∧ K.bitsPerSample = (258, 3, 1) ∧
    K.stripOffsets = (273, 16, 1) ∧ K.stripByteCounts = (279, 16, 1) ∧ K.sampleFormat = (339, 3, 1) ∧
    K.imageDescriptionLong10.1 = 270 ∧ K.imageDescriptionLong10.2.1 = 2 := by decide

end AcqVerif.Tiff
