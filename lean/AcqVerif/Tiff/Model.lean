import AcqVerif.Generated.TiffConstants
/-!
# Model of `acquire-driver-common/src/storage/tiff.cpp` (the BigTIFF writer)

A literal transcription of the C++: same functions, same branches, same order.
Offsets and sizes are unbounded `Nat`.  A file is a list of bytes; every
`file_write` of the writer becomes an effect `Eff.write path offset bytes`, and
`pwrite` below gives such a write its meaning (holes are zero filled, nothing is
truncated: `file_create` opens with `O_CREAT` only).  Numeric layout constants,
tag ids, TIFF type codes and the per-sample-type tables come from
`Generated/TiffConstants.lean`, which is regenerated from `tiff.cpp` on every
run of the check.

The model is of the REPAIRED code (fixes/16: `Tiff::set` forgets the previous
external metadata when it is configured with none).  Not modelled: failing
system calls (C16), failing `realloc` in the string section, `file_is_writable`
(assumed true), `size_t` wrap-around.

No import outside core: this file is linked into the native driver.
-/
namespace AcqVerif.Tiff

abbrev Bytes := List UInt8

/-- `n` bytes, little endian, of `v` (mod 256^n) — how x86-64 stores `uintN_t` -/
def leBytes : Nat → Nat → Bytes
  | 0, _ => []
  | n + 1, v => UInt8.ofNat (v % 256) :: leBytes n (v / 256)

def zeros (n : Nat) : Bytes := List.replicate n 0

/-- `align8(v) = (v + 7) >> 3 << 3` -/
def align8 (v : Nat) : Nat := (v + 7) / 8 * 8

/-- what `pwrite(fd, buf, |buf|, off)` (as used by `file_write`: whole buffer written, no call at
all for an empty buffer) does to the content of a regular file -/
def pwrite (f : Bytes) (off : Nat) (buf : Bytes) : Bytes :=
  if buf.isEmpty then f
  else (f ++ zeros (off - f.length)).take off ++ buf ++ f.drop (off + buf.length)

/-! ## string literals of the `printf` formats (bytes of the C source text) -/

/-- `{"frame_id":` -/
def sFrameId : Bytes := [123, 34, 102, 114, 97, 109, 101, 95, 105, 100, 34, 58]
/-- `,"hardware_frame_id":` -/
def sHwFrameId : Bytes := [44, 34, 104, 97, 114, 100, 119, 97, 114, 101, 95, 102, 114, 97, 109, 101, 95, 105, 100, 34, 58]
/-- `,"timestamps":{"runtime":` -/
def sTsRuntime : Bytes := [44, 34, 116, 105, 109, 101, 115, 116, 97, 109, 112, 115, 34, 58, 123, 34, 114, 117, 110, 116, 105, 109, 101, 34, 58]
/-- `,"hardware":` -/
def sTsHardware : Bytes := [44, 34, 104, 97, 114, 100, 119, 97, 114, 101, 34, 58]
/-- `}}` -/
def sEndPlain : Bytes := [125, 125]
/-- `},"metadata":` -/
def sMetadata : Bytes := [125, 44, 34, 109, 101, 116, 97, 100, 97, 116, 97, 34, 58]
/-- `}` -/
def sEndMeta : Bytes := [125]
/-- `file://` -/
def sFileScheme : Bytes := [102, 105, 108, 101, 58, 47, 47]

/-- `%llu` -/
def dec (n : Nat) : Bytes := (Nat.toDigits 10 n).map fun c => UInt8.ofNat c.toNat

/-! ## frames -/

/-- one `struct VideoFrame` of a packet, as far as the writer reads it -/
structure Frame where
  width : Nat        -- shape.dims.width  (uint32_t)
  height : Nat       -- shape.dims.height (uint32_t)
  type : Nat         -- shape.type (enum SampleType)
  frameId : Nat
  hwFrameId : Nat
  tsHardware : Nat   -- timestamps.hardware
  tsAcq : Nat        -- timestamps.acq_thread
  data : Bytes       -- the `bytes_of_frame - sizeof(VideoFrame)` bytes at `data`
deriving Repr, DecidableEq

/-- the first `printf` of `Tiff::append` (with `"metadata":%s`) -/
def descMeta (f : Frame) (metadata : Bytes) : Bytes :=
  sFrameId ++ dec f.frameId ++ sHwFrameId ++ dec f.hwFrameId ++ sTsRuntime ++ dec f.tsAcq ++
    sTsHardware ++ dec f.tsHardware ++ sMetadata ++ metadata ++ sEndMeta

/-- the second `printf` of `Tiff::append` -/
def descPlain (f : Frame) : Bytes :=
  sFrameId ++ dec f.frameId ++ sHwFrameId ++ dec f.hwFrameId ++ sTsRuntime ++ dec f.tsAcq ++
    sTsHardware ++ dec f.tsHardware ++ sEndPlain

/-! ## tags -/

/-- `struct tag_t` (packed: u16 tag, u16 type, u64 count, 8-byte value union) -/
structure Tag where
  tag : Nat
  type : Nat
  count : Nat
  value : Bytes
deriving Repr, DecidableEq

def Tag.encode (t : Tag) : Bytes := leBytes 2 t.tag ++ leBytes 2 t.type ++ leBytes 8 t.count ++ t.value

def asU64 (tag v : Nat) : Tag := ⟨tag, K.asU64.2.1, K.asU64.2.2, leBytes 8 v⟩
def asU32 (tag v : Nat) : Tag := ⟨tag, K.asU32.2.1, K.asU32.2.2, leBytes 4 v ++ zeros 4⟩
def asU16 (tag v : Nat) : Tag := ⟨tag, K.asU16.2.1, K.asU16.2.2, leBytes 2 v ++ zeros 6⟩
def asRational (tag num den : Nat) : Tag := ⟨tag, K.asRational.2.1, K.asRational.2.2, leBytes 4 num ++ leBytes 4 den⟩

/-- `StringSection` (the allocation `capacity` is not modelled: `data` is the first `size` bytes) -/
structure StringSection where
  offset : Nat := 0
  size : Nat := 0
  data : Bytes := []
deriving Repr, DecidableEq

def StringSection.reset (s : StringSection) (offset : Nat) : StringSection :=
  { s with offset := offset, size := 0, data := [] }

/-- `reserve(nbytes)`: `nbytes` zeroed bytes at the end -/
def StringSection.reserve (s : StringSection) (nbytes : Nat) : StringSection :=
  { offset := s.offset + nbytes, size := s.size + nbytes, data := s.data ++ zeros nbytes }

/-- `tag_t::as_formatted_string`; `text` is what `vsnprintf` produces (`n = |text|`) -/
def asFormattedString (strings : StringSection) (tag : Nat) (text : Bytes) : Tag × StringSection :=
  let n := text.length
  if n > 7 then
    let offset := strings.offset
    let s1 := strings.reserve (n + 1)
    -- vsnprintf(buf, n + 1, ...) into the reserved, zeroed bytes
    let s2 := { s1 with data := strings.data ++ text ++ [0] }
    (⟨tag, K.imageDescriptionLong10.2.1, n + 1, leBytes 8 offset⟩, s2)
  else
    (⟨tag, K.imageDescriptionLong10.2.1, n + 1, text ++ zeros (8 - n)⟩, strings)

def bitsPerSample (b : Nat) : Tag := asU16 K.bitsPerSample.1 b
def imageDescription (strings : StringSection) (text : Bytes) : Tag × StringSection :=
  asFormattedString strings K.imageDescriptionLong10.1 text
def imageWidth (w : Nat) : Tag := asU32 K.imageWidth.1 w
def imageLength (h : Nat) : Tag := asU32 K.imageLength.1 h
def newSubfileTypeMultipage : Tag := asU32 K.newSubfileType.1 K.newSubfileTypeValue
def orientationTopLeft : Tag := asU16 K.orientation.1 K.orientationValue
def photometricBlackIsZero : Tag := asU16 K.photometric.1 K.photometricValue
def resolutionUnitCentimeter : Tag := asU16 K.resolutionUnit.1 K.resolutionUnitValue
def rowsPerStrip (v : Nat) : Tag := asU32 K.rowsPerStrip.1 v

/-- `bytes_of_type` -/
def bytesOfType (type : Nat) : Nat := K.bytesOfTypeTable.getD type 0

/-- `sample_format` (the `switch`) -/
def sampleFormatCode (type : Nat) : Nat :=
  if type = K.stU8 ∨ type = K.stU10 ∨ type = K.stU12 ∨ type = K.stU14 ∨ type = K.stU16 then 1
  else if type = K.stI8 ∨ type = K.stI16 then 2
  else if type = K.stF32 then 3
  else 4

def sampleFormat (type : Nat) : Tag := asU16 K.sampleFormat.1 (sampleFormatCode type)
def samplesPerPixelGrayscale : Tag := asU16 K.samplesPerPixel.1 K.samplesPerPixelValue
def stripByteCounts (v : Nat) : Tag := asU64 K.stripByteCounts.1 v
def stripOffsets (v : Nat) : Tag := asU64 K.stripOffsets.1 v
def uncompressed : Tag := asU16 K.compression.1 K.compressionValue

def xResolution (num den : Nat) : Tag :=
  if den = 0 then asRational K.xResolutionDen0.1 0 1 else asRational K.xResolution.1 num den

/-- as written: the `den == 0` branch returns tag 282 (XResolution), not 283 -/
def yResolution (num den : Nat) : Tag :=
  if den = 0 then asRational K.yResolutionDen0.1 0 1 else asRational K.yResolution.1 num den

/-- `header()` -/
def header : Bytes :=
  leBytes 2 K.hdrFmt ++ leBytes 2 K.hdrVer ++ leBytes 2 K.hdrSizeofOffset ++ leBytes 2 K.hdrZero ++ leBytes 8 K.hdrFirstIfd

/-- `ifd_t<16>` in memory: `ntags`, the tags, `next` -/
def encodeIfd (tags : List Tag) (next : Nat) : Bytes :=
  leBytes 8 tags.length ++ (tags.map Tag.encode).flatten ++ leBytes 8 next

/-- `10000 * (uint32_t)pixel_scale_um_.x` in 32-bit unsigned arithmetic; the scale is
`milli / 1000.0`, whose conversion to `uint32_t` truncates -/
def resolutionDen (milli : Nat) : Nat := (10000 * ((milli / 1000) % 2 ^ 32)) % 2 ^ 32

/-- the first 15 tags of the directory `Tiff::append` assembles for `f` -/
def fixedTags (scaleMilliX scaleMilliY : Nat) (f : Frame) (sectionData : Nat) : List Tag :=
  [ imageWidth f.width,
    imageLength f.height,
    bitsPerSample ((8 * bytesOfType f.type) % 2 ^ 16),
    uncompressed,
    photometricBlackIsZero,
    stripOffsets sectionData,
    rowsPerStrip f.height,
    stripByteCounts f.data.length,
    xResolution (10000 * 10000) (resolutionDen scaleMilliX),
    yResolution (10000 * 10000) (resolutionDen scaleMilliY),
    resolutionUnitCentimeter,
    orientationTopLeft,
    sampleFormat f.type,
    samplesPerPixelGrayscale,
    newSubfileTypeMultipage ]

/-! ## devices -/

inductive DevState where
  | closed | awaiting | armed | running
deriving DecidableEq, Repr, Inhabited

/-- `struct StorageProperties` as far as the TIFF devices read it.  Strings are C strings:
`uri` is the content of `uri.str` (`uri.nbytes = |uri| + 1`); `metadata = none` is
`{str = NULL, nbytes = 0}`, `some s` is `{str = s, nbytes = |s| + 1}`. -/
structure Props where
  uri : Bytes
  metadata : Option Bytes
  scaleMilliX : Nat    -- pixel_scale_um.x = scaleMilliX / 1000.0
  scaleMilliY : Nat
deriving Repr, DecidableEq

/-- effects on the file system, in program order -/
inductive Eff where
  | mkdir (path : Bytes)
  | remove (path : Bytes)                      -- fs::remove (no error if absent)
  | create (path : Bytes)                      -- file_create: open(O_RDWR|O_CREAT), no truncation
  | write (path : Bytes) (off : Nat) (buf : Bytes)   -- file_write on the file opened at `path`
  | close (path : Bytes)
deriving Repr, DecidableEq

/-- `struct Tiff` -/
structure Tiff where
  state : DevState := .awaiting            -- Storage::state (inherited)
  filename : Bytes := []                   -- filename_ (as a C string)
  externalMetadata : Bytes := []           -- external_metadata_
  scaleMilliX : Nat := 1000                -- pixel_scale_um_
  scaleMilliY : Nat := 1000
  file : Bytes := []                       -- file_: the path it was opened on
  lastOffset : Nat := 0
  lastIfdNextOffset : Nat := 0
  frameCount : Nat := 0
  strings : StringSection := {}            -- ifd_strings_
deriving Repr, DecidableEq

/-- `validate_json(str, nbytes)` for `str = s`, `nbytes = |s| + 1` (terminating NUL present) -/
def validateJson (s : Bytes) : Bool :=
  decide (s.length + 1 ≥ 3) && s.head? == some 123 && s.getLast? == some 125

/-- offset of the path inside the uri: 7 if it starts with `file://` -/
def uriOffset (uri : Bytes) : Nat :=
  if uri.length ≥ 7 ∧ uri.take 7 = sFileScheme then 7 else 0

/-- `Tiff::set` (returns the `int` as a `Bool`) -/
def Tiff.set (t : Tiff) (settings : Props) : Tiff × Bool :=
  let filename := settings.uri.drop (uriOffset settings.uri)
  -- CHECK(file_is_writable(filename)) : assumed
  let t := { t with filename := filename }
  match settings.metadata with
  | some s =>
    if s.length + 1 > 1 then
      if validateJson s then
        let t := { t with externalMetadata := s }
        ({ t with scaleMilliX := settings.scaleMilliX, scaleMilliY := settings.scaleMilliY }, true)
      else (t, false)
    else
      let t := { t with externalMetadata := [] }       -- repaired (fixes/16)
      ({ t with scaleMilliX := settings.scaleMilliX, scaleMilliY := settings.scaleMilliY }, true)
  | none =>
    let t := { t with externalMetadata := [] }         -- repaired (fixes/16)
    ({ t with scaleMilliX := settings.scaleMilliX, scaleMilliY := settings.scaleMilliY }, true)

/-- `Tiff::write_` (success path) -/
def Tiff.write_ (t : Tiff) (offset : Nat) (buf : Bytes) : List Eff := [.write t.file offset buf]

/-- `Tiff::start` -/
def Tiff.start (t : Tiff) : Tiff × List Eff :=
  let t := { t with frameCount := 0 }
  let t := { t with file := t.filename }
  let e := [Eff.create t.filename] ++ t.write_ 0 header
  ({ t with lastOffset := K.sizeofHeader }, e)

/-- `Tiff::stop` (with `terminate_ifd_list`) -/
def Tiff.stop (t : Tiff) : Tiff × List Eff :=
  if t.state = .running then
    let e := t.write_ t.lastIfdNextOffset (leBytes 8 0) ++ [Eff.close t.file]
    ({ t with state := .armed, frameCount := 0 }, e)
  else (t, [])

/-- the body of the `for` loop of `Tiff::append` for one frame -/
def Tiff.appendOne (t : Tiff) (cur : Frame) : Tiff × List Eff :=
  let bytesOfImage := cur.data.length
  let sectionIfd := align8 t.lastOffset
  let sectionData := align8 (sectionIfd + K.sizeofIfd)
  let sectionStrings := align8 (sectionData + bytesOfImage)
  let strings := t.strings.reset sectionStrings
  let (desc, strings) :=
    if t.frameCount = 0 ∧ t.externalMetadata.length > 0
    then imageDescription strings (descMeta cur t.externalMetadata)
    else imageDescription strings (descPlain cur)
  let next := align8 strings.offset
  let ifd := encodeIfd (fixedTags t.scaleMilliX t.scaleMilliY cur sectionData ++ [desc]) next
  let e := t.write_ sectionIfd ifd ++ t.write_ sectionData cur.data ++ t.write_ sectionStrings strings.data
  ({ t with strings := strings, lastIfdNextOffset := sectionIfd + K.offsetofNext, lastOffset := next,
            frameCount := t.frameCount + 1 }, e)

/-- the `for` loop of `Tiff::append` over the frames of the packet -/
def Tiff.appendLoop : Tiff → List Frame → Tiff × List Eff
  | t, [] => (t, [])
  | t, cur :: rest =>
    let (t1, e1) := t.appendOne cur
    let (t2, e2) := Tiff.appendLoop t1 rest
    (t2, e1 ++ e2)

/-- `Tiff::append(frames, nbytes)`; an empty packet is `nbytes == 0` -/
def Tiff.append (t : Tiff) (packet : List Frame) : Tiff × List Eff :=
  if packet.isEmpty then (t, []) else t.appendLoop packet

/-! vtable entries (`tiff_set`, `tiff_start`, `tiff_append`, `tiff_stop`, `tiff_destroy`) -/

def tiffSet (t : Tiff) (settings : Props) : Tiff × DevState :=
  let (t, ok) := t.set settings
  (t, if ok then .armed else .awaiting)

def tiffStart (t : Tiff) : Tiff × DevState × List Eff :=
  let (t, e) := t.start
  (t, .running, e)

def tiffStop (t : Tiff) : Tiff × DevState × List Eff :=
  let (t, e) := t.stop
  (t, .armed, e)

def tiffAppend (t : Tiff) (packet : List Frame) : Tiff × DevState × List Eff :=
  let (t, e) := t.append packet
  (t, .running, e)

/-- `tiff_destroy`: `stop` through the vtable, then `delete` (whose destructor calls `stop` again) -/
def tiffDestroy (t : Tiff) : List Eff :=
  let (t, _, e1) := tiffStop t
  let (_, e2) := t.stop
  e1 ++ e2

end AcqVerif.Tiff
