import AcqVerif.Tiff.Model
import AcqVerif.Tiff.Read
/-!
# Byte-level lemmas: little-endian encode/decode, `pwrite`, and "the file holds these bytes here"
-/
namespace AcqVerif.Tiff
open AcqVerif.TiffRead (decodeLE slice? rdLE)

@[simp] theorem leBytes_length (n v : Nat) : (leBytes n v).length = n := by
  induction n generalizing v with
  | zero => rfl
  | succ n ih => simp [leBytes, ih]

@[simp] theorem zeros_length (n : Nat) : (zeros n).length = n := by simp [zeros]

theorem decodeLE_leBytes (n v : Nat) : decodeLE (leBytes n v) = v % 256 ^ n := by
  induction n generalizing v with
  | zero => simp [leBytes, decodeLE, Nat.mod_one]
  | succ n ih =>
    simp only [leBytes, decodeLE, ih]
    have h1 : (UInt8.ofNat (v % 256)).toNat = v % 256 := by
      simp [UInt8.toNat_ofNat']
    rw [h1, Nat.pow_succ, Nat.mul_comm (256 ^ n) 256, Nat.mod_mul]

theorem decodeLE_leBytes_lt (n v : Nat) (h : v < 256 ^ n) : decodeLE (leBytes n v) = v := by
  rw [decodeLE_leBytes, Nat.mod_eq_of_lt h]

theorem decodeLE_append_zeros (b : Bytes) (k : Nat) : decodeLE (b ++ zeros k) = decodeLE b := by
  induction b with
  | nil =>
    induction k with
    | zero => rfl
    | succ k ih => simp [zeros, List.replicate_succ, decodeLE] at *; simp [ih]
  | cons x r ih => simp [decodeLE, ih]

theorem align8_ge (v : Nat) : v ≤ align8 v := by unfold align8; omega
theorem align8_lt (v : Nat) : align8 v < v + 8 := by unfold align8; omega
theorem align8_align8 (v : Nat) : align8 (align8 v) = align8 v := by unfold align8; omega
theorem align8_mono {a b : Nat} (h : a ≤ b) : align8 a ≤ align8 b := by unfold align8; omega

/-! ## `Holds f off d` : the file `f` contains the bytes `d` at offset `off` -/

def Holds (f : Bytes) (off : Nat) (d : Bytes) : Prop := ∀ i, i < d.length → f[off + i]? = d[i]?

theorem Holds.nil (f : Bytes) (off : Nat) : Holds f off [] := by intro i h; simp at h

theorem Holds.bound {f : Bytes} {off : Nat} {d : Bytes} (h : Holds f off d) (hd : d ≠ []) :
    off + d.length ≤ f.length := by
  have hl : 0 < d.length := List.length_pos_iff.mpr hd
  have := h (d.length - 1) (by omega)
  have h2 : d[d.length - 1]? ≠ none := by simp; omega
  rw [← this] at h2
  simp at h2
  omega

theorem holds_append {f : Bytes} {off : Nat} {a b : Bytes} :
    Holds f off (a ++ b) ↔ Holds f off a ∧ Holds f (off + a.length) b := by
  constructor
  · intro h
    constructor
    · intro i hi
      have := h i (by simp; omega)
      rw [this, List.getElem?_append_left hi]
    · intro i hi
      have := h (a.length + i) (by simp; omega)
      rw [Nat.add_assoc, this, List.getElem?_append_right (by omega)]
      simp
  · intro ⟨ha, hb⟩ i hi
    simp at hi
    by_cases hlt : i < a.length
    · rw [ha i hlt, List.getElem?_append_left hlt]
    · have := hb (i - a.length) (by omega)
      rw [List.getElem?_append_right (by omega), ← this]
      congr 1; omega

/-- reading back through the bounds-checked slice -/
theorem Holds.slice {f : Bytes} {off : Nat} {d : Bytes} (h : Holds f off d) (hb : off + d.length ≤ f.length) :
    slice? f off d.length = some d := by
  unfold slice?
  rw [if_pos hb]
  congr 1
  apply List.ext_getElem?
  intro i
  by_cases hi : i < d.length
  · rw [List.getElem?_take_of_lt hi, List.getElem?_drop, h i hi]
  · rw [List.getElem?_take_eq_none (by omega)]
    simp at hi
    exact (List.getElem?_eq_none hi).symm

theorem Holds.slice' {f : Bytes} {off n : Nat} {d : Bytes} (h : Holds f off d) (hb : off + d.length ≤ f.length)
    (hn : n = d.length) : slice? f off n = some d := by subst hn; exact h.slice hb

/-- reading back an `n`-byte little-endian integer -/
theorem Holds.rdLE {f : Bytes} {off n v : Nat} (h : Holds f off (leBytes n v)) (hn : 0 < n) (hv : v < 256 ^ n) :
    rdLE f off n = some v := by
  have hne : leBytes n v ≠ [] := by
    intro e; have := leBytes_length n v; rw [e] at this; simp at this; omega
  have hb := h.bound hne
  unfold AcqVerif.TiffRead.rdLE
  have := h.slice hb
  simp only [leBytes_length] at this hb
  rw [this]
  simp [decodeLE_leBytes_lt n v hv]

/-! ## `pwrite` -/

theorem pwrite_nil (f : Bytes) (off : Nat) : pwrite f off [] = f := by simp [pwrite]

theorem pwrite_length (f : Bytes) (off : Nat) (d : Bytes) (hd : d ≠ []) :
    (pwrite f off d).length = max f.length (off + d.length) := by
  unfold pwrite
  have : d.isEmpty = false := by cases d <;> simp_all
  simp [this]
  omega

theorem pwrite_length_ge (f : Bytes) (off : Nat) (d : Bytes) : f.length ≤ (pwrite f off d).length := by
  by_cases hd : d = []
  · subst hd; simp [pwrite]
  · rw [pwrite_length f off d hd]; omega

theorem pwrite_get_inside (f : Bytes) (off : Nat) (d : Bytes) (i : Nat) (hi : i < d.length) :
    (pwrite f off d)[off + i]? = d[i]? := by
  unfold pwrite
  have : d.isEmpty = false := by cases d <;> simp_all
  simp only [this, Bool.false_eq_true, if_false]
  have hlen : ((f ++ zeros (off - f.length)).take off).length = off := by simp; omega
  rw [List.append_assoc, List.getElem?_append_right (by omega), hlen, List.getElem?_append_left (by omega)]
  congr 1; omega

theorem pwrite_get_before (f : Bytes) (off : Nat) (d : Bytes) (i : Nat) (hi : i < off) (hf : i < f.length) :
    (pwrite f off d)[i]? = f[i]? := by
  unfold pwrite
  split
  · rfl
  · have hlen : ((f ++ zeros (off - f.length)).take off).length = off := by simp; omega
    rw [List.append_assoc, List.getElem?_append_left (by omega), List.getElem?_take_of_lt hi,
      List.getElem?_append_left hf]

theorem pwrite_get_after (f : Bytes) (off : Nat) (d : Bytes) (i : Nat) (hi : off + d.length ≤ i) :
    (pwrite f off d)[i]? = f[i]? := by
  unfold pwrite
  split
  · rfl
  · have hlen : ((f ++ zeros (off - f.length)).take off).length = off := by simp; omega
    rw [List.append_assoc, List.getElem?_append_right (by omega), hlen,
      List.getElem?_append_right (by omega), List.getElem?_drop]
    congr 1; omega

theorem holds_pwrite_self (f : Bytes) (off : Nat) (d : Bytes) : Holds (pwrite f off d) off d := by
  intro i hi; exact pwrite_get_inside f off d i hi

/-- a later write that does not touch `[o, o+|d'|)` leaves those bytes alone -/
theorem holds_pwrite_of_disjoint {f : Bytes} {o : Nat} {d' : Bytes} (h : Holds f o d') (off : Nat) (d : Bytes)
    (hdis : o + d'.length ≤ off ∨ off + d.length ≤ o) : Holds (pwrite f off d) o d' := by
  intro i hi
  have hfi := h i hi
  have hlt : o + i < f.length := by
    have h2 : d'[i]? ≠ none := by simp; omega
    rw [← hfi] at h2; simp at h2; omega
  rcases hdis with hd | hd
  · rw [pwrite_get_before f off d (o + i) (by omega) hlt]; exact hfi
  · rw [pwrite_get_after f off d (o + i) (by omega)]; exact hfi

end AcqVerif.Tiff
