import AcqVerif.Tiff.Model
/-!
# Model of `side-by-side-tiff.cpp` (device `tiff-json`), of the HAL wrappers that
drive a storage device (`device/hal/storage.c`: the only code that assigns
`Storage.state` of a top-level device), and of the file system the effects act on.

REPAIRED code (fixes/15): `side_by_side_tiff_start` stores the states returned by the
inner writer's `set` and `start` into the inner writer's `state`, as the HAL does for a
top-level device; without that the inner `Tiff::stop` never finalises the file.
(fixes/19): it removes an existing `metadata.json` before creating the new one.

Assumed (not modelled): the parent directory exists and is writable (`validate`),
`fs::create_directory` succeeds, `(path / "data.tif")` is `path ++ "/data.tif"` (the uri does
not end in `/`), `storage_properties_copy` succeeds (no acquisition dimensions: C13).
-/
namespace AcqVerif.Tiff

/-- `/data.tif` -/
def sDataTif : Bytes := [47, 100, 97, 116, 97, 46, 116, 105, 102]
/-- `/metadata.json` -/
def sMetadataJson : Bytes := [47, 109, 101, 116, 97, 100, 97, 116, 97, 46, 106, 115, 111, 110]

/-- `struct SideBySideTiff`; `props` after `storage_properties_copy`: strings are never NULL there
(`copy_string` turns NULL into `""`), so `metadata : Bytes` with `nbytes = |metadata| + 1` -/
structure Sxs where
  state : DevState := .closed      -- storage.state (zero initialised)
  tiff : Tiff := {}
  uri : Bytes := []                -- props.uri
  metadata : Bytes := []           -- props.external_metadata_json
  scaleMilliX : Nat := 0
  scaleMilliY : Nat := 0
deriving Repr, DecidableEq

/-- `validate_json` of side-by-side-tiff.cpp (throws ⇒ `false`) -/
def sxsValidateJson (m : Option Bytes) : Bool :=
  match m with
  | none => true
  | some s => validateJson s

/-- `side_by_side_tiff_set` -/
def sxsSet (s : Sxs) (props : Props) : Sxs × DevState :=
  if !sxsValidateJson props.metadata then (s, .awaiting) else
  -- storage_properties_copy(&self->props, props)
  let s := { s with uri := props.uri, metadata := props.metadata.getD [],
                    scaleMilliX := props.scaleMilliX, scaleMilliY := props.scaleMilliY }
  let offset := uriOffset props.uri
  let s := if offset ≠ 0 then { s with uri := props.uri.drop offset } else s
  (s, .armed)

/-- `side_by_side_tiff_start` -/
def sxsStart (s : Sxs) : Sxs × DevState × List Eff :=
  let path := s.uri
  let e1 := [Eff.mkdir path]
  -- props.external_metadata_json.nbytes is never 0 after a copy
  let metadataPath := path ++ sMetadataJson
  -- repaired (fixes/19): the previous metadata.json is removed first (file_create does not truncate)
  let e2 := [Eff.remove metadataPath, Eff.create metadataPath, Eff.write metadataPath 0 s.metadata,
    Eff.close metadataPath]
  let videoPath := path ++ sDataTif
  let props : Props := { uri := videoPath, metadata := some s.metadata,
                         scaleMilliX := s.scaleMilliX, scaleMilliY := s.scaleMilliY }
  let (t, state) := tiffSet s.tiff props
  if state ≠ .armed then ({ s with tiff := t }, .awaiting, e1 ++ e2) else
  let t := { t with state := state }            -- repaired (fixes/15)
  let (t, state, e3) := tiffStart t
  if state ≠ .running then ({ s with tiff := t }, .awaiting, e1 ++ e2 ++ e3) else
  let t := { t with state := state }            -- repaired (fixes/15)
  ({ s with tiff := t }, state, e1 ++ e2 ++ e3)

/-- `side_by_side_tiff_stop` -/
def sxsStop (s : Sxs) : Sxs × DevState × List Eff :=
  let (t, state, e) := tiffStop s.tiff
  ({ s with tiff := t }, if state = .armed then .armed else .awaiting, e)

/-- `side_by_side_tiff_append` -/
def sxsAppend (s : Sxs) (packet : List Frame) : Sxs × DevState × List Eff :=
  let (t, state, e) := tiffAppend s.tiff packet
  if state = .running then ({ s with tiff := t }, .running, e)
  else
    let (s, st, e2) := sxsStop { s with tiff := t }
    (s, st, e ++ e2)

/-- `side_by_side_tiff_destroy` -/
def sxsDestroy (s : Sxs) : List Eff :=
  let (s, _, e1) := sxsStop s
  e1 ++ tiffDestroy s.tiff

/-! ## a storage device behind the HAL -/

inductive Device where
  | tiff (t : Tiff)
  | sxs (s : Sxs)
deriving Repr, DecidableEq

def Device.state : Device → DevState
  | .tiff t => t.state
  | .sxs s => s.state

def Device.setState : Device → DevState → Device
  | .tiff t, st => .tiff { t with state := st }
  | .sxs s, st => .sxs { s with state := st }

def Device.vset : Device → Props → Device × DevState
  | .tiff t, p => let (t, st) := tiffSet t p; (.tiff t, st)
  | .sxs s, p => let (s, st) := sxsSet s p; (.sxs s, st)

def Device.vstart : Device → Device × DevState × List Eff
  | .tiff t => let (t, st, e) := tiffStart t; (.tiff t, st, e)
  | .sxs s => let (s, st, e) := sxsStart s; (.sxs s, st, e)

def Device.vappend : Device → List Frame → Device × DevState × List Eff
  | .tiff t, p => let (t, st, e) := tiffAppend t p; (.tiff t, st, e)
  | .sxs s, p => let (s, st, e) := sxsAppend s p; (.sxs s, st, e)

def Device.vstop : Device → Device × DevState × List Eff
  | .tiff t => let (t, st, e) := tiffStop t; (.tiff t, st, e)
  | .sxs s => let (s, st, e) := sxsStop s; (.sxs s, st, e)

def Device.vdestroy : Device → List Eff
  | .tiff t => tiffDestroy t
  | .sxs s => sxsDestroy s

/-- `storage_set`: `self->state = self->set(self, settings)`; `true` = `Device_Ok` -/
def storageSet (d : Device) (p : Props) : Device × Bool :=
  let (d, st) := d.vset p
  (d.setState st, st = .armed)

/-- `storage_start` -/
def storageStart (d : Device) : Device × Bool × List Eff :=
  if d.state ≠ .armed then (d, false, []) else
  let (d, st, e) := d.vstart
  (d.setState st, st = .running, e)

/-- `storage_append(self, beg, end)`; `beg < end` iff the packet is not empty -/
def storageAppend (d : Device) (packet : List Frame) : Device × Bool × List Eff :=
  if d.state ≠ .running then (d, false, []) else
  if packet.isEmpty then (d, true, []) else
  let (d, st, e) := d.vappend packet
  (d.setState st, st = .running, e)

/-- `storage_stop` -/
def storageStop (d : Device) : Device × Bool × List Eff :=
  if d.state = .running then
    let (d, st, e) := d.vstop
    (d.setState st, st = .armed ∨ st = .awaiting, e)
  else (d, true, [])

/-! ## files -/

/-- the files (path ↦ content) the effects act on -/
abbrev Files := List (Bytes × Bytes)

def Files.get (w : Files) (p : Bytes) : Option Bytes := (w.find? (·.1 == p)).map (·.2)

def Files.put (w : Files) (p : Bytes) (c : Bytes) : Files :=
  match w with
  | [] => [(p, c)]
  | (q, d) :: rest => if q == p then (q, c) :: rest else (q, d) :: Files.put rest p c

def Files.apply (w : Files) : Eff → Files
  | .mkdir _ => w
  | .remove p => w.filter (fun e => !(e.1 == p))
  | .create p => match w.get p with | some _ => w | none => w.put p []
  | .write p off buf => w.put p (pwrite ((w.get p).getD []) off buf)
  | .close _ => w

def Files.applyAll (w : Files) (es : List Eff) : Files := es.foldl Files.apply w

end AcqVerif.Tiff
