import AcqVerif.Tiff.Layout
import AcqVerif.Tiff.BytesLemmas
/-!
# From the writes of an acquisition to "the final file holds every structure"

`FramesIn F cfg fin last idx frames` says that the file `F` contains, for every
frame, the directory (tags, then the `next` link), the strip and the string
section at the offsets of the layout, the last link being `fin`.  It is
established for the file produced by `tiffWrites` with `fin = 0`.
-/
namespace AcqVerif.Tiff

/-- offsets increase and the writes do not overlap: each starts at or after the end of the previous -/
def SortedFrom : Nat → List (Nat × Bytes) → Prop
  | _, [] => True
  | lo, w :: rest => lo ≤ w.1 ∧ SortedFrom (w.1 + w.2.length) rest

theorem applyWrites_cons (f : Bytes) (w : Nat × Bytes) (ws : List (Nat × Bytes)) :
    applyWrites f (w :: ws) = applyWrites (pwrite f w.1 w.2) ws := rfl

theorem applyWrites_append (f : Bytes) (a b : List (Nat × Bytes)) :
    applyWrites f (a ++ b) = applyWrites (applyWrites f a) b := by
  simp [applyWrites, List.foldl_append]

theorem applyWrites_length_ge (f : Bytes) (ws : List (Nat × Bytes)) : f.length ≤ (applyWrites f ws).length := by
  induction ws generalizing f with
  | nil => exact Nat.le_refl _
  | cons w ws ih => rw [applyWrites_cons]; exact Nat.le_trans (pwrite_length_ge f w.1 w.2) (ih _)

/-- bytes below `lo` survive writes that all start at or after `lo` -/
theorem applyWrites_preserves {lo : Nat} {ws : List (Nat × Bytes)} (hs : SortedFrom lo ws) {f : Bytes} {o : Nat}
    {d : Bytes} (h : Holds f o d) (hlo : o + d.length ≤ lo) : Holds (applyWrites f ws) o d := by
  induction ws generalizing f lo with
  | nil => exact h
  | cons w ws ih =>
    obtain ⟨h1, h2⟩ := hs
    rw [applyWrites_cons]
    exact ih h2 (holds_pwrite_of_disjoint h w.1 w.2 (Or.inl (by omega))) (by omega)

/-- after a sorted list of writes the file holds every one of them -/
theorem applyWrites_holds {lo : Nat} {ws : List (Nat × Bytes)} (hs : SortedFrom lo ws) (f : Bytes) :
    ∀ w ∈ ws, Holds (applyWrites f ws) w.1 w.2 := by
  induction ws generalizing f lo with
  | nil => intro w hw; cases hw
  | cons w0 ws ih =>
    obtain ⟨h1, h2⟩ := hs
    intro w hw
    rw [applyWrites_cons]
    rcases List.mem_cons.mp hw with rfl | hw
    · exact applyWrites_preserves h2 (holds_pwrite_self f w.1 w.2) (Nat.le_refl _)
    · exact ih h2 _ w hw

/-! ## sizes -/

theorem tag_encode_length (t : Tag) (h : t.value.length = 8) : t.encode.length = 20 := by
  simp [Tag.encode, h]

/-- `ntags` and the tags -/
def ifdBody (tags : List Tag) : Bytes := leBytes 8 tags.length ++ (tags.map Tag.encode).flatten

theorem encodeIfd_eq (tags : List Tag) (next : Nat) : encodeIfd tags next = ifdBody tags ++ leBytes 8 next := rfl

theorem xResolution_value (n d : Nat) : (xResolution n d).value.length = 8 := by
  unfold xResolution; split <;> simp [asRational]

theorem yResolution_value (n d : Nat) : (yResolution n d).value.length = 8 := by
  unfold yResolution; split <;> simp [asRational]

theorem ifdTags_values (cfg : Cfg) (f : Frame) (L : Layout) (desc : Bytes) :
    ∀ t ∈ ifdTags cfg f L desc, t.value.length = 8 := by
  intro t ht
  simp only [ifdTags, fixedTags, List.mem_append, List.mem_cons, List.mem_nil_iff, or_false] at ht
  rcases ht with (h | h | h | h | h | h | h | h | h | h | h | h | h | h | h) | h <;> subst h <;>
    first
    | exact xResolution_value _ _
    | exact yResolution_value _ _
    | simp [imageWidth, imageLength, bitsPerSample, uncompressed, photometricBlackIsZero, stripOffsets, rowsPerStrip,
        stripByteCounts, resolutionUnitCentimeter, orientationTopLeft, sampleFormat, samplesPerPixelGrayscale,
        newSubfileTypeMultipage, descTag, asU16, asU32, asU64]

theorem ifdTags_length (cfg : Cfg) (f : Frame) (L : Layout) (desc : Bytes) : (ifdTags cfg f L desc).length = 16 := by
  simp [ifdTags, fixedTags]

theorem flatten_encode_length (tags : List Tag) (h : ∀ t ∈ tags, t.value.length = 8) :
    (tags.map Tag.encode).flatten.length = 20 * tags.length := by
  induction tags with
  | nil => rfl
  | cons t ts ih =>
    simp only [List.map_cons, List.flatten_cons, List.length_append, List.length_cons]
    rw [tag_encode_length t (h t (List.mem_cons_self)), ih (fun t ht => h t (List.mem_cons_of_mem _ ht))]
    omega

theorem ifdBody_length (cfg : Cfg) (f : Frame) (L : Layout) (desc : Bytes) :
    (ifdBody (ifdTags cfg f L desc)).length = K.offsetofNext := by
  simp only [ifdBody, List.length_append, leBytes_length]
  rw [flatten_encode_length _ (ifdTags_values cfg f L desc), ifdTags_length]
  rfl

theorem encodeIfd_length (cfg : Cfg) (f : Frame) (L : Layout) (desc : Bytes) (next : Nat) :
    (encodeIfd (ifdTags cfg f L desc) next).length = K.sizeofIfd := by
  rw [encodeIfd_eq, List.length_append, ifdBody_length, leBytes_length]; rfl

/-! ## the layout is ordered -/

theorem layout_order (last dataLen descLen : Nat) :
    let L := layout last dataLen descLen
    last ≤ L.ifdOff ∧ L.ifdOff + K.sizeofIfd ≤ L.dataOff ∧ L.dataOff + dataLen ≤ L.strOff ∧
      L.strOff + (descLen + 1) ≤ L.next := by
  simp only [layout]
  exact ⟨align8_ge _, align8_ge _, align8_ge _, align8_ge _⟩

theorem frameWrites_sorted (cfg : Cfg) (last idx : Nat) (frames : List Frame) :
    SortedFrom last (frameWrites cfg last idx frames) := by
  induction frames generalizing last idx with
  | nil => trivial
  | cons f rest ih =>
    have ho := layout_order last f.data.length (descOf cfg idx f).length
    simp only [frameWrites, SortedFrom, frameLayout] at *
    rw [encodeIfd_length]
    refine ⟨ho.1, ho.2.1, ho.2.2.1, ?_⟩
    have := ih (layout last f.data.length (descOf cfg idx f).length).next (idx + 1)
    simp only [List.length_append, List.length_cons, List.length_nil]
    -- the tail starts at L.next ≥ strOff + |desc| + 1
    exact sortedFrom_mono ho.2.2.2 this
where
  sortedFrom_mono {a b : Nat} {ws : List (Nat × Bytes)} (h : a ≤ b) (hs : SortedFrom b ws) : SortedFrom a ws := by
    cases ws with
    | nil => trivial
    | cons w ws => exact ⟨Nat.le_trans h hs.1, hs.2⟩

/-! ## `FramesIn` -/

def FramesIn (F : Bytes) (cfg : Cfg) (fin : Nat) : Nat → Nat → List Frame → Prop
  | _, _, [] => True
  | last, idx, f :: rest =>
    let desc := descOf cfg idx f
    let L := frameLayout cfg last idx f
    Holds F L.ifdOff (ifdBody (ifdTags cfg f L desc)) ∧
    Holds F (L.ifdOff + K.offsetofNext) (leBytes 8 (if rest.isEmpty then fin else L.next)) ∧
    Holds F L.dataOff f.data ∧
    Holds F L.strOff (desc ++ [0]) ∧
    FramesIn F cfg fin L.next (idx + 1) rest

theorem endOff_cons (cfg : Cfg) (last idx : Nat) (f : Frame) (rest : List Frame) :
    endOff cfg last idx (f :: rest) = endOff cfg (frameLayout cfg last idx f).next (idx + 1) rest := rfl

/-- if the file holds every write of the frames, it holds the (unterminated) structures -/
theorem framesIn_of_holds (F : Bytes) (cfg : Cfg) (last idx : Nat) (frames : List Frame)
    (h : ∀ w ∈ frameWrites cfg last idx frames, Holds F w.1 w.2) :
    FramesIn F cfg (endOff cfg last idx frames) last idx frames := by
  induction frames generalizing last idx with
  | nil => trivial
  | cons f rest ih =>
    simp only [frameWrites, List.mem_cons, forall_eq_or_imp] at h
    obtain ⟨hifd, hdata, hstr, hrest⟩ := h
    simp only [FramesIn]
    rw [encodeIfd_eq, holds_append, ifdBody_length] at hifd
    refine ⟨hifd.1, ?_, hdata, hstr, ?_⟩
    · cases rest with
      | nil => simpa [endOff] using hifd.2
      | cons g r => simpa using hifd.2
    · rw [endOff_cons]; exact ih _ _ hrest

theorem lastNextOff_ge (cfg : Cfg) (last idx : Nat) (frames : List Frame) (d : Nat) (hne : frames ≠ []) :
    last + K.offsetofNext ≤ lastNextOff cfg last idx frames d := by
  induction frames generalizing last idx d with
  | nil => exact absurd rfl hne
  | cons f rest ih =>
    have ho := layout_order last f.data.length (descOf cfg idx f).length
    cases rest with
    | nil => simp only [lastNextOff, frameLayout]; omega
    | cons g r =>
      have := ih (frameLayout cfg last idx f).next (idx + 1) ((frameLayout cfg last idx f).ifdOff + K.offsetofNext) (by simp)
      simp only [lastNextOff, frameLayout] at *
      have hk : K.sizeofIfd = 336 := rfl
      omega

/-- writing the last link: every other structure is left alone -/
theorem framesIn_terminate (F : Bytes) (cfg : Cfg) (fin fin' : Nat) (last idx : Nat) (frames : List Frame) (d : Nat)
    (hne : frames ≠ []) (h : FramesIn F cfg fin last idx frames) :
    FramesIn (pwrite F (lastNextOff cfg last idx frames d) (leBytes 8 fin')) cfg fin' last idx frames := by
  induction frames generalizing last idx d with
  | nil => exact absurd rfl hne
  | cons f rest ih =>
    have ho := layout_order last f.data.length (descOf cfg idx f).length
    have hk : K.sizeofIfd = 336 := rfl
    have hk2 : K.offsetofNext = 328 := rfl
    simp only [FramesIn] at h ⊢
    obtain ⟨hbody, hnext, hdata, hstr, hrest⟩ := h
    have hbl := ifdBody_length cfg f (frameLayout cfg last idx f) (descOf cfg idx f)
    cases rest with
    | nil =>
      simp only [lastNextOff, frameLayout, List.isEmpty_nil, if_true] at *
      refine ⟨holds_pwrite_of_disjoint hbody _ _ (Or.inl (by omega)), holds_pwrite_self _ _ _,
        holds_pwrite_of_disjoint hdata _ _ (Or.inr (by simp; omega)),
        holds_pwrite_of_disjoint hstr _ _ (Or.inr (by simp; omega)), trivial⟩
    | cons g r =>
      have hge := lastNextOff_ge cfg (frameLayout cfg last idx f).next (idx + 1) (g :: r)
        ((frameLayout cfg last idx f).ifdOff + K.offsetofNext) (by simp)
      have := ih (frameLayout cfg last idx f).next (idx + 1)
        ((frameLayout cfg last idx f).ifdOff + K.offsetofNext) (by simp) hrest
      simp only [lastNextOff, frameLayout, List.isEmpty_cons, Bool.false_eq_true, if_false] at *
      refine ⟨holds_pwrite_of_disjoint hbody _ _ (Or.inl (by omega)),
        holds_pwrite_of_disjoint hnext _ _ (Or.inl (by simp; omega)),
        holds_pwrite_of_disjoint hdata _ _ (Or.inl (by omega)),
        holds_pwrite_of_disjoint hstr _ _ (Or.inl (by simp; omega)), this⟩

theorem header_length : header.length = K.sizeofHeader := by simp [header]; rfl

/-- the file of an acquisition holds the header and every structure of every frame, last link 0 -/
theorem tiffFile_holds (old : Bytes) (cfg : Cfg) (frames : List Frame) (hne : frames ≠ []) :
    Holds (tiffFile old cfg frames) 0 header ∧
      FramesIn (tiffFile old cfg frames) cfg 0 K.sizeofHeader 0 frames := by
  have hs := frameWrites_sorted cfg K.sizeofHeader 0 frames
  have hge := lastNextOff_ge cfg K.sizeofHeader 0 frames 0 hne
  have hfile : tiffFile old cfg frames =
      pwrite (applyWrites (pwrite old 0 header) (frameWrites cfg K.sizeofHeader 0 frames))
        (lastNextOff cfg K.sizeofHeader 0 frames 0) (leBytes 8 0) := by
    simp [tiffFile, tiffWrites, applyWrites, List.foldl_append]
  rw [hfile]
  constructor
  · have h0 : Holds (pwrite old 0 header) 0 header := holds_pwrite_self _ _ _
    have h1 := applyWrites_preserves hs h0 (by rw [header_length]; omega)
    exact holds_pwrite_of_disjoint h1 _ _ (Or.inl (by rw [header_length]; omega))
  · have h1 := applyWrites_holds hs (pwrite old 0 header)
    have h2 := framesIn_of_holds _ cfg K.sizeofHeader 0 frames h1
    exact framesIn_terminate _ cfg _ 0 K.sizeofHeader 0 frames 0 hne h2

end AcqVerif.Tiff
