/-!
# An independent little-endian BigTIFF reader

Written against the BigTIFF layout (header `II`, version 43, offset size 8;
directories of 20-byte entries with 8-byte counts, values and links), not
against the writer: it imports nothing from the model and uses no constant
extracted from `tiff.cpp`.  Every access is bounds checked; following the `next`
links is fuelled by the file length, so a cyclic or dangling chain is `none`.

It is the reader the round-trip theorems of C15 are about, and the check also
runs it (through the driver) on the files the real code produced.
-/
namespace AcqVerif.TiffRead

abbrev Bytes := List UInt8

/-- little-endian value of a byte string -/
def decodeLE : Bytes → Nat
  | [] => 0
  | b :: rest => b.toNat + 256 * decodeLE rest

/-- the `n` bytes at `off`, if they all lie inside the file -/
def slice? (f : Bytes) (off n : Nat) : Option Bytes :=
  if off + n ≤ f.length then some ((f.drop off).take n) else none

/-- an unsigned little-endian integer of `n` bytes at `off` -/
def rdLE (f : Bytes) (off n : Nat) : Option Nat := (slice? f off n).map decodeLE

/-- one directory entry: tag id, field type, count, and the 8 bytes of the value/offset field -/
structure Entry where
  tag : Nat
  type : Nat
  count : Nat
  value : Bytes
deriving Repr, DecidableEq

def readEntry (f : Bytes) (off : Nat) : Option Entry := do
  let tag ← rdLE f off 2
  let type ← rdLE f (off + 2) 2
  let count ← rdLE f (off + 4) 8
  let value ← slice? f (off + 12) 8
  some ⟨tag, type, count, value⟩

/-- `n` consecutive entries starting at `off` -/
def readEntries (f : Bytes) : Nat → Nat → Option (List Entry)
  | _, 0 => some []
  | off, n + 1 => do
    let e ← readEntry f off
    let es ← readEntries f (off + 20) n
    some (e :: es)

/-- a directory at `off`: its entries and the link to the next directory -/
def readIfd (f : Bytes) (off : Nat) : Option (List Entry × Nat) := do
  let n ← rdLE f off 8
  let es ← readEntries f (off + 8) n
  let next ← rdLE f (off + 8 + 20 * n) 8
  some (es, next)

def findEntry (es : List Entry) (tag : Nat) : Option Entry := es.find? (·.tag == tag)

/-- a single unsigned integer (SHORT, LONG or LONG8, count 1), stored inline -/
def scalar (es : List Entry) (tag : Nat) : Option Nat := do
  let e ← findEntry es tag
  if e.count ≠ 1 then none else
  if e.type = 3 then some (decodeLE (e.value.take 2))
  else if e.type = 4 then some (decodeLE (e.value.take 4))
  else if e.type = 16 then some (decodeLE e.value)
  else none

/-- what the reader reports for one directory -/
structure Page where
  ifdOffset : Nat
  ntags : Nat
  width : Nat
  height : Nat
  bitsPerSample : Nat
  sampleFormat : Nat
  stripOffset : Nat
  stripByteCount : Nat
  strip : Bytes
  descInline : Bool          -- the description is stored inside the entry (≤ 8 bytes)
  descOffset : Nat
  descCount : Nat
  description : Bytes        -- `descCount` bytes (the last one is the terminating NUL)
  next : Nat
deriving Repr, DecidableEq

/-- position of the entry with tag `tag` among the entries (to locate inline values) -/
def entryIndex (es : List Entry) (tag : Nat) : Nat := (es.findIdx (·.tag == tag))

def mkPage (f : Bytes) (off : Nat) (es : List Entry) (next : Nat) : Option Page := do
  let width ← scalar es 256
  let height ← scalar es 257
  let bits ← scalar es 258
  let fmt ← scalar es 339
  let stripOffset ← scalar es 273
  let stripByteCount ← scalar es 279
  let strip ← slice? f stripOffset stripByteCount
  let d ← findEntry es 270
  if d.type ≠ 2 then none else
  let inline := decide (d.count ≤ 8)
  let descOffset := if inline then off + 8 + 20 * entryIndex es 270 + 12 else decodeLE d.value
  let description ← slice? f descOffset d.count
  some { ifdOffset := off, ntags := es.length, width := width, height := height, bitsPerSample := bits,
         sampleFormat := fmt, stripOffset := stripOffset, stripByteCount := stripByteCount, strip := strip,
         descInline := inline, descOffset := descOffset, descCount := d.count, description := description,
         next := next }

/-- follow the chain of directories from `off`; link 0 ends it -/
def readChain (f : Bytes) : Nat → Nat → Option (List Page)
  | 0, _ => none
  | fuel + 1, off =>
    if off = 0 then some [] else do
      let (es, next) ← readIfd f off
      let page ← mkPage f off es next
      let rest ← readChain f fuel next
      some (page :: rest)

/-- header: `II`, 43, offset size 8, reserved 0, offset of the first directory -/
def readHeader (f : Bytes) : Option Nat := do
  let fmt ← rdLE f 0 2
  let ver ← rdLE f 2 2
  let szo ← rdLE f 4 2
  let rsv ← rdLE f 6 2
  let first ← rdLE f 8 8
  if fmt = 0x4949 ∧ ver = 43 ∧ szo = 8 ∧ rsv = 0 then some first else none

def readTiff (f : Bytes) : Option (List Page) := do
  let first ← readHeader f
  readChain f (f.length + 1) first

/-- the byte ranges `(offset, length)` of the structures of a file as the reader found them, in the
order header, then per page: directory, strip, description (if it is not inline) -/
def Page.regions (p : Page) : List (Nat × Nat) :=
  [(p.ifdOffset, 8 + 20 * p.ntags + 8), (p.stripOffset, p.stripByteCount)] ++
    (if p.descInline then [] else [(p.descOffset, p.descCount)])

def regions (pages : List Page) : List (Nat × Nat) := (0, 16) :: (pages.map Page.regions).flatten

end AcqVerif.TiffRead
