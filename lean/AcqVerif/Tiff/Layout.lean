import AcqVerif.Tiff.Sxs
import AcqVerif.Tiff.Read
/-!
# Closed form of what one acquisition writes

`tiffWrites cfg frames` is the list of `(offset, bytes)` writes of one acquisition
(`Tiff::start`, `Tiff::append` for every frame in order, `Tiff::stop`), as a plain
recursion over the frames; `tiffFile old cfg frames` is the resulting file when
the path held `old` before (`file_create` does not truncate).  `expectedPages`
is what a BigTIFF reader should find in it.  `Tiff/MachineLemmas.lean` proves
that the state machine of `Model.lean` / `Sxs.lean` — from any prior state, for
any grouping of the frames into packets — issues exactly these writes.
-/
namespace AcqVerif.Tiff

/-- what the writer remembers of the configuration during an acquisition -/
structure Cfg where
  metadata : Bytes        -- external_metadata_
  scaleMilliX : Nat
  scaleMilliY : Nat
deriving Repr, DecidableEq

/-- the description text of frame number `idx` of the file -/
def descOf (cfg : Cfg) (idx : Nat) (f : Frame) : Bytes :=
  if idx = 0 ∧ cfg.metadata.length > 0 then descMeta f cfg.metadata else descPlain f

/-- section offsets of one frame when the previous data ended at `last` -/
structure Layout where
  ifdOff : Nat
  dataOff : Nat
  strOff : Nat
  next : Nat
deriving Repr, DecidableEq

def layout (last dataLen descLen : Nat) : Layout :=
  let ifdOff := align8 last
  let dataOff := align8 (ifdOff + K.sizeofIfd)
  let strOff := align8 (dataOff + dataLen)
  { ifdOff := ifdOff, dataOff := dataOff, strOff := strOff, next := align8 (strOff + (descLen + 1)) }

def frameLayout (cfg : Cfg) (last idx : Nat) (f : Frame) : Layout :=
  layout last f.data.length (descOf cfg idx f).length

/-- the ImageDescription entry: ASCII, count = text + NUL, value = offset of the string section -/
def descTag (strOff : Nat) (desc : Bytes) : Tag :=
  ⟨K.imageDescriptionLong10.1, K.imageDescriptionLong10.2.1, desc.length + 1, leBytes 8 strOff⟩

def ifdTags (cfg : Cfg) (f : Frame) (L : Layout) (desc : Bytes) : List Tag :=
  fixedTags cfg.scaleMilliX cfg.scaleMilliY f L.dataOff ++ [descTag L.strOff desc]

/-- the three writes per frame -/
def frameWrites (cfg : Cfg) : Nat → Nat → List Frame → List (Nat × Bytes)
  | _, _, [] => []
  | last, idx, f :: rest =>
    let desc := descOf cfg idx f
    let L := frameLayout cfg last idx f
    (L.ifdOff, encodeIfd (ifdTags cfg f L desc) L.next) :: (L.dataOff, f.data) :: (L.strOff, desc ++ [0]) ::
      frameWrites cfg L.next (idx + 1) rest

/-- `last_offset_` after the frames -/
def endOff (cfg : Cfg) : Nat → Nat → List Frame → Nat
  | last, _, [] => last
  | last, idx, f :: rest => endOff cfg (frameLayout cfg last idx f).next (idx + 1) rest

/-- `last_ifd_next_offset_` after the frames (`d` = its value before) -/
def lastNextOff (cfg : Cfg) : Nat → Nat → List Frame → Nat → Nat
  | _, _, [], d => d
  | last, idx, f :: rest, _ =>
    let L := frameLayout cfg last idx f
    lastNextOff cfg L.next (idx + 1) rest (L.ifdOff + K.offsetofNext)

/-- all writes of one acquisition of `frames` (at least one), in program order -/
def tiffWrites (cfg : Cfg) (frames : List Frame) : List (Nat × Bytes) :=
  (0, header) :: frameWrites cfg K.sizeofHeader 0 frames ++
    [(lastNextOff cfg K.sizeofHeader 0 frames 0, leBytes 8 0)]

def applyWrites (old : Bytes) (ws : List (Nat × Bytes)) : Bytes := ws.foldl (fun f w => pwrite f w.1 w.2) old

/-- the file after the acquisition, when the path held `old` before -/
def tiffFile (old : Bytes) (cfg : Cfg) (frames : List Frame) : Bytes := applyWrites old (tiffWrites cfg frames)

/-! ## what a reader should find -/

open AcqVerif.TiffRead (Page)

/-- the page of frame `f` laid out at `L`; `nxt` = the link stored in its directory -/
def pageOf (cfg : Cfg) (idx : Nat) (f : Frame) (L : Layout) (nxt : Nat) : Page :=
  { ifdOffset := L.ifdOff, ntags := K.ntags, width := f.width, height := f.height,
    bitsPerSample := 8 * bytesOfType f.type, sampleFormat := sampleFormatCode f.type,
    stripOffset := L.dataOff, stripByteCount := f.data.length, strip := f.data,
    descInline := false, descOffset := L.strOff, descCount := (descOf cfg idx f).length + 1,
    description := descOf cfg idx f ++ [0], next := nxt }

def pagesFrom (cfg : Cfg) : Nat → Nat → List Frame → List Page
  | _, _, [] => []
  | last, idx, f :: rest =>
    let L := frameLayout cfg last idx f
    pageOf cfg idx f L (if rest.isEmpty then 0 else L.next) :: pagesFrom cfg L.next (idx + 1) rest

def expectedPages (cfg : Cfg) (frames : List Frame) : List Page := pagesFrom cfg K.sizeofHeader 0 frames

/-- a frame as the C types allow it -/
structure Frame.WF (f : Frame) : Prop where
  width : f.width < 2 ^ 32
  height : f.height < 2 ^ 32
  type : f.type < K.sampleTypeCount

end AcqVerif.Tiff
