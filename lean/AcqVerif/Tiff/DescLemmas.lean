import AcqVerif.Tiff.Layout
import AcqVerif.Tiff.Desc
/-!
# The scanner of `Desc.lean` recovers ids, timestamps and metadata from the writer's description
-/
namespace AcqVerif.Tiff
open AcqVerif.TiffRead

theorem byte_of_digit (c : Char) (h : c.isDigit = true) :
    (UInt8.ofNat c.toNat).toNat = c.toNat ∧ isDigitByte (UInt8.ofNat c.toNat) = true := by
  simp only [Char.isDigit, Bool.and_eq_true, decide_eq_true_eq] at h
  have h1 : 48 ≤ c.toNat := by
    have := h.1; rw [ge_iff_le, UInt32.le_iff_toNat_le] at this; exact this
  have h2 : c.toNat ≤ 57 := by
    have := h.2; rw [UInt32.le_iff_toNat_le] at this; exact this
  have e : (UInt8.ofNat c.toNat).toNat = c.toNat := by
    simp [UInt8.toNat_ofNat']; omega
  refine ⟨e, ?_⟩
  simp [isDigitByte, e, h1, h2]

theorem dec_all_digits (n : Nat) : ∀ c ∈ dec n, isDigitByte c = true := by
  intro c hc
  simp only [dec, List.mem_map] at hc
  obtain ⟨ch, hch, rfl⟩ := hc
  exact (byte_of_digit ch (Nat.isDigit_of_mem_toDigits (by decide) (by decide) hch)).2

theorem dec_ne_nil (n : Nat) : dec n ≠ [] := by
  simp [dec, Nat.toDigits_ne_nil]

theorem foldl_digits (l : List Char) (h : ∀ c ∈ l, c.isDigit = true) (init : Nat) :
    (l.map fun c => UInt8.ofNat c.toNat).foldl (fun v c => 10 * v + (c.toNat - 48)) init = Nat.ofDigitChars 10 l init := by
  induction l generalizing init with
  | nil => simp [Nat.ofDigitChars]
  | cons c r ih =>
    have hc := (byte_of_digit c (h c (List.mem_cons_self))).1
    simp only [List.map_cons, List.foldl_cons, Nat.ofDigitChars_cons, hc]
    exact ih (fun c' hc' => h c' (List.mem_cons_of_mem _ hc')) _

theorem digitsValue_dec (n : Nat) : digitsValue (dec n) = n := by
  unfold digitsValue dec
  rw [foldl_digits _ (fun c hc => Nat.isDigit_of_mem_toDigits (by decide) (by decide) hc)]
  exact Nat.ofDigitChars_ten_toDigits

theorem takeWhile_append_stop (p : UInt8 → Bool) (a b : List UInt8) (ha : ∀ c ∈ a, p c = true)
    (hb : ∀ x, b.head? = some x → p x = false) : (a ++ b).takeWhile p = a ∧ (a ++ b).dropWhile p = b := by
  induction a with
  | nil =>
    cases b with
    | nil => simp
    | cons x r => simp [hb x rfl]
  | cons c r ih =>
    have hc := ha c (List.mem_cons_self)
    have := ih (fun c' hc' => ha c' (List.mem_cons_of_mem _ hc'))
    simp [hc, this]

theorem number_dec (n : Nat) (rest : List UInt8) (h : ∀ x, rest.head? = some x → isDigitByte x = false) :
    number (dec n ++ rest) = some (n, rest) := by
  obtain ⟨h1, h2⟩ := takeWhile_append_stop isDigitByte (dec n) rest (dec_all_digits n) h
  have hne : (dec n).isEmpty = false := by
    cases hd : dec n with
    | nil => exact absurd hd (dec_ne_nil n)
    | cons _ _ => rfl
  simp [number, h1, h2, hne, digitsValue_dec]

theorem expect_append (k s : List UInt8) : expect k (k ++ s) = some s := by
  have : k.isPrefixOf (k ++ s) = true := by
    induction k with
    | nil => simp
    | cons c r ih => simp [ih]
  simp [expect, this]

/-- the plain description parses to the frame's ids and timestamps, no metadata -/
theorem parse_descPlain (f : Frame) :
    parseDescription (descPlain f) = some ⟨f.frameId, f.hwFrameId, f.tsAcq, f.tsHardware, none⟩ := by
  have e : descPlain f = kFrameId ++ (dec f.frameId ++ (kHwFrameId ++ (dec f.hwFrameId ++ (kRuntime ++ (dec f.tsAcq ++
      (kHardware ++ (dec f.tsHardware ++ kEnd))))))) := by
    simp [descPlain, sFrameId, sHwFrameId, sTsRuntime, sTsHardware, sEndPlain, kFrameId, kHwFrameId, kRuntime, kHardware, kEnd]
  rw [e]
  unfold parseDescription
  simp only [expect_append, Option.bind_eq_bind, Option.bind_some]
  rw [number_dec _ _ (by intro x hx; simp [kHwFrameId] at hx; subst hx; decide)]
  simp only [expect_append, Option.bind_some]
  rw [number_dec _ _ (by intro x hx; simp [kRuntime] at hx; subst hx; decide)]
  simp only [expect_append, Option.bind_some]
  rw [number_dec _ _ (by intro x hx; simp [kHardware] at hx; subst hx; decide)]
  simp only [expect_append, Option.bind_some]
  rw [number_dec _ _ (by intro x hx; simp [kEnd] at hx; subst hx; decide)]
  simp

/-- the description with metadata parses to the ids, timestamps and exactly the user's metadata -/
theorem parse_descMeta (f : Frame) (m : Bytes) :
    parseDescription (descMeta f m) = some ⟨f.frameId, f.hwFrameId, f.tsAcq, f.tsHardware, some m⟩ := by
  have e : descMeta f m = kFrameId ++ (dec f.frameId ++ (kHwFrameId ++ (dec f.hwFrameId ++ (kRuntime ++ (dec f.tsAcq ++
      (kHardware ++ (dec f.tsHardware ++ (kMetadata ++ (m ++ [125]))))))))) := by
    simp [descMeta, sFrameId, sHwFrameId, sTsRuntime, sTsHardware, sMetadata, sEndMeta, kFrameId, kHwFrameId, kRuntime,
      kHardware, kMetadata]
  rw [e]
  unfold parseDescription
  simp only [expect_append, Option.bind_eq_bind, Option.bind_some]
  rw [number_dec _ _ (by intro x hx; simp [kHwFrameId] at hx; subst hx; decide)]
  simp only [expect_append, Option.bind_some]
  rw [number_dec _ _ (by intro x hx; simp [kRuntime] at hx; subst hx; decide)]
  simp only [expect_append, Option.bind_some]
  rw [number_dec _ _ (by intro x hx; simp [kHardware] at hx; subst hx; decide)]
  simp only [expect_append, Option.bind_some]
  rw [number_dec _ _ (by intro x hx; simp [kMetadata] at hx; subst hx; decide)]
  have hne : kMetadata ++ (m ++ [125]) ≠ kEnd := by
    intro h
    have := congrArg List.length h
    simp [kMetadata, kEnd] at this
  simp [hne, expect_append]

/-- what the description of frame `idx` says -/
theorem parse_descOf (cfg : Cfg) (idx : Nat) (f : Frame) :
    parseDescription (descOf cfg idx f) =
      some ⟨f.frameId, f.hwFrameId, f.tsAcq, f.tsHardware, if idx = 0 ∧ cfg.metadata ≠ [] then some cfg.metadata else none⟩ := by
  unfold descOf
  have : cfg.metadata.length > 0 ↔ cfg.metadata ≠ [] := List.length_pos_iff
  by_cases h : idx = 0 ∧ cfg.metadata ≠ []
  · rw [if_pos (by rw [this]; exact h), if_pos h, parse_descMeta]
  · rw [if_neg (by rw [this]; exact h), if_neg h, parse_descPlain]

end AcqVerif.Tiff
