import AcqVerif.Tiff.WriteLemmas
/-!
# The independent reader on a file that holds the writer's structures
-/
namespace AcqVerif.Tiff
open AcqVerif.TiffRead

/-- a tag as the reader sees it -/
def toEntry (t : Tag) : Entry := ⟨t.tag, t.type, t.count, t.value⟩

structure Tag.Small (t : Tag) : Prop where
  tag : t.tag < 2 ^ 16
  type : t.type < 2 ^ 16
  count : t.count < 2 ^ 64
  value : t.value.length = 8

theorem readEntry_of_holds {F : Bytes} {off : Nat} {t : Tag} (h : Holds F off t.encode) (ht : t.Small) :
    readEntry F off = some (toEntry t) := by
  simp only [Tag.encode] at h
  rw [holds_append, holds_append, holds_append] at h
  obtain ⟨⟨⟨h1, h2⟩, h3⟩, h4⟩ := h
  simp only [List.length_append, leBytes_length] at h2 h3 h4
  have r1 := h1.rdLE (by omega) (by have := ht.tag; omega)
  have r2 := h2.rdLE (by omega) (by have := ht.type; omega)
  have r3 := h3.rdLE (by omega) (by have := ht.count; omega)
  have hne : t.value ≠ [] := by intro e; have := ht.value; rw [e] at this; simp at this
  have r4 := h4.slice' (h4.bound hne) ht.value.symm
  have e12 : off + 12 = off + (2 + 2 + 8) := by omega
  have e4 : off + 4 = off + (2 + 2) := by omega
  simp [readEntry, r1, r2, e4, r3, e12, r4, toEntry]

theorem readEntries_of_holds {F : Bytes} (tags : List Tag) (off : Nat)
    (h : Holds F off (tags.map Tag.encode).flatten) (ht : ∀ t ∈ tags, t.Small) :
    readEntries F off tags.length = some (tags.map toEntry) := by
  induction tags generalizing off with
  | nil => rfl
  | cons t ts ih =>
    simp only [List.map_cons, List.flatten_cons] at h
    rw [holds_append] at h
    have hs := ht t (List.mem_cons_self)
    rw [tag_encode_length t hs.value] at h
    have r1 := readEntry_of_holds h.1 hs
    have r2 := ih (off + 20) h.2 (fun t ht' => ht t (List.mem_cons_of_mem _ ht'))
    simp [readEntries, r1, r2]

theorem readIfd_of_holds {F : Bytes} (tags : List Tag) (off nxt : Nat)
    (hb : Holds F off (ifdBody tags)) (hn : Holds F (off + (8 + 20 * tags.length)) (leBytes 8 nxt))
    (ht : ∀ t ∈ tags, t.Small) (hl : tags.length < 2 ^ 64) (hnx : nxt < 2 ^ 64) :
    readIfd F off = some (tags.map toEntry, nxt) := by
  simp only [ifdBody] at hb
  rw [holds_append] at hb
  simp only [leBytes_length] at hb
  have r1 := hb.1.rdLE (by omega) (by omega)
  have r2 := readEntries_of_holds tags (off + 8) hb.2 ht
  have r3 := hn.rdLE (by omega) (by omega)
  have e : off + 8 + 20 * tags.length = off + (8 + 20 * tags.length) := by omega
  simp [readIfd, r1, r2, e, r3]

/-! ## decoding the values the writer stores -/

theorem decode_u16 (v : Nat) (h : v < 2 ^ 16) : decodeLE ((leBytes 2 v ++ zeros 6).take 2) = v := by
  have : (leBytes 2 v ++ zeros 6).take 2 = leBytes 2 v := by
    rw [List.take_append_of_le_length (by simp)]; exact List.take_of_length_le (by simp)
  rw [this, decodeLE_leBytes_lt]; omega

theorem decode_u32 (v : Nat) (h : v < 2 ^ 32) : decodeLE ((leBytes 4 v ++ zeros 4).take 4) = v := by
  have : (leBytes 4 v ++ zeros 4).take 4 = leBytes 4 v := by
    rw [List.take_append_of_le_length (by simp)]; exact List.take_of_length_le (by simp)
  rw [this, decodeLE_leBytes_lt]; omega

theorem decode_u64 (v : Nat) (h : v < 2 ^ 64) : decodeLE (leBytes 8 v) = v := by
  rw [decodeLE_leBytes_lt]; omega

theorem bits_small : ∀ t, t < K.sampleTypeCount → (8 * bytesOfType t) % 2 ^ 16 = 8 * bytesOfType t := by decide

theorem sampleFormatCode_small (t : Nat) : sampleFormatCode t < 2 ^ 16 := by
  unfold sampleFormatCode; repeat' split
  all_goals omega

/-- the tag ids of the two resolution entries never collide with the ones the reader looks up -/
theorem xResolution_tag (n d : Nat) : (xResolution n d).tag = 282 := by
  unfold xResolution; split <;> rfl

theorem yResolution_tag (n d : Nat) : (yResolution n d).tag = 282 ∨ (yResolution n d).tag = 283 := by
  unfold yResolution; split
  · left; rfl
  · right; rfl

theorem xResolution_small (n d : Nat) : (xResolution n d).Small := by
  unfold xResolution; split <;> constructor <;> simp [asRational, K.asRational, K.xResolution, K.xResolutionDen0]

theorem yResolution_small (n d : Nat) : (yResolution n d).Small := by
  unfold yResolution; split <;> constructor <;> simp [asRational, K.asRational, K.yResolution, K.yResolutionDen0]

/-! ## the entries of a directory the writer produced -/

section page
variable (cfg : Cfg) (f : Frame) (L : Layout) (desc : Bytes)

theorem ifdTags_small (hc : desc.length + 1 < 2 ^ 64) : ∀ t ∈ ifdTags cfg f L desc, t.Small := by
  intro t ht
  simp only [ifdTags, fixedTags, List.mem_append, List.mem_cons, List.mem_nil_iff, or_false] at ht
  rcases ht with (h | h | h | h | h | h | h | h | h | h | h | h | h | h | h) | h <;> subst h <;>
    first
    | exact xResolution_small _ _
    | exact yResolution_small _ _
    | (constructor <;>
        simp [imageWidth, imageLength, bitsPerSample, uncompressed, photometricBlackIsZero, stripOffsets, rowsPerStrip,
          stripByteCounts, resolutionUnitCentimeter, orientationTopLeft, sampleFormat, samplesPerPixelGrayscale,
          newSubfileTypeMultipage, descTag, asU16, asU32, asU64, K.asU16, K.asU32, K.asU64, K.imageWidth, K.imageLength,
          K.bitsPerSample, K.compression, K.photometric, K.stripOffsets, K.rowsPerStrip, K.stripByteCounts,
          K.resolutionUnit, K.orientation, K.sampleFormat, K.samplesPerPixel, K.newSubfileType,
          K.imageDescriptionLong10] <;> omega)

local macro "tag_simp" : tactic =>
  `(tactic| simp [ifdTags, fixedTags, scalar, findEntry, toEntry, imageWidth, imageLength, bitsPerSample, uncompressed,
      photometricBlackIsZero, stripOffsets, rowsPerStrip, stripByteCounts, resolutionUnitCentimeter, orientationTopLeft,
      sampleFormat, samplesPerPixelGrayscale, newSubfileTypeMultipage, descTag, asU16, asU32, asU64, K.asU16, K.asU32,
      K.asU64, K.imageWidth, K.imageLength, K.bitsPerSample, K.compression, K.photometric, K.stripOffsets,
      K.rowsPerStrip, K.stripByteCounts, K.resolutionUnit, K.orientation, K.sampleFormat, K.samplesPerPixel,
      K.newSubfileType, K.imageDescriptionLong10, xResolution_tag])

theorem scalar_width (hw : f.width < 2 ^ 32) : scalar ((ifdTags cfg f L desc).map toEntry) 256 = some f.width := by
  tag_simp; exact decode_u32 _ hw

theorem scalar_height (hw : f.height < 2 ^ 32) : scalar ((ifdTags cfg f L desc).map toEntry) 257 = some f.height := by
  tag_simp; exact decode_u32 _ hw

theorem scalar_bits (ht : f.type < K.sampleTypeCount) :
    scalar ((ifdTags cfg f L desc).map toEntry) 258 = some (8 * bytesOfType f.type) := by
  tag_simp
  have h1 := bits_small f.type ht
  have h2 : 8 * bytesOfType f.type % 65536 < 256 ^ 2 := Nat.mod_lt _ (by omega)
  simp only [Nat.reducePow] at h1
  rw [decodeLE_leBytes_lt _ _ h2, h1]

theorem scalar_stripOffset (hd : L.dataOff < 2 ^ 64) :
    scalar ((ifdTags cfg f L desc).map toEntry) 273 = some L.dataOff := by
  tag_simp; exact decode_u64 _ hd

theorem scalar_stripByteCount (hd : f.data.length < 2 ^ 64) :
    scalar ((ifdTags cfg f L desc).map toEntry) 279 = some f.data.length := by
  tag_simp; exact decode_u64 _ hd

theorem scalar_sampleFormat : scalar ((ifdTags cfg f L desc).map toEntry) 339 = some (sampleFormatCode f.type) := by
  rcases yResolution_tag (10000 * 10000) (resolutionDen cfg.scaleMilliY) with hy | hy <;>
  · tag_simp
    simp [hy]
    exact decode_u16 _ (sampleFormatCode_small _)

theorem find_desc : findEntry ((ifdTags cfg f L desc).map toEntry) 270 = some (toEntry (descTag L.strOff desc)) := by
  rcases yResolution_tag (10000 * 10000) (resolutionDen cfg.scaleMilliY) with hy | hy <;>
  · tag_simp
    simp [hy]

theorem entryIndex_desc : entryIndex ((ifdTags cfg f L desc).map toEntry) 270 = 15 := by
  rcases yResolution_tag (10000 * 10000) (resolutionDen cfg.scaleMilliY) with hy | hy <;>
  · simp [entryIndex, ifdTags, fixedTags, toEntry, List.findIdx_cons, imageWidth, imageLength, bitsPerSample, uncompressed,
      photometricBlackIsZero, stripOffsets, rowsPerStrip, stripByteCounts, resolutionUnitCentimeter, orientationTopLeft,
      sampleFormat, samplesPerPixelGrayscale, newSubfileTypeMultipage, descTag, asU16, asU32, asU64, K.imageWidth,
      K.imageLength, K.bitsPerSample, K.compression, K.photometric, K.stripOffsets, K.rowsPerStrip, K.stripByteCounts,
      K.resolutionUnit, K.orientation, K.sampleFormat, K.samplesPerPixel, K.newSubfileType, K.imageDescriptionLong10,
      xResolution_tag, hy]

end page

theorem descOf_length (cfg : Cfg) (idx : Nat) (f : Frame) : 7 < (descOf cfg idx f).length := by
  unfold descOf; split <;> simp [descMeta, descPlain, sFrameId] <;> omega

/-- the reader's page for one directory of the writer -/
theorem mkPage_of_holds {F : Bytes} (cfg : Cfg) (idx : Nat) (f : Frame) (L : Layout) (nxt : Nat)
    (hw : f.WF) (hdata : Holds F L.dataOff f.data) (hstr : Holds F L.strOff (descOf cfg idx f ++ [0]))
    (hds : L.dataOff + f.data.length ≤ L.strOff) (hs64 : L.strOff + ((descOf cfg idx f).length + 1) < 2 ^ 64) :
    mkPage F L.ifdOff ((ifdTags cfg f L (descOf cfg idx f)).map toEntry) nxt = some (pageOf cfg idx f L nxt) := by
  have hsb := hstr.bound (by simp)
  simp only [List.length_append, List.length_cons, List.length_nil] at hsb
  have hdl := descOf_length cfg idx f
  have r1 := scalar_width cfg f L (descOf cfg idx f) hw.width
  have r2 := scalar_height cfg f L (descOf cfg idx f) hw.height
  have r3 := scalar_bits cfg f L (descOf cfg idx f) hw.type
  have r4 := scalar_sampleFormat cfg f L (descOf cfg idx f)
  have r5 := scalar_stripOffset cfg f L (descOf cfg idx f) (by omega)
  have r6 := scalar_stripByteCount cfg f L (descOf cfg idx f) (by omega)
  have r7 := hdata.slice (by omega)
  have r8 := find_desc cfg f L (descOf cfg idx f)
  have r9 : slice? F L.strOff ((descOf cfg idx f).length + 1) = some (descOf cfg idx f ++ [0]) :=
    hstr.slice' (by simpa using hsb) (by simp)
  have r10 : decodeLE (leBytes 8 L.strOff) = L.strOff := decode_u64 _ (by omega)
  have hni : ¬ ((descOf cfg idx f).length + 1 ≤ 8) := by omega
  simp [mkPage, r1, r2, r3, r4, r5, r6, r7, r8, toEntry, descTag, K.imageDescriptionLong10, hni, r10, r9, pageOf,
    ifdTags_length, K.ntags]

/-! ## following the chain -/

theorem readChain_mono (F : Bytes) (n k off : Nat) (ps : List Page) (h : readChain F n off = some ps) :
    readChain F (n + k) off = some ps := by
  induction n generalizing off ps with
  | zero => simp [readChain] at h
  | succ n ih =>
    rw [Nat.add_right_comm]
    simp only [readChain] at h ⊢
    split
    · simp_all
    · rename_i hne
      rw [if_neg hne] at h
      cases hr : readIfd F off with
      | none => simp [hr] at h
      | some r =>
        obtain ⟨es, next⟩ := r
        simp only [hr, Option.bind_eq_bind, Option.bind_some] at h ⊢
        cases hp : mkPage F off es next with
        | none => simp [hp] at h
        | some page =>
          simp only [hp, Option.bind_some] at h ⊢
          cases hc : readChain F n next with
          | none => simp [hc] at h
          | some rest =>
            simp only [hc, Option.bind_some] at h
            simp [ih next rest hc, h]

theorem endOff_ge (cfg : Cfg) (last idx : Nat) (frames : List Frame) : last ≤ endOff cfg last idx frames := by
  induction frames generalizing last idx with
  | nil => exact Nat.le_refl _
  | cons f rest ih =>
    have ho := layout_order last f.data.length (descOf cfg idx f).length
    have := ih (frameLayout cfg last idx f).next (idx + 1)
    simp only [endOff, frameLayout] at *
    omega

/-- where the chain starts: the first directory, or 0 for no frames -/
def chainStart (last : Nat) (frames : List Frame) : Nat := if frames.isEmpty then 0 else align8 last

theorem readChain_of_framesIn {F : Bytes} (cfg : Cfg) (last idx : Nat) (frames : List Frame)
    (h : FramesIn F cfg 0 last idx frames) (hw : ∀ f ∈ frames, f.WF) (h64 : endOff cfg last idx frames < 2 ^ 64)
    (hl : 0 < last) :
    readChain F (frames.length + 1) (chainStart last frames) = some (pagesFrom cfg last idx frames) := by
  induction frames generalizing last idx with
  | nil => simp [readChain, chainStart, pagesFrom]
  | cons f rest ih =>
    have ho := layout_order last f.data.length (descOf cfg idx f).length
    have hk : K.sizeofIfd = 336 := rfl
    simp only [FramesIn] at h
    obtain ⟨hbody, hnext, hdata, hstr, hrest⟩ := h
    have hend := endOff_ge cfg (frameLayout cfg last idx f).next (idx + 1) rest
    rw [endOff_cons] at h64
    have hne : chainStart last (f :: rest) ≠ 0 := by
      simp only [chainStart, List.isEmpty_cons, Bool.false_eq_true, if_false]
      have := align8_ge last; omega
    have hcs : chainStart last (f :: rest) = (frameLayout cfg last idx f).ifdOff := by
      simp [chainStart, frameLayout, layout]
    have hsmall := ifdTags_small cfg f (frameLayout cfg last idx f) (descOf cfg idx f)
      (by simp only [frameLayout] at *; omega)
    have hnx : (if rest.isEmpty then 0 else (frameLayout cfg last idx f).next) < 2 ^ 64 := by
      split <;> omega
    have hlen := ifdTags_length cfg f (frameLayout cfg last idx f) (descOf cfg idx f)
    have rifd := readIfd_of_holds (ifdTags cfg f (frameLayout cfg last idx f) (descOf cfg idx f))
      (frameLayout cfg last idx f).ifdOff _ hbody (by rw [hlen]; exact hnext) hsmall (by rw [hlen]; omega) hnx
    have rpage := mkPage_of_holds cfg idx f (frameLayout cfg last idx f)
      (if rest.isEmpty then 0 else (frameLayout cfg last idx f).next) (hw f (List.mem_cons_self)) hdata hstr
      (by simp only [frameLayout] at *; omega) (by simp only [frameLayout] at *; omega)
    have hrec := ih (frameLayout cfg last idx f).next (idx + 1) hrest
      (fun g hg => hw g (List.mem_cons_of_mem _ hg)) h64 (by simp only [frameLayout] at *; omega)
    have hcs2 : chainStart (frameLayout cfg last idx f).next rest =
        (if rest.isEmpty then 0 else (frameLayout cfg last idx f).next) := by
      simp only [chainStart, frameLayout, layout, align8_align8]
    rw [hcs2] at hrec
    rw [List.length_cons, readChain, if_neg hne, hcs]
    simp only [List.isEmpty_iff] at rifd rpage hrec
    simp [rifd, rpage, hrec, pagesFrom]

theorem readHeader_of_holds {F : Bytes} (h : Holds F 0 header) : readHeader F = some K.hdrFirstIfd := by
  simp only [header] at h
  rw [holds_append, holds_append, holds_append, holds_append] at h
  obtain ⟨⟨⟨⟨h1, h2⟩, h3⟩, h4⟩, h5⟩ := h
  simp only [List.length_append, leBytes_length, Nat.zero_add] at h2 h3 h4 h5
  have r1 := h1.rdLE (by omega) (by decide)
  have r2 := h2.rdLE (by omega) (by decide)
  have r3 := h3.rdLE (by omega) (by decide)
  have r4 := h4.rdLE (by omega) (by decide)
  have r5 := h5.rdLE (by omega) (by decide)
  simp [readHeader, r1, r2, r3, r4, r5, K.hdrFmt, K.hdrVer, K.hdrSizeofOffset, K.hdrZero]

/-- every frame takes at least a directory: the file is longer than the number of frames -/
theorem framesIn_length {F : Bytes} (cfg : Cfg) (fin last idx : Nat) (frames : List Frame)
    (h : FramesIn F cfg fin last idx frames) (hne : frames ≠ []) :
    last + 336 * frames.length ≤ F.length := by
  induction frames generalizing last idx with
  | nil => exact absurd rfl hne
  | cons f rest ih =>
    have ho := layout_order last f.data.length (descOf cfg idx f).length
    have hk : K.sizeofIfd = 336 := rfl
    rw [hk] at ho
    simp only [FramesIn] at h
    obtain ⟨_, _, _, hstr, hrest⟩ := h
    cases rest with
    | nil =>
      have hsb := hstr.bound (by simp)
      simp only [List.length_append, List.length_cons, List.length_nil, frameLayout] at *
      omega
    | cons g r =>
      have := ih (frameLayout cfg last idx f).next (idx + 1) hrest (by simp)
      have e1 : (f :: g :: r).length = (g :: r).length + 1 := rfl
      rw [e1]
      generalize (g :: r).length = n at this ⊢
      unfold frameLayout at this
      omega

/-- **round trip**: the reader applied to the file of an acquisition returns the expected pages -/
theorem readTiff_tiffFile (old : Bytes) (cfg : Cfg) (frames : List Frame) (hne : frames ≠ [])
    (hw : ∀ f ∈ frames, f.WF) (h64 : endOff cfg K.sizeofHeader 0 frames < 2 ^ 64) :
    readTiff (tiffFile old cfg frames) = some (expectedPages cfg frames) := by
  obtain ⟨hh, hf⟩ := tiffFile_holds old cfg frames hne
  have r1 := readHeader_of_holds hh
  have r2 := readChain_of_framesIn cfg K.sizeofHeader 0 frames hf hw h64 (by decide)
  have hlen := framesIn_length cfg 0 K.sizeofHeader 0 frames hf hne
  have hfuel : (tiffFile old cfg frames).length + 1 = (frames.length + 1) + ((tiffFile old cfg frames).length - frames.length) := by
    omega
  have hcs : chainStart K.sizeofHeader frames = K.hdrFirstIfd := by
    cases frames with
    | nil => exact absurd rfl hne
    | cons f r => rfl
  rw [hcs] at r2
  simp only [readTiff, r1, Option.bind_eq_bind, Option.bind_some]
  rw [hfuel]
  exact readChain_mono _ _ _ _ _ r2

end AcqVerif.Tiff
