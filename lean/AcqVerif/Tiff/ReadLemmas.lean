import AcqVerif.Tiff.WriteLemmas
/-!
# The independent reader on a file that holds the writer's structures
-/
namespace AcqVerif.Tiff
open AcqVerif.TiffRead

/-- a tag as the reader sees it -/
def toEntry (t : Tag) : Entry := ⟨t.tag, t.type, t.count, t.value⟩

structure Tag.Small (t : Tag) : Prop where
  tag : t.tag < 2 ^ 16
  type : t.type < 2 ^ 16
  count : t.count < 2 ^ 64
  value : t.value.length = 8

theorem readEntry_of_holds {F : Bytes} {off : Nat} {t : Tag} (h : Holds F off t.encode) (ht : t.Small) :
    readEntry F off = some (toEntry t) := by
  simp only [Tag.encode] at h
  rw [holds_append, holds_append, holds_append] at h
  obtain ⟨⟨⟨h1, h2⟩, h3⟩, h4⟩ := h
  simp only [List.length_append, leBytes_length] at h2 h3 h4
  have r1 := h1.rdLE (by omega) (by have := ht.tag; omega)
  have r2 := h2.rdLE (by omega) (by have := ht.type; omega)
  have r3 := h3.rdLE (by omega) (by have := ht.count; omega)
  have hne : t.value ≠ [] := by intro e; have := ht.value; rw [e] at this; simp at this
  have r4 := h4.slice' (h4.bound hne) ht.value.symm
  have e12 : off + 12 = off + (2 + 2 + 8) := by omega
  have e4 : off + 4 = off + (2 + 2) := by omega
  simp [readEntry, r1, r2, e4, r3, e12, r4, toEntry]

theorem readEntries_of_holds {F : Bytes} (tags : List Tag) (off : Nat)
    (h : Holds F off (tags.map Tag.encode).flatten) (ht : ∀ t ∈ tags, t.Small) :
    readEntries F off tags.length = some (tags.map toEntry) := by
  induction tags generalizing off with
  | nil => rfl
  | cons t ts ih =>
    simp only [List.map_cons, List.flatten_cons] at h
    rw [holds_append] at h
    have hs := ht t (List.mem_cons_self)
    rw [tag_encode_length t hs.value] at h
    have r1 := readEntry_of_holds h.1 hs
    have r2 := ih (off + 20) h.2 (fun t ht' => ht t (List.mem_cons_of_mem _ ht'))
    simp [readEntries, r1, r2]

theorem readIfd_of_holds {F : Bytes} (tags : List Tag) (off nxt : Nat)
    (hb : Holds F off (ifdBody tags)) (hn : Holds F (off + (8 + 20 * tags.length)) (leBytes 8 nxt))
    (ht : ∀ t ∈ tags, t.Small) (hl : tags.length < 2 ^ 64) (hnx : nxt < 2 ^ 64) :
    readIfd F off = some (tags.map toEntry, nxt) := by
  simp only [ifdBody] at hb
  rw [holds_append] at hb
  simp only [leBytes_length] at hb
  have r1 := hb.1.rdLE (by omega) (by omega)
  have r2 := readEntries_of_holds tags (off + 8) hb.2 ht
  have r3 := hn.rdLE (by omega) (by omega)
  have e : off + 8 + 20 * tags.length = off + (8 + 20 * tags.length) := by omega
  simp [readIfd, r1, r2, e, r3]

/-! ## decoding the values the writer stores -/

theorem decode_u16 (v : Nat) (h : v < 2 ^ 16) : decodeLE ((leBytes 2 v ++ zeros 6).take 2) = v := by
  have : (leBytes 2 v ++ zeros 6).take 2 = leBytes 2 v := by
    rw [List.take_append_of_le_length (by simp)]; exact List.take_of_length_le (by simp)
  rw [this, decodeLE_leBytes_lt]; omega

theorem decode_u32 (v : Nat) (h : v < 2 ^ 32) : decodeLE ((leBytes 4 v ++ zeros 4).take 4) = v := by
  have : (leBytes 4 v ++ zeros 4).take 4 = leBytes 4 v := by
    rw [List.take_append_of_le_length (by simp)]; exact List.take_of_length_le (by simp)
  rw [this, decodeLE_leBytes_lt]; omega

theorem decode_u64 (v : Nat) (h : v < 2 ^ 64) : decodeLE (leBytes 8 v) = v := by
  rw [decodeLE_leBytes_lt]; omega

theorem bits_small : ∀ t, t < K.sampleTypeCount → (8 * bytesOfType t) % 2 ^ 16 = 8 * bytesOfType t := by decide

theorem sampleFormatCode_small (t : Nat) : sampleFormatCode t < 2 ^ 16 := by
  unfold sampleFormatCode; repeat' split
  all_goals omega

/-- the tag ids of the two resolution entries never collide with the ones the reader looks up -/
theorem xResolution_tag (n d : Nat) : (xResolution n d).tag = 282 := by
  unfold xResolution; split <;> rfl

theorem yResolution_tag (n d : Nat) : (yResolution n d).tag = 282 ∨ (yResolution n d).tag = 283 := by
  unfold yResolution; split
  · left; rfl
  · right; rfl

theorem xResolution_small (n d : Nat) : (xResolution n d).Small := by
  unfold xResolution; split <;> constructor <;> simp [asRational, K.asRational, K.xResolution, K.xResolutionDen0]

theorem yResolution_small (n d : Nat) : (yResolution n d).Small := by
  unfold yResolution; split <;> constructor <;> simp [asRational, K.asRational, K.yResolution, K.yResolutionDen0]

end AcqVerif.Tiff
