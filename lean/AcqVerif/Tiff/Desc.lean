/-!
# Reading the ids and timestamps back out of an ImageDescription

A small scanner for the JSON text the writers put into the ImageDescription tag:
`{"frame_id":N,"hardware_frame_id":N,"timestamps":{"runtime":N,"hardware":N}` followed by
either `}` (no metadata) or `,"metadata":<user json>}`.  Independent of the model (no import);
numbers are runs of ASCII digits read in base ten.
-/
namespace AcqVerif.TiffRead

def isDigitByte (c : UInt8) : Bool := decide (48 ≤ c.toNat) && decide (c.toNat ≤ 57)

/-- base-ten value of a run of ASCII digits -/
def digitsValue (b : List UInt8) : Nat := b.foldl (fun v c => 10 * v + (c.toNat - 48)) 0

/-- the literal `key` must come next -/
def expect (key s : List UInt8) : Option (List UInt8) :=
  if key.isPrefixOf s then some (s.drop key.length) else none

/-- a non-empty run of digits: its value and what follows -/
def number (s : List UInt8) : Option (Nat × List UInt8) :=
  let ds := s.takeWhile isDigitByte
  if ds.isEmpty then none else some (digitsValue ds, s.dropWhile isDigitByte)

/-- what the description says -/
structure DescInfo where
  frameId : Nat
  hwFrameId : Nat
  runtime : Nat        -- timestamps.runtime
  hardware : Nat       -- timestamps.hardware
  metadata : Option (List UInt8)   -- the value of "metadata", if the key is present
deriving Repr, DecidableEq

def kFrameId : List UInt8 := [123, 34, 102, 114, 97, 109, 101, 95, 105, 100, 34, 58]
def kHwFrameId : List UInt8 := [44, 34, 104, 97, 114, 100, 119, 97, 114, 101, 95, 102, 114, 97, 109, 101, 95, 105, 100, 34, 58]
def kRuntime : List UInt8 := [44, 34, 116, 105, 109, 101, 115, 116, 97, 109, 112, 115, 34, 58, 123, 34, 114, 117, 110, 116, 105, 109, 101, 34, 58]
def kHardware : List UInt8 := [44, 34, 104, 97, 114, 100, 119, 97, 114, 101, 34, 58]
def kEnd : List UInt8 := [125, 125]
def kMetadata : List UInt8 := [125, 44, 34, 109, 101, 116, 97, 100, 97, 116, 97, 34, 58]

/-- `s` = the description text without its terminating NUL -/
def parseDescription (s : List UInt8) : Option DescInfo := do
  let s ← expect kFrameId s
  let (fid, s) ← number s
  let s ← expect kHwFrameId s
  let (hw, s) ← number s
  let s ← expect kRuntime s
  let (rt, s) ← number s
  let s ← expect kHardware s
  let (ht, s) ← number s
  if s = kEnd then some ⟨fid, hw, rt, ht, none⟩
  else do
    let m ← expect kMetadata s
    -- the value runs up to the closing brace of the outer object
    if m.getLast? = some 125 then some ⟨fid, hw, rt, ht, some m.dropLast⟩ else none

end AcqVerif.TiffRead
