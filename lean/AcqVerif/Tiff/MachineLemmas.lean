import AcqVerif.Tiff.Layout
import AcqVerif.Tiff.ReadLemmas
/-!
# The state machine issues exactly the writes of the closed form

For any prior state of the device and any grouping of the frames into packets.
-/
namespace AcqVerif.Tiff

def toEffs (path : Bytes) (ws : List (Nat × Bytes)) : List Eff := ws.map fun w => Eff.write path w.1 w.2

theorem toEffs_append (path : Bytes) (a b : List (Nat × Bytes)) : toEffs path (a ++ b) = toEffs path a ++ toEffs path b := by
  simp [toEffs]

/-- the writer's fields agree with the closed form's parameters -/
structure Agrees (t : Tiff) (cfg : Cfg) (path : Bytes) (last idx : Nat) : Prop where
  fc : t.frameCount = idx
  md : t.externalMetadata = cfg.metadata
  sx : t.scaleMilliX = cfg.scaleMilliX
  sy : t.scaleMilliY = cfg.scaleMilliY
  lo : t.lastOffset = last
  file : t.file = path

theorem imageDescription_long (s : StringSection) (off : Nat) (text : Bytes) (h : 7 < text.length) :
    imageDescription (s.reset off) text =
      (descTag off text, { offset := off + (text.length + 1), size := text.length + 1, data := text ++ [0] }) := by
  simp [imageDescription, asFormattedString, h, StringSection.reset, StringSection.reserve, descTag]

theorem appendOne_spec (t : Tiff) (cfg : Cfg) (path : Bytes) (last idx : Nat) (f : Frame)
    (h : Agrees t cfg path last idx) :
    (t.appendOne f).2 = toEffs path
        [((frameLayout cfg last idx f).ifdOff,
            encodeIfd (ifdTags cfg f (frameLayout cfg last idx f) (descOf cfg idx f)) (frameLayout cfg last idx f).next),
         ((frameLayout cfg last idx f).dataOff, f.data),
         ((frameLayout cfg last idx f).strOff, descOf cfg idx f ++ [0])] ∧
      Agrees (t.appendOne f).1 cfg path (frameLayout cfg last idx f).next (idx + 1) ∧
      (t.appendOne f).1.lastIfdNextOffset = (frameLayout cfg last idx f).ifdOff + K.offsetofNext ∧
      (t.appendOne f).1.state = t.state ∧ (t.appendOne f).1.filename = t.filename := by
  obtain ⟨hfc, hmd, hsx, hsy, hlo, hfile⟩ := h
  have hd := descOf_length cfg idx f
  unfold Tiff.appendOne
  by_cases hc : t.frameCount = 0 ∧ t.externalMetadata.length > 0
  · have hdesc : descOf cfg idx f = descMeta f t.externalMetadata := by
      unfold descOf; rw [if_pos (by rw [← hfc, ← hmd]; exact hc), hmd]
    rw [hdesc] at hd
    simp only [if_pos hc, imageDescription_long _ _ _ hd]
    refine ⟨?_, ⟨?_, ?_, ?_, ?_, ?_, ?_⟩, ?_, ?_, ?_⟩ <;>
      simp [Tiff.write_, toEffs, frameLayout, layout, ifdTags, hdesc, hfc, hmd, hsx, hsy, hlo, hfile]
  · have hdesc : descOf cfg idx f = descPlain f := by
      unfold descOf; rw [if_neg (by rw [← hfc, ← hmd]; exact hc)]
    rw [hdesc] at hd
    simp only [if_neg hc, imageDescription_long _ _ _ hd]
    refine ⟨?_, ⟨?_, ?_, ?_, ?_, ?_, ?_⟩, ?_, ?_, ?_⟩ <;>
      simp [Tiff.write_, toEffs, frameLayout, layout, ifdTags, hdesc, hfc, hmd, hsx, hsy, hlo, hfile]

theorem appendLoop_spec (t : Tiff) (cfg : Cfg) (path : Bytes) (last idx : Nat) (frames : List Frame)
    (h : Agrees t cfg path last idx) :
    (t.appendLoop frames).2 = toEffs path (frameWrites cfg last idx frames) ∧
      Agrees (t.appendLoop frames).1 cfg path (endOff cfg last idx frames) (idx + frames.length) ∧
      (t.appendLoop frames).1.lastIfdNextOffset = lastNextOff cfg last idx frames t.lastIfdNextOffset ∧
      (t.appendLoop frames).1.state = t.state ∧ (t.appendLoop frames).1.filename = t.filename := by
  induction frames generalizing t last idx with
  | nil => exact ⟨rfl, by simpa [Tiff.appendLoop, endOff] using h, rfl, rfl, rfl⟩
  | cons f rest ih =>
    obtain ⟨h1, h2, h3, h4, h5⟩ := appendOne_spec t cfg path last idx f h
    obtain ⟨i1, i2, i3, i4, i5⟩ := ih (t.appendOne f).1 (frameLayout cfg last idx f).next (idx + 1) h2
    simp only [Tiff.appendLoop]
    refine ⟨?_, ?_, ?_, ?_, ?_⟩
    · rw [h1, i1]; simp [toEffs, frameWrites]
    · have e : idx + (f :: rest).length = idx + 1 + rest.length := by simp; omega
      rw [e]; exact i2
    · rw [i3, h3]; rfl
    · rw [i4, h4]
    · rw [i5, h5]

/-- `Tiff::append` on a packet is the loop (an empty packet does nothing either way) -/
theorem append_eq_loop (t : Tiff) (packet : List Frame) : t.append packet = t.appendLoop packet := by
  unfold Tiff.append
  cases packet <;> simp [Tiff.appendLoop]

theorem appendLoop_append (t : Tiff) (a b : List Frame) :
    t.appendLoop (a ++ b) = ((t.appendLoop a).1.appendLoop b |>.1, (t.appendLoop a).2 ++ ((t.appendLoop a).1.appendLoop b).2) := by
  induction a generalizing t with
  | nil => simp [Tiff.appendLoop]
  | cons f r ih => simp [Tiff.appendLoop, ih, List.append_assoc]

/-- appending packet after packet (what the sink does with the writer) -/
def Tiff.appendPackets (t : Tiff) (packets : List (List Frame)) : Tiff × List Eff :=
  packets.foldl (fun acc pk => ((acc.1.append pk).1, acc.2 ++ (acc.1.append pk).2)) (t, [])

/-- **packet grouping**: only the concatenation of the packets matters -/
theorem appendPackets_eq (t : Tiff) (packets : List (List Frame)) :
    t.appendPackets packets = t.appendLoop packets.flatten := by
  have gen : ∀ (packets : List (List Frame)) (t : Tiff) (e : List Eff),
      packets.foldl (fun acc pk => ((acc.1.append pk).1, acc.2 ++ (acc.1.append pk).2)) (t, e) =
        ((t.appendLoop packets.flatten).1, e ++ (t.appendLoop packets.flatten).2) := by
    intro packets
    induction packets with
    | nil => intro t e; simp [Tiff.appendLoop]
    | cons p ps ih =>
      intro t e
      simp only [List.foldl_cons, List.flatten_cons]
      rw [ih, append_eq_loop, appendLoop_append]
      simp [List.append_assoc]
  unfold Tiff.appendPackets
  rw [gen]; simp

/-! ## one acquisition of the writer, from any prior state -/

/-- the metadata the writer keeps for a configuration (repaired `Tiff::set`) -/
def metaOf (m : Option Bytes) : Bytes := m.getD []

/-- configurations `Tiff::set` accepts -/
def metaOk (m : Option Bytes) : Prop :=
  match m with
  | none => True
  | some s => s = [] ∨ validateJson s = true

def cfgOf (p : Props) : Cfg := ⟨metaOf p.metadata, p.scaleMilliX, p.scaleMilliY⟩

def pathOfUri (uri : Bytes) : Bytes := uri.drop (uriOffset uri)

theorem set_spec (t : Tiff) (p : Props) (hm : metaOk p.metadata) :
    (t.set p).2 = true ∧ (t.set p).1.filename = pathOfUri p.uri ∧ (t.set p).1.externalMetadata = metaOf p.metadata ∧
      (t.set p).1.scaleMilliX = p.scaleMilliX ∧ (t.set p).1.scaleMilliY = p.scaleMilliY ∧
      (t.set p).1.state = t.state := by
  unfold Tiff.set
  cases hmd : p.metadata with
  | none => simp [metaOf, pathOfUri]
  | some s =>
    rw [hmd] at hm
    by_cases hs : s = []
    · subst hs; simp [metaOf, pathOfUri]
    · have hv : validateJson s = true := by rcases hm with h | h; exact absurd h hs; exact h
      have hl : s.length + 1 > 1 := by
        have : 0 < s.length := List.length_pos_iff.mpr hs
        omega
      simp [hl, hv, metaOf, pathOfUri]

/-- `set` then `start`, with the writer's `state` maintained by the caller as the HAL (or the repaired
composite) does -/
def Tiff.begin (t : Tiff) (p : Props) : Tiff × List Eff :=
  let t1 := { (t.set p).1 with state := .armed }
  let (t2, e1) := t1.start
  ({ t2 with state := .running }, e1)

theorem begin_spec (t : Tiff) (p : Props) (hm : metaOk p.metadata) :
    Agrees (t.begin p).1 (cfgOf p) (pathOfUri p.uri) K.sizeofHeader 0 ∧ (t.begin p).1.state = .running ∧
      (t.begin p).2 = [Eff.create (pathOfUri p.uri), Eff.write (pathOfUri p.uri) 0 header] := by
  obtain ⟨_, s2, s3, s4, s5, _⟩ := set_spec t p hm
  refine ⟨⟨?_, ?_, ?_, ?_, ?_, ?_⟩, ?_, ?_⟩ <;>
    simp [Tiff.begin, Tiff.start, Tiff.write_, cfgOf, s2, s3, s4, s5]

/-- set, start, the packets, stop — directly on the writer -/
def Tiff.acquire (t : Tiff) (p : Props) (packets : List (List Frame)) : Tiff × List Eff :=
  let (t2, e1) := t.begin p
  let (t3, e2) := t2.appendPackets packets
  let (t4, e3) := t3.stop
  (t4, e1 ++ e2 ++ e3)

theorem lastNextOff_irrel (cfg : Cfg) (last idx : Nat) (frames : List Frame) (d d' : Nat) (hne : frames ≠ []) :
    lastNextOff cfg last idx frames d = lastNextOff cfg last idx frames d' := by
  cases frames with
  | nil => exact absurd rfl hne
  | cons f r => rfl

/-- **no state leaks into the file**: from ANY prior state `t` of the writer, one acquisition issues the
create, the writes of the closed form (which depend on the configuration and the frames only), and the close -/
theorem acquire_spec (t : Tiff) (p : Props) (packets : List (List Frame)) (hm : metaOk p.metadata)
    (hne : packets.flatten ≠ []) :
    (t.acquire p packets).2 =
      [Eff.create (pathOfUri p.uri)] ++ toEffs (pathOfUri p.uri) (tiffWrites (cfgOf p) packets.flatten) ++
        [Eff.close (pathOfUri p.uri)] ∧
    (t.acquire p packets).1.state = .armed := by
  obtain ⟨hag, hrun, he1⟩ := begin_spec t p hm
  obtain ⟨a1, a2, a3, a4, _⟩ :=
    appendLoop_spec (t.begin p).1 (cfgOf p) (pathOfUri p.uri) K.sizeofHeader 0 packets.flatten hag
  have hst : ((t.begin p).1.appendLoop packets.flatten).1.state = .running := by rw [a4, hrun]
  have hfile := a2.file
  unfold Tiff.acquire
  simp only [appendPackets_eq, Tiff.stop, hst, if_true, Tiff.write_]
  refine ⟨?_, trivial⟩
  rw [he1, a1, a3, hfile, lastNextOff_irrel _ _ _ _ _ 0 hne]
  simp [tiffWrites, toEffs]

end AcqVerif.Tiff
