import AcqVerif.Tiff.MachineLemmas
/-!
# The two devices behind the HAL wrappers, and the files they leave

`Device.acquire d p packets` = `storage_set`, `storage_start`, one `storage_append` per
packet, `storage_stop` on a device in ANY prior state `d`.  For the `tiff` device it
is the writer's `Tiff.acquire`; for `tiff-json` it is the folder, `metadata.json`, and the
inner writer's `Tiff.acquire` on `<folder>/data.tif`.
-/
namespace AcqVerif.Tiff

def runAppends (d : Device) (packets : List (List Frame)) : Device × List Eff :=
  packets.foldl (fun acc pk => ((storageAppend acc.1 pk).1, acc.2 ++ (storageAppend acc.1 pk).2.2)) (d, [])

def Device.acquire (d : Device) (p : Props) (packets : List (List Frame)) : Device × List Eff :=
  let d1 := (storageSet d p).1
  let r2 := storageStart d1
  let r3 := runAppends r2.1 packets
  let r4 := storageStop r3.1
  (r4.1, r2.2.2 ++ r3.2 ++ r4.2.2)

/-- any writer state agrees with *some* parameters, so the loop never touches `state` -/
theorem appendLoop_state (t : Tiff) (frames : List Frame) : (t.appendLoop frames).1.state = t.state :=
  (appendLoop_spec t ⟨t.externalMetadata, t.scaleMilliX, t.scaleMilliY⟩ t.file t.lastOffset t.frameCount frames
    ⟨rfl, rfl, rfl, rfl, rfl, rfl⟩).2.2.2.1

theorem append_state (t : Tiff) (pk : List Frame) : (t.append pk).1.state = t.state := by
  rw [append_eq_loop]; exact appendLoop_state t pk

theorem setState_same (t : Tiff) (st : DevState) (h : t.state = st) : ({ t with state := st } : Tiff) = t := by
  subst h; rfl

theorem storageAppend_tiff (t : Tiff) (pk : List Frame) (h : t.state = .running) :
    storageAppend (.tiff t) pk = (.tiff (t.append pk).1, true, (t.append pk).2) := by
  by_cases he : pk = []
  · subst he; simp [storageAppend, Device.state, h, Tiff.append]
  · have hs := append_state t pk
    have hne : pk.isEmpty = false := by cases pk <;> simp_all
    simp [storageAppend, Device.state, h, hne, Device.vappend, tiffAppend, Device.setState,
      setState_same _ _ (hs.trans h)]

theorem appendPackets_state (t : Tiff) (packets : List (List Frame)) : (t.appendPackets packets).1.state = t.state := by
  rw [appendPackets_eq]; exact appendLoop_state _ _

theorem runAppends_tiff (t : Tiff) (packets : List (List Frame)) (h : t.state = .running) :
    runAppends (.tiff t) packets = (.tiff (t.appendPackets packets).1, (t.appendPackets packets).2) := by
  have gen : ∀ (packets : List (List Frame)) (t : Tiff) (e : List Eff), t.state = .running →
      packets.foldl (fun acc pk => ((storageAppend acc.1 pk).1, acc.2 ++ (storageAppend acc.1 pk).2.2)) (Device.tiff t, e) =
        (Device.tiff (packets.foldl (fun acc pk => ((acc.1.append pk).1, acc.2 ++ (acc.1.append pk).2)) (t, e)).1,
          (packets.foldl (fun acc pk => ((acc.1.append pk).1, acc.2 ++ (acc.1.append pk).2)) (t, e)).2) := by
    intro packets
    induction packets with
    | nil => intro t e _; rfl
    | cons pk ps ih =>
      intro t e ht
      simp only [List.foldl_cons, storageAppend_tiff t pk ht]
      exact ih _ _ ((append_state t pk).trans ht)
  exact gen packets t [] h

theorem storageSet_tiff (t : Tiff) (p : Props) (hm : metaOk p.metadata) :
    (storageSet (.tiff t) p).1 = .tiff { (t.set p).1 with state := .armed } := by
  have := (set_spec t p hm).1
  simp [storageSet, Device.vset, tiffSet, this, Device.setState]

/-- the `tiff` device behind the HAL = the writer's acquisition -/
theorem acquire_tiff (t : Tiff) (p : Props) (packets : List (List Frame)) (hm : metaOk p.metadata) :
    Device.acquire (.tiff t) p packets = (.tiff (t.acquire p packets).1, (t.acquire p packets).2) := by
  obtain ⟨_, hrun, _⟩ := begin_spec t p hm
  have hstart : storageStart (.tiff { (t.set p).1 with state := .armed }) = (.tiff (t.begin p).1, true, (t.begin p).2) := by
    simp [storageStart, Device.state, Device.vstart, tiffStart, Device.setState, Tiff.begin]
  have hst3 : ((t.begin p).1.appendPackets packets).1.state = .running := by
    rw [appendPackets_state, hrun]
  unfold Device.acquire
  simp only [storageSet_tiff t p hm, hstart, runAppends_tiff _ packets hrun]
  have hstop : storageStop (.tiff ((t.begin p).1.appendPackets packets).1) =
      (.tiff ((t.begin p).1.appendPackets packets).1.stop.1, true, ((t.begin p).1.appendPackets packets).1.stop.2) := by
    have h4 : ((t.begin p).1.appendPackets packets).1.stop.1.state = .armed := by simp [Tiff.stop, hst3]
    simp [storageStop, Device.state, hst3, Device.vstop, tiffStop, Device.setState, setState_same _ _ h4]
  rw [hstop]
  simp [Tiff.acquire]

/-! ## tiff-json -/

/-- what the composite hands to the inner writer -/
def innerProps (p : Props) : Props :=
  { uri := pathOfUri p.uri ++ sDataTif, metadata := some (p.metadata.getD []),
    scaleMilliX := p.scaleMilliX, scaleMilliY := p.scaleMilliY }

/-- configurations `side_by_side_tiff_set` accepts -/
def sxsMetaOk (m : Option Bytes) : Prop := sxsValidateJson m = true

theorem innerProps_metaOk (p : Props) (h : sxsMetaOk p.metadata) : metaOk (innerProps p).metadata := by
  unfold sxsMetaOk sxsValidateJson at h
  cases hm : p.metadata with
  | none => simp [innerProps, metaOk, hm]
  | some s => rw [hm] at h; simp [innerProps, metaOk, hm, h]

theorem cfgOf_innerProps (p : Props) : cfgOf (innerProps p) = cfgOf p := by
  simp [cfgOf, innerProps, metaOf]

/-- the folder and `metadata.json` -/
def sxsPrologue (p : Props) : List Eff :=
  [Eff.mkdir (pathOfUri p.uri), Eff.remove (pathOfUri p.uri ++ sMetadataJson), Eff.create (pathOfUri p.uri ++ sMetadataJson),
   Eff.write (pathOfUri p.uri ++ sMetadataJson) 0 (p.metadata.getD []), Eff.close (pathOfUri p.uri ++ sMetadataJson)]

/-- the composite after `set` (its `state` as given) -/
def sxsConfigured (_s : Sxs) (p : Props) (st : DevState) (t : Tiff) : Sxs :=
  { state := st, tiff := t, uri := pathOfUri p.uri, metadata := p.metadata.getD [],
    scaleMilliX := p.scaleMilliX, scaleMilliY := p.scaleMilliY }

theorem sxsSet_spec (s : Sxs) (p : Props) (h : sxsMetaOk p.metadata) :
    sxsSet s p = (sxsConfigured s p s.state s.tiff, .armed) := by
  unfold sxsConfigured
  unfold sxsMetaOk at h
  unfold sxsSet
  simp only [h, Bool.not_true, Bool.false_eq_true, if_false]
  by_cases ho : uriOffset p.uri = 0
  · simp [ho, pathOfUri]
  · simp [ho, pathOfUri]

theorem storageAppend_sxs (s : Sxs) (pk : List Frame) (h : s.state = .running) :
    storageAppend (.sxs s) pk = (.sxs { s with tiff := (s.tiff.append pk).1 }, true, (s.tiff.append pk).2) := by
  by_cases he : pk = []
  · subst he
    have h1 : storageAppend (.sxs s) [] = (.sxs s, true, []) := by simp [storageAppend, Device.state, h]
    rw [h1]; rfl
  · have hne : pk.isEmpty = false := by cases pk <;> simp_all
    simp [storageAppend, Device.state, h, hne, Device.vappend, sxsAppend, tiffAppend, Device.setState]

theorem runAppends_sxs (s : Sxs) (packets : List (List Frame)) (h : s.state = .running) :
    runAppends (.sxs s) packets =
      (.sxs { s with tiff := (s.tiff.appendPackets packets).1 }, (s.tiff.appendPackets packets).2) := by
  have gen : ∀ (packets : List (List Frame)) (s : Sxs) (e : List Eff), s.state = .running →
      packets.foldl (fun acc pk => ((storageAppend acc.1 pk).1, acc.2 ++ (storageAppend acc.1 pk).2.2)) (Device.sxs s, e) =
        (Device.sxs { s with tiff := (packets.foldl (fun acc pk => ((acc.1.append pk).1, acc.2 ++ (acc.1.append pk).2)) (s.tiff, e)).1 },
          (packets.foldl (fun acc pk => ((acc.1.append pk).1, acc.2 ++ (acc.1.append pk).2)) (s.tiff, e)).2) := by
    intro packets
    induction packets with
    | nil => intro s e _; rfl
    | cons pk ps ih =>
      intro s e hs
      simp only [List.foldl_cons, storageAppend_sxs s pk hs]
      exact ih _ _ hs
  exact gen packets s [] h

/-- the `tiff-json` device behind the HAL = folder + `metadata.json` + the inner writer's acquisition -/
theorem acquire_sxs (s : Sxs) (p : Props) (packets : List (List Frame)) (hm : sxsMetaOk p.metadata) :
    (Device.acquire (.sxs s) p packets).2 = sxsPrologue p ++ (s.tiff.acquire (innerProps p) packets).2 ∧
      (Device.acquire (.sxs s) p packets).1.state = .armed := by
  have hin := innerProps_metaOk p hm
  obtain ⟨_, hrun, _⟩ := begin_spec s.tiff (innerProps p) hin
  have hset := (set_spec s.tiff (innerProps p) hin).1
  have hst3 : ((s.tiff.begin (innerProps p)).1.appendPackets packets).1.state = .running := by
    rw [appendPackets_state, hrun]
  unfold Device.acquire
  simp only [storageSet, Device.vset, sxsSet_spec s p hm, Device.setState]
  have hstart : storageStart (.sxs (sxsConfigured s p .armed s.tiff)) =
      (.sxs (sxsConfigured s p .running (s.tiff.begin (innerProps p)).1), true,
        sxsPrologue p ++ (s.tiff.begin (innerProps p)).2) := by
    have hset' : (s.tiff.set { uri := pathOfUri p.uri ++ sDataTif, metadata := some (p.metadata.getD []), scaleMilliX := p.scaleMilliX, scaleMilliY := p.scaleMilliY }).2 = true := hset
    simp [storageStart, Device.state, Device.vstart, sxsStart, tiffSet, hset', tiffStart, Device.setState, Tiff.begin,
      innerProps, sxsPrologue, sxsConfigured]
  have hcfg : ({ sxsConfigured s p s.state s.tiff with state := DevState.armed } : Sxs) = sxsConfigured s p .armed s.tiff := rfl
  rw [hcfg]
  rw [hstart]
  have hrun2 := runAppends_sxs (sxsConfigured s p .running (s.tiff.begin (innerProps p)).1) packets rfl
  simp only [hrun2]
  have h4 : ((s.tiff.begin (innerProps p)).1.appendPackets packets).1.stop.1.state = .armed := by simp [Tiff.stop, hst3]
  constructor
  · simp [storageStop, Device.state, Device.vstop, sxsStop, tiffStop, Device.setState, Tiff.acquire, List.append_assoc,
      sxsConfigured]
  · simp [storageStop, Device.state, Device.vstop, sxsStop, tiffStop, Device.setState, sxsConfigured]

/-! ## files -/

theorem Files.get_put_same (w : Files) (p c : Bytes) : (w.put p c).get p = some c := by
  induction w with
  | nil => simp [Files.put, Files.get]
  | cons e r ih =>
    obtain ⟨q, d⟩ := e
    by_cases h : q = p
    · subst h; simp [Files.put, Files.get]
    · have hb : (q == p) = false := by simpa using h
      simp only [Files.put, hb, Bool.false_eq_true, if_false]
      simp only [Files.get, List.find?_cons, hb] at ih ⊢
      exact ih

theorem Files.get_put_other (w : Files) (p q c : Bytes) (h : q ≠ p) : (w.put p c).get q = w.get q := by
  induction w with
  | nil =>
    have hb : (p == q) = false := by simpa using (Ne.symm h)
    simp [Files.put, Files.get, hb]
  | cons e r ih =>
    obtain ⟨x, d⟩ := e
    by_cases hx : x = p
    · subst hx
      have hb : (x == q) = false := by simpa using (Ne.symm h)
      simp [Files.put, Files.get, hb]
    · have hb : (x == p) = false := by simpa using hx
      simp only [Files.put, hb, Bool.false_eq_true, if_false]
      simp only [Files.get, List.find?_cons] at ih ⊢
      cases hq : (x == q) <;> simp [ih]

theorem Files.get_remove_same (w : Files) (p : Bytes) : (Files.apply w (.remove p)).get p = none := by
  simp only [Files.apply, Files.get]
  induction w with
  | nil => rfl
  | cons e r ih =>
    by_cases h : e.1 = p
    · have hb : (e.1 == p) = true := by simpa using h
      simp [hb]
    · have hb : (e.1 == p) = false := by simpa using h
      simp [hb]

theorem Files.get_remove_other (w : Files) (p q : Bytes) (h : q ≠ p) : (Files.apply w (.remove p)).get q = w.get q := by
  simp only [Files.apply, Files.get]
  induction w with
  | nil => rfl
  | cons e r ih =>
    by_cases hp : e.1 = p
    · have hb : (e.1 == p) = true := by simpa using hp
      have hq : (e.1 == q) = false := by
        have : e.1 ≠ q := by rw [hp]; exact Ne.symm h
        simpa using this
      simpa [List.filter_cons, hb, List.find?_cons, hq] using ih
    · have hb : (e.1 == p) = false := by simpa using hp
      simp only [List.filter_cons, hb, Bool.not_false, if_true, List.find?_cons]
      cases hq : (e.1 == q)
      · simpa using ih
      · rfl

/-- effects that do not name `q` leave it alone -/
def Eff.path : Eff → Bytes
  | .mkdir p => p | .remove p => p | .create p => p | .write p _ _ => p | .close p => p

theorem Files.apply_other (w : Files) (e : Eff) (q : Bytes) (h : q ≠ e.path) : (w.apply e).get q = w.get q := by
  cases e with
  | mkdir p => rfl
  | remove p => exact Files.get_remove_other w p q h
  | create p =>
    simp only [Files.apply]
    cases hg : w.get p with
    | none => exact Files.get_put_other w p q [] h
    | some c => rfl
  | write p off buf => exact Files.get_put_other w p q _ h
  | close p => rfl

theorem Files.applyAll_other (w : Files) (es : List Eff) (q : Bytes) (h : ∀ e ∈ es, q ≠ e.path) :
    (w.applyAll es).get q = w.get q := by
  induction es generalizing w with
  | nil => rfl
  | cons e r ih =>
    simp only [Files.applyAll, List.foldl_cons]
    have := ih (w.apply e) (fun e' he' => h e' (List.mem_cons_of_mem _ he'))
    simp only [Files.applyAll] at this
    rw [this, Files.apply_other w e q (h e (List.mem_cons_self))]

theorem Files.applyAll_append (w : Files) (a b : List Eff) : w.applyAll (a ++ b) = (w.applyAll a).applyAll b := by
  simp [Files.applyAll, List.foldl_append]

theorem Files.applyAll_writes (w : Files) (p : Bytes) (ws : List (Nat × Bytes)) (c : Bytes) (h : w.get p = some c) :
    (w.applyAll (toEffs p ws)).get p = some (applyWrites c ws) := by
  induction ws generalizing w c with
  | nil => exact h
  | cons x r ih =>
    simp only [toEffs, List.map_cons, Files.applyAll, List.foldl_cons]
    have h1 : (w.apply (.write p x.1 x.2)).get p = some (pwrite c x.1 x.2) := by
      simp [Files.apply, h, Files.get_put_same]
    have := ih (w.apply (.write p x.1 x.2)) _ h1
    simp only [toEffs, Files.applyAll] at this
    rw [this]; rfl

/-- create, writes, close on one path: the file becomes `applyWrites old ws` -/
theorem Files.acquire_file (w : Files) (p : Bytes) (ws : List (Nat × Bytes)) :
    (w.applyAll ([Eff.create p] ++ toEffs p ws ++ [Eff.close p])).get p = some (applyWrites ((w.get p).getD []) ws) := by
  rw [Files.applyAll_append, Files.applyAll_append]
  have h1 : ((w.applyAll [Eff.create p])).get p = some ((w.get p).getD []) := by
    simp only [Files.applyAll, List.foldl_cons, List.foldl_nil, Files.apply]
    cases hg : w.get p with
    | none => simp [Files.get_put_same]
    | some c => simp [hg]
  have h2 := Files.applyAll_writes (w.applyAll [Eff.create p]) p ws _ h1
  simpa [Files.applyAll, Files.apply] using h2

end AcqVerif.Tiff
