import AcqVerif.Select.Regex
/-!
# The derivative matcher decides the inductive language (`matchesRe r s ↔ Matches r s`)

Plus the facts that give "whole name, case-insensitive" a precise meaning:
`Matches` is invariant under ASCII case changes of the subject, and a literal
pattern matches exactly the case variants of the whole string.
-/
namespace AcqVerif.Select

/-! ## inversion lemmas (subject is a variable, so `cases` can unify) -/

theorem Matches.empty_inv {u : Bytes} (h : Matches .empty u) : False := by cases h

theorem Matches.eps_inv {u : Bytes} (h : Matches .eps u) : u = [] := by cases h; rfl

theorem Matches.chr_inv {c : Nat} {u : Bytes} (h : Matches (.chr c) u) : ∃ b, u = [b] ∧ chrTest c b = true := by
  cases h with | chr hb => exact ⟨_, rfl, hb⟩

theorem Matches.any_inv {u : Bytes} (h : Matches .any u) : ∃ b, u = [b] ∧ anyTest b = true := by
  cases h with | any hb => exact ⟨_, rfl, hb⟩

theorem Matches.cls_inv {neg : Bool} {items : List Item} {u : Bytes} (h : Matches (.cls neg items) u) :
    ∃ b, u = [b] ∧ clsTest neg items b = true := by
  cases h with | cls hb => exact ⟨_, rfl, hb⟩

theorem Matches.cat_inv {a b : Re} {u : Bytes} (h : Matches (.cat a b) u) :
    ∃ s t, u = s ++ t ∧ Matches a s ∧ Matches b t := by
  cases h with | cat h1 h2 => exact ⟨_, _, rfl, h1, h2⟩

theorem Matches.alt_inv {a b : Re} {u : Bytes} (h : Matches (.alt a b) u) : Matches a u ∨ Matches b u := by
  cases h with
  | altL h => exact .inl h
  | altR h => exact .inr h

/-- a non-empty match of `a*` starts with a non-empty match of `a` -/
theorem Matches.star_cons_inv {a : Re} {x : Nat} {s : Bytes} (h : Matches (.star a) (x :: s)) :
    ∃ s1 s2, s = s1 ++ s2 ∧ Matches a (x :: s1) ∧ Matches (.star a) s2 := by
  generalize hr : Re.star a = r at h
  generalize hu : x :: s = u at h
  induction h generalizing s with
  | starNil => cases hu
  | @starCons a' s' t' h1 h2 _ ih2 =>
    cases hr
    match s', h1 with
    | [], _ =>
      simp at hu
      exact ih2 rfl hu
    | y :: s1, h1 =>
      simp at hu
      obtain ⟨rfl, rfl⟩ := hu
      exact ⟨s1, t', rfl, h1, h2⟩
  | _ => cases hr

/-! ## nullable -/

theorem nullable_iff (r : Re) : nullable r = true ↔ Matches r [] := by
  induction r with
  | empty => simp only [nullable]; constructor; (intro h; cases h); (intro h; exact h.empty_inv.elim)
  | eps => simp only [nullable]; exact ⟨fun _ => .eps, fun _ => trivial⟩
  | chr c =>
    simp only [nullable]; constructor; (intro h; cases h)
    intro h; obtain ⟨b, hb, _⟩ := h.chr_inv; cases hb
  | any =>
    simp only [nullable]; constructor; (intro h; cases h)
    intro h; obtain ⟨b, hb, _⟩ := h.any_inv; cases hb
  | cls neg items =>
    simp only [nullable]; constructor; (intro h; cases h)
    intro h; obtain ⟨b, hb, _⟩ := h.cls_inv; cases hb
  | cat a b iha ihb =>
    simp only [nullable, Bool.and_eq_true, iha, ihb]
    constructor
    · intro ⟨h1, h2⟩; exact (Matches.cat h1 h2 : Matches _ ([] ++ []))
    · intro h
      obtain ⟨s, t, hst, h1, h2⟩ := h.cat_inv
      have : s = [] ∧ t = [] := by
        cases s with
        | nil => cases t with
          | nil => exact ⟨rfl, rfl⟩
          | cons _ _ => simp at hst
        | cons _ _ => simp at hst
      obtain ⟨rfl, rfl⟩ := this
      exact ⟨h1, h2⟩
  | alt a b iha ihb =>
    simp only [nullable, Bool.or_eq_true, iha, ihb]
    constructor
    · intro h; cases h with
      | inl h => exact .altL h
      | inr h => exact .altR h
    · intro h; exact h.alt_inv
  | star a _ => simp only [nullable]; exact ⟨fun _ => .starNil, fun _ => trivial⟩

/-! ## smart constructors preserve the language -/

theorem mkCat_iff (a b : Re) (s : Bytes) : Matches (mkCat a b) s ↔ Matches (.cat a b) s := by
  unfold mkCat
  split
  · constructor
    · intro h; exact h.empty_inv.elim
    · intro h; obtain ⟨_, _, _, h1, _⟩ := h.cat_inv; exact h1.empty_inv.elim
  · constructor
    · intro h; exact (Matches.cat .eps h : Matches _ ([] ++ s))
    · intro h
      obtain ⟨u, t, hst, h1, h2⟩ := h.cat_inv
      have := h1.eps_inv; subst this; simp at hst; subst hst; exact h2
  · exact Iff.rfl

theorem mkAlt_iff (a b : Re) (s : Bytes) : Matches (mkAlt a b) s ↔ Matches (.alt a b) s := by
  unfold mkAlt
  split
  · constructor
    · intro h; exact .altR h
    · intro h; cases h.alt_inv with
      | inl h => exact h.empty_inv.elim
      | inr h => exact h
  · constructor
    · intro h; exact .altL h
    · intro h; cases h.alt_inv with
      | inl h => exact h
      | inr h => exact h.empty_inv.elim
  · split
    · rename_i heq
      constructor
      · intro h; exact .altL h
      · intro h; cases h.alt_inv with
        | inl h => exact h
        | inr h => rw [heq]; exact h
    · exact Iff.rfl

/-! ## derivative -/

theorem deriv_iff (x : Nat) (r : Re) : ∀ s : Bytes, Matches (deriv x r) s ↔ Matches r (x :: s) := by
  induction r with
  | empty =>
    intro s; simp only [deriv]
    exact ⟨fun h => h.empty_inv.elim, fun h => h.empty_inv.elim⟩
  | eps =>
    intro s; simp only [deriv]
    exact ⟨fun h => h.empty_inv.elim, fun h => by have := h.eps_inv; cases this⟩
  | chr c =>
    intro s; simp only [deriv]
    constructor
    · intro h
      split at h
      · have := h.eps_inv; subst this; exact .chr ‹_›
      · exact h.empty_inv.elim
    · intro h
      obtain ⟨b, hb, ht⟩ := h.chr_inv
      simp at hb; obtain ⟨rfl, rfl⟩ := hb
      rw [if_pos ht]; exact .eps
  | any =>
    intro s; simp only [deriv]
    constructor
    · intro h
      split at h
      · have := h.eps_inv; subst this; exact .any ‹_›
      · exact h.empty_inv.elim
    · intro h
      obtain ⟨b, hb, ht⟩ := h.any_inv
      simp at hb; obtain ⟨rfl, rfl⟩ := hb
      rw [if_pos ht]; exact .eps
  | cls neg items =>
    intro s; simp only [deriv]
    constructor
    · intro h
      split at h
      · have := h.eps_inv; subst this; exact .cls ‹_›
      · exact h.empty_inv.elim
    · intro h
      obtain ⟨b, hb, ht⟩ := h.cls_inv
      simp at hb; obtain ⟨rfl, rfl⟩ := hb
      rw [if_pos ht]; exact .eps
  | cat a b iha ihb =>
    intro s
    -- the two ways a concatenation can start with `x`
    have key : Matches (.cat a b) (x :: s) ↔
        (∃ s1 s2, s = s1 ++ s2 ∧ Matches a (x :: s1) ∧ Matches b s2) ∨ (Matches a [] ∧ Matches b (x :: s)) := by
      constructor
      · intro h
        obtain ⟨u, t, hut, h1, h2⟩ := h.cat_inv
        cases u with
        | nil => simp at hut; subst hut; exact .inr ⟨h1, h2⟩
        | cons y u' =>
          simp at hut; obtain ⟨rfl, rfl⟩ := hut
          exact .inl ⟨u', t, rfl, h1, h2⟩
      · intro h
        cases h with
        | inl h =>
          obtain ⟨s1, s2, rfl, h1, h2⟩ := h
          exact (Matches.cat h1 h2 : Matches _ ((x :: s1) ++ s2))
        | inr h => exact (Matches.cat h.1 h.2 : Matches _ ([] ++ (x :: s)))
    have left : Matches (mkCat (deriv x a) b) s ↔ ∃ s1 s2, s = s1 ++ s2 ∧ Matches a (x :: s1) ∧ Matches b s2 := by
      rw [mkCat_iff]
      constructor
      · intro h
        obtain ⟨s1, s2, hs, h1, h2⟩ := h.cat_inv
        exact ⟨s1, s2, hs, (iha s1).1 h1, h2⟩
      · intro ⟨s1, s2, hs, h1, h2⟩
        subst hs; exact .cat ((iha s1).2 h1) h2
    simp only [deriv]
    rw [key]
    split
    · rename_i hn
      rw [mkAlt_iff]
      constructor
      · intro h
        cases h.alt_inv with
        | inl h => exact .inl (left.1 h)
        | inr h => exact .inr ⟨(nullable_iff a).1 hn, (ihb s).1 h⟩
      · intro h
        cases h with
        | inl h => exact .altL (left.2 h)
        | inr h => exact .altR ((ihb s).2 h.2)
    · rename_i hn
      rw [left]
      constructor
      · intro h; exact .inl h
      · intro h
        cases h with
        | inl h => exact h
        | inr h => exact (hn ((nullable_iff a).2 h.1)).elim
  | alt a b iha ihb =>
    intro s; simp only [deriv]; rw [mkAlt_iff]
    constructor
    · intro h
      cases h.alt_inv with
      | inl h => exact .altL ((iha s).1 h)
      | inr h => exact .altR ((ihb s).1 h)
    · intro h
      cases h.alt_inv with
      | inl h => exact .altL ((iha s).2 h)
      | inr h => exact .altR ((ihb s).2 h)
  | star a iha =>
    intro s; simp only [deriv]; rw [mkCat_iff]
    constructor
    · intro h
      obtain ⟨s1, s2, hs, h1, h2⟩ := h.cat_inv
      subst hs
      exact (Matches.starCons ((iha s1).1 h1) h2 : Matches _ ((x :: s1) ++ s2))
    · intro h
      obtain ⟨s1, s2, hs, h1, h2⟩ := h.star_cons_inv
      subst hs
      exact .cat ((iha s1).2 h1) h2

/-- **The matcher decides the language.** -/
theorem matchesRe_iff (r : Re) (s : Bytes) : matchesRe r s = true ↔ Matches r s := by
  induction s generalizing r with
  | nil => simp only [matchesRe]; exact nullable_iff r
  | cons x s ih => simp only [matchesRe]; rw [ih, deriv_iff]

/-! ## derived forms -/

theorem plus_iff (a : Re) (s : Bytes) : Matches a.plus s ↔ ∃ u v, s = u ++ v ∧ Matches a u ∧ Matches (.star a) v := by
  unfold Re.plus
  constructor
  · intro h; exact h.cat_inv
  · intro ⟨u, v, hs, h1, h2⟩; subst hs; exact .cat h1 h2

theorem opt_iff (a : Re) (s : Bytes) : Matches a.opt s ↔ Matches a s ∨ s = [] := by
  unfold Re.opt
  constructor
  · intro h
    cases h.alt_inv with
    | inl h => exact .inl h
    | inr h => exact .inr h.eps_inv
  · intro h
    cases h with
    | inl h => exact .altL h
    | inr h => subst h; exact .altR .eps

/-! ## case folding -/

theorem toLower_idem (b : Nat) : toLower (toLower b) = toLower b := by
  unfold toLower; repeat' split
  all_goals omega

/-- two bytes with the same `toLower` are equal or the two cases of one ASCII letter -/
theorem toLower_eq_cases {b b' : Nat} (h : toLower b = toLower b') :
    b = b' ∨ (65 ≤ b ∧ b ≤ 90 ∧ b' = b + 32) ∨ (65 ≤ b' ∧ b' ≤ 90 ∧ b = b' + 32) := by
  unfold toLower at h; repeat' (split at h)
  all_goals omega

theorem toUpper_eq_of_toLower_eq {b b' : Nat} (h : toLower b = toLower b') : toUpper b = toUpper b' := by
  have := toLower_eq_cases h
  unfold toUpper; repeat' split
  all_goals omega

theorem chrTest_fold {c b b' : Nat} (h : toLower b = toLower b') : chrTest c b = chrTest c b' := by
  unfold chrTest; rw [h]

theorem anyTest_fold {b b' : Nat} (h : toLower b = toLower b') : anyTest b = anyTest b' := by
  have := toLower_eq_cases h
  unfold anyTest
  rcases this with rfl | ⟨h1, h2, rfl⟩ | ⟨h1, h2, rfl⟩
  · rfl
  · have e1 : (b != 10) = true := by simp; omega
    have e2 : (b != 13) = true := by simp; omega
    have e3 : (b + 32 != 10) = true := by simp
    have e4 : (b + 32 != 13) = true := by simp
    rw [e1, e2, e3, e4]
  · have e1 : (b' != 10) = true := by simp; omega
    have e2 : (b' != 13) = true := by simp; omega
    have e3 : (b' + 32 != 10) = true := by simp
    have e4 : (b' + 32 != 13) = true := by simp
    rw [e1, e2, e3, e4]

theorem Item.test_fold {b b' : Nat} (h : toLower b = toLower b') (it : Item) : it.test b = it.test b' := by
  have hu := toUpper_eq_of_toLower_eq h
  have hc := toLower_eq_cases h
  cases it with
  | single c => simp only [Item.test, h]
  | range lo hi => simp only [Item.test, h, hu]
  | digit =>
    simp only [Item.test]
    rcases hc with rfl | ⟨h1, h2, rfl⟩ | ⟨h1, h2, rfl⟩
    · rfl
    · have e1 : isDigit b = false := by unfold isDigit; simp; omega
      have e2 : isDigit (b + 32) = false := by unfold isDigit; simp; omega
      rw [e1, e2]
    · have e1 : isDigit b' = false := by unfold isDigit; simp; omega
      have e2 : isDigit (b' + 32) = false := by unfold isDigit; simp; omega
      rw [e1, e2]
  | word =>
    simp only [Item.test, isAlpha, isDigit]
    rcases hc with rfl | ⟨h1, h2, rfl⟩ | ⟨h1, h2, rfl⟩
    · rfl
    · have a1 : (decide (65 ≤ b) && decide (b ≤ 90)) = true := by simp; omega
      have a2 : (decide (97 ≤ b + 32) && decide (b + 32 ≤ 122)) = true := by simp; omega
      simp [a1]
    · have a1 : (decide (65 ≤ b') && decide (b' ≤ 90)) = true := by simp; omega
      have a2 : (decide (97 ≤ b' + 32) && decide (b' + 32 ≤ 122)) = true := by simp; omega
      simp [a1]
  | space =>
    simp only [Item.test]
    rcases hc with rfl | ⟨h1, h2, rfl⟩ | ⟨h1, h2, rfl⟩
    · rfl
    · have e1 : isSpace b = false := by unfold isSpace; simp; omega
      have e2 : isSpace (b + 32) = false := by unfold isSpace; simp; omega
      rw [e1, e2]
    · have e1 : isSpace b' = false := by unfold isSpace; simp; omega
      have e2 : isSpace (b' + 32) = false := by unfold isSpace; simp; omega
      rw [e1, e2]

theorem clsTest_fold {b b' : Nat} (h : toLower b = toLower b') (neg : Bool) (items : List Item) :
    clsTest neg items b = clsTest neg items b' := by
  unfold clsTest
  congr 1
  induction items with
  | nil => rfl
  | cons it its ih => simp only [List.any_cons, ih, Item.test_fold h it]

/-- matching does not see ASCII case: subjects that agree after `toLower` are matched alike -/
theorem Matches.fold {r : Re} {s : Bytes} (h : Matches r s) :
    ∀ t : Bytes, t.map toLower = s.map toLower → Matches r t := by
  induction h with
  | eps => intro t ht; simp at ht; subst ht; exact .eps
  | @chr c b hb =>
    intro t ht
    match t, ht with
    | [], ht => simp at ht
    | _ :: _ :: _, ht => simp at ht
    | [b'], ht => simp at ht; exact .chr (by rw [chrTest_fold ht]; exact hb)
  | @any b hb =>
    intro t ht
    match t, ht with
    | [], ht => simp at ht
    | _ :: _ :: _, ht => simp at ht
    | [b'], ht => simp at ht; exact .any (by rw [anyTest_fold ht]; exact hb)
  | @cls neg items b hb =>
    intro t ht
    match t, ht with
    | [], ht => simp at ht
    | _ :: _ :: _, ht => simp at ht
    | [b'], ht => simp at ht; exact .cls (by rw [clsTest_fold ht]; exact hb)
  | @cat a b s1 s2 _ _ ih1 ih2 =>
    intro t ht
    have hl : t.length = (s1 ++ s2).length := by
      have := congrArg List.length ht; simpa using this
    have e : t = t.take s1.length ++ t.drop s1.length := (List.take_append_drop _ _).symm
    rw [e]
    rw [List.map_append] at ht
    have h1 : (t.take s1.length).map toLower = s1.map toLower := by
      have := congrArg (List.take s1.length) ht
      rw [← List.map_take] at this
      simpa using this
    have h2 : (t.drop s1.length).map toLower = s2.map toLower := by
      have := congrArg (List.drop s1.length) ht
      rw [← List.map_drop] at this
      simpa using this
    exact .cat (ih1 _ h1) (ih2 _ h2)
  | altL _ ih => intro t ht; exact .altL (ih t ht)
  | altR _ ih => intro t ht; exact .altR (ih t ht)
  | starNil => intro t ht; simp at ht; subst ht; exact .starNil
  | @starCons a s1 s2 _ _ ih1 ih2 =>
    intro t ht
    have e : t = t.take s1.length ++ t.drop s1.length := (List.take_append_drop _ _).symm
    rw [e]
    rw [List.map_append] at ht
    have h1 : (t.take s1.length).map toLower = s1.map toLower := by
      have := congrArg (List.take s1.length) ht
      rw [← List.map_take] at this
      simpa using this
    have h2 : (t.drop s1.length).map toLower = s2.map toLower := by
      have := congrArg (List.drop s1.length) ht
      rw [← List.map_drop] at this
      simpa using this
    exact .starCons (ih1 _ h1) (ih2 _ h2)

theorem Matches.fold_iff (r : Re) {s t : Bytes} (h : s.map toLower = t.map toLower) :
    Matches r s ↔ Matches r t :=
  ⟨fun hm => hm.fold t h.symm, fun hm => hm.fold s h⟩

/-- a literal pattern matches exactly the case variants of the *whole* string -/
theorem lit_iff (w s : Bytes) : Matches (Re.lit w) s ↔ s.map toLower = w.map toLower := by
  induction w generalizing s with
  | nil =>
    simp only [Re.lit, List.map_nil, List.map_eq_nil_iff]
    exact ⟨fun h => h.eps_inv, fun h => h ▸ .eps⟩
  | cons c w ih =>
    simp only [Re.lit]
    constructor
    · intro h
      obtain ⟨u, v, rfl, h1, h2⟩ := h.cat_inv
      obtain ⟨b, rfl, hb⟩ := h1.chr_inv
      have := (ih v).1 h2
      unfold chrTest at hb
      simp at hb
      simp [hb, this]
    · intro h
      match s, h with
      | b :: v, h =>
        simp at h
        have hv := (ih v).2 h.2
        exact (Matches.cat (Matches.chr (c := c) (b := b) (by unfold chrTest; simp [h.1])) hv : Matches _ ([b] ++ v))

end AcqVerif.Select
