import AcqVerif.Select.Model
import AcqVerif.Select.RegexLemmas
/-!
# Lemmas about the selection model (layer 1)
-/
namespace AcqVerif.Select

/-! ## `find?` in index form: the order `select` uses is the order `get` exposes -/

theorem find?_eq_some_iff_index {α : Type} {p : α → Bool} {l : List α} {a : α} :
    l.find? p = some a ↔
      ∃ i : Nat, l[i]? = some a ∧ p a = true ∧ ∀ j : Nat, j < i → ∀ x, l[j]? = some x → p x = false := by
  induction l with
  | nil => simp
  | cons x xs ih =>
    rw [List.find?_cons]
    cases hx : p x with
    | true =>
      simp only
      constructor
      · intro h
        cases h
        exact ⟨0, by simp, hx, fun j hj => absurd hj (Nat.not_lt_zero j)⟩
      · intro ⟨i, hi, _, hmin⟩
        cases i with
        | zero => simp at hi; rw [hi]
        | succ i =>
          have := hmin 0 (Nat.succ_pos i) x (by simp)
          rw [hx] at this; cases this
    | false =>
      simp only
      rw [ih]
      constructor
      · intro ⟨i, hi, hp, hmin⟩
        refine ⟨i + 1, by simpa using hi, hp, ?_⟩
        intro j hj y hy
        cases j with
        | zero => simp at hy; rw [← hy]; exact hx
        | succ j => exact hmin j (Nat.lt_of_succ_lt_succ hj) y (by simpa using hy)
      · intro ⟨i, hi, hp, hmin⟩
        cases i with
        | zero => simp at hi; rw [hi] at hx; rw [hx] at hp; cases hp
        | succ i =>
          refine ⟨i, by simpa using hi, hp, ?_⟩
          intro j hj y hy
          exact hmin (j + 1) (Nat.succ_lt_succ hj) y (by simpa using hy)

/-! ## selection -/

theorem selectCore_ok_iff (m : Manager) (kind : Nat) (name : Bytes) (engine : Engine) (re : Bytes → Bool)
    (hc : engine (cstr name) = some re) (d : Ident) :
    m.selectCore kind name engine = .ok d ↔
      ∃ (i : Nat) (e : Entry), m.identifiers[i]? = some e ∧ e.ident = d ∧ accepts kind name re e = true ∧
        ∀ j : Nat, j < i → ∀ x, m.identifiers[j]? = some x → accepts kind name re x = false := by
  unfold Manager.selectCore
  rw [hc]
  simp only
  cases hf : m.identifiers.find? (accepts kind name re) with
  | none =>
    constructor
    · intro h; cases h
    · intro ⟨i, e, hi, _, ha, _⟩
      have := List.find?_eq_none.1 hf e (List.mem_iff_getElem?.2 ⟨i, hi⟩)
      exact absurd ha this
  | some e =>
    have := find?_eq_some_iff_index.1 hf
    constructor
    · intro h
      cases h
      obtain ⟨i, hi, hp, hmin⟩ := this
      exact ⟨i, e, hi, rfl, hp, hmin⟩
    · intro ⟨i, e', hi, hd, ha, hmin⟩
      have h2 := find?_eq_some_iff_index.2 ⟨i, hi, ha, hmin⟩
      rw [hf] at h2
      cases h2
      simp only [hd]

theorem selectCore_err_iff (m : Manager) (kind : Nat) (name : Bytes) (engine : Engine) (re : Bytes → Bool)
    (hc : engine (cstr name) = some re) :
    m.selectCore kind name engine = .err ↔ ∀ e, e ∈ m.identifiers → accepts kind name re e = false := by
  unfold Manager.selectCore
  rw [hc]
  simp only
  cases hf : m.identifiers.find? (accepts kind name re) with
  | none =>
    have := List.find?_eq_none.1 hf
    constructor
    · intro _ e he
      have := this e he
      cases h : accepts kind name re e with
      | true => exact absurd h this
      | false => rfl
    · intro _; rfl
  | some e =>
    constructor
    · intro h; cases h
    · intro h
      have h1 := List.find?_some hf
      have h2 := h e (List.mem_of_find?_eq_some hf)
      rw [h1] at h2; cases h2

theorem selectCore_bad_regex (m : Manager) (kind : Nat) (name : Bytes) (engine : Engine)
    (hc : engine (cstr name) = none) : m.selectCore kind name engine = .err := by
  unfold Manager.selectCore; rw [hc]

/-- whatever the inputs, `Ok` carries an enumerated identifier of the requested kind -/
theorem selectCore_total (m : Manager) (kind : Nat) (name : Bytes) (engine : Engine) :
    m.selectCore kind name engine = .err ∨
      ∃ e, e ∈ m.identifiers ∧ m.selectCore kind name engine = .ok e.ident ∧ e.ident.kind = kind := by
  unfold Manager.selectCore
  cases engine (cstr name) with
  | none => exact .inl rfl
  | some re =>
    simp only
    cases hf : m.identifiers.find? (accepts kind name re) with
    | none => exact .inl rfl
    | some e =>
      refine .inr ⟨e, List.mem_of_find?_eq_some hf, rfl, ?_⟩
      have := List.find?_some hf
      unfold accepts at this
      simp only [Bool.and_eq_true, beq_iff_eq] at this
      exact this.1

/-! ## the NUL rule -/

theorem cstr_of_nulfree {bs : Bytes} (h : ∀ b, b ∈ bs → b ≠ 0) : cstr bs = bs := by
  induction bs with
  | nil => rfl
  | cons x xs ih =>
    have hx : x ≠ 0 := h x (by simp)
    have : (x != 0) = true := by simp [hx]
    unfold cstr at *
    rw [List.takeWhile_cons, this]
    simp only [if_true]
    rw [ih (fun b hb => h b (by simp [hb]))]

theorem cstr_append_zero {p rest : Bytes} (h : ∀ b, b ∈ p → b ≠ 0) : cstr (p ++ 0 :: rest) = p := by
  induction p with
  | nil => simp [cstr]
  | cons x xs ih =>
    have hx : x ≠ 0 := h x (by simp)
    have : (x != 0) = true := by simp [hx]
    unfold cstr at *
    rw [List.cons_append, List.takeWhile_cons, this]
    simp only [if_true]
    rw [ih (fun b hb => h b (by simp [hb]))]

theorem cstr_nulfree (bs : Bytes) : ∀ b, b ∈ cstr bs → b ≠ 0 := by
  induction bs with
  | nil => intro b hb; simp [cstr] at hb
  | cons x xs ih =>
    intro b hb
    unfold cstr at hb ih
    rw [List.takeWhile_cons] at hb
    split at hb
    · rename_i hx
      cases hb with
      | head => simpa using hx
      | tail _ hb => exact ih b hb
    · cases hb

theorem cstr_idem (bs : Bytes) : cstr (cstr bs) = cstr bs := cstr_of_nulfree (cstr_nulfree bs)

/-- the regex is always built from the C string of the caller's bytes -/
theorem cstr_stdName_buf (bs : Bytes) : cstr (stdName (.buf bs)) = cstr bs := by
  simp only [stdName]
  split
  · rename_i h; simp at h; subst h; rfl
  · split
    · exact cstr_idem bs
    · rfl

/-- a NUL-free name is used as it is -/
theorem stdName_nulfree {bs : Bytes} (h : ∀ b, b ∈ bs → b ≠ 0) : stdName (.buf bs) = bs := by
  simp only [stdName]
  split
  · rename_i he; simp at he; exact he.symm
  · split
    · rename_i hl
      simp only [beq_iff_eq] at hl
      obtain ⟨ys, hys⟩ := List.getLast?_eq_some_iff.1 hl
      exact absurd rfl (h 0 (by rw [hys]; simp))
    · rfl

/-- NUL padding is stripped: `"trash\0\0"` selects like `"trash"` -/
theorem stdName_padded {p : Bytes} (k : Nat) (h : ∀ b, b ∈ p → b ≠ 0) :
    stdName (.buf (p ++ List.replicate (k + 1) 0)) = p := by
  have hne : (p ++ List.replicate (k + 1) 0).isEmpty = false := by
    simp [List.replicate_succ]
  have hlast : (p ++ List.replicate (k + 1) 0).getLast? = some 0 := by
    rw [List.replicate_succ', ← List.append_assoc]
    simp
  simp only [stdName]
  rw [hne]
  simp only [Bool.false_eq_true, if_false, hlast, beq_self_eq_true, if_true]
  rw [List.replicate_succ]
  exact cstr_append_zero h

/-- an embedded NUL with a non-NUL last byte: the `std::string` keeps all bytes (so it is not
"empty") while the regex is built from the prefix -/
theorem stdName_embedded {bs : Bytes} (hne : bs ≠ []) (hl : bs.getLast? ≠ some 0) : stdName (.buf bs) = bs := by
  simp only [stdName]
  split
  · rename_i he; simp at he; exact absurd he hne
  · split
    · rename_i h; simp only [beq_iff_eq] at h; exact absurd h hl
    · rfl

/-! ## enumeration -/

/-- the entry `init` stores for index `i` of driver `d` in slot `driverId` -/
def mkEntry (driverId : Nat) (d : Driver) (i : Nat) : Entry :=
  ⟨(d.describe i).1, { (d.describe i).2 with driverId := driverId }⟩

theorem mem_enumDriver {k : Nat} {d : Driver} {e : Entry} :
    e ∈ enumDriver k d ↔ ∃ i, i < d.count ∧ e = mkEntry k d i := by
  unfold enumDriver mkEntry
  simp only [List.mem_map, List.mem_range]
  constructor
  · intro ⟨i, hi, he⟩; exact ⟨i, hi, he.symm⟩
  · intro ⟨i, hi, he⟩; exact ⟨i, hi, he.symm⟩

theorem mem_enumerate {ds : List (Option Driver)} {k : Nat} {e : Entry} :
    e ∈ enumerate k ds ↔ ∃ j d i, ds[j]? = some (some d) ∧ i < d.count ∧ e = mkEntry (k + j) d i := by
  induction ds generalizing k with
  | nil => simp [enumerate]
  | cons x xs ih =>
    cases x with
    | none =>
      simp only [enumerate]
      rw [ih]
      constructor
      · intro ⟨j, d, i, hj, hi, he⟩
        exact ⟨j + 1, d, i, by simpa using hj, hi, by rw [he]; congr 1; omega⟩
      · intro ⟨j, d, i, hj, hi, he⟩
        cases j with
        | zero => simp at hj
        | succ j => exact ⟨j, d, i, by simpa using hj, hi, by rw [he]; congr 1; omega⟩
    | some d0 =>
      simp only [enumerate, List.mem_append]
      rw [ih, mem_enumDriver]
      constructor
      · intro h
        cases h with
        | inl h =>
          obtain ⟨i, hi, he⟩ := h
          exact ⟨0, d0, i, by simp, hi, by simpa using he⟩
        | inr h =>
          obtain ⟨j, d, i, hj, hi, he⟩ := h
          exact ⟨j + 1, d, i, by simpa using hj, hi, by rw [he]; congr 1; omega⟩
      · intro ⟨j, d, i, hj, hi, he⟩
        cases j with
        | zero =>
          simp at hj; subst hj
          exact .inl ⟨i, hi, by simpa using he⟩
        | succ j => exact .inr ⟨j, d, i, by simpa using hj, hi, by rw [he]; congr 1; omega⟩

/-- a library yields a driver exactly when it is loaded -/
theorem driverLoad_eq_some {l : LibState} {d : Driver} : driverLoad l = some d ↔ l = .loaded d := by
  cases l <;> simp [driverLoad]

theorem mem_init_identifiers {libs : List LibState} {e : Entry} :
    e ∈ (Manager.init libs).identifiers ↔
      ∃ slot d i, libs[slot]? = some (.loaded d) ∧ i < d.count ∧ e = mkEntry slot d i := by
  unfold Manager.init
  simp only
  rw [mem_enumerate]
  constructor
  · intro ⟨j, d, i, hj, hi, he⟩
    rw [List.getElem?_map] at hj
    cases hl : libs[j]? with
    | none => rw [hl] at hj; simp at hj
    | some l =>
      rw [hl] at hj
      simp only [Option.map_some, Option.some.injEq] at hj
      exact ⟨j, d, i, by rw [driverLoad_eq_some.1 hj] at hl; exact hl, hi, by simpa using he⟩
  · intro ⟨j, d, i, hj, hi, he⟩
    exact ⟨j, d, i, by rw [List.getElem?_map, hj]; simp [driverLoad], hi, by simpa using he⟩

/-! ## get / get_driver -/

theorem get_ok_iff (m : Manager) (i : Nat) (d : Ident) :
    m.get i = .ok d ↔ ∃ e, m.identifiers[i]? = some e ∧ e.ok = true ∧ e.ident = d := by
  unfold Manager.get
  cases h : m.identifiers[i]? with
  | none => simp
  | some e =>
    simp only
    split
    · rename_i hok
      constructor
      · intro hh; cases hh; exact ⟨e, rfl, hok, rfl⟩
      · intro ⟨e', he', _, hd⟩; cases he'; rw [hd]
    · rename_i hok
      constructor
      · intro hh; cases hh
      · intro ⟨e', he', hok', _⟩; cases he'; exact absurd hok' hok

theorem get_out_of_range (m : Manager) (i : Nat) (h : m.count ≤ i) : m.get i = .err := by
  unfold Manager.get
  have : m.identifiers[i]? = none := List.getElem?_eq_none_iff.2 h
  rw [this]

theorem getDriver_init (libs : List LibState) (ident : Ident) :
    (Manager.init libs).getDriver ident =
      match libs[ident.driverId]? with
      | none => none
      | some l => driverLoad l := by
  unfold Manager.getDriver Manager.init
  simp only [List.getElem?_map]
  cases libs[ident.driverId]? <;> rfl

/-! ## opening an enumerated identifier -/

/-- a well-behaved driver: every index below `count` can be described (reporting its own index
as `device_id`) and opened -/
def Driver.Faithful (d : Driver) : Prop :=
  ∀ i, i < d.count → (d.describe i).1 = true ∧ (d.describe i).2.deviceId = i ∧ d.open_ i = true

theorem open_agrees (libs : List LibState) (hf : ∀ d, LibState.loaded d ∈ libs → d.Faithful)
    (e : Entry) (he : e ∈ (Manager.init libs).identifiers) :
    e.ok = true ∧ ∃ o, (Manager.init libs).openIdent e.ident = .ok o ∧
      o.kind = e.ident.kind ∧ o.name = e.ident.name ∧ o.deviceId = e.ident.deviceId := by
  obtain ⟨slot, d, i, hs, hi, rfl⟩ := mem_init_identifiers.1 he
  have hmem : LibState.loaded d ∈ libs := List.mem_iff_getElem?.2 ⟨slot, hs⟩
  obtain ⟨h1, h2, h3⟩ := hf d hmem i hi
  refine ⟨h1, (d.describe i).2, ?_, rfl, rfl, rfl⟩
  unfold Manager.openIdent
  rw [getDriver_init]
  simp only [mkEntry, hs, driverLoad, driverOpenDevice, h2, h3, h1, if_true]

end AcqVerif.Select
