/-!
# Layer 2 of C12: a regular-expression subset with a proved matcher

`device_manager_select` hands the name pattern to `std::regex(…, icase)` and
asks `std::regex_match` (whole string).  This file gives the subset

  literal, `.`, character class (single characters, ranges, `\d \w \s`, negation),
  `*  +  ?`, alternation, group (= nesting), escape (= a literal metacharacter)

a *semantics* (`Matches`, the inductive language, with ASCII case folding as
`icase` does it in libstdc++: a literal matches the bytes with the same
`toLower`; a range `lo-hi` matches `b` if `toLower b` or `toUpper b` lies in it)
and an executable Brzozowski-derivative matcher `matchesRe`.  `Select/RegexLemmas.lean`
proves `matchesRe r s = true ↔ Matches r s`.

Bytes are `Nat` (the harness sends values 1..255; nothing here needs the bound).
No import outside core: linked into the native driver `acq_select`.
-/
namespace AcqVerif.Select

abbrev Bytes := List Nat

/-- `tolower` of the "C" locale -/
def toLower (b : Nat) : Nat := if 65 ≤ b ∧ b ≤ 90 then b + 32 else b
/-- `toupper` of the "C" locale -/
def toUpper (b : Nat) : Nat := if 97 ≤ b ∧ b ≤ 122 then b - 32 else b

/-- member of a bracket expression -/
inductive Item where
  | single (c : Nat)        -- `a`, `\.`
  | range (lo hi : Nat)     -- `a-z`
  | digit                   -- `\d`
  | word                    -- `\w`
  | space                   -- `\s`
deriving DecidableEq, Repr, Inhabited

def isDigit (b : Nat) : Bool := 48 ≤ b && b ≤ 57
def isAlpha (b : Nat) : Bool := (65 ≤ b && b ≤ 90) || (97 ≤ b && b ≤ 122)
def isSpace (b : Nat) : Bool := b == 32 || (9 ≤ b && b ≤ 13)

/-- does byte `b` belong to the item (libstdc++ `_BracketMatcher::_M_apply` under `icase`) -/
def Item.test (b : Nat) : Item → Bool
  | .single c => toLower b == toLower c
  | .range lo hi => (lo ≤ toLower b && toLower b ≤ hi) || (lo ≤ toUpper b && toUpper b ≤ hi)
  | .digit => isDigit b
  | .word => isAlpha b || isDigit b || b == 95
  | .space => isSpace b

/-- the regular expressions of the subset; `plus`/`opt` are derived forms below -/
inductive Re where
  | empty                               -- matches nothing (only produced by derivatives)
  | eps                                 -- the empty pattern / `()`
  | chr (c : Nat)                       -- literal or escaped metacharacter
  | any                                 -- `.` : everything but `\n`, `\r`
  | cls (neg : Bool) (items : List Item) -- `[...]`, `[^...]`, `\d`, `\w`, `\s`
  | cat (a b : Re)
  | alt (a b : Re)
  | star (a : Re)
deriving DecidableEq, Repr, Inhabited

/-- `a+` -/
def Re.plus (a : Re) : Re := .cat a (.star a)
/-- `a?` -/
def Re.opt (a : Re) : Re := .alt a .eps

def anyTest (b : Nat) : Bool := b != 10 && b != 13
def clsTest (neg : Bool) (items : List Item) (b : Nat) : Bool := (items.any (·.test b)) != neg
def chrTest (c b : Nat) : Bool := toLower b == toLower c

/-- the language of a pattern: *whole* strings, with folding built into the atoms -/
inductive Matches : Re → Bytes → Prop where
  | eps : Matches .eps []
  | chr {c b} : chrTest c b = true → Matches (.chr c) [b]
  | any {b} : anyTest b = true → Matches .any [b]
  | cls {neg items b} : clsTest neg items b = true → Matches (.cls neg items) [b]
  | cat {a b s t} : Matches a s → Matches b t → Matches (.cat a b) (s ++ t)
  | altL {a b s} : Matches a s → Matches (.alt a b) s
  | altR {a b s} : Matches b s → Matches (.alt a b) s
  | starNil {a} : Matches (.star a) []
  | starCons {a s t} : Matches a s → Matches (.star a) t → Matches (.star a) (s ++ t)

/-- does the pattern accept the empty string -/
def nullable : Re → Bool
  | .empty => false
  | .eps => true
  | .chr _ => false
  | .any => false
  | .cls _ _ => false
  | .cat a b => nullable a && nullable b
  | .alt a b => nullable a || nullable b
  | .star _ => true

/-- smart constructors: keep derivatives small (∅·r = ∅, ε·r = r, ∅|r = r, r|r = r) -/
def mkCat (a b : Re) : Re :=
  match a with
  | .empty => .empty
  | .eps => b
  | _ => .cat a b

def mkAlt (a b : Re) : Re :=
  match a, b with
  | .empty, _ => b
  | _, .empty => a
  | _, _ => if a = b then a else .alt a b

/-- Brzozowski derivative with respect to one byte -/
def deriv (x : Nat) : Re → Re
  | .empty => .empty
  | .eps => .empty
  | .chr c => if chrTest c x then .eps else .empty
  | .any => if anyTest x then .eps else .empty
  | .cls neg items => if clsTest neg items x then .eps else .empty
  | .cat a b => if nullable a then mkAlt (mkCat (deriv x a) b) (deriv x b) else mkCat (deriv x a) b
  | .alt a b => mkAlt (deriv x a) (deriv x b)
  | .star a => mkCat (deriv x a) (.star a)

/-- the matcher: whole-string match by iterated derivatives -/
def matchesRe (r : Re) : Bytes → Bool
  | [] => nullable r
  | x :: s => matchesRe (deriv x r) s

/-- the literal pattern for a byte string (`raw` ↦ `r·a·w`) -/
def Re.lit : Bytes → Re
  | [] => .eps
  | c :: cs => .cat (.chr c) (Re.lit cs)

end AcqVerif.Select
