import AcqVerif.Generated.DeviceTable
import AcqVerif.Select.Regex
/-!
# Layer 1 of C12: model of device enumeration and selection

A transcription of

* `acquire-device-hal/device/hal/device.manager.cpp` — `DeviceManagerV0::init / count / get /
  get_driver / select` and the C entry points `device_manager_count / get / get_driver /
  select / select_first / select_default` with their exception barriers
  (a C++ exception caught at the barrier = the result `.err`),
* `loader.c` — `driver_load` (a library that is absent, lacks the entry point or whose
  initialiser fails gives a NULL driver),
* `driver.c` — `driver_open_device` (`open`, then `describe` into the new device),
* `basics.driver.c` — as the table `Generated/DeviceTable.lean`, which is produced by
  running the real driver.

Names and patterns are byte lists (`Nat` per byte).  The regular-expression engine is a
parameter `Engine` (the verdicts of `std::regex` / `std::regex_match`): `none` = the
constructor throws `std::regex_error`.  Layer 2 (`Regex.lean`) supplies a proved engine
for a subset.  No import outside core: linked into the native driver `acq_select`.
-/
namespace AcqVerif.Select
open AcqVerif.Generated

/-- `struct DeviceIdentifier` -/
structure Ident where
  driverId : Nat
  deviceId : Nat
  kind : Nat
  name : Bytes
deriving DecidableEq, Repr, Inhabited

/-- `const DeviceIdentifier dflt{ 0, 0, DeviceKind_Unknown, "" }` -/
def Ident.dflt : Ident := ⟨0, 0, DeviceTable.DeviceKind_Unknown, []⟩

/-- the vtable of a loaded `struct Driver`, as functions of the index -/
structure Driver where
  /-- `device_count` -/
  count : Nat
  /-- `describe(i)`: (status == Device_Ok, identifier after the call when it held `dflt` before) -/
  describe : Nat → Bool × Ident
  /-- `open(device_id)` returned `Device_Ok` and a non-NULL device -/
  open_ : Nat → Bool

inductive Res (α : Type) where
  | ok (a : α)
  | err
deriving DecidableEq, Repr

/-- `DeviceManagerV0::DeviceEnumerationResult` -/
structure Entry where
  ok : Bool          -- status_ == Device_Ok
  ident : Ident
deriving DecidableEq, Repr, Inhabited

/-! ## loader.c -/

/-- what is found next to the executable under `lib<name>.so` -/
inductive LibState where
  | absent                 -- `lib_open_by_name` fails (no file, not a shared object)
  | noEntry                -- no `acquire_driver_init_v0`
  | initFails              -- the initialiser returns NULL
  | loaded (d : Driver)

/-- `driver_load`: every failure goes to `Error:` (close the library, free the loader, return 0) -/
def driverLoad : LibState → Option Driver
  | .absent => none
  | .noEntry => none
  | .initFails => none
  | .loaded d => some d

/-! ## device.manager.cpp -/

structure Manager where
  drivers : List (Option Driver)      -- drivers_
  identifiers : List Entry            -- identifiers_

/-- inner loop of `init`: `for i < n: emplace_back(Err, dflt); status = describe(&ident, i); ident.driver_id = driver_id` -/
def enumDriver (driverId : Nat) (d : Driver) : List Entry :=
  (List.range d.count).map fun i =>
    let r := d.describe i
    ⟨r.1, { r.2 with driverId := driverId }⟩

/-- outer loop of `init`: `driver_id` advances for absent drivers too -/
def enumerate : Nat → List (Option Driver) → List Entry
  | _, [] => []
  | driverId, none :: ds => enumerate (driverId + 1) ds
  | driverId, some d :: ds => enumDriver driverId d ++ enumerate (driverId + 1) ds

/-- `DeviceManagerV0::init` (the six fixed library names are the six list positions) -/
def Manager.init (libs : List LibState) : Manager :=
  let drivers := libs.map driverLoad
  ⟨drivers, enumerate 0 drivers⟩

/-- `device_manager_count` -/
def Manager.count (m : Manager) : Nat := m.identifiers.length

/-- `device_manager_get`: `identifiers_.at(index)` throws `out_of_range`; a failed enumeration throws `runtime_error` -/
def Manager.get (m : Manager) (index : Nat) : Res Ident :=
  match m.identifiers[index]? with
  | none => .err
  | some e => if e.ok then .ok e.ident else .err

/-- `device_manager_get_driver`: `drivers_.at(driver_id)` (throws ⇒ 0); the entry itself may be NULL -/
def Manager.getDriver (m : Manager) (ident : Ident) : Option Driver :=
  match m.drivers[ident.driverId]? with
  | none => none
  | some d => d

/-- how `(name, bytes_of_name)` reach the C API -/
inductive NameArg where
  | null (len : Nat)       -- name == NULL
  | buf (bs : Bytes)       -- name != NULL, bytes_of_name = bs.length
deriving DecidableEq, Repr

/-- a C string: the bytes before the first NUL -/
def cstr (bs : Bytes) : Bytes := bs.takeWhile (· != 0)

/-- the `std::string name` of `device_manager_select_inner_`: all `bytes_of_name` bytes; if the
last one is NUL, cut at the first NUL -/
def stdName : NameArg → Bytes
  | .null _ => []
  | .buf bs =>
    if bs.isEmpty then []
    else if bs.getLast? == some 0 then cstr bs
    else bs

/-- the regex engine: `none` = `std::regex_error` from the constructor, else the `regex_match` verdicts -/
abbrev Engine := Bytes → Option (Bytes → Bool)

/-- the test applied to each enumerated identifier, in order -/
def accepts (kind : Nat) (name : Bytes) (re : Bytes → Bool) (e : Entry) : Bool :=
  e.ident.kind == kind && (name.isEmpty || re e.ident.name)

/-- `DeviceManagerV0::select` + the result handling of `device_manager_select_inner_`:
the regex is built from `name.c_str()` *before* the loop -/
def Manager.selectCore (m : Manager) (kind : Nat) (name : Bytes) (engine : Engine) : Res Ident :=
  match engine (cstr name) with
  | none => .err
  | some re =>
    match m.identifiers.find? (accepts kind name re) with
    | some e => .ok e.ident
    | none => .err

/-- `device_manager_select_inner_` -/
def Manager.selectInner (m : Manager) (kind : Nat) (arg : NameArg) (engine : Engine) : Res Ident :=
  m.selectCore kind (stdName arg) engine

/-- `device_manager_select`: `EXPECT((name && bytes_of_name) || bytes_of_name == 0)` -/
def Manager.select (m : Manager) (kind : Nat) (arg : NameArg) (engine : Engine) : Res Ident :=
  match arg with
  | .null len => if len = 0 then m.selectInner kind arg engine else .err
  | .buf _ => m.selectInner kind arg engine

/-- `device_manager_select_first` -/
def Manager.selectFirst (m : Manager) (kind : Nat) (engine : Engine) : Res Ident :=
  m.selectInner kind (.null 0) engine

/-- `".*random.*"` -/
def defaultCameraPattern : Bytes := [46, 42, 114, 97, 110, 100, 111, 109, 46, 42]
/-- `"trash"` -/
def defaultStoragePattern : Bytes := [116, 114, 97, 115, 104]

/-- `device_manager_select_default` -/
def Manager.selectDefault (m : Manager) (kind : Nat) (engine : Engine) : Res Ident :=
  if kind = DeviceTable.DeviceKind_Camera then m.selectInner kind (.buf defaultCameraPattern) engine
  else if kind = DeviceTable.DeviceKind_Storage then m.selectInner kind (.buf defaultStoragePattern) engine
  else .err

/-! ## driver.c -/

/-- `driver_open_device`: NULL driver ⇒ Err; `open`; then `describe` into the device's identifier -/
def driverOpenDevice (driver : Option Driver) (deviceId : Nat) : Res Ident :=
  match driver with
  | none => .err
  | some d =>
    if d.open_ deviceId then
      let r := d.describe deviceId
      if r.1 then .ok r.2 else .err
    else .err

/-- open the device an enumerated identifier names (what `camera_open` / `storage_open` do) -/
def Manager.openIdent (m : Manager) (ident : Ident) : Res Ident :=
  driverOpenDevice (m.getDriver ident) ident.deviceId

/-! ## drivers given by tables -/

/-- a driver whose answers are read off a table of rows (the extracted common driver, the mock drivers) -/
def driverOfRows (count : Nat) (rows : List DeviceTable.Row) : Driver where
  count := count
  describe i :=
    match rows.find? (·.index == i) with
    | some r => (r.descOk, ⟨0, r.deviceId, r.kind, r.name⟩)
    | none => (false, Ident.dflt)
  open_ i :=
    match rows.find? (·.index == i) with
    | some r => r.openOk
    | none => false

/-- `libacquire-driver-common.so`, as observed by running it -/
def commonDriver : Driver := driverOfRows DeviceTable.deviceCount DeviceTable.rows

/-- the engine of layer 2: a pattern already parsed into the subset -/
def reEngine (r : Re) : Engine := fun _ => some (matchesRe r)

end AcqVerif.Select
