import AcqVerif.Generated.FrameConst
/-!
# Frames: sizes, as `source.c`, `filter.c` and `components.c` compute them

`hdr`, the `bytes_of_type` table and the two rounding expressions come from
`Generated/FrameConst.lean`, which is regenerated from the source on every run.
-/
namespace AcqVerif.Frames
open AcqVerif.Generated.FrameConst

/-- `bytes_of_type` (0 for values outside the enum) -/
def bytesOfType (t : Nat) : Nat := bytesOfTypeTable.getD t 0

/-- `bytes_of_image`: `shape->strides.planes * bytes_of_type(shape->type)` -/
def imageBytes (planesStride type : Nat) : Nat := planesStride * bytesOfType type

/-- size of the write, and value of the header's `bytes_of_frame`, for a camera frame (`source.c`) -/
def frameBytes (planesStride type : Nat) : Nat := sourceAlign (hdr + imageBytes planesStride type)

/-- the same for the f32 accumulator frame the filter emits (`filter.c`); `f32` = the type whose id is 4 -/
def accumulatorBytes (planesStride : Nat) : Nat := filterAlign (imageBytes planesStride 4 + hdr)

end AcqVerif.Frames
