import AcqVerif.Generated.SimcamConstants
/-!
# Model of the configuration / shape / buffer side of `simulated.camera.c`  (property C17)

A transcription of `acquire-driver-common/src/simcams/simulated.camera.c` (with the
repairs of `fixes/17-*.patch` applied), `bin2.avx2.c`, `bin2.plain.c` and the loops of
`imfill.pattern.cpp`, as far as *sizes* are concerned:

* `simcamSet`, `simcamGet`, `simcamGetShape`, `simcamGetMeta`, `simcamStart`,
  `simcamStop`, `simcamGetFrame`  — same branches, same order as the C;
* `streamerIteration` — one pass of the body of `simulated_camera_streamer_thread`
  (render at full resolution, binning cascade, optional publish = swap of the buffers);
* for every renderer the **extent** (one past the highest byte offset it touches, 0 if it
  touches nothing) in the buffer it works on: `imFillRandExtent`, `imFillPatternExtent`,
  `bin2Avx2Extent`, `bin2PlainExtent`, and the copy-out of `simcam_get_frame`.

Pixel values are not modelled (AVX2 lane semantics, the PRNG and `sinf` are opaque); the
thread protocol (trigger gating, frame ids, wake-ups) is the subject of C18.  A float field
is carried as its 32 bit pattern and never interpreted.  `realloc` is assumed to succeed.

No import outside core: this file is linked into the native driver `acq_simcam`.
-/
namespace AcqVerif.Simcam

/-- which `bin2` the camera was compiled with (`#ifdef __AVX2__`) -/
inductive Variant where
  | avx2
  | plain
deriving DecidableEq, Repr, Inhabited

/-- `struct Trigger` -/
structure Trigger where
  enable : Nat := 0
  line : Nat := 0
  kind : Nat := 0
  edge : Nat := 0
deriving DecidableEq, Repr, Inhabited

/-- `struct CameraProperties` (floats as bit patterns) -/
structure Props where
  exposure : Nat := 0
  lineInterval : Nat := 0
  readout : Nat := 0
  binning : Nat := 1
  pixelType : Nat := 0
  offX : Nat := 0
  offY : Nat := 0
  shapeX : Nat := 0
  shapeY : Nat := 0
  inAcqStart : Trigger := {}
  inFrameStart : Trigger := {}
  inExposure : Trigger := {}
  outExposure : Trigger := {}
  outFrameStart : Trigger := {}
  outTriggerWait : Trigger := {}
deriving DecidableEq, Repr, Inhabited

/-- `struct ImageShape` -/
structure Shape where
  channels : Nat := 1
  width : Nat := 0
  height : Nat := 0
  planes : Nat := 1
  sChannels : Nat := 1
  sWidth : Nat := 1
  sHeight : Nat := 0
  sPlanes : Nat := 0
  type : Nat := 0
deriving DecidableEq, Repr, Inhabited

/-- the fields of `struct CameraPropertyMetadata` that depend on the state, plus the constants
the property refers to -/
structure Meta where
  binningLow : Nat
  binningHigh : Nat
  shapeXLow : Nat
  shapeXHigh : Nat
  shapeYLow : Nat
  shapeYHigh : Nat
  offXHigh : Nat
  offYHigh : Nat
  supportedPixelTypes : Nat
deriving DecidableEq, Repr, Inhabited

/-- `struct SimulatedCamera` without locks, condition variables, frame ids.
`frameBuf` / `renderBuf`: allocated size of `im.frame_data` / `im.render_data`; `none` = NULL. -/
structure Cam where
  kind : Nat
  props : Props
  shape : Shape
  frameBuf : Option Nat := none
  renderBuf : Option Nat := none
  running : Bool := false
deriving DecidableEq, Repr, Inhabited

/-! ## helpers of the C file -/

/-- `bytes_of_type` (components.c): table lookup, 0 for an unknown type -/
def bytesOfType (t : Nat) : Nat := K.bytesOfTypeTable.getD t 0

/-- `bytes_of_image` : `strides.planes * bytes_of_type(type)` -/
def bytesOfImage (s : Shape) : Nat := s.sPlanes * bytesOfType s.type

/-- the rounding `((n + 31) >> 5) << 5` of `aligned_bytes_of_image` -/
def alignUp (n : Nat) : Nat := ((n + (K.bufAlign - 1)) / K.bufAlign) * K.bufAlign

/-- `aligned_bytes_of_image` -/
def alignedBytesOfImage (s : Shape) : Nat := alignUp (bytesOfImage s)

/-- `compute_strides` : `st[0] = 1; st[i] = st[i-1] * dims[i-1]` -/
def computeStrides (s : Shape) : Shape :=
  let s0 := 1
  let s1 := s0 * s.channels
  let s2 := s1 * s.width
  let s3 := s2 * s.height
  { s with sChannels := s0, sWidth := s1, sHeight := s2, sPlanes := s3 }

/-- `popcount_u8` (argument already a `uint8_t`) -/
def popcountU8 (v : Nat) : Nat :=
  v % 2 + v / 2 % 2 + v / 4 % 2 + v / 8 % 2 + v / 16 % 2 + v / 32 % 2 + v / 64 % 2 + v / 128 % 2

/-- the macro `clamp(v, L, H)` -/
def clamp (v lo hi : Nat) : Nat := if v < lo then lo else if v > hi then hi else v

/-- `compute_full_resolution_shape_and_offset` (shape part): what the streamer renders -/
def fullShape (c : Cam) : Shape :=
  let b := c.props.binning
  computeStrides { channels := 1, width := b * c.props.shapeX, height := b * c.props.shapeY, planes := 1,
                   type := c.shape.type }

/-- `simcam_make_camera` -/
def mk (kind : Nat) : Cam :=
  { kind := kind
    props := { exposure := K.defaultExposureBits, lineInterval := K.defaultLineIntervalBits,
               readout := K.defaultReadout, binning := K.defaultBinning, pixelType := K.defaultPixelType,
               offX := K.defaultOffX, offY := K.defaultOffY,
               shapeX := K.defaultShapeX, shapeY := K.defaultShapeY,
               inFrameStart := { enable := K.defaultFrameStartEnable, line := K.defaultFrameStartLine,
                                 kind := K.defaultFrameStartKind, edge := K.defaultFrameStartEdge } }
    shape := { channels := 1, width := K.defaultShapeX, height := K.defaultShapeY, planes := 1,
               sChannels := 1, sWidth := 1, sHeight := K.defaultShapeX,
               sPlanes := K.defaultShapeX * K.defaultShapeY, type := K.defaultShapeType }
    frameBuf := none, renderBuf := none, running := false }

/-! ## camera interface -/

/-- `simcam_get_meta`.  All floats involved are integers below 2^24, so the float arithmetic
`MAX / binning`, `max(0, w - cw - 1)` is exact and equals the `Nat` one (`-` truncates at 0). -/
def simcamGetMeta (c : Cam) : Meta :=
  let binning := c.props.binning
  let cw := c.props.shapeX
  let ch := c.props.shapeY
  let w := K.maxImageWidth / binning
  let h := K.maxImageHeight / binning
  { binningLow := K.metaBinningLow, binningHigh := K.metaBinningHigh,
    shapeXLow := K.metaShapeLow, shapeXHigh := w, shapeYLow := K.metaShapeLow, shapeYHigh := h,
    offXHigh := w - cw - 1, offYHigh := h - ch - 1,
    supportedPixelTypes := K.metaSupportedPixelTypes }

/-- outcome of `simcam_set` -/
structure SetOut where
  ok : Bool
  /-- the caller's `settings` after the call (`binning` 0 is rewritten to 1 in place) -/
  settings : Props
  /-- `simcam_execute_trigger` was called (frame-start trigger switched off) -/
  fired : Bool
  cam : Cam
deriving Repr

/-- the first statement of `simcam_set`: `if (!settings->binning) settings->binning = 1;` -/
def normBinning (s : Props) : Props := if s.binning = 0 then { s with binning := 1 } else s

/-- `simcam_set` after the binning default has been written into `settings` -/
def simcamSetCore (c : Cam) (settings : Props) : SetOut :=
  if popcountU8 settings.binning ≠ 1 then
    { ok := false, settings := settings, fired := false, cam := c }
  else if bytesOfType settings.pixelType = 0 then
    { ok := false, settings := settings, fired := false, cam := c }
  else
    let fired := c.props.inFrameStart.enable ≠ 0 ∧ settings.inFrameStart.enable = 0
    let props : Props :=
      { settings with
        inAcqStart := {}
        inFrameStart := { enable := settings.inFrameStart.enable, line := 0,
                          kind := K.signalInput, edge := K.triggerEdgeRising }
        inExposure := {} }
    let c1 : Cam := { c with props := props }
    let m := simcamGetMeta c1
    let shape := computeStrides
      { channels := 1
        width := clamp settings.shapeX m.shapeXLow m.shapeXHigh
        height := clamp settings.shapeY m.shapeYLow m.shapeYHigh
        planes := 1
        type := settings.pixelType }
    let c2 : Cam := { c1 with shape := shape, props := { props with shapeX := shape.width, shapeY := shape.height } }
    let nbytes := alignedBytesOfImage (fullShape c2)
    { ok := true, settings := settings, fired := decide fired,
      cam := { c2 with frameBuf := some nbytes, renderBuf := some nbytes } }

/-- `simcam_set` -/
def simcamSet (c : Cam) (settings : Props) : SetOut := simcamSetCore c (normBinning settings)

/-- `simcam_get` -/
def simcamGet (c : Cam) : Props := c.props

/-- `simcam_get_shape` -/
def simcamGetShape (c : Cam) : Shape := c.shape

/-- `simcam_start` (thread creation is C18's business) -/
def simcamStart (c : Cam) : Cam := { c with running := true }

/-- `simcam_stop` -/
def simcamStop (c : Cam) : Cam := { c with running := false }

/-! ## byte extents -/

inductive Buf where
  | render   -- `im.render_data`
  | frame    -- `im.frame_data`
  | caller   -- the `im` argument of `get_frame`
deriving DecidableEq, Repr, Inhabited

inductive Who where
  | fillRand
  | fillPattern
  | bin2 (pass : Nat)
  | copyOutSrc
  | copyOutDst
deriving DecidableEq, Repr, Inhabited

/-- one renderer pass / copy: the buffer it touches, one past the highest byte offset it
touches, and the alignment of the buffer base its loads/stores require -/
structure Access where
  who : Who
  buf : Buf
  extent : Nat
  align : Nat
deriving DecidableEq, Repr, Inhabited

/-- `im_fill_rand`: `for (p = buf; p < buf + aligned_bytes; p += 4) *(uint32_t*)p = …` -/
def imFillRandExtent (s : Shape) : Nat :=
  let nbytes := alignedBytesOfImage s
  -- last store begins at the largest multiple of 4 below nbytes
  if nbytes = 0 then 0 else (nbytes - 1) / K.sizeofUInt32 * K.sizeofUInt32 + K.sizeofUInt32

/-- element size of the `im_fill_pattern_*` the switch in `im_fill_pattern` dispatches to;
`none`: "Unsupported pixel type", nothing is rendered -/
def patternElem (t : Nat) : Option Nat := (K.patternElemTable.find? (fun e => e.1 = t)).map (·.2)

/-- `im_fill_pattern<T>`: writes `buf[strides.width * x + strides.height * y]` for
`x < width`, `y < height` -/
def imFillPatternExtent (s : Shape) : Nat :=
  match patternElem s.type with
  | none => 0
  | some sz =>
    if s.width = 0 ∨ s.height = 0 then 0
    else (s.sWidth * (s.width - 1) + s.sHeight * (s.height - 1) + 1) * sz

/-- `bin2` of bin2.avx2.c on a `w × h` byte image, in bytes.
loop 1 reads blocks `2*y*dy + x` and `2*y*dy + x + dy` for `y < h/2`, `x < CEIL_BLOCKS(w)`;
loop 2 touches blocks `x < FLOOR_BLOCKS(w*h/2)`; loop 3 reads blocks `2x`, `2x+1` for
`x < FLOOR_BLOCKS(w*h/4)`. -/
def bin2Avx2Extent (w h : Nat) : Nat :=
  let L := K.lanes
  let dy := w / L
  let ceilBlocks := (w + L - 1) / L
  let l1 := if h / 2 = 0 ∨ ceilBlocks = 0 then 0 else (2 * (h / 2 - 1) + 1) * dy + ceilBlocks
  let l2 := (w * h / 2) / L
  let l3 := 2 * ((w * h / 4) / L)
  L * max l1 (max l2 l3)

/-- `bin2` of bin2.plain.c on a `w × h` byte image.  (`row_end` is `im_ + w` resp.
`im_ + 2*w` for every row, so only the first row resp. the first row pair is averaged;
the final loop copies every second row.) -/
def bin2PlainExtent (w h : Nat) : Nat :=
  let horiz := if w * h = 0 then 0 else 2 * ((w + 1) / 2)
  let vert := if w = 0 ∨ h < 2 then 0 else 2 * w
  let copy := if w * h = 0 then 0 else (2 * ((h - 1) / 2) + 1) * w
  max horiz (max vert copy)

def bin2Extent : Variant → Nat → Nat → Nat
  | .avx2, w, h => bin2Avx2Extent w h
  | .plain, w, h => bin2PlainExtent w h

/-- alignment `bin2` needs from the buffer base: the AVX2 version uses unaligned
loads/stores (`_mm256_loadu_si256`), the plain one bytes. -/
def bin2Align : Variant → Nat
  | .avx2 => 1
  | .plain => 1

/-- the loop `int b = binning >> 1; while (b) { bin2(render, w, h); b >>= 1; w >>= 1; h >>= 1; }` -/
def binCascade (v : Variant) (b w h pass : Nat) : List Access :=
  if b = 0 then []
  else ⟨.bin2 pass, .render, bin2Extent v w h, bin2Align v⟩ :: binCascade v (b / 2) (w / 2) (h / 2) (pass + 1)
termination_by b
decreasing_by omega

/-- what one iteration of the streamer thread touches in `im.render_data` -/
def renderAccesses (v : Variant) (c : Cam) : List Access :=
  let full := fullShape c
  let gen : List Access :=
    if c.kind = K.kindRandom then [⟨.fillRand, .render, imFillRandExtent full, K.sizeofUInt32⟩]
    else if c.kind = K.kindSin then
      match patternElem full.type with
      | none => []
      | some sz => [⟨.fillPattern, .render, imFillPatternExtent full, sz⟩]
    else []
  let bin : List Access :=
    if c.props.binning > 1 then binCascade v (c.props.binning / 2) full.width full.height 0
    else []
  gen ++ bin

/-- one iteration of the loop of `simulated_camera_streamer_thread` (no-op when the thread
does not exist); `publish` = `im.frame_wanted` was set: the two buffers are swapped -/
def streamerIteration (v : Variant) (c : Cam) (publish : Bool) : Cam × List Access :=
  if !c.running then (c, [])
  else
    let acc := renderAccesses v c
    if publish then ({ c with frameBuf := c.renderBuf, renderBuf := c.frameBuf }, acc) else (c, acc)

/-- outcome of `simcam_get_frame` -/
structure FrameOut where
  ok : Bool
  /-- bytes stored through `im` -/
  written : Nat
  /-- `info_out->shape` (meaningful when `ok`) -/
  info : Shape
  accesses : List Access
deriving Repr

/-- `simcam_get_frame` called with `*nbytes = nbytes` (once a frame has been published) -/
def simcamGetFrame (c : Cam) (nbytes : Nat) : FrameOut :=
  if nbytes < bytesOfImage c.shape then { ok := false, written := 0, info := default, accesses := [] }
  else if !c.running then { ok := false, written := 0, info := default, accesses := [] }
  else
    let n := bytesOfImage c.shape
    { ok := true, written := n, info := c.shape,
      accesses := [⟨.copyOutSrc, .frame, n, 1⟩, ⟨.copyOutDst, .caller, n, 1⟩] }

/-! ## histories -/

inductive Op where
  | set (s : Props)
  | get
  | getShape
  | getMeta
  | start
  | stop
  /-- environment step: the streamer thread completes one iteration -/
  | stream (publish : Bool)
  | frame (nbytes : Nat)
deriving Repr

/-- C types of the fields the model computes with: `uint8_t binning`, `uint32_t` shape -/
def Props.inRange (s : Props) : Prop := s.binning < 256 ∧ s.shapeX < 2 ^ 32 ∧ s.shapeY < 2 ^ 32

instance (s : Props) : Decidable s.inRange := by unfold Props.inRange; exact inferInstance

/-- usage the property quantifies over: `start` only on a configured, stopped camera;
`set` while stopped, or while the streamer is parked waiting for a software trigger that the new settings keep
enabled (a `set` while the streamer renders races with it — schedules are C18's subject; switching the trigger
off fires it before the buffers are replaced); field values within their C types. -/
def Op.wf (c : Cam) : Op → Prop
  | .set s => (c.running = false ∨ (c.props.inFrameStart.enable ≠ 0 ∧ s.inFrameStart.enable ≠ 0)) ∧ s.inRange
  | .start => c.running = false ∧ c.renderBuf.isSome = true ∧ c.frameBuf.isSome = true
  | _ => True

instance (c : Cam) (op : Op) : Decidable (op.wf c) := by
  cases op <;> unfold Op.wf <;> exact inferInstance

/-- state after an operation, and what the operation touched -/
def step (v : Variant) (c : Cam) : Op → Cam × List Access
  | .set s => ((simcamSet c s).cam, [])
  | .get => (c, [])
  | .getShape => (c, [])
  | .getMeta => (c, [])
  | .start => (simcamStart c, [])
  | .stop => (simcamStop c, [])
  | .stream p => streamerIteration v c p
  | .frame n => (c, (simcamGetFrame c n).accesses)

/-- states reachable from a fresh camera of `kind` by well-formed histories -/
inductive Reachable (v : Variant) (kind : Nat) : Cam → Prop where
  | init : Reachable v kind (mk kind)
  | step {c : Cam} (op : Op) : Reachable v kind c → op.wf c → Reachable v kind (step v c op).1

/-- run a history, skipping ill-formed operations; returns the final state and every
access together with the state it happened in and (for `frame n`) the caller's size -/
def run (v : Variant) : Cam → List Op → Cam × List (Cam × Nat × Access)
  | c, [] => (c, [])
  | c, op :: ops =>
    if op.wf c then
      let (c', acc) := step v c op
      let n := match op with | .frame n => n | _ => 0
      let (cf, rest) := run v c' ops
      (cf, acc.map (fun a => (c, n, a)) ++ rest)
    else run v c ops

/-- the access stays inside the buffer it touches (whose base `realloc` aligned to
`mallocAlign`); `callerSize` = `*nbytes` of the enclosing `get_frame` -/
def Access.ok (c : Cam) (callerSize : Nat) (a : Access) : Prop :=
  match a.buf with
  | .render => ∃ n, c.renderBuf = some n ∧ a.extent ≤ n ∧ a.align ∣ K.mallocAlign
  | .frame => ∃ n, c.frameBuf = some n ∧ a.extent ≤ n ∧ a.align ∣ K.mallocAlign
  | .caller => a.extent ≤ callerSize

end AcqVerif.Simcam
