import AcqVerif.Simcam.Lemmas
/-!
# Invariant of the simulated camera's configuration state (helper for C17)

`Inv c`: the settings in effect, the reported shape and the sizes of the two image buffers
are consistent.  It holds for a fresh camera and is preserved by every well-formed
operation, in particular by every `set` whatever the previous buffers were.
-/
namespace AcqVerif.Simcam

/-- bytes of the full-resolution image the streamer renders -/
def fullBytes (c : Cam) : Nat :=
  (c.props.binning * c.shape.width) * (c.props.binning * c.shape.height) * bytesOfType c.shape.type

structure Inv (c : Cam) : Prop where
  bin : PowerOfTwoU8 c.props.binning
  wlo : 1 ≤ c.shape.width
  whi : c.shape.width ≤ K.maxImageWidth / c.props.binning
  hlo : 1 ≤ c.shape.height
  hhi : c.shape.height ≤ K.maxImageHeight / c.props.binning
  px : c.props.shapeX = c.shape.width
  py : c.props.shapeY = c.shape.height
  pt : c.props.pixelType = c.shape.type
  bpp : 1 ≤ bytesOfType c.shape.type
  ch : c.shape.channels = 1
  pl : c.shape.planes = 1
  s0 : c.shape.sChannels = 1
  s1 : c.shape.sWidth = 1
  s2 : c.shape.sHeight = c.shape.width
  s3 : c.shape.sPlanes = c.shape.width * c.shape.height
  bufs : (c.frameBuf = none ∧ c.renderBuf = none ∧ c.running = false) ∨
         (c.frameBuf = some (alignUp (fullBytes c)) ∧ c.renderBuf = some (alignUp (fullBytes c)))

theorem inv_mk (kind : Nat) : Inv (mk kind) := by
  refine ⟨?_, ?_, ?_, ?_, ?_, ?_, ?_, ?_, ?_, ?_, ?_, ?_, ?_, ?_, ?_, ?_⟩
  all_goals first
    | (left; exact ⟨rfl, rfl, rfl⟩)
    | (simp only [mk]; decide)
    | rfl

theorem bytesOfImage_of_inv {c : Cam} (h : Inv c) :
    bytesOfImage c.shape = c.shape.width * c.shape.height * bytesOfType c.shape.type := by
  unfold bytesOfImage; rw [h.s3]

theorem fullShape_eq (c : Cam) :
    fullShape c = planar (c.props.binning * c.props.shapeX) (c.props.binning * c.props.shapeY) c.shape.type := rfl

theorem alignedBytes_fullShape {c : Cam} (h : Inv c) :
    alignedBytesOfImage (fullShape c) = alignUp (fullBytes c) := by
  unfold alignedBytesOfImage
  rw [fullShape_eq, bytesOfImage_planar, h.px, h.py]
  rfl

/-! ## `simcam_set` -/

theorem normBinning_binning (s : Props) :
    (normBinning s).binning = if s.binning = 0 then 1 else s.binning := by
  unfold normBinning; split <;> simp_all

/-- the settings are accepted -/
def Accepted (s : Props) : Prop :=
  popcountU8 (normBinning s).binning = 1 ∧ bytesOfType s.pixelType ≠ 0

instance (s : Props) : Decidable (Accepted s) := by unfold Accepted; exact inferInstance

theorem normBinning_pixelType (s : Props) : (normBinning s).pixelType = s.pixelType := by
  unfold normBinning; split <;> rfl

/-- closed form of an accepted `simcam_set` -/
def setResult (c : Cam) (s : Props) : Cam :=
  let s' := normBinning s
  let w := clamp s'.shapeX K.metaShapeLow (K.maxImageWidth / s'.binning)
  let h := clamp s'.shapeY K.metaShapeLow (K.maxImageHeight / s'.binning)
  let shape : Shape := planar w h s'.pixelType
  let props : Props :=
    { s' with
      inAcqStart := {}
      inFrameStart := { enable := s'.inFrameStart.enable, line := 0, kind := K.signalInput, edge := K.triggerEdgeRising }
      inExposure := {}
      shapeX := w
      shapeY := h }
  let n := alignUp ((s'.binning * w) * (s'.binning * h) * bytesOfType s'.pixelType)
  { c with props := props, shape := shape, frameBuf := some n, renderBuf := some n }

theorem simcamSet_rejected {c : Cam} {s : Props} (h : ¬ Accepted s) :
    (simcamSet c s).ok = false ∧ (simcamSet c s).cam = c ∧ (simcamSet c s).settings = normBinning s := by
  unfold Accepted at h
  rw [← normBinning_pixelType s] at h
  unfold simcamSet simcamSetCore
  generalize normBinning s = s' at *
  by_cases h1 : popcountU8 s'.binning ≠ 1
  · rw [if_pos h1]; exact ⟨rfl, rfl, rfl⟩
  · rw [if_neg h1]
    have h2 : bytesOfType s'.pixelType = 0 := by
      simp only [ne_eq, Decidable.not_not] at h1
      by_contra hne
      exact h ⟨h1, hne⟩
    rw [if_pos h2]; exact ⟨rfl, rfl, rfl⟩

theorem simcamSet_accepted {c : Cam} {s : Props} (h : Accepted s) :
    (simcamSet c s).ok = true ∧ (simcamSet c s).cam = setResult c s ∧
    (simcamSet c s).settings = normBinning s := by
  obtain ⟨h1, h2⟩ := h
  rw [← normBinning_pixelType s] at h2
  unfold simcamSet simcamSetCore setResult
  generalize normBinning s = s' at *
  have e1 : ¬ popcountU8 s'.binning ≠ 1 := by simp [h1]
  rw [if_neg e1, if_neg h2]
  refine ⟨rfl, ?_, rfl⟩
  simp only [simcamGetMeta, alignedBytesOfImage, fullShape, planar, computeStrides, bytesOfImage, Nat.one_mul]

theorem inv_setResult (c : Cam) {s : Props} (hr : s.inRange) (h : Accepted s) : Inv (setResult c s) := by
  obtain ⟨h1, h2⟩ := h
  have hb : (normBinning s).binning < 256 := by
    rw [normBinning_binning]; have := hr.1; split <;> omega
  have hp2 : PowerOfTwoU8 (normBinning s).binning := (popcount_eq_one _ hb).mp h1
  obtain ⟨hw1, hh1, -, -, -⟩ := pow2_div_pos hp2
  have cw := clamp_bounds (v := (normBinning s).shapeX) (lo := K.metaShapeLow) (hi := K.maxImageWidth / (normBinning s).binning) hw1
  have chh := clamp_bounds (v := (normBinning s).shapeY) (lo := K.metaShapeLow) (hi := K.maxImageHeight / (normBinning s).binning) hh1
  have hlow : K.metaShapeLow = 1 := rfl
  rw [hlow] at cw chh
  have hbpp : 1 ≤ bytesOfType (normBinning s).pixelType := by
    rw [normBinning_pixelType]; omega
  refine ⟨hp2, cw.1, cw.2, chh.1, chh.2, rfl, rfl, rfl, hbpp, rfl, rfl, rfl, ?_, ?_, ?_, ?_⟩
  · simp [setResult, planar, computeStrides]
  · simp [setResult, planar, computeStrides]
  · simp [setResult, planar, computeStrides]
  · right; exact ⟨rfl, rfl⟩

theorem inv_simcamSet {c : Cam} (hc : Inv c) {s : Props} (hr : s.inRange) : Inv (simcamSet c s).cam := by
  by_cases h : Accepted s
  · rw [(simcamSet_accepted h).2.1]; exact inv_setResult c hr h
  · rw [(simcamSet_rejected h).2.1]; exact hc

/-! ## the other operations -/

theorem inv_step (v : Variant) {c : Cam} (hc : Inv c) (op : Op) (hwf : op.wf c) : Inv (step v c op).1 := by
  cases op with
  | set s => exact inv_simcamSet hc hwf.2
  | get => exact hc
  | getShape => exact hc
  | getMeta => exact hc
  | start =>
    obtain ⟨-, hr, hf⟩ := hwf
    have hb : c.frameBuf = some (alignUp (fullBytes c)) ∧ c.renderBuf = some (alignUp (fullBytes c)) := by
      rcases hc.bufs with ⟨h1, -, -⟩ | h
      · rw [h1] at hf; simp at hf
      · exact h
    exact { hc with bufs := Or.inr hb }
  | stop =>
    refine { hc with bufs := ?_ }
    rcases hc.bufs with ⟨h1, h2, -⟩ | h
    · left; exact ⟨h1, h2, rfl⟩
    · right; exact h
  | stream p =>
    show Inv (streamerIteration v c p).1
    unfold streamerIteration
    cases hrun : c.running
    · exact hc
    · simp only [Bool.not_true, Bool.false_eq_true, if_false]
      cases p
      · exact hc
      · simp only [if_true]
        rcases hc.bufs with ⟨-, -, h3⟩ | ⟨h1, h2⟩
        · rw [hrun] at h3; cases h3
        · exact { hc with bufs := Or.inr ⟨h2, h1⟩ }
  | frame n => exact hc

theorem inv_reachable {v : Variant} {kind : Nat} {c : Cam} (h : Reachable v kind c) : Inv c := by
  induction h with
  | init => exact inv_mk kind
  | step op _ hwf ih => exact inv_step v ih op hwf

/-! ## what a step touches -/

theorem fullBytes_eq {c : Cam} (h : Inv c) :
    bytesOfImage (fullShape c) = fullBytes c := by
  rw [fullShape_eq, bytesOfImage_planar, h.px, h.py]; rfl

theorem render_ok (v : Variant) {c : Cam} (hc : Inv c) (a : Access) (ha : a ∈ renderAccesses v c) :
    a.buf = .render ∧ a.extent ≤ alignUp (fullBytes c) ∧ a.align ∣ K.mallocAlign := by
  unfold renderAccesses at ha
  rcases List.mem_append.mp ha with hg | hb
  · -- the generator
    by_cases hk : c.kind = K.kindRandom
    · rw [if_pos hk] at hg
      simp only [List.mem_singleton] at hg
      subst hg
      refine ⟨rfl, ?_, (by decide : K.sizeofUInt32 ∣ K.mallocAlign)⟩
      show imFillRandExtent (fullShape c) ≤ _
      rw [imFillRandExtent_eq, alignedBytes_fullShape hc]
    · rw [if_neg hk] at hg
      by_cases hs : c.kind = K.kindSin
      · rw [if_pos hs] at hg
        cases hp : patternElem (fullShape c).type with
        | none => rw [hp] at hg; simp at hg
        | some sz =>
          rw [hp] at hg
          simp only [List.mem_singleton] at hg
          subst hg
          obtain ⟨-, hdiv, -⟩ := patternElem_spec hp
          refine ⟨rfl, ?_, hdiv⟩
          show imFillPatternExtent (fullShape c) ≤ _
          have := imFillPatternExtent_le (c.props.binning * c.props.shapeX) (c.props.binning * c.props.shapeY) c.shape.type
          rw [← fullShape_eq, fullBytes_eq hc] at this
          exact Nat.le_trans this (le_alignUp _)
      · rw [if_neg hs] at hg; simp at hg
  · -- the binning cascade
    by_cases hbin : c.props.binning > 1
    · rw [if_pos hbin] at hb
      obtain ⟨h1, h2, h3⟩ := binCascade_le v _ _ _ _ a hb
      refine ⟨h1, Nat.le_trans h2 (alignUp_mono ?_), h3⟩
      have hw : (fullShape c).width = c.props.binning * c.shape.width := by rw [fullShape_eq, ← hc.px]; rfl
      have hh : (fullShape c).height = c.props.binning * c.shape.height := by rw [fullShape_eq, ← hc.py]; rfl
      rw [hw, hh]
      exact Nat.le_mul_of_pos_right _ hc.bpp
    · rw [if_neg hbin] at hb; simp at hb

end AcqVerif.Simcam
