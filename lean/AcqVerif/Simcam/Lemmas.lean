import AcqVerif.Simcam.Shape
import Mathlib.Tactic.Ring
/-!
# Arithmetic of the simulated camera's buffers (helper lemmas for C17)

* accepted binning factors, clamping;
* `alignUp` (the 32-byte rounding of `aligned_bytes_of_image`);
* every renderer's extent is bounded by `alignUp (w*h)` resp. the aligned image size —
  for *all* `w`, `h` (no evenness or size assumption);
* the binning cascade.
-/
namespace AcqVerif.Simcam

/-! ## binning -/

/-- the values `popcount_u8(b) == 1` lets through -/
def PowerOfTwoU8 (b : Nat) : Prop :=
  b = 1 ∨ b = 2 ∨ b = 4 ∨ b = 8 ∨ b = 16 ∨ b = 32 ∨ b = 64 ∨ b = 128

instance (b : Nat) : Decidable (PowerOfTwoU8 b) := by unfold PowerOfTwoU8; exact inferInstance

set_option maxRecDepth 100000 in
theorem popcount_eq_one : ∀ b, b < 256 → (popcountU8 b = 1 ↔ PowerOfTwoU8 b) := by decide

theorem pow2_div_pos {b : Nat} (h : PowerOfTwoU8 b) :
    1 ≤ K.maxImageWidth / b ∧ 1 ≤ K.maxImageHeight / b ∧
    b * (K.maxImageWidth / b) = K.maxImageWidth ∧ b * (K.maxImageHeight / b) = K.maxImageHeight ∧ 1 ≤ b := by
  rcases h with h | h | h | h | h | h | h | h <;> subst h <;> decide

/-! ## clamp -/

theorem clamp_bounds {v lo hi : Nat} (h : lo ≤ hi) : lo ≤ clamp v lo hi ∧ clamp v lo hi ≤ hi := by
  unfold clamp; split
  · omega
  · split <;> omega

theorem clamp_id {v lo hi : Nat} (h1 : lo ≤ v) (h2 : v ≤ hi) : clamp v lo hi = v := by
  unfold clamp; split
  · omega
  · split <;> omega

/-! ## alignUp -/

theorem alignUp_eq (n : Nat) : alignUp n = (n + 31) / 32 * 32 := by
  simp [alignUp, K.bufAlign]

theorem le_alignUp (n : Nat) : n ≤ alignUp n := by rw [alignUp_eq]; omega

theorem alignUp_mono {a b : Nat} (h : a ≤ b) : alignUp a ≤ alignUp b := by
  rw [alignUp_eq, alignUp_eq]; omega

theorem alignUp_mod (n : Nat) : alignUp n % 32 = 0 := by rw [alignUp_eq]; omega

theorem alignUp_lt (n : Nat) : alignUp n < n + 32 := by rw [alignUp_eq]; omega

/-! ## bytes_of_type -/

theorem bytesOfType_cases (t : Nat) :
    bytesOfType t = 0 ∨ bytesOfType t = 1 ∨ bytesOfType t = 2 ∨ bytesOfType t = 4 := by
  unfold bytesOfType K.bytesOfTypeTable
  by_cases h : t < 16
  · have : ∀ t, t < 16 → ([1, 2, 1, 2, 4, 2, 2, 2, 0, 0, 0, 0, 0, 0, 0, 0].getD t 0 = 0 ∨
        [1, 2, 1, 2, 4, 2, 2, 2, 0, 0, 0, 0, 0, 0, 0, 0].getD t 0 = 1 ∨
        [1, 2, 1, 2, 4, 2, 2, 2, 0, 0, 0, 0, 0, 0, 0, 0].getD t 0 = 2 ∨
        [1, 2, 1, 2, 4, 2, 2, 2, 0, 0, 0, 0, 0, 0, 0, 0].getD t 0 = 4) := by decide
    exact this t h
  · left
    simp only [List.getD_eq_getElem?_getD]
    rw [List.getElem?_eq_none (by simp; omega)]
    rfl

/-- the element type `im_fill_pattern` dispatches to has the size `bytes_of_type` reports, and
its natural alignment divides what `realloc` guarantees -/
theorem patternElem_spec {t sz : Nat} (h : patternElem t = some sz) :
    sz = bytesOfType t ∧ sz ∣ K.mallocAlign ∧ 1 ≤ sz := by
  have table : ∀ e ∈ K.patternElemTable, e.2 = bytesOfType e.1 ∧ e.2 ∣ K.mallocAlign ∧ 1 ≤ e.2 := by decide
  unfold patternElem at h
  cases hf : K.patternElemTable.find? (fun e => e.1 = t) with
  | none => rw [hf] at h; simp at h
  | some e =>
    rw [hf] at h
    simp only [Option.map_some, Option.some.injEq] at h
    have hmem := List.mem_of_find?_eq_some hf
    have hp := List.find?_some hf
    simp only [decide_eq_true_eq] at hp
    obtain ⟨h1, h2, h3⟩ := table e hmem
    subst h; subst hp
    exact ⟨h1, h2, h3⟩

/-! ## im_fill_rand / im_fill_pattern -/

theorem imFillRandExtent_eq (s : Shape) : imFillRandExtent s = alignedBytesOfImage s := by
  unfold imFillRandExtent alignedBytesOfImage
  simp only [K.sizeofUInt32]
  have := alignUp_mod (bytesOfImage s)
  split <;> omega

theorem computeStrides_planes (s : Shape) :
    (computeStrides s).sPlanes = s.channels * s.width * s.height ∧
    (computeStrides s).sHeight = s.channels * s.width ∧
    (computeStrides s).sWidth = s.channels ∧ (computeStrides s).sChannels = 1 ∧
    (computeStrides s).width = s.width ∧ (computeStrides s).height = s.height ∧
    (computeStrides s).channels = s.channels ∧ (computeStrides s).planes = s.planes ∧
    (computeStrides s).type = s.type := by
  simp [computeStrides]

/-- a `W × H` one-channel shape as `compute_strides` leaves it -/
def planar (W H t : Nat) : Shape :=
  computeStrides { channels := 1, width := W, height := H, planes := 1, type := t }

theorem bytesOfImage_planar (W H t : Nat) : bytesOfImage (planar W H t) = W * H * bytesOfType t := by
  simp [planar, bytesOfImage, computeStrides]

theorem imFillPatternExtent_le (W H t : Nat) :
    imFillPatternExtent (planar W H t) ≤ bytesOfImage (planar W H t) := by
  rw [bytesOfImage_planar]
  have hdef : imFillPatternExtent (planar W H t) =
      match patternElem t with
      | none => 0
      | some sz => if W = 0 ∨ H = 0 then 0 else (1 * 1 * (W - 1) + 1 * 1 * W * (H - 1) + 1) * sz := rfl
  rw [hdef]
  cases hp : patternElem t with
  | none => simp
  | some sz =>
    obtain ⟨hsz, -, -⟩ := patternElem_spec hp
    simp only
    by_cases hc : W = 0 ∨ H = 0
    · rw [if_pos hc]; omega
    · rw [if_neg hc]
      simp only [not_or] at hc
      obtain ⟨hw, hh⟩ := hc
      subst hsz
      apply Nat.mul_le_mul_right
      obtain ⟨H', rfl⟩ : ∃ H', H = H' + 1 := ⟨H - 1, by omega⟩
      have : W * (H' + 1) = W * H' + W := by ring
      simp only [Nat.add_sub_cancel, Nat.one_mul, Nat.mul_one]
      omega

theorem mul_max3_le {k a b c X : Nat} (ha : k * a ≤ X) (hb : k * b ≤ X) (hc : k * c ≤ X) :
    k * max a (max b c) ≤ X := by
  rcases Nat.le_total a (max b c) with h | h
  · rw [Nat.max_eq_right h]
    rcases Nat.le_total b c with h' | h'
    · rw [Nat.max_eq_right h']; exact hc
    · rw [Nat.max_eq_left h']; exact hb
  · rw [Nat.max_eq_left h]; exact ha

/-! ## bin2 -/

theorem bin2Avx2Extent_le (w h : Nat) : bin2Avx2Extent w h ≤ alignUp (w * h) := by
  rw [alignUp_eq]
  have hdef : bin2Avx2Extent w h = 32 * max
      (if h / 2 = 0 ∨ (w + 32 - 1) / 32 = 0 then 0 else (2 * (h / 2 - 1) + 1) * (w / 32) + (w + 32 - 1) / 32)
      (max (w * h / 2 / 32) (2 * (w * h / 4 / 32))) := rfl
  rw [hdef]
  have h2 : 32 * (w * h / 2 / 32) ≤ (w * h + 31) / 32 * 32 := by omega
  have h3 : 32 * (2 * (w * h / 4 / 32)) ≤ (w * h + 31) / 32 * 32 := by omega
  have h1 : 32 * (if h / 2 = 0 ∨ (w + 32 - 1) / 32 = 0 then 0
      else (2 * (h / 2 - 1) + 1) * (w / 32) + (w + 32 - 1) / 32) ≤ (w * h + 31) / 32 * 32 := by
    by_cases hc : h / 2 = 0 ∨ (w + 32 - 1) / 32 = 0
    · rw [if_pos hc]; omega
    · rw [if_neg hc]
      simp only [not_or] at hc
      obtain ⟨hm, -⟩ := hc
      obtain ⟨m', hm'⟩ : ∃ m', h / 2 = m' + 1 := ⟨h / 2 - 1, by omega⟩
      rw [hm']
      simp only [Nat.add_sub_cancel]
      -- w = 32 d + r
      have hw : w = 32 * (w / 32) + w % 32 := by omega
      have hceil : (w + 32 - 1) / 32 = w / 32 + (if w % 32 = 0 then 0 else 1) := by split <;> omega
      rw [hceil]
      generalize hd : w / 32 = d at *
      generalize hr : w % 32 = r at *
      have hrlt : r < 32 := by omega
      have hge : w * (2 * (m' + 1)) ≤ w * h := Nat.mul_le_mul_left w (by omega)
      have hexp : w * (2 * (m' + 1)) = 64 * (d * m') + 64 * d + 2 * (r * m') + 2 * r := by
        rw [hw]; ring
      have hl : (2 * m' + 1) * d = 2 * (d * m') + d := by ring
      rw [hl]
      generalize d * m' = X at *
      generalize r * m' = Y at *
      generalize w * h = P at *
      split <;> omega
  exact mul_max3_le h1 h2 h3

theorem bin2PlainExtent_le (w h : Nat) : bin2PlainExtent w h ≤ alignUp (w * h) := by
  rw [alignUp_eq]
  unfold bin2PlainExtent
  have hz : w = 0 → w * h = 0 := fun e => by rw [e, Nat.zero_mul]
  have hz' : h = 0 → w * h = 0 := fun e => by rw [e, Nat.mul_zero]
  have h1 : h = 1 → w * h = w := fun e => by rw [e, Nat.mul_one]
  have h2 : 2 ≤ h → 2 * w ≤ w * h := fun e => by
    have := Nat.mul_le_mul_left w e; omega
  have hcopy : 1 ≤ h → (2 * ((h - 1) / 2) + 1) * w ≤ w * h := fun e => by
    have : (2 * ((h - 1) / 2) + 1) * w ≤ h * w := Nat.mul_le_mul_right w (by omega)
    rw [Nat.mul_comm h w] at this; exact this
  have A : (if w * h = 0 then 0 else 2 * ((w + 1) / 2)) ≤ (w * h + 31) / 32 * 32 := by
    split
    · omega
    · rename_i hne
      have hw : 1 ≤ w := by rcases Nat.eq_zero_or_pos w with e | e; exact absurd (hz e) hne; exact e
      have hh : 1 ≤ h := by rcases Nat.eq_zero_or_pos h with e | e; exact absurd (hz' e) hne; exact e
      rcases Nat.lt_or_ge h 2 with hlt | hge
      · have := h1 (by omega); rw [this]; omega
      · have := h2 hge
        generalize w * h = P at *
        omega
  have B : (if w = 0 ∨ h < 2 then 0 else 2 * w) ≤ (w * h + 31) / 32 * 32 := by
    split
    · omega
    · rename_i hc
      simp only [not_or, Nat.not_lt] at hc
      have := h2 hc.2
      generalize w * h = P at *
      omega
  have Cc : (if w * h = 0 then 0 else (2 * ((h - 1) / 2) + 1) * w) ≤ (w * h + 31) / 32 * 32 := by
    split
    · omega
    · rename_i hne
      have hh : 1 ≤ h := by rcases Nat.eq_zero_or_pos h with e | e; exact absurd (hz' e) hne; exact e
      have := hcopy hh
      generalize (2 * ((h - 1) / 2) + 1) * w = Q at *
      generalize w * h = P at *
      omega
  exact Nat.max_le.mpr ⟨A, Nat.max_le.mpr ⟨B, Cc⟩⟩

theorem bin2Extent_le (v : Variant) (w h : Nat) : bin2Extent v w h ≤ alignUp (w * h) := by
  cases v
  · exact bin2Avx2Extent_le w h
  · exact bin2PlainExtent_le w h

theorem bin2Align_dvd (v : Variant) : bin2Align v ∣ K.mallocAlign := by
  cases v <;> simp [bin2Align]

theorem binCascade_zero (v : Variant) (w h pass : Nat) : binCascade v 0 w h pass = [] := by
  rw [binCascade]; simp

theorem binCascade_pos (v : Variant) {b : Nat} (hb : b ≠ 0) (w h pass : Nat) :
    binCascade v b w h pass =
      ⟨.bin2 pass, .render, bin2Extent v w h, bin2Align v⟩ :: binCascade v (b / 2) (w / 2) (h / 2) (pass + 1) := by
  rw [binCascade]; simp [hb]

/-- every pass of the cascade stays within the aligned size of the image it started from -/
theorem binCascade_le (v : Variant) : ∀ (b w h pass : Nat) (a : Access), a ∈ binCascade v b w h pass →
    a.buf = .render ∧ a.extent ≤ alignUp (w * h) ∧ a.align ∣ K.mallocAlign := by
  intro b
  induction b using Nat.strong_induction_on with
  | _ b ih =>
    intro w h pass a ha
    rw [binCascade] at ha
    split at ha
    · simp at ha
    · rename_i hb
      rcases List.mem_cons.mp ha with rfl | hrest
      · exact ⟨rfl, bin2Extent_le v w h, bin2Align_dvd v⟩
      · obtain ⟨h1, h2, h3⟩ := ih (b / 2) (by omega) (w / 2) (h / 2) (pass + 1) a hrest
        refine ⟨h1, Nat.le_trans h2 (alignUp_mono ?_), h3⟩
        exact Nat.mul_le_mul (Nat.div_le_self w 2) (Nat.div_le_self h 2)

end AcqVerif.Simcam
