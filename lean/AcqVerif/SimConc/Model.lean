/-!
# Interleaving model of the simulated camera (`simulated.camera.c`) and its callers

Anchors: `acquire-driver-common/src/simcams/simulated.camera.c`
(`simulated_camera_streamer_thread`, `simcam_set`, `simcam_start`,
`simcam_execute_trigger`, `simcam_stop`, `simcam_get_frame`) and the HAL wrappers
of `acquire-device-hal/device/hal/camera.c` (`camera_set`, `camera_start`,
`camera_stop`, `camera_execute_trigger`, `camera_get_frame`).

Granularity: one **step** = one thread runs from the synchronisation call it is
parked at to its next synchronisation call (the yield points of
`harness/detsched`): `lock_acquire` (before acquiring), `condition_variable_wait`
entry (lock still held) → asleep → re-acquire after a notify,
`condition_variable_notify_all` (before waking), `thread_create`, `thread_join`,
`clock_sleep_ms`, and the boundary between two calls of a caller.

Threads: two callers `a` (the main thread of the harness) and `b`, and the
camera's streamer `s` (one at a time; every `start` creates a new one).  Each
caller executes a script of operations.  The model is of the **repaired** code
(`simcam_start` clears `triggered` and `frame_wanted`; `fixes/18-*.patch`).

Frame ids are `int64_t` starting at `-1` in C; here they are `Nat` shifted by
one (`0` is `-1`).  No import outside core: linked into the native driver.
-/
namespace AcqVerif.SimConc

/-- operations of a caller script (HAL entry points) -/
inductive Op where
  | on | off      -- `camera_set` with the software frame trigger enabled / disabled
  | start | stop
  | trig          -- `camera_execute_trigger`
  | get           -- `camera_get_frame`
deriving DecidableEq, Repr, Inhabited

/-- `enum DeviceState` as far as the camera HAL uses it -/
inductive Hal where
  | W   -- AwaitingConfiguration
  | A   -- Armed
  | R   -- Running
deriving DecidableEq, Repr, Inhabited

inductive Who where
  | a | b
deriving DecidableEq, Repr, Inhabited

inductive Tid where
  | a | b | s
deriving DecidableEq, Repr, Inhabited

def Who.tid : Who → Tid
  | .a => .a
  | .b => .b

def Who.other : Who → Who
  | .a => .b
  | .b => .a

/-- who called `simcam_execute_trigger` (decides where the caller continues) -/
inductive TCtx where
  | user                 -- `camera_execute_trigger`
  | stop (g : Bool)      -- `simcam_stop`; `g`: reached through the error path of `camera_get_frame`
  | setoff               -- `simcam_set` switching the trigger off
deriving DecidableEq, Repr, Inhabited

/-- parking points of a caller thread -/
inductive CPc where
  | unborn                  -- `b` before `a` created it
  | bstart                  -- `b` created, not yet run
  | createB                 -- `a` parked at `thread_create(b)`
  | idle                    -- parked between two calls (next call = head of the script)
  | startCreate             -- `simcam_start`: parked at `thread_create`
  | trigLock (k : TCtx)     -- `simcam_execute_trigger`: parked at `lock_acquire`
  | trigNotify (k : TCtx)   -- … holding the lock, parked at `notify_all(trigger_ready)`
  | stopNotifyF (g : Bool)  -- `simcam_stop`: parked at `notify_all(frame_ready)`
  | stopJoin (g : Bool)     -- `simcam_stop`: parked at `thread_join`
  | setLock (en : Bool)     -- `simcam_set`: parked at `lock_acquire`
  | getLock                 -- `simcam_get_frame`: parked at `lock_acquire`
  | getWait                 -- … holding the lock, at the entry of `condition_variable_wait(frame_ready)`
  | getAsleep (n : Bool)    -- … asleep on `frame_ready`; `n`: notified, must re-acquire
  | joinB                   -- `a` parked at `thread_join(b)`
  | exit                    -- `a` returned from its body
  | fin
deriving DecidableEq, Repr, Inhabited

/-- parking points of the streamer thread -/
inductive SPc where
  | none               -- no streamer was created yet
  | start              -- created, not yet run
  | lock1              -- top of the loop: `lock_acquire` (line 240)
  | waitT              -- holding the lock, entry of `condition_variable_wait(trigger_ready)`
  | asleepT (n : Bool) -- asleep on `trigger_ready`; `n`: notified
  | sleep              -- `clock_sleep_ms` (frame rendered, local id incremented)
  | lock2              -- `lock_acquire` before publishing (line 298)
  | notifyF            -- holding the lock, parked at `notify_all(frame_ready)`
  | fin
deriving DecidableEq, Repr, Inhabited

inductive Res where
  | ok | err | illformed | noframe
  | frame (id : Nat)    -- `hardware_frame_id` (C value, not shifted)
deriving DecidableEq, Repr, Inhabited

/-- ghost events, newest first in `State.log` -/
inductive Ev where
  | res (w : Who) (op : Op) (r : Res)   -- a call returned (printed by the driver)
  | started                             -- `simcam_start` reset the counters: a new run begins
  | utrig                               -- `camera_execute_trigger` stored `triggered = 1`
  | generated (g : Nat)                 -- the streamer finished rendering its `g`-th frame of the run
  | published (id g : Nat)              -- the streamer stored `im.frame_id = id` (shifted) with `g` frames generated
  | delivered (id g : Nat)              -- `simcam_get_frame` handed out `id` (shifted) with `g` frames generated
deriving DecidableEq, Repr, Inhabited

structure State where
  -- fields of `struct SimulatedCamera` / `struct Camera`
  running : Bool := false      -- streamer.is_running
  enable : Bool := false       -- properties.input_triggers.frame_start.enable
  triggered : Bool := false    -- software_trigger.triggered
  wanted : Bool := false       -- im.frame_wanted
  fid : Nat := 0               -- im.frame_id + 1
  last : Nat := 0              -- im.last_emitted_frame_id + 1
  hal : Hal := .A              -- camera.state (the harness configures the camera once before the script)
  owner : Option Tid := none   -- holder of im.lock
  live : Bool := false         -- streamer.thread.is_live_
  -- threads
  pa : CPc := .idle
  pb : CPc := .unborn
  sa : List Op := []           -- rest of the script of `a`
  sb : List Op := []
  ps : SPc := .none
  sfid : Nat := 0              -- the streamer's local `frame_id` + 1
  hasB : Bool := false         -- the harness created a second caller
  -- ghost
  log : List Ev := []
  gated : Bool := false        -- the trigger was enabled at the last start and no `off` began since
  issued : Nat := 0            -- user triggers that stored `triggered = 1` in this run
  gen : Nat := 0               -- frames generated in this run
  ndeliv : Nat := 0            -- frames delivered in this run
  nruns : Nat := 0             -- starts so far
deriving Repr, Inhabited

def State.pc (s : State) : Who → CPc
  | .a => s.pa
  | .b => s.pb

def State.script (s : State) : Who → List Op
  | .a => s.sa
  | .b => s.sb

def State.setPc (s : State) (w : Who) (p : CPc) : State :=
  match w with
  | .a => { s with pa := p }
  | .b => { s with pb := p }

def State.setScript (s : State) (w : Who) (l : List Op) : State :=
  match w with
  | .a => { s with sa := l }
  | .b => { s with sb := l }

/-- initial state for the scripts `A`, `B` (`B = none`: no second caller) -/
def init (A : List Op) (B : Option (List Op)) : State :=
  match B with
  | none => { sa := A, pa := (match A with | [] => .exit | _ => .idle), pb := .fin, fid := 1, last := 1 }
  | some sb => { sa := A, sb := sb, pa := .createB, pb := .unborn, hasB := true, fid := 1, last := 1 }

/-- where a caller parks when its script is exhausted: `a` joins `b` (if any) and leaves, `b` ends -/
def afterScript (hasB : Bool) : Who → CPc
  | .a => if hasB then .joinB else .exit
  | .b => .fin

/-- where a caller parks between calls -/
def State.nextPc (s : State) (w : Who) : CPc :=
  match s.script w with
  | [] => afterScript s.hasB w
  | _ => .idle

/-- the call returned: log the result, park before the next call (or after the script) -/
def State.ret (s : State) (w : Who) (op : Op) (r : Res) : State :=
  ({ s with log := .res w op r :: s.log }).setPc w (s.nextPc w)

/-- a caller between two calls is "quiescent" -/
def CPc.quiet : CPc → Bool
  | .idle | .fin | .unborn | .bstart | .joinB | .exit | .createB => true
  | _ => false

/-- `notify_all(trigger_ready)` -/
def wakeT (s : State) : State :=
  match s.ps with
  | .asleepT _ => { s with ps := .asleepT true }
  | _ => s

def wakeC : CPc → CPc
  | .getAsleep _ => .getAsleep true
  | p => p

/-- `notify_all(frame_ready)` -/
def wakeF (s : State) : State := { s with pa := wakeC s.pa, pb := wakeC s.pb }

/-- the loop of `simcam_get_frame` (lines 519–533), entered holding the lock -/
def getLoop (s : State) (w : Who) : State :=
  if s.running ∧ s.last ≥ s.fid then s.setPc w .getWait
  else if !s.running then
    -- line 523 runs before the test of `is_running`: `last` moves although nothing is handed out
    ({ s with last := s.fid, owner := none }).ret w .get .noframe
  else
    ({ s with last := s.fid, owner := none, log := .delivered s.fid s.gen :: s.log,
              ndeliv := s.ndeliv + 1 }).ret w .get (.frame (s.fid - 1))

/-- `simcam_stop` up to its first yield point (entered with HAL state Running) -/
def stopBegin (s : State) (w : Who) (g : Bool) : State :=
  ({ s with running := false }).setPc w (.trigLock (.stop g))

/-- first interval of a call: from the boundary between calls to the first yield point of the call.
`s0` is `s` with the call removed from the script (all tests read fields the script does not touch). -/
def beginOp (s : State) (w : Who) (op : Op) (rest : List Op) : State :=
  let s0 := s.setScript w rest
  match op with
  | .on => s0.setPc w (.setLock true)
  | .off =>
    if s.enable then ({ s0 with gated := false }).setPc w (.trigLock .setoff)
    else ({ s0 with gated := false }).setPc w (.setLock false)
  | .start =>
    -- ill-formed use: the camera is running, or the other caller is inside a call
    if s.hal = .R then s0.ret w .start .illformed
    else match (s.pc w.other).quiet with
      | true =>
        ({ s0 with running := true, last := 0, fid := 0, triggered := false, wanted := false,
                   log := .started :: s.log, gated := s.enable, issued := 0, gen := 0, ndeliv := 0,
                   nruns := s.nruns + 1 }).setPc w .startCreate
      | false => s0.ret w .start .illformed
  | .stop => if s.hal = .R then stopBegin s0 w false else s0.ret w .stop .ok
  | .trig => if s.hal = .R then s0.setPc w (.trigLock .user) else s0.ret w .trig .ok
  | .get =>
    if s.hal ≠ .R then s0.ret w .get .err
    else if !s.running then stopBegin s0 w true
    else s0.setPc w .getLock

/-- one step of caller `w` -/
def cstep (s : State) (w : Who) : Option State :=
  match s.pc w with
  | .unborn | .fin => none
  | .bstart => some (s.setPc w (s.nextPc w))       -- first step of `b`
  | .createB => some ({ s with pb := .bstart }.setPc w (s.nextPc w))
  | .joinB => if s.pb = .fin then some { s with pa := .exit } else none
  | .exit => if s.pb = .fin ∧ (s.ps = .none ∨ s.ps = .fin) then some { s with pa := .fin } else none
  | .idle =>
    match s.script w with
    | [] => none            -- not reachable: a caller with an empty script is not parked at `idle`
    | op :: rest =>
      some (beginOp s w op rest)
  | .startCreate =>
    some (({ s with ps := .start, live := true, hal := .R }).ret w .start .ok)
  | .trigLock k =>
    if s.owner ≠ none then none
    else match k with
      | .user =>
        some (({ s with owner := some w.tid, wanted := true, triggered := true, issued := s.issued + 1,
                        log := .utrig :: s.log }).setPc w (.trigNotify .user))
      | .stop g => some (({ s with owner := some w.tid, wanted := true, triggered := true }).setPc w (.trigNotify (.stop g)))
      | .setoff => some (({ s with owner := some w.tid, wanted := true, triggered := true }).setPc w (.trigNotify .setoff))
  | .trigNotify k =>
    match k with
    | .user => some (({ wakeT s with owner := none }).ret w .trig .ok)
    | .stop g => some (({ wakeT s with owner := none }).setPc w (.stopNotifyF g))
    | .setoff => some (({ wakeT s with owner := none }).setPc w (.setLock false))
  | .stopNotifyF g => some ((wakeF s).setPc w (.stopJoin g))
  | .stopJoin g =>
    if s.live ∧ s.ps ≠ .fin then none
    else
      let s1 := { s with live := false, hal := if g then Hal.W else Hal.A }
      some (if g then s1.ret w .get .err else s1.ret w .stop .ok)
  | .setLock en =>
    if s.owner ≠ none then none
    else some (({ s with enable := en, hal := if s.hal = Hal.R then Hal.R else Hal.A }).ret w (if en then .on else .off) .ok)
  | .getLock =>
    if s.owner ≠ none then none
    else some (getLoop { s with owner := some w.tid, wanted := true } w)
  | .getWait => some (({ s with owner := none }).setPc w (.getAsleep false))
  | .getAsleep n =>
    if n ∧ s.owner = none then some (getLoop { s with owner := some w.tid } w) else none

/-- the top of the streamer loop (`while (self->streamer.is_running)`) -/
def loopTop (s : State) : State := if s.running then { s with ps := .lock1 } else { s with ps := .fin }

/-- lines 241–295, entered holding the lock -/
def afterLock1 (s : State) : State :=
  if s.enable ∧ !s.triggered then { s with ps := .waitT }
  else if s.running then
    { s with triggered := false, owner := none, sfid := s.sfid + 1, gen := s.gen + 1,
             log := .generated (s.gen + 1) :: s.log, ps := .sleep }
  -- not running: no sleep, straight on to line 297
  else if s.wanted then
    { s with triggered := false, owner := none, sfid := s.sfid + 1, gen := s.gen + 1,
             log := .generated (s.gen + 1) :: s.log, ps := .lock2 }
  else
    { s with triggered := false, owner := none, sfid := s.sfid + 1, gen := s.gen + 1,
             log := .generated (s.gen + 1) :: s.log, ps := .fin }

/-- one step of the streamer -/
def sstep (s : State) : Option State :=
  match s.ps with
  | .none | .fin => none
  | .start => some (loopTop { s with sfid := s.fid })
  | .lock1 => if s.owner ≠ none then none else some (afterLock1 { s with owner := some .s })
  | .waitT => some { s with owner := none, ps := .asleepT false }
  | .asleepT n => if n ∧ s.owner = none then some (afterLock1 { s with owner := some .s }) else none
  | .sleep => some (if s.wanted then { s with ps := .lock2 } else loopTop s)
  | .lock2 =>
    if s.owner ≠ none then none
    else some { s with owner := some .s, fid := s.sfid, wanted := false, ps := .notifyF,
                       log := .published s.sfid s.gen :: s.log }
  | .notifyF => some (loopTop { wakeF s with owner := none })

/-- one step of thread `t`; `none` = the thread is not enabled -/
def step (s : State) : Tid → Option State
  | .a => cstep s .a
  | .b => cstep s .b
  | .s => sstep s

def enabled (s : State) (t : Tid) : Bool := (step s t).isSome

/-- states reachable from `s0` under any schedule -/
inductive Reach (s0 : State) : State → Prop where
  | refl : Reach s0 s0
  | step {s s' : State} (t : Tid) : Reach s0 s → step s t = some s' → Reach s0 s'

end AcqVerif.SimConc
