import AcqVerif.SimConc.Model
/-!
# Predicates on the ghost event log of the simulated-camera model

`State.log` is newest-first.  A *run* is the part of the log after (= in front of) the latest
`started` event.  Ids in `published` / `delivered` events are shifted by one (`id = C value + 1`).
-/
namespace AcqVerif.SimConc

/-- shifted id of the latest frame delivered in the current run, `0` if none -/
def lastOf : List Ev → Nat
  | [] => 0
  | .started :: _ => 0
  | .delivered id _ :: _ => id
  | .res _ _ _ :: t => lastOf t
  | .utrig :: t => lastOf t
  | .generated _ :: t => lastOf t
  | .published _ _ :: t => lastOf t

/-- `okFrom b l`: scanning the log from the newest event to the oldest, every delivered id is
smaller than the next newer id delivered in the same run (`b` = that newer id, if any); a `started`
event forgets the bound. -/
def okFrom : Option Nat → List Ev → Prop
  | _, [] => True
  | _, .started :: t => okFrom none t
  | b, .delivered id _ :: t => (∀ x, b = some x → id < x) ∧ okFrom (some id) t
  | b, .res _ _ _ :: t => okFrom b t
  | b, .utrig :: t => okFrom b t
  | b, .generated _ :: t => okFrom b t
  | b, .published _ _ :: t => okFrom b t

/-- Within every run the ids handed out by successive frame calls increase strictly (in particular
no frame is handed out twice); a `started` event begins a new run, whose ids are unrelated to the
previous run's. -/
def IdsIncrease (l : List Ev) : Prop := okFrom none l

/-- frames delivered in the current run -/
def cntD : List Ev → Nat
  | [] => 0
  | .started :: _ => 0
  | .delivered _ _ :: t => cntD t + 1
  | .res _ _ _ :: t => cntD t
  | .utrig :: t => cntD t
  | .generated _ :: t => cntD t
  | .published _ _ :: t => cntD t

/-- user triggers that reached the camera in the current run -/
def cntT : List Ev → Nat
  | [] => 0
  | .started :: _ => 0
  | .utrig :: t => cntT t + 1
  | .res _ _ _ :: t => cntT t
  | .delivered _ _ :: t => cntT t
  | .generated _ :: t => cntT t
  | .published _ _ :: t => cntT t

/-- frames generated in the current run -/
def cntG : List Ev → Nat
  | [] => 0
  | .started :: _ => 0
  | .generated _ :: t => cntG t + 1
  | .res _ _ _ :: t => cntG t
  | .delivered _ _ :: t => cntG t
  | .utrig :: t => cntG t
  | .published _ _ :: t => cntG t

/-- Every published id is exactly the number of frames generated so far in the run (in C:
`id = generated - 1`; the number is both the streamer's count `g` recorded with the event and the
number of `generated` events of the run that precede it in the log), and every delivered id is a
published one: at least `0` in C and at most the number of frames generated so far minus one. -/
def Counts : List Ev → Prop
  | [] => True
  | .published id g :: t => id = g ∧ g = cntG t ∧ Counts t
  | .delivered id g :: t => 1 ≤ id ∧ id ≤ g ∧ g = cntG t ∧ Counts t
  | .started :: t => Counts t
  | .res _ _ _ :: t => Counts t
  | .utrig :: t => Counts t
  | .generated _ :: t => Counts t

/-- a bound above the latest delivered id of the run is a valid bound for the whole log -/
theorem okFrom_of_lastOf_lt {l : List Ev} {x : Nat} (h : okFrom none l) (hx : lastOf l < x) :
    okFrom (some x) l := by
  induction l with
  | nil => trivial
  | cons e t ih =>
    cases e with
    | started => simpa [okFrom] using h
    | delivered id g =>
      simp only [okFrom, lastOf] at h hx ⊢
      exact ⟨fun y hy => by cases hy; exact hx, h.2⟩
    | res w op r => simp only [okFrom, lastOf] at h hx ⊢; exact ih h hx
    | utrig => simp only [okFrom, lastOf] at h hx ⊢; exact ih h hx
    | generated g => simp only [okFrom, lastOf] at h hx ⊢; exact ih h hx
    | published id g => simp only [okFrom, lastOf] at h hx ⊢; exact ih h hx

end AcqVerif.SimConc
