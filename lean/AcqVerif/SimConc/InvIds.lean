import AcqVerif.SimConc.Inv
/-!
# Invariants, part 2: frame ids

`fid`/`last`/`sfid` are the shifted `im.frame_id`, `im.last_emitted_frame_id` and the streamer's
local `frame_id`; `gen` counts the frames generated in the run, the log records what was handed out.
-/
namespace AcqVerif.SimConc

structure InvI (s : State) : Prop where
  lastFid : s.last ≤ s.fid
  loopFid : s.ps.inLoop → s.fid ≤ s.sfid ∧ s.sfid = s.gen
  atStart : s.ps = .start → s.fid = 0 ∧ s.gen = 0
  fidGen : 0 < s.nruns → s.fid ≤ s.gen
  logLast : lastOf s.log ≤ s.last
  incr : IdsIncrease s.log
  counts : Counts s.log
  genLog : s.gen = cntG s.log

theorem invI_iff (s : State) : InvI s ↔
    (s.last ≤ s.fid ∧ (s.ps.inLoop → s.fid ≤ s.sfid ∧ s.sfid = s.gen) ∧ (s.ps = .start → s.fid = 0 ∧ s.gen = 0) ∧
     (0 < s.nruns → s.fid ≤ s.gen) ∧ lastOf s.log ≤ s.last ∧ okFrom none s.log ∧ Counts s.log ∧ s.gen = cntG s.log) :=
  ⟨fun ⟨a, b, c, d, e, f, g, h⟩ => ⟨a, b, c, d, e, f, g, h⟩, fun ⟨a, b, c, d, e, f, g, h⟩ => ⟨a, b, c, d, e, f, g, h⟩⟩

theorem invI_init (A : List Op) (B : Option (List Op)) : InvI (init A B) := by
  cases B <;> cases A <;> constructor <;> simp [init, lastOf, IdsIncrease, okFrom, Counts, cntG]

set_option maxHeartbeats 4000000 in
theorem invI_step {s s' : State} (t : Tid) (h1 : InvR s) (h : InvI s) (hs : step s t = some s') : InvI s' := by
  obtain ⟨i1, i2, i3, i4, i5, i6, i7, i8⟩ := h
  obtain ⟨r1, r2, r3, r4, r5⟩ := h1
  unfold IdsIncrease at i6
  rw [invI_iff]
  cases t <;> step_cases hs
  all_goals (simp only [lastOf, okFrom, Counts, cntG])
  all_goals (first
    | grind
    | (refine ⟨?_, ?_, ?_, ?_, ?_, ⟨?_, okFrom_of_lastOf_lt i6 ?_⟩, ?_, ?_⟩ <;> grind)
    | (trace_state; fail "close"))

end AcqVerif.SimConc
