import AcqVerif.SimConc.Model
/-! Classifiers of parking points used by the invariants (`Inv.lean`), each with one `simp` lemma per
constructor so that `simp` evaluates them on concrete parking points and leaves them folded otherwise.
Generated once by a script (kept in this form; not regenerated at check time). -/
namespace AcqVerif.SimConc

def CPc.holds : CPc → Bool
  | .unborn => false
  | .bstart => false
  | .createB => false
  | .idle => false
  | .startCreate => false
  | .trigLock .user => false
  | .trigLock (.stop _) => false
  | .trigLock .setoff => false
  | .trigNotify .user => true
  | .trigNotify (.stop _) => true
  | .trigNotify .setoff => true
  | .stopNotifyF _ => false
  | .stopJoin _ => false
  | .setLock true => false
  | .setLock false => false
  | .getLock => false
  | .getWait => true
  | .getAsleep true => false
  | .getAsleep false => false
  | .joinB => false
  | .exit => false
  | .fin => false

@[simp, grind =] theorem CPc.holds_unborn : (CPc.unborn).holds = false := rfl
@[simp, grind =] theorem CPc.holds_bstart : (CPc.bstart).holds = false := rfl
@[simp, grind =] theorem CPc.holds_createB : (CPc.createB).holds = false := rfl
@[simp, grind =] theorem CPc.holds_idle : (CPc.idle).holds = false := rfl
@[simp, grind =] theorem CPc.holds_startCreate : (CPc.startCreate).holds = false := rfl
@[simp, grind =] theorem CPc.holds_trigLock_user : (CPc.trigLock .user).holds = false := rfl
@[simp, grind =] theorem CPc.holds_trigLock_stop_g (g : Bool) : (CPc.trigLock (.stop g)).holds = false := rfl
@[simp, grind =] theorem CPc.holds_trigLock_setoff : (CPc.trigLock .setoff).holds = false := rfl
@[simp, grind =] theorem CPc.holds_trigNotify_user : (CPc.trigNotify .user).holds = true := rfl
@[simp, grind =] theorem CPc.holds_trigNotify_stop_g (g : Bool) : (CPc.trigNotify (.stop g)).holds = true := rfl
@[simp, grind =] theorem CPc.holds_trigNotify_setoff : (CPc.trigNotify .setoff).holds = true := rfl
@[simp, grind =] theorem CPc.holds_stopNotifyF_g (g : Bool) : (CPc.stopNotifyF g).holds = false := rfl
@[simp, grind =] theorem CPc.holds_stopJoin_g (g : Bool) : (CPc.stopJoin g).holds = false := rfl
@[simp, grind =] theorem CPc.holds_setLock_true : (CPc.setLock true).holds = false := rfl
@[simp, grind =] theorem CPc.holds_setLock_false : (CPc.setLock false).holds = false := rfl
@[simp, grind =] theorem CPc.holds_getLock : (CPc.getLock).holds = false := rfl
@[simp, grind =] theorem CPc.holds_getWait : (CPc.getWait).holds = true := rfl
@[simp, grind =] theorem CPc.holds_getAsleep_true : (CPc.getAsleep true).holds = false := rfl
@[simp, grind =] theorem CPc.holds_getAsleep_false : (CPc.getAsleep false).holds = false := rfl
@[simp, grind =] theorem CPc.holds_joinB : (CPc.joinB).holds = false := rfl
@[simp, grind =] theorem CPc.holds_exit : (CPc.exit).holds = false := rfl
@[simp, grind =] theorem CPc.holds_fin : (CPc.fin).holds = false := rfl

def CPc.stopPre : CPc → Bool
  | .unborn => false
  | .bstart => false
  | .createB => false
  | .idle => false
  | .startCreate => false
  | .trigLock .user => false
  | .trigLock (.stop _) => true
  | .trigLock .setoff => false
  | .trigNotify .user => false
  | .trigNotify (.stop _) => true
  | .trigNotify .setoff => false
  | .stopNotifyF _ => true
  | .stopJoin _ => false
  | .setLock true => false
  | .setLock false => false
  | .getLock => false
  | .getWait => false
  | .getAsleep true => false
  | .getAsleep false => false
  | .joinB => false
  | .exit => false
  | .fin => false

@[simp, grind =] theorem CPc.stopPre_unborn : (CPc.unborn).stopPre = false := rfl
@[simp, grind =] theorem CPc.stopPre_bstart : (CPc.bstart).stopPre = false := rfl
@[simp, grind =] theorem CPc.stopPre_createB : (CPc.createB).stopPre = false := rfl
@[simp, grind =] theorem CPc.stopPre_idle : (CPc.idle).stopPre = false := rfl
@[simp, grind =] theorem CPc.stopPre_startCreate : (CPc.startCreate).stopPre = false := rfl
@[simp, grind =] theorem CPc.stopPre_trigLock_user : (CPc.trigLock .user).stopPre = false := rfl
@[simp, grind =] theorem CPc.stopPre_trigLock_stop_g (g : Bool) : (CPc.trigLock (.stop g)).stopPre = true := rfl
@[simp, grind =] theorem CPc.stopPre_trigLock_setoff : (CPc.trigLock .setoff).stopPre = false := rfl
@[simp, grind =] theorem CPc.stopPre_trigNotify_user : (CPc.trigNotify .user).stopPre = false := rfl
@[simp, grind =] theorem CPc.stopPre_trigNotify_stop_g (g : Bool) : (CPc.trigNotify (.stop g)).stopPre = true := rfl
@[simp, grind =] theorem CPc.stopPre_trigNotify_setoff : (CPc.trigNotify .setoff).stopPre = false := rfl
@[simp, grind =] theorem CPc.stopPre_stopNotifyF_g (g : Bool) : (CPc.stopNotifyF g).stopPre = true := rfl
@[simp, grind =] theorem CPc.stopPre_stopJoin_g (g : Bool) : (CPc.stopJoin g).stopPre = false := rfl
@[simp, grind =] theorem CPc.stopPre_setLock_true : (CPc.setLock true).stopPre = false := rfl
@[simp, grind =] theorem CPc.stopPre_setLock_false : (CPc.setLock false).stopPre = false := rfl
@[simp, grind =] theorem CPc.stopPre_getLock : (CPc.getLock).stopPre = false := rfl
@[simp, grind =] theorem CPc.stopPre_getWait : (CPc.getWait).stopPre = false := rfl
@[simp, grind =] theorem CPc.stopPre_getAsleep_true : (CPc.getAsleep true).stopPre = false := rfl
@[simp, grind =] theorem CPc.stopPre_getAsleep_false : (CPc.getAsleep false).stopPre = false := rfl
@[simp, grind =] theorem CPc.stopPre_joinB : (CPc.joinB).stopPre = false := rfl
@[simp, grind =] theorem CPc.stopPre_exit : (CPc.exit).stopPre = false := rfl
@[simp, grind =] theorem CPc.stopPre_fin : (CPc.fin).stopPre = false := rfl

def CPc.stopTPre : CPc → Bool
  | .unborn => false
  | .bstart => false
  | .createB => false
  | .idle => false
  | .startCreate => false
  | .trigLock .user => false
  | .trigLock (.stop _) => true
  | .trigLock .setoff => false
  | .trigNotify .user => false
  | .trigNotify (.stop _) => true
  | .trigNotify .setoff => false
  | .stopNotifyF _ => false
  | .stopJoin _ => false
  | .setLock true => false
  | .setLock false => false
  | .getLock => false
  | .getWait => false
  | .getAsleep true => false
  | .getAsleep false => false
  | .joinB => false
  | .exit => false
  | .fin => false

@[simp, grind =] theorem CPc.stopTPre_unborn : (CPc.unborn).stopTPre = false := rfl
@[simp, grind =] theorem CPc.stopTPre_bstart : (CPc.bstart).stopTPre = false := rfl
@[simp, grind =] theorem CPc.stopTPre_createB : (CPc.createB).stopTPre = false := rfl
@[simp, grind =] theorem CPc.stopTPre_idle : (CPc.idle).stopTPre = false := rfl
@[simp, grind =] theorem CPc.stopTPre_startCreate : (CPc.startCreate).stopTPre = false := rfl
@[simp, grind =] theorem CPc.stopTPre_trigLock_user : (CPc.trigLock .user).stopTPre = false := rfl
@[simp, grind =] theorem CPc.stopTPre_trigLock_stop_g (g : Bool) : (CPc.trigLock (.stop g)).stopTPre = true := rfl
@[simp, grind =] theorem CPc.stopTPre_trigLock_setoff : (CPc.trigLock .setoff).stopTPre = false := rfl
@[simp, grind =] theorem CPc.stopTPre_trigNotify_user : (CPc.trigNotify .user).stopTPre = false := rfl
@[simp, grind =] theorem CPc.stopTPre_trigNotify_stop_g (g : Bool) : (CPc.trigNotify (.stop g)).stopTPre = true := rfl
@[simp, grind =] theorem CPc.stopTPre_trigNotify_setoff : (CPc.trigNotify .setoff).stopTPre = false := rfl
@[simp, grind =] theorem CPc.stopTPre_stopNotifyF_g (g : Bool) : (CPc.stopNotifyF g).stopTPre = false := rfl
@[simp, grind =] theorem CPc.stopTPre_stopJoin_g (g : Bool) : (CPc.stopJoin g).stopTPre = false := rfl
@[simp, grind =] theorem CPc.stopTPre_setLock_true : (CPc.setLock true).stopTPre = false := rfl
@[simp, grind =] theorem CPc.stopTPre_setLock_false : (CPc.setLock false).stopTPre = false := rfl
@[simp, grind =] theorem CPc.stopTPre_getLock : (CPc.getLock).stopTPre = false := rfl
@[simp, grind =] theorem CPc.stopTPre_getWait : (CPc.getWait).stopTPre = false := rfl
@[simp, grind =] theorem CPc.stopTPre_getAsleep_true : (CPc.getAsleep true).stopTPre = false := rfl
@[simp, grind =] theorem CPc.stopTPre_getAsleep_false : (CPc.getAsleep false).stopTPre = false := rfl
@[simp, grind =] theorem CPc.stopTPre_joinB : (CPc.joinB).stopTPre = false := rfl
@[simp, grind =] theorem CPc.stopTPre_exit : (CPc.exit).stopTPre = false := rfl
@[simp, grind =] theorem CPc.stopTPre_fin : (CPc.fin).stopTPre = false := rfl

def CPc.stopLockPre : CPc → Bool
  | .unborn => false
  | .bstart => false
  | .createB => false
  | .idle => false
  | .startCreate => false
  | .trigLock .user => false
  | .trigLock (.stop _) => true
  | .trigLock .setoff => false
  | .trigNotify .user => false
  | .trigNotify (.stop _) => false
  | .trigNotify .setoff => false
  | .stopNotifyF _ => false
  | .stopJoin _ => false
  | .setLock true => false
  | .setLock false => false
  | .getLock => false
  | .getWait => false
  | .getAsleep true => false
  | .getAsleep false => false
  | .joinB => false
  | .exit => false
  | .fin => false

@[simp, grind =] theorem CPc.stopLockPre_unborn : (CPc.unborn).stopLockPre = false := rfl
@[simp, grind =] theorem CPc.stopLockPre_bstart : (CPc.bstart).stopLockPre = false := rfl
@[simp, grind =] theorem CPc.stopLockPre_createB : (CPc.createB).stopLockPre = false := rfl
@[simp, grind =] theorem CPc.stopLockPre_idle : (CPc.idle).stopLockPre = false := rfl
@[simp, grind =] theorem CPc.stopLockPre_startCreate : (CPc.startCreate).stopLockPre = false := rfl
@[simp, grind =] theorem CPc.stopLockPre_trigLock_user : (CPc.trigLock .user).stopLockPre = false := rfl
@[simp, grind =] theorem CPc.stopLockPre_trigLock_stop_g (g : Bool) : (CPc.trigLock (.stop g)).stopLockPre = true := rfl
@[simp, grind =] theorem CPc.stopLockPre_trigLock_setoff : (CPc.trigLock .setoff).stopLockPre = false := rfl
@[simp, grind =] theorem CPc.stopLockPre_trigNotify_user : (CPc.trigNotify .user).stopLockPre = false := rfl
@[simp, grind =] theorem CPc.stopLockPre_trigNotify_stop_g (g : Bool) : (CPc.trigNotify (.stop g)).stopLockPre = false := rfl
@[simp, grind =] theorem CPc.stopLockPre_trigNotify_setoff : (CPc.trigNotify .setoff).stopLockPre = false := rfl
@[simp, grind =] theorem CPc.stopLockPre_stopNotifyF_g (g : Bool) : (CPc.stopNotifyF g).stopLockPre = false := rfl
@[simp, grind =] theorem CPc.stopLockPre_stopJoin_g (g : Bool) : (CPc.stopJoin g).stopLockPre = false := rfl
@[simp, grind =] theorem CPc.stopLockPre_setLock_true : (CPc.setLock true).stopLockPre = false := rfl
@[simp, grind =] theorem CPc.stopLockPre_setLock_false : (CPc.setLock false).stopLockPre = false := rfl
@[simp, grind =] theorem CPc.stopLockPre_getLock : (CPc.getLock).stopLockPre = false := rfl
@[simp, grind =] theorem CPc.stopLockPre_getWait : (CPc.getWait).stopLockPre = false := rfl
@[simp, grind =] theorem CPc.stopLockPre_getAsleep_true : (CPc.getAsleep true).stopLockPre = false := rfl
@[simp, grind =] theorem CPc.stopLockPre_getAsleep_false : (CPc.getAsleep false).stopLockPre = false := rfl
@[simp, grind =] theorem CPc.stopLockPre_joinB : (CPc.joinB).stopLockPre = false := rfl
@[simp, grind =] theorem CPc.stopLockPre_exit : (CPc.exit).stopLockPre = false := rfl
@[simp, grind =] theorem CPc.stopLockPre_fin : (CPc.fin).stopLockPre = false := rfl

def CPc.inStop : CPc → Bool
  | .unborn => false
  | .bstart => false
  | .createB => false
  | .idle => false
  | .startCreate => false
  | .trigLock .user => false
  | .trigLock (.stop _) => true
  | .trigLock .setoff => false
  | .trigNotify .user => false
  | .trigNotify (.stop _) => true
  | .trigNotify .setoff => false
  | .stopNotifyF _ => true
  | .stopJoin _ => true
  | .setLock true => false
  | .setLock false => false
  | .getLock => false
  | .getWait => false
  | .getAsleep true => false
  | .getAsleep false => false
  | .joinB => false
  | .exit => false
  | .fin => false

@[simp, grind =] theorem CPc.inStop_unborn : (CPc.unborn).inStop = false := rfl
@[simp, grind =] theorem CPc.inStop_bstart : (CPc.bstart).inStop = false := rfl
@[simp, grind =] theorem CPc.inStop_createB : (CPc.createB).inStop = false := rfl
@[simp, grind =] theorem CPc.inStop_idle : (CPc.idle).inStop = false := rfl
@[simp, grind =] theorem CPc.inStop_startCreate : (CPc.startCreate).inStop = false := rfl
@[simp, grind =] theorem CPc.inStop_trigLock_user : (CPc.trigLock .user).inStop = false := rfl
@[simp, grind =] theorem CPc.inStop_trigLock_stop_g (g : Bool) : (CPc.trigLock (.stop g)).inStop = true := rfl
@[simp, grind =] theorem CPc.inStop_trigLock_setoff : (CPc.trigLock .setoff).inStop = false := rfl
@[simp, grind =] theorem CPc.inStop_trigNotify_user : (CPc.trigNotify .user).inStop = false := rfl
@[simp, grind =] theorem CPc.inStop_trigNotify_stop_g (g : Bool) : (CPc.trigNotify (.stop g)).inStop = true := rfl
@[simp, grind =] theorem CPc.inStop_trigNotify_setoff : (CPc.trigNotify .setoff).inStop = false := rfl
@[simp, grind =] theorem CPc.inStop_stopNotifyF_g (g : Bool) : (CPc.stopNotifyF g).inStop = true := rfl
@[simp, grind =] theorem CPc.inStop_stopJoin_g (g : Bool) : (CPc.stopJoin g).inStop = true := rfl
@[simp, grind =] theorem CPc.inStop_setLock_true : (CPc.setLock true).inStop = false := rfl
@[simp, grind =] theorem CPc.inStop_setLock_false : (CPc.setLock false).inStop = false := rfl
@[simp, grind =] theorem CPc.inStop_getLock : (CPc.getLock).inStop = false := rfl
@[simp, grind =] theorem CPc.inStop_getWait : (CPc.getWait).inStop = false := rfl
@[simp, grind =] theorem CPc.inStop_getAsleep_true : (CPc.getAsleep true).inStop = false := rfl
@[simp, grind =] theorem CPc.inStop_getAsleep_false : (CPc.getAsleep false).inStop = false := rfl
@[simp, grind =] theorem CPc.inStop_joinB : (CPc.joinB).inStop = false := rfl
@[simp, grind =] theorem CPc.inStop_exit : (CPc.exit).inStop = false := rfl
@[simp, grind =] theorem CPc.inStop_fin : (CPc.fin).inStop = false := rfl

def CPc.getSleeping : CPc → Bool
  | .unborn => false
  | .bstart => false
  | .createB => false
  | .idle => false
  | .startCreate => false
  | .trigLock .user => false
  | .trigLock (.stop _) => false
  | .trigLock .setoff => false
  | .trigNotify .user => false
  | .trigNotify (.stop _) => false
  | .trigNotify .setoff => false
  | .stopNotifyF _ => false
  | .stopJoin _ => false
  | .setLock true => false
  | .setLock false => false
  | .getLock => false
  | .getWait => true
  | .getAsleep true => false
  | .getAsleep false => true
  | .joinB => false
  | .exit => false
  | .fin => false

@[simp, grind =] theorem CPc.getSleeping_unborn : (CPc.unborn).getSleeping = false := rfl
@[simp, grind =] theorem CPc.getSleeping_bstart : (CPc.bstart).getSleeping = false := rfl
@[simp, grind =] theorem CPc.getSleeping_createB : (CPc.createB).getSleeping = false := rfl
@[simp, grind =] theorem CPc.getSleeping_idle : (CPc.idle).getSleeping = false := rfl
@[simp, grind =] theorem CPc.getSleeping_startCreate : (CPc.startCreate).getSleeping = false := rfl
@[simp, grind =] theorem CPc.getSleeping_trigLock_user : (CPc.trigLock .user).getSleeping = false := rfl
@[simp, grind =] theorem CPc.getSleeping_trigLock_stop_g (g : Bool) : (CPc.trigLock (.stop g)).getSleeping = false := rfl
@[simp, grind =] theorem CPc.getSleeping_trigLock_setoff : (CPc.trigLock .setoff).getSleeping = false := rfl
@[simp, grind =] theorem CPc.getSleeping_trigNotify_user : (CPc.trigNotify .user).getSleeping = false := rfl
@[simp, grind =] theorem CPc.getSleeping_trigNotify_stop_g (g : Bool) : (CPc.trigNotify (.stop g)).getSleeping = false := rfl
@[simp, grind =] theorem CPc.getSleeping_trigNotify_setoff : (CPc.trigNotify .setoff).getSleeping = false := rfl
@[simp, grind =] theorem CPc.getSleeping_stopNotifyF_g (g : Bool) : (CPc.stopNotifyF g).getSleeping = false := rfl
@[simp, grind =] theorem CPc.getSleeping_stopJoin_g (g : Bool) : (CPc.stopJoin g).getSleeping = false := rfl
@[simp, grind =] theorem CPc.getSleeping_setLock_true : (CPc.setLock true).getSleeping = false := rfl
@[simp, grind =] theorem CPc.getSleeping_setLock_false : (CPc.setLock false).getSleeping = false := rfl
@[simp, grind =] theorem CPc.getSleeping_getLock : (CPc.getLock).getSleeping = false := rfl
@[simp, grind =] theorem CPc.getSleeping_getWait : (CPc.getWait).getSleeping = true := rfl
@[simp, grind =] theorem CPc.getSleeping_getAsleep_true : (CPc.getAsleep true).getSleeping = false := rfl
@[simp, grind =] theorem CPc.getSleeping_getAsleep_false : (CPc.getAsleep false).getSleeping = true := rfl
@[simp, grind =] theorem CPc.getSleeping_joinB : (CPc.joinB).getSleeping = false := rfl
@[simp, grind =] theorem CPc.getSleeping_exit : (CPc.exit).getSleeping = false := rfl
@[simp, grind =] theorem CPc.getSleeping_fin : (CPc.fin).getSleeping = false := rfl

def CPc.setoffPending : CPc → Bool
  | .unborn => false
  | .bstart => false
  | .createB => false
  | .idle => false
  | .startCreate => false
  | .trigLock .user => false
  | .trigLock (.stop _) => false
  | .trigLock .setoff => true
  | .trigNotify .user => false
  | .trigNotify (.stop _) => false
  | .trigNotify .setoff => true
  | .stopNotifyF _ => false
  | .stopJoin _ => false
  | .setLock true => false
  | .setLock false => true
  | .getLock => false
  | .getWait => false
  | .getAsleep true => false
  | .getAsleep false => false
  | .joinB => false
  | .exit => false
  | .fin => false

@[simp, grind =] theorem CPc.setoffPending_unborn : (CPc.unborn).setoffPending = false := rfl
@[simp, grind =] theorem CPc.setoffPending_bstart : (CPc.bstart).setoffPending = false := rfl
@[simp, grind =] theorem CPc.setoffPending_createB : (CPc.createB).setoffPending = false := rfl
@[simp, grind =] theorem CPc.setoffPending_idle : (CPc.idle).setoffPending = false := rfl
@[simp, grind =] theorem CPc.setoffPending_startCreate : (CPc.startCreate).setoffPending = false := rfl
@[simp, grind =] theorem CPc.setoffPending_trigLock_user : (CPc.trigLock .user).setoffPending = false := rfl
@[simp, grind =] theorem CPc.setoffPending_trigLock_stop_g (g : Bool) : (CPc.trigLock (.stop g)).setoffPending = false := rfl
@[simp, grind =] theorem CPc.setoffPending_trigLock_setoff : (CPc.trigLock .setoff).setoffPending = true := rfl
@[simp, grind =] theorem CPc.setoffPending_trigNotify_user : (CPc.trigNotify .user).setoffPending = false := rfl
@[simp, grind =] theorem CPc.setoffPending_trigNotify_stop_g (g : Bool) : (CPc.trigNotify (.stop g)).setoffPending = false := rfl
@[simp, grind =] theorem CPc.setoffPending_trigNotify_setoff : (CPc.trigNotify .setoff).setoffPending = true := rfl
@[simp, grind =] theorem CPc.setoffPending_stopNotifyF_g (g : Bool) : (CPc.stopNotifyF g).setoffPending = false := rfl
@[simp, grind =] theorem CPc.setoffPending_stopJoin_g (g : Bool) : (CPc.stopJoin g).setoffPending = false := rfl
@[simp, grind =] theorem CPc.setoffPending_setLock_true : (CPc.setLock true).setoffPending = false := rfl
@[simp, grind =] theorem CPc.setoffPending_setLock_false : (CPc.setLock false).setoffPending = true := rfl
@[simp, grind =] theorem CPc.setoffPending_getLock : (CPc.getLock).setoffPending = false := rfl
@[simp, grind =] theorem CPc.setoffPending_getWait : (CPc.getWait).setoffPending = false := rfl
@[simp, grind =] theorem CPc.setoffPending_getAsleep_true : (CPc.getAsleep true).setoffPending = false := rfl
@[simp, grind =] theorem CPc.setoffPending_getAsleep_false : (CPc.getAsleep false).setoffPending = false := rfl
@[simp, grind =] theorem CPc.setoffPending_joinB : (CPc.joinB).setoffPending = false := rfl
@[simp, grind =] theorem CPc.setoffPending_exit : (CPc.exit).setoffPending = false := rfl
@[simp, grind =] theorem CPc.setoffPending_fin : (CPc.fin).setoffPending = false := rfl

@[simp, grind =] theorem CPc.quiet_unborn : (CPc.unborn).quiet = true := rfl
@[simp, grind =] theorem CPc.quiet_bstart : (CPc.bstart).quiet = true := rfl
@[simp, grind =] theorem CPc.quiet_createB : (CPc.createB).quiet = true := rfl
@[simp, grind =] theorem CPc.quiet_idle : (CPc.idle).quiet = true := rfl
@[simp, grind =] theorem CPc.quiet_startCreate : (CPc.startCreate).quiet = false := rfl
@[simp, grind =] theorem CPc.quiet_trigLock_user : (CPc.trigLock .user).quiet = false := rfl
@[simp, grind =] theorem CPc.quiet_trigLock_stop_g (g : Bool) : (CPc.trigLock (.stop g)).quiet = false := rfl
@[simp, grind =] theorem CPc.quiet_trigLock_setoff : (CPc.trigLock .setoff).quiet = false := rfl
@[simp, grind =] theorem CPc.quiet_trigNotify_user : (CPc.trigNotify .user).quiet = false := rfl
@[simp, grind =] theorem CPc.quiet_trigNotify_stop_g (g : Bool) : (CPc.trigNotify (.stop g)).quiet = false := rfl
@[simp, grind =] theorem CPc.quiet_trigNotify_setoff : (CPc.trigNotify .setoff).quiet = false := rfl
@[simp, grind =] theorem CPc.quiet_stopNotifyF_g (g : Bool) : (CPc.stopNotifyF g).quiet = false := rfl
@[simp, grind =] theorem CPc.quiet_stopJoin_g (g : Bool) : (CPc.stopJoin g).quiet = false := rfl
@[simp, grind =] theorem CPc.quiet_setLock_true : (CPc.setLock true).quiet = false := rfl
@[simp, grind =] theorem CPc.quiet_setLock_false : (CPc.setLock false).quiet = false := rfl
@[simp, grind =] theorem CPc.quiet_getLock : (CPc.getLock).quiet = false := rfl
@[simp, grind =] theorem CPc.quiet_getWait : (CPc.getWait).quiet = false := rfl
@[simp, grind =] theorem CPc.quiet_getAsleep_true : (CPc.getAsleep true).quiet = false := rfl
@[simp, grind =] theorem CPc.quiet_getAsleep_false : (CPc.getAsleep false).quiet = false := rfl
@[simp, grind =] theorem CPc.quiet_joinB : (CPc.joinB).quiet = true := rfl
@[simp, grind =] theorem CPc.quiet_exit : (CPc.exit).quiet = true := rfl
@[simp, grind =] theorem CPc.quiet_fin : (CPc.fin).quiet = true := rfl

def CPc.inSet : CPc → Bool
  | .unborn => false
  | .bstart => false
  | .createB => false
  | .idle => false
  | .startCreate => false
  | .trigLock .user => false
  | .trigLock (.stop _) => false
  | .trigLock .setoff => true
  | .trigNotify .user => false
  | .trigNotify (.stop _) => false
  | .trigNotify .setoff => true
  | .stopNotifyF _ => false
  | .stopJoin _ => false
  | .setLock true => true
  | .setLock false => true
  | .getLock => false
  | .getWait => false
  | .getAsleep true => false
  | .getAsleep false => false
  | .joinB => false
  | .exit => false
  | .fin => false

@[simp, grind =] theorem CPc.inSet_unborn : (CPc.unborn).inSet = false := rfl
@[simp, grind =] theorem CPc.inSet_bstart : (CPc.bstart).inSet = false := rfl
@[simp, grind =] theorem CPc.inSet_createB : (CPc.createB).inSet = false := rfl
@[simp, grind =] theorem CPc.inSet_idle : (CPc.idle).inSet = false := rfl
@[simp, grind =] theorem CPc.inSet_startCreate : (CPc.startCreate).inSet = false := rfl
@[simp, grind =] theorem CPc.inSet_trigLock_user : (CPc.trigLock .user).inSet = false := rfl
@[simp, grind =] theorem CPc.inSet_trigLock_stop_g (g : Bool) : (CPc.trigLock (.stop g)).inSet = false := rfl
@[simp, grind =] theorem CPc.inSet_trigLock_setoff : (CPc.trigLock .setoff).inSet = true := rfl
@[simp, grind =] theorem CPc.inSet_trigNotify_user : (CPc.trigNotify .user).inSet = false := rfl
@[simp, grind =] theorem CPc.inSet_trigNotify_stop_g (g : Bool) : (CPc.trigNotify (.stop g)).inSet = false := rfl
@[simp, grind =] theorem CPc.inSet_trigNotify_setoff : (CPc.trigNotify .setoff).inSet = true := rfl
@[simp, grind =] theorem CPc.inSet_stopNotifyF_g (g : Bool) : (CPc.stopNotifyF g).inSet = false := rfl
@[simp, grind =] theorem CPc.inSet_stopJoin_g (g : Bool) : (CPc.stopJoin g).inSet = false := rfl
@[simp, grind =] theorem CPc.inSet_setLock_true : (CPc.setLock true).inSet = true := rfl
@[simp, grind =] theorem CPc.inSet_setLock_false : (CPc.setLock false).inSet = true := rfl
@[simp, grind =] theorem CPc.inSet_getLock : (CPc.getLock).inSet = false := rfl
@[simp, grind =] theorem CPc.inSet_getWait : (CPc.getWait).inSet = false := rfl
@[simp, grind =] theorem CPc.inSet_getAsleep_true : (CPc.getAsleep true).inSet = false := rfl
@[simp, grind =] theorem CPc.inSet_getAsleep_false : (CPc.getAsleep false).inSet = false := rfl
@[simp, grind =] theorem CPc.inSet_joinB : (CPc.joinB).inSet = false := rfl
@[simp, grind =] theorem CPc.inSet_exit : (CPc.exit).inSet = false := rfl
@[simp, grind =] theorem CPc.inSet_fin : (CPc.fin).inSet = false := rfl

def CPc.atTrigNotify : CPc → Bool
  | .unborn => false
  | .bstart => false
  | .createB => false
  | .idle => false
  | .startCreate => false
  | .trigLock .user => false
  | .trigLock (.stop _) => false
  | .trigLock .setoff => false
  | .trigNotify .user => true
  | .trigNotify (.stop _) => true
  | .trigNotify .setoff => true
  | .stopNotifyF _ => false
  | .stopJoin _ => false
  | .setLock true => false
  | .setLock false => false
  | .getLock => false
  | .getWait => false
  | .getAsleep true => false
  | .getAsleep false => false
  | .joinB => false
  | .exit => false
  | .fin => false

@[simp, grind =] theorem CPc.atTrigNotify_unborn : (CPc.unborn).atTrigNotify = false := rfl
@[simp, grind =] theorem CPc.atTrigNotify_bstart : (CPc.bstart).atTrigNotify = false := rfl
@[simp, grind =] theorem CPc.atTrigNotify_createB : (CPc.createB).atTrigNotify = false := rfl
@[simp, grind =] theorem CPc.atTrigNotify_idle : (CPc.idle).atTrigNotify = false := rfl
@[simp, grind =] theorem CPc.atTrigNotify_startCreate : (CPc.startCreate).atTrigNotify = false := rfl
@[simp, grind =] theorem CPc.atTrigNotify_trigLock_user : (CPc.trigLock .user).atTrigNotify = false := rfl
@[simp, grind =] theorem CPc.atTrigNotify_trigLock_stop_g (g : Bool) : (CPc.trigLock (.stop g)).atTrigNotify = false := rfl
@[simp, grind =] theorem CPc.atTrigNotify_trigLock_setoff : (CPc.trigLock .setoff).atTrigNotify = false := rfl
@[simp, grind =] theorem CPc.atTrigNotify_trigNotify_user : (CPc.trigNotify .user).atTrigNotify = true := rfl
@[simp, grind =] theorem CPc.atTrigNotify_trigNotify_stop_g (g : Bool) : (CPc.trigNotify (.stop g)).atTrigNotify = true := rfl
@[simp, grind =] theorem CPc.atTrigNotify_trigNotify_setoff : (CPc.trigNotify .setoff).atTrigNotify = true := rfl
@[simp, grind =] theorem CPc.atTrigNotify_stopNotifyF_g (g : Bool) : (CPc.stopNotifyF g).atTrigNotify = false := rfl
@[simp, grind =] theorem CPc.atTrigNotify_stopJoin_g (g : Bool) : (CPc.stopJoin g).atTrigNotify = false := rfl
@[simp, grind =] theorem CPc.atTrigNotify_setLock_true : (CPc.setLock true).atTrigNotify = false := rfl
@[simp, grind =] theorem CPc.atTrigNotify_setLock_false : (CPc.setLock false).atTrigNotify = false := rfl
@[simp, grind =] theorem CPc.atTrigNotify_getLock : (CPc.getLock).atTrigNotify = false := rfl
@[simp, grind =] theorem CPc.atTrigNotify_getWait : (CPc.getWait).atTrigNotify = false := rfl
@[simp, grind =] theorem CPc.atTrigNotify_getAsleep_true : (CPc.getAsleep true).atTrigNotify = false := rfl
@[simp, grind =] theorem CPc.atTrigNotify_getAsleep_false : (CPc.getAsleep false).atTrigNotify = false := rfl
@[simp, grind =] theorem CPc.atTrigNotify_joinB : (CPc.joinB).atTrigNotify = false := rfl
@[simp, grind =] theorem CPc.atTrigNotify_exit : (CPc.exit).atTrigNotify = false := rfl
@[simp, grind =] theorem CPc.atTrigNotify_fin : (CPc.fin).atTrigNotify = false := rfl

def CPc.inGet : CPc → Bool
  | .unborn => false
  | .bstart => false
  | .createB => false
  | .idle => false
  | .startCreate => false
  | .trigLock .user => false
  | .trigLock (.stop _) => false
  | .trigLock .setoff => false
  | .trigNotify .user => false
  | .trigNotify (.stop _) => false
  | .trigNotify .setoff => false
  | .stopNotifyF _ => false
  | .stopJoin _ => false
  | .setLock true => false
  | .setLock false => false
  | .getLock => true
  | .getWait => true
  | .getAsleep true => true
  | .getAsleep false => true
  | .joinB => false
  | .exit => false
  | .fin => false

@[simp, grind =] theorem CPc.inGet_unborn : (CPc.unborn).inGet = false := rfl
@[simp, grind =] theorem CPc.inGet_bstart : (CPc.bstart).inGet = false := rfl
@[simp, grind =] theorem CPc.inGet_createB : (CPc.createB).inGet = false := rfl
@[simp, grind =] theorem CPc.inGet_idle : (CPc.idle).inGet = false := rfl
@[simp, grind =] theorem CPc.inGet_startCreate : (CPc.startCreate).inGet = false := rfl
@[simp, grind =] theorem CPc.inGet_trigLock_user : (CPc.trigLock .user).inGet = false := rfl
@[simp, grind =] theorem CPc.inGet_trigLock_stop_g (g : Bool) : (CPc.trigLock (.stop g)).inGet = false := rfl
@[simp, grind =] theorem CPc.inGet_trigLock_setoff : (CPc.trigLock .setoff).inGet = false := rfl
@[simp, grind =] theorem CPc.inGet_trigNotify_user : (CPc.trigNotify .user).inGet = false := rfl
@[simp, grind =] theorem CPc.inGet_trigNotify_stop_g (g : Bool) : (CPc.trigNotify (.stop g)).inGet = false := rfl
@[simp, grind =] theorem CPc.inGet_trigNotify_setoff : (CPc.trigNotify .setoff).inGet = false := rfl
@[simp, grind =] theorem CPc.inGet_stopNotifyF_g (g : Bool) : (CPc.stopNotifyF g).inGet = false := rfl
@[simp, grind =] theorem CPc.inGet_stopJoin_g (g : Bool) : (CPc.stopJoin g).inGet = false := rfl
@[simp, grind =] theorem CPc.inGet_setLock_true : (CPc.setLock true).inGet = false := rfl
@[simp, grind =] theorem CPc.inGet_setLock_false : (CPc.setLock false).inGet = false := rfl
@[simp, grind =] theorem CPc.inGet_getLock : (CPc.getLock).inGet = true := rfl
@[simp, grind =] theorem CPc.inGet_getWait : (CPc.getWait).inGet = true := rfl
@[simp, grind =] theorem CPc.inGet_getAsleep_true : (CPc.getAsleep true).inGet = true := rfl
@[simp, grind =] theorem CPc.inGet_getAsleep_false : (CPc.getAsleep false).inGet = true := rfl
@[simp, grind =] theorem CPc.inGet_joinB : (CPc.joinB).inGet = false := rfl
@[simp, grind =] theorem CPc.inGet_exit : (CPc.exit).inGet = false := rfl
@[simp, grind =] theorem CPc.inGet_fin : (CPc.fin).inGet = false := rfl

def SPc.holds : SPc → Bool
  | .none => false
  | .start => false
  | .lock1 => false
  | .waitT => true
  | .asleepT true => false
  | .asleepT false => false
  | .sleep => false
  | .lock2 => false
  | .notifyF => true
  | .fin => false

@[simp, grind =] theorem SPc.holds_none : (SPc.none).holds = false := rfl
@[simp, grind =] theorem SPc.holds_start : (SPc.start).holds = false := rfl
@[simp, grind =] theorem SPc.holds_lock1 : (SPc.lock1).holds = false := rfl
@[simp, grind =] theorem SPc.holds_waitT : (SPc.waitT).holds = true := rfl
@[simp, grind =] theorem SPc.holds_asleepT_true : (SPc.asleepT true).holds = false := rfl
@[simp, grind =] theorem SPc.holds_asleepT_false : (SPc.asleepT false).holds = false := rfl
@[simp, grind =] theorem SPc.holds_sleep : (SPc.sleep).holds = false := rfl
@[simp, grind =] theorem SPc.holds_lock2 : (SPc.lock2).holds = false := rfl
@[simp, grind =] theorem SPc.holds_notifyF : (SPc.notifyF).holds = true := rfl
@[simp, grind =] theorem SPc.holds_fin : (SPc.fin).holds = false := rfl

def SPc.alive : SPc → Bool
  | .none => false
  | .start => true
  | .lock1 => true
  | .waitT => true
  | .asleepT true => true
  | .asleepT false => true
  | .sleep => true
  | .lock2 => true
  | .notifyF => true
  | .fin => false

@[simp, grind =] theorem SPc.alive_none : (SPc.none).alive = false := rfl
@[simp, grind =] theorem SPc.alive_start : (SPc.start).alive = true := rfl
@[simp, grind =] theorem SPc.alive_lock1 : (SPc.lock1).alive = true := rfl
@[simp, grind =] theorem SPc.alive_waitT : (SPc.waitT).alive = true := rfl
@[simp, grind =] theorem SPc.alive_asleepT_true : (SPc.asleepT true).alive = true := rfl
@[simp, grind =] theorem SPc.alive_asleepT_false : (SPc.asleepT false).alive = true := rfl
@[simp, grind =] theorem SPc.alive_sleep : (SPc.sleep).alive = true := rfl
@[simp, grind =] theorem SPc.alive_lock2 : (SPc.lock2).alive = true := rfl
@[simp, grind =] theorem SPc.alive_notifyF : (SPc.notifyF).alive = true := rfl
@[simp, grind =] theorem SPc.alive_fin : (SPc.fin).alive = false := rfl

def SPc.inLoop : SPc → Bool
  | .none => false
  | .start => false
  | .lock1 => true
  | .waitT => true
  | .asleepT true => true
  | .asleepT false => true
  | .sleep => true
  | .lock2 => true
  | .notifyF => true
  | .fin => false

@[simp, grind =] theorem SPc.inLoop_none : (SPc.none).inLoop = false := rfl
@[simp, grind =] theorem SPc.inLoop_start : (SPc.start).inLoop = false := rfl
@[simp, grind =] theorem SPc.inLoop_lock1 : (SPc.lock1).inLoop = true := rfl
@[simp, grind =] theorem SPc.inLoop_waitT : (SPc.waitT).inLoop = true := rfl
@[simp, grind =] theorem SPc.inLoop_asleepT_true : (SPc.asleepT true).inLoop = true := rfl
@[simp, grind =] theorem SPc.inLoop_asleepT_false : (SPc.asleepT false).inLoop = true := rfl
@[simp, grind =] theorem SPc.inLoop_sleep : (SPc.sleep).inLoop = true := rfl
@[simp, grind =] theorem SPc.inLoop_lock2 : (SPc.lock2).inLoop = true := rfl
@[simp, grind =] theorem SPc.inLoop_notifyF : (SPc.notifyF).inLoop = true := rfl
@[simp, grind =] theorem SPc.inLoop_fin : (SPc.fin).inLoop = false := rfl

def SPc.waitingT : SPc → Bool
  | .none => false
  | .start => false
  | .lock1 => false
  | .waitT => true
  | .asleepT true => false
  | .asleepT false => true
  | .sleep => false
  | .lock2 => false
  | .notifyF => false
  | .fin => false

@[simp, grind =] theorem SPc.waitingT_none : (SPc.none).waitingT = false := rfl
@[simp, grind =] theorem SPc.waitingT_start : (SPc.start).waitingT = false := rfl
@[simp, grind =] theorem SPc.waitingT_lock1 : (SPc.lock1).waitingT = false := rfl
@[simp, grind =] theorem SPc.waitingT_waitT : (SPc.waitT).waitingT = true := rfl
@[simp, grind =] theorem SPc.waitingT_asleepT_true : (SPc.asleepT true).waitingT = false := rfl
@[simp, grind =] theorem SPc.waitingT_asleepT_false : (SPc.asleepT false).waitingT = true := rfl
@[simp, grind =] theorem SPc.waitingT_sleep : (SPc.sleep).waitingT = false := rfl
@[simp, grind =] theorem SPc.waitingT_lock2 : (SPc.lock2).waitingT = false := rfl
@[simp, grind =] theorem SPc.waitingT_notifyF : (SPc.notifyF).waitingT = false := rfl
@[simp, grind =] theorem SPc.waitingT_fin : (SPc.fin).waitingT = false := rfl

def SPc.atLock1 : SPc → Bool
  | .none => false
  | .start => false
  | .lock1 => true
  | .waitT => false
  | .asleepT true => true
  | .asleepT false => false
  | .sleep => false
  | .lock2 => false
  | .notifyF => false
  | .fin => false

@[simp, grind =] theorem SPc.atLock1_none : (SPc.none).atLock1 = false := rfl
@[simp, grind =] theorem SPc.atLock1_start : (SPc.start).atLock1 = false := rfl
@[simp, grind =] theorem SPc.atLock1_lock1 : (SPc.lock1).atLock1 = true := rfl
@[simp, grind =] theorem SPc.atLock1_waitT : (SPc.waitT).atLock1 = false := rfl
@[simp, grind =] theorem SPc.atLock1_asleepT_true : (SPc.asleepT true).atLock1 = true := rfl
@[simp, grind =] theorem SPc.atLock1_asleepT_false : (SPc.asleepT false).atLock1 = false := rfl
@[simp, grind =] theorem SPc.atLock1_sleep : (SPc.sleep).atLock1 = false := rfl
@[simp, grind =] theorem SPc.atLock1_lock2 : (SPc.lock2).atLock1 = false := rfl
@[simp, grind =] theorem SPc.atLock1_notifyF : (SPc.notifyF).atLock1 = false := rfl
@[simp, grind =] theorem SPc.atLock1_fin : (SPc.fin).atLock1 = false := rfl

@[simp, grind =] theorem CPc.holds_trigLock_any (k : TCtx) : (CPc.trigLock k).holds = false := by cases k <;> rfl
@[simp, grind =] theorem CPc.holds_trigNotify_any (k : TCtx) : (CPc.trigNotify k).holds = true := by cases k <;> rfl
@[simp, grind =] theorem CPc.holds_setLock_any (en : Bool) : (CPc.setLock en).holds = false := by cases en <;> rfl
@[simp, grind =] theorem CPc.holds_getAsleep_any (n : Bool) : (CPc.getAsleep n).holds = false := by cases n <;> rfl
@[simp, grind =] theorem CPc.stopPre_setLock_any (en : Bool) : (CPc.setLock en).stopPre = false := by cases en <;> rfl
@[simp, grind =] theorem CPc.stopPre_getAsleep_any (n : Bool) : (CPc.getAsleep n).stopPre = false := by cases n <;> rfl
@[simp, grind =] theorem CPc.stopTPre_setLock_any (en : Bool) : (CPc.setLock en).stopTPre = false := by cases en <;> rfl
@[simp, grind =] theorem CPc.stopTPre_getAsleep_any (n : Bool) : (CPc.getAsleep n).stopTPre = false := by cases n <;> rfl
@[simp, grind =] theorem CPc.stopLockPre_trigNotify_any (k : TCtx) : (CPc.trigNotify k).stopLockPre = false := by cases k <;> rfl
@[simp, grind =] theorem CPc.stopLockPre_setLock_any (en : Bool) : (CPc.setLock en).stopLockPre = false := by cases en <;> rfl
@[simp, grind =] theorem CPc.stopLockPre_getAsleep_any (n : Bool) : (CPc.getAsleep n).stopLockPre = false := by cases n <;> rfl
@[simp, grind =] theorem CPc.inStop_setLock_any (en : Bool) : (CPc.setLock en).inStop = false := by cases en <;> rfl
@[simp, grind =] theorem CPc.inStop_getAsleep_any (n : Bool) : (CPc.getAsleep n).inStop = false := by cases n <;> rfl
@[simp, grind =] theorem CPc.getSleeping_trigLock_any (k : TCtx) : (CPc.trigLock k).getSleeping = false := by cases k <;> rfl
@[simp, grind =] theorem CPc.getSleeping_trigNotify_any (k : TCtx) : (CPc.trigNotify k).getSleeping = false := by cases k <;> rfl
@[simp, grind =] theorem CPc.getSleeping_setLock_any (en : Bool) : (CPc.setLock en).getSleeping = false := by cases en <;> rfl
@[simp, grind =] theorem CPc.setoffPending_getAsleep_any (n : Bool) : (CPc.getAsleep n).setoffPending = false := by cases n <;> rfl
@[simp, grind =] theorem CPc.quiet_trigLock_any (k : TCtx) : (CPc.trigLock k).quiet = false := by cases k <;> rfl
@[simp, grind =] theorem CPc.quiet_trigNotify_any (k : TCtx) : (CPc.trigNotify k).quiet = false := by cases k <;> rfl
@[simp, grind =] theorem CPc.quiet_setLock_any (en : Bool) : (CPc.setLock en).quiet = false := by cases en <;> rfl
@[simp, grind =] theorem CPc.quiet_getAsleep_any (n : Bool) : (CPc.getAsleep n).quiet = false := by cases n <;> rfl
@[simp, grind =] theorem CPc.inSet_setLock_any (en : Bool) : (CPc.setLock en).inSet = true := by cases en <;> rfl
@[simp, grind =] theorem CPc.inSet_getAsleep_any (n : Bool) : (CPc.getAsleep n).inSet = false := by cases n <;> rfl
@[simp, grind =] theorem CPc.atTrigNotify_trigLock_any (k : TCtx) : (CPc.trigLock k).atTrigNotify = false := by cases k <;> rfl
@[simp, grind =] theorem CPc.atTrigNotify_trigNotify_any (k : TCtx) : (CPc.trigNotify k).atTrigNotify = true := by cases k <;> rfl
@[simp, grind =] theorem CPc.atTrigNotify_setLock_any (en : Bool) : (CPc.setLock en).atTrigNotify = false := by cases en <;> rfl
@[simp, grind =] theorem CPc.atTrigNotify_getAsleep_any (n : Bool) : (CPc.getAsleep n).atTrigNotify = false := by cases n <;> rfl
@[simp, grind =] theorem CPc.inGet_trigLock_any (k : TCtx) : (CPc.trigLock k).inGet = false := by cases k <;> rfl
@[simp, grind =] theorem CPc.inGet_trigNotify_any (k : TCtx) : (CPc.trigNotify k).inGet = false := by cases k <;> rfl
@[simp, grind =] theorem CPc.inGet_setLock_any (en : Bool) : (CPc.setLock en).inGet = false := by cases en <;> rfl
@[simp, grind =] theorem CPc.inGet_getAsleep_any (n : Bool) : (CPc.getAsleep n).inGet = true := by cases n <;> rfl
@[simp, grind =] theorem SPc.holds_asleepT_any (n : Bool) : (SPc.asleepT n).holds = false := by cases n <;> rfl
@[simp, grind =] theorem SPc.alive_asleepT_any (n : Bool) : (SPc.asleepT n).alive = true := by cases n <;> rfl
@[simp, grind =] theorem SPc.inLoop_asleepT_any (n : Bool) : (SPc.asleepT n).inLoop = true := by cases n <;> rfl
@[simp, grind =] theorem CPc.holds_of_quiet {p : CPc} (h : p.quiet = true) : p.holds = false := by
  cases p <;> first | rfl | (simp at h; done) | (rename_i x; cases x <;> first | rfl | (simp at h; done))
@[simp, grind =] theorem CPc.stopPre_of_quiet {p : CPc} (h : p.quiet = true) : p.stopPre = false := by
  cases p <;> first | rfl | (simp at h; done) | (rename_i x; cases x <;> first | rfl | (simp at h; done))
@[simp, grind =] theorem CPc.stopTPre_of_quiet {p : CPc} (h : p.quiet = true) : p.stopTPre = false := by
  cases p <;> first | rfl | (simp at h; done) | (rename_i x; cases x <;> first | rfl | (simp at h; done))
@[simp, grind =] theorem CPc.stopLockPre_of_quiet {p : CPc} (h : p.quiet = true) : p.stopLockPre = false := by
  cases p <;> first | rfl | (simp at h; done) | (rename_i x; cases x <;> first | rfl | (simp at h; done))
@[simp, grind =] theorem CPc.inStop_of_quiet {p : CPc} (h : p.quiet = true) : p.inStop = false := by
  cases p <;> first | rfl | (simp at h; done) | (rename_i x; cases x <;> first | rfl | (simp at h; done))
@[simp, grind =] theorem CPc.getSleeping_of_quiet {p : CPc} (h : p.quiet = true) : p.getSleeping = false := by
  cases p <;> first | rfl | (simp at h; done) | (rename_i x; cases x <;> first | rfl | (simp at h; done))
@[simp, grind =] theorem CPc.setoffPending_of_quiet {p : CPc} (h : p.quiet = true) : p.setoffPending = false := by
  cases p <;> first | rfl | (simp at h; done) | (rename_i x; cases x <;> first | rfl | (simp at h; done))
@[simp, grind =] theorem CPc.inSet_of_quiet {p : CPc} (h : p.quiet = true) : p.inSet = false := by
  cases p <;> first | rfl | (simp at h; done) | (rename_i x; cases x <;> first | rfl | (simp at h; done))
@[simp, grind =] theorem CPc.atTrigNotify_of_quiet {p : CPc} (h : p.quiet = true) : p.atTrigNotify = false := by
  cases p <;> first | rfl | (simp at h; done) | (rename_i x; cases x <;> first | rfl | (simp at h; done))
@[simp, grind =] theorem CPc.inGet_of_quiet {p : CPc} (h : p.quiet = true) : p.inGet = false := by
  cases p <;> first | rfl | (simp at h; done) | (rename_i x; cases x <;> first | rfl | (simp at h; done))
@[simp] theorem CPc.ne_startCreate_of_quiet {p : CPc} (h : p.quiet = true) : (p = CPc.startCreate) = False := by
  cases p <;> simp_all
@[grind →] theorem SPc.cases_of_waitingT {p : SPc} (h : p.waitingT = true) : p = .waitT ∨ p = .asleepT false := by
  cases p <;> first | (simp at h; done) | (simp; done) | (rename_i x; cases x <;> simp_all)
@[grind →] theorem SPc.cases_of_atLock1 {p : SPc} (h : p.atLock1 = true) : p = .lock1 ∨ p = .asleepT true := by
  cases p <;> first | (simp at h; done) | (simp; done) | (rename_i x; cases x <;> simp_all)
@[grind →] theorem SPc.cases_of_holds {p : SPc} (h : p.holds = true) : p = .waitT ∨ p = .notifyF := by
  cases p <;> first | (simp at h; done) | (simp; done) | (rename_i x; cases x <;> simp_all)
@[grind →] theorem SPc.alive_of_inLoop {p : SPc} (h : p.inLoop = true) : p.alive = true := by
  cases p <;> first | rfl | (simp at h; done) | (rename_i x; cases x <;> first | rfl | (simp at h; done))
@[grind →] theorem SPc.inLoop_of_waitingT {p : SPc} (h : p.waitingT = true) : p.inLoop = true := by
  cases p <;> first | rfl | (simp at h; done) | (rename_i x; cases x <;> first | rfl | (simp at h; done))
@[grind →] theorem SPc.inLoop_of_atLock1 {p : SPc} (h : p.atLock1 = true) : p.inLoop = true := by
  cases p <;> first | rfl | (simp at h; done) | (rename_i x; cases x <;> first | rfl | (simp at h; done))
@[grind →] theorem SPc.inLoop_of_holds {p : SPc} (h : p.holds = true) : p.inLoop = true := by
  cases p <;> first | rfl | (simp at h; done) | (rename_i x; cases x <;> first | rfl | (simp at h; done))
@[grind →] theorem SPc.alive_of_waitingT {p : SPc} (h : p.waitingT = true) : p.alive = true := by
  cases p <;> first | rfl | (simp at h; done) | (rename_i x; cases x <;> first | rfl | (simp at h; done))
@[grind →] theorem SPc.alive_of_atLock1 {p : SPc} (h : p.atLock1 = true) : p.alive = true := by
  cases p <;> first | rfl | (simp at h; done) | (rename_i x; cases x <;> first | rfl | (simp at h; done))
@[grind →] theorem SPc.alive_of_holds {p : SPc} (h : p.holds = true) : p.alive = true := by
  cases p <;> first | rfl | (simp at h; done) | (rename_i x; cases x <;> first | rfl | (simp at h; done))
@[grind →] theorem CPc.stopTPre_of_stopLockPre {p : CPc} (h : p.stopLockPre = true) : p.stopTPre = true := by
  cases p <;> first | rfl | (simp at h; done) | (rename_i x; cases x <;> first | rfl | (simp at h; done))
@[grind →] theorem CPc.stopPre_of_stopTPre {p : CPc} (h : p.stopTPre = true) : p.stopPre = true := by
  cases p <;> first | rfl | (simp at h; done) | (rename_i x; cases x <;> first | rfl | (simp at h; done))
@[grind →] theorem CPc.inStop_of_stopPre {p : CPc} (h : p.stopPre = true) : p.inStop = true := by
  cases p <;> first | rfl | (simp at h; done) | (rename_i x; cases x <;> first | rfl | (simp at h; done))
@[grind →] theorem CPc.inStop_of_stopLockPre {p : CPc} (h : p.stopLockPre = true) : p.inStop = true := by
  cases p <;> first | rfl | (simp at h; done) | (rename_i x; cases x <;> first | rfl | (simp at h; done))
@[grind →] theorem CPc.inStop_of_stopTPre {p : CPc} (h : p.stopTPre = true) : p.inStop = true := by
  cases p <;> first | rfl | (simp at h; done) | (rename_i x; cases x <;> first | rfl | (simp at h; done))
@[grind →] theorem CPc.holds_of_atTrigNotify {p : CPc} (h : p.atTrigNotify = true) : p.holds = true := by
  cases p <;> first | rfl | (simp at h; done) | (rename_i x; cases x <;> first | rfl | (simp at h; done))

@[simp, grind =] theorem wakeC_holds (p : CPc) : (wakeC p).holds = p.holds := by cases p <;> first | rfl | (rename_i x; cases x <;> rfl)
@[simp, grind =] theorem wakeC_stopPre (p : CPc) : (wakeC p).stopPre = p.stopPre := by cases p <;> first | rfl | (rename_i x; cases x <;> rfl)
@[simp, grind =] theorem wakeC_stopTPre (p : CPc) : (wakeC p).stopTPre = p.stopTPre := by cases p <;> first | rfl | (rename_i x; cases x <;> rfl)
@[simp, grind =] theorem wakeC_stopLockPre (p : CPc) : (wakeC p).stopLockPre = p.stopLockPre := by cases p <;> first | rfl | (rename_i x; cases x <;> rfl)
@[simp, grind =] theorem wakeC_inStop (p : CPc) : (wakeC p).inStop = p.inStop := by cases p <;> first | rfl | (rename_i x; cases x <;> rfl)
@[simp, grind =] theorem wakeC_setoffPending (p : CPc) : (wakeC p).setoffPending = p.setoffPending := by cases p <;> first | rfl | (rename_i x; cases x <;> rfl)
@[simp, grind =] theorem wakeC_quiet (p : CPc) : (wakeC p).quiet = p.quiet := by cases p <;> first | rfl | (rename_i x; cases x <;> rfl)
@[simp, grind =] theorem wakeC_inSet (p : CPc) : (wakeC p).inSet = p.inSet := by cases p <;> first | rfl | (rename_i x; cases x <;> rfl)
@[simp, grind =] theorem wakeC_atTrigNotify (p : CPc) : (wakeC p).atTrigNotify = p.atTrigNotify := by cases p <;> first | rfl | (rename_i x; cases x <;> rfl)
@[simp, grind =] theorem wakeC_inGet (p : CPc) : (wakeC p).inGet = p.inGet := by cases p <;> first | rfl | (rename_i x; cases x <;> rfl)
@[simp, grind =] theorem nextPc_holds (s : State) (w : Who) : (s.nextPc w).holds = false := by
  unfold State.nextPc afterScript; cases w <;> (repeat' split) <;> rfl
@[simp, grind =] theorem nextPc_stopPre (s : State) (w : Who) : (s.nextPc w).stopPre = false := by
  unfold State.nextPc afterScript; cases w <;> (repeat' split) <;> rfl
@[simp, grind =] theorem nextPc_stopTPre (s : State) (w : Who) : (s.nextPc w).stopTPre = false := by
  unfold State.nextPc afterScript; cases w <;> (repeat' split) <;> rfl
@[simp, grind =] theorem nextPc_stopLockPre (s : State) (w : Who) : (s.nextPc w).stopLockPre = false := by
  unfold State.nextPc afterScript; cases w <;> (repeat' split) <;> rfl
@[simp, grind =] theorem nextPc_inStop (s : State) (w : Who) : (s.nextPc w).inStop = false := by
  unfold State.nextPc afterScript; cases w <;> (repeat' split) <;> rfl
@[simp, grind =] theorem nextPc_getSleeping (s : State) (w : Who) : (s.nextPc w).getSleeping = false := by
  unfold State.nextPc afterScript; cases w <;> (repeat' split) <;> rfl
@[simp, grind =] theorem nextPc_setoffPending (s : State) (w : Who) : (s.nextPc w).setoffPending = false := by
  unfold State.nextPc afterScript; cases w <;> (repeat' split) <;> rfl
@[simp, grind =] theorem nextPc_quiet (s : State) (w : Who) : (s.nextPc w).quiet = true := by
  unfold State.nextPc afterScript; cases w <;> (repeat' split) <;> rfl
@[simp, grind =] theorem nextPc_inSet (s : State) (w : Who) : (s.nextPc w).inSet = false := by
  unfold State.nextPc afterScript; cases w <;> (repeat' split) <;> rfl
@[simp, grind =] theorem nextPc_atTrigNotify (s : State) (w : Who) : (s.nextPc w).atTrigNotify = false := by
  unfold State.nextPc afterScript; cases w <;> (repeat' split) <;> rfl
@[simp, grind =] theorem nextPc_inGet (s : State) (w : Who) : (s.nextPc w).inGet = false := by
  unfold State.nextPc afterScript; cases w <;> (repeat' split) <;> rfl
@[simp] theorem nextPc_ne_unborn (s : State) (w : Who) : (s.nextPc w = CPc.unborn) = False := by
  unfold State.nextPc afterScript; cases w <;> (repeat' split) <;> simp
@[simp] theorem nextPc_ne_bstart (s : State) (w : Who) : (s.nextPc w = CPc.bstart) = False := by
  unfold State.nextPc afterScript; cases w <;> (repeat' split) <;> simp
@[simp] theorem nextPc_ne_createB (s : State) (w : Who) : (s.nextPc w = CPc.createB) = False := by
  unfold State.nextPc afterScript; cases w <;> (repeat' split) <;> simp
@[simp] theorem nextPc_ne_startCreate (s : State) (w : Who) : (s.nextPc w = CPc.startCreate) = False := by
  unfold State.nextPc afterScript; cases w <;> (repeat' split) <;> simp
@[simp] theorem nextPc_ne_trigLock_user (s : State) (w : Who) : (s.nextPc w = CPc.trigLock .user) = False := by
  unfold State.nextPc afterScript; cases w <;> (repeat' split) <;> simp
@[simp] theorem nextPc_ne_trigLock_stop_g (s : State) (w : Who) (g : Bool) : (s.nextPc w = CPc.trigLock (.stop g)) = False := by
  unfold State.nextPc afterScript; cases w <;> (repeat' split) <;> simp
@[simp] theorem nextPc_ne_trigLock_setoff (s : State) (w : Who) : (s.nextPc w = CPc.trigLock .setoff) = False := by
  unfold State.nextPc afterScript; cases w <;> (repeat' split) <;> simp
@[simp] theorem nextPc_ne_trigNotify_user (s : State) (w : Who) : (s.nextPc w = CPc.trigNotify .user) = False := by
  unfold State.nextPc afterScript; cases w <;> (repeat' split) <;> simp
@[simp] theorem nextPc_ne_trigNotify_stop_g (s : State) (w : Who) (g : Bool) : (s.nextPc w = CPc.trigNotify (.stop g)) = False := by
  unfold State.nextPc afterScript; cases w <;> (repeat' split) <;> simp
@[simp] theorem nextPc_ne_trigNotify_setoff (s : State) (w : Who) : (s.nextPc w = CPc.trigNotify .setoff) = False := by
  unfold State.nextPc afterScript; cases w <;> (repeat' split) <;> simp
@[simp] theorem nextPc_ne_stopNotifyF_g (s : State) (w : Who) (g : Bool) : (s.nextPc w = CPc.stopNotifyF g) = False := by
  unfold State.nextPc afterScript; cases w <;> (repeat' split) <;> simp
@[simp] theorem nextPc_ne_stopJoin_g (s : State) (w : Who) (g : Bool) : (s.nextPc w = CPc.stopJoin g) = False := by
  unfold State.nextPc afterScript; cases w <;> (repeat' split) <;> simp
@[simp] theorem nextPc_ne_setLock_true (s : State) (w : Who) : (s.nextPc w = CPc.setLock true) = False := by
  unfold State.nextPc afterScript; cases w <;> (repeat' split) <;> simp
@[simp] theorem nextPc_ne_setLock_false (s : State) (w : Who) : (s.nextPc w = CPc.setLock false) = False := by
  unfold State.nextPc afterScript; cases w <;> (repeat' split) <;> simp
@[simp] theorem nextPc_ne_getLock (s : State) (w : Who) : (s.nextPc w = CPc.getLock) = False := by
  unfold State.nextPc afterScript; cases w <;> (repeat' split) <;> simp
@[simp] theorem nextPc_ne_getWait (s : State) (w : Who) : (s.nextPc w = CPc.getWait) = False := by
  unfold State.nextPc afterScript; cases w <;> (repeat' split) <;> simp
@[simp] theorem nextPc_ne_getAsleep_true (s : State) (w : Who) : (s.nextPc w = CPc.getAsleep true) = False := by
  unfold State.nextPc afterScript; cases w <;> (repeat' split) <;> simp
@[simp] theorem nextPc_ne_getAsleep_false (s : State) (w : Who) : (s.nextPc w = CPc.getAsleep false) = False := by
  unfold State.nextPc afterScript; cases w <;> (repeat' split) <;> simp
@[simp] theorem wakeC_eq_unborn (p : CPc) : (wakeC p = CPc.unborn) = (p = CPc.unborn) := by
  cases p <;> simp [wakeC]
@[simp] theorem wakeC_eq_bstart (p : CPc) : (wakeC p = CPc.bstart) = (p = CPc.bstart) := by
  cases p <;> simp [wakeC]
@[simp] theorem wakeC_eq_createB (p : CPc) : (wakeC p = CPc.createB) = (p = CPc.createB) := by
  cases p <;> simp [wakeC]
@[simp] theorem wakeC_eq_idle (p : CPc) : (wakeC p = CPc.idle) = (p = CPc.idle) := by
  cases p <;> simp [wakeC]
@[simp] theorem wakeC_eq_startCreate (p : CPc) : (wakeC p = CPc.startCreate) = (p = CPc.startCreate) := by
  cases p <;> simp [wakeC]
@[simp] theorem wakeC_eq_trigLock_user (p : CPc) : (wakeC p = CPc.trigLock .user) = (p = CPc.trigLock .user) := by
  cases p <;> simp [wakeC]
@[simp] theorem wakeC_eq_trigLock_stop_g (p : CPc) (g : Bool) : (wakeC p = CPc.trigLock (.stop g)) = (p = CPc.trigLock (.stop g)) := by
  cases p <;> simp [wakeC]
@[simp] theorem wakeC_eq_trigLock_setoff (p : CPc) : (wakeC p = CPc.trigLock .setoff) = (p = CPc.trigLock .setoff) := by
  cases p <;> simp [wakeC]
@[simp] theorem wakeC_eq_trigNotify_user (p : CPc) : (wakeC p = CPc.trigNotify .user) = (p = CPc.trigNotify .user) := by
  cases p <;> simp [wakeC]
@[simp] theorem wakeC_eq_trigNotify_stop_g (p : CPc) (g : Bool) : (wakeC p = CPc.trigNotify (.stop g)) = (p = CPc.trigNotify (.stop g)) := by
  cases p <;> simp [wakeC]
@[simp] theorem wakeC_eq_trigNotify_setoff (p : CPc) : (wakeC p = CPc.trigNotify .setoff) = (p = CPc.trigNotify .setoff) := by
  cases p <;> simp [wakeC]
@[simp] theorem wakeC_eq_stopNotifyF_g (p : CPc) (g : Bool) : (wakeC p = CPc.stopNotifyF g) = (p = CPc.stopNotifyF g) := by
  cases p <;> simp [wakeC]
@[simp] theorem wakeC_eq_stopJoin_g (p : CPc) (g : Bool) : (wakeC p = CPc.stopJoin g) = (p = CPc.stopJoin g) := by
  cases p <;> simp [wakeC]
@[simp] theorem wakeC_eq_setLock_true (p : CPc) : (wakeC p = CPc.setLock true) = (p = CPc.setLock true) := by
  cases p <;> simp [wakeC]
@[simp] theorem wakeC_eq_setLock_false (p : CPc) : (wakeC p = CPc.setLock false) = (p = CPc.setLock false) := by
  cases p <;> simp [wakeC]
@[simp] theorem wakeC_eq_getLock (p : CPc) : (wakeC p = CPc.getLock) = (p = CPc.getLock) := by
  cases p <;> simp [wakeC]
@[simp] theorem wakeC_eq_getWait (p : CPc) : (wakeC p = CPc.getWait) = (p = CPc.getWait) := by
  cases p <;> simp [wakeC]
@[simp] theorem wakeC_eq_joinB (p : CPc) : (wakeC p = CPc.joinB) = (p = CPc.joinB) := by
  cases p <;> simp [wakeC]
@[simp] theorem wakeC_eq_exit (p : CPc) : (wakeC p = CPc.exit) = (p = CPc.exit) := by
  cases p <;> simp [wakeC]
@[simp] theorem wakeC_eq_fin (p : CPc) : (wakeC p = CPc.fin) = (p = CPc.fin) := by
  cases p <;> simp [wakeC]
@[simp] theorem wakeC_eq_getAsleep_false (p : CPc) : (wakeC p = CPc.getAsleep false) = False := by
  cases p <;> simp [wakeC]

@[simp, grind =] theorem wakeC_getSleeping (p : CPc) : (wakeC p).getSleeping = (p == .getWait) := by
  cases p <;> first | rfl | (rename_i x; cases x <;> rfl)

end AcqVerif.SimConc
