import AcqVerif.SimConc.InvIds
/-!
# Invariants, part 3: trigger gating

`gated` = the software frame trigger was enabled when the run started and no call switching it off
began since.  `issued` counts the user triggers that stored `triggered = 1` in this run, `gen` the
frames generated, `ndeliv` the frames delivered.  The internal triggers of `simcam_stop` (fired after
`is_running = 0`) and of `simcam_set` (which ends the gated period) are not counted.
The step `start` is where the repair is needed: `triggered` must be clear when a run begins.
-/
namespace AcqVerif.SimConc

structure InvG (s : State) : Prop where
  gatedEnable : s.gated → s.enable
  setoff : (s.pa.setoffPending ∨ s.pb.setoffPending) → s.gated = false
  consumed : s.gated → s.running → s.gen ≤ s.issued ∧ (s.triggered → s.gen + 1 ≤ s.issued)
  delivLast : s.ndeliv ≤ s.last
  delivIssued : s.gated → s.ndeliv ≤ s.issued
  cntD : s.ndeliv = cntD s.log
  cntT : s.issued = cntT s.log

theorem invG_iff (s : State) : InvG s ↔
    ((s.gated → s.enable) ∧ ((s.pa.setoffPending ∨ s.pb.setoffPending) → s.gated = false) ∧
     (s.gated → s.running → s.gen ≤ s.issued ∧ (s.triggered → s.gen + 1 ≤ s.issued)) ∧
     s.ndeliv ≤ s.last ∧ (s.gated → s.ndeliv ≤ s.issued) ∧
     s.ndeliv = cntD s.log ∧ s.issued = cntT s.log) :=
  ⟨fun ⟨a, b, c, d, e, f, g⟩ => ⟨a, b, c, d, e, f, g⟩, fun ⟨a, b, c, d, e, f, g⟩ => ⟨a, b, c, d, e, f, g⟩⟩

theorem invG_init (A : List Op) (B : Option (List Op)) : InvG (init A B) := by
  cases B <;> cases A <;> constructor <;> simp [init, cntD, cntT]

set_option maxHeartbeats 4000000 in
theorem invG_step {s s' : State} (t : Tid) (h1 : InvR s) (h2 : InvI s) (h : InvG s)
    (hs : step s t = some s') : InvG s' := by
  obtain ⟨g1, g2, g3, g4, g5, g6, g7⟩ := h
  obtain ⟨i1, i2, i3, i4, i5, i6, i7, i8⟩ := h2
  obtain ⟨r1, r2, r3, r4, r5⟩ := h1
  rw [invG_iff]
  cases t <;> step_cases hs
  all_goals (simp only [cntD, cntT])
  all_goals (first
    | grind
    | (trace_state; fail "close"))

end AcqVerif.SimConc
