import AcqVerif.SimConc.Inv
/-!
# Invariants, part 4: no lost wake-up

A waiter sleeps (un-notified) only while its wait condition is false or a notifier is pending:
* a frame call asleep on `frame_ready`: the camera runs and no newer frame is published, or the
  streamer is about to notify (`notifyF`), or a `simcam_stop` is on its way to its
  `notify_all(frame_ready)` (`stopPre`);
* the streamer asleep on `trigger_ready` **after `is_running` was cleared**: a `simcam_stop` is on its
  way to its `notify_all(trigger_ready)` (`stopTPre`).  (While the camera runs the corresponding
  statement is false in the C as it is: `simcam_set` fires its trigger *before* it clears `enable`,
  see `example set_off_race` in `Props/C18.lean`.)
-/
namespace AcqVerif.SimConc

structure InvW (s : State) : Prop where
  waitA : s.pa = .getWait → (s.running ∧ s.fid ≤ s.last) ∨ s.pb.stopLockPre
  waitB : s.pb = .getWait → (s.running ∧ s.fid ≤ s.last) ∨ s.pa.stopLockPre
  sleepA : s.pa = .getAsleep false → (s.running ∧ s.fid ≤ s.last) ∨ s.ps = .notifyF ∨ s.pb.stopPre
  sleepB : s.pb = .getAsleep false → (s.running ∧ s.fid ≤ s.last) ∨ s.ps = .notifyF ∨ s.pa.stopPre
  stopT : s.ps.waitingT → s.running = false → (s.pa.stopTPre ∨ s.pb.stopTPre)
  atLock1 : s.ps.atLock1 → s.running = false → s.triggered ∨ s.pa.stopLockPre ∨ s.pb.stopLockPre
  woken : s.ps = .asleepT true → s.triggered
  notifier : (s.pa.atTrigNotify ∨ s.pb.atTrigNotify) → s.triggered

theorem invW_iff (s : State) : InvW s ↔
    ((s.pa = .getWait → (s.running ∧ s.fid ≤ s.last) ∨ s.pb.stopLockPre) ∧
     (s.pb = .getWait → (s.running ∧ s.fid ≤ s.last) ∨ s.pa.stopLockPre) ∧
     (s.pa = .getAsleep false → (s.running ∧ s.fid ≤ s.last) ∨ s.ps = .notifyF ∨ s.pb.stopPre) ∧
     (s.pb = .getAsleep false → (s.running ∧ s.fid ≤ s.last) ∨ s.ps = .notifyF ∨ s.pa.stopPre) ∧
     (s.ps.waitingT → s.running = false → (s.pa.stopTPre ∨ s.pb.stopTPre)) ∧
     (s.ps.atLock1 → s.running = false → s.triggered ∨ s.pa.stopLockPre ∨ s.pb.stopLockPre) ∧
     (s.ps = .asleepT true → s.triggered) ∧
     ((s.pa.atTrigNotify ∨ s.pb.atTrigNotify) → s.triggered)) :=
  ⟨fun ⟨a, b, c, d, e, f, g, h⟩ => ⟨a, b, c, d, e, f, g, h⟩, fun ⟨a, b, c, d, e, f, g, h⟩ => ⟨a, b, c, d, e, f, g, h⟩⟩

theorem invW_init (A : List Op) (B : Option (List Op)) : InvW (init A B) := by
  cases B <;> cases A <;> constructor <;> simp [init]

set_option maxHeartbeats 4000000 in
theorem invW_step {s s' : State} (t : Tid) (h0 : InvS s) (h1 : InvR s) (h2 : InvL s) (h : InvW s)
    (hs : step s t = some s') : InvW s' := by
  obtain ⟨w1, w2, w3, w4, w5, w6, w7, w8⟩ := h
  obtain ⟨la, lb, lc⟩ := h2
  obtain ⟨s1, s2, s3⟩ := h0
  obtain ⟨r1, r2, r3, r4, r5⟩ := h1
  rw [invW_iff]
  cases t <;> step_cases hs
  all_goals (first
    | grind
    | (simp; done)
    | (simp; grind)
    | (simp; trace_state; fail "close"))

end AcqVerif.SimConc
