import AcqVerif.SimConc.Classify
import AcqVerif.SimConc.Log
/-!
# Invariants of the simulated-camera model, part 1: structure, lock, life cycle

Every group is a `structure … : Prop`; `*_init` shows it for `init A B`, `*_step` shows that any
step of any thread preserves it (given the groups it depends on).  The proofs all have the same
shape: unfold `step` completely in the hypothesis, split every `if`/`match` there (one flat record
per transition), substitute, and let `simp` evaluate the classifiers of `Classify.lean`.
-/
namespace AcqVerif.SimConc

/-- unfold `step s t = some s'` into one goal per transition with `s'` a flat record -/
macro "step_cases " hs:ident : tactic => `(tactic| (
  dsimp only [step, cstep, sstep, beginOp, getLoop, afterLock1, loopTop, stopBegin, wakeT,
    wakeF, State.ret, State.setPc, State.setScript, State.pc, State.script, Who.tid, Who.other] at $hs:ident
  repeat' split at $hs:ident
  all_goals (first | (cases $hs:ident; done) | skip)
  all_goals (simp only [Option.some.injEq] at $hs:ident; subst $hs:ident)))

/-- finishing tactic -/
macro "close_inv " s:ident : tactic => `(tactic| (
  first
  | grind
  | (simp_all; done)
  | (cases hpb : State.pb $s <;> simp_all <;> omega)
  | (cases hpa : State.pa $s <;> simp_all <;> omega)
  | (simp_all; trace_state; fail "close_inv")))

/-- structure of the harness threads -/
structure InvS (s : State) : Prop where
  create : s.pa = .createB → s.pb = .unborn
  unborn : s.pb = .unborn → s.pa = .createB
  oneStart : ¬(s.pa = .startCreate ∧ s.pb = .startCreate)

/-- life cycle of the streamer thread and of a run -/
structure InvR (s : State) : Prop where
  alive : s.ps.alive → s.live ∧ s.hal = .R
  atStartA : s.pa = .startCreate →
    s.ps.alive = false ∧ s.fid = 0 ∧ s.gen = 0 ∧ s.hal ≠ .R ∧ (s.pb.quiet ∨ s.pb.inSet)
  atStartB : s.pb = .startCreate →
    s.ps.alive = false ∧ s.fid = 0 ∧ s.gen = 0 ∧ s.hal ≠ .R ∧ (s.pa.quiet ∨ s.pa.inSet)
  runs : s.running → 0 < s.nruns
  stopNotRunning : (s.pa.inStop ∨ s.pb.inStop) → s.running = false

/-- the lock is held exactly at the parking points inside a critical section -/
structure InvL (s : State) : Prop where
  a : s.owner = some .a ↔ s.pa.holds
  b : s.owner = some .b ↔ s.pb.holds
  s : s.owner = some .s ↔ s.ps.holds

theorem invS_init (A : List Op) (B : Option (List Op)) : InvS (init A B) := by
  cases B <;> cases A <;> constructor <;> simp [init]

theorem invR_init (A : List Op) (B : Option (List Op)) : InvR (init A B) := by
  cases B <;> cases A <;> constructor <;> simp [init]

theorem invL_init (A : List Op) (B : Option (List Op)) : InvL (init A B) := by
  cases B <;> cases A <;> constructor <;> simp [init]

theorem invS_step {s s' : State} (t : Tid) (h : InvS s) (hs : step s t = some s') : InvS s' := by
  obtain ⟨h1, h2, h3⟩ := h
  cases t <;> step_cases hs
  all_goals (constructor <;> close_inv s)

set_option maxHeartbeats 4000000 in
theorem invR_step {s s' : State} (t : Tid) (h0 : InvS s) (h : InvR s) (hs : step s t = some s') : InvR s' := by
  obtain ⟨r1, r2, r3, r4, r5⟩ := h
  obtain ⟨h1, h2, h3⟩ := h0
  cases t <;> step_cases hs
  all_goals (constructor <;> close_inv s)

set_option maxHeartbeats 4000000 in
theorem invL_step {s s' : State} (t : Tid) (h0 : InvS s) (h1 : InvR s) (h : InvL s) (hs : step s t = some s') : InvL s' := by
  obtain ⟨ha, hb, hc⟩ := h
  obtain ⟨r1, r2, r3, r4, r5⟩ := h1
  obtain ⟨h1, h2, h3⟩ := h0
  cases t <;> step_cases hs
  all_goals (constructor <;> close_inv s)

end AcqVerif.SimConc
