import AcqVerif.SimConc.InvGate
import AcqVerif.SimConc.InvWake
/-!
# The invariant of the simulated-camera model, reachability, and the stop measure
-/
namespace AcqVerif.SimConc

structure Inv (s : State) : Prop where
  str : InvS s
  run : InvR s
  lock : InvL s
  ids : InvI s
  gate : InvG s
  wake : InvW s

theorem inv_init (A : List Op) (B : Option (List Op)) : Inv (init A B) :=
  ⟨invS_init A B, invR_init A B, invL_init A B, invI_init A B, invG_init A B, invW_init A B⟩

theorem inv_step {s s' : State} (t : Tid) (h : Inv s) (hs : step s t = some s') : Inv s' :=
  ⟨invS_step t h.str hs, invR_step t h.str h.run hs, invL_step t h.str h.run h.lock hs,
   invI_step t h.run h.ids hs, invG_step t h.run h.ids h.gate hs,
   invW_step t h.str h.run h.lock h.wake hs⟩

/-- the invariant holds in every state reachable under any schedule, for any caller scripts -/
theorem inv_reach {A : List Op} {B : Option (List Op)} {s : State} (h : Reach (init A B) s) : Inv s := by
  induction h with
  | refl => exact inv_init A B
  | step t _ hs ih => exact inv_step t ih hs

/-- run a schedule (list of thread choices); `none` if a chosen thread is not enabled -/
def runSched (s : State) : List Tid → Option State
  | [] => some s
  | t :: r => (step s t).bind fun s' => runSched s' r

theorem reach_trans {s0 s1 s2 : State} (h1 : Reach s0 s1) (h2 : Reach s1 s2) : Reach s0 s2 := by
  induction h2 with
  | refl => exact h1
  | step t _ hs ih => exact .step t ih hs

theorem reach_of_runSched {s0 s : State} {l : List Tid} (h : runSched s0 l = some s) : Reach s0 s := by
  induction l generalizing s0 with
  | nil => simp [runSched] at h; subst h; exact .refl
  | cons t r ih =>
    simp only [runSched] at h
    cases hst : step s0 t with
    | none => simp [hst] at h
    | some s1 =>
      simp [hst] at h
      exact reach_trans (.step t .refl hst) (ih h)

/-- how far the streamer is from the end of its thread function once `is_running` is clear -/
def mu : SPc → Nat
  | .none => 0
  | .fin => 0
  | .notifyF => 1
  | .start => 1
  | .lock2 => 2
  | .sleep => 3
  | .asleepT true => 4
  | .asleepT false => 5
  | .waitT => 6
  | .lock1 => 7

/-- with `is_running` clear every step of the streamer brings it closer to its end -/
theorem streamer_measure {s s' : State} (h : Inv s) (hr : s.running = false) (hs : step s .s = some s') :
    mu s'.ps < mu s.ps ∧ s'.running = false := by
  have w7 := h.wake.woken
  step_cases hs
  all_goals (simp only [mu])
  all_goals (first | grind [mu] | (simp_all [mu]; done) | (trace_state; fail "close"))

/-- a step of a caller never moves the streamer backwards: it leaves the streamer's parking point
alone, or wakes it, or (the end of `start`) creates a new streamer -/
theorem caller_step_streamer {s s' : State} (w : Who) (hs : cstep s w = some s') :
    s'.ps = s.ps ∨ (∃ n, s.ps = .asleepT n ∧ s'.ps = .asleepT true) ∨
      (s.pc w = .startCreate ∧ s'.ps = .start) := by
  cases w
  all_goals (
    dsimp only [cstep, beginOp, getLoop, stopBegin, wakeT, wakeF, State.ret, State.setPc,
      State.setScript, State.pc, State.script, Who.tid, Who.other] at hs
    repeat' split at hs
    all_goals (first | (cases hs; done) | skip)
    all_goals (simp only [Option.some.injEq] at hs; subst hs)
    all_goals (first | grind | (simp_all [State.pc]; done) | (trace_state; fail "close")))

/-- a thread the streamer may be waiting for: the holder of the lock -/
def LockHolderEnabled (s : State) : Prop := ∃ t, s.owner = some t ∧ enabled s t = true

theorem enabled_a_of_holds {s : State} (h : s.pa.holds = true) : enabled s .a = true := by
  cases hp : s.pa <;> simp [hp] at h
  · rename_i k; cases k <;> simp [enabled, step, cstep, State.pc, hp]
  · simp [enabled, step, cstep, State.pc, hp]

theorem enabled_b_of_holds {s : State} (h : s.pb.holds = true) : enabled s .b = true := by
  cases hp : s.pb <;> simp [hp] at h
  · rename_i k; cases k <;> simp [enabled, step, cstep, State.pc, hp]
  · simp [enabled, step, cstep, State.pc, hp]

theorem enabled_s_of_holds {s : State} (h : s.ps.holds = true) : enabled s .s = true := by
  cases hp : s.ps <;> simp [hp] at h <;> simp [enabled, step, sstep, hp]

/-- whoever holds the lock is parked inside its critical section and can always take a step -/
theorem lockHolderEnabled_of_owner {s : State} (h : InvL s) {t : Tid} (ho : s.owner = some t) :
    LockHolderEnabled s := by
  obtain ⟨la, lb, lc⟩ := h
  refine ⟨t, ho, ?_⟩
  cases t
  · exact enabled_a_of_holds (la.mp ho)
  · exact enabled_b_of_holds (lb.mp ho)
  · exact enabled_s_of_holds (lc.mp ho)

/-- While a `simcam_stop` is in progress the streamer is never stuck: it is enabled, or it waits for
the lock and the holder of the lock is enabled, or it sleeps on `trigger_ready` and a stopping caller
has its `notify_all(trigger_ready)` still ahead and is itself enabled or waits only for the lock
whose holder is enabled. -/
theorem streamer_not_stuck {s : State} (h : Inv s) (hstop : s.pa.inStop ∨ s.pb.inStop) (ha : s.ps.alive) :
    enabled s .s = true ∨ LockHolderEnabled s ∨
      (s.ps = .asleepT false ∧
        ((s.pa.stopTPre ∧ (enabled s .a = true ∨ LockHolderEnabled s)) ∨
         (s.pb.stopTPre ∧ (enabled s .b = true ∨ LockHolderEnabled s)))) := by
  have hl := h.lock
  have hr := h.run.stopNotRunning hstop
  have w5 := h.wake.stopT
  cases ho : s.owner with
  | some t => exact .inr (.inl (lockHolderEnabled_of_owner hl ho))
  | none =>
    cases hp : s.ps with
    | none => simp [hp] at ha
    | fin => simp [hp] at ha
    | asleepT n =>
      cases n with
      | true => left; simp [enabled, step, sstep, hp, ho]
      | false =>
        right; right
        refine ⟨rfl, ?_⟩
        have := w5 (by simp [hp]) hr
        rcases this with hA | hB
        · left; refine ⟨hA, .inl ?_⟩
          cases hpa : s.pa <;> simp [hpa] at hA
          all_goals (rename_i k; cases k <;> simp at hA <;> simp [enabled, step, cstep, State.pc, hpa, ho])
        · right; refine ⟨hB, .inl ?_⟩
          cases hpb : s.pb <;> simp [hpb] at hB
          all_goals (rename_i k; cases k <;> simp at hB <;> simp [enabled, step, cstep, State.pc, hpb, ho])
    | start => left; simp [enabled, step, sstep, hp]
    | lock1 => left; simp [enabled, step, sstep, hp, ho]
    | waitT => left; simp [enabled, step, sstep, hp]
    | sleep => left; simp [enabled, step, sstep, hp]
    | lock2 => left; simp [enabled, step, sstep, hp, ho]
    | notifyF => left; simp [enabled, step, sstep, hp]

end AcqVerif.SimConc
