/-! `nth`: total list indexing with a default, and its interaction with `set` / `++` -/
namespace AcqVerif

def nth [Inhabited α] (l : List α) (i : Nat) : α := l.getD i default

variable {α : Type} [Inhabited α]

theorem nth_eq_getElem (l : List α) (i : Nat) (h : i < l.length) : nth l i = l[i] := by
  simp [nth, List.getD, h]

theorem nth_set_eq (l : List α) (i : Nat) (v : α) (h : i < l.length) : nth (l.set i v) i = v := by
  simp [nth, List.getD, h]

theorem nth_set_ne (l : List α) (i j : Nat) (v : α) (h : i ≠ j) : nth (l.set i v) j = nth l j := by
  simp [nth, List.getD, List.getElem?_set, h]

theorem nth_append_lt (l m : List α) (i : Nat) (h : i < l.length) : nth (l ++ m) i = nth l i := by
  simp [nth, List.getD, List.getElem?_append_left h]

theorem nth_append_length (l : List α) (v : α) : nth (l ++ [v]) l.length = v := by
  simp [nth, List.getD]

theorem nth_map_const (l : List α) (v : α) (i : Nat) (h : i < l.length) : nth (l.map fun _ => v) i = v := by
  simp [nth, List.getD, h]

theorem getElem?_eq_some_nth (l : List α) (i : Nat) (h : i < l.length) : l[i]? = some (nth l i) := by
  simp [nth, List.getD, h]

theorem nth_mem (l : List α) (i : Nat) (h : i < l.length) : nth l i ∈ l := by
  rw [nth_eq_getElem l i h]; exact List.getElem_mem h

theorem exists_nth_of_mem (l : List α) (x : α) (h : x ∈ l) : ∃ i, i < l.length ∧ nth l i = x := by
  obtain ⟨i, hi, e⟩ := List.getElem_of_mem h
  exact ⟨i, hi, by rw [nth_eq_getElem l i hi, e]⟩

end AcqVerif
