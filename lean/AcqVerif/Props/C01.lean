import AcqVerif.Channel.InvStep
/-!
# C01 — the channel delivers every committed byte to each reader exactly once, in order

All theorems quantify over **every state reachable from a fresh channel of any
capacity by any well-formed history** (`Reachable cap s g`): any sequence of write
sizes (committed, aborted or refused), up to any number of readers joining at any
time, any per-read consumed counts, any accept/refuse toggles, in any interleaving
of writer and reader operations.  The usage rules (`Op.wf`) are the API's: one
writer (a map may replace a write that was never ended, an unmap may find nothing mapped, an abort ends a
mapped write); a reader maps only when unmapped.

`g.mem o = some x` reads "buffer byte `o` currently holds byte number `x` of the
committed stream"; `nth s.idx i` is the stream position of reader `i`'s next
unconsumed byte; `nth g.seen i` is the list of byte contents reader `i` has
consumed so far (appended to at each unmap, from what memory held at that time).
-/
namespace AcqVerif.C01
open AcqVerif AcqVerif.Channel

variable {cap : Nat} {s : Sys} {g : Ghost}

/-- **C01.1 / C01.5 / C01.6** — what `channel_read_map` gives a registered, unmapped reader:
status stays `Channel_Ok`; an empty region means the reader is drained (`idx = total`);
a non-empty region lies inside the buffer, inside the committed data, and its bytes are
exactly the next bytes of the stream for this reader, in order. -/
theorem read_map_spec (hr : Reachable cap s g) (i : Nat) (hwf : (Op.rmap i).wf s = true) :
    ∃ beg len, (step s (.rmap i)).2 = .slice beg len 0 ∧
      (len = 0 → nth s.idx i = s.total) ∧
      (∀ j, j < len → g.mem (beg + j) = some (nth s.idx i + j)) ∧
      nth s.idx i + len ≤ s.total ∧ beg + len ≤ cap ∧
      nth (step s (.rmap i)).1.idx i = nth s.idx i := by
  have h := hr.inv
  obtain ⟨hi, hget, hun⟩ := rmap_wf h hwf
  obtain ⟨_, h0, hpos, hst⟩ := h.read_map_at i hi hun
  have hb := h.read_map_bytes i hi hun
  simp only [step, hget]
  rw [readMap_registered _ _ i (h.rd i hi).1.id]
  refine ⟨(readMapAt s.c (nth s.rds i) i).2.2.beg, (readMapAt s.c (nth s.rds i) i).2.2.len, ?_, ?_, hb, ?_, ?_, trivial⟩
  · rw [hst]
  · intro e; exact (h0 e).1
  · by_cases e : (readMapAt s.c (nth s.rds i) i).2.2.len = 0
    · rw [e, (h0 e).1]; omega
    · exact (hpos (by omega)).2.2.2.1
  · rw [← hr.cap]
    by_cases e : (readMapAt s.c (nth s.rds i) i).2.2.len = 0
    · have := (h.read_map_at i hi hun)
      rw [e]
      -- an empty region is reported with `beg` inside the buffer too
      have h1 := h.hm; have h2 := h.mc; have h3 := h.hc
      have hrel := (h.rd i hi).1.hold
      have heq : readMapAt s.c (nth s.rds i) i = readMapCore s.c (nth s.rds i) i (nth s.c.holds i) := rfl
      rw [heq]
      rcases readMapCore_cases s.c (nth s.rds i) i s.total (nth s.idx i) (nth s.c.holds i) hun hrel h.hm with
        ⟨e1, e2, e'⟩ | ⟨e1, e2, e'⟩ | ⟨e1, e2, e3, e'⟩ | ⟨e1, e2, e3, e'⟩ | ⟨e1, e2, e3, e'⟩ <;>
      (rw [e']; simp only; unfold HoldRel at hrel; omega)
    · exact (hpos (by omega)).2.2.2.2

/-- **C01.4** — a joining reader starts at a *write boundary no later than the join*: the stream
position `j = total − head` it is assigned is one of the recorded write boundaries and is `≤ total`;
its first region (if any) holds exactly stream bytes `j, j+1, …`. -/
theorem join_spec (hr : Reachable cap s g) :
    ∃ beg len, (step s .join).2 = .slice beg len 0 ∧
      (s.total - s.c.head) ∈ s.bounds ∧ s.total - s.c.head ≤ s.total ∧
      nth (step s .join).1.join s.rds.length = s.total - s.c.head ∧
      nth (step s .join).1.idx s.rds.length = s.total - s.c.head ∧
      (len = 0 → s.total - s.c.head = s.total) ∧
      (∀ k, k < len → g.mem (beg + k) = some (s.total - s.c.head + k)) ∧
      s.total - s.c.head + len ≤ s.total := by
  have h := hr.inv
  have hj := h.joined
  have hr0 : nth s.joined.rds s.c.holds.length = { id := s.c.holds.length + 1 } := by
    have := nth_append_length s.rds ({ id := s.c.holds.length + 1 } : Rd)
    rw [h.l_rds] at this; exact this
  have hix : nth s.joined.idx s.c.holds.length = s.total - s.c.head := by
    have := nth_append_length s.idx (s.total - s.c.head)
    rw [h.l_idx] at this; exact this
  have hlen : s.c.holds.length < s.joined.c.holds.length := by simp [Sys.joined]
  have hun : (nth s.joined.rds s.c.holds.length).mapped = false := by rw [hr0]
  obtain ⟨_, h0, hpos, hst⟩ := hj.read_map_at s.c.holds.length hlen hun
  have hb := hj.read_map_bytes s.c.holds.length hlen hun
  rw [hr0] at h0 hpos hst hb
  rw [hix] at h0 hpos hb
  have hjj : nth (s.join ++ [s.total - s.c.head]) s.rds.length = s.total - s.c.head := by
    have := nth_append_length s.join (s.total - s.c.head); rw [h.l_join, ← h.l_rds] at this; exact this
  have hji : nth (s.idx ++ [s.total - s.c.head]) s.rds.length = s.total - s.c.head := by
    have := nth_append_length s.idx (s.total - s.c.head); rw [h.l_idx, ← h.l_rds] at this; exact this
  simp only [step, readMap, readerInit, Nat.lt_irrefl, ↓reduceIte, Nat.add_sub_cancel]
  refine ⟨_, _, ?_, h.b_lap, Nat.sub_le _ _, hjj, hji, fun e => (h0 e).1, hb, ?_⟩
  · simp only [Sys.joined] at hst; rw [hst]; rfl
  · by_cases e : (readMapAt s.joined.c { id := s.c.holds.length + 1 } s.c.holds.length).2.2.len = 0
    · have := Nat.sub_le s.total s.c.head
      show s.total - s.c.head + (readMapAt s.joined.c { id := s.c.holds.length + 1 } s.c.holds.length).2.2.len ≤ s.total
      omega
    · exact (hpos (by omega)).2.2.2.1

/-- **C01.2** — only reader `i`'s own unmap moves its stream position, and it moves it by exactly the
number of bytes consumed (`min k length-of-the-mapped-region`). -/
theorem unmap_advances (hr : Reachable cap s g) (i k : Nat) (hi : i < s.rds.length) :
    nth (step s (.runmap i k)).1.idx i =
      nth s.idx i + min (if (nth s.rds i).mapped then availBytes (nth s.rds i) (nth s.c.holds i) s.c.high else 0) k := by
  have h := hr.inv
  simp only [step, getElem?_eq_some_nth _ _ hi]
  exact nth_set_eq _ _ _ (by rw [h.l_idx, ← h.l_rds]; exact hi)

theorem idx_unchanged_by_others (hr : Reachable cap s g) (op : Op) (i : Nat) (hi : i < s.rds.length)
    (hne : ∀ k, op ≠ .runmap i k) : nth (step s op).1.idx i = nth s.idx i := by
  have h := hr.inv
  have hi' : i < s.idx.length := by rw [h.l_idx, ← h.l_rds]; exact hi
  cases op with
  | wmap n => simp only [step]; split <;> rfl
  | wcommit => simp only [step]; split <;> rfl
  | wabort => rfl
  | accept b => rfl
  | join => simp only [step]; exact nth_append_lt _ _ _ hi'
  | rmap i' => simp only [step]; split <;> rfl
  | runmap i' k =>
    simp only [step]
    split
    · rfl
    · simp only
      have : i' ≠ i := by intro e; subst e; exact hne k rfl
      exact nth_set_ne _ _ _ _ this

/-- **C01.3** — in every reachable state the bytes reader `i` has consumed so far are *exactly* the
stream positions `join i, join i + 1, …, idx i − 1`, in that order: nothing lost, duplicated,
reordered or altered; `join i` is a write boundary and `idx i ≤ total`. -/
theorem consumed_is_stream (hr : Reachable cap s g) (i : Nat) (hi : i < s.rds.length) :
    nth g.seen i = (List.range' (nth s.join i) (nth s.idx i - nth s.join i)).map some ∧
    nth s.join i ≤ nth s.idx i ∧ nth s.idx i ≤ s.total ∧ nth s.join i ∈ s.bounds := by
  have h := hr.inv
  obtain ⟨ri, hb⟩ := h.rd i (by rw [← h.l_rds]; exact hi)
  refine ⟨ri.seen_ok, ri.jle, ?_, hb⟩
  have := ri.hold; unfold HoldRel at this; omega

/-- every recorded write boundary is a stream position at which a committed write ended
(`≤ total`), and `bounds` only ever grows by commits (definition of `step`). -/
theorem bounds_le_total (hr : Reachable cap s g) : ∀ b ∈ s.bounds, b ≤ s.total := hr.inv.b_le

/-- **C01.6** — in well-formed histories a reader's status never leaves `Channel_Ok`. -/
theorem status_stays_ok (hr : Reachable cap s g) (i : Nat) (hi : i < s.rds.length) :
    (nth s.rds i).status = 0 :=
  (hr.inv.rd i (by rw [← hr.inv.l_rds]; exact hi)).1.st

/-! ## Non-vacuity: concrete, non-trivial reachable states -/

/-- a history with a wrap, a lap change and partial consumption (cap 16, two readers) -/
def demo : List Op :=
  [.join, .wmap 10, .wcommit, .rmap 0, .runmap 0 10, .join, .runmap 1 10, .wmap 10, .wcommit, .rmap 0, .runmap 0 3,
   .rmap 1, .wmap 4, .wabort, .accept false, .wmap 2, .accept true, .runmap 1 99]

example : wfRun (Sys.init 16) demo = true := by decide
example : Reachable 16 (run (Sys.init 16) demo) (grun (Sys.init 16) {} demo) := ⟨⟨demo, by decide, rfl, rfl⟩⟩
-- the state is non-trivial: the writer has wrapped, reader 0 is mid-region, reader 1 is drained
example : (run (Sys.init 16) demo).c.cycle = 1 ∧ (run (Sys.init 16) demo).idx = [13, 20] ∧
    (run (Sys.init 16) demo).total = 20 := by decide
-- `rmap 1` is well-formed there (hypothesis of `read_map_spec`) and yields an empty region: drained
example : (Op.rmap 1).wf (run (Sys.init 16) demo) = true := by decide
example : (step (run (Sys.init 16) demo) (.rmap 1)).2 = .slice 10 0 0 := by decide

end AcqVerif.C01
