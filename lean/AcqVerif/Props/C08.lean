import AcqVerif.Runtime.Clean
/-!
# C08 — devices see a disciplined life cycle under any sequence of API calls

Model: M1 (`AcqVerif.Runtime`) covers the data-path part of the life cycle — camera and storage start/stop, who calls
the driver in which HAL state, the worker flags and `acquire_get_state` — for every client program over
start / stop / abort / map / unmap / state / configure(same devices) and every schedule.
Open/close on identifier change, `acquire_shutdown` and device switching are not in M1: for those the check relies on
the recording mock driver's life-cycle oracles over generated API programs (DESIGN.md, C08: partial), and on C11's
proved HAL automaton for what a single device sees.
-/
namespace AcqVerif.C08
open AcqVerif.Runtime

/-- (1) **stopped exactly once per start**: in every reachable state the driver has seen one more `start` than `stop`
exactly while the HAL says Running, and equally many otherwise — whichever of the source thread's wind-down, the
failure path of `camera_get_frame` and `acquire_start`'s error path stops the camera. -/
theorem camera_stopped_once_per_start (rt : RT) (h : MReach rt) (s : Nat) :
    (getS rt s).cam.drvStarts = (getS rt s).cam.drvStops + (if (getS rt s).cam.state = .running then 1 else 0) :=
  (CamOk.micro rt h s).count

/-- (2) **started only when armed**: the client reaches the driver's `start` only with an Armed camera -/
theorem camera_started_only_when_armed (rt : RT) (h : MReach rt) (s : Nat) :
    stage rt.client.pc s = 7 → (getS rt s).cam.state = .armed :=
  (CamOk.micro rt h s).armed_at_start

/-- (3) **used only while running**: the driver's `get_frame` and both callers of its `stop` find the camera Running -/
theorem camera_used_only_while_running (rt : RT) (h : MReach rt) (s : Nat) :
    ((getS rt s).src.pc = .getFrame → (getS rt s).cam.state = .running) ∧
    ((getS rt s).src.pc = .camStop ∨ (getS rt s).src.pc = .failStop → (getS rt s).cam.state = .running) ∧
    (rt.client.pc = .errCamStop s → (getS rt s).cam.state = .running) :=
  let c := CamOk.micro rt h s
  ⟨c.frame_running, c.stop_running, c.err_stop_running⟩

/-- (4) a Running device belongs to a live worker: a camera to a source whose flag is set, a storage to a sink whose flag
is set (or to the `acquire_start` that is just creating that sink); a sink on its way out has stopped its storage. -/
theorem running_device_has_a_worker (rt : RT) (h : MReach rt) (s : Nat) :
    ((getS rt s).cam.state = .running → (getS rt s).srcRunning = true) ∧
    ((getS rt s).sto.state = .running → (getS rt s).snkRunning = true ∨ stage rt.client.pc s = 2 ∨ stage rt.client.pc s = 3) ∧
    (snkLeaving (getS rt s).snk.pc = true → (getS rt s).sto.state ≠ .running ∨ (1 ≤ stage rt.client.pc s ∧ stage rt.client.pc s ≤ 4)) :=
  let t := TInvAll.micro rt h s
  ⟨t.cam_running, t.sto_running, t.snk_leaving⟩

/-- (5) **Running is reported only while an acquisition's workers are alive** -/
theorem running_only_while_workers_alive (rt : RT) (h : MReach rt) (hs : (getState rt).state = .running) :
    ∃ s, (getS rt s).valid = true ∧ ¬ AllDone (getS rt s) :=
  running_means_a_worker_is_alive rt h hs

/-- (5') … and not once they have all exited -/
theorem not_running_after_workers_exit (rt : RT) (h : MReach rt) (hq : quiet rt.client.pc = true)
    (hd : ∀ s, AllDone (getS rt s)) : (getState rt).state ≠ .running :=
  not_running_once_workers_exited rt h hq hd

/-- (6) a stream that is not configured never gets a worker or a flag -/
theorem unconfigured_stream_untouched (rt : RT) (h : MReach rt) (s : Nat) (hv : (getS rt s).valid = false) :
    AllDone (getS rt s) ∧ (getS rt s).srcRunning = false ∧ (getS rt s).fltRunning = false ∧ (getS rt s).snkRunning = false :=
  (TInvAll.micro rt h s).invalid hv

/-- (7) a second `acquire_start` while Running is refused and changes nothing but the call's result -/
theorem start_while_running_refused : ∀ a ∈ clientBase, a.name = "cl.start.refused" →
    ∀ rt, a.guard rt = true → (getState rt).state = .running ∧ (a.upd rt).streams = rt.streams ∧ (a.upd rt).state = .running := by
  intro a ha hn rt hg
  unfold clientBase at ha
  each_action ha <;> simp at hn
  simp only [Bool.and_eq_true, decide_eq_true_eq] at hg
  exact ⟨hg.2, rfl, hg.2⟩

example : MReach (initRT 400 [some { F := 104, n := 4 }, some { F := 112, n := 2 }] [.start, .start, .state, .stop, .stop]) := .init _ _ _

end AcqVerif.C08
