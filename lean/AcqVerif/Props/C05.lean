import AcqVerif.Frames.Model
import AcqVerif.Channel.Align
/-!
# C05 — frame packets are whole, exactly chained, 8-byte aligned frames

Two layers.
* **Sizes** (`Frames/Model.lean`, constants and rounding expressions regenerated from the source on
  every run): the size a frame occupies — which `source.c`/`filter.c` use both as the size of the
  write and as the header's `bytes_of_frame` — is the header size plus the image bytes rounded up to
  a multiple of 8, for every shape and sample type.
* **Channel** (`Channel/Align.lean`): for every history in which writes are frames (multiples of 8)
  and readers consume up to frame boundaries, every region handed to a reader starts on an 8-byte
  boundary, starts at a write boundary and ends at a write boundary: it is a back-to-back sequence
  of whole frames, and stepping by the size fields lands exactly on the next header or the end.
-/
namespace AcqVerif.C05
open AcqVerif AcqVerif.Channel AcqVerif.Frames AcqVerif.Generated.FrameConst

/-- **C05.1** — for every `strides.planes` value and every sample type: the frame size is a multiple of 8,
at least header + image bytes, and less than that + 8 (the smallest such multiple). -/
theorem frame_size (planes type : Nat) :
    frameBytes planes type % 8 = 0 ∧
    hdr + imageBytes planes type ≤ frameBytes planes type ∧
    frameBytes planes type < hdr + imageBytes planes type + 8 := by
  unfold frameBytes sourceAlign
  omega

theorem accumulator_size (planes : Nat) :
    accumulatorBytes planes % 8 = 0 ∧
    hdr + imageBytes planes 4 ≤ accumulatorBytes planes ∧
    accumulatorBytes planes < hdr + imageBytes planes 4 + 8 := by
  unfold accumulatorBytes filterAlign
  omega

/-- the header itself is a multiple of 8 bytes long, the size field is its first member and the pixel
data follows it immediately (extracted layout) -/
theorem header_layout : hdr % 8 = 0 ∧ sizeFieldOff = 0 ∧ dataOff = hdr := by decide

/-- every sample type of the enum has a positive size; values outside the enum have size 0 -/
theorem bytes_of_type_table :
    (∀ t, t < sampleTypeCount → 0 < bytesOfType t) ∧ (∀ t, sampleTypeCount ≤ t → bytesOfType t = 0) := by
  refine ⟨?_, ?_⟩
  · intro t ht
    have : t = 0 ∨ t = 1 ∨ t = 2 ∨ t = 3 ∨ t = 4 ∨ t = 5 ∨ t = 6 ∨ t = 7 := by
      simp only [sampleTypeCount] at ht; omega
    rcases this with e | e | e | e | e | e | e | e <;> subst e <;> decide
  · intro t ht
    simp only [sampleTypeCount] at ht
    unfold bytesOfType bytesOfTypeTable
    have : t = 8 ∨ t = 9 ∨ t = 10 ∨ 11 ≤ t := by omega
    rcases this with e | e | e | e
    · subst e; rfl
    · subst e; rfl
    · subst e; rfl
    · simp [List.getD, List.getElem?_eq_none (show [1, 2, 1, 2, 4, 2, 2, 2, 0, 0, 0].length ≤ t from e)]

/-- **C05.2** — for every history that obeys the usage rules, whose writes are multiples of 8 and whose readers
consume their whole region or a multiple of 8 bytes: every cursor of the channel is a multiple of 8, so every
region handed to the writer and to any reader starts on an 8-byte boundary of the buffer. -/
theorem regions_8_aligned (cap : Nat) (ops : List Op) (h1 : wfRun (Sys.init cap) ops = true)
    (h2 : alignedRun (Sys.init cap) ops = true) :
    let s := run (Sys.init cap) ops
    s.c.head % 8 = 0 ∧ (s.pending = true → s.wbeg % 8 = 0) ∧
    ∀ i, (nth s.c.holds i).pos % 8 = 0 ∧ mappedLen s i % 8 = 0 := by
  -- `boundaryRun` is not needed for alignment: re-run the induction with the two hypotheses only
  have key : ∀ (ops : List Op) (s : Sys) (g : Ghost), Reachable cap s g → A8 s → wfRun s ops = true →
      alignedRun s ops = true → A8 (run s ops) ∧ Reachable cap (run s ops) (grun s g ops) := by
    intro ops
    induction ops with
    | nil => intro s g hr ha _ _; exact ⟨ha, hr⟩
    | cons op ops ih =>
      intro s g hr ha h1 h2
      simp only [wfRun, alignedRun, Bool.and_eq_true] at h1 h2
      exact ih _ _ (hr.step op h1.1) (ha.step hr.inv op h1.1 h2.1) h1.2 h2.2
  obtain ⟨ha, hr⟩ := key ops _ _ (Reachable.init cap) (A8.init cap) h1 h2
  refine ⟨ha.head, ?_, ?_⟩
  · intro hp; rw [(hr.inv.pend hp).1]; exact ha.head
  · intro i
    refine ⟨ha.hold_nth i, ?_⟩
    unfold mappedLen
    split
    · exact availBytes_mod8 _ _ _ (ha.rd_nth i) (ha.hold_nth i) ha.high
    · rfl

/-- **C05.3** — if in addition every reader consumes up to a write boundary (a whole number of frames —
what the sink does by stepping through `bytes_of_frame`, and what the monitoring client is required to do),
then every reader's position is a write boundary in every reachable state, and every region `read_map`
hands out ends at a write boundary: the region is exactly a concatenation of whole committed writes. -/
theorem regions_are_whole_writes (cap : Nat) (ops : List Op) (h1 : wfRun (Sys.init cap) ops = true)
    (h2 : alignedRun (Sys.init cap) ops = true) (h3 : boundaryRun (Sys.init cap) ops = true) :
    let s := run (Sys.init cap) ops
    (∀ i, i < s.rds.length → nth s.idx i ∈ s.bounds) ∧
    (∀ i, (Op.rmap i).wf s = true → nth s.idx i + readLen s i ∈ s.bounds) := by
  have hb0 : BndI (Sys.init cap) := by intro i hi; simp [Sys.init] at hi
  obtain ⟨_, hb, hr⟩ := frame_invariants (Reachable.init cap) (A8.init cap) hb0 ops h1 h2 h3
  refine ⟨?_, ?_⟩
  · intro i hi; exact hb i (by rw [hr.inv.l_idx, ← hr.inv.l_rds]; exact hi)
  · intro i hwf
    obtain ⟨hi, _, hun⟩ := rmap_wf hr.inv hwf
    exact region_ends_at_boundary hr.inv i hi hun

/-! ## Non-vacuity -/

example : frameBytes 3 0 = 104 ∧ frameBytes 64 1 = 224 ∧ frameBytes 1 4 = 104 := by decide

/-- three 104-byte frames through a 336-byte ring with a sink-like reader: the third frame wraps -/
def demo : List Op :=
  [.join, .wmap 104, .wcommit, .wmap 104, .wcommit, .rmap 0, .runmap 0 104, .wmap 104, .wcommit, .rmap 0, .runmap 0 208,
   .wmap 104, .wcommit, .rmap 0]

example : wfRun (Sys.init 336) demo = true ∧ alignedRun (Sys.init 336) demo = true ∧
    boundaryRun (Sys.init 336) demo = true := by decide
example : (run (Sys.init 336) demo).c.cycle = 1 ∧ mappedLen (run (Sys.init 336) demo) 0 = 104 := by decide

end AcqVerif.C05
