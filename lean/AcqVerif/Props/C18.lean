import AcqVerif.SimConc.InvAll
/-!
# C18 — simulated cameras deliver fresh, increasing, trigger-gated frames

Model: `AcqVerif.SimConc.Model` (interleaving transition system of the streamer thread of
`simulated.camera.c` against two caller threads, at synchronisation-call granularity, for the
code with `fixes/18-simcam-start-clears-stale-trigger.patch` applied).
All theorems are for **every** pair of caller scripts `A`, `B` (histories of `on`/`off`/`start`/
`stop`/`trig`/`get` calls, across restarts) and **every** state reachable under **any** schedule
(`Reach (init A B) s`); they are consequences of the inductive invariant `Inv` (`inv_reach`).

Ids are shifted by one (`0` stands for the C value `-1`).
-/
namespace AcqVerif.C18
open AcqVerif.SimConc

/-- (1a) Within a run every frame call that delivers a frame returns an id strictly greater than the
one delivered before it (so no frame is delivered twice); a `start` begins a new run. -/
theorem ids_strictly_increase (A : List Op) (B : Option (List Op)) (s : State)
    (h : Reach (init A B) s) : IdsIncrease s.log :=
  (inv_reach h).ids.incr

/-- (1b) The id counts the frames generated so far in the run, and the count restarts with each
start: every published id equals the number of frames generated since the last `started` event,
every delivered id is at least `0` (C) and at most that number minus one. -/
theorem ids_count_generated_frames (A : List Op) (B : Option (List Op)) (s : State)
    (h : Reach (init A B) s) : Counts s.log ∧ s.gen = cntG s.log ∧ (0 < s.nruns → s.fid ≤ s.gen) :=
  ⟨(inv_reach h).ids.counts, (inv_reach h).ids.genLog, (inv_reach h).ids.fidGen⟩

/-- (2) With the software frame trigger enabled for the whole run so far (`gated`): frames delivered
≤ user triggers issued, and while the camera runs: frames published ≤ frames generated (= triggers
consumed) ≤ user triggers issued — counted on the log since the last start.  The triggers that
`simcam_stop` and `simcam_set` fire themselves are not counted and never lead to a delivery. -/
theorem trigger_gated (A : List Op) (B : Option (List Op)) (s : State)
    (h : Reach (init A B) s) (hg : s.gated = true) :
    s.enable = true ∧ cntD s.log ≤ cntT s.log ∧
      (s.running = true → s.fid ≤ cntG s.log ∧ cntG s.log ≤ cntT s.log) := by
  have hi := inv_reach h
  have g := hi.gate
  refine ⟨g.gatedEnable hg, ?_, fun hr => ?_⟩
  · have := g.delivIssued hg
    rw [← g.cntD, ← g.cntT]; exact this
  · have h1 := (g.consumed hg hr).1
    have h2 := hi.ids.fidGen (hi.run.runs hr)
    rw [← hi.ids.genLog, ← g.cntT]; exact ⟨h2, h1⟩

/-- in particular: no frame before the first trigger -/
theorem no_frame_before_first_trigger (A : List Op) (B : Option (List Op)) (s : State)
    (h : Reach (init A B) s) (hg : s.gated = true) (h0 : cntT s.log = 0) : cntD s.log = 0 := by
  have := (trigger_gated A B s h hg).2.1
  omega

/-- (3a) No lost wake-up for a pending frame call: a caller sleeps un-notified on `frame_ready` only
while its wait condition still says "wait" (the camera runs and nothing newer than what it has seen
is published) or a notifier is pending (the streamer is at its `notify_all`, or the other caller is
inside `simcam_stop` before its `notify_all(frame_ready)`). -/
theorem no_lost_wakeup_frame_call (A : List Op) (B : Option (List Op)) (s : State)
    (h : Reach (init A B) s) (w : Who) (hw : s.pc w = .getAsleep false) :
    (s.running = true ∧ s.fid ≤ s.last) ∨ s.ps = .notifyF ∨ (s.pc w.other).stopPre = true := by
  have hi := (inv_reach h).wake
  cases w
  · exact hi.sleepA hw
  · exact hi.sleepB hw

/-- (3b) No lost wake-up for the streamer once a stop has cleared `is_running`: if it is at the entry
of the wait or asleep un-notified on `trigger_ready`, some caller is inside `simcam_stop` with its
`notify_all(trigger_ready)` still ahead; and if it has yet to take the lock or was woken, the
trigger flag is set or such a caller has yet to set it — it will not go (back) to sleep. -/
theorem no_lost_wakeup_streamer_on_stop (A : List Op) (B : Option (List Op)) (s : State)
    (h : Reach (init A B) s) (hr : s.running = false) :
    (s.ps.waitingT = true → s.pa.stopTPre = true ∨ s.pb.stopTPre = true) ∧
    (s.ps.atLock1 = true → s.triggered = true ∨ s.pa.stopLockPre = true ∨ s.pb.stopLockPre = true) :=
  ⟨fun hw => (inv_reach h).wake.stopT hw hr, fun hl => (inv_reach h).wake.atLock1 hl hr⟩

/-- (3c) `stop`'s join terminates after boundedly many streamer steps: once `is_running` is clear,
every step of the streamer strictly decreases the measure `mu` (at most 7) and leaves `is_running`
clear; a step of a caller leaves the streamer where it is or wakes it (which also decreases `mu`),
unless it is the `thread_create` at the end of a `start`. -/
theorem stop_join_measure (A : List Op) (B : Option (List Op)) (s s' : State)
    (h : Reach (init A B) s) (hr : s.running = false) :
    (step s .s = some s' → mu s'.ps < mu s.ps ∧ s'.running = false) ∧
    (∀ w : Who, step s w.tid = some s' → s.pc w ≠ .startCreate → mu s'.ps ≤ mu s.ps) ∧
    mu s.ps ≤ 7 := by
  refine ⟨fun hs => streamer_measure (inv_reach h) hr hs, fun w hs hne => ?_, ?_⟩
  · have hc : cstep s w = some s' := by cases w <;> simpa [step, Who.tid] using hs
    rcases caller_step_streamer w hc with h1 | ⟨n, h1, h2⟩ | ⟨h1, _⟩
    · rw [h1]; exact Nat.le_refl _
    · rw [h1, h2]; cases n <;> decide
    · exact absurd h1 hne
  · cases s.ps <;> first | (simp [mu]; done) | (rename_i n; cases n <;> decide)

/-- (3d) While a `simcam_stop` is in progress and the streamer has not finished, the streamer is
never stuck: it is enabled, or the lock it needs is held by an enabled thread, or it sleeps and the
stopping caller that still has to notify it is enabled (or waits only for the lock, whose holder is
enabled).  And once the streamer has finished, the `thread_join` of `simcam_stop` is enabled. -/
theorem stop_streamer_progress (A : List Op) (B : Option (List Op)) (s : State)
    (h : Reach (init A B) s) (hstop : s.pa.inStop = true ∨ s.pb.inStop = true) :
    (s.ps.alive = true →
      enabled s .s = true ∨ LockHolderEnabled s ∨
        (s.ps = .asleepT false ∧
          ((s.pa.stopTPre = true ∧ (enabled s .a = true ∨ LockHolderEnabled s)) ∨
           (s.pb.stopTPre = true ∧ (enabled s .b = true ∨ LockHolderEnabled s))))) ∧
    (∀ (w : Who) (g : Bool), s.pc w = .stopJoin g → s.ps = .fin → enabled s w.tid = true) := by
  refine ⟨fun ha => streamer_not_stuck (inv_reach h) hstop ha, fun w g hw hf => ?_⟩
  cases w <;> simp [enabled, step, cstep, Who.tid, State.pc] at hw ⊢ <;> simp [hw, hf]

/-- (3e) Stop unblocks a pending frame call: once `is_running` is clear, a frame call is still asleep
un-notified only while a notifier is on its way (the streamer at its `notify_all`, or the stopping
caller before its `notify_all(frame_ready)`); and a frame call that was woken, or that has yet to take
the lock, returns at its very next step, without a frame. -/
theorem stop_unblocks_frame_call (A : List Op) (B : Option (List Op)) (s : State)
    (h : Reach (init A B) s) (hr : s.running = false) (w : Who) :
    (s.pc w = .getAsleep false → s.ps = .notifyF ∨ (s.pc w.other).stopPre = true) ∧
    (∀ s', (s.pc w = .getAsleep true ∨ s.pc w = .getLock) → step s w.tid = some s' →
      (s'.pc w).quiet = true ∧ s'.log.head? = some (.res w .get .noframe)) := by
  refine ⟨fun hw => ?_, fun s' hp hs => ?_⟩
  · rcases no_lost_wakeup_frame_call A B s h w hw with ⟨h1, _⟩ | h2
    · rw [hr] at h1; cases h1
    · exact h2
  · cases w <;> simp only [State.pc] at hp <;> simp only [Who.tid] at hs <;> step_cases hs <;>
      simp_all [State.pc]

/-! ## Non-vacuity: concrete reachable states (schedules taken from runs of the real code) -/

open Tid in
/-- one caller: `on, start, trig, get, stop`; after 20 steps the frame call has delivered id 0 (C) in
a gated, running camera with one trigger issued -/
example : ∃ s, Reach (init [.on, .start, .trig, .get, .stop] none) s ∧ s.gated = true ∧ s.running = true ∧
    cntD s.log = 1 ∧ cntT s.log = 1 ∧ cntG s.log = 1 ∧ s.fid = 1 ∧
    s.log.head? = some (.res .a .get (.frame 0)) :=
  ⟨_, reach_of_runSched (l := [a, a, a, a, s, s, s, a, a, a, s, a, a, a, s, s, s, s, s, a]) rfl,
    by decide, by decide, by decide, by decide, by decide, by decide, by decide⟩

open Tid in
/-- free-running camera, `start, get, get, stop`: two deliveries with ids 0 and 2 (a gap: frame 1 was
generated and dropped); the predicates hold and are not trivially true -/
example : ∃ s, Reach (init [.start, .get, .get, .stop] none) s ∧
    (s.log.filter fun e => match e with | .delivered _ _ => true | _ => false) = [.delivered 3 4, .delivered 1 2] :=
  ⟨_, reach_of_runSched (l := [a, a, s, s, a, a, a, s, s, s, s, a, s, s, a, a, a, s, s, s, s, a, s, s, a, a, a, a, s, s, s, a, a]) rfl,
    by decide⟩

example : IdsIncrease [.delivered 3 3, .generated 3, .delivered 1 1, .started, .delivered 7 7] := by
  simp [IdsIncrease, okFrom]
example : ¬ IdsIncrease [.delivered 2 2, .res .a .get (.frame 1), .delivered 2 2] := by
  simp [IdsIncrease, okFrom]
example : ¬ Counts [.published 2 1, .generated 1, .started] := by simp [Counts]
example : Counts [.delivered 1 1, .published 1 1, .generated 1, .started] := by simp [Counts, cntG]

open Tid in
/-- two callers, `a: on, start, stop`, `b: get, get`: `b` sleeps on `frame_ready` (un-notified) in a
running gated camera with no trigger; hypothesis of (3a) -/
example : ∃ s, Reach (init [.on, .start, .stop] (some [.get, .get])) s ∧ s.pc .b = .getAsleep false ∧
    s.running = true ∧ s.gated = true ∧ cntT s.log = 0 :=
  ⟨_, reach_of_runSched (l := [a, b, a, a, b, a, a, b, b, b]) rfl, by decide, by decide, by decide, by decide⟩

open Tid in
/-- … and after `a` began its stop (`is_running` clear, `a` parked at the lock of its internal
trigger) the streamer sleeps un-notified: hypotheses of (3b), (3c), (3d) -/
example : ∃ s, Reach (init [.on, .start, .stop] (some [.get, .get])) s ∧ s.running = false ∧
    s.ps = .asleepT false ∧ s.pa = .trigLock (.stop false) ∧ s.pb = .getAsleep false :=
  ⟨_, reach_of_runSched (l := [a, b, a, a, b, a, a, b, b, b, s, s, s, a]) rfl, by decide, by decide, by decide, by decide⟩

/-- The general form of (3b) — "the streamer sleeps un-notified only while `enable ∧ ¬triggered` or a
notifier is pending", also while the camera runs — is **false for the C as it is**: `simcam_set`
fires its trigger *before* it clears `enable`, the streamer may consume it and go back to sleep, and
then sleeps with the trigger disabled (a frame call then waits until the next trigger or stop).
This does not contradict the property (stop still wakes it); it is reported as an observation. -/
def StreamerNeverSleepsWithTriggerOff : Prop :=
  ∀ (A : List Op) (B : Option (List Op)) (s : State), Reach (init A B) s →
    s.ps = .asleepT false → (s.enable = true ∧ s.triggered = false) ∨ s.pa.atTrigNotify = true ∨ s.pb.atTrigNotify = true

open Tid in
theorem set_off_race : ¬ StreamerNeverSleepsWithTriggerOff := by
  intro h
  have hr : Reach (init [.on, .start, .off, .stop] none) _ :=
    reach_of_runSched (l := [a, a, a, a, s, s, s, a, a, a, s, s, s, s, s, s, a]) rfl
  have := h _ _ _ hr (by decide)
  revert this
  decide

end AcqVerif.C18
