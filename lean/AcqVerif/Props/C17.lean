import AcqVerif.Simcam.Inv
/-!
# C17 — simulated cameras are memory-safe and honour the shape they report

Model: `AcqVerif/Simcam/Shape.lean` (transcription of `simulated.camera.c`, `bin2.avx2.c`,
`bin2.plain.c`, `imfill.pattern.cpp` as far as sizes are concerned, with the repairs of
`fixes/17-*.patch`).  Quantifiers: every build variant (`avx2` / `plain`), every camera kind
(any `Nat`), every settings record whose `binning` fits a `uint8_t` — so every accepted
binning 1,2,4,…,128 —, every sample type, every requested shape, offset and exposure, and
every well-formed history of `set / get / get_shape / get_meta / start / stop / streamer
iteration / get_frame` (`Reachable`), resp. every operation list at all (`run` skips the
ill-formed ones).
-/
namespace AcqVerif.C17
open AcqVerif.Simcam

/-- the binning in effect after an accepted `set` -/
def effBinning (s : Props) : Nat := if s.binning = 0 then 1 else s.binning

/-- **(1a)** After an accepted `set`, whatever the state before: the reported dimensions are the
request clamped to `[1, MAX/binning]`, one channel, one plane, strides `(1,1,w,w·h)`, the type is
the requested one, and `bytes_of_image = w·h·bytes_of_type`. -/
theorem C17_reported_shape_is_clamped_request (c : Cam) (s : Props) (hr : s.inRange)
    (hok : (simcamSet c s).ok = true) :
    let sh := simcamGetShape (simcamSet c s).cam
    let b := effBinning s
    sh.width = clamp s.shapeX 1 (K.maxImageWidth / b) ∧
    sh.height = clamp s.shapeY 1 (K.maxImageHeight / b) ∧
    1 ≤ sh.width ∧ sh.width ≤ K.maxImageWidth / b ∧
    1 ≤ sh.height ∧ sh.height ≤ K.maxImageHeight / b ∧
    sh.channels = 1 ∧ sh.planes = 1 ∧
    sh.sChannels = 1 ∧ sh.sWidth = 1 ∧ sh.sHeight = sh.width ∧ sh.sPlanes = sh.width * sh.height ∧
    sh.type = s.pixelType ∧
    bytesOfImage sh = sh.width * sh.height * bytesOfType s.pixelType := by
  intro sh b
  have hacc : Accepted s := by
    by_contra h
    rw [(simcamSet_rejected (c := c) h).1] at hok; cases hok
  have hcam := (simcamSet_accepted (c := c) hacc).2.1
  have hinv := inv_setResult c hr hacc
  have hb : (normBinning s).binning = b := normBinning_binning s
  have hsx : (normBinning s).shapeX = s.shapeX := by unfold normBinning; split <;> rfl
  have hsy : (normBinning s).shapeY = s.shapeY := by unfold normBinning; split <;> rfl
  have hshape : sh = (setResult c s).shape := by show (simcamSet c s).cam.shape = _; rw [hcam]
  have hw : sh.width = clamp s.shapeX 1 (K.maxImageWidth / b) := by
    rw [hshape, ← hb, ← hsx]; rfl
  have hh : sh.height = clamp s.shapeY 1 (K.maxImageHeight / b) := by
    rw [hshape, ← hb, ← hsy]; rfl
  have hbin : (setResult c s).props.binning = b := hb
  have ht : sh.type = s.pixelType := by
    rw [hshape]; show (normBinning s).pixelType = _; exact normBinning_pixelType s
  refine ⟨hw, hh, ?_, ?_, ?_, ?_, ?_, ?_, ?_, ?_, ?_, ?_, ht, ?_⟩
  · rw [hshape]; exact hinv.wlo
  · rw [hshape, ← hbin]; exact hinv.whi
  · rw [hshape]; exact hinv.hlo
  · rw [hshape, ← hbin]; exact hinv.hhi
  · rw [hshape]; exact hinv.ch
  · rw [hshape]; exact hinv.pl
  · rw [hshape]; exact hinv.s0
  · rw [hshape]; exact hinv.s1
  · rw [hshape]; exact hinv.s2
  · rw [hshape]; exact hinv.s3
  · rw [← ht, hshape]; exact bytesOfImage_of_inv hinv

example :  -- non-vacuity: binning 4, 100000 x 0 requested ⇒ 2048 x 1 reported
    let s : Props := { binning := 4, pixelType := K.sampleU16, shapeX := 100000, shapeY := 0 }
    s.inRange ∧ (simcamSet (mk K.kindRandom) s).ok = true ∧
    (simcamGetShape (simcamSet (mk K.kindRandom) s).cam).width = 2048 ∧
    (simcamGetShape (simcamSet (mk K.kindRandom) s).cam).height = 1 := by decide

/-- **(1b)** In every state a well-formed history can reach (before the first `set` as well):
`1 ≤ w ≤ MAX_W/b`, `1 ≤ h ≤ MAX_H/b`, strides `(1,1,w,w·h)`, `bytes_of_image = w·h·bytes_of_type`
with a known sample type, the full-resolution image the streamer renders is at most
`MAX_W × MAX_H` (no 32-bit wrap in `b * shape.x`), and `get` agrees with `get_shape`. -/
theorem C17_reported_shape_invariant (v : Variant) (kind : Nat) (c : Cam) (h : Reachable v kind c) :
    let sh := simcamGetShape c
    let b := (simcamGet c).binning
    PowerOfTwoU8 b ∧
    1 ≤ sh.width ∧ sh.width ≤ K.maxImageWidth / b ∧ 1 ≤ sh.height ∧ sh.height ≤ K.maxImageHeight / b ∧
    sh.channels = 1 ∧ sh.planes = 1 ∧
    sh.sChannels = 1 ∧ sh.sWidth = 1 ∧ sh.sHeight = sh.width ∧ sh.sPlanes = sh.width * sh.height ∧
    1 ≤ bytesOfType sh.type ∧
    bytesOfImage sh = sh.width * sh.height * bytesOfType sh.type ∧
    b * sh.width ≤ K.maxImageWidth ∧ b * sh.height ≤ K.maxImageHeight ∧
    (simcamGet c).shapeX = sh.width ∧ (simcamGet c).shapeY = sh.height ∧ (simcamGet c).pixelType = sh.type ∧
    (simcamGetMeta c).shapeXLow ≤ sh.width ∧ sh.width ≤ (simcamGetMeta c).shapeXHigh ∧
    (simcamGetMeta c).shapeYLow ≤ sh.height ∧ sh.height ≤ (simcamGetMeta c).shapeYHigh := by
  intro sh b
  have i := inv_reachable h
  obtain ⟨-, -, e1, e2, hb1⟩ := pow2_div_pos i.bin
  have fw : b * sh.width ≤ K.maxImageWidth := by
    have := Nat.mul_le_mul_left b i.whi
    exact Nat.le_trans this (Nat.le_of_eq e1)
  have fh : b * sh.height ≤ K.maxImageHeight := by
    have := Nat.mul_le_mul_left b i.hhi
    exact Nat.le_trans this (Nat.le_of_eq e2)
  exact ⟨i.bin, i.wlo, i.whi, i.hlo, i.hhi, i.ch, i.pl, i.s0, i.s1, i.s2, i.s3, i.bpp,
    bytesOfImage_of_inv i, fw, fh, i.px, i.py, i.pt, i.wlo, i.whi, i.hlo, i.hhi⟩

example : Reachable .avx2 K.kindSin
    (step .avx2 (step .avx2 (mk K.kindSin) (.set { binning := 8, pixelType := K.sampleF32, shapeX := 33, shapeY := 7 })).1 .start).1 :=
  .step _ (.step _ .init (by decide)) (by decide)

/-- **(2)** `get` after an accepted `set` returns the values in effect: everything the caller
passed, except that binning 0 reads 1, the shape reads as the reported (clamped) one, and the
input-trigger block is normalised to "frame start on the software line".  These are the values
the streamer renders with (`fullShape`) and `get_frame` reports (`info`). -/
theorem C17_get_after_set (c : Cam) (s : Props) (_hr : s.inRange) (hok : (simcamSet c s).ok = true) :
    let c' := (simcamSet c s).cam
    let g := simcamGet c'
    g.exposure = s.exposure ∧ g.lineInterval = s.lineInterval ∧ g.readout = s.readout ∧
    g.binning = effBinning s ∧ g.pixelType = s.pixelType ∧ g.offX = s.offX ∧ g.offY = s.offY ∧
    g.outExposure = s.outExposure ∧ g.outFrameStart = s.outFrameStart ∧ g.outTriggerWait = s.outTriggerWait ∧
    g.inFrameStart = { enable := s.inFrameStart.enable, line := 0, kind := K.signalInput, edge := K.triggerEdgeRising } ∧
    g.inAcqStart = {} ∧ g.inExposure = {} ∧
    g.shapeX = (simcamGetShape c').width ∧ g.shapeY = (simcamGetShape c').height ∧
    g.pixelType = (simcamGetShape c').type ∧
    (simcamSet c s).settings.binning = effBinning s ∧
    (fullShape c').width = g.binning * (simcamGetShape c').width ∧
    (fullShape c').height = g.binning * (simcamGetShape c').height ∧
    (∀ n, (simcamGetFrame (simcamStart c') n).ok = true → (simcamGetFrame (simcamStart c') n).info = simcamGetShape c') := by
  intro c' g
  have hacc : Accepted s := by
    by_contra h
    rw [(simcamSet_rejected (c := c) h).1] at hok; cases hok
  obtain ⟨-, hcam, hset⟩ := simcamSet_accepted (c := c) hacc
  have hg : g = (setResult c s).props := by show (simcamSet c s).cam.props = _; rw [hcam]
  have hc' : c' = setResult c s := hcam
  have nb : ∀ s : Props, (normBinning s).exposure = s.exposure ∧ (normBinning s).lineInterval = s.lineInterval ∧
      (normBinning s).readout = s.readout ∧ (normBinning s).pixelType = s.pixelType ∧
      (normBinning s).offX = s.offX ∧ (normBinning s).offY = s.offY ∧
      (normBinning s).outExposure = s.outExposure ∧ (normBinning s).outFrameStart = s.outFrameStart ∧
      (normBinning s).outTriggerWait = s.outTriggerWait ∧ (normBinning s).inFrameStart = s.inFrameStart := by
    intro s; unfold normBinning; split <;> exact ⟨rfl, rfl, rfl, rfl, rfl, rfl, rfl, rfl, rfl, rfl⟩
  obtain ⟨n1, n2, n3, n4, n5, n6, n7, n8, n9, n10⟩ := nb s
  have hbin : (normBinning s).binning = effBinning s := normBinning_binning s
  refine ⟨?_, ?_, ?_, ?_, ?_, ?_, ?_, ?_, ?_, ?_, ?_, ?_, ?_, ?_, ?_, ?_, ?_, ?_, ?_, ?_⟩
  · rw [hg]; exact n1
  · rw [hg]; exact n2
  · rw [hg]; exact n3
  · rw [hg]; exact hbin
  · rw [hg]; exact n4
  · rw [hg]; exact n5
  · rw [hg]; exact n6
  · rw [hg]; exact n7
  · rw [hg]; exact n8
  · rw [hg]; exact n9
  · rw [hg]; show ({ enable := (normBinning s).inFrameStart.enable, line := 0, kind := K.signalInput, edge := K.triggerEdgeRising } : Trigger) = _
    rw [n10]
  · rw [hg]; rfl
  · rw [hg]; rfl
  · rw [hg, hc']; rfl
  · rw [hg, hc']; rfl
  · rw [hg, hc']; rfl
  · rw [hset]; exact hbin
  · rw [hg, hc']; rfl
  · rw [hg, hc']; rfl
  · intro n hn
    unfold simcamGetFrame at hn ⊢
    split
    · rename_i hlt; rw [if_pos hlt] at hn; cases hn
    · split
      · rename_i hlt hrun; rw [if_neg hlt, if_pos hrun] at hn; cases hn
      · rfl

example :  -- non-vacuity: a request that is normalised in all three ways
    let s : Props := { binning := 0, pixelType := K.sampleI16, shapeX := 9000, shapeY := 5, exposure := 77, offX := 3,
                       inFrameStart := ⟨1, 5, 1, 3⟩, inExposure := ⟨1, 1, 1, 1⟩ }
    s.inRange ∧ (simcamSet (mk K.kindEmpty) s).ok = true ∧
    simcamGet (simcamSet (mk K.kindEmpty) s).cam =
      { s with binning := 1, shapeX := 8192, inFrameStart := ⟨1, 0, K.signalInput, K.triggerEdgeRising⟩, inExposure := {} } := by
  decide

/-- **(2′)** A rejected `set` changes nothing (settings, shape, buffers). -/
theorem C17_rejected_set_changes_nothing (c : Cam) (s : Props) (h : (simcamSet c s).ok = false) :
    (simcamSet c s).cam = c := by
  by_cases hacc : Accepted s
  · rw [(simcamSet_accepted (c := c) hacc).1] at h; cases h
  · exact (simcamSet_rejected hacc).2.1

example : (simcamSet (mk 0) { binning := 6, shapeX := 4, shapeY := 4 }).ok = false ∧
    (simcamSet (mk 0) { binning := 2, pixelType := K.sampleTypeUnknown, shapeX := 4, shapeY := 4 }).ok = false := by decide

/-- **(accepted configurations)** `set` accepts exactly: binning 0 (read as 1) or a power of two
that fits `uint8_t` (1 … 128), with a sample type whose size is known. -/
theorem C17_accepted_binning (c : Cam) (s : Props) (hr : s.inRange) :
    (simcamSet c s).ok = true ↔ (PowerOfTwoU8 (effBinning s) ∧ bytesOfType s.pixelType ≠ 0) := by
  have hb : (normBinning s).binning < 256 := by
    rw [normBinning_binning]; have := hr.1; split <;> omega
  have hiff := popcount_eq_one _ hb
  rw [normBinning_binning] at hiff
  constructor
  · intro hok
    have hacc : Accepted s := by
      by_contra h
      rw [(simcamSet_rejected (c := c) h).1] at hok; cases hok
    obtain ⟨h1, h2⟩ := hacc
    rw [normBinning_binning] at h1
    exact ⟨hiff.mp h1, h2⟩
  · intro ⟨h1, h2⟩
    have hacc : Accepted s := ⟨by rw [normBinning_binning]; exact hiff.mpr h1, h2⟩
    exact (simcamSet_accepted hacc).1

example : ∀ b ∈ [0, 1, 2, 4, 8, 16, 32, 64, 128], ∀ t ∈ [0, 1, 2, 3, 4, 5, 6, 7],
    (simcamSet (mk 1) { binning := b, pixelType := t, shapeX := 5, shapeY := 5 }).ok = true := by decide

/-- **(4)** Buffers are re-sized on every accepted `set`, whatever their size was before: both
hold the 32-byte-aligned size of the *full-resolution* image `(b·w) × (b·h)` of the new
configuration. -/
theorem C17_buffers_resized_on_every_set (c : Cam) (s : Props) (hr : s.inRange)
    (hok : (simcamSet c s).ok = true) :
    let c' := (simcamSet c s).cam
    let sh := simcamGetShape c'
    let b := effBinning s
    c'.frameBuf = some (alignUp ((b * sh.width) * (b * sh.height) * bytesOfType s.pixelType)) ∧
    c'.renderBuf = c'.frameBuf ∧
    (b * sh.width) * (b * sh.height) * bytesOfType s.pixelType ≤ alignUp ((b * sh.width) * (b * sh.height) * bytesOfType s.pixelType) ∧
    alignUp ((b * sh.width) * (b * sh.height) * bytesOfType s.pixelType) % K.bufAlign = 0 ∧
    bytesOfImage sh ≤ alignUp ((b * sh.width) * (b * sh.height) * bytesOfType s.pixelType) := by
  intro c' sh b
  have hacc : Accepted s := by
    by_contra h
    rw [(simcamSet_rejected (c := c) h).1] at hok; cases hok
  have hcam : c' = setResult c s := (simcamSet_accepted (c := c) hacc).2.1
  have hinv := inv_setResult c hr hacc
  have hb : (normBinning s).binning = b := normBinning_binning s
  have hpt : (normBinning s).pixelType = s.pixelType := normBinning_pixelType s
  have hf : c'.frameBuf = some (alignUp ((b * sh.width) * (b * sh.height) * bytesOfType s.pixelType)) := by
    show c'.frameBuf = some (alignUp ((b * c'.shape.width) * (b * c'.shape.height) * _))
    rw [hcam, ← hb, ← hpt]; rfl
  have hrb : c'.renderBuf = c'.frameBuf := by rw [hcam]; rfl
  refine ⟨hf, hrb, le_alignUp _, alignUp_mod _, ?_⟩
  have h1 := (C17_reported_shape_is_clamped_request c s hr hok).2.2.2.2.2.2.2.2.2.2.2.2.2
  have hbpos : 1 ≤ b := by
    have := (pow2_div_pos hinv.bin).2.2.2.2
    rw [← hb]; exact this
  show bytesOfImage sh ≤ _
  rw [h1]
  refine Nat.le_trans ?_ (le_alignUp _)
  apply Nat.mul_le_mul_right
  exact Nat.mul_le_mul (Nat.le_mul_of_pos_left _ hbpos) (Nat.le_mul_of_pos_left _ hbpos)

example :  -- re-configuration from a large to a small and back to a larger image
    let s1 : Props := { binning := 2, pixelType := K.sampleU16, shapeX := 64, shapeY := 48 }
    let s2 : Props := { binning := 1, pixelType := K.sampleU8, shapeX := 3, shapeY := 3 }
    let s3 : Props := { binning := 8, pixelType := K.sampleF32, shapeX := 33, shapeY := 7 }
    let c1 := (simcamSet (mk 0) s1).cam
    let c2 := (simcamSet c1 s2).cam
    let c3 := (simcamSet c2 s3).cam
    c1.renderBuf = some 24576 ∧ c2.renderBuf = some 32 ∧ c3.renderBuf = some 59136 ∧ c3.frameBuf = some 59136 := by
  decide

/-- `*nbytes` of the `get_frame` an access belongs to (0 for other operations) -/
def callerSize : Op → Nat
  | .frame n => n
  | _ => 0

/-- **(3)** Memory safety, one step.  In every reachable state, every byte range touched by a
well-formed operation — `im_fill_rand`, `im_fill_pattern<T>`, every pass of the `bin2` cascade
(AVX2 or plain build) in the render buffer, the source of the copy-out in the frame buffer, its
destination in the caller's buffer — lies inside the allocated size of that buffer, and the
alignment the access pattern needs is one `realloc` guarantees. -/
theorem C17_all_extents_within_buffer (v : Variant) (kind : Nat) (c : Cam) (h : Reachable v kind c)
    (op : Op) (_hwf : op.wf c) :
    ∀ a ∈ (step v c op).2, a.ok c (callerSize op) := by
  have i := inv_reachable h
  intro a ha
  cases op with
  | set s => simp [step] at ha
  | get => simp [step] at ha
  | getShape => simp [step] at ha
  | getMeta => simp [step] at ha
  | start => simp [step] at ha
  | stop => simp [step] at ha
  | stream p =>
    have ha' : a ∈ (streamerIteration v c p).2 := ha
    unfold streamerIteration at ha'
    cases hrun : c.running
    · rw [hrun] at ha'; simp at ha'
    · rw [hrun] at ha'
      have hmem : a ∈ renderAccesses v c := by
        cases p <;> simpa using ha'
      obtain ⟨hb, he, hal⟩ := render_ok v i a hmem
      have hbuf : c.renderBuf = some (alignUp (fullBytes c)) := by
        rcases i.bufs with ⟨-, -, h3⟩ | ⟨-, h2⟩
        · rw [hrun] at h3; cases h3
        · exact h2
      unfold Access.ok; rw [hb]
      exact ⟨_, hbuf, he, hal⟩
  | frame n =>
    have ha' : a ∈ (simcamGetFrame c n).accesses := ha
    unfold simcamGetFrame at ha'
    by_cases hlt : n < bytesOfImage c.shape
    · rw [if_pos hlt] at ha'; simp at ha'
    · rw [if_neg hlt] at ha'
      cases hrun : c.running
      · rw [hrun] at ha'; simp at ha'
      · rw [hrun] at ha'
        simp only [Bool.not_true, Bool.false_eq_true, if_false, List.mem_cons, List.not_mem_nil, or_false] at ha'
        have hbuf : c.frameBuf = some (alignUp (fullBytes c)) := by
          rcases i.bufs with ⟨-, -, h3⟩ | ⟨h1, -⟩
          · rw [hrun] at h3; cases h3
          · exact h1
        have hsmall : bytesOfImage c.shape ≤ alignUp (fullBytes c) := by
          rw [bytesOfImage_of_inv i]
          refine Nat.le_trans ?_ (le_alignUp _)
          have hbpos := (pow2_div_pos i.bin).2.2.2.2
          unfold fullBytes
          apply Nat.mul_le_mul_right
          exact Nat.mul_le_mul (Nat.le_mul_of_pos_left _ hbpos) (Nat.le_mul_of_pos_left _ hbpos)
        rcases ha' with rfl | rfl
        · exact ⟨_, hbuf, hsmall, Nat.one_dvd _⟩
        · show bytesOfImage c.shape ≤ n
          omega

/-- **(3′)** Memory safety, whole histories: run *any* list of operations from a fresh camera
of any kind (ill-formed ones are skipped); every access that ever happens is in bounds of the
buffer as allocated at that moment. -/
theorem C17_history_extents_within_buffer (v : Variant) (kind : Nat) (ops : List Op) :
    ∀ x ∈ (run v (mk kind) ops).2, x.2.2.ok x.1 x.2.1 := by
  suffices H : ∀ (ops : List Op) (c : Cam), Reachable v kind c → ∀ x ∈ (run v c ops).2, x.2.2.ok x.1 x.2.1 from
    H ops (mk kind) .init
  intro ops
  induction ops with
  | nil => intro c _ x hx; simp [run] at hx
  | cons op ops ih =>
    intro c hc x hx
    unfold run at hx
    by_cases hwf : op.wf c
    · rw [if_pos hwf] at hx
      simp only at hx
      rcases List.mem_append.mp hx with h1 | h2
      · obtain ⟨a, ha, rfl⟩ := List.mem_map.mp h1
        have := C17_all_extents_within_buffer v kind c hc op hwf a ha
        cases op <;> exact this
      · exact ih _ (.step op hc hwf) x h2
    · rw [if_neg hwf] at hx
      exact ih c hc x hx

/-- **(1c)** Each frame call fills exactly the image: `get_frame` succeeds iff the camera runs
and the caller's buffer has room for `bytes_of_image`; then it stores exactly
`w·h·bytes_of_type` bytes (of the shape `get_shape` reports, which is also `info.shape`), never
more than the caller offered; when it fails it stores nothing. -/
theorem C17_frame_fills_exactly_bytes_of_image (v : Variant) (kind : Nat) (c : Cam) (h : Reachable v kind c) (n : Nat) :
    let o := simcamGetFrame c n
    let sh := simcamGetShape c
    (o.ok = true ↔ (c.running = true ∧ sh.width * sh.height * bytesOfType sh.type ≤ n)) ∧
    (o.ok = true → o.written = sh.width * sh.height * bytesOfType sh.type ∧ o.written ≤ n ∧ o.info = sh ∧
       o.accesses = [⟨.copyOutSrc, .frame, o.written, 1⟩, ⟨.copyOutDst, .caller, o.written, 1⟩]) ∧
    (o.ok = false → o.written = 0 ∧ o.accesses = []) := by
  intro o sh
  have i := inv_reachable h
  have hb : bytesOfImage c.shape = sh.width * sh.height * bytesOfType sh.type := bytesOfImage_of_inv i
  have key : (n < bytesOfImage c.shape → o = ⟨false, 0, default, []⟩) ∧
      (¬ n < bytesOfImage c.shape → c.running = false → o = ⟨false, 0, default, []⟩) ∧
      (¬ n < bytesOfImage c.shape → c.running = true → o = ⟨true, bytesOfImage c.shape, c.shape,
          [⟨.copyOutSrc, .frame, bytesOfImage c.shape, 1⟩, ⟨.copyOutDst, .caller, bytesOfImage c.shape, 1⟩]⟩) := by
    refine ⟨fun h1 => ?_, fun h1 h2 => ?_, fun h1 h2 => ?_⟩ <;>
      (show simcamGetFrame c n = _; unfold simcamGetFrame)
    · rw [if_pos h1]
    · rw [if_neg h1, h2]; rfl
    · rw [if_neg h1, h2]; rfl
  clear_value o
  obtain ⟨k1, k2, k3⟩ := key
  by_cases hlt : n < bytesOfImage c.shape
  · rw [k1 hlt]
    refine ⟨⟨fun h => (by cases h), fun ⟨_, h2⟩ => ?_⟩, fun h => (by cases h), fun _ => ⟨rfl, rfl⟩⟩
    exfalso; rw [hb] at hlt; exact Nat.lt_irrefl _ (Nat.lt_of_lt_of_le hlt h2)
  · cases hrun : c.running
    · rw [k2 hlt hrun]
      exact ⟨⟨fun h => (by cases h), fun ⟨h1, _⟩ => (by cases h1)⟩, fun h => (by cases h), fun _ => ⟨rfl, rfl⟩⟩
    · rw [k3 hlt hrun]
      have hle : sh.width * sh.height * bytesOfType sh.type ≤ n := by rw [← hb]; exact Nat.le_of_not_lt hlt
      refine ⟨⟨fun _ => ⟨rfl, hle⟩, fun _ => rfl⟩, fun _ => ⟨hb, ?_, rfl, rfl⟩, fun h => (by cases h)⟩
      show bytesOfImage c.shape ≤ n
      exact Nat.le_of_not_lt hlt

example :  -- non-vacuity: binning 8, f32, Random camera: one rendered frame (3 bin2 passes) and its copy-out
    let c := simcamStart (simcamSet (mk K.kindRandom) { binning := 8, pixelType := K.sampleF32, shapeX := 33, shapeY := 7 }).cam
    Reachable .avx2 K.kindRandom c ∧
    (renderAccesses .avx2 c).map (fun a => (a.who, a.extent)) =
      [(.fillRand, 59136), (.bin2 0, 14368), (.bin2 1, 3616), (.bin2 2, 928)] ∧
    c.renderBuf = some 59136 ∧ (simcamGetFrame c 924).written = 924 ∧ (simcamGetFrame c 923).ok = false := by
  intro c
  refine ⟨.step .start (.step (.set { binning := 8, pixelType := K.sampleF32, shapeX := 33, shapeY := 7 }) .init (by decide)) (by decide),
    ?_, by decide, by decide, by decide⟩
  have hk : c.kind = K.kindRandom := by decide
  have hb : c.props.binning > 1 := by decide
  have hb2 : c.props.binning / 2 = 4 := by decide
  have hw : (fullShape c).width = 264 := by decide
  have hh : (fullShape c).height = 56 := by decide
  simp only [renderAccesses, if_pos hk, if_pos hb, hb2, hw, hh]
  rw [binCascade_pos _ (by decide), binCascade_pos _ (by decide), binCascade_pos _ (by decide), binCascade_zero]
  decide

end AcqVerif.C17
