import AcqVerif.Storage.HalInv
import AcqVerif.Storage.WriteFailure
/-!
# C16 — storage I/O failures are contained and reported; only owned descriptors are used

Model: `AcqVerif/Storage/{Os,FileWrite,Raw,TiffIo,Sxs,Hal}.lean` — the four storage devices
(raw, tiff, tiff-json, trash; repaired as in fixes/13, fixes/14, fixes/15) behind the HAL state
machine of `storage.c`, over an OS whose every `open`/`flock`/`pwrite`/`close`/`mkdir` may fail
or come up short as an arbitrary oracle `Nat → Outcome` says (any call index, once or for ever)
and whose `open` returns an arbitrary descriptor that is not currently open (`pick`).

All theorems quantify over every device kind, every history (`List Op`: set / start / append /
stop / close in any order and number — calls after `close` and `set` while Running are skipped,
see `Op.wf`), every oracle and every choice of descriptors.
-/
namespace AcqVerif.C16
open AcqVerif.Storage

/-- the invariant plus: the whole trace so far respects the descriptor discipline and leaves
    exactly the descriptors of the table owned -/
def Good (s : Sys) : Prop := Inv s ∧ ownRun [] s.os.log = some s.os.fdKeys

theorem good_init (k : Kind) (oracle : Nat → Outcome) (pick : Nat → Fd) : Good (Sys.init k oracle pick) := by
  refine ⟨⟨?_, fun _ => rfl⟩, rfl⟩
  cases k <;> simp [Sys.init, Dev.init, DevInv, Os.fdKeys]

theorem good_step (s : Sys) (op : Op) (h : Good s) : Good (step s op).1 := by
  obtain ⟨hinv, seg, hl, ho⟩ := step_ok s op h.1
  refine ⟨hinv, ?_⟩
  rw [hl, ownRun_append, h.2]
  exact ho

theorem good_runFrom (s : Sys) (ops : List Op) (h : Good s) : Good (runFrom s ops) := by
  induction ops generalizing s with
  | nil => exact h
  | cons op ops ih => exact ih _ (good_step s op h)

theorem good_run (k : Kind) (oracle : Nat → Outcome) (pick : Nat → Fd) (ops : List Op) :
    Good (run k oracle pick ops) := good_runFrom _ ops (good_init k oracle pick)

/-- **Termination.**  Every device function is a total Lean function (no `partial`, no fuel): the only
    loop, the retry loop of `file_write`, terminates by the measure `remaining + (3 - retries)`,
    and the repaired TIFF error path has no recursion (`stop` calls `write_` once, `write_` calls
    nothing).  As a checked statement: every HAL call returns, and one `file_write` issues at most
    `|buf| + 3` system calls whatever the oracle does. -/
theorem C16_total (s : Sys) (op : Op) : ∃ s' st, step s op = (s', st) := ⟨_, _, rfl⟩

theorem C16_file_write_bounded (os : Os) (fd off : Nat) (buf : Bytes) :
    ∃ seg, (fileWrite os fd off buf).1.log = os.log ++ seg ∧ seg.length ≤ buf.length + 3 := by
  obtain ⟨seg, hl, _, _, _, _, hb⟩ := fileWrite_log os fd off buf
  exact ⟨seg, hl, hb⟩

/-- **Only owned descriptors, each closed exactly once.**  Over the whole life of a device — any
    history, closed at the end — the trace of system calls passes the ownership automaton
    (`ownRun`: every `pwrite`, `flock`, `close` names a descriptor that an earlier `open` of this
    device returned and that has not been closed since; `open` never returns a descriptor still
    owned) and ends with nothing owned: every descriptor the device opened was closed, once. -/
theorem C16_owned_descriptors_only (k : Kind) (oracle : Nat → Outcome) (pick : Nat → Fd) (ops : List Op) :
    ownRun [] (run k oracle pick (ops ++ [.close])).os.log = some [] := by
  have hg : Good (run k oracle pick ops) := good_run k oracle pick ops
  have hrun : run k oracle pick (ops ++ [.close]) = (step (run k oracle pick ops) .close).1 := by
    simp [run, runFrom_append, runFrom]
  rw [hrun]
  have hg2 := good_step _ .close hg
  rw [hg2.2]
  congr 1
  cases hc : (run k oracle pick ops).closed with
  | true =>
    have : (step (run k oracle pick ops) .close).1 = run k oracle pick ops := by simp [step, Op.wf, hc]
    rw [this]; exact hg.1.2 hc
  | false =>
    have : (step (run k oracle pick ops) .close).1 = storageClose (run k oracle pick ops) := by
      simp [step, Op.wf, hc]
    rw [this]; exact (close_ok _ hg.1 hc).2.2

/-- non-vacuity: the tiff writer through its whole life with a failing header write (call 4) really
    opens descriptors (the probe of `set`, then the file), writes, and closes each once -/
example : (run .tiff (fun n => if n = 4 then .fail else .full) (fun _ => 3)
    ([.set [97, 0] [], .start] ++ [.close])).os.log =
    [.open [97] (some 3), .close 3 true, .unlink [97], .open [97] (some 3), .flock 3 true, .pwrite 3 0 16 none,
     .close 3 true] := by
  simp [run, runFrom, step, Sys.init, Dev.init, Op.wf, storageSet, storageStart, storageClose, storageStop, Dev.set,
    Dev.start, Dev.destroy, Dev.state, Dev.setState, tiffSet, tiffStart, Tiff.start, tiffDestroy, tiffStop,
    Tiff.stop, fileIsWritable, fileCreate, fileWrite, fileClose, fileWriteLoop, sysOpen, sysClose, sysUnlink, sysFlock,
    sysPwrite, Os.exists, uriOffset, cstr, allocFd, Os.fdKeys, pwriteCount, setFile, Os.content, filePrefix, zeros,
    tiffHeaderBytes, List.lookup]

/-- and the automaton does reject the traces of the unrepaired code: closing descriptor 0 that was never
    opened, closing twice, writing after close -/
example : ownRun [] [.close 0 true] = none ∧
    ownRun [] [.open [97] (some 3), .close 3 true, .close 3 false] = none ∧
    ownRun [] [.open [97] (some 3), .close 3 true, .pwrite 3 0 8 none] = none ∧
    ownRun [] [.open [97] (some 3)] = some [3] := by decide

/-- the same at every moment: each prefix of the trace of any history is disciplined -/
theorem C16_every_prefix_disciplined (k : Kind) (oracle : Nat → Outcome) (pick : Nat → Fd) (ops : List Op)
    (pre post : List Ev) (h : (run k oracle pick ops).os.log = pre ++ post) : ∃ owned, ownRun [] pre = some owned := by
  have hg := (good_run k oracle pick ops).2
  rw [h] at hg
  exact ownRun_prefix hg

/-- what passing the automaton means for one call: a `pwrite` or `close` in a disciplined trace
    names a descriptor owned at that moment -/
theorem ownRun_call_owned (pre post : List Ev) (e : Ev) (fd : Fd) (o : List Fd)
    (h : ownRun [] (pre ++ e :: post) = some o)
    (he : (∃ off len r, e = .pwrite fd off len r) ∨ (∃ ok, e = .close fd ok) ∨ (∃ ok, e = .flock fd ok)) :
    ∃ owned, ownRun [] pre = some owned ∧ fd ∈ owned := by
  rw [ownRun_append] at h
  cases hp : ownRun [] pre with
  | none => simp [hp] at h
  | some owned =>
    refine ⟨owned, rfl, ?_⟩
    simp only [hp, Option.bind_some, ownRun] at h
    rcases he with ⟨off, len, r, rfl⟩ | ⟨ok, rfl⟩ | ⟨ok, rfl⟩ <;>
    · simp only [ownStep] at h
      by_cases hm : fd ∈ owned
      · exact hm
      · simp [hm] at h

/-- **A device that is never started issues no I/O**: in a history without `start` (set-only,
    open/close, any misuse) there is no `pwrite` and no `flock` at all — the only calls are the
    create–close–unlink probes of `set`, which the previous theorem shows to be owned. -/
theorem C16_never_started (k : Kind) (oracle : Nat → Outcome) (pick : Nat → Fd) (ops : List Op)
    (hns : ∀ op ∈ ops, op ≠ Op.start) : NoIo (run k oracle pick ops).os.log := by
  suffices h : ∀ (s : Sys) (ops : List Op), (∀ op ∈ ops, op ≠ Op.start) → Inv s → s.dev.state ≠ .running →
      NoIo s.os.log → NoIo (runFrom s ops).os.log by
    refine h _ ops hns (good_init k oracle pick).1 ?_ ?_
    · cases k <;> simp [Sys.init, Dev.init, Dev.state]
    · simp [Sys.init]; exact NoIo.nil
  intro s ops
  induction ops generalizing s with
  | nil => intro _ _ _ h; exact h
  | cons op ops ih =>
    intro hns hinv hidle hio
    have hop : op ≠ Op.start := hns op (by simp)
    have hrest : ∀ o ∈ ops, o ≠ Op.start := fun o ho => hns o (by simp [ho])
    simp only [runFrom]
    have hstep : Inv (step s op).1 := (step_ok s op hinv).1
    suffices h2 : (step s op).1.dev.state ≠ .running ∧ NoIo (step s op).1.os.log from
      ih _ hrest hstep h2.1 h2.2
    unfold step
    split
    · exact ⟨hidle, hio⟩
    · rename_i hwf
      have hc : s.closed = false := by
        cases hcl : s.closed with
        | false => rfl
        | true => cases op <;> simp [Op.wf, hcl] at hwf
      cases op with
      | set uri md =>
        dsimp only
        obtain ⟨_, hnr, _, seg, hl, hseg⟩ := set_ok s uri md hinv hc hidle
        exact ⟨hnr, by rw [hl]; exact hio.append hseg⟩
      | start => exact absurd rfl hop
      | append fs =>
        dsimp only
        have : storageAppend s fs = (s, .err) := by simp [storageAppend, hidle]
        rw [this]; exact ⟨hidle, hio⟩
      | stop =>
        dsimp only
        have := (stop_ok s hinv hc).2.2.2 hidle
        rw [this]; exact ⟨hidle, hio⟩
      | close =>
        dsimp only
        have hstop := (stop_ok s hinv hc).2.2.2 hidle
        simp only [storageClose, hstop]
        obtain ⟨seg, ht, _, _, hnil⟩ := destroy_ok s.os s.dev hinv.1
        have hseg := hnil hidle
        subst hseg
        refine ⟨?_, ?_⟩
        · cases s.dev <;> simp [Dev.destroy, Dev.setState, Dev.state]
        · have := ht.1
          simp only [List.append_nil] at this
          rw [this]; exact hio

/-- non-vacuity: a set-only history does issue calls (the probe), none of them I/O -/
example : (run .raw (fun _ => .full) (fun _ => 3) [.set [97, 0] [], .close]).os.log
    = [.open [97] (some 3), .close 3 true, .unlink [97]] := by decide

/-- **A write failure is reported.**  For every state of the system whatsoever and every packet:
    if any `pwrite` issued during `storage_append` returns an error, the device is not Running
    when the append returns and the HAL reports `Device_Err` (so the runtime stops the stream). -/
theorem C16_failure_is_reported (s : Sys) (fs : List Frame) :
    ∃ seg, (step s (.append fs)).1.os.log = s.os.log ++ seg ∧
      ((∃ e ∈ seg, e.isFailedPwrite = true) →
        (step s (.append fs)).1.dev.state ≠ .running ∧ (step s (.append fs)).2 ≠ .ok) := by
  suffices h : ∃ seg, (step s (.append fs)).1.os.log = s.os.log ++ seg ∧
      (((step s (.append fs)).1.dev.state = .running ∨ (step s (.append fs)).2 = .ok) → NoFail seg) by
    obtain ⟨seg, hl, hn⟩ := h
    refine ⟨seg, hl, ?_⟩
    rintro ⟨e, he, hf⟩
    constructor
    · intro hr; have := hn (Or.inl hr) e he; rw [this] at hf; cases hf
    · intro hr; have := hn (Or.inr hr) e he; rw [this] at hf; cases hf
  unfold step
  split
  · exact ⟨[], by simp, fun _ => NoFail.nil⟩
  · simp only
    unfold storageAppend
    split
    · exact ⟨[], by simp, fun _ => NoFail.nil⟩
    · split
      · exact ⟨[], by simp, fun _ => NoFail.nil⟩
      · cases hdev : s.dev with
        | raw r =>
          obtain ⟨seg, hl, hn⟩ := rawAppend_nofail s.os r (packetBytes fs)
          refine ⟨seg, by simpa [Dev.append] using hl, ?_⟩
          simp only [Dev.append, Dev.setState, Dev.state]
          rintro (h | h)
          · exact hn h
          · apply hn
            by_cases hne : (rawAppend s.os r (packetBytes fs)).2.2 = .running
            · exact hne
            · simp [hne] at h
        | tiff t =>
          obtain ⟨seg, hl, hn⟩ := tiffAppend_nofail s.os t (fs.map Frame.io)
          refine ⟨seg, by simpa [Dev.append] using hl, ?_⟩
          simp only [Dev.append, Dev.setState, Dev.state]
          rintro (h | h)
          · exact hn h
          · apply hn
            by_cases hne : (tiffAppend s.os t (fs.map Frame.io)).2.2 = .running
            · exact hne
            · simp [hne] at h
        | sxs x =>
          obtain ⟨seg, hl, hn⟩ := sxsAppend_nofail s.os x (fs.map Frame.io)
          refine ⟨seg, by simpa [Dev.append] using hl, ?_⟩
          simp only [Dev.append, Dev.setState, Dev.state]
          rintro (h | h)
          · exact hn h
          · apply hn
            by_cases hne : (sxsAppend s.os x (fs.map Frame.io)).2.2 = .running
            · exact hne
            · simp [hne] at h
        | trash t =>
          exact ⟨[], by simp [Dev.append], fun _ => NoFail.nil⟩

/-- **Any write failure is reported** — in the code's own sense of "a write failed": `file_write`
    returned 0, be it for an error return of `pwrite` or because three `pwrite`s wrote nothing
    (the ghost counter `wfails` counts exactly these, `fileWrite_wfails`).  For every state and every
    packet: if `file_write` fails anywhere inside `storage_append`, the device is not Running when the
    append returns and the HAL reports `Device_Err`. -/
theorem C16_write_failure_is_reported (s : Sys) (fs : List Frame)
    (h : (step s (.append fs)).1.os.wfails ≠ s.os.wfails) :
    (step s (.append fs)).1.dev.state ≠ .running ∧ (step s (.append fs)).2 ≠ .ok := by
  suffices hs : ((step s (.append fs)).1.dev.state = .running ∨ (step s (.append fs)).2 = .ok) →
      (step s (.append fs)).1.os.wfails = s.os.wfails by
    constructor
    · intro hr; exact h (hs (Or.inl hr))
    · intro hr; exact h (hs (Or.inr hr))
  unfold step
  split
  · intro _; rfl
  · simp only
    unfold storageAppend
    split
    · intro _; rfl
    · split
      · intro _; rfl
      · cases hdev : s.dev with
        | raw r =>
          simp only [Dev.append, Dev.setState, Dev.state]
          intro hr
          apply rawAppend_wfails
          rcases hr with hr | hr
          · exact hr
          · by_cases hne : (rawAppend s.os r (packetBytes fs)).2.2 = .running
            · exact hne
            · simp [hne] at hr
        | tiff t =>
          simp only [Dev.append, Dev.setState, Dev.state]
          intro hr
          apply tiffAppend_wfails
          rcases hr with hr | hr
          · exact hr
          · by_cases hne : (tiffAppend s.os t (fs.map Frame.io)).2.2 = .running
            · exact hne
            · simp [hne] at hr
        | sxs x =>
          simp only [Dev.append, Dev.setState, Dev.state]
          intro hr
          apply sxsAppend_wfails
          rcases hr with hr | hr
          · exact hr
          · by_cases hne : (sxsAppend s.os x (fs.map Frame.io)).2.2 = .running
            · exact hne
            · simp [hne] at hr
        | trash t => intro _; rfl

/-- non-vacuity: three `pwrite`s that write nothing exhaust the retry budget: no call returned an error,
    yet a write failure is counted, the device stops, closes its file and reports an error -/
example :
    let s : Sys := { os := { oracle := fun _ => .zero, pick := fun _ => 3, fds := [(3, [97])] },
                     dev := .raw { state := .running, isOpen := true, fid := 3 } }
    (step s (.append [{ bytes := [1] }])).1.os.log =
      [.pwrite 3 0 1 (some 0), .pwrite 3 0 1 (some 0), .pwrite 3 0 1 (some 0), .close 3 true] ∧
    (step s (.append [{ bytes := [1] }])).1.os.wfails = 1 ∧ (step s (.append [{ bytes := [1] }])).2 = .err := by
  simp [step, Op.wf, storageAppend, Dev.state, packetBytes, Dev.append, rawAppend, fileWrite, fileWriteLoop,
    sysPwrite, pwriteCount, rawStop, fileClose, sysClose, Dev.setState, Os.fdKeys, List.lookup]

/-- non-vacuity: a running raw device whose `pwrite` fails — the premise holds, the device stops and closes -/
example :
    let s : Sys := { os := { oracle := fun _ => .fail, pick := fun _ => 3, fds := [(3, [97])] },
                     dev := .raw { state := .running, isOpen := true, fid := 3 } }
    (step s (.append [{ bytes := [1] }])).1.os.log = [.pwrite 3 0 1 none, .close 3 false] ∧
    (step s (.append [{ bytes := [1] }])).2 = .err := by
  simp [step, Op.wf, storageAppend, Dev.state, packetBytes, Dev.append, rawAppend, fileWrite, fileWriteLoop,
    sysPwrite, pwriteCount, rawStop, fileClose, sysClose, Dev.setState, Os.fdKeys, List.lookup]

end AcqVerif.C16
