import AcqVerif.Channel.ConcStep
import AcqVerif.Props.C01
import AcqVerif.Props.C02
/-!
# C01 / C02 under threads

`Props/C01.lean` and `Props/C02.lean` quantify over histories of *atomic* channel calls.  The calls of
`channel.c` are not atomic: `channel_write_map` sleeps in `condition_variable_wait` in the middle of its
body and re-evaluates `next_write` after every wake-up, while readers and the refuser run.  The
interleaving model `Channel.Conc` (one step = what a thread does between two synchronisation calls; tied
to the real code by the co-simulation on the deterministic scheduler) covers exactly that.  The theorems
here say that threads add nothing: **every state of every schedule of every single-writer program is a
state some well-formed sequential history reaches** — so every C01 / C02 theorem applies to it — and
the region a writer is handed *after having slept* is as disjoint from the readers as one handed at once.
-/
namespace AcqVerif.ChanThreads
open AcqVerif AcqVerif.Channel

variable {cap : Nat} {cs : CState}

/-- every state of every schedule is reachable by a well-formed history of atomic calls -/
theorem every_schedule_is_a_history (r : CReach cap cs) : ∃ g, Reachable cap cs.sys g :=
  r.inv.sysok

/-- **C01.3 under threads** — whatever the schedule, the bytes reader `i` has consumed so far are exactly the
stream positions `join i … idx i − 1` in order -/
theorem consumed_is_stream (r : CReach cap cs) (i : Nat) (hi : i < cs.sys.rds.length) :
    ∃ g : Ghost, nth g.seen i = (List.range' (nth cs.sys.join i) (nth cs.sys.idx i - nth cs.sys.join i)).map some ∧
      nth cs.sys.idx i ≤ cs.sys.total := by
  obtain ⟨g, hg⟩ := r.inv.sysok
  have := C01.consumed_is_stream hg i hi
  exact ⟨g, this.1, this.2.2.1⟩

/-- **C01 under threads** — in no schedule does a reader's status leave `Channel_Ok` -/
theorem status_stays_ok (r : CReach cap cs) (i : Nat) (hi : i < cs.sys.rds.length) :
    (nth cs.sys.rds i).status = 0 := by
  obtain ⟨g, hg⟩ := r.inv.sysok
  exact C01.status_stays_ok hg i hi

/-- **C02 under threads** — the body a thread runs when it gets (or gets back, after a sleep) the lock is one
atomic `step` on the current state; if it hands the writer a region, that region lies inside the buffer.
(`woken` is the case the sequential model cannot express: the placement is computed from the state *after*
the sleep, not from anything remembered from before it.) -/
theorem write_region_in_buffer (r : CReach cap cs) (n beg : Nat)
    (hw : (step cs.sys (.wmap n)).2 = .wok beg) : beg + n ≤ cap := by
  obtain ⟨g, hg⟩ := r.inv.sysok
  exact C02.write_region_in_buffer hg n beg hw

/-- the state a woken (or first-time) writer leaves behind is `step` of the state it found: nothing is carried
over a sleep except the request itself -/
theorem woken_body_is_step (t : Nat) (m : Nat) (rest : List Op) (cs' : CState)
    (hth : cs.threads[t]? = some { pc := .woken, prog := .wmap m :: rest })
    (e : cstep cs t = some cs') :
    cs'.sys = cs.sys ∨ cs'.sys = (step cs.sys (.wmap m)).1 := by
  unfold cstep at e
  simp only [hth] at e
  split at e
  · cases e
    unfold runBody
    cases hs : step cs.sys (.wmap m) with
    | mk s' out =>
      cases out <;> simp [notifies]
  · cases e

end AcqVerif.ChanThreads
