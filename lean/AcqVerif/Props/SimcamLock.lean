import AcqVerif.Generated.SimcamSync
/-!
# Lock discipline of `simulated.camera.c` (part of C18)

The interleaving model of the simulated camera (`SimConc`) switches threads only at synchronisation calls.  For the real code that is
sound only if what the streamer thread and the callers share is touched under `im.lock`.  `Generated/SimcamSync.lean` is regenerated from
the source on every run (`extract/simskel.py`, clang AST): every access to a field of `struct SimulatedCamera` in the vtable functions
and in the streamer thread, with whether `im.lock` is held.  The theorems below are `decide`d over that table, so they are statements
about the file as it is now.

The unchanged code does touch some fields without the lock; each such access is listed here with the reason it is harmless for C18
(fresh, increasing, trigger-gated frames).  Any *other* unlocked access makes `unlocked_accesses_are_the_known_ones` fail.
-/
namespace AcqVerif.SimcamLock
open AcqVerif.Generated.SimcamSync

/-- (function, field, is-write) of the accesses the unchanged code makes without holding `im.lock` -/
def knownUnlocked : List (String × String × Bool) := [
  -- getters: a snapshot of the settings / the shape for the caller; the streamer never writes them (only `simcam_set` does, under the lock)
  ("simcam_get", "properties", false),
  ("simcam_get_meta", "properties.binning", false),
  ("simcam_get_meta", "properties.shape", false),
  ("simcam_get_shape", "im.shape", false),
  -- argument checks of `simcam_get_frame` before it takes the lock (buffer large enough, camera running)
  ("simcam_get_frame", "im.shape", false),
  ("simcam_get_frame", "streamer.is_running", false),
  -- `simcam_set` looks at the trigger setting to decide whether to fire the trigger before it takes the lock
  ("simcam_set", "properties.input_triggers", false),
  -- `simcam_start` resets the counters and flags *before* it creates the streamer thread (the previous one has been joined)
  ("simcam_start", "im.frame_id", true),
  ("simcam_start", "im.frame_wanted", true),
  ("simcam_start", "im.last_emitted_frame_id", true),
  ("simcam_start", "software_trigger.triggered", true),
  ("simcam_start", "streamer.is_running", true),
  -- the stop flag: written by `simcam_stop`, polled by the streamer at the top of its loop (a one-way flag, followed by a trigger and a join)
  ("simcam_stop", "streamer.is_running", true),
  ("simulated_camera_streamer_thread", "streamer.is_running", false),
  -- the streamer's own start value and its private render buffer (handed over by the swap under the lock); camera kind and binning are set-time constants
  ("simulated_camera_streamer_thread", "im.frame_id", false),
  ("simulated_camera_streamer_thread", "im.render_data", false),
  ("simulated_camera_streamer_thread", "kind", false),
  ("simulated_camera_streamer_thread", "properties.binning", false),
  -- "does anybody want a frame?" is polled once per rendered frame before the lock is taken for the swap (a missed update delays a frame by one period)
  ("simulated_camera_streamer_thread", "im.frame_wanted", false)
]

/-- **every access without the lock is one of the known ones** -/
theorem unlocked_accesses_are_the_known_ones :
    ∀ a ∈ accesses, a.2.2.2 = false → (a.1, a.2.1, a.2.2.1) ∈ knownUnlocked := by decide

/-- what C18 rests on: the frame counter, the "last handed out" mark, the published buffer, the hardware timestamp and the trigger flag
are *written* only under the lock (or by `simcam_start`, before the streamer exists), and `simcam_get_frame` reads the frame it hands out —
id, buffer, timestamp — only under the lock -/
theorem frame_state_is_guarded :
    (∀ a ∈ accesses, a.2.2.1 = true → a.2.2.2 = false →
        a.2.1 ∈ ["im.frame_id", "im.last_emitted_frame_id", "im.frame_data", "hardware_timestamp", "software_trigger.triggered", "im.frame_wanted"] →
        a.1 = "simcam_start") ∧
    (∀ a ∈ accesses, a.1 = "simcam_get_frame" → a.2.2.2 = false →
        a.2.1 ∉ ["im.frame_id", "im.frame_data", "hardware_timestamp", "im.last_emitted_frame_id"]) := by decide

/-- both waits happen with the lock held -/
theorem waits_hold_the_lock : ∀ w ∈ waits, w.2 = true := by decide

/-- non-vacuity: the table is not empty and contains locked accesses of the frame state by both sides -/
example : ("simcam_get_frame", "im.frame_id", false, true) ∈ accesses ∧ ("simulated_camera_streamer_thread", "im.frame_id", true, true) ∈ accesses := by decide

end AcqVerif.SimcamLock
