import AcqVerif.Runtime.Clean
import AcqVerif.Runtime.Data.StopReach
/-!
# C07 — abort and stop always return and leave a reusable runtime

Model: M1 (`AcqVerif.Runtime`). Safety half, for every scenario, client program and schedule: when `acquire_stop` or
`acquire_abort` returns, all worker threads of all streams have finished, every `is_running` flag is clear, cameras and
storages are stopped and the runtime is Armed; `acquire_stop` has joined exactly the threads it has passed; nothing can
be running while `runtime.state` is not Running outside start/abort/stop.

"returns after finitely many steps" is a liveness claim that needs scheduler fairness; it is decided on the real code by
the HANG / DEADLOCK / STEP-LIMIT oracle of the deterministic scheduler over the explored schedules (see DESIGN.md, C07),
together with C03's proved no-lost-wake-up and refusal lemmas for the channel the workers block on (partial).
-/
namespace AcqVerif.C07
open AcqVerif.Runtime

/-- the action with which `acquire_stop` (also at the end of `acquire_abort`) returns -/
def isStopReturn (a : Act RT) : Prop := a.name = "cl.stop.end"

theorem stop_return_shape : ∀ a ∈ clientActs, isStopReturn a → ∀ rt, (a.upd rt).state = .armed ∧ (a.upd rt).client.pc = .next := by
  apply client_families (fun a => isStopReturn a → ∀ rt, (a.upd rt).state = .armed ∧ (a.upd rt).client.pc = .next)
  · intro a ha hn; unfold clientBase at ha; unfold isStopReturn at hn; each_action ha <;> simp at hn
  · intro s a ha hn; unfold clMon at ha; unfold isStopReturn at hn; each_action ha <;> simp at hn
  · intro s a ha hn; unfold clCfg at ha; unfold isStopReturn at hn; each_action ha <;> simp at hn
  · intro s a ha hn; unfold clStart at ha; unfold isStopReturn at hn; each_action ha <;> simp at hn
  · intro s a ha hn; unfold clErr at ha; unfold isStopReturn at hn; each_action ha <;> simp at hn
  · intro s a ha hn; unfold clStop at ha; unfold isStopReturn at hn
    each_action ha <;> simp at hn
    intro rt; exact ⟨rfl, rfl⟩
  · intro s a ha hn; unfold clAcc at ha; unfold isStopReturn at hn; each_action ha <;> simp at hn
  · intro s r _ a ha hn; unfold clientFlush at ha; unfold isStopReturn at hn; each_action ha <;> simp at hn

/-- (1) **When stop/abort returns, the runtime is Armed and everything is at rest**: in any reachable state in which
the returning action of `acquire_stop` is enabled, firing it gives state Armed, the client back at its next call, and
for every stream: workers finished, flags clear, camera and storage not Running. -/
theorem stop_returns_armed_and_clean (rt : RT) (h : MReach rt) (a : Act RT) (ha : a ∈ clientActs)
    (hn : isStopReturn a) (hg : a.guard rt = true) :
    (a.upd rt).state = .armed ∧ (a.upd rt).client.pc = .next ∧ ∀ s, Clean (getS (a.upd rt) s) := by
  obtain ⟨h1, h2⟩ := stop_return_shape a ha hn rt
  refine ⟨h1, h2, fun s => ?_⟩
  exact idle_is_clean _ (.client rt a h ha hg) (by rw [h2]; decide) (by rw [h1]; decide) s

/-- (2) `acquire_stop` has joined what it has passed: every stream below the one it is working on has no live worker,
and within the current stream the source / filter / sink are finished as soon as their join has returned. -/
theorem stop_has_joined (rt : RT) (h : MReach rt) (s : Nat) :
    (∀ k, stopBelow rt.client.pc = some k → s < k → AllDone (getS rt s)) ∧
    (1 ≤ stopStage rt.client.pc s → (getS rt s).src.pc = .done) ∧
    (2 ≤ stopStage rt.client.pc s → (getS rt s).flt.pc = .done) ∧
    (3 ≤ stopStage rt.client.pc s → (getS rt s).snk.pc = .done) :=
  let t := TInvAll.micro rt h s
  ⟨t.joined_below, t.joined_src, t.joined_flt, t.joined_snk⟩

/-- (3) a thread is only ever created over one that has finished (so a restart cannot leave an orphan worker
of the aborted acquisition behind) -/
theorem start_over_finished_threads (rt : RT) (h : MReach rt) (s : Nat) :
    (1 ≤ stage rt.client.pc s → stage rt.client.pc s ≤ 4 → (getS rt s).snk.pc = .done) ∧
    (1 ≤ stage rt.client.pc s → stage rt.client.pc s ≤ 5 → (getS rt s).flt.pc = .done) ∧
    (1 ≤ stage rt.client.pc s → stage rt.client.pc s ≤ 8 → (getS rt s).src.pc = .done) :=
  let t := TInvAll.micro rt h s
  ⟨t.start_snk, t.start_flt, t.start_src⟩

/-- (4) outside start/abort/stop: not Running ⇒ at rest (what a subsequent configure/start relies on) -/
theorem idle_runtime_is_clean (rt : RT) (h : MReach rt) (hq : quiet rt.client.pc = true) (hs : rt.state ≠ .running) (s : Nat) :
    Clean (getS rt s) :=
  idle_is_clean rt h hq hs s

/-- (5) **abort reaches a source that sleeps on a full ring** (no lost wake-up at pipeline level): a source decides to sleep
only while the channel accepts writes and holds the channel's lock until it is asleep; so whenever it is asleep on a channel
that refuses writes — after `acquire_abort` or the sink's error path — the one who refused has its `notify_all` still ahead
of it. (Client keeping the map/unmap rule.) -/
theorem refusal_wakes_a_sleeping_source (rt : RT) (h : MReach rt) (s : Nat) (hm : rt.client.misused = false) :
    ((getS rt s).src.pc = .wmapWait → (getS rt s).sinkCh.c.accepting = true) ∧
    ((getS rt s).src.pc = .wmapAsleep → (getS rt s).sinkCh.c.accepting = false →
      (getS rt s).snk.pc = .errAccNotify ∨ rt.client.pc = .accNotify s 1) :=
  ⟨(DWake.micro rt h s (Here.intro _) hm).held, (DWake.micro rt h s (Here.intro _) hm).refused_wakes⟩

/-- (6) **`acquire_stop` never waits for a sleeper that only a dead sink could wake**: while the client is inside
`acquire_stop` (which joins the source first) and the source of a configured stream is asleep on a full ring, either a
refusal's `notify_all` is still on its way (5), or the channel accepts writes and the stream's sink thread is alive and has
not passed the point of its error path where it refuses writes — so the reader that frees the ring is still running.
(The remaining way to stall — a client that keeps the *monitor* reader's region mapped — is the known finding of C07.) -/
theorem stop_never_waits_for_an_orphaned_sleeper (rt : RT) (h : MReach rt) (s : Nat) (hm : rt.client.misused = false) (hF : 0 < (getS rt s).F)
    (hv : (getS rt s).valid = true) (hc : (stopBelow rt.client.pc).isSome = true) (hs : (getS rt s).src.pc = .wmapAsleep) :
    ((getS rt s).snk.pc = .errAccNotify ∨ rt.client.pc = .accNotify s 1) ∨
    ((getS rt s).sinkCh.c.accepting = true ∧ (getS rt s).snk.pc ≠ .exit ∧ (getS rt s).snk.pc ≠ .done ∧
      snkErrLate (getS rt s).snk.pc = false) := by
  have w := DWake.micro rt h s (Here.intro _) hm
  have d := DStop.micro rt h s (Here.intro _) hm hF
  have hnd : (getS rt s).src.pc ≠ .done := by rw [hs]; simp
  cases hacc : (getS rt s).sinkCh.c.accepting with
  | false => exact .inl (w.refused_wakes hs hacc)
  | true =>
    refine .inr ⟨rfl, ?_⟩
    have hacc' : (AcqVerif.Channel.cv (getS rt s).sinkCh).acc = true := hacc
    have hnf : srcFin (getS rt s).src.pc = false := by rw [hs]; rfl
    -- a sink that ended normally means the source had left its loop, or a failed start — whose abort refused writes
    have hdr : (getS rt s).sto.drained = false := by
      cases hd : (getS rt s).sto.drained with
      | false => rfl
      | true =>
        rcases d.drained_fin hd with e | e
        · rw [hnf] at e; cases e
        · have := d.abort_refuses (.inr e) (pastAccFalse_of_stop hc) hv hnd
          rw [hacc'] at this; cases this
    have key := fun hx => d.err_refuses hx (.inl hnd)
    refine ⟨?_, ?_, ?_⟩
    · intro e; have := key (.inr ⟨.inl e, hdr⟩); rw [hacc'] at this; cases this
    · intro e; have := key (.inr ⟨.inr e, hdr⟩); rw [hacc'] at this; cases this
    · cases hl : snkErrLate (getS rt s).snk.pc with
      | false => rfl
      | true => have := key (.inl hl); rw [hacc'] at this; cases this

/-- non-vacuity: a scenario with an abort is an initial state the theorems start from -/
example : MReach (initRT 400 [some { F := 104, n := 1000 }, none] [.start, .sleep 7, .abort, .start, .stop]) := .init _ _ _

end AcqVerif.C07
