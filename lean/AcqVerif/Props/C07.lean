import AcqVerif.Runtime.Clean
import AcqVerif.Runtime.Data.WakeReach
/-!
# C07 — abort and stop always return and leave a reusable runtime

Model: M1 (`AcqVerif.Runtime`). Safety half, for every scenario, client program and schedule: when `acquire_stop` or
`acquire_abort` returns, all worker threads of all streams have finished, every `is_running` flag is clear, cameras and
storages are stopped and the runtime is Armed; `acquire_stop` has joined exactly the threads it has passed; nothing can
be running while `runtime.state` is not Running outside start/abort/stop.

"returns after finitely many steps" is a liveness claim that needs scheduler fairness; it is decided on the real code by
the HANG / DEADLOCK / STEP-LIMIT oracle of the deterministic scheduler over the explored schedules (see DESIGN.md, C07),
together with C03's proved no-lost-wake-up and refusal lemmas for the channel the workers block on (partial).
-/
namespace AcqVerif.C07
open AcqVerif.Runtime

/-- the action with which `acquire_stop` (also at the end of `acquire_abort`) returns -/
def isStopReturn (a : Act RT) : Prop := a.name = "cl.stop.end"

theorem stop_return_shape : ∀ a ∈ clientActs, isStopReturn a → ∀ rt, (a.upd rt).state = .armed ∧ (a.upd rt).client.pc = .next := by
  apply client_families (fun a => isStopReturn a → ∀ rt, (a.upd rt).state = .armed ∧ (a.upd rt).client.pc = .next)
  · intro a ha hn; unfold clientBase at ha; unfold isStopReturn at hn; each_action ha <;> simp at hn
  · intro s a ha hn; unfold clMon at ha; unfold isStopReturn at hn; each_action ha <;> simp at hn
  · intro s a ha hn; unfold clCfg at ha; unfold isStopReturn at hn; each_action ha <;> simp at hn
  · intro s a ha hn; unfold clStart at ha; unfold isStopReturn at hn; each_action ha <;> simp at hn
  · intro s a ha hn; unfold clErr at ha; unfold isStopReturn at hn; each_action ha <;> simp at hn
  · intro s a ha hn; unfold clStop at ha; unfold isStopReturn at hn
    each_action ha <;> simp at hn
    intro rt; exact ⟨rfl, rfl⟩
  · intro s a ha hn; unfold clAcc at ha; unfold isStopReturn at hn; each_action ha <;> simp at hn
  · intro s r _ a ha hn; unfold clientFlush at ha; unfold isStopReturn at hn; each_action ha <;> simp at hn

/-- (1) **When stop/abort returns, the runtime is Armed and everything is at rest**: in any reachable state in which
the returning action of `acquire_stop` is enabled, firing it gives state Armed, the client back at its next call, and
for every stream: workers finished, flags clear, camera and storage not Running. -/
theorem stop_returns_armed_and_clean (rt : RT) (h : MReach rt) (a : Act RT) (ha : a ∈ clientActs)
    (hn : isStopReturn a) (hg : a.guard rt = true) :
    (a.upd rt).state = .armed ∧ (a.upd rt).client.pc = .next ∧ ∀ s, Clean (getS (a.upd rt) s) := by
  obtain ⟨h1, h2⟩ := stop_return_shape a ha hn rt
  refine ⟨h1, h2, fun s => ?_⟩
  exact idle_is_clean _ (.client rt a h ha hg) (by rw [h2]; decide) (by rw [h1]; decide) s

/-- (2) `acquire_stop` has joined what it has passed: every stream below the one it is working on has no live worker,
and within the current stream the source / filter / sink are finished as soon as their join has returned. -/
theorem stop_has_joined (rt : RT) (h : MReach rt) (s : Nat) :
    (∀ k, stopBelow rt.client.pc = some k → s < k → AllDone (getS rt s)) ∧
    (1 ≤ stopStage rt.client.pc s → (getS rt s).src.pc = .done) ∧
    (2 ≤ stopStage rt.client.pc s → (getS rt s).flt.pc = .done) ∧
    (3 ≤ stopStage rt.client.pc s → (getS rt s).snk.pc = .done) :=
  let t := TInvAll.micro rt h s
  ⟨t.joined_below, t.joined_src, t.joined_flt, t.joined_snk⟩

/-- (3) a thread is only ever created over one that has finished (so a restart cannot leave an orphan worker
of the aborted acquisition behind) -/
theorem start_over_finished_threads (rt : RT) (h : MReach rt) (s : Nat) :
    (1 ≤ stage rt.client.pc s → stage rt.client.pc s ≤ 4 → (getS rt s).snk.pc = .done) ∧
    (1 ≤ stage rt.client.pc s → stage rt.client.pc s ≤ 5 → (getS rt s).flt.pc = .done) ∧
    (1 ≤ stage rt.client.pc s → stage rt.client.pc s ≤ 8 → (getS rt s).src.pc = .done) :=
  let t := TInvAll.micro rt h s
  ⟨t.start_snk, t.start_flt, t.start_src⟩

/-- (4) outside start/abort/stop: not Running ⇒ at rest (what a subsequent configure/start relies on) -/
theorem idle_runtime_is_clean (rt : RT) (h : MReach rt) (hq : quiet rt.client.pc = true) (hs : rt.state ≠ .running) (s : Nat) :
    Clean (getS rt s) :=
  idle_is_clean rt h hq hs s

/-- (5) **abort reaches a source that sleeps on a full ring** (no lost wake-up at pipeline level): a source decides to sleep
only while the channel accepts writes and holds the channel's lock until it is asleep; so whenever it is asleep on a channel
that refuses writes — after `acquire_abort` or the sink's error path — the one who refused has its `notify_all` still ahead
of it. (Stream without scripted camera faults, client keeping the map/unmap rule.) -/
theorem refusal_wakes_a_sleeping_source (rt : RT) (h : MReach rt) (s : Nat) (hf : (getS rt s).cam.failAt = none)
    (he : (getS rt s).cam.emptyEvery = 0) (hm : rt.client.misused = false) :
    ((getS rt s).src.pc = .wmapWait → (getS rt s).sinkCh.c.accepting = true) ∧
    ((getS rt s).src.pc = .wmapAsleep → (getS rt s).sinkCh.c.accepting = false →
      (getS rt s).snk.pc = .errAccNotify ∨ rt.client.pc = .accNotify s 1) :=
  ⟨(DWake.micro rt h s hf he hm).held, (DWake.micro rt h s hf he hm).refused_wakes⟩

/-- non-vacuity: a scenario with an abort is an initial state the theorems start from -/
example : MReach (initRT 400 [some { F := 104, n := 1000 }, none] [.start, .sleep 7, .abort, .start, .stop]) := .init _ _ _

end AcqVerif.C07
