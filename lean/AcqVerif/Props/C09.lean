import AcqVerif.Runtime.Clean
import AcqVerif.Props.C04
/-!
# C09 — a failing camera or storage winds the acquisition down cleanly

Model: M1 (`AcqVerif.Runtime`: source, filter, sink and client threads as guarded commands over the channel model,
the HAL device states and a scripted fault per device). Every theorem is for **every scenario** (ring capacity, stream
shapes and frame counts, client program, fault index, persistent or not) and **every state that any schedule reaches**,
micro-steps included (`MReach`). The co-simulation of `checks/c09.py` ties M1 to the real runtime decision by decision.

Proved here: the storage of a run in which a device fails holds a gap-free prefix of the camera's frames, and an acquisition that
follows on the same stream and is itself left alone is complete and correct (5, 6: C04's theorems hold for streams with scripted
camera *and* storage failures — a failed `camera_get_frame` leaves the write region mapped, and the next acquisition's first
`channel_write_map` replaces it, which is within the channel's rules); nothing reaches a device after its failure; the failed camera is stopped (exactly once); the runtime stops
reporting Running once the workers have exited. "stop and abort still return" is a liveness claim: the model cannot
carry it without a fairness assumption — it is decided on the implementation by the HANG/DEADLOCK oracle of the
deterministic scheduler, and the channel-level progress lemmas of C03 are what the wind-down relies on (partial).
-/
namespace AcqVerif.C09
open AcqVerif.Runtime

/-- (1) No append reaches the storage driver after a failed append: the ghost counter of such appends is 0 in every
reachable state, and the sink thread is at its `storage_append` call only with a storage that has not failed. -/
theorem nothing_appended_after_failed_append (rt : RT) (h : MReach rt) (s : Nat) :
    (getS rt s).sto.appendsAfterFailure = 0 ∧ ((getS rt s).snk.pc = .append → (getS rt s).sto.failed = false) :=
  ⟨(StoOk.micro rt h s).none_after_failure, (StoOk.micro rt h s).append_not_failed⟩

/-- (1') a storage whose append failed is no longer Running (so the HAL refuses further appends) -/
theorem failed_storage_not_running (rt : RT) (h : MReach rt) (s : Nat) :
    (getS rt s).sto.failed = true → (getS rt s).sto.state ≠ .running :=
  (StoOk.micro rt h s).failed_not_running

/-- (1'') the same for the camera: no `get_frame` reaches the driver after a failed one -/
theorem no_frame_call_after_failed_frame_call (rt : RT) (h : MReach rt) (s : Nat) :
    (getS rt s).cam.callsAfterFailure = 0 ∧ ((getS rt s).src.pc = .getFrame → (getS rt s).cam.failed = false) :=
  ⟨(CamOk.micro rt h s).none_after_failure, (CamOk.micro rt h s).frame_not_failed⟩

/-- (2) The camera whose frame call failed is stopped: it is either at the driver `stop` that `camera_get_frame`
issues on failure, or no longer Running; and once its source thread has finished it is not Running. -/
theorem failed_camera_is_stopped (rt : RT) (h : MReach rt) (s : Nat) :
    ((getS rt s).cam.failed = true → (getS rt s).src.pc = .failStop ∨ (getS rt s).cam.state ≠ .running) ∧
    ((getS rt s).src.pc = .done → stage rt.client.pc s ≠ 8 → (getS rt s).cam.state ≠ .running) := by
  refine ⟨(CamOk.micro rt h s).failed_stopped, fun hd h8 hc => ?_⟩
  have t := TInvAll.micro rt h s
  have := t.cam_running hc
  have := t.src_done hd h8
  simp_all

/-- (2') … by exactly one driver `stop` per driver `start`, whoever stops it (failure path, wind-down, error path) -/
theorem one_stop_per_start (rt : RT) (h : MReach rt) (s : Nat) :
    (getS rt s).cam.drvStarts = (getS rt s).cam.drvStops + (if (getS rt s).cam.state = .running then 1 else 0) :=
  (CamOk.micro rt h s).count

/-- (4) Once the workers have exited, `acquire_get_state` no longer says Running. -/
theorem not_running_once_workers_exited (rt : RT) (h : MReach rt) (hq : quiet rt.client.pc = true)
    (hd : ∀ s, AllDone (getS rt s)) : (getState rt).state ≠ .running :=
  AcqVerif.Runtime.not_running_once_workers_exited rt h hq hd

/-- (3, safety half) when `acquire_stop`/`acquire_abort` (or a failed `acquire_start`) has returned, every worker has
finished and every device is stopped — also after a device failure. -/
theorem returned_means_clean (rt : RT) (h : MReach rt) (hq : quiet rt.client.pc = true) (hs : rt.state ≠ .running) (s : Nat) :
    Clean (getS rt s) :=
  idle_is_clean rt h hq hs s

/-- (5) **what a failing run leaves in the storage is a gap-free prefix**: in every reachable state — whatever failed, camera or
storage, at whatever call — the storage's log of the current run is the camera's frames `0 … m-1` of that run, unchanged. -/
theorem faulty_run_stores_a_prefix (rt : RT) (h : MReach rt) (s : Nat) (hm : rt.client.misused = false) (hF : 0 < (getS rt s).F) (hc : (getS rt s).sto.clean = true) :
    ∃ m, m ≤ (getS rt s).sto.ncommit ∧
      (getS rt s).sto.log = (List.range m).map (fun j => (⟨(getS rt s).cam.run, j, j⟩ : Frame)) :=
  C04.stored_is_a_prefix_of_the_camera_frames rt h s hm hF hc

/-- (6) **a later fault-free acquisition is complete and correct**: `disturbed` is a mark of the *current* run (cleared when the
storage is started, set by a failing `camera_get_frame`, a failing append, an abort, a failed start, a re-configuration), so
whatever happened to earlier acquisitions of the stream — including a camera failure that left a write region mapped — an
acquisition that is not disturbed itself has, when the runtime is at rest again, put exactly frames `0 … N-1` into the storage. -/
theorem acquisition_after_a_failure_is_complete (rt : RT) (h : MReach rt) (s : Nat) (hm : rt.client.misused = false) (hF : 0 < (getS rt s).F) (hc : (getS rt s).sto.clean = true)
    (hq : quiet rt.client.pc = true) (hs : rt.state ≠ .running) (hrun : 0 < (getS rt s).sto.run)
    (hnd : (getS rt s).sto.disturbed = false) :
    (getS rt s).sto.log = (List.range (getS rt s).maxFrames).map (fun j => (⟨(getS rt s).cam.run, j, j⟩ : Frame)) :=
  C04.stopped_undisturbed_acquisition_is_complete rt h s hm hF hc hq hs hrun hnd

/-- non-vacuity of (5) and (6): a scenario whose camera fails at its second frame call, with a second acquisition after it -/
example : let rt := initRT 400 [some { F := 104, n := 3, camFail := some 1 }, none] [.start, .stop, .start, .stop]
    MReach rt ∧ (getS rt 0).cam.failAt = some 1 ∧ rt.client.misused = false ∧
    0 < (getS rt 0).F ∧ (getS rt 0).sto.clean = true :=
  ⟨.init _ _ _, by decide, by decide, by decide, by decide⟩

/-! ### the hypotheses are met: a scripted storage failure is reachable -/

/-- non-vacuity: the initial state of a scenario with a storage fault is reachable, quiet and not Running -/
example : MReach (initRT 400 [some { F := 104, n := 3, stoFail := some 1 }, none] [.start, .stop]) ∧
    quiet (initRT 400 [some { F := 104, n := 3, stoFail := some 1 }, none] [.start, .stop]).client.pc = true ∧
    (initRT 400 [some { F := 104, n := 3, stoFail := some 1 }, none] [.start, .stop]).state ≠ .running :=
  ⟨.init _ _ _, by decide, by decide⟩

end AcqVerif.C09
