import AcqVerif.Filter.Bound
/-!
# C10 — frame averaging emits the exact mean of each window of consecutive frames

Model: `AcqVerif/Filter/Model.lean` (`process_data` / `video_filter_thread` of filter.c at frame
granularity, pixel sums as exact integers).  Specification: `AcqVerif/Filter/Spec.lean`.

Reading of the property at this layer.  The camera's frames reach the filter thread through its
input channel; one `channel_read_map` returns one batch.  Which batches the thread sees is the only
thing a schedule of source and filter decides, so "for every schedule" is "for every way of cutting
the input into batches" (`batching_independent`).  What the sink's channel receives is the list of
committed frames (`St.out`); the schedules of filter and sink are explored on the real runtime
(checks/c10.py, pipeline level).

Trusted base for "float mean" (floats are not modelled): an output frame with sums `s` and divisor
`d` stands for the float32 values `fl(fl(s) * fl(1/d))`.  IEEE-754 binary32 adds integers exactly
while every operand and result has absolute value ≤ 2^24, converts 8/16-bit samples exactly, and
`x *= 1.0f/k` is one correctly rounded division and one correctly rounded multiplication.
`partial_sums_exact_range` shows that every operand and every result of `x[i] += y[i]` is below
2^24 whenever `k * maxAbs < 2^24` (`integer_types_exact_window_sizes`: e.g. k ≤ 256 for u16,
k ≤ 65793 for u8).  Above that bound the C computes a rounded sum: the property does not hold
there, and nothing here claims it.
-/
namespace AcqVerif.C10
open AcqVerif.Filter

/-! ## (a) one frame per complete window, in order, exact sums, first id, f32; (b) one extra frame at most -/

/-- **Main theorem.** For every window size `k ≥ 2`, every input, every way of cutting it into
batches, every previous content of the ring memory — as long as the sink's channel takes every
call, no accumulator reset is signalled, all frames have the acquisition's shape and an integer
sample type — the filter thread terminates without error and what it has committed when it exits
is exactly `spec k input`: the windows of `k` consecutive frames, in order. -/
theorem averaging_emits_window_sums (k : Nat) (hk : 2 ≤ k) (sh : Shape) (bs : List Batch)
    (hreset : ∀ b ∈ bs, b.reset = false)
    (hclean : ∀ b ∈ bs, ∀ fe ∈ b.frames, Clean sh fe) :
    (thread k bs true).out = spec k (input bs) ∧ threadFailed k bs = false := by
  unfold thread threadFailed
  rw [threadLoop_noReset k St.init bs hreset, input_eq]
  have hall : ∀ fe ∈ bs.flatMap (·.frames), Clean sh fe := by
    intro fe hfe
    obtain ⟨b, hb, hfe'⟩ := List.mem_flatMap.mp hfe
    exact hclean b hb fe hfe'
  obtain ⟨h1, h2, _⟩ := framesLoop_spec k hk sh _ _ rfl hall St.init rfl
  refine ⟨?_, by simp [h1]⟩
  simpa [St.init] using h2

/-- what `spec` is, window by window: frame `j` (for `j < n / k`) is built from
`input[j*k ..< j*k+k]`; if `k ∤ n` exactly one more frame follows, built from the last `n % k`
frames; nothing else. -/
theorem spec_explicit (k : Nat) (hk : 0 < k) (inp : List Frame) :
    spec k inp = (List.range (inp.length / k)).map (fun j => mkOut k ((inp.drop (j * k)).take k))
      ++ (if inp.length % k = 0 then [] else [mkOut k (inp.drop (inp.length / k * k))]) := by
  unfold spec
  rw [chunks_explicit hk]
  by_cases h : inp.length % k = 0 <;> simp [h, List.map_map, Function.comp_def]

/-- the frame built from a complete window `f :: rest`: id and shape of the window's FIRST frame,
sample type f32, divisor `k`, and pixel `i` = the sum of pixel `i` over the window's frames -/
theorem complete_window_frame (k : Nat) (f : Frame) (rest : List Frame) (hlen : (f :: rest).length = k)
    (hpix : ∀ g ∈ f :: rest, g.pix.length = f.shape.npx) :
    let o := mkOut k (f :: rest)
    o.id = f.id ∧ o.shape = f.shape ∧ o.ty = .f32 ∧ o.div = k ∧ o.sums.length = f.shape.npx ∧
    ∀ i, i < f.shape.npx → o.sums.getD i 0 = ((f :: rest).map fun g => g.pix.getD i 0).sum := by
  refine ⟨rfl, rfl, rfl, ?_, ?_, ?_⟩
  · simp only [mkOut, hlen, if_true]
  · exact sumWindow_length _ _ hpix
  · intro i hi
    exact sumWindow_pointwise _ i hi _ hpix

/-- no input frame is skipped or counted twice: the windows behind the emitted frames, put end to
end, are the input; all of them except possibly the last have exactly `k` frames, and the number
of complete ones is `n / k` -/
theorem windows_partition_input (k : Nat) (hk : 0 < k) (inp : List Frame) :
    (chunks k inp).flatten = inp ∧
    (∀ c ∈ (chunks k inp).dropLast, c.length = k) ∧
    (∀ c ∈ chunks k inp, 0 < c.length ∧ c.length ≤ k) ∧
    ((chunks k inp).filter (fun c => c.length = k)).length = inp.length / k :=
  ⟨chunks_flatten k inp, chunks_incomplete_last hk inp, chunks_mem_length hk inp, chunks_complete_count hk inp⟩

/-- (b) the number of emitted frames is `n / k`, plus one iff a trailing incomplete window exists -/
theorem at_most_one_extra_frame (k : Nat) (hk : 0 < k) (inp : List Frame) :
    (spec k inp).length = inp.length / k + (if inp.length % k = 0 then 0 else 1) := by
  rw [spec_explicit k hk]
  by_cases h : inp.length % k = 0 <;> simp [h]

/-- the extra frame holds the plain sums of the trailing frames (it is committed by `Finalize`
without `normalize`) and carries the id of the first of them -/
theorem trailing_frame (k : Nat) (f : Frame) (rest : List Frame) (hlen : (f :: rest).length < k)
    (hpix : ∀ g ∈ f :: rest, g.pix.length = f.shape.npx) :
    let o := mkOut k (f :: rest)
    o.id = f.id ∧ o.ty = .f32 ∧ o.div = 1 ∧
    ∀ i, i < f.shape.npx → o.sums.getD i 0 = ((f :: rest).map fun g => g.pix.getD i 0).sum := by
  refine ⟨rfl, rfl, ?_, ?_⟩
  · have : ¬ (f :: rest).length = k := by omega
    simp only [mkOut, this, if_false]
  · intro i hi
    exact sumWindow_pointwise _ i hi _ hpix

/-- batching independence: without accumulator resets, the thread's result on `bs` is its result
on the single batch holding all frames (for every environment, including refused maps, shape
changes and unsupported frames) -/
theorem batching_independent (k : Nat) (bs : List Batch) (hreset : ∀ b ∈ bs, b.reset = false) (fin : Bool) :
    thread k bs fin = thread k [{ frames := bs.flatMap (·.frames), reset := false }] fin ∧
    threadFailed k bs = threadFailed k [{ frames := bs.flatMap (·.frames), reset := false }] := by
  unfold thread threadFailed
  rw [threadLoop_noReset k St.init bs hreset,
    threadLoop_noReset k St.init [_] (by simp)]
  simp

/-! ## (c) the sums do not depend on what the ring memory held before -/

theorem independent_of_previous_contents (k : Nat) (bs bs' : List Batch) (g : Nat → Int) (fin : Bool)
    (h : bs.map (Batch.withOld g) = bs'.map (Batch.withOld g)) : thread k bs fin = thread k bs' fin := by
  unfold thread
  rw [← threadLoop_withOld k St.init bs g, ← threadLoop_withOld k St.init bs' g, h]

/-! ## (d) float32 accumulation stays in the range where it is exact -/

/-- Under ANY environment and batching: while the samples are bounded by `M` and `k * M < 2^24`,
every slot of the accumulator after every frame, and every slot of every committed frame, is an
integer of absolute value `< 2^24`; a mapped accumulator has summed fewer than `k` frames. -/
theorem partial_sums_exact_range (k M : Nat) (hk : 2 ≤ k) (hM : k * M < 2 ^ 24) (s : St) (h : Reach k M s) :
    (∀ a, s.acc = some a → s.frameCount < k ∧ ∀ x ∈ a.sums, x.natAbs < 2 ^ 24) ∧
    (∀ o ∈ s.out, ∀ x ∈ o.sums, x.natAbs < 2 ^ 24) := by
  have inv := h.inv hk
  constructor
  · intro a ha
    obtain ⟨_, h2, h3⟩ := inv.accB a ha
    refine ⟨h2, fun x hx => ?_⟩
    have := h3 x hx
    have : s.frameCount * M ≤ k * M := Nat.mul_le_mul_right _ (by omega)
    omega
  · intro o ho x hx
    have := inv.outB o ho x hx
    omega

/-- the states of the thread on any batches are `Reach`able (so the theorem above covers every
intermediate state: apply it to the batches cut off after any frame) -/
theorem thread_states_reachable (k M : Nat) (bs : List Batch) (fin : Bool)
    (hbs : ∀ b ∈ bs, ∀ fe ∈ b.frames, FrameBounded M fe.1) :
    Reach k M (threadLoop k St.init bs).1 ∧ Reach k M (thread k bs fin) :=
  ⟨Reach.init.threadLoop bs hbs, Reach.fin fin (Reach.init.threadLoop bs hbs)⟩

/-- window sizes for which the bound holds, per integer sample type -/
theorem integer_types_exact_window_sizes :
    kmax .u8 = 65793 ∧ kmax .i8 = 131071 ∧ kmax .u10 = 16400 ∧ kmax .u12 = 4097 ∧ kmax .u14 = 1024 ∧
    kmax .u16 = 256 ∧ kmax .i16 = 511 ∧
    (∀ ty k, ty.isInteger = true → k ≤ kmax ty → k * maxAbs ty < 2 ^ 24) ∧
    (∀ ty p, inRange ty p → p.natAbs ≤ maxAbs ty) :=
  ⟨by decide, by decide, by decide, by decide, by decide, by decide, by decide,
   fun _ _ hty hk => kmax_ok hty hk, fun _ _ h => inRange_natAbs h⟩

/-! ## the other branches, stated separately -/

/-- `channel_write_map` refused while no accumulator is mapped: the frame is skipped, the next
frame starts a window.  With clean frames after it, the rest is averaged as if it were the whole input. -/
theorem refused_map_skips_frame (k : Nat) (hk : 2 ≤ k) (sh : Shape) (s : St) (hs : s.acc = none)
    (fr : Frame) (e : FrameEnv) (he : e.ok = false) (rest : List (Frame × FrameEnv))
    (hrest : ∀ fe ∈ rest, Clean sh fe) :
    onFrame k s fr e = (s, true) ∧
    (finalize (framesLoop k s ((fr, e) :: rest)).1 true).out = s.out ++ spec k (rest.map (·.1)) := by
  have h1 : onFrame k s fr e = (s, true) := by simp [onFrame, hs, he]
  refine ⟨h1, ?_⟩
  rw [framesLoop]
  simp only [h1]
  exact (framesLoop_spec k hk sh _ rest rfl hrest s hs).2.1

/-- a frame whose shape differs from the mapped accumulator's: the write is aborted — the frames
summed so far are dropped — and the offending frame itself is NOT used to start a new window;
the next frame starts one. -/
theorem shape_change_drops_window (k : Nat) (hk : 2 ≤ k) (sh : Shape) (s : St) (a : Acc) (hs : s.acc = some a)
    (fr : Frame) (e : FrameEnv) (hne : fr.shape ≠ a.shape) (rest : List (Frame × FrameEnv))
    (hrest : ∀ fe ∈ rest, Clean sh fe) :
    onFrame k s fr e = ({ acc := none, frameCount := 0, out := s.out }, true) ∧
    (finalize (framesLoop k s ((fr, e) :: rest)).1 true).out = s.out ++ spec k (rest.map (·.1)) := by
  have hc : consistentShape a.shape fr.shape = false := by
    simp only [consistentShape, decide_eq_false_iff_not]; exact fun h => hne h.symm
  have h1 : onFrame k s fr e = ({ acc := none, frameCount := 0, out := s.out }, true) := by
    simp [onFrame, hs, hc]
  refine ⟨h1, ?_⟩
  rw [framesLoop]
  simp only [h1]
  exact (framesLoop_spec k hk sh _ rest rfl hrest _ rfl).2.1

/-- `sig_accumulator_reset`: the pending accumulator is dropped, nothing is committed -/
theorem reset_drops_pending (s : St) :
    (resetAcc s).acc = none ∧ (resetAcc s).out = s.out := by
  unfold resetAcc
  cases h : s.acc <;> simp [h]

/-- a frame of a sample type `accumulate` has no case for (f32, anything unknown): `process_data`
fails, the thread exits with an error; a mapped accumulator is committed as it stands -/
theorem unsupported_type_fails_thread (k : Nat) (s : St) (fr : Frame) (e : FrameEnv)
    (hty : fr.ty.isInteger = false) (hmap : s.acc = none → e.ok = true)
    (hshape : ∀ a, s.acc = some a → a.shape = fr.shape) :
    (onFrame k s fr e).2 = false ∧ (onFrame k s fr e).1.acc = none := by
  cases hs : s.acc with
  | none =>
    simp [onFrame, hs, hmap hs, accumulate_unsupported hty, errorPath]
  | some a =>
    have hc : consistentShape a.shape fr.shape = true := by simp [consistentShape, hshape a hs]
    simp [onFrame, hs, hc, accumulate_unsupported hty, errorPath]

/-- `filter_window_frames < 2`: `process_data` itself behaves as with 2 (a window is only tested
for completeness from its second frame on) … -/
theorem window_below_two_acts_as_two (k : Nat) (hk : k ≤ 2) (s : St) (hfc : s.acc ≠ none → 1 ≤ s.frameCount)
    (fr : Frame) (e : FrameEnv) : onFrame k s fr e = onFrame 2 s fr e := by
  unfold onFrame
  cases hs : s.acc with
  | none => rfl
  | some a =>
    have := hfc (by simp [hs])
    have h1 : s.frameCount + 1 ≥ k := by omega
    have h2 : s.frameCount + 1 ≥ 2 := by omega
    simp only [h1, h2]

/-- … but it never gets there: with `frame_average_count < 2` the source thread writes to the
sink's channel directly (`enable_filter = frame_average_count > 1`) and the frames arrive unchanged -/
theorem filter_bypassed_below_two (k : Nat) (hk : k < 2) (bs : List Batch) (fin : Bool) :
    pipeline k bs fin = (input bs).map .raw := by
  have : enableFilter k = false := by simp [enableFilter]; omega
  simp [pipeline, this, input]

/-! ## non-vacuity -/

section Examples

private def sh2 : Shape := Shape.image 2 1
private def fr (id : Nat) (ty : SampleType) (a b : Int) : Frame := { id := id, shape := sh2, ty := ty, pix := [a, b] }
private def env (junk : Int) : FrameEnv := { ok := true, old := fun i => junk + i }
private def refused : FrameEnv := { ok := false, old := fun _ => 0 }

/-- five i8 frames in batches of 2 + 0 + 3, window 2, garbage in the ring -/
private def bs5 : List Batch :=
  [ { frames := [(fr 0 .i8 (-128) 127, env 77), (fr 1 .i8 (-128) 1, env (-5))], reset := false },
    { frames := [], reset := false },
    { frames := [(fr 2 .i8 5 6, env 1000), (fr 3 .i8 7 8, env 3), (fr 4 .i8 (-9) 10, env 9)], reset := false } ]

example : (∀ b ∈ bs5, b.reset = false) ∧ (∀ b ∈ bs5, ∀ fe ∈ b.frames, Clean sh2 fe) := by decide

example : ((thread 2 bs5 true).out.map fun o => (o.id, o.ty, o.sums, o.div)) =
    [(0, .f32, [-256, 128], 2), (2, .f32, [12, 14], 2), (4, .f32, [-9, 10], 1)] := by decide

/-- the main theorem applied to it -/
example : (spec 2 (input bs5)).map (fun o => (o.id, o.sums, o.div)) = [(0, [-256, 128], 2), (2, [12, 14], 2), (4, [-9, 10], 1)] := by
  rw [← (averaging_emits_window_sums 2 (by decide) sh2 bs5 (by decide) (by decide)).1]; decide

/-- same input, other batching, other garbage: same result -/
example : thread 2 bs5 true =
    thread 2 [{ frames := (bs5.flatMap (·.frames)).map fun fe => (fe.1, fe.2.withOld fun _ => 0), reset := false }] true := by
  decide

/-- window 3 over 6 frames: no extra frame -/
example : ((thread 3 [{ frames := (List.range 6).map (fun i => (fr i .u16 65535 (Int.ofNat i), env 4)), reset := false }] true).out.map
    fun o => (o.id, o.sums, o.div)) = [(0, [196605, 3], 3), (3, [196605, 12], 3)] := by decide

/-- a refused map: frame 0 is skipped, the window is frames 1 and 2 -/
example : ((thread 2 [{ frames := [(fr 0 .u8 1 1, refused), (fr 1 .u8 2 2, env 0), (fr 2 .u8 3 3, env 0)], reset := false }] true).out.map
    fun o => (o.id, o.sums, o.div)) = [(1, [5, 5], 2)] := by decide

/-- a reachable state with a mapped accumulator (hypothesis of `partial_sums_exact_range`) -/
example : Reach 3 255 (onFrame 3 St.init (fr 0 .u8 255 0) (env 1)).1 ∧
    (onFrame 3 St.init (fr 0 .u8 255 0) (env 1)).1.acc ≠ none :=
  ⟨Reach.frame _ Reach.init (by simp [FrameBounded, fr]), by decide⟩

example : (256 : Nat) * maxAbs .u16 < 2 ^ 24 ∧ ¬ (257 : Nat) * maxAbs .u16 < 2 ^ 24 := by decide

/-- the unsupported-type hypothesis is satisfiable, and the thread reports failure -/
example : threadFailed 2 [{ frames := [(fr 0 .f32 1 1, env 0)], reset := false }] = true := by decide

end Examples

end AcqVerif.C10
