import AcqVerif.Hal.Inv
/-!
# C11 — HAL wrappers enforce the device protocol and never touch a closed device

For **every** finite history of HAL calls (`History = List (Call × Q)`: camera and storage
`open / set / get / get_meta / get_shape / start / stop / trigger / get_frame / append /
reserve / validate / close`, with every argument class) and **every** answer the driver gives
(`Q`: arbitrary numbers for status codes, `DeviceState`s, the initial state of a new device,
a NULL device, a failing `describe`), about the model of `hal/camera.c`, `hal/storage.c`,
`hal/driver.c` in `AcqVerif/Hal/Model.lean`.

The log contains the driver's view (open / describe / close / vtable calls with answers) *and*
every read and write of the device object's memory.
-/
namespace AcqVerif.C11
open AcqVerif.Hal

/-- **The driver sees only legal calls.**  The complete event log of any history is accepted by
the protocol automaton (`autoStep`): a `stop` reaches the driver only while the device's `state`
field is Running and a successful `start` is not yet stopped; `get_frame` / `append` likewise;
`describe`, every vtable call, every read and every write of the device object happen only while
the device is open (created by the driver, not yet closed); `close` only on an open device. -/
theorem C11_protocol_accepts (h : History) : Accepted (run {} h).2 := by
  obtain ⟨b', h1, _⟩ := run_inv {} h false good_init
  rw [mirror_init] at h1
  simp [Accepted, h1]

example : Accepted (run {} [(.camOpen, [0, Await, Ok]), (.camStart, [Ok]), (.camGetFrame, [Err, Ok]),
    (.camSet true, [Err]), (.camClose, [Ok]), (.stoOpen, [0, Await, Err, Ok]), (.stoOpen, [0, Await, Ok]),
    (.stoSet true, [Running]), (.stoAppend 2, [Running]), (.stoClose, [Armed, Err])]).2 := by decide

/-- the log of that history really contains the restricted calls (the theorem is not about empty logs) -/
example : Ev.call 0 .getFrame Err ∈ (run {} [(.camOpen, [0, Await, Ok]), (.camStart, [Ok]), (.camGetFrame, [Err, Ok])]).2
    ∧ Ev.call 0 .stop Ok ∈ (run {} [(.camOpen, [0, Await, Ok]), (.camStart, [Ok]), (.camGetFrame, [Err, Ok])]).2 := by decide

/-- the automaton is not vacuous: it rejects the behaviour of the unrepaired `storage_close`
(a store into the device after the driver's close), a `stop` without `start`, a frame outside Running,
and a second close -/
example : ¬ Accepted [.drvOpen Ok (some (0, .storage, Await)), .drvDescribe 0 Ok, .drvClose 0 Ok, .wr 0 .state Closed] := by decide
example : ¬ Accepted [.drvOpen Ok (some (0, .camera, Await)), .call 0 .stop Ok] := by decide
example : ¬ Accepted [.drvOpen Ok (some (0, .camera, Await)), .call 0 .start Err, .wr 0 .state Await, .call 0 .getFrame Ok] := by decide
example : ¬ Accepted [.drvOpen Ok (some (0, .storage, Await)), .drvClose 0 Ok, .drvClose 0 Ok] := by decide

/-- **Exactly one close per open.**  After any history, with `s` the HAL state and `log` the event log:
every ordinal below `s.nopen` is a device the driver handed out (`drvOpen Ok`), and
* if it is the device behind the caller's handle, the driver has not been asked to close it;
* otherwise (the caller closed it, `storage_validate` used it, or `describe` failed after `open`
  succeeded) the log contains exactly one `drvClose` of it, and nothing about it afterwards. -/
theorem C11_one_close_per_open (h : History) (id : Nat) (hid : id < (run {} h).1.nopen) :
    (∃ k i, Ev.drvOpen Ok (some (id, k, i)) ∈ (run {} h).2) ∧
    ((∃ d, (run {} h).1.dev = some d ∧ d.id = id ∧ ∀ r, Ev.drvClose id r ∉ (run {} h).2) ∨
     ((∀ d, (run {} h).1.dev = some d → d.id ≠ id) ∧
      ∃ pre r post, (run {} h).2 = pre ++ Ev.drvClose id r :: post ∧
        (∀ r', Ev.drvClose id r' ∉ pre) ∧ (∀ e ∈ post, e.dev ≠ some id))) := by
  obtain ⟨b', h1, hg⟩ := run_inv {} h false good_init
  rw [mirror_init] at h1
  have hb0 : Bounded ({} : Auto) := by intro j hj; simp [ids] at hj
  have hn : id < (mirror (run {} h).1 b').n := hid
  constructor
  · rcases opened_in_log h1 hn with h2 | h2
    · simp at h2
    · exact h2
  · -- a close of `id` anywhere in the log makes `id` dead at the end
    have dead_of_close : ∀ pre r post, (run {} h).2 = pre ++ Ev.drvClose id r :: post →
        id ∉ ids (mirror (run {} h).1 b').live := by
      intro pre r post hsplit
      rw [hsplit] at h1
      obtain ⟨a1, g1, g2⟩ := autoRun_append h1
      obtain ⟨a2, g3, g4⟩ := autoRun_cons g2
      obtain ⟨k1, k2⟩ := close_kills (autoRun_bounded g1 hb0) g3
      exact dead_final g4 k1 k2
    by_cases hheld : ∃ d, (run {} h).1.dev = some d ∧ d.id = id
    · left
      obtain ⟨d, hd1, hd2⟩ := hheld
      refine ⟨d, hd1, hd2, ?_⟩
      intro r hmem
      obtain ⟨pre, post, hsplit⟩ := List.append_of_mem hmem
      apply dead_of_close pre r post hsplit
      simp [mirror, hd1, ids, LD, hd2]
    · right
      have hnot : ∀ d, (run {} h).1.dev = some d → d.id ≠ id := fun d hd hc => hheld ⟨d, hd, hc⟩
      refine ⟨hnot, ?_⟩
      have hdead : id ∉ ids (mirror (run {} h).1 b').live := by
        simp only [mirror]
        cases hs : (run {} h).1.dev with
        | none => simp [ids]
        | some d => simp only [ids, LD, List.map_cons, List.map_nil, List.mem_singleton]; exact fun hc => hnot d hs hc.symm
      rcases closed_in_log h1 hn hdead with h2 | ⟨r, h2⟩
      · simp at h2
      · -- take the first close in the log
        have : ∃ pre r post, (run {} h).2 = pre ++ Ev.drvClose id r :: post ∧ ∀ r', Ev.drvClose id r' ∉ pre := by
          generalize (run {} h).2 = log at h2
          induction log with
          | nil => simp at h2
          | cons e t ih =>
            by_cases he : ∃ r', e = Ev.drvClose id r'
            · obtain ⟨r', he⟩ := he
              exact ⟨[], r', t, by simp [he], by simp⟩
            · have h2' : Ev.drvClose id r ∈ t := by
                rcases List.mem_cons.mp h2 with h3 | h3
                · exact absurd ⟨r, h3.symm⟩ he
                · exact h3
              obtain ⟨pre, r1, post, g1, g2⟩ := ih h2'
              refine ⟨e :: pre, r1, post, by simp [g1], ?_⟩
              intro r' hm
              rcases List.mem_cons.mp hm with h3 | h3
              · exact he ⟨r', h3.symm⟩
              · exact g2 r' h3
        obtain ⟨pre, r1, post, g1, g2⟩ := this
        refine ⟨pre, r1, post, g1, g2, ?_⟩
        rw [g1] at h1
        exact nothing_after_close hb0 h1

/-- a history in which all three ways of losing a device occur: `describe` fails (device 0), the caller closes
(device 1), `storage_validate` (device 2); device 3 is still held -/
example :
    let r := run {} [(.stoOpen, [0, Await, Err, Ok]), (.camOpen, [0, Await, Ok]), (.camClose, [Ok]),
      (.stoValidate, [0, Await, Ok, Armed, Ok]), (.stoOpen, [0, Await, Ok])]
    r.1.nopen = 4 ∧ r.1.dev.map (·.id) = some 3 ∧
      (r.2.filter fun e => match e with | .drvClose _ _ => true | _ => false) = [.drvClose 0 Ok, .drvClose 1 Ok, .drvClose 2 Ok] := by
  decide

/-- **Nothing afterwards, not even a memory write.**  In the log of any history, no event after a
`drvClose id` is about device `id`: no vtable call, no `describe`, no second `close`, no read and no
write of the device object (`Ev.dev` covers all of them), and no new device under that ordinal. -/
theorem C11_nothing_after_close (h : History) (pre post : List Ev) (id r : Nat)
    (hsplit : (run {} h).2 = pre ++ Ev.drvClose id r :: post) : ∀ e ∈ post, e.dev ≠ some id := by
  obtain ⟨b', h1, _⟩ := run_inv {} h false good_init
  rw [mirror_init, hsplit] at h1
  exact nothing_after_close (by intro j hj; simp [ids] at hj) h1

/-- the hypothesis is satisfiable with a non-empty tail: two life times in one history -/
example : (run {} [(.stoOpen, [0, Await, Ok]), (.stoClose, [Ok]), (.stoOpen, [0, Await, Ok]), (.stoSet true, [Armed])]).2 =
    [.drvOpen Ok (some (0, .storage, Await)), .drvDescribe 0 Ok, .wr 0 .driver 0] ++ storageVtableChecks 0 ++
      [.rd 0 (.fn .stop), .rd 0 .state, .wr 0 .state Closed, .rd 0 .driver] ++
    Ev.drvClose 0 Ok :: ([.drvOpen Ok (some (1, .storage, Await)), .drvDescribe 1 Ok, .wr 1 .driver 0] ++ storageVtableChecks 1 ++
      [.rd 1 (.fn .set), .call 1 .set Armed, .wr 1 .state Armed, .rd 1 .state]) := by decide

/-- the `state` of the device `driver_open_device` hands to the caller -/
theorem driverOpenDevice_state (nopen : Nat) (kind : Kind) (q : Q) :
    ((driverOpenDevice nopen kind q).1.map (·.state)).getD Closed =
      if q.getD 0 0 = 0 ∧ q.getD 2 0 = Ok then q.getD 1 0 else Closed := by
  simp only [driverOpenDevice, pop]
  rcases q with _ | ⟨v, _ | ⟨i, _ | ⟨r, t⟩⟩⟩ <;> simp <;> (repeat' split) <;> simp_all

/-- **The reported state follows from the driver's response.**  After every HAL call, the state the HAL
reports (`camera_get_state` / `storage_get_state`; Closed for a NULL handle) is the `table` function of
the kind of the handle, the state reported before, the call and the driver's answers — for every state,
every call and every answer. -/
theorem C11_state_follows_driver (s : HalState) (c : Call) (q : Q) :
    reported (step s c q).1 = table (s.dev.map (·.kind)) (reported s) c q := by
  by_cases hwf : c.wf s = false
  · -- ill-formed calls are no-ops and the table keeps the state
    have : step s c q = (s, [], Err) := by simp [step, hwf]
    rw [this]
    cases hs : s.dev with
    | none => cases c <;> simp [Call.wf, hs] at hwf
    | some d =>
      obtain ⟨id, k, st⟩ := d
      cases c <;> cases k <;> simp [Call.wf, hs, Call.isOpen, Call.kind] at hwf <;> simp [table, reported, hs]
  · replace hwf : c.wf s = true := by simpa using hwf
    cases hs : s.dev with
    | none =>
      cases c
      case camOpen =>
        have hst := driverOpenDevice_state s.nopen .camera q
        have hstep : reported (step s .camOpen q).1 = ((driverOpenDevice s.nopen .camera q).1.map (·.state)).getD Closed := by
          simp only [step, hwf, Bool.not_true, Bool.false_eq_true, if_false, cameraOpen]
          rcases driverOpenDevice s.nopen .camera q with ⟨od, n', e, r, q'⟩
          cases od <;> simp [reported]
        rw [hstep, hst]
        simp [table]
      case stoOpen =>
        have hst := driverOpenDevice_state s.nopen .storage q
        have hstep : reported (step s .stoOpen q).1 = ((driverOpenDevice s.nopen .storage q).1.map (·.state)).getD Closed := by
          simp only [step, hwf, Bool.not_true, Bool.false_eq_true, if_false, storageOpen]
          rcases driverOpenDevice s.nopen .storage q with ⟨od, n', e, r, q'⟩
          cases od <;> simp [reported]
        rw [hstep, hst]
        simp [table]
      all_goals simp [step, hwf, hs, table, reported, nullRet]
    | some d =>
      obtain ⟨id, k, st⟩ := d
      cases c <;> cases k <;> simp [Call.wf, hs, Call.isOpen, Call.kind] at hwf <;>
        simp [step, Call.wf, Call.isOpen, Call.kind, hs, table, reported, onDev, cameraSet, cameraGetter, cameraStart, cameraStop,
          cameraExecuteTrigger, cameraGetFrame, storageSet, storageVoid, storageStart, storageStop, storageAppend,
          storageValidate, pop] <;>
        (repeat' split) <;> simp_all <;> omega

/-- no vtable call is made while opening a device -/
theorem driverOpenDevice_no_call (nopen : Nat) (kind : Kind) (q : Q) (id : Nat) (f : Fn) (r : Nat) :
    Ev.call id f r ∉ (driverOpenDevice nopen kind q).2.2.1 := by
  simp only [driverOpenDevice, pop]
  rcases q with _ | ⟨v, _ | ⟨i, _ | ⟨r, t⟩⟩⟩ <;> simp <;> (repeat' split) <;> simp_all

/-- **`get_frame`, `append` and `stop` reach the driver only from the Running state.**  Whenever one HAL call
on the caller's handle makes the driver see `stop`, `get_frame` or `append`, the call was made on a live handle
to that very device and the HAL state was Running when the call was entered (for `storage_validate`, which
works on a device of its own, the same is part of `C11_protocol_accepts`). -/
theorem C11_running_only_calls (s : HalState) (c : Call) (q : Q) (id : Nat) (f : Fn) (r : Nat)
    (hc : c ≠ .stoValidate) (hf : f = .stop ∨ f = .getFrame ∨ f = .append)
    (hmem : Ev.call id f r ∈ (step s c q).2.1) :
    ∃ d, s.dev = some d ∧ d.id = id ∧ d.state = Running := by
  by_cases hwf : c.wf s = false
  · simp [step, hwf] at hmem
  replace hwf : c.wf s = true := by simpa using hwf
  cases hs : s.dev with
  | none =>
    exfalso
    cases c
    case stoValidate => exact hc rfl
    case camOpen =>
      have := driverOpenDevice_no_call s.nopen .camera q id f r
      simp only [step, hwf, Bool.not_true, Bool.false_eq_true, if_false, cameraOpen] at hmem
      rcases hd : driverOpenDevice s.nopen .camera q with ⟨od, n', e, r', q'⟩
      rw [hd] at hmem this
      cases od <;> simp_all [cameraVtableChecks]
    case stoOpen =>
      have := driverOpenDevice_no_call s.nopen .storage q id f r
      simp only [step, hwf, Bool.not_true, Bool.false_eq_true, if_false, storageOpen] at hmem
      rcases hd : driverOpenDevice s.nopen .storage q with ⟨od, n', e, r', q'⟩
      rw [hd] at hmem this
      cases od <;> simp_all [storageVtableChecks]
    all_goals simp [step, hwf, hs] at hmem
  | some d =>
    obtain ⟨did, k, st⟩ := d
    refine ⟨_, rfl, ?_⟩
    cases c <;> cases k <;> simp [Call.wf, hs, Call.isOpen, Call.kind] at hwf <;>
      first
      | exact absurd rfl hc
      | (simp [step, Call.wf, Call.isOpen, Call.kind, hs, onDev, cameraSet, cameraGetter, cameraStart, cameraStop,
          cameraExecuteTrigger, cameraGetFrame, cameraClose, storageSet, storageVoid, storageStart, storageStop, storageAppend,
          storageClose, driverCloseDevice, pop] at hmem <;>
         (rcases hf with hf | hf | hf <;> subst hf <;> revert hmem <;> (repeat' split) <;> (try simp_all)))

/-- the hypothesis is satisfiable: a failing `get_frame` makes the driver see `get_frame` and `stop` -/
example : Ev.call 7 .stop Ok ∈ (step ⟨8, some ⟨7, .camera, Running⟩⟩ .camGetFrame [Err, Ok]).2.1 := by decide

end AcqVerif.C11
