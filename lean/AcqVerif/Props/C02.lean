import AcqVerif.Channel.InvStep
/-!
# C02 — the writer is never given memory a reader still holds or has not consumed

Same model, same invariant, same quantifier as C01: every state reachable from a
fresh channel of any capacity by any well-formed history (so in particular the
instants at which the buffer is exactly full, or exactly empty at a wrap boundary).
-/
namespace AcqVerif.C02
open AcqVerif AcqVerif.Channel

variable {cap : Nat} {s : Sys} {g : Ghost}

/-- the mapped region of reader `i`: offset and length -/
def regionBeg (s : Sys) (i : Nat) : Nat := (nth s.c.holds i).pos
def regionLen (s : Sys) (i : Nat) : Nat :=
  if (nth s.rds i).mapped then availBytes (nth s.rds i) (nth s.c.holds i) s.c.high else 0

/-- **C02.1** — a region handed to the writer is contiguous and lies inside the buffer. -/
theorem write_region_in_buffer (hr : Reachable cap s g) (n beg : Nat)
    (hw : (step s (.wmap n)).2 = .wok beg) : beg + n ≤ cap := by
  have h := hr.inv
  have h1 := h.hm; have h2 := h.mc
  simp only [step] at hw
  cases hwm : writeMap s.c n with
  | null => rw [hwm] at hw; cases hw
  | block => rw [hwm] at hw; cases hw
  | ok b c' =>
    rw [hwm] at hw; simp only at hw; cases hw
    obtain ⟨hn, hc⟩ := writeMap_ok_cases h hwm
    rw [← hr.cap]
    rcases hc with ⟨e, _, hfit, _⟩ | ⟨e, _, _⟩ | ⟨e, _, _⟩ <;> omega

/-- **C02.2** — the region handed to the writer (a) does not intersect the region any reader has
mapped and (b) contains no byte that some reader has yet to consume: whatever stream byte `x` a
location of the region still holds, every reader's position is already beyond `x`. -/
theorem write_avoids_readers (hr : Reachable cap s g) (n beg : Nat)
    (hw : (step s (.wmap n)).2 = .wok beg) (i : Nat) (hi : i < s.rds.length) :
    (regionLen s i = 0 ∨ beg + n ≤ regionBeg s i ∨ regionBeg s i + regionLen s i ≤ beg) ∧
    (∀ o x, beg ≤ o → o < beg + n → g.mem o = some x → x < nth s.idx i) := by
  have h := hr.inv
  have h1 := h.hm; have h2 := h.mc; have h3 := h.hc; have h4 := h.ht
  have hi' : i < s.c.holds.length := by rw [← h.l_rds]; exact hi
  obtain ⟨ri, _⟩ := h.rd i hi'
  simp only [step] at hw
  cases hwm : writeMap s.c n with
  | null => rw [hwm] at hw; cases hw
  | block => rw [hwm] at hw; cases hw
  | ok b c' =>
    rw [hwm] at hw; simp only at hw; cases hw
    obtain ⟨hn, hc⟩ := writeMap_ok_cases h hwm
    have hold := ri.hold
    unfold HoldRel at hold
    -- the reader's region, from the mapped-handle relation
    have hreg : (nth s.rds i).mapped = true →
        (regionLen s i = (nth s.rds i).pos - (nth s.c.holds i).pos ∧ (nth s.c.holds i).pos < (nth s.rds i).pos ∧
          ((nth s.c.holds i).cyc = s.c.cycle → (nth s.rds i).pos ≤ s.c.head) ∧
          ((nth s.c.holds i).cyc + 1 = s.c.cycle → (nth s.rds i).pos ≤ s.c.high)) ∨
        (regionLen s i = s.c.high - (nth s.c.holds i).pos ∧ (nth s.c.holds i).cyc + 1 = s.c.cycle) := by
      intro hm
      have m := ri.mapped hm
      unfold regionLen; rw [if_pos hm]
      rcases availBytes_of_mapped s.c _ _ m with ⟨ea, _, _⟩ | ⟨ea, _, _, _, e5⟩
      · rcases m with ⟨_, m2, m3, m4⟩ | ⟨_, m2, _, _⟩
        · left; exact ⟨ea, m2, m3, m4⟩
        · omega
      · right; exact ⟨ea, e5⟩
    have hunm : (nth s.rds i).mapped = false → regionLen s i = 0 := by
      intro hm; unfold regionLen; rw [hm]; rfl
    rcases hc with ⟨e, _, hfit, hp⟩ | ⟨e, _, hp⟩ | ⟨e, _, hp⟩
    · -- region [head, head+n)
      subst e
      have hpi := hp i hi'
      refine ⟨?_, ?_⟩
      · unfold regionBeg
        cases hm : (nth s.rds i).mapped with
        | false => have := hunm hm; omega
        | true => rcases hreg hm with ⟨a1, a2, a3, a4⟩ | ⟨a1, a2⟩ <;> omega
      · intro o x ho1 ho2 hx
        have := h.old o x hx ho1
        omega
    · -- wrap: region [0, n), every reader is in the writer's lap with n ≤ pos
      subst e
      obtain ⟨hcy, hnp⟩ := hp i hi'
      refine ⟨?_, ?_⟩
      · unfold regionBeg; omega
      · intro o x ho1 ho2 hx
        have := h.cur o (by omega); rw [hx] at this; cases this
        omega
    · -- wrap with reset: every reader is drained
      subst e
      obtain ⟨hcy, hnp⟩ := hp i hi'
      refine ⟨?_, ?_⟩
      · unfold regionBeg
        cases hm : (nth s.rds i).mapped with
        | false => have := hunm hm; omega
        | true => rcases hreg hm with ⟨a1, a2, a3, a4⟩ | ⟨a1, a2⟩ <;> omega
      · intro o x ho1 ho2 hx
        by_cases ho : o < s.c.head
        · have := h.cur o ho; rw [hx] at this; cases this; omega
        · have := h.old o x hx (by omega); omega

/-- **C02.4** — a mapped reader's region lies inside the buffer and inside the committed data, and
holds the reader's next `len` stream bytes. -/
theorem read_region_committed (hr : Reachable cap s g) (i : Nat) (hi : i < s.rds.length)
    (hm : (nth s.rds i).mapped = true) :
    0 < regionLen s i ∧ regionBeg s i + regionLen s i ≤ cap ∧ nth s.idx i + regionLen s i ≤ s.total ∧
    ∀ j, j < regionLen s i → g.mem (regionBeg s i + j) = some (nth s.idx i + j) := by
  have h := hr.inv
  have h1 := h.hm; have h2 := h.mc; have h3 := h.hc
  have hi' : i < s.c.holds.length := by rw [← h.l_rds]; exact hi
  obtain ⟨ri, _⟩ := h.rd i hi'
  have m := ri.mapped hm
  have hb := region_bytes s.c s.total g.mem _ _ _ ri.hold ri.prev h.cur m
  have hold := ri.hold
  unfold HoldRel at hold
  unfold regionLen regionBeg
  rw [if_pos hm, ← hr.cap]
  refine ⟨?_, ?_, ?_, hb⟩ <;>
  (rcases availBytes_of_mapped s.c _ _ m with ⟨ea, _, _⟩ | ⟨ea, _, _, _, e5⟩
   · rw [ea]; rcases m with ⟨_, m2, m3, m4⟩ | ⟨_, m2, _, _⟩ <;> omega
   · rw [ea]; omega)

/-- **C02.3a** — while a write is pending, its region does not intersect any mapped reader region. -/
theorem pending_write_disjoint (hr : Reachable cap s g) (hp : s.pending = true) (i : Nat) (hi : i < s.rds.length) :
    s.wbeg + s.wlen ≤ regionBeg s i ∨ regionBeg s i + regionLen s i ≤ s.wbeg := by
  have h := hr.inv
  have h1 := h.hm
  obtain ⟨p1, p2⟩ := h.pend hp
  have hi' : i < s.c.holds.length := by rw [← h.l_rds]; exact hi
  obtain ⟨ri, _⟩ := h.rd i hi'
  have hold := ri.hold
  unfold HoldRel at hold
  unfold regionLen regionBeg
  cases hm : (nth s.rds i).mapped with
  | false => simp only [Bool.false_eq_true, ↓reduceIte]; omega
  | true =>
    simp only [↓reduceIte]
    have m := ri.mapped hm
    rcases availBytes_of_mapped s.c _ _ m with ⟨ea, _, _⟩ | ⟨ea, _, _, _, e5⟩
    · rw [ea]; rcases m with ⟨_, m2, m3, m4⟩ | ⟨_, m2, _, _⟩ <;> omega
    · rw [ea]; omega

/-- no operation other than reader `i`'s own unmap moves a *mapped* reader `i`: its handle, its
hold, its stream position and the extent of its region stay what they were. -/
theorem mapped_reader_frame (hr : Reachable cap s g) (op : Op) (hwf : op.wf s = true) (i : Nat)
    (hi : i < s.rds.length) (hm : (nth s.rds i).mapped = true) (hne : ∀ k, op ≠ .runmap i k) :
    nth (step s op).1.rds i = nth s.rds i ∧ regionBeg (step s op).1 i = regionBeg s i ∧
    regionLen (step s op).1 i = regionLen s i ∧ nth (step s op).1.idx i = nth s.idx i := by
  have h := hr.inv
  have hi' : i < s.c.holds.length := by rw [← h.l_rds]; exact hi
  have hix : i < s.idx.length := by rw [h.l_idx]; exact hi'
  obtain ⟨ri, _⟩ := h.rd i hi'
  have m := ri.mapped hm
  have hold := ri.hold
  unfold HoldRel at hold
  cases op with
  | wmap n =>
    simp only [step]
    cases hwm : writeMap s.c n with
    | null => (refine ⟨?_, ?_, ?_, ?_⟩ <;> first | rfl | trivial)
    | block => (refine ⟨?_, ?_, ?_, ?_⟩ <;> first | rfl | trivial)
    | ok b c' =>
      obtain ⟨hn, hc⟩ := writeMap_ok_cases h hwm
      simp only
      rcases hc with ⟨e, ec, hfit, hp⟩ | ⟨e, ec, hp⟩ | ⟨e, ec, hp⟩
      · subst ec; (refine ⟨?_, ?_, ?_, ?_⟩ <;> first | rfl | trivial)
      · subst ec
        obtain ⟨hcy, _⟩ := hp i hi'
        refine ⟨trivial, rfl, ?_, trivial⟩
        unfold regionLen; simp only [hm, ↓reduceIte]
        rcases m with ⟨_, m2, _, _⟩ | ⟨_, _, _, m4⟩
        · rw [availBytes_same _ _ _ m2, availBytes_same _ _ _ m2]
        · omega
      · -- a reset needs every reader drained: impossible while reader `i` is mapped
        exfalso
        obtain ⟨hcy, hpp⟩ := hp i hi'
        unfold MappedRel at m; omega
  | wcommit => simp only [step, writeUnmap]; (repeat' split) <;> (refine ⟨?_, ?_, ?_, ?_⟩ <;> first | rfl | trivial)
  | wabort => simp only [step, abortWrite]; (repeat' split) <;> (refine ⟨?_, ?_, ?_, ?_⟩ <;> first | rfl | trivial)
  | accept b => (refine ⟨?_, ?_, ?_, ?_⟩ <;> first | rfl | trivial)
  | join =>
    have hstep := (h.step .join hwf)
    simp only [step, readMap, readerInit, Nat.lt_irrefl, ↓reduceIte, Nat.add_sub_cancel]
    have e1 : nth (s.rds ++ [(readMapAt { s.c with holds := s.c.holds ++ [⟨0, s.c.cycle⟩] }
        { id := s.c.holds.length + 1 } s.c.holds.length).2.1]) i = nth s.rds i := nth_append_lt _ _ _ hi
    have e2 : nth (s.idx ++ [s.total - s.c.head]) i = nth s.idx i := nth_append_lt _ _ _ hix
    have hf := readMapCore_fields { s.c with holds := s.c.holds ++ [⟨0, s.c.cycle⟩] }
        { id := s.c.holds.length + 1 } s.c.holds.length
        (({ s.c with holds := s.c.holds ++ [⟨0, s.c.cycle⟩] } : Chan).holds.getD s.c.holds.length default)
    have eh : nth (readMapAt { s.c with holds := s.c.holds ++ [⟨0, s.c.cycle⟩] }
        { id := s.c.holds.length + 1 } s.c.holds.length).1.holds i = nth s.c.holds i := by
      have hne' : s.c.holds.length ≠ i := by omega
      unfold readMapAt readMapCore
      dsimp only
      (repeat' split) <;> simp only [setHold] <;>
        first
        | exact nth_append_lt _ _ _ hi'
        | (rw [nth_set_ne _ _ _ _ hne']; exact nth_append_lt _ _ _ hi')
    refine ⟨e1, ?_, ?_, e2⟩
    · unfold regionBeg; simp only; rw [eh]
    · unfold regionLen; simp only; rw [e1, eh]
      have : (readMapAt { s.c with holds := s.c.holds ++ [⟨0, s.c.cycle⟩] }
        { id := s.c.holds.length + 1 } s.c.holds.length).1.high = s.c.high := hf.1
      rw [this]
  | rmap i' =>
    obtain ⟨hi2, hget, hun⟩ := rmap_wf h hwf
    have hne' : i' ≠ i := by intro e; subst e; rw [hm] at hun; cases hun
    simp only [step, hget]
    rw [readMap_registered _ _ i' (h.rd i' hi2).1.id]
    have hf := readMapCore_fields s.c (nth s.rds i') i' (s.c.holds.getD i' default)
    have eh : nth (readMapAt s.c (nth s.rds i') i').1.holds i = nth s.c.holds i := by
      unfold readMapAt readMapCore
      dsimp only
      (repeat' split) <;> simp only [setHold] <;> first | rfl | exact nth_set_ne _ _ _ _ hne'
    have e1 : nth (s.rds.set i' (readMapAt s.c (nth s.rds i') i').2.1) i = nth s.rds i := nth_set_ne _ _ _ _ hne'
    refine ⟨e1, ?_, ?_, trivial⟩
    · unfold regionBeg; simp only; rw [eh]
    · unfold regionLen; simp only; rw [e1, eh]
      have : (readMapAt s.c (nth s.rds i') i').1.high = s.c.high := hf.1
      rw [this]
  | runmap i' k =>
    have hne' : i' ≠ i := by intro e; subst e; exact hne k rfl
    simp only [Op.wf, decide_eq_true_eq] at hwf
    simp only [step, getElem?_eq_some_nth _ _ hwf, readUnmap]
    have hid : (nth s.rds i').id - 1 = i' := by
      have := (h.rd i' (by rw [← h.l_rds]; exact hwf)).1.id; omega
    split
    · refine ⟨nth_set_ne _ _ _ _ hne', rfl, ?_, nth_set_ne _ _ _ _ hne'⟩
      unfold regionLen; simp only; rw [nth_set_ne _ _ _ _ hne']
    · simp only [hid, setHold]
      refine ⟨nth_set_ne _ _ _ _ hne', ?_, ?_, nth_set_ne _ _ _ _ hne'⟩
      · unfold regionBeg; simp only; rw [nth_set_ne _ _ _ _ hne']
      · unfold regionLen; simp only; rw [nth_set_ne _ _ _ _ hne', nth_set_ne _ _ _ _ hne']

/-- **C02.3** — from `read_map` to the matching `read_unmap`, the bytes of reader `i`'s region are not
modified: after any well-formed operation of anybody else, the same region still holds the same
stream bytes. -/
theorem mapped_region_stable (hr : Reachable cap s g) (op : Op) (hwf : op.wf s = true) (i : Nat)
    (hi : i < s.rds.length) (hm : (nth s.rds i).mapped = true) (hne : ∀ k, op ≠ .runmap i k) :
    ∀ j, j < regionLen s i → (gstep s g op).mem (regionBeg s i + j) = g.mem (regionBeg s i + j) := by
  intro j hj
  obtain ⟨e1, e2, e3, e4⟩ := mapped_reader_frame hr op hwf i hi hm hne
  have hr' := hr.step op hwf
  have hi2 : i < (step s op).1.rds.length := by
    have := hr'.inv.l_rds; have := hr.inv.l_rds
    cases op <;> simp only [step] <;> (repeat' split) <;> simp <;> omega
  have hm' : (nth (step s op).1.rds i).mapped = true := by rw [e1]; exact hm
  have a := (read_region_committed hr i hi hm).2.2.2 j hj
  have b := (read_region_committed hr' i hi2 hm').2.2.2 j (by rw [e3]; exact hj)
  rw [e2, e4] at b
  rw [a, b]

/-! ## Non-vacuity: the buffer exactly full, and exactly empty at a wrap boundary -/

/-- cap 8, one reader: the writer fills the buffer to the last byte while the reader holds all of it -/
def fullDemo : List Op := [.join, .wmap 4, .wcommit, .wmap 3, .wcommit, .rmap 0]
example : wfRun (Sys.init 8) fullDemo = true := by decide
example : (step (run (Sys.init 8) fullDemo) (.wmap 1)).2 = .wok 7 := by decide     -- last byte
example : (step (run (Sys.init 8) (fullDemo ++ [.wmap 1, .wcommit])) (.wmap 1)).2 = .wblock := by decide  -- exactly full
/-- … and once the reader has consumed everything the writer wraps with a reset (exactly empty at the boundary) -/
example : (step (run (Sys.init 8) (fullDemo ++ [.wmap 1, .wcommit, .runmap 0 99, .rmap 0, .runmap 0 99])) (.wmap 5)).2 = .wok 0 := by
  decide
example : regionLen (run (Sys.init 8) fullDemo) 0 = 7 ∧ (nth (run (Sys.init 8) fullDemo).rds 0).mapped = true := by decide

end AcqVerif.C02
