import AcqVerif.Channel.ConcStep
import AcqVerif.Channel.Drain
import AcqVerif.Props.LockDiscipline
/-!
# C03 — a blocked writer always resumes when space is released or writes are refused

The theorems quantify over **every schedule**: `CReach cap cs` is any state of the
interleaving model (`AcqVerif.Channel.Conc`, steps = intervals between the
synchronisation calls of `channel.c`) reachable from threads running arbitrary
programs of channel calls over any reachable channel state, with one writer thread
and calls that obey the API's usage rules when they run.

Liveness is given as deterministic progress facts (who is enabled, what its step
does); together with weak fairness of the scheduler (an assumption, see DESIGN.md §7)
they give "never blocks forever".
-/
namespace AcqVerif.C03
open AcqVerif AcqVerif.Channel

variable {cap : Nat} {cs : CState}

/-- **C03.1 — no lost wake-up.**  In every reachable state, under every schedule: if a writer is asleep in
`channel_write_map(m)` then either its wait condition still holds (writes accepted and no admissible
placement) or some thread is parked at the `condition_variable_notify_all` that follows its state change. -/
theorem no_lost_wakeup (r : CReach cap cs) (t : Nat) (ht : t < cs.threads.length)
    (hs : (nth cs.threads t).pc = .asleep) (m : Nat) (rest : List Op)
    (hp : (nth cs.threads t).prog = .wmap m :: rest) :
    writeMap cs.sys.c m = .block ∨ ∃ u, u < cs.threads.length ∧ (nth cs.threads u).pc = .notify :=
  r.inv.w2 t ht hs m rest hp

/-- **C03.2a** — a pending notifier is always enabled, and its step wakes *every* sleeping thread. -/
theorem notifier_wakes_all (_r : CReach cap cs) (u : Nat) (hu : u < cs.threads.length)
    (hn : (nth cs.threads u).pc = .notify) (op : Op) (rest : List Op) (hp : (nth cs.threads u).prog = op :: rest) :
    ∃ cs', cstep cs u = some cs' ∧
      ∀ x, x < cs.threads.length → x ≠ u → (nth cs.threads x).pc = .asleep → (nth cs'.threads x).pc = .woken := by
  have hget : cs.threads[u]? = some (nth cs.threads u) := getElem?_eq_some_nth _ _ hu
  have hstep : cstep cs u = some { cs with threads :=
      (cs.threads.map fun x => if x.pc = Pc.asleep then { x with pc := Pc.woken } else x).set u (settle cs.sys rest) } := by
    unfold cstep; rw [hget]; simp only [hn, hp]
  refine ⟨_, hstep, ?_⟩
  intro x hx ex hs
  simp only
  rw [nth_set_ne _ _ _ _ (fun e => ex e.symm), nth_map _ _ _ hx]
  simp [hs]

/-- **C03.2b** — the channel lock is held across scheduler steps only by a thread parked at the entry of
`condition_variable_wait`; that thread's next step is always enabled and releases the lock. -/
theorem lock_held_only_at_wait_entry (r : CReach cap cs) (t : Nat) (hl : cs.lock = some t) :
    t < cs.threads.length ∧ (nth cs.threads t).pc = .waitEntry ∧
    ∃ cs', cstep cs t = some cs' ∧ cs'.lock = none ∧ (nth cs'.threads t).pc = .asleep := by
  obtain ⟨ht, hpc⟩ := r.inv.lock1 t hl
  have hget : cs.threads[t]? = some (nth cs.threads t) := getElem?_eq_some_nth _ _ ht
  let th' : Thread := { pc := .asleep, prog := (nth cs.threads t).prog }
  have hstep : cstep cs t = some { cs with lock := none, threads := cs.threads.set t th' } := by
    unfold cstep; rw [hget]; simp only [hpc, th']
  refine ⟨ht, hpc, _, hstep, rfl, ?_⟩
  simp only; rw [nth_set_eq _ _ _ ht]

/-- **C03.2c** — a woken writer whose request is now admissible (or refused) returns from
`channel_write_map` in one step as soon as the lock is free: it does not go back to sleep. -/
theorem woken_writer_returns (t : Nat) (ht : t < cs.threads.length) (hw : (nth cs.threads t).pc = .woken)
    (m : Nat) (rest : List Op) (hp : (nth cs.threads t).prog = .wmap m :: rest)
    (hl : cs.lock = none) (hadm : writeMap cs.sys.c m ≠ .block) :
    ∃ cs', cstep cs t = some cs' ∧ cs'.lock = none ∧
      ((nth cs'.threads t).pc = .lockReq ∨ (nth cs'.threads t).pc = .done) ∧
      ∃ pre, rest = pre ++ (nth cs'.threads t).prog := by
  have hget : cs.threads[t]? = some (nth cs.threads t) := getElem?_eq_some_nth _ _ ht
  rcases runBody_cases cs t (.wmap m) rest with ⟨m', e1, e2, _⟩ | ⟨_, hn, _⟩ | ⟨_, _, e3⟩
  · cases e1; exact absurd e2 hadm
  · simp [notifies] at hn
  · have hstep : cstep cs t = some (runBody cs t (.wmap m) rest) := by
      unfold cstep; rw [hget]; simp only [hw, hp, hl, Option.isNone_none, ↓reduceIte]
    refine ⟨_, hstep, ?_⟩
    rw [e3]
    refine ⟨rfl, ?_, ?_⟩
    · simp only; rw [nth_set_eq _ _ _ ht]; exact settle_pc _ _
    · simp only; rw [nth_set_eq _ _ _ ht]; exact settle_suffix _ _

/-- **C03 (deadlock freedom of the protocol)** — whenever a writer sleeps although its request has become
admissible or writes are refused, some thread is enabled (the pending notifier): the system is not stuck,
and by `notifier_wakes_all` + `woken_writer_returns` the writer returns two of its own steps later. -/
theorem not_stuck_while_admissible (r : CReach cap cs) (t : Nat) (ht : t < cs.threads.length)
    (hs : (nth cs.threads t).pc = .asleep) (m : Nat) (rest : List Op)
    (hp : (nth cs.threads t).prog = .wmap m :: rest) (hadm : writeMap cs.sys.c m ≠ .block) :
    ∃ u, enabled cs u = true := by
  rcases no_lost_wakeup r t ht hs m rest hp with hb | ⟨u, hu, hn⟩
  · exact absurd hb hadm
  · have hget : cs.threads[u]? = some (nth cs.threads u) := getElem?_eq_some_nth _ _ hu
    refine ⟨u, ?_⟩
    cases hpu : (nth cs.threads u).prog with
    | nil =>
      -- a thread at `notify` always has a current call: it got there from `runBody`
      exfalso
      exact notify_has_call r u hu hn hpu
    | cons op rest' =>
      unfold enabled cstep; rw [hget]; simp only [hn, hpu, Option.isSome_some]
where
  notify_has_call {cap : Nat} {cs : CState} (r : CReach cap cs) (u : Nat) (hu : u < cs.threads.length)
      (hn : (nth cs.threads u).pc = .notify) (hp : (nth cs.threads u).prog = []) : False := by
    induction r with
    | init s g progs h single =>
      simp only [CState.init, List.length_map] at hu hn
      rw [nth_map _ _ _ hu] at hn; cases hn
    | step cs t cs' r e hwf ih =>
      obtain ⟨ht, hget⟩ := cstep_thread e
      unfold cstep at e
      rw [hget] at e
      simp only at e
      have other : ∀ (ths : List Thread) (th' : Thread), cs'.threads = ths.set t th' → t ≠ u →
          nth cs'.threads u = nth ths u := by
        intro ths th' e1 e2; rw [e1, nth_set_ne _ _ _ _ e2]
      cases hpc : (nth cs.threads t).pc <;> rw [hpc] at e
      · -- start
        simp only [Option.some.injEq] at e; subst e
        unfold setThread at hn hp hu
        simp only [List.length_set] at hu
        by_cases ex : t = u
        · subst ex; rw [nth_set_eq _ _ _ ht] at hn
          rcases settle_pc cs.sys (nth cs.threads t).prog with e' | e' <;> rw [e'] at hn <;> cases hn
        · rw [nth_set_ne _ _ _ _ ex] at hn hp; exact ih hu hn hp
      · -- lockReq
        cases hprog : (nth cs.threads t).prog with
        | nil => rw [hprog] at e; cases e
        | cons op rest =>
          rw [hprog] at e; simp only at e
          split at e
          · simp only [Option.some.injEq] at e; subst e
            rcases runBody_cases cs t op rest with ⟨m, e1, e2, e3⟩ | ⟨_, _, e3⟩ | ⟨_, _, e3⟩ <;>
              rw [e3] at hn hp hu <;> simp only [List.length_set] at hu <;> simp only at hn hp
            · by_cases ex : t = u
              · subst ex; rw [nth_set_eq _ _ _ ht] at hn; cases hn
              · rw [nth_set_ne _ _ _ _ ex] at hn hp; exact ih hu hn hp
            · by_cases ex : t = u
              · subst ex; rw [nth_set_eq _ _ _ ht] at hp; cases hp
              · rw [nth_set_ne _ _ _ _ ex] at hn hp; exact ih hu hn hp
            · by_cases ex : t = u
              · subst ex; rw [nth_set_eq _ _ _ ht] at hn
                rcases settle_pc (step cs.sys op).1 rest with e' | e' <;> rw [e'] at hn <;> cases hn
              · rw [nth_set_ne _ _ _ _ ex] at hn hp; exact ih hu hn hp
          · cases e
      · -- waitEntry
        simp only [Option.some.injEq] at e; subst e
        simp only [List.length_set] at hu
        simp only at hn hp
        by_cases ex : t = u
        · subst ex; rw [nth_set_eq _ _ _ ht] at hn; cases hn
        · rw [nth_set_ne _ _ _ _ ex] at hn hp; exact ih hu hn hp
      · cases hprog : (nth cs.threads t).prog <;> rw [hprog] at e <;> cases e
      · -- woken
        cases hprog : (nth cs.threads t).prog with
        | nil => rw [hprog] at e; cases e
        | cons op rest =>
          rw [hprog] at e; simp only at e
          split at e
          · simp only [Option.some.injEq] at e; subst e
            rcases runBody_cases cs t op rest with ⟨m, e1, e2, e3⟩ | ⟨_, _, e3⟩ | ⟨_, _, e3⟩ <;>
              rw [e3] at hn hp hu <;> simp only [List.length_set] at hu <;> simp only at hn hp
            · by_cases ex : t = u
              · subst ex; rw [nth_set_eq _ _ _ ht] at hn; cases hn
              · rw [nth_set_ne _ _ _ _ ex] at hn hp; exact ih hu hn hp
            · by_cases ex : t = u
              · subst ex; rw [nth_set_eq _ _ _ ht] at hp; cases hp
              · rw [nth_set_ne _ _ _ _ ex] at hn hp; exact ih hu hn hp
            · by_cases ex : t = u
              · subst ex; rw [nth_set_eq _ _ _ ht] at hn
                rcases settle_pc (step cs.sys op).1 rest with e' | e' <;> rw [e'] at hn <;> cases hn
              · rw [nth_set_ne _ _ _ _ ex] at hn hp; exact ih hu hn hp
          · cases e
      · -- notify
        cases hprog : (nth cs.threads t).prog with
        | nil => rw [hprog] at e; cases e
        | cons op rest =>
          rw [hprog] at e; simp only [Option.some.injEq] at e; subst e
          simp only [List.length_set, List.length_map] at hu
          simp only at hn hp
          have ht' : t < (cs.threads.map fun x => if x.pc = Pc.asleep then { x with pc := Pc.woken } else x).length := by
            simp only [List.length_map]; exact ht
          by_cases ex : t = u
          · subst ex; rw [nth_set_eq _ _ _ ht'] at hn
            rcases settle_pc cs.sys rest with e' | e' <;> rw [e'] at hn <;> cases hn
          · rw [nth_set_ne _ _ _ _ ex, nth_map _ _ _ hu] at hn hp
            have h1 : (nth cs.threads u).pc = .notify := by
              by_cases ea : (nth cs.threads u).pc = .asleep
              · rw [if_pos ea] at hn; cases hn
              · rw [if_neg ea] at hn; exact hn
            have h2 : (nth cs.threads u).prog = [] := by
              by_cases ea : (nth cs.threads u).pc = .asleep
              · rw [if_pos ea] at hp; exact hp
              · rw [if_neg ea] at hp; exact hp
            exact ih hu h1 h2
      · cases hprog : (nth cs.threads t).prog <;> rw [hprog] at e <;> cases e

/-- **C03.4** — once the channel refuses writes, `channel_write_map` never waits. -/
theorem refusal_returns_null (c : Chan) (n : Nat) (h : c.accepting = false) : writeMap c n ≠ .block :=
  writeMap_refused c n h

/-- **C03.3** — once every registered reader has caught up, every request below the capacity is admissible;
together with `no_lost_wakeup` (the catching-up `read_unmap` / `read_map` is followed by a notification)
the writer proceeds once the readers have consumed enough. -/
theorem space_when_drained {s : Sys} {g : Ghost} (hr : Reachable cap s g) (n : Nat) (hn : n < s.c.cap)
    (hd : ∀ i, i < s.c.holds.length → nth s.c.holds i = ⟨s.c.head, s.c.cycle⟩) : writeMap s.c n ≠ .block :=
  space_when_caught_up hr.inv n hn hd

/-- **C03.5** — readers that keep reading reach the drained state in a bounded number of calls: with the
writer quiescent, after two `read_map; read_unmap(all)` rounds the next `read_map` returns an empty
region and nothing is left unread (`readLen`, `unread`, `readAll` in `Channel/Drain.lean`). -/
theorem reader_drains_in_three_reads {s : Sys} {g : Ghost} (hr : Reachable cap s g) (i : Nat)
    (hwf : (Op.rmap i).wf s = true) :
    readLen (readAll (readAll s i) i) i = 0 ∧ unread (readAll (readAll s i) i) i = 0 :=
  Channel.reader_drains_in_three_reads hr i hwf

/-! The lock discipline of the real `channel.c` (table regenerated from the source on every run) is `AcqVerif.LockDiscipline.lock_discipline_of_source`,
in its own module because C01, C02 and C05 rely on it as well. -/

/-! ## Non-vacuity -/

/-- ring full, the writer blocks on 8 bytes; a reader unmaps; a controller refuses writes -/
def demoSys : Sys := run (Sys.init 16) [.join, .wmap 10, .wcommit, .wmap 5, .wcommit, .rmap 0]
def demo : CState := CState.init demoSys [[.wmap 8, .wcommit], [.runmap 0 99], [.accept false]]

example : Reachable 16 demoSys (grun (Sys.init 16) {} [.join, .wmap 10, .wcommit, .wmap 5, .wcommit, .rmap 0]) :=
  ⟨⟨_, by decide, rfl, rfl⟩⟩
-- writer: start, lock (blocks), wait (sleeps); the asleep state is reached
example : (nth (crun demo [0, 0, 0]).threads 0).pc = .asleep := by decide
-- reader: start, lock (body), now parked at notify: the second disjunct of `no_lost_wakeup`
example : (nth (crun demo [0, 0, 0, 1, 1]).threads 1).pc = .notify ∧
    (match writeMap (crun demo [0, 0, 0, 1, 1]).sys.c 8 with | .block => false | _ => true) = true := by decide
-- after the notify step the writer is woken, re-acquires and returns a region at offset 0
example : (nth (crun demo [0, 0, 0, 1, 1, 1]).threads 0).pc = .woken := by decide
example : (crun demo [0, 0, 0, 1, 1, 1, 0]).sys.c.mapped = 8 := by decide

-- a reader two regions behind (rest of the old lap + the new lap): drained after two rounds
def drainDemo : Sys := run (Sys.init 16) [.join, .wmap 10, .wcommit, .rmap 0, .runmap 0 4, .wmap 4, .wcommit, .wmap 3, .wcommit]
example : (Op.rmap 0).wf drainDemo = true ∧ readLen drainDemo 0 = 10 ∧ unread drainDemo 0 = 13 ∧
    readLen (readAll drainDemo 0) 0 = 3 := by decide

end AcqVerif.C03
