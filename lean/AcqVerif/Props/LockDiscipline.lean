import AcqVerif.Generated.SyncSkeleton
/-!
# The lock discipline of `channel.c`, from the source as it is now

`Generated/SyncSkeleton.lean` is regenerated on every run by `extract/syncskel.py` (clang AST): every access to a field of
`struct channel`, every `condition_variable_wait` and every `notify_all`, with the lock depth at that point. The theorem below
is what makes one channel operation one atomic step of the sequential model (C01, C02, C05) and one lock-protected body of the
concurrent model (C03).
-/
namespace AcqVerif.LockDiscipline

open AcqVerif.Generated.SyncSkeleton in
/-- **The lock discipline of the real `channel.c`** (table regenerated from the source on every run):
every access to a field of `struct channel` is made with the channel lock held, except in
`channel_new`/`channel_release` and except reads of the fields that are immutable after construction
(`capacity`, `data`); every `condition_variable_wait` is made with the lock held inside a loop that
re-checks the channel; every `notify_all` is made after the lock has been released; every function that
writes a reader bookmark or the accept flag also notifies.  These are the facts that make a channel
operation one atomic step of the model. -/
theorem lock_discipline_of_source :
    (accesses.all fun a =>
        decide (a.2.2.2 ≥ 1) || lifecycleFns.contains a.1 ||
        ((a.2.1 == fieldCapacity || a.2.1 == fieldData) && !a.2.2.1)) = true ∧
    (waits.all fun w => decide (w.2.1 = 1) && w.2.2) = true ∧
    (notifies.all fun n => decide (n.2 = 0)) = true ∧
    (accesses.all fun a =>
        !(a.2.2.1 && (a.2.1 == fieldHolds || a.2.1 == fieldAccepting)) || lifecycleFns.contains a.1 ||
        decide (a.1 ≥ 8) || decide (a.1 = 6) || notifies.any fun n => n.1 == a.1) = true := by
  decide


end AcqVerif.LockDiscipline
