import AcqVerif.SProps.Run
/-!
# C13 — StorageProperties copies are deep, complete and independent

The theorems are about `AcqVerif.SProps` (`lean/AcqVerif/SProps/Model.lean`), the transcription of
`props/storage.c` with the repairs of `fixes/11-*.patch`.  They quantify over

* every pool size `n` and **every script** `ops : List Op` of `init`, `set_uri`,
  `set_external_metadata`, `set_access_key_and_secret`, `set_dimension`, `set_enable_multiscale`,
  `copy` (any two different objects, either direction, repeatedly), `destroy` — plus the direct calls
  `dimensions_init` / `dimensions_destroy` and the caller storing a borrowed (`is_ref = 1`) string —
  run from zero-initialised objects (`reach n ops`; operations violating the usage rules `Op.wf` are
  skipped, exactly as the harness skips them);
* arbitrary argument strings: `NULL`, empty, unterminated, with embedded NULs, of any length
  (`InStr`), any index, kind and sizes, 0..255 dimensions.
-/
namespace AcqVerif.C13
open AcqVerif.SProps

/-- the state after running script `ops` on `n` zero-initialised objects -/
def reach (n : Nat) (ops : List Op) : State := run (State.init n) ops

theorem reach_inv (n : Nat) (ops : List Op) : Inv (reach n ops) := (run_inv ops _ (init_inv n)).1

theorem put_obj_self (s : State) (i : Nat) (r : Heap × Obj) (hi : i < s.objs.length) : (s.put i r).obj i = r.2 := by
  simp [State.put, State.obj, List.getD, hi]

/-- **Copy makes the destination equal to the source in every field, and leaves the source untouched.**
After any script, `storage_properties_copy(dst, src)` on two different objects returns 1; afterwards
`dst` equals what `src` was, field by field (strings by content with `NULL ≡ ""`, pixel scale, first
frame id, multiscale flag, the number of dimensions and every dimension's name, kind and sizes); the
`src` struct is bit-for-bit what it was and so is everything it points to. -/
theorem C13_copy_equal (n : Nat) (ops : List Op) (d c : Nat) (wf : (Op.copy d c).wf (reach n ops) = true) :
    (step (reach n ops) (.copy d c)).2 = 1 ∧
    objView (step (reach n ops) (.copy d c)).1.h ((step (reach n ops) (.copy d c)).1.obj d)
      = objView (reach n ops).h ((reach n ops).obj c) ∧
    (step (reach n ops) (.copy d c)).1.obj c = (reach n ops).obj c ∧
    objView (step (reach n ops) (.copy d c)).1.h ((reach n ops).obj c) = objView (reach n ops).h ((reach n ops).obj c) ∧
    (∀ k, 0 < objCount (reach n ops).h ((reach n ops).obj c) k →
      (step (reach n ops) (.copy d c)).1.h.cells k = (reach n ops).h.cells k) := by
  have inv := reach_inv n ops
  generalize reach n ops = s at *
  simp only [Op.wf, Bool.and_eq_true, decide_eq_true_eq] at wf
  obtain ⟨⟨hd, hc⟩, hne⟩ := wf
  obtain ⟨rc, st, view⟩ := copy_spec inv.hok (inv.obj_ok hd) (inv.owns hd) (inv.sep hd hc hne)
  obtain ⟨_, oth⟩ := inv.put hd st
  obtain ⟨e1, e2, e3⟩ := oth c (fun e => hne e.symm) hc
  have es : (step s (.copy d c)).1 = s.put d ((copy s.h (s.obj d) (s.obj c)).1, (copy s.h (s.obj d) (s.obj c)).2.1) := rfl
  have er : (step s (.copy d c)).2 = b2n (copy s.h (s.obj d) (s.obj c)).2.2 := rfl
  rw [es, er, rc, put_obj_self _ _ _ hd]
  exact ⟨rfl, view, e1, e3, e2⟩

/-- a script whose source has two named dimensions, credentials and a long URI, copied over an
object that already owns strings and a dimension: the hypothesis of `C13_copy_equal` holds -/
def demo : List Op :=
  [ .init 0 7 ⟨some [111, 117, 116, 0], 4⟩ ⟨some [123, 125], 2⟩ 1 2 2,
    .setDim 0 0 ⟨some [120, 0], 2⟩ 0 64 32 1,
    .setDim 0 1 ⟨some [116, 116], 2⟩ 2 0 1 0,
    .setKeys 0 ⟨some [107, 0], 2⟩ ⟨none, 0⟩,
    .init 1 0 ⟨none, 0⟩ ⟨none, 5⟩ 0 0 1,
    .setDim 1 0 ⟨some [122, 0], 2⟩ 1 1 1 1 ]

set_option maxRecDepth 100000 in
example : (Op.copy 1 0).wf (reach 3 demo) = true := by decide
set_option maxRecDepth 100000 in
example : ((reach 3 demo).obj 0).dimsSize = 2 ∧ ((reach 3 demo).obj 1).dimsSize = 1 := by decide
set_option maxRecDepth 100000 in
example : (step (reach 3 demo) (.copy 1 0)).2 = 1 := by decide

/-- **Ownership is a forest: copies share nothing, and an object only changes when it is the target.**
After any script: (1) every live block is owned by exactly one field of exactly one object and a
released block by none; (2) hence two different objects never own the same block; (3) any further
operation leaves every object other than its target unchanged — the struct itself, every block it
owns, and therefore its content. -/
theorem C13_independent (n : Nat) (ops : List Op) :
    (∀ k, ownSum (reach n ops) k = if (reach n ops).h.live k = true then 1 else 0) ∧
    (∀ i j k, i < (reach n ops).objs.length → j < (reach n ops).objs.length → i ≠ j →
      0 < objCount (reach n ops).h ((reach n ops).obj i) k → objCount (reach n ops).h ((reach n ops).obj j) k = 0) ∧
    (∀ op : Op, op.wf (reach n ops) = true → ∀ j, j ≠ op.target → j < (reach n ops).objs.length →
      (step (reach n ops) op).1.obj j = (reach n ops).obj j ∧
      (∀ k, 0 < objCount (reach n ops).h ((reach n ops).obj j) k →
        (step (reach n ops) op).1.h.cells k = (reach n ops).h.cells k) ∧
      objView (step (reach n ops) op).1.h ((reach n ops).obj j) = objView (reach n ops).h ((reach n ops).obj j)) := by
  have inv := reach_inv n ops
  generalize reach n ops = s at *
  refine ⟨?_, ?_, ?_⟩
  · intro k
    rw [inv.own k]
    cases s.h.live k <;> rfl
  · intro i j k hi hj hij hk
    exact ((inv.sep hj hi (fun e => hij e.symm)).disj k hk).2
  · intro op wf j hj hlt
    obtain ⟨hi, h', o', e, st⟩ := step_is_put inv op wf
    rw [e]
    exact (inv.put hi st).2 j hj hlt

set_option maxRecDepth 100000 in
example : (reach 3 demo).h.live 5 = true ∧ 0 < objCount (reach 3 demo).h ((reach 3 demo).obj 0) 5 := by decide
set_option maxRecDepth 100000 in
example : (Op.setDim 0 1 ⟨some [121, 0], 2⟩ 1 2 3 4).wf (reach 3 demo) = true := by decide

/-- **No use after free, no double free, no leak.**  After any script the event log of the heap
contains only `alloc` and `free` events (no access to a released block, no second `free`, no `free`
or write through `NULL`/caller memory, no access beyond a block), every block has been allocated
once and released at most once; and once every object has been destroyed no block is live, the log
is still clean, and every block that was ever allocated has been released exactly once. -/
theorem C13_no_uaf_no_double_free_no_leak (n : Nat) (ops : List Op) :
    (∀ e ∈ (reach n ops).h.log, e.bad = false) ∧
    (∀ id, (reach n ops).h.log.countP (Event.isFree id) ≤ (reach n ops).h.log.countP (Event.isAlloc id) ∧
           (reach n ops).h.log.countP (Event.isAlloc id) ≤ 1) ∧
    (∀ e ∈ (destroyAll (reach n ops)).h.log, e.bad = false) ∧
    (∀ id, (destroyAll (reach n ops)).h.live id = false) ∧
    (∀ id, (destroyAll (reach n ops)).h.log.countP (Event.isFree id) =
           (destroyAll (reach n ops)).h.log.countP (Event.isAlloc id) ∧
           (destroyAll (reach n ops)).h.log.countP (Event.isAlloc id) =
             if id < (destroyAll (reach n ops)).h.next then 1 else 0) := by
  have inv := reach_inv n ops
  obtain ⟨inv', dead⟩ := destroyAll_spec inv
  generalize reach n ops = s at *
  generalize destroyAll s = s' at *
  have blt_iff : ∀ a b : Nat, Nat.blt a b = true ↔ a < b := fun a b => by simp [Nat.blt_eq]
  refine ⟨inv.hok.clean, ?_, inv'.hok.clean, dead, ?_⟩
  · intro id
    rw [inv.hok.frees id, inv.hok.allocs id]
    cases h1 : Nat.blt id s.h.next <;> cases h2 : (s.h.cells id).freed <;> simp [b2n]
  · intro id
    rw [inv'.hok.frees id, inv'.hok.allocs id]
    have hd := dead id
    simp only [Heap.live] at hd
    by_cases hlt : id < s'.h.next
    · have h1 : Nat.blt id s'.h.next = true := (blt_iff _ _).mpr hlt
      rw [h1] at hd ⊢
      simp only [Bool.true_and, Bool.not_eq_false'] at hd
      simp [hd, hlt, b2n]
    · have h1 : Nat.blt id s'.h.next = false := by
        cases hb : Nat.blt id s'.h.next with
        | false => rfl
        | true => exact absurd ((blt_iff _ _).mp hb) hlt
      rw [h1]
      simp [hlt, b2n]

set_option maxRecDepth 100000 in
example : (reach 3 demo).h.next = 11 ∧ ((List.range 11).filter (reach 3 demo).h.live).length = 11 := by decide
set_option maxRecDepth 100000 in
example : (destroyAll (reach 3 demo)).h.next = 11 := by decide

/-- a `String` stored in an object, if it points into the heap, is owned, lives in a live block at least
`nbytes ≥ 1` long, and ends in NUL at `nbytes - 1` -/
def Stored (h : Heap) (s : Str) : Prop :=
  ∀ id, s.str = .heap id →
    s.isRef = false ∧ h.live id = true ∧ 1 ≤ s.nbytes ∧ s.nbytes ≤ (h.bytesOf id).length ∧
    (h.bytesOf id)[s.nbytes - 1]? = some 0

/-- **Every stored string stays NUL-terminated with its recorded length.**  After any script, for every
object: each of the four strings and each dimension name is `Stored`; and the dimension array, if any,
is a live block holding exactly `size ≥ 1` elements. -/
theorem C13_terminated (n : Nat) (ops : List Op) (i : Nat) (hi : i < (reach n ops).objs.length) :
    Stored (reach n ops).h ((reach n ops).obj i).uri ∧ Stored (reach n ops).h ((reach n ops).obj i).mdata ∧
    Stored (reach n ops).h ((reach n ops).obj i).akey ∧ Stored (reach n ops).h ((reach n ops).obj i).skey ∧
    (((reach n ops).obj i).dimsData = none → ((reach n ops).obj i).dimsSize = 0) ∧
    (∀ d, ((reach n ops).obj i).dimsData = some d →
      (reach n ops).h.live d = true ∧ 0 < ((reach n ops).obj i).dimsSize ∧
      ((reach n ops).h.dimsOf d).length = ((reach n ops).obj i).dimsSize ∧
      ∀ dm ∈ (reach n ops).h.dimsOf d, Stored (reach n ops).h dm.name) := by
  have inv := reach_inv n ops
  generalize reach n ops = s at *
  have ok := inv.obj_ok hi
  have ow := inv.owns hi
  have stored : ∀ str : Str, StrOK s.h str → (∀ k, 0 < strCount str k → 0 < objCount s.h (s.obj i) k) → Stored s.h str := by
    intro str sok hcnt id hid
    have h1 := sok.heap_count hid
    unfold StrOK at sok
    simp only [hid] at sok
    exact ⟨sok.1, ow.live (hcnt id (by omega)), sok.2.1, sok.2.2.1, sok.2.2.2⟩
  have fld : ∀ f, Stored s.h ((s.obj i).get f) := fun f =>
    stored _ (ok.get f) (fun k hk => by have := strCount_get_le (s.obj i) f k; unfold objCount; omega)
  refine ⟨fld .uri, fld .mdata, fld .akey, fld .skey, ?_, ?_⟩
  · intro hd
    have := ok.dims; unfold DimsOK at this; simpa [hd] using this
  · intro d hd
    have hdims := ok.dims
    unfold DimsOK at hdims; simp only [hd] at hdims
    have hdc : ∀ k, dimsCount s.h (s.obj i) k = (if d = k then 1 else 0) + namesCount (s.h.dimsOf d) k := by
      intro k; simp [dimsCount, hd]
    refine ⟨ow.live (by unfold objCount; rw [hdc]; simp; omega), hdims.1, hdims.2.1, ?_⟩
    intro dm hdm
    apply stored _ (hdims.2.2 dm hdm)
    intro k hk
    have := namesCount_mem_le (s.h.dimsOf d) dm hdm k
    unfold objCount; rw [hdc]; omega

set_option maxRecDepth 100000 in
example : ((reach 3 demo).obj 0).uri.str = .heap 0 ∧ ((reach 3 demo).obj 0).dimsData = some 2 := by decide
set_option maxRecDepth 100000 in
example : ((reach 3 demo).h.dimsOf 2).map (fun dm => dm.name.str) = [.heap 3, .heap 4] := by decide
-- the unterminated name "tt" was stored as "t\0"
set_option maxRecDepth 100000 in
example : (reach 3 demo).h.bytesOf 4 = [116, 0] := by decide

end AcqVerif.C13
