import AcqVerif.Control.Inv
/-!
# C08 (control plane) — devices see a disciplined life cycle under any sequence of API calls

Model: M2 (`AcqVerif.Control`): `acquire_configure` with per-stream devices (or none), identifier changes between calls, opens
and camera starts that fail as an oracle says, `acquire_start` (also while running, also failing), `acquire_stop`,
`acquire_abort`, `acquire_execute_trigger`, `acquire_get_state`, `acquire_shutdown` — as one transition per API call that appends
the driver calls it causes to a log.  The data-path half (who calls the driver in which HAL state while the worker threads run,
the worker flags behind `acquire_get_state`) is `Props/C08.lean` over M1.

Quantifiers: every theorem is for ALL client programs (`List Op`, any length), ALL device pools `P` (which stream a device may be
given to and whether it is a camera or a storage; the per-stream pools are disjoint by construction), ALL device choices the
programs make from them, ALL oracles (which opens and which camera starts fail), and — through the `fin` argument of `start` /
`state` — all moments at which the workers of an acquisition may have finished.  A call that violates the usage rules at the point
where it is made (`guard`: something after shutdown; `acquire_configure` while Running or with a device outside the stream's pool)
is skipped, i.e. the quantifier ranges over the programs that respect the rules (`WF`), with everything else arbitrary.

`after P orc prog` is the state after `acquire_init` and the program; `proj log d n` are the driver calls on instance `n` (the
`n`-th successful open, with the failed attempts before it) of device `d`, in order.
-/
namespace AcqVerif.C08b
open AcqVerif.Control

/-- the state after `acquire_init()` and the client program -/
def after (P : Pools) (orc : Oracle) (prog : List Op) : State := run P (init orc) prog

theorem after_inv (P : Pools) (orc : Oracle) (prog : List Op) : Inv P (after P orc prog) :=
  run_inv prog (init_inv P orc)

/-- (1) **the life cycle**: for every program, pools, oracle, device and instance, what the driver has seen of that instance is a
prefix of `openFail* open (set | start stop | startFail)* close` with `set`/`close` only while not Running, `start` only when
Armed, `stop` only when Running — and the automaton is in the phase the runtime's own state describes: not yet opened, open in
the slot the pool assigns with exactly the handle's HAL state, or closed. -/
theorem device_life_cycle (P : Pools) (orc : Oracle) (prog : List Op) (d : Dev) (n : Nat) :
    Accepts (proj (after P orc prog).log d n) ∧
    runA .fresh (proj (after P orc prog).log d n) = some (phaseOf P (after P orc prog) d n) :=
  ⟨⟨_, (after_inv P orc prog).inv0.life d n⟩, (after_inv P orc prog).inv0.life d n⟩

/-- (2) an instance is opened at most once and closed at most once, and closed only if it was opened -/
theorem opened_at_most_once_closed_at_most_once (P : Pools) (orc : Oracle) (prog : List Op) (d : Dev) (n : Nat) :
    (proj (after P orc prog).log d n).count .open ≤ 1 ∧
    (proj (after P orc prog).log d n).count .close ≤ (proj (after P orc prog).log d n).count .open := by
  have h := (device_life_cycle P orc prog d n).2
  have c := runA_counts h
  have := isOpened_le (phaseOf P (after P orc prog) d n)
  have e1 : isOpened Phase.fresh = 0 := rfl
  have e2 : isClosed Phase.fresh = 0 := rfl
  have : isClosed (phaseOf P (after P orc prog) d n) ≤ isOpened (phaseOf P (after P orc prog) d n) := by
    generalize phaseOf P (after P orc prog) d n = q
    cases q <;> simp [isClosed, isOpened]
  omega

/-- (3) **never used after close**: no driver call on an instance follows its close; the close comes after the open and not
between a start and its stop -/
theorem nothing_after_close (P : Pools) (orc : Oracle) (prog : List Op) (d : Dev) (n : Nat) (pre post : List Act)
    (e : proj (after P orc prog).log d n = pre ++ .close :: post) :
    post = [] ∧ pre.count .open = 1 ∧ pre.count .start = pre.count .stop :=
  ⟨(device_life_cycle P orc prog d n).1.nothing_after_close e, (device_life_cycle P orc prog d n).1.close_after_open e⟩

/-- (4) **started only when armed**: the driver's `start` (successful or failing) is reached only on an Armed instance — the
instance's previous driver call is a successful `set` or the `stop` that ended its previous run -/
theorem started_only_when_armed (P : Pools) (orc : Oracle) (prog : List Op) (d : Dev) (n : Nat) (pre post : List Act) (a : Act)
    (ha : a = .start ∨ a = .startFail) (e : proj (after P orc prog).log d n = pre ++ a :: post) :
    runA .fresh pre = some (.opened .armed) ∧ ∃ pre', pre = pre' ++ [.set] ∨ pre = pre' ++ [.stop] :=
  (device_life_cycle P orc prog d n).1.start_only_armed ha e

/-- (5) **stopped exactly once per start, no stop without start**: the instance's driver call before a `stop` is its `start`;
the one after a successful `start`, if any, is the `stop`; and there are as many stops as starts, plus the outstanding one
exactly while the instance's HAL state is Running -/
theorem stopped_exactly_once_per_start (P : Pools) (orc : Oracle) (prog : List Op) (d : Dev) (n : Nat) :
    (∀ pre post, proj (after P orc prog).log d n = pre ++ .stop :: post → ∃ pre', pre = pre' ++ [.start]) ∧
    (∀ pre post, proj (after P orc prog).log d n = pre ++ .start :: post → post = [] ∨ ∃ post', post = .stop :: post') ∧
    (proj (after P orc prog).log d n).count .start =
      (proj (after P orc prog).log d n).count .stop + isRunning (phaseOf P (after P orc prog) d n) :=
  ⟨fun _ _ e => (device_life_cycle P orc prog d n).1.stop_after_start e,
   fun _ _ e => (device_life_cycle P orc prog d n).1.start_then_stop e,
   runA_balance (device_life_cycle P orc prog d n).2⟩

/-- (6) whenever the runtime does not report Running — after `stop`, `abort`, a failed `start`, a `configure`, an
`acquire_get_state` that found the workers gone, `shutdown` — every start of every instance has been answered by its stop, and
no open device is in HAL state Running -/
theorem none_left_running_when_not_Running (P : Pools) (orc : Oracle) (prog : List Op)
    (h : (after P orc prog).rstate ≠ .running) :
    (∀ d n, (proj (after P orc prog).log d n).count .start = (proj (after P orc prog).log d n).count .stop) ∧
    (∀ i k hd, (after P orc prog).slot i k = some hd → hd.hal ≠ .running) := by
  have nr := (after_inv P orc prog).nr h
  refine ⟨fun d n => ?_, nr⟩
  have b := (stopped_exactly_once_per_start P orc prog d n).2.2
  have : isRunning (phaseOf P (after P orc prog) d n) = 0 := by
    unfold isRunning; rw [if_neg (nr.phase d n)]
  omega

/-- (7) **closed exactly once, by shutdown at the latest**: after a program in which `acquire_shutdown` has been called, the
runtime holds no device, and every instance that was ever opened has been opened once and closed once (whether its stream was
valid, disabled by a later configure, or left half-configured by a failed open) -/
theorem shutdown_closes_every_opened_instance (P : Pools) (orc : Oracle) (prog rest : List Op) :
    (∀ i k, (after P orc (prog ++ .shutdown :: rest)).slot i k = none) ∧
    ∀ d n, .open ∈ proj (after P orc (prog ++ .shutdown :: rest)).log d n →
      (proj (after P orc (prog ++ .shutdown :: rest)).log d n).count .open = 1 ∧
      (proj (after P orc (prog ++ .shutdown :: rest)).log d n).count .close = 1 := by
  have hcl : (step P (after P orc prog) .shutdown).1.rstate = .closed := by
    unfold step
    split
    · rfl
    · rename_i hg; simpa [Control.guard] using hg
  have e : after P orc (prog ++ .shutdown :: rest) = (step P (after P orc prog) .shutdown).1 := by
    unfold after
    rw [run_append]
    simp only [run]
    exact run_closed P _ rest hcl
  have hi : Inv P (after P orc (prog ++ .shutdown :: rest)) := after_inv P orc _
  have hc : (after P orc (prog ++ .shutdown :: rest)).rstate = .closed := by rw [e]; exact hcl
  have hs := hi.cl hc
  refine ⟨hs, fun d n ho => ?_⟩
  have hl := hi.inv0.life d n
  have c := runA_counts hl
  have e1 : isOpened Phase.fresh = 0 := rfl
  have e2 : isClosed Phase.fresh = 0 := rfl
  have hpos : 0 < (proj (after P orc (prog ++ .shutdown :: rest)).log d n).count .open := List.count_pos_iff.mpr ho
  rcases phaseOf_no_slots (P := P) hs d n with hp | hp
  · rw [hp] at c; omega
  · rw [hp] at c
    have e3 : isOpened Phase.closed = 1 := rfl
    have e4 : isClosed Phase.closed = 1 := rfl
    omega

/-- (8) **a device is open in at most one place**: two slots (stream × camera/storage) never hold the same device, and an open
device is always the latest instance of that device -/
theorem device_open_in_at_most_one_stream (P : Pools) (orc : Oracle) (prog : List Op) (i i' : Sid) (k k' : Kind) (h h' : Handle)
    (e : (after P orc prog).slot i k = some h) (e' : (after P orc prog).slot i' k' = some h') (hd : h.dev = h'.dev) :
    i = i' ∧ k = k' ∧ h = h' := by
  have o := (after_inv P orc prog).inv0.own i k h e
  have o' := (after_inv P orc prog).inv0.own i' k' h' e'
  have hi : i = i' := by rw [← o.1, ← o'.1, hd]
  have hk : k = k' := by rw [← o.2.1, ← o'.2.1, hd]
  subst hi; subst hk
  rw [e] at e'
  exact ⟨rfl, rfl, Option.some.inj e'⟩

/-- (9) **the reported state is what the code computes**, per call (made within the usage rules, from any state):
`stop`/`abort` → Armed; `start` → Running if it succeeds, and if it fails either AwaitingConfiguration (error path) or — refused
because an acquisition is running whose workers are still alive — nothing changes; `configure` → Armed if some stream is
valid, else AwaitingConfiguration; `acquire_get_state` → Armed instead of Running once the workers are gone, otherwise the
stored state; `trigger` changes nothing; `shutdown` → Closed. -/
theorem reported_state_is_what_the_code_computes (P : Pools) (st : State) (op : Op) (hg : guard P st op = true) :
    match op with
    | .stop => (step P st op).1.rstate = .armed ∧ (step P st op).2 = .ok
    | .abort => (step P st op).1.rstate = .armed ∧ (step P st op).2 = .ok
    | .start fin =>
        ((step P st op).2 = .ok → (step P st op).1.rstate = .running) ∧
        ((step P st op).2 ≠ .ok → (step P st op).2 = .err ∧
          ((step P st op).1.rstate = .awaiting ∨ ((step P st op).1 = st ∧ st.rstate = .running ∧ fin = false)))
    | .configure _ _ =>
        (step P st op).2 = .ok ∧
        (((step P st op).1.valid .s0 = true ∨ (step P st op).1.valid .s1 = true) ∧ (step P st op).1.rstate = .armed ∨
         ((step P st op).1.valid .s0 = false ∧ (step P st op).1.valid .s1 = false) ∧ (step P st op).1.rstate = .awaiting)
    | .state fin =>
        (step P st op).1.rstate = (if st.rstate = .running ∧ fin = true then .armed else st.rstate) ∧ (step P st op).2 = .ok
    | .trigger _ => (step P st op).1 = st
    | .shutdown => (step P st op).1.rstate = .closed ∧ (step P st op).2 = .ok := by
  unfold step
  rw [if_pos hg]
  cases op with
  | stop => exact ⟨rfl, rfl⟩
  | abort => exact ⟨rfl, rfl⟩
  | trigger i => rfl
  | shutdown => exact ⟨rfl, rfl⟩
  | state fin =>
    refine ⟨?_, rfl⟩
    simp only [api]
    unfold acquireGetState
    split <;> rfl
  | configure c0 c1 =>
    simp only [Control.guard, Bool.and_eq_true, bne_iff_ne, ne_eq] at hg
    refine ⟨rfl, ?_⟩
    simp only [api, acquireConfigure]
    unfold configureFinish
    split
    · rename_i hv
      left
      refine ⟨by simpa using hv, ?_⟩
      simp [hg.1.1.2]
    · rename_i hv
      right
      refine ⟨?_, rfl⟩
      simpa [acquireAbort, acquireStop] using hv
  | start fin =>
    simp only [api]
    unfold acquireStart
    split
    · exact ⟨fun h => by simp at h, fun _ => ⟨rfl, Or.inl rfl⟩⟩
    · split
      · rename_i c2
        refine ⟨fun h => by simp at h, fun _ => ⟨rfl, Or.inr ?_⟩⟩
        unfold acquireGetState at c2 ⊢
        split at c2
        · simp at c2
        · rename_i hn
          refine ⟨by rw [if_neg hn], c2, ?_⟩
          cases fin
          · rfl
          · exact absurd ⟨c2, rfl⟩ hn
      · split
        · exact ⟨fun h => by simp at h, fun _ => ⟨rfl, Or.inl rfl⟩⟩
        · split
          · exact ⟨fun h => by simp at h, fun _ => ⟨rfl, Or.inl rfl⟩⟩
          · exact ⟨fun _ => rfl, fun h => by simp at h⟩

/-- (10) **Running only between a successful start and the call that ends that acquisition**: if after a program the runtime
reports Running then the program contains an `acquire_start` that returned Ok, the runtime has reported Running after every
call since, and none of those later calls is a stop, an abort or a shutdown. -/
theorem running_only_between_successful_start_and_its_end (P : Pools) (orc : Oracle) (prog : List Op)
    (h : (after P orc prog).rstate = .running) :
    ∃ pre fin post, prog = pre ++ .start fin :: post ∧ (step P (after P orc pre) (.start fin)).2 = .ok ∧
      (∀ post1 post2, post = post1 ++ post2 → (after P orc (pre ++ .start fin :: post1)).rstate = .running) ∧
      (∀ op, op ∈ post → op ≠ .stop ∧ op ≠ .abort ∧ op ≠ .shutdown) := by
  -- generalised over the start state: either it was Running all along, or there is such a start
  have key : ∀ (prog : List Op) (st0 : State), (run P st0 prog).rstate = .running →
      (st0.rstate = .running ∧ ∀ p1 p2, prog = p1 ++ p2 → (run P st0 p1).rstate = .running) ∨
      ∃ pre fin post, prog = pre ++ .start fin :: post ∧ (step P (run P st0 pre) (.start fin)).2 = .ok ∧
        ∀ p1 p2, post = p1 ++ p2 → (run P st0 (pre ++ .start fin :: p1)).rstate = .running := by
    intro prog
    induction prog with
    | nil =>
      intro st0 h
      left
      refine ⟨h, fun p1 p2 e => ?_⟩
      cases p1 with
      | nil => exact h
      | cons a t => simp at e
    | cons op rest ih =>
      intro st0 h
      simp only [run] at h
      rcases ih _ h with ⟨hr, hall⟩ | ⟨pre, fin, post, e, hok, hall⟩
      · rcases step_running hr with h0 | ⟨fin, rfl, hok⟩
        · left
          refine ⟨h0, fun p1 p2 e => ?_⟩
          cases p1 with
          | nil => exact h0
          | cons a p1' =>
            simp only [List.cons_append, List.cons.injEq] at e
            obtain ⟨rfl, e⟩ := e
            simp only [run]
            exact hall p1' p2 e
        · right
          refine ⟨[], fin, rest, rfl, hok, fun p1 p2 e => ?_⟩
          simp only [List.nil_append, run]
          exact hall p1 p2 e
      · right
        refine ⟨op :: pre, fin, post, by simp [e], ?_, fun p1 p2 e' => ?_⟩
        · simpa [run] using hok
        · simp only [List.cons_append, run]
          exact hall p1 p2 e'
  rcases key prog (init orc) h with ⟨h0, _⟩ | ⟨pre, fin, post, e, hok, hall⟩
  · simp [init] at h0
  · refine ⟨pre, fin, post, e, hok, hall, fun op hop => ?_⟩
    obtain ⟨p1, p2, rfl⟩ := List.append_of_mem hop
    have hb := hall p1 (op :: p2) rfl
    have ha := hall (p1 ++ [op]) p2 (by simp)
    have e2 : run P (init orc) (pre ++ .start fin :: (p1 ++ [op])) = (step P (run P (init orc) (pre ++ .start fin :: p1)) op).1 := by
      rw [show pre ++ Op.start fin :: (p1 ++ [op]) = (pre ++ Op.start fin :: p1) ++ [op] by simp, run_append]
      rfl
    rw [e2] at ha
    have hg : ∀ o : Op, (o = .stop ∨ o = .abort ∨ o = .shutdown) → Control.guard P (run P (init orc) (pre ++ .start fin :: p1)) o = true := by
      intro o ho
      rcases ho with rfl | rfl | rfl <;> simp [Control.guard, hb]
    refine ⟨?_, ?_, ?_⟩ <;> intro c <;> subst c
    · have := reported_state_is_what_the_code_computes P _ .stop (hg _ (Or.inl rfl))
      simp only at this; rw [this.1] at ha; cases ha
    · have := reported_state_is_what_the_code_computes P _ .abort (hg _ (Or.inr (Or.inl rfl)))
      simp only at this; rw [this.1] at ha; cases ha
    · have := reported_state_is_what_the_code_computes P _ .shutdown (hg _ (Or.inr (Or.inr rfl)))
      simp only at this; rw [this.1] at ha; cases ha

/-- (11) **Running means an acquisition is in progress**: whenever the runtime reports Running, some stream is valid and the camera
and the storage of every valid stream are open and started (HAL state Running: the model has not yet seen their workers' stop) -/
theorem running_means_devices_started (P : Pools) (orc : Oracle) (prog : List Op) (h : (after P orc prog).rstate = .running) :
    ((after P orc prog).valid .s0 = true ∨ (after P orc prog).valid .s1 = true) ∧
    ∀ i, (after P orc prog).valid i = true → ∀ k, ∃ hd, (after P orc prog).slot i k = some hd ∧ hd.hal = .running :=
  run_runok (P := P) prog (st := init orc) (fun c => by simp [init] at c) h

/-- (12) the usage rules as a decidable predicate on programs (`WF`: each call's `guard` holds where it is made): in a program
that satisfies it no call is skipped, so for such programs the theorems above speak about every call -/
theorem wellformed_program_never_skipped (P : Pools) (orc : Oracle) (prog : List Op) (h : WF P (init orc) prog = true) :
    Res.illformed ∉ results P (init orc) prog :=
  wf_results h

/-! ## Non-vacuity: a concrete program with a device switch on stream 0, stream 1 disabled by the second configure, an open that
fails, a camera start that fails, a start while running — respecting the usage rules — and what the theorems say about it. -/

set_option maxRecDepth 100000

/-- the mock driver's devices: cameras 0, 1, 4; storages 2, 3, 5; stream 1 owns camera 1 and storage 3 -/
def P0 : Pools := ⟨fun d => if d = 1 ∨ d = 3 then .s1 else .s0, fun d => if d = 2 ∨ d = 3 ∨ d = 5 then .sto else .cam⟩

/-- storage 5 is busy once; camera 1 fails to start once -/
def orc0 : Oracle := ⟨fun d => if d = 5 then [true] else [], fun d => if d = 1 then [true] else []⟩

def prog0 : List Op :=
  [.configure (some (0, 2)) (some (1, 3)), .start false, .state false, .stop,
   .configure (some (0, 2)) (some (1, 3)), .start false, .start false, .state false, .abort,
   .configure (some (4, 5)) none, .start false, .configure (some (4, 5)) none, .start false]

example : WF P0 (init orc0) prog0 = true := by decide
example : WF P0 (init orc0) (prog0 ++ [.stop, .shutdown]) = true := by decide
/-- the first start fails in camera 1's driver: error path -/
example : (after P0 orc0 (prog0.take 2)).rstate = .awaiting := by decide
/-- the second one succeeds, the third is refused -/
example : (after P0 orc0 (prog0.take 8)).rstate = .running := by decide
example : (step P0 (after P0 orc0 (prog0.take 6)) (.start false)).2 = .err := by decide
/-- storage 5's open fails: no stream valid, AwaitingConfiguration; the retry succeeds -/
example : (after P0 orc0 (prog0.take 10)).rstate = .awaiting := by decide
example : (after P0 orc0 prog0).rstate = .running := by decide
example : results P0 (init orc0) prog0 = [.ok, .err, .ok, .ok, .ok, .ok, .err, .ok, .ok, .ok, .err, .ok, .ok] := by decide
example : (after P0 orc0 prog0).valid .s0 = true ∧ (after P0 orc0 prog0).valid .s1 = false := by decide
/-- camera 0, first instance: closed by the device switch -/
example : proj (after P0 orc0 prog0).log 0 1 = [.open, .set, .start, .stop, .set, .start, .stop, .close] := by decide
/-- camera 1: the failed start; still open (stream 1 disabled) until shutdown -/
example : proj (after P0 orc0 prog0).log 1 1 = [.open, .set, .startFail, .set, .start, .stop] := by decide
example : proj (after P0 orc0 (prog0 ++ [.stop, .shutdown])).log 1 1 = [.open, .set, .startFail, .set, .start, .stop, .close] := by decide
/-- storage 5: a failed open, then the instance -/
example : proj (after P0 orc0 (prog0 ++ [.stop, .shutdown])).log 5 1 = [.openFail, .open, .set, .start, .stop, .close] := by decide
/-- camera 4 is running at the end of `prog0` -/
example : phaseOf P0 (after P0 orc0 prog0) 4 1 = .opened .running := by decide
/-- a call outside the usage rules is skipped: configure while Running -/
example : (step P0 (after P0 orc0 prog0) (.configure none none)).2 = .illformed := by decide

end AcqVerif.C08b
