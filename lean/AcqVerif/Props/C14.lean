import AcqVerif.Storage.ShortWrites
/-!
# C14 — raw files contain exactly the appended frames, byte for byte

Model: `Storage/FileWrite.lean` (the retry loop of `file_write` in `linux/platform.c`),
`Storage/Raw.lean` (`raw.c`, with the repairs fixes/12 and fixes/13), `Storage/Hal.lean`
(`storage.c`), over the OS model `Storage/Os.lean`: a file system `path ↦ bytes`, a descriptor
table, and a fault oracle `Nat → Outcome` that decides for every `pwrite` whether it takes
everything, only `k` bytes, nothing, or fails.
-/
namespace AcqVerif.C14
open AcqVerif.Storage

/-- **`file_write` under any short-write pattern.**  `fd` refers to file `p`.  Whatever the oracle
    does: (1) if `file_write` reports success, `p` equals the old file with the *whole* buffer
    written at `offset`; (2) in any case — success or failure after any number of partial
    writes — no byte outside `[offset, offset + len)` changed, the file did not grow beyond
    `max(old length, offset + len)`, and no other file changed. -/
theorem fileWrite_ok (os : Os) (fd offset : Nat) (buf : Bytes) (p : Path) (hfd : os.fds.lookup fd = some p) :
    ((fileWrite os fd offset buf).2 = true → buf ≠ [] →
        (fileWrite os fd offset buf).1.content p = writeAt (os.content p) offset buf) ∧
    ((fileWrite os fd offset buf).2 = true → buf = [] → (fileWrite os fd offset buf).1.files = os.files) ∧
    (∀ i, (i < offset ∨ i ≥ offset + buf.length) →
        ((fileWrite os fd offset buf).1.content p).getD i 0 = (os.content p).getD i 0) ∧
    ((fileWrite os fd offset buf).1.content p).length ≤ max (os.content p).length (offset + buf.length) ∧
    (∀ q, q ≠ p → (fileWrite os fd offset buf).1.files q = os.files q) := by
  obtain ⟨k, hk, hok, hfiles⟩ := fileWriteLoop_files os fd offset buf 0 p hfd
  have hfiles' : (fileWrite os fd offset buf).1.files = wrote os.files p offset buf k := by
    rw [fileWrite_files_eq]; exact hfiles
  have hok' : (fileWrite os fd offset buf).2 = true → k = buf.length := by
    rw [fileWrite_snd]; exact hok
  refine ⟨?_, ?_, ?_, ?_, ?_⟩
  · intro h hne
    have hk' := hok' h
    have : k ≠ 0 := by
      intro h0; rw [h0] at hk'; exact hne (List.eq_nil_of_length_eq_zero hk'.symm)
    have hlen : buf.length ≠ 0 := by rw [← hk']; exact this
    subst hk'
    simp only [Os.content, hfiles', wrote, hlen, if_false, setFile_same, Option.getD_some, List.take_length]
  · intro h hb
    have hk' := hok' h
    subst hb
    simp only [List.length_nil] at hk'
    simp [hfiles', wrote, hk']
  · intro i hi
    by_cases h0 : k = 0
    · simp [Os.content, hfiles', wrote, h0]
    · simp only [Os.content, hfiles', wrote, h0, if_false, setFile_same, Option.getD_some]
      have hl : (buf.take k).length = k := by simp; omega
      cases hi with
      | inl h => exact writeAt_getD_lt _ _ _ _ h
      | inr h => exact writeAt_getD_ge _ _ _ _ (by omega)
  · by_cases h0 : k = 0
    · simp only [Os.content, hfiles', wrote, h0, if_true]; omega
    · simp only [Os.content, hfiles', wrote, h0, if_false, setFile_same, Option.getD_some, writeAt_length]
      have hl : (buf.take k).length = k := by simp; omega
      rw [hl]; omega
  · intro q hq
    by_cases h0 : k = 0
    · simp [hfiles', wrote, h0]
    · simp [hfiles', wrote, h0, setFile_other _ _ _ _ hq]

example :  -- non-vacuity: a descriptor that refers to a file
    let os : Os := { oracle := fun _ => .short 1, pick := fun _ => 3, fds := [(3, [97])] }
    os.fds.lookup 3 = some [97] := by decide

/-- the path of the raw device's current URI (what `raw_start` hands to `open`) -/
def rawPath (s : Sys) : Path :=
  match s.dev with
  | .raw r => cstr r.uri
  | _ => []

/-- **Contents of the raw file.**  Take *any* history `pre` of set / start / append / stop cycles
    (and misuse) on one raw device, under any fault oracle and any descriptor choices.  Suppose the
    device is then Armed on a path that does not exist (an acquisition "to another path"), and
    the next `start` and all following appends succeed — i.e. the device is still Running after
    them; by `C16_failure_is_reported` that is the case exactly when no write failed, however
    many of them were short.  Then for every grouping `pkts` of frames into packets the file is,
    byte for byte, the concatenation of the packets — also after `stop` and/or `close`. -/
theorem C14_contents (oracle : Nat → Outcome) (pick : Nat → Fd) (pre : List Op) (pkts : List (List Frame))
    (tail : List Op) (htail : tail = [] ∨ tail = [.stop] ∨ tail = [.close] ∨ tail = [.stop, .close]) :
    let s := run .raw oracle pick pre
    s.closed = false → s.dev.state = .armed → s.os.files (rawPath s) = none →
    (runFrom s (.start :: pkts.map .append)).dev.state = .running →
    (runFrom s (.start :: pkts.map .append ++ tail)).os.content (rawPath s) = (pkts.map packetBytes).flatten := by
  intro s hc harm hfresh hrun
  obtain ⟨r, hd⟩ := runFrom_raw (Sys.init .raw oracle pick) pre {} rfl
  have hd : s.dev = .raw r := hd
  have hp : rawPath s = cstr r.uri := by simp [rawPath, hd]
  have harm' : r.state = .armed := by simpa [hd, Dev.state] using harm
  rw [hp] at hfresh ⊢
  simp only [runFrom] at hrun
  have hstarted : (step s .start).1.dev.state = .running := by
    -- a device that did not start refuses every append, so it would not be Running at the end
    cases hst : (step s .start).1.dev.state with
    | running => rfl
    | closed | awaiting | armed =>
      obtain ⟨r1, hd1⟩ := step_raw s .start r hd
      have hidle : RawIdle (step s .start).1 := by
        refine ⟨r1, hd1, ?_⟩
        have : (step s .start).1.dev.state ≠ .running := by rw [hst]; simp
        simpa [hd1, Dev.state] using this
      rw [idle_appends _ pkts hidle, hst] at hrun
      cases hrun
  have h0 := start_fresh s r hd hc harm' hfresh hstarted
  have h1 := appends_inv pkts _ _ [] h0 hrun
  simp only [List.nil_append] at h1
  have hrw : runFrom s (.start :: pkts.map .append ++ tail) =
      runFrom (runFrom (step s .start).1 (pkts.map .append)) tail := by
    simp [runFrom, runFrom_append]
  rw [hrw]
  obtain ⟨k1, k2, k3⟩ := stop_keeps _ _ _ h1
  rcases htail with rfl | rfl | rfl | rfl
  · exact h1.2.choose_spec.2.2.2.2.2
  · simpa [runFrom] using k1
  · simpa [runFrom] using k2
  · exact k3

/-- **Short writes never lose or reorder bytes.**  If the oracle lets every call succeed but cuts
    `pwrite`s short in any pattern whatsoever (to at least one byte each), then `start` succeeds,
    every append succeeds, and the file is the concatenation of the packets — no hypothesis about
    the outcome of the run is needed. -/
theorem C14_contents_short_writes (oracle : Nat → Outcome) (pick : Nat → Fd) (pre : List Op)
    (pkts : List (List Frame)) (tail : List Op)
    (htail : tail = [] ∨ tail = [.stop] ∨ tail = [.close] ∨ tail = [.stop, .close]) (hb : Benign oracle) :
    let s := run .raw oracle pick pre
    s.closed = false → s.dev.state = .armed → s.os.files (rawPath s) = none →
    (runFrom s (.start :: pkts.map .append ++ tail)).os.content (rawPath s) = (pkts.map packetBytes).flatten := by
  intro s hc harm hfresh
  refine C14_contents oracle pick pre pkts tail htail hc harm hfresh ?_
  obtain ⟨r, hd⟩ := runFrom_raw (Sys.init .raw oracle pick) pre {} rfl
  have hd : s.dev = .raw r := hd
  have hbs : Benign s.os.oracle := by
    have : s.os.oracle = oracle := run_oracle_raw oracle pick pre
    rw [this]; exact hb
  have harm' : r.state = .armed := by simpa [hd, Dev.state] using harm
  have hp : rawPath s = cstr r.uri := by simp [rawPath, hd]
  rw [hp] at hfresh
  have hstarted := start_benign s r hd hc harm' hbs
  have h0 := start_fresh s r hd hc harm' hfresh hstarted
  obtain ⟨r1, hd1⟩ := step_raw s .start r hd
  have hb1 : Benign (step s .start).1.os.oracle := by rw [step_oracle_raw s _ r hd]; exact hbs
  have h1 := appends_benign pkts _ _ [] r1 hd1 h0 hb1
  simp only [runFrom]
  obtain ⟨_, r2, hd2, hst2, _⟩ := h1
  show (runFrom (step s .start).1 (pkts.map .append)).dev.state = .running
  rw [hd2]; exact hst2

/-- non-vacuity of the hypotheses of `C14_contents` / `C14_contents_short_writes`: after `set "a"` on a
    fresh device (every pwrite cut to one byte) the device is open, Armed, and its path does not exist;
    so for *every* list of packets the file `a` ends up as their concatenation -/
example (pkts : List (List Frame)) :
    let s := run .raw (fun _ => .short 1) (fun _ => 3) [.set [97, 0] []]
    (runFrom s (.start :: pkts.map .append ++ [.stop, .close])).os.content [97] = (pkts.map packetBytes).flatten := by
  have hb : Benign (fun _ : Nat => Outcome.short 1) := fun _ => Or.inr ⟨1, by omega, rfl⟩
  have := C14_contents_short_writes (fun _ => .short 1) (fun _ => 3) [.set [97, 0] []] pkts [.stop, .close]
    (by simp) hb (by decide) (by decide) (by decide)
  exact this

/-- the packet boundaries do not matter: the concatenation of the packets is the concatenation of
    all frames, headers and pixels, back to back and in order -/
theorem C14_grouping (pkts : List (List Frame)) :
    (pkts.map packetBytes).flatten = (pkts.flatten.map (·.bytes)).flatten := by
  induction pkts with
  | nil => rfl
  | cons p t ih => simp [packetBytes, ih, List.flatten_append]

/-- **The URI.**  For a URI `u` without NUL bytes (stored NUL-terminated, `nbytes = |u| + 1`), in any
    state in which `set` is legal: if `storage_set` succeeds, the device stores exactly `u` minus an
    initial `file://`, NUL-terminated with the right length, and the next `start` passes exactly
    those bytes to `open`. -/
theorem C14_uri (s : Sys) (r : Raw) (u md : Bytes) (hd : s.dev = .raw r) (hu : ∀ b ∈ u, b ≠ 0)
    (hc : s.closed = false) (hi : r.state ≠ .running)
    (hok : (step s (.set (u ++ [0]) md)).2 = .ok) :
    (∃ r1, (step s (.set (u ++ [0]) md)).1.dev = .raw r1 ∧ r1.uri = stripScheme u ++ [0] ∧ r1.state = .armed) ∧
    ∃ res rest, (step (step s (.set (u ++ [0]) md)).1 .start).1.os.log =
      (step s (.set (u ++ [0]) md)).1.os.log ++ Ev.open (stripScheme u) res :: rest := by
  have hwf : (Op.set (u ++ [0]) md).wf s = true := by simp [Op.wf, hc, hd, Dev.state, hi]
  have e : step s (.set (u ++ [0]) md) = storageSet s (u ++ [0]) md := by simp [step, hwf]
  rw [e] at hok ⊢
  have hne : (u ++ [0]).length ≠ 0 := by simp
  have hset : rawSet s.os r (u ++ [0]) =
      match fileIsWritable s.os (stripScheme u) with
      | (os, false) => (os, r, .awaiting)
      | (os, true) => (os, { r with uri := stripScheme u ++ [0] }, .armed) := by
    unfold rawSet
    simp only [hne, if_false, drop_uri u hu, cstr_append_zero _ (stripScheme_nonzero u hu)]
    cases fileIsWritable s.os (stripScheme u) with
    | mk os1 ok =>
      cases ok with
      | false => rfl
      | true =>
        simp only [copyString_terminated]
        split
        · rfl
        · rename_i h0
          have h0 : uriOffset (u ++ [0]) = 0 := by simpa using h0
          rw [uriOffset_spec u hu] at h0
          have : stripScheme u = u := by
            unfold stripScheme
            split
            · rename_i hp; simp [hp] at h0
            · rfl
          rw [this]
  unfold storageSet at hok ⊢
  simp only [hd, Dev.set, hset] at hok ⊢
  cases hw : fileIsWritable s.os (stripScheme u) with
  | mk os1 ok =>
    cases ok with
    | false => simp [hw] at hok
    | true =>
      simp only [Dev.setState]
      refine ⟨⟨_, rfl, rfl, rfl⟩, ?_⟩
      -- the next start: rawStart opens cstr uri
      have hwf2 : Op.start.wf (Sys.mk os1 (Dev.raw { r with uri := stripScheme u ++ [0], state := .armed }) s.closed) = true := by
        simp [Op.wf, hc]
      simp only [step, hwf2, Bool.not_true, Bool.false_eq_true, if_false, storageStart, Dev.state, ne_eq,
        not_true_eq_false, Dev.start, rawStart, cstr_append_zero _ (stripScheme_nonzero u hu), fileCreate]
      cases ho : sysOpen os1 (stripScheme u) with
      | mk os2 res =>
        cases res with
        | none =>
          exact ⟨none, [], by simpa using (sysOpen_none ho).1⟩
        | some fd =>
          have hl := (sysOpen_some ho).1
          have hf := (sysFlock_spec os2 fd).1
          cases hfl : sysFlock os2 fd with
          | mk os3 ok3 =>
            rw [hfl] at hf
            simp only at hf
            cases ok3 with
            | true =>
              simp only [hfl]
              exact ⟨some fd, [.flock fd true], by simp [hf, hl]⟩
            | false =>
              simp only [hfl]
              refine ⟨some fd, [.flock fd false, .close fd (sysClose os3 fd).2], ?_⟩
              simp [(sysClose_spec os3 fd).1, hf, hl]

/-- non-vacuity of `C14_uri`: `file://a` on a fresh device -/
example : (step (Sys.init .raw (fun _ => .full) (fun _ => 3)) (.set (filePrefix ++ [97] ++ [0]) [])).2 = .ok ∧
    stripScheme (filePrefix ++ [97]) = [97] := by decide

end AcqVerif.C14
