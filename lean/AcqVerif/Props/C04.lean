import AcqVerif.Runtime.Data.StopReach
import AcqVerif.Runtime.Clean
/-!
# C04 — every acquired frame reaches storage exactly once, in order, bit-exact

Model: M1 (`AcqVerif.Runtime`): the real `channel.c` model under the source, filter (pass-through), sink and client
threads, with ghost records of what the camera delivered (`Frame`: camera run, frame id, hardware frame id — the mock
camera's pixels are a function of run and hardware id, so equal `Frame`s mean equal bytes), what was committed to
`sink.in` and what the storage's `append` received.

For every scenario (ring capacity, frame size `F > 0`, frame counts, client program incl. monitoring, abort, repeated
acquisitions, storage and camera faults at any call, cameras that hand out empty frames), every schedule and every reachable
state (micro-steps included), for clients that keep the map/unmap rule of the monitoring API:

* `stored_is_a_prefix_of_the_camera_frames`: what the storage has received in the current run is, in order and without
  gap or repetition, the camera's frames `0 … m-1` of the current camera run, unchanged (ids, hardware ids, run).
* `storage_gets_consecutive_committed_frames`: … namely exactly the frames committed at stream positions `[base, appended)`.
* `committed_frames_are_the_camera_frames`: the frames committed since the storage was started are frames `0 … ncommit-1`.
* `channel_used_within_its_rules`: in every reachable state `sink.in` is in a state reached by a well-formed history of
  `channel.c`'s API — so everything C01/C02/C05 prove about the channel applies to the running pipeline.

* `undisturbed_acquisition_is_complete`: once the sink has ended its final flush normally (`drained`: an empty read with the
  storage still Running) in a run that nobody disturbed (no abort, no storage failure, no failed start, no re-configuration
  while it ran), the storage holds **exactly** the camera's frames `0 … N-1`, `N = max_frame_count`.

* `stopped_undisturbed_acquisition_is_complete`: … and that is the case whenever the runtime is at rest (client outside
  start/stop/abort, state not Running) after an undisturbed acquisition: when `acquire_stop` has returned, all `N` frames are
  in the storage.

The premise `clean` (the sink's reader had consumed everything when the storage was started) holds after every
`acquire_stop`/`acquire_abort` (they flush the sink's reader) and initially; it is a ghost recorded by the model at `start`.
That the sink *does* reach its final flush (liveness) needs fairness; on the implementation it is decided by the oracle
`stored-N-frames-expected` and the HANG oracle over the explored schedules (partial, see DESIGN.md C04).
-/
namespace AcqVerif.C04
open AcqVerif.Runtime AcqVerif.Channel

/-- a downward-closed predicate selects an initial segment of `0 … k-1` -/
theorem filter_range_initial (p : Nat → Bool) (hp : ∀ i j, i ≤ j → p j = true → p i = true) (k : Nat) :
    ∃ m, m ≤ k ∧ (List.range k).filter p = List.range m := by
  induction k with
  | zero => exact ⟨0, Nat.le_refl 0, rfl⟩
  | succ k ih =>
    obtain ⟨m, hm, e⟩ := ih
    rw [List.range_succ, List.filter_append, e]
    cases hk : p k with
    | false => exact ⟨m, by omega, by simp [hk]⟩
    | true =>
      have hall : (List.range k).filter p = List.range k := by
        rw [List.filter_eq_self]
        intro i hi
        exact hp i k (by have := List.mem_range.mp hi; omega) hk
      have : m = k := by
        have := congrArg List.length (e.symm.trans hall)
        simpa using this
      subst this
      exact ⟨m + 1, by omega, by simp [hk, List.range_succ]⟩

/-- the frames of `expected` that start below `a` are the frames `0 … m-1` -/
theorem expected_below (run base F k a : Nat) (hF : 0 < F) :
    ∃ m, m ≤ k ∧ ((expected run base F k).filter (fun p => decide (p.1 < a))).map (·.2) = (List.range m).map (fun j => (⟨run, j, j⟩ : Frame)) := by
  obtain ⟨m, hm, e⟩ := filter_range_initial (fun j => decide (base + j * F < a)) (by
    intro i j hij h
    simp only [decide_eq_true_eq] at h ⊢
    have : i * F ≤ j * F := Nat.mul_le_mul_right F hij
    omega) k
  refine ⟨m, hm, ?_⟩
  unfold expected
  rw [List.filter_map, List.map_map]
  have : (List.filter ((fun p : Nat × Frame => decide (p.1 < a)) ∘ fun j => (base + j * F, ({ run := run, id := j, hw := j } : Frame))) (List.range k)) =
      List.filter (fun j => decide (base + j * F < a)) (List.range k) := by
    congr 1
  rw [this, e]
  rfl

theorem framesIn_since (fs : List (Nat × Frame)) (base len : Nat) :
    framesIn fs base len = ((since fs base).filter (fun p => decide (p.1 < base + len))).map (·.2) := by
  unfold framesIn since
  rw [List.filter_filter]
  congr 1
  apply List.filter_congr
  intro p _
  simp [Bool.and_comm]

variable (rt : RT) (h : MReach rt) (s : Nat)
include h

/-- (0) `sink.in` is used within `channel.c`'s rules in every reachable state -/
theorem channel_used_within_its_rules (hm : rt.client.misused = false) : Ok (getS rt s).sinkCh ∧ (getS rt s).filtCh = freshChan (getS rt s).filtCh.c.cap :=
  ⟨(DUse.micro rt h s (Here.intro _) hm).ok, (DUse.micro rt h s (Here.intro _) hm).filt⟩

/-- (1) the storage has received exactly the frames committed at stream positions `[base, appended)`, in commit order -/
theorem storage_gets_consecutive_committed_frames (hm : rt.client.misused = false) (hc : (getS rt s).sto.clean = true) :
    (getS rt s).sto.log = framesIn (getS rt s).sinkFrames (getS rt s).sto.base ((getS rt s).sto.appended - (getS rt s).sto.base) ∧
    FramesOk (getS rt s).sinkFrames (getS rt s).F (getS rt s).sinkCh.total :=
  ⟨((DLog.micro rt h s (Here.intro _) hm).log hc).2.2, (DLog.micro rt h s (Here.intro _) hm).frames⟩

/-- (2) the frames committed since the storage was started are the camera's frames `0 … ncommit-1` of the current run,
one every `F` bytes -/
theorem committed_frames_are_the_camera_frames (hm : rt.client.misused = false) (hF : 0 < (getS rt s).F) :
    since (getS rt s).sinkFrames (getS rt s).sto.base =
      expected (getS rt s).cam.run (getS rt s).sto.base (getS rt s).F (getS rt s).sto.ncommit :=
  (DId.micro rt h s (Here.intro _) hm hF).frames

/-- (3) **C04, safety**: in every reachable state the storage of stream `s` has received, in order, without gap or
repetition, the camera's frames `0 … m-1` of the current run — each with its frame id, hardware frame id and run (hence its
pixel bytes) unchanged; `m` never exceeds the number of frames committed. -/
theorem stored_is_a_prefix_of_the_camera_frames (hm : rt.client.misused = false) (hF : 0 < (getS rt s).F) (hc : (getS rt s).sto.clean = true) :
    ∃ m, m ≤ (getS rt s).sto.ncommit ∧
      (getS rt s).sto.log = (List.range m).map (fun j => (⟨(getS rt s).cam.run, j, j⟩ : Frame)) := by
  have hl := ((DLog.micro rt h s (Here.intro _) hm).log hc).2.2
  have hi := (DId.micro rt h s (Here.intro _) hm hF).frames
  rw [hl, framesIn_since, hi]
  exact expected_below _ _ _ _ _ hF

/-- (4) **C04, completeness**: when the sink has drained an undisturbed run, the storage holds exactly the camera's frames
`0 … N-1` (`N = max_frame_count`), in order, unchanged. -/
theorem undisturbed_acquisition_is_complete (hm : rt.client.misused = false) (hF : 0 < (getS rt s).F) (hc : (getS rt s).sto.clean = true)
    (hd : (getS rt s).sto.drained = true) (hnd : (getS rt s).sto.disturbed = false) :
    (getS rt s).sto.log = (List.range (getS rt s).maxFrames).map (fun j => (⟨(getS rt s).cam.run, j, j⟩ : Frame)) := by
  have hl := (DLog.micro rt h s (Here.intro _) hm).log hc
  have hi := DId.micro rt h s (Here.intro _) hm hF
  have hE := DEnd.micro rt h s (Here.intro _) hm hF
  have hFn := DFin.micro rt h s (Here.intro _) hm hF
  obtain ⟨happ, hcomp, hcur⟩ := hE.drained hd hnd hc
  have hdrop : (getS rt s).sto.dropped = false := by
    cases hdd : (getS rt s).sto.dropped with
    | false => rfl
    | true => have := hE.dropped hdd; rw [hnd] at this; cases this
  -- all N frames were committed
  have hn : (getS rt s).sto.ncommit = (getS rt s).maxFrames := by
    rcases hFn.fin_count hcomp.1 hdrop with h1 | h1 | h1
    · rw [hnd] at h1; cases h1
    · exact absurd (hE.w2 h1) (by rw [hd]; simp)
    · rw [h1]; exact hcomp.2
  -- and everything committed was appended
  rw [hl.2.2, framesIn_since, hi.frames]
  have htot := hi.total
  simp only [cv_total] at htot happ
  have hcover : (getS rt s).sto.base + ((getS rt s).sto.appended - (getS rt s).sto.base) = (getS rt s).sto.base + (getS rt s).sto.ncommit * (getS rt s).F := by
    have := hl.1; omega
  rw [hcover, hn]
  -- every expected frame starts below base + N*F
  have hall : (expected (getS rt s).cam.run (getS rt s).sto.base (getS rt s).F (getS rt s).maxFrames).filter
      (fun p => decide (p.1 < (getS rt s).sto.base + (getS rt s).maxFrames * (getS rt s).F)) =
      expected (getS rt s).cam.run (getS rt s).sto.base (getS rt s).F (getS rt s).maxFrames := by
    rw [List.filter_eq_self]
    intro p hp
    unfold expected at hp
    simp only [List.mem_map, List.mem_range] at hp
    obtain ⟨j, hj, rfl⟩ := hp
    simp only [decide_eq_true_eq]
    have : j * (getS rt s).F + (getS rt s).F ≤ (getS rt s).maxFrames * (getS rt s).F := by
      have := Nat.mul_le_mul_right (getS rt s).F (show j + 1 ≤ (getS rt s).maxFrames from hj)
      rw [Nat.add_mul, Nat.one_mul] at this; exact this
    omega
  rw [hall]
  simp [expected, List.map_map, Function.comp_def]

/-- (5) **C04, end to end**: whenever the runtime is at rest after an acquisition of stream `s` that nobody disturbed — the
client outside `acquire_start`/`acquire_stop`/`acquire_abort`, `runtime.state` not Running, which is the state in which
`acquire_stop` returns — the storage holds exactly the camera's frames `0 … N-1`: a sink thread that has ended in an
undisturbed run has ended through its final, empty read (`DStop.ended`), never through its error path. -/
theorem stopped_undisturbed_acquisition_is_complete (hm : rt.client.misused = false) (hF : 0 < (getS rt s).F) (hc : (getS rt s).sto.clean = true)
    (hq : quiet rt.client.pc = true) (hs : rt.state ≠ .running) (hrun : 0 < (getS rt s).sto.run)
    (hnd : (getS rt s).sto.disturbed = false) :
    (getS rt s).sto.log = (List.range (getS rt s).maxFrames).map (fun j => (⟨(getS rt s).cam.run, j, j⟩ : Frame)) := by
  have hcl := idle_is_clean rt h hq hs s
  have d := DStop.micro rt h s (Here.intro _) hm hF
  have h0 := stage_of_quiet rt.client.pc s hq
  rcases d.ended (.inr hcl.1.2.2) hrun with e | e | e
  · exact undisturbed_acquisition_is_complete rt h s hm hF hc e hnd
  · rw [hnd] at e; cases e
  · omega

omit h in
/-- two streams never mix: the invariants are per stream, and an action of a worker of stream `s` changes no other
stream's record -/
theorem streams_do_not_mix (s' : Nat) (st : Stream) (hne : s ≠ s') : getS (setS rt s st) s' = getS rt s' :=
  getS_setS_other rt s s' st hne

/-- non-vacuity: the premises hold in the initial state of a scenario -/
example : let rt := initRT 400 [some { F := 104, n := 17 }, none] [.start, .stop]
    MReach rt ∧ rt.client.misused = false ∧
    0 < (getS rt 0).F ∧ (getS rt 0).sto.clean = true :=
  ⟨.init _ _ _, by decide, by decide, by decide⟩

end AcqVerif.C04
