import AcqVerif.Runtime.Data.MonReach
/-!
# C06 — the monitoring client sees a gap-free, duplicate-free, fresh frame sequence

Model: M1 (`AcqVerif.Runtime`); the monitoring client's reader is reader 1 of `sink.in`. For every scenario, client program
(any pattern of `acquire_map_read` / `acquire_unmap_read` with partial consumption, holding a region across `acquire_stop`,
`acquire_abort`, repeated acquisitions) and every schedule, in every reachable state, for every stream (scripted camera faults and empty frames included) and a client that keeps the API's usage rule (no second map without unmap):

* what the client has consumed so far is the committed byte stream from the position at which its reader registered,
  byte after byte — no gap, no repetition, no reordering; a mapped region holds exactly the next bytes; the reader's
  status stays `Channel_Ok` (so `acquire_map_read` keeps succeeding, also across acquisitions);
* what reaches storage does not depend on the client (C04's theorems hold for every client program);
* `acquire_stop`/`acquire_abort` leave a registered monitor reader with nothing unread, and it stays so until the next
  source thread is created; a reader that was registered and caught up when the storage was started never sees a byte
  committed before that start — the first frame it maps in that acquisition is that acquisition's own.

The last point needs the reader to be registered before the stop: a reader that registers later starts at the beginning of
the ring's current lap — the known finding `first-map-after-a-finished-acquisition` (known_findings.json, DESIGN.md C06).
-/
namespace AcqVerif.C06
open AcqVerif.Runtime AcqVerif.Channel AcqVerif

variable (rt : RT) (h : MReach rt) (s : Nat)
include h

/-- (1) **gap-free, duplicate-free, in order**: there is a well-formed history of `sink.in` whose ghost record of what
reader 1 consumed is exactly the stream positions `join, join+1, …, idx-1`, in this order; the reader's status is `Ok`. -/
theorem monitor_consumes_the_stream_in_order (hm : rt.client.misused = false) (hreg : (getS rt s).monReg = true) :
    ∃ cap g, Reachable cap (getS rt s).sinkCh g ∧
      nth g.seen 1 = (List.range' (nth (getS rt s).sinkCh.join 1) (nth (getS rt s).sinkCh.idx 1 - nth (getS rt s).sinkCh.join 1)).map some ∧
      nth (getS rt s).sinkCh.join 1 ≤ nth (getS rt s).sinkCh.idx 1 ∧ nth (getS rt s).sinkCh.idx 1 ≤ (getS rt s).sinkCh.total ∧
      (nth (getS rt s).sinkCh.rds 1).status = 0 := by
  have d := DUse.micro rt h s (Here.intro _) hm
  obtain ⟨cap, g, hr⟩ := d.ok
  have hn : 1 < (getS rt s).sinkCh.rds.length := by
    have := d.nrd; rw [hreg] at this; simp only [cv_nrd, ite_true] at this; omega
  obtain ⟨a1, a2, a3, _⟩ := C01.consumed_is_stream hr 1 hn
  exact ⟨cap, g, hr, a1, a2, a3, C01.status_stays_ok hr 1 hn⟩

/-- (2) a region the client has mapped lies inside the committed data and holds exactly its next `len` stream bytes -/
theorem mapped_region_is_the_next_bytes (hm : rt.client.misused = false) (hreg : (getS rt s).monReg = true) (hmap : (nth (getS rt s).sinkCh.rds 1).mapped = true) :
    ∃ cap g, Reachable cap (getS rt s).sinkCh g ∧ 0 < C02.regionLen (getS rt s).sinkCh 1 ∧
      nth (getS rt s).sinkCh.idx 1 + C02.regionLen (getS rt s).sinkCh 1 ≤ (getS rt s).sinkCh.total ∧
      ∀ j, j < C02.regionLen (getS rt s).sinkCh 1 → g.mem (C02.regionBeg (getS rt s).sinkCh 1 + j) = some (nth (getS rt s).sinkCh.idx 1 + j) := by
  have d := DUse.micro rt h s (Here.intro _) hm
  obtain ⟨cap, g, hr⟩ := d.ok
  have hn : 1 < (getS rt s).sinkCh.rds.length := by
    have := d.nrd; rw [hreg] at this; simp only [cv_nrd, ite_true] at this; omega
  obtain ⟨a1, _, a3, a4⟩ := C02.read_region_committed hr 1 hn hmap
  exact ⟨cap, g, hr, a1, a3, a4⟩

/-- (3) **nothing of a finished acquisition is left for a registered monitor**: after `acquire_stop`/`acquire_abort`
flushed it, the reader has consumed everything ever committed, until a new source thread is created -/
theorem flushed_monitor_has_nothing_unread (hm : rt.client.misused = false) (hfl : (getS rt s).monFlushed = true) :
    (getS rt s).monReg = true ∧ nth (getS rt s).sinkCh.idx 1 = (getS rt s).sinkCh.total ∧ (getS rt s).src.pc = .done :=
  (DMon.micro rt h s (Here.intro _) hm).flushed hfl

/-- (4) **freshness**: a monitor reader that was registered and caught up when the storage was started stays at or beyond
the start of that run: every byte it is handed was committed in the current acquisition … -/
theorem fresh_monitor_sees_only_the_current_run (hm : rt.client.misused = false) (hfr : (getS rt s).sto.monFresh = true) :
    (getS rt s).sto.base ≤ nth (getS rt s).sinkCh.idx 1 :=
  ((DMon.micro rt h s (Here.intro _) hm).fresh hfr).2

/-- (4') … and the frames committed at or after that position are the current camera run's frames `0, 1, 2, …` -/
theorem frames_of_the_current_run (hm : rt.client.misused = false) (hF : 0 < (getS rt s).F) :
    since (getS rt s).sinkFrames (getS rt s).sto.base =
      expected (getS rt s).cam.run (getS rt s).sto.base (getS rt s).F (getS rt s).sto.ncommit :=
  (DId.micro rt h s (Here.intro _) hm hF).frames

omit h in
/-- the flush of the monitor reader in `acquire_stop` ends by recording `monFlushed` -/
theorem stop_flushes_a_registered_monitor (k : Nat) : ∀ a ∈ clientFlush k 1, a.name = "cl.flush.empty" →
    ∀ rt, k < rt.streams.length → (getS (a.upd rt) k).monFlushed = true := by
  intro a ha hn rt hk
  unfold clientFlush at ha
  each_action ha <;> simp at hn
  simp [getS, setPc, modS, setS, List.getD, hk]

example : MReach (initRT 400 [some { F := 104, n := 9 }, none] [.start, .map 0, .unmap 0 (some 1), .monwait 0, .stop, .start, .map 0, .unmap 0 none, .stop]) := .init _ _ _

end AcqVerif.C06
