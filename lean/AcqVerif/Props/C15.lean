import AcqVerif.Tiff.DeviceLemmas
import AcqVerif.Tiff.Ties
import AcqVerif.Tiff.DescLemmas
/-!
# C15 — TIFF writers produce valid BigTIFF files that round-trip every frame

Objects (all defined in `AcqVerif/Tiff/`):
* `Tiff`, `Sxs`, `Device`, `storageSet/Start/Append/Stop` — transcription of `tiff.cpp`,
  `side-by-side-tiff.cpp` (repaired: fixes/15, /16, /19) and of the HAL wrappers;
  `Device.acquire d p packets` = set, start, one append per packet, stop, on a device in ANY state `d`.
* `tiffFile old cfg frames` — the bytes of the file after one acquisition (`old` = what the path held before;
  `file_create` does not truncate), `Files` — path ↦ bytes.
* `TiffRead.readTiff` — an independent bounds-checked BigTIFF reader (header magic / version / offset size,
  `first_ifd`, the `next` links with fuel, tag decoding by TIFF field type).
* `expectedPages cfg frames` — page `i` carries frame `i`'s width, height, bits per sample, sample format,
  strip bytes and the description text `descOf cfg i frame`.

Hypotheses that appear: `frames ≠ []` (N ≥ 1), `Frame.WF` (`uint32_t` width/height, a valid `SampleType`),
and `endOff … < 2^64` (the file is smaller than 2^64 bytes, so offsets fit their 8-byte fields).
-/
namespace AcqVerif.C15
open AcqVerif.Tiff AcqVerif.TiffRead

/-! ## concrete, non-trivial inputs used by the non-vacuity examples -/

def f0 : Frame := { width := 3, height := 2, type := 1, frameId := 7, hwFrameId := 2 ^ 64 - 1, tsHardware := 12345,
                    tsAcq := 10 ^ 19, data := List.replicate 16 0xab }
def f1 : Frame := { width := 1, height := 5, type := 4, frameId := 8, hwFrameId := 0, tsHardware := 0, tsAcq := 1,
                    data := List.replicate 24 0x01 }
/-- metadata `{"a":1}`, pixel scales 2.5 and 0.5 -/
def cfg0 : Cfg := { metadata := [123, 34, 97, 34, 58, 49, 125], scaleMilliX := 2500, scaleMilliY := 500 }
/-- uri `file://x.tif` -/
def p0 : Props := { uri := sFileScheme ++ [120, 46, 116, 105, 102], metadata := some cfg0.metadata, scaleMilliX := 2500,
                    scaleMilliY := 500 }
/-- a writer left in an arbitrary state by earlier use -/
def tDirty : Tiff := { state := .armed, filename := [1], externalMetadata := [123, 34, 122, 34, 58, 48, 125], scaleMilliX := 7,
                       scaleMilliY := 0, file := [2], lastOffset := 999, lastIfdNextOffset := 5000, frameCount := 9,
                       strings := { offset := 77, size := 3, data := [1, 2, 3] } }
def sDirty : Sxs := { state := .armed, tiff := tDirty, uri := [9], metadata := [123, 125], scaleMilliX := 1, scaleMilliY := 2 }
def wOld : Files := [([120, 46, 116, 105, 102], List.replicate 2000 0xee)]

theorem frames01_wf : ∀ f ∈ [f0, f1], f.WF := by
  intro f hf; simp at hf; rcases hf with rfl | rfl <;> exact ⟨by decide, by decide, by decide⟩

set_option maxRecDepth 20000 in
theorem frames01_size : endOff cfg0 K.sizeofHeader 0 [f0, f1] < 2 ^ 64 := by decide

/-! ## (3) round trip -/

/-- The reader, applied to the file of an acquisition of `N ≥ 1` frames (whatever the path held before,
whatever the shapes, sample types, metadata and pixel scales), returns exactly the expected pages. -/
theorem C15_roundtrip (old : Tiff.Bytes) (cfg : Cfg) (frames : List Frame) (hne : frames ≠ [])
    (hw : ∀ f ∈ frames, f.WF) (h64 : endOff cfg K.sizeofHeader 0 frames < 2 ^ 64) :
    readTiff (tiffFile old cfg frames) = some (expectedPages cfg frames) :=
  readTiff_tiffFile old cfg frames hne hw h64

example : readTiff (tiffFile [9, 9, 9] cfg0 [f0, f1]) = some (expectedPages cfg0 [f0, f1]) :=
  C15_roundtrip _ cfg0 [f0, f1] (by simp) frames01_wf frames01_size

theorem pagesFrom_getElem? (cfg : Cfg) (last idx : Nat) (frames : List Frame) (i : Nat) (h : i < frames.length) :
    ∃ L nxt, (pagesFrom cfg last idx frames)[i]? = some (pageOf cfg (idx + i) frames[i] L nxt) := by
  induction frames generalizing last idx i with
  | nil => simp at h
  | cons f rest ih =>
    cases i with
    | zero =>
      exact ⟨frameLayout cfg last idx f, if rest.isEmpty then 0 else (frameLayout cfg last idx f).next, by simp [pagesFrom]⟩
    | succ j =>
      obtain ⟨L, nxt, hj⟩ := ih (frameLayout cfg last idx f).next (idx + 1) j (by simpa using h)
      refine ⟨L, nxt, ?_⟩
      have e : idx + (j + 1) = idx + 1 + j := by omega
      simpa [pagesFrom, e] using hj

theorem pagesFrom_length (cfg : Cfg) (last idx : Nat) (frames : List Frame) :
    (pagesFrom cfg last idx frames).length = frames.length := by
  induction frames generalizing last idx with
  | nil => rfl
  | cons f rest ih => simp [pagesFrom, ih]

/-- What the pages say, in the words of the property: there are exactly `N` of them and the `i`-th gives the
`i`-th frame's width, height, bits per sample (8 × bytes of the sample type) and sample format (1 unsigned,
2 signed, 3 float), a strip that is the frame's bytes unchanged — so its first `imageBytes` bytes are the
pixels, whatever alignment padding follows them — and the description the writer composed for that frame. -/
theorem C15_pages (cfg : Cfg) (frames : List Frame) :
    (expectedPages cfg frames).length = frames.length ∧
    ∀ i (h : i < frames.length), ∃ pg, (expectedPages cfg frames)[i]? = some pg ∧
      pg.width = frames[i].width ∧ pg.height = frames[i].height ∧
      pg.bitsPerSample = 8 * bytesOfType frames[i].type ∧ pg.sampleFormat = sampleFormatCode frames[i].type ∧
      pg.stripByteCount = frames[i].data.length ∧ pg.strip = frames[i].data ∧
      (∀ pixels pad, frames[i].data = pixels ++ pad → pg.strip.take pixels.length = pixels) ∧
      pg.description = descOf cfg i frames[i] ++ [0] := by
  refine ⟨pagesFrom_length _ _ _ _, ?_⟩
  intro i h
  obtain ⟨L, nxt, hp⟩ := pagesFrom_getElem? cfg K.sizeofHeader 0 frames i h
  refine ⟨_, hp, rfl, rfl, rfl, rfl, rfl, rfl, ?_, ?_⟩
  · intro pixels pad hd
    simp [pageOf, hd]
  · simp [pageOf]

example : ∃ pg, (expectedPages cfg0 [f0, f1])[1]? = some pg ∧ pg.width = 1 ∧ pg.height = 5 ∧ pg.bitsPerSample = 32 ∧
    pg.sampleFormat = 3 ∧ pg.strip = f1.data := by
  obtain ⟨pg, h1, h2, h3, h4, h5, _, h7, _⟩ := (C15_pages cfg0 [f0, f1]).2 1 (by decide)
  exact ⟨pg, h1, h2, h3, h4, h5, h7⟩

/-- The description of frame `i`: JSON text with that frame's ids and timestamps in decimal; the user's
metadata is embedded on the first page only (and only if there is any). -/
theorem C15_description (cfg : Cfg) (i : Nat) (f : Frame) :
    descOf cfg i f =
      if i = 0 ∧ cfg.metadata ≠ [] then
        sFrameId ++ dec f.frameId ++ sHwFrameId ++ dec f.hwFrameId ++ sTsRuntime ++ dec f.tsAcq ++ sTsHardware ++
          dec f.tsHardware ++ sMetadata ++ cfg.metadata ++ sEndMeta
      else
        sFrameId ++ dec f.frameId ++ sHwFrameId ++ dec f.hwFrameId ++ sTsRuntime ++ dec f.tsAcq ++ sTsHardware ++
          dec f.tsHardware ++ sEndPlain := by
  unfold descOf descMeta descPlain
  have : cfg.metadata.length > 0 ↔ cfg.metadata ≠ [] := List.length_pos_iff
  simp only [this]

example : descOf cfg0 0 f0 ≠ descOf cfg0 1 f0 := by
  rw [C15_description, C15_description]; decide

/-- Semantically: an independent scanner of the JSON text (`TiffRead.parseDescription`: literal keys, numbers as
runs of decimal digits) applied to the description of page `i` (without its terminating NUL) returns frame `i`'s
`frame_id`, `hardware_frame_id`, `timestamps.runtime`, `timestamps.hardware`, and as `metadata` exactly the user's
metadata on page 0 — no `metadata` key on any other page, nor when the user gave none. -/
theorem C15_description_parses (cfg : Cfg) (frames : List Frame) (i : Nat) (h : i < frames.length) :
    ∃ pg, (expectedPages cfg frames)[i]? = some pg ∧ pg.description.getLast? = some 0 ∧
      parseDescription pg.description.dropLast =
        some ⟨frames[i].frameId, frames[i].hwFrameId, frames[i].tsAcq, frames[i].tsHardware,
              if i = 0 ∧ cfg.metadata ≠ [] then some cfg.metadata else none⟩ := by
  obtain ⟨L, nxt, hp⟩ := pagesFrom_getElem? cfg K.sizeofHeader 0 frames i h
  refine ⟨_, hp, by simp [pageOf], ?_⟩
  have := parse_descOf cfg (0 + i) frames[i]
  simpa [pageOf] using this

example : ∃ pg, (expectedPages cfg0 [f0, f1])[0]? = some pg ∧
    parseDescription pg.description.dropLast = some ⟨7, 2 ^ 64 - 1, 10 ^ 19, 12345, some cfg0.metadata⟩ := by
  obtain ⟨pg, h1, _, h3⟩ := C15_description_parses cfg0 [f0, f1] 0 (by decide)
  exact ⟨pg, h1, h3⟩

/-! ## (2) the chain -/

/-- the pages form a chain starting at `off`: each directory sits where the previous link points, no link
before the end is zero, and the last link is zero -/
def ChainOk : Nat → List Page → Prop
  | off, [] => off = 0
  | off, p :: rest => off ≠ 0 ∧ p.ifdOffset = off ∧ ChainOk p.next rest

theorem chainOk_pagesFrom (cfg : Cfg) (last idx : Nat) (frames : List Frame) (hl : 0 < last) :
    ChainOk (chainStart last frames) (pagesFrom cfg last idx frames) := by
  induction frames generalizing last idx with
  | nil => simp [ChainOk, chainStart, pagesFrom]
  | cons f rest ih =>
    have ho := layout_order last f.data.length (descOf cfg idx f).length
    have hge := align8_ge last
    have := ih (frameLayout cfg last idx f).next (idx + 1) (by simp only [frameLayout] at *; omega)
    simp only [ChainOk, pagesFrom, pageOf, chainStart, List.isEmpty_cons, Bool.false_eq_true, if_false]
    refine ⟨by omega, by simp [frameLayout, layout], ?_⟩
    simpa [chainStart, frameLayout, layout, align8_align8] using this

/-- Following `first_ifd` and the `next` links in the file visits exactly `N` directories and ends in a
zero link (the reader fails on a dangling or cyclic chain, so `some` already says the chain is sound). -/
theorem C15_chain (old : Tiff.Bytes) (cfg : Cfg) (frames : List Frame) (hne : frames ≠ [])
    (hw : ∀ f ∈ frames, f.WF) (h64 : endOff cfg K.sizeofHeader 0 frames < 2 ^ 64) :
    ∃ pages, readTiff (tiffFile old cfg frames) = some pages ∧ pages.length = frames.length ∧
      readHeader (tiffFile old cfg frames) = some 16 ∧ ChainOk 16 pages := by
  refine ⟨_, C15_roundtrip old cfg frames hne hw h64, pagesFrom_length _ _ _ _,
    readHeader_of_holds (tiffFile_holds old cfg frames hne).1, ?_⟩
  have := chainOk_pagesFrom cfg K.sizeofHeader 0 frames (by decide)
  cases frames with
  | nil => exact absurd rfl hne
  | cons f r => exact this

example : ∃ pages, readTiff (tiffFile [] cfg0 [f0, f1]) = some pages ∧ pages.length = 2 ∧
    readHeader (tiffFile [] cfg0 [f0, f1]) = some 16 ∧ ChainOk 16 pages :=
  C15_chain [] cfg0 [f0, f1] (by simp) frames01_wf frames01_size

/-! ## (1) layout -/

/-- the regions `(offset, length)` come in increasing order without overlap — each starts at or after the
end of the previous one, the first at or after `lo` — and every one ends inside `[0, hi]` -/
def Within : Nat → Nat → List (Nat × Nat) → Prop
  | _, _, [] => True
  | lo, hi, r :: rest => lo ≤ r.1 ∧ r.1 + r.2 ≤ hi ∧ Within (r.1 + r.2) hi rest

theorem within_mono {a b hi : Nat} {rs : List (Nat × Nat)} (h : a ≤ b) (hw : Within b hi rs) : Within a hi rs := by
  cases rs with
  | nil => trivial
  | cons r rest => exact ⟨Nat.le_trans h hw.1, hw.2⟩

theorem within_pagesFrom {F : Tiff.Bytes} (cfg : Cfg) (fin last idx : Nat) (frames : List Frame)
    (h : FramesIn F cfg fin last idx frames) :
    Within last F.length ((pagesFrom cfg last idx frames).map Page.regions).flatten := by
  induction frames generalizing last idx with
  | nil => trivial
  | cons f rest ih =>
    have ho := layout_order last f.data.length (descOf cfg idx f).length
    have hk : K.sizeofIfd = 336 := rfl
    simp only [FramesIn] at h
    obtain ⟨_, _, _, hstr, hrest⟩ := h
    have hsb := hstr.bound (by simp)
    have := ih (frameLayout cfg last idx f).next (idx + 1) hrest
    simp only [List.length_append, List.length_cons, List.length_nil] at hsb
    simp only [pagesFrom, List.map_cons, List.flatten_cons, Page.regions, pageOf, Bool.false_eq_true, if_false,
      List.cons_append, List.nil_append, Within, K.ntags]
    simp only [frameLayout] at *
    refine ⟨ho.1, by omega, by omega, by omega, by omega, by omega, within_mono (by omega) this⟩

/-- Header, every directory, every strip and every string section, as the reader located them, lie inside
the file and are pairwise disjoint: their offsets strictly increase, each structure starting at or after
the end of the previous one. -/
theorem C15_layout_disjoint_in_file (old : Tiff.Bytes) (cfg : Cfg) (frames : List Frame) (hne : frames ≠ [])
    (hw : ∀ f ∈ frames, f.WF) (h64 : endOff cfg K.sizeofHeader 0 frames < 2 ^ 64) :
    ∃ pages, readTiff (tiffFile old cfg frames) = some pages ∧
      Within 0 (tiffFile old cfg frames).length (regions pages) := by
  refine ⟨_, C15_roundtrip old cfg frames hne hw h64, ?_⟩
  obtain ⟨hh, hf⟩ := tiffFile_holds old cfg frames hne
  have hb := hh.bound (by intro e; have := header_length; rw [e] at this; exact absurd this (by decide))
  rw [header_length] at hb
  have hk : K.sizeofHeader = 16 := rfl
  rw [hk] at hb
  have := within_pagesFrom cfg 0 K.sizeofHeader 0 frames hf
  exact ⟨Nat.le_refl _, by simpa using hb, this⟩

example : ∃ pages, readTiff (tiffFile [] cfg0 [f0, f1]) = some pages ∧
    Within 0 (tiffFile [] cfg0 [f0, f1]).length (regions pages) :=
  C15_layout_disjoint_in_file [] cfg0 [f0, f1] (by simp) frames01_wf frames01_size

/-! ## (4) packets, repeated acquisitions, both devices -/

/-- Only the sequence of frames matters, not how the sink grouped them into `append` packets (empty
packets included). -/
theorem C15_packet_grouping (t : Tiff) (packets packets' : List (List Frame)) (h : packets.flatten = packets'.flatten) :
    t.appendPackets packets = t.appendPackets packets' := by
  rw [appendPackets_eq, appendPackets_eq, h]

example : tDirty.appendPackets [[f0], [], [f1]] = tDirty.appendPackets [[f0, f1]] :=
  C15_packet_grouping tDirty _ _ rfl

theorem pathOfUri_length_le (x : Tiff.Bytes) : (pathOfUri x).length ≤ x.length := by
  simp [pathOfUri]

/-- **`tiff`**: set, start, any packets, stop on a device in ANY prior state `t` (whatever earlier
acquisitions left in its fields) and ANY prior content of the file system.  The file at the configured
path is `tiffFile` of (what the path held, the new configuration, the frames) — nothing else of the device's
past enters — and the reader recovers every frame from it; the device is `Armed` again. -/
theorem C15_tiff_device (t : Tiff) (w : Files) (p : Props) (packets : List (List Frame))
    (hm : metaOk p.metadata) (hne : packets.flatten ≠ []) (hw : ∀ f ∈ packets.flatten, f.WF)
    (h64 : endOff (cfgOf p) K.sizeofHeader 0 packets.flatten < 2 ^ 64) :
    (w.applyAll (Device.acquire (.tiff t) p packets).2).get (pathOfUri p.uri) =
        some (tiffFile ((w.get (pathOfUri p.uri)).getD []) (cfgOf p) packets.flatten) ∧
      readTiff (tiffFile ((w.get (pathOfUri p.uri)).getD []) (cfgOf p) packets.flatten) =
        some (expectedPages (cfgOf p) packets.flatten) ∧
      (Device.acquire (.tiff t) p packets).1.state = .armed := by
  obtain ⟨he, hs⟩ := acquire_spec t p packets hm hne
  rw [acquire_tiff t p packets hm]
  refine ⟨?_, C15_roundtrip _ _ _ hne hw h64, hs⟩
  simp only [he]
  exact Files.acquire_file w (pathOfUri p.uri) _

example : (wOld.applyAll (Device.acquire (.tiff tDirty) p0 [[f0], [], [f1]]).2).get (pathOfUri p0.uri) =
      some (tiffFile ((wOld.get (pathOfUri p0.uri)).getD []) (cfgOf p0) [f0, f1]) ∧
    readTiff (tiffFile ((wOld.get (pathOfUri p0.uri)).getD []) (cfgOf p0) [f0, f1]) = some (expectedPages (cfgOf p0) [f0, f1]) ∧
    (Device.acquire (.tiff tDirty) p0 [[f0], [], [f1]]).1.state = .armed :=
  C15_tiff_device tDirty wOld p0 [[f0], [], [f1]] (Or.inr (by decide)) (by simp) frames01_wf frames01_size

theorem pwrite_nil_zero (d : Tiff.Bytes) : pwrite [] 0 d = d := by
  unfold pwrite; cases d <;> simp [zeros]

theorem prologue_meta (w : Files) (p : Props) :
    (w.applyAll (sxsPrologue p)).get (pathOfUri p.uri ++ sMetadataJson) = some (p.metadata.getD []) := by
  simp only [sxsPrologue, Files.applyAll, List.foldl_cons, List.foldl_nil]
  have h0 : Files.apply w (Eff.mkdir (pathOfUri p.uri)) = w := rfl
  rw [h0]
  have h1 := Files.get_remove_same w (pathOfUri p.uri ++ sMetadataJson)
  simp only [Files.apply, Files.get_put_same] at h1 ⊢
  simp only [h1, Files.get_put_same, Option.getD_some, pwrite_nil_zero]

theorem prologue_other (w : Files) (p : Props) (q : Tiff.Bytes) (h : q ≠ pathOfUri p.uri ++ sMetadataJson) :
    (w.applyAll (sxsPrologue p)).get q = w.get q := by
  have e : w.applyAll (sxsPrologue p) = w.applyAll [Eff.remove (pathOfUri p.uri ++ sMetadataJson),
      Eff.create (pathOfUri p.uri ++ sMetadataJson), Eff.write (pathOfUri p.uri ++ sMetadataJson) 0 (p.metadata.getD []),
      Eff.close (pathOfUri p.uri ++ sMetadataJson)] := rfl
  rw [e]
  apply Files.applyAll_other
  intro e he
  simp only [List.mem_cons, List.mem_nil_iff, or_false] at he
  rcases he with rfl | rfl | rfl | rfl <;> exact h

theorem dataPath_ne_metaPath (path : Tiff.Bytes) : pathOfUri (path ++ sDataTif) ≠ path ++ sMetadataJson := by
  intro h
  have h1 := pathOfUri_length_le (path ++ sDataTif)
  rw [h] at h1
  simp [sDataTif, sMetadataJson] at h1

/-- **`tiff-json`**: the same for the composite device in ANY prior state `s` (including whatever state its
inner writer was left in).  `<folder>/data.tif` is `tiffFile` of the frames and round-trips;
`<folder>/metadata.json` holds exactly the user's metadata; the device is `Armed` again. -/
theorem C15_tiff_json_device (s : Sxs) (w : Files) (p : Props) (packets : List (List Frame))
    (hm : sxsMetaOk p.metadata) (hne : packets.flatten ≠ []) (hw : ∀ f ∈ packets.flatten, f.WF)
    (h64 : endOff (cfgOf p) K.sizeofHeader 0 packets.flatten < 2 ^ 64) :
    let dataPath := pathOfUri (pathOfUri p.uri ++ sDataTif)
    let metaPath := pathOfUri p.uri ++ sMetadataJson
    let w' := w.applyAll (Device.acquire (.sxs s) p packets).2
    w'.get dataPath = some (tiffFile ((w.get dataPath).getD []) (cfgOf p) packets.flatten) ∧
      readTiff (tiffFile ((w.get dataPath).getD []) (cfgOf p) packets.flatten) =
        some (expectedPages (cfgOf p) packets.flatten) ∧
      w'.get metaPath = some (metaOf p.metadata) ∧
      (Device.acquire (.sxs s) p packets).1.state = .armed := by
  intro dataPath metaPath w'
  have hin := innerProps_metaOk p hm
  obtain ⟨he, hs⟩ := acquire_sxs s p packets hm
  obtain ⟨hi, _⟩ := acquire_spec s.tiff (innerProps p) packets hin hne
  have hne' : dataPath ≠ metaPath := dataPath_ne_metaPath _
  have hw' : w' = (w.applyAll (sxsPrologue p)).applyAll (s.tiff.acquire (innerProps p) packets).2 := by
    simp only [w', he, Files.applyAll_append]
  have hdp : pathOfUri (innerProps p).uri = dataPath := rfl
  refine ⟨?_, C15_roundtrip _ _ _ hne hw h64, ?_, hs⟩
  · rw [hw', hi, hdp, cfgOf_innerProps, Files.acquire_file, prologue_other w p dataPath hne']
    rfl
  · rw [hw', hi, hdp, Files.applyAll_other, prologue_meta]
    · rfl
    · intro e he'
      simp only [List.mem_append, List.mem_cons, List.mem_nil_iff, or_false, toEffs, List.mem_map] at he'
      rcases he' with (rfl | ⟨x, _, rfl⟩) | rfl <;> exact Ne.symm hne'

example : ((wOld.applyAll (Device.acquire (.sxs sDirty) p0 [[f0, f1]]).2).get (pathOfUri p0.uri ++ sMetadataJson)) =
    some cfg0.metadata :=
  (C15_tiff_json_device sDirty wOld p0 [[f0, f1]] (by unfold sxsMetaOk; decide) (by simp) frames01_wf frames01_size).2.2.1

end AcqVerif.C15
