import AcqVerif.Select.Lemmas
/-!
# C12 — device selection agrees with enumeration; bad input gives errors, not crashes

Property theorems over the model `AcqVerif/Select/Model.lean` (device.manager.cpp, loader.c,
driver.c) and the regex layer `AcqVerif/Select/Regex.lean`.  All statements hold for *every*
manager state (any list of enumerated identifiers, any subset of loaded drivers), every kind
value, every byte string and every engine (= every behaviour of `std::regex`).
-/
namespace AcqVerif.C12
open AcqVerif.Select AcqVerif.Generated

/-- what the property calls "a device of that kind whose whole name matches the pattern
(any device of the kind for an empty pattern)"; `name` is the effective name (`stdName`) and
`re` the engine's whole-string verdicts for the pattern -/
def Accepts (kind : Nat) (name : Bytes) (re : Bytes → Bool) (e : Entry) : Prop :=
  e.ident.kind = kind ∧ (name = [] ∨ re e.ident.name = true)

theorem accepts_iff (kind : Nat) (name : Bytes) (re : Bytes → Bool) (e : Entry) :
    accepts kind name re e = true ↔ Accepts kind name re e := by
  unfold accepts Accepts
  simp [List.isEmpty_iff]

theorem accepts_false_iff (kind : Nat) (name : Bytes) (re : Bytes → Bool) (e : Entry) :
    accepts kind name re e = false ↔ ¬ Accepts kind name re e := by
  rw [← accepts_iff]; cases accepts kind name re e <;> simp

/-- `d` is the identifier at the least enumeration index (the index `device_manager_get` uses)
whose entry satisfies `P` -/
def IsFirst (m : Manager) (P : Entry → Prop) (d : Ident) : Prop :=
  ∃ (i : Nat) (e : Entry), m.identifiers[i]? = some e ∧ e.ident = d ∧ P e ∧
    ∀ j : Nat, j < i → ∀ x, m.identifiers[j]? = some x → ¬ P x

/-- a small manager used by the non-vacuity examples: the real common driver in slot 0,
slot 1 absent, a one-device mock in slot 2 -/
def demoLibs : List LibState :=
  [.loaded commonDriver, .absent,
   .loaded (driverOfRows 1 [{ index := 0, descOk := true, deviceId := 0, kind := 2, name := [84, 82, 65, 83, 72],
                              openOk := true, oDescOk := true, oDeviceId := 0, oKind := 2, oName := [84, 82, 65, 83, 72], closeOk := true }])]
def demo : Manager := Manager.init demoLibs
/-- `trash` -/
def trash : Bytes := [116, 114, 97, 115, 104]

/-! ## 1. the result is the first enumerated device of the kind whose whole name matches -/

/-- **First match.** If the engine accepts the pattern (the C string of the caller's bytes) then
`device_manager_select` returns `Ok d` exactly when `d` is the first enumerated identifier — in
`device_manager_get` index order — of the requested kind whose whole name the engine matches
(or, for an empty effective name, the first of the kind). -/
theorem C12_first_match (m : Manager) (kind : Nat) (bs : Bytes) (engine : Engine) (re : Bytes → Bool)
    (hc : engine (cstr bs) = some re) (d : Ident) :
    m.select kind (.buf bs) engine = .ok d ↔ IsFirst m (Accepts kind (stdName (.buf bs)) re) d := by
  have hc' : engine (cstr (stdName (.buf bs))) = some re := by rw [cstr_stdName_buf]; exact hc
  unfold Manager.select Manager.selectInner IsFirst
  simp only
  rw [selectCore_ok_iff m kind _ engine re hc' d]
  constructor
  · intro ⟨i, e, hi, hd, ha, hmin⟩
    exact ⟨i, e, hi, hd, (accepts_iff _ _ _ _).1 ha, fun j hj x hx => (accepts_false_iff _ _ _ _).1 (hmin j hj x hx)⟩
  · intro ⟨i, e, hi, hd, ha, hmin⟩
    exact ⟨i, e, hi, hd, (accepts_iff _ _ _ _).2 ha, fun j hj x hx => (accepts_false_iff _ _ _ _).2 (hmin j hj x hx)⟩

example : demo.select 2 (.buf trash) (reEngine (Re.lit trash)) = .ok ⟨0, 5, 2, trash⟩ := by decide
example : IsFirst demo (Accepts 2 (stdName (.buf trash)) (matchesRe (Re.lit trash))) ⟨0, 5, 2, trash⟩ :=
  (C12_first_match demo 2 trash (reEngine (Re.lit trash)) _ rfl _).1 (by decide)

/-- **No match is an error.** With a pattern the engine accepts, `Err` is returned exactly when
no enumerated identifier of the kind matches. -/
theorem C12_no_match_is_error (m : Manager) (kind : Nat) (bs : Bytes) (engine : Engine) (re : Bytes → Bool)
    (hc : engine (cstr bs) = some re) :
    m.select kind (.buf bs) engine = .err ↔
      ∀ e, e ∈ m.identifiers → ¬ Accepts kind (stdName (.buf bs)) re e := by
  have hc' : engine (cstr (stdName (.buf bs))) = some re := by rw [cstr_stdName_buf]; exact hc
  unfold Manager.select Manager.selectInner
  simp only
  rw [selectCore_err_iff m kind _ engine re hc']
  constructor
  · intro h e he; exact (accepts_false_iff _ _ _ _).1 (h e he)
  · intro h e he; exact (accepts_false_iff _ _ _ _).2 (h e he)

example : demo.select 1 (.buf trash) (reEngine (Re.lit trash)) = .err := by decide
example : demo.select 2 (.buf [116, 114, 97]) (reEngine (Re.lit [116, 114, 97])) = .err := by decide

/-! ## 2. empty pattern ⇒ first device of the kind -/

/-- **Empty pattern.** `NULL`/0, a zero length, or nothing but NUL bytes: the result is the first
enumerated identifier of the kind, whatever the engine says about names (`std::regex("")` is
well formed: `engine [] = some re`). -/
theorem C12_empty_pattern (m : Manager) (kind : Nat) (arg : NameArg) (engine : Engine) (re : Bytes → Bool)
    (harg : ∀ n, arg ≠ .null (n + 1)) (hempty : stdName arg = []) (hc : engine [] = some re) (d : Ident) :
    (m.select kind arg engine = .ok d ↔ IsFirst m (fun e => e.ident.kind = kind) d) ∧
    (m.selectFirst kind engine = .ok d ↔ IsFirst m (fun e => e.ident.kind = kind) d) := by
  have core : m.selectCore kind [] engine = .ok d ↔ IsFirst m (fun e => e.ident.kind = kind) d := by
    rw [selectCore_ok_iff m kind [] engine re (by simpa [cstr] using hc) d]
    unfold IsFirst
    have ha : ∀ e : Entry, accepts kind [] re e = true ↔ e.ident.kind = kind := by
      intro e; unfold accepts; simp
    have hb : ∀ e : Entry, accepts kind [] re e = false ↔ ¬ e.ident.kind = kind := by
      intro e; rw [← ha]; cases accepts kind [] re e <;> simp
    constructor
    · intro ⟨i, e, hi, hd, h1, hmin⟩
      exact ⟨i, e, hi, hd, (ha e).1 h1, fun j hj x hx => (hb x).1 (hmin j hj x hx)⟩
    · intro ⟨i, e, hi, hd, h1, hmin⟩
      exact ⟨i, e, hi, hd, (ha e).2 h1, fun j hj x hx => (hb x).2 (hmin j hj x hx)⟩
  constructor
  · unfold Manager.select Manager.selectInner
    cases arg with
    | null len =>
      cases len with
      | zero => simp only [if_true]; rw [hempty]; exact core
      | succ n => exact absurd rfl (harg n)
    | buf bs => simp only; rw [hempty]; exact core
  · unfold Manager.selectFirst Manager.selectInner
    exact core

example : demo.select 2 (.buf [0, 0]) (reEngine .eps) = .ok ⟨0, 3, 2, [114, 97, 119]⟩ := by decide
example : demo.selectFirst 1 (reEngine .eps) = demo.get 0 := by decide

/-! ## 3. the NUL rule -/

/-- **NUL rule.** (a) the answer depends on the engine only through the C string of the
caller's bytes (the regex is built from `name.c_str()`); (b) NUL padding is stripped:
`"trash\0\0"` selects exactly like `"trash"`; (c) a NUL-free name is used as it is. -/
theorem C12_nul_rule (m : Manager) (kind : Nat) (engine : Engine) :
    (∀ bs (engine' : Engine), engine (cstr bs) = engine' (cstr bs) →
        m.select kind (.buf bs) engine = m.select kind (.buf bs) engine') ∧
    (∀ (p : Bytes) (k : Nat), (∀ b, b ∈ p → b ≠ 0) →
        m.select kind (.buf (p ++ List.replicate (k + 1) 0)) engine = m.select kind (.buf p) engine) ∧
    (∀ bs : Bytes, (∀ b, b ∈ bs → b ≠ 0) → stdName (.buf bs) = bs ∧ cstr bs = bs) := by
  refine ⟨?_, ?_, ?_⟩
  · intro bs engine' h
    unfold Manager.select Manager.selectInner Manager.selectCore
    simp only
    rw [cstr_stdName_buf, h]
  · intro p k h
    unfold Manager.select Manager.selectInner
    simp only
    rw [stdName_padded k h, stdName_nulfree h]
  · intro bs h
    exact ⟨stdName_nulfree h, cstr_of_nulfree h⟩

example : demo.select 2 (.buf (trash ++ [0, 0])) (reEngine (Re.lit trash)) = .ok ⟨0, 5, 2, trash⟩ := by decide
-- an embedded NUL with a non-NUL last byte is *not* an empty name: the pattern is "" and matches no device
example : demo.select 2 (.buf [0, 97]) (reEngine .eps) = .err := by decide

/-! ## 4. bad input gives an error status -/

/-- **Bad input is an error.** A pattern the engine rejects (`std::regex_error`), a NULL name with a
non-zero length, a kind no enumerated device has, an out-of-range index and a driver id
without a loaded driver all produce the error result. -/
theorem C12_bad_input_is_error (m : Manager) (kind : Nat) (engine : Engine) :
    (∀ bs, engine (cstr bs) = none → m.select kind (.buf bs) engine = .err) ∧
    (∀ n, m.select kind (.null (n + 1)) engine = .err) ∧
    ((∀ e, e ∈ m.identifiers → e.ident.kind ≠ kind) →
        ∀ arg, m.select kind arg engine = .err ∧ m.selectFirst kind engine = .err ∧ m.selectDefault kind engine = .err) ∧
    (∀ i, m.count ≤ i → m.get i = .err) ∧
    (∀ ident : Ident, m.drivers.length ≤ ident.driverId → m.getDriver ident = none ∧ m.openIdent ident = .err) := by
  have nokind : (∀ e, e ∈ m.identifiers → e.ident.kind ≠ kind) → ∀ name, m.selectCore kind name engine = .err := by
    intro h name
    cases selectCore_total m kind name engine with
    | inl h => exact h
    | inr h => obtain ⟨e, he, _, hk⟩ := h; exact absurd hk (h e he)
  refine ⟨?_, ?_, ?_, ?_, ?_⟩
  · intro bs h
    unfold Manager.select Manager.selectInner
    simp only
    exact selectCore_bad_regex m kind _ engine (by rw [cstr_stdName_buf]; exact h)
  · intro n
    unfold Manager.select
    simp
  · intro h arg
    refine ⟨?_, ?_, ?_⟩
    · unfold Manager.select Manager.selectInner
      cases arg with
      | null len => simp only; split <;> first | exact nokind h _ | rfl
      | buf bs => exact nokind h _
    · unfold Manager.selectFirst Manager.selectInner; exact nokind h _
    · unfold Manager.selectDefault Manager.selectInner
      split
      · exact nokind h _
      · split
        · exact nokind h _
        · rfl
  · intro i hi; exact get_out_of_range m i hi
  · intro ident h
    have : m.getDriver ident = none := by
      unfold Manager.getDriver
      rw [List.getElem?_eq_none_iff.2 h]
    exact ⟨this, by unfold Manager.openIdent; rw [this]; rfl⟩

example : demo.select 2 (.buf [91]) (fun _ => none) = .err := by decide           -- "[" rejected
example : demo.select 2 (.null 5) (reEngine .eps) = .err := by decide
example : demo.selectFirst 4294967295 (reEngine .eps) = .err := by decide
example : demo.get 7 = .ok ⟨2, 0, 2, [84, 82, 65, 83, 72]⟩ ∧ demo.get 8 = .err ∧ demo.get 4294967295 = .err := by decide

/-! ## 5. totality -/

/-- **Totality.** Every input — any bytes, NULL with any length, any kind value, any manager
state (any subset of drivers loaded), any engine behaviour — yields `Err`, or `Ok` with an
enumerated identifier of the requested kind.  (That there is a result at all is by
construction in Lean; that the real code also returns is what the harness observes.) -/
theorem C12_total (m : Manager) (kind : Nat) (arg : NameArg) (engine : Engine) :
    (m.select kind arg engine = .err ∨
      ∃ e, e ∈ m.identifiers ∧ m.select kind arg engine = .ok e.ident ∧ e.ident.kind = kind) ∧
    (m.selectFirst kind engine = .err ∨
      ∃ e, e ∈ m.identifiers ∧ m.selectFirst kind engine = .ok e.ident ∧ e.ident.kind = kind) ∧
    (m.selectDefault kind engine = .err ∨
      ∃ e, e ∈ m.identifiers ∧ m.selectDefault kind engine = .ok e.ident ∧ e.ident.kind = kind) := by
  refine ⟨?_, ?_, ?_⟩
  · unfold Manager.select Manager.selectInner
    cases arg with
    | null len =>
      simp only
      split
      · exact selectCore_total m kind _ engine
      · exact .inl rfl
    | buf bs => exact selectCore_total m kind _ engine
  · unfold Manager.selectFirst Manager.selectInner
    exact selectCore_total m kind _ engine
  · unfold Manager.selectDefault Manager.selectInner
    split
    · exact selectCore_total m kind _ engine
    · split
      · exact selectCore_total m kind _ engine
      · exact .inl rfl

example : ∃ e, e ∈ demo.identifiers ∧ demo.select 2 (.buf trash) (reEngine (Re.lit trash)) = .ok e.ident ∧ e.ident.kind = 2 :=
  ⟨⟨true, ⟨0, 5, 2, trash⟩⟩, by decide, by decide, rfl⟩

/-! ## 6. `get`, absent drivers, enumeration -/

/-- **`get` agrees with the enumeration.** `get i` is `Ok d` exactly for an index below `count`
whose enumeration succeeded, and then `d` is the identifier stored at `i`. -/
theorem C12_get_agrees (m : Manager) (i : Nat) (d : Ident) :
    (m.get i = .ok d ↔ ∃ e, m.identifiers[i]? = some e ∧ e.ok = true ∧ e.ident = d) ∧
    (m.get i = .ok d → i < m.count) := by
  refine ⟨get_ok_iff m i d, ?_⟩
  intro h
  cases Nat.lt_or_ge i m.count with
  | inl h' => exact h'
  | inr h' => rw [get_out_of_range m i h'] at h; cases h

example : demo.get 3 = .ok ⟨0, 3, 2, [114, 97, 119]⟩ ∧ demo.count = 8 := by decide

/-- **Absent drivers.** After `init` over any list of library states: `get_driver` is NULL exactly
for a driver id outside the table or naming a library that is absent / lacks the entry point /
failed to initialise; opening through it is an error; and such libraries contribute no
identifier. -/
theorem C12_absent_driver (libs : List LibState) (ident : Ident) :
    ((Manager.init libs).getDriver ident = none ↔
        libs.length ≤ ident.driverId ∨ ∃ l, libs[ident.driverId]? = some l ∧ ∀ d, l ≠ .loaded d) ∧
    ((Manager.init libs).getDriver ident = none → (Manager.init libs).openIdent ident = .err) ∧
    (∀ e, e ∈ (Manager.init libs).identifiers → ∃ d, libs[e.ident.driverId]? = some (.loaded d)) := by
  refine ⟨?_, ?_, ?_⟩
  · rw [getDriver_init]
    cases h : libs[ident.driverId]? with
    | none =>
      simp only [true_iff]
      exact .inl (List.getElem?_eq_none_iff.1 h)
    | some l =>
      simp only
      constructor
      · intro hl
        refine .inr ⟨l, rfl, ?_⟩
        intro d hd; rw [hd] at hl; simp [driverLoad] at hl
      · intro hh
        cases hh with
        | inl hh =>
          have := List.getElem?_eq_none_iff.2 hh
          rw [this] at h; cases h
        | inr hh =>
          obtain ⟨l', hl', hn⟩ := hh
          cases hl'
          cases l with
          | loaded d => exact absurd rfl (hn d)
          | _ => rfl
  · intro h
    unfold Manager.openIdent
    rw [h]; rfl
  · intro e he
    obtain ⟨slot, d, i, hs, _, rfl⟩ := mem_init_identifiers.1 he
    exact ⟨d, by simpa [mkEntry] using hs⟩

example : demo.getDriver ⟨1, 0, 0, []⟩ = none ∧ demo.getDriver ⟨7, 0, 0, []⟩ = none ∧ (demo.getDriver ⟨2, 0, 0, []⟩).isSome = true := by
  decide

/-- **Enumeration.** The enumerated identifiers are exactly the described devices of the loaded
libraries, tagged with the slot of their library as `driver_id`. -/
theorem C12_enumeration (libs : List LibState) (e : Entry) :
    e ∈ (Manager.init libs).identifiers ↔
      ∃ slot d i, libs[slot]? = some (.loaded d) ∧ i < d.count ∧ e = mkEntry slot d i :=
  mem_init_identifiers

example : demo.identifiers.map (·.ident.driverId) = [0, 0, 0, 0, 0, 0, 0, 2] := by decide

/-! ## 7. opening an enumerated identifier yields a device of that kind and name -/

/-- **Open agrees with enumeration.** If every loaded driver is faithful (describes each index
below its count, reporting that index as `device_id`, and opens it) then every enumerated
identifier was enumerated successfully and opening it (`get_driver`, `driver_open_device`)
yields a device with the same kind, name and device id. -/
theorem C12_open_agrees (libs : List LibState) (hf : ∀ d, LibState.loaded d ∈ libs → d.Faithful)
    (e : Entry) (he : e ∈ (Manager.init libs).identifiers) :
    e.ok = true ∧ ∃ o, (Manager.init libs).openIdent e.ident = .ok o ∧
      o.kind = e.ident.kind ∧ o.name = e.ident.name ∧ o.deviceId = e.ident.deviceId :=
  open_agrees libs hf e he

/-- **The real common driver, row by row** (the table is regenerated from the source and executed
on every run, so `decide` over it is a proof about today's `basics.driver.c`): every index
below `device_count` is described with `device_id = index`, a non-empty NUL-free name that fits
the identifier, opens, is re-described into the opened device with the same kind, name and id,
and closes; indices from `device_count` on are rejected by `describe` and `open`; the rows cover
`0 .. device_count-1` in order. -/
theorem C12_common_table_open_agrees :
    (∀ r, r ∈ DeviceTable.rows → r.index < DeviceTable.deviceCount →
        r.descOk = true ∧ r.deviceId = r.index ∧ r.name ≠ [] ∧ r.name.all (· != 0) = true ∧
        r.name.length < DeviceTable.nameCapacity ∧
        r.openOk = true ∧ r.oDescOk = true ∧ r.oKind = r.kind ∧ r.oName = r.name ∧ r.oDeviceId = r.deviceId ∧
        r.closeOk = true) ∧
    (∀ r, r ∈ DeviceTable.rows → DeviceTable.deviceCount ≤ r.index → r.descOk = false ∧ r.openOk = false) ∧
    (DeviceTable.rows.map (·.index)).take DeviceTable.deviceCount = List.range DeviceTable.deviceCount ∧
    (∃ r, r ∈ DeviceTable.rows ∧ DeviceTable.deviceCount ≤ r.index) := by
  decide

/-- the model's common driver (built from the table) is faithful -/
theorem C12_common_driver_faithful : commonDriver.Faithful := by
  unfold Driver.Faithful
  decide

example : ∀ e, e ∈ demo.identifiers → e.ok = true ∧ ∃ o, demo.openIdent e.ident = .ok o ∧ o.kind = e.ident.kind ∧ o.name = e.ident.name := by
  intro e he
  have hf : ∀ d, LibState.loaded d ∈ demoLibs → d.Faithful := by
    intro d hd
    simp only [demoLibs, List.mem_cons, List.not_mem_nil, or_false, reduceCtorEq, false_or] at hd
    cases hd with
    | inl h => cases h; exact C12_common_driver_faithful
    | inr h => cases h; unfold Driver.Faithful; decide
  obtain ⟨h1, o, h2, h3, h4, _⟩ := C12_open_agrees demoLibs hf e he
  exact ⟨h1, o, h2, h3, h4⟩

/-! ## 8. layer 2: whole name, case-insensitive -/

/-- **The matcher decides the language**: for the subset {literal, `.`, class, `* + ?`,
alternation, group, escape} the derivative matcher accepts `s` iff `s` — the whole string — is
in the inductively defined language of the pattern (ASCII case folding built into the atoms). -/
theorem C12_matcher_correct (r : Re) (s : Bytes) : matchesRe r s = true ↔ Matches r s :=
  matchesRe_iff r s

example : matchesRe (.cat (.star .any) (.cat (Re.lit [114, 97, 110, 100]) (.star .any))) [85, 32, 82, 65, 78, 68, 111, 109] = true := by decide
example : matchesRe (.cat (.chr 97) ((Re.cls false [.range 48 57]).plus)) [65, 49, 50] = true ∧
          matchesRe (.cat (.chr 97) ((Re.cls false [.range 48 57]).plus)) [65] = false := by decide

/-- **Whole name, case-insensitive.** (a) subjects that differ only in ASCII case are matched
alike by every pattern; (b) a literal pattern matches exactly the case variants of the whole
string — never a proper substring or superstring. -/
theorem C12_whole_name_case_insensitive :
    (∀ (r : Re) (s t : Bytes), s.map toLower = t.map toLower → (Matches r s ↔ Matches r t)) ∧
    (∀ w s : Bytes, Matches (Re.lit w) s ↔ s.map toLower = w.map toLower) :=
  ⟨fun r _ _ h => Matches.fold_iff r h, lit_iff⟩

example : Matches (Re.lit [114, 97, 119]) [82, 97, 87] := (lit_iff _ _).2 (by decide)          -- "raw" ~ "RaW"
example : ¬ Matches (Re.lit [114, 97, 119]) [114, 97, 119, 114] := fun h => by                  -- "raw" !~ "rawr"
  have := (lit_iff _ _).1 h; revert this; decide

/-- **Selection with a subset pattern.** With the proved matcher as the engine,
`device_manager_select` with a non-empty NUL-free name returns `Ok d` exactly when `d` is the
first enumerated identifier of the kind whose whole name lies in the language of the pattern,
and `Err` exactly when there is none. -/
theorem C12_select_regex (m : Manager) (kind : Nat) (bs : Bytes) (r : Re) (hne : bs ≠ [])
    (hnul : ∀ b, b ∈ bs → b ≠ 0) (d : Ident) :
    (m.select kind (.buf bs) (reEngine r) = .ok d ↔
      IsFirst m (fun e => e.ident.kind = kind ∧ Matches r e.ident.name) d) ∧
    (m.select kind (.buf bs) (reEngine r) = .err ↔
      ∀ e, e ∈ m.identifiers → ¬ (e.ident.kind = kind ∧ Matches r e.ident.name)) := by
  have hs : stdName (.buf bs) = bs := stdName_nulfree hnul
  have hA : ∀ e : Entry, Accepts kind (stdName (.buf bs)) (matchesRe r) e ↔ (e.ident.kind = kind ∧ Matches r e.ident.name) := by
    intro e
    unfold Accepts
    rw [hs, matchesRe_iff]
    constructor
    · intro ⟨h1, h2⟩
      cases h2 with
      | inl h => exact absurd h hne
      | inr h => exact ⟨h1, h⟩
    · intro ⟨h1, h2⟩; exact ⟨h1, .inr h2⟩
  constructor
  · rw [C12_first_match m kind bs (reEngine r) (matchesRe r) rfl d]
    unfold IsFirst
    constructor
    · intro ⟨i, e, hi, hd, ha, hmin⟩
      exact ⟨i, e, hi, hd, (hA e).1 ha, fun j hj x hx hh => hmin j hj x hx ((hA x).2 hh)⟩
    · intro ⟨i, e, hi, hd, ha, hmin⟩
      exact ⟨i, e, hi, hd, (hA e).2 ha, fun j hj x hx hh => hmin j hj x hx ((hA x).1 hh)⟩
  · rw [C12_no_match_is_error m kind bs (reEngine r) (matchesRe r) rfl]
    constructor
    · intro h e he hh; exact h e he ((hA e).2 hh)
    · intro h e he hh; exact h e he ((hA e).1 hh)

-- "TRASH" (mock, slot 2) also matches `trash`, but the common driver's "trash" is enumerated first
example : demo.select 2 (.buf trash) (reEngine (Re.lit trash)) = demo.get 5 ∧
          matchesRe (Re.lit trash) [84, 82, 65, 83, 72] = true := by decide

end AcqVerif.C12
