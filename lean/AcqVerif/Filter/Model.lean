/-!
# Model of `acquire-video-runtime/src/runtime/filter.c` (frame averaging) at frame granularity

Transcribes `accumulate`, `normalize`, `process_data` and `video_filter_thread`.  What is kept
exact: which input frames go into which accumulator, in which order, the frame id / shape the
accumulator gets, when it is normalised, committed, aborted, and the per-pixel sums **as exact
integers** (the C keeps them in `float`; see "trusted base" below).

What is a parameter (environment, not chosen by the filter):

* the batches: one batch = the frames one `channel_read_map(&self->in, …)` returned;
* per input frame a `FrameEnv`: `ok` = the call the filter makes on the *output* channel while it
  handles this frame takes effect (`channel_write_map` returned a region / `channel_write_unmap`
  committed; both fail only when the sink's channel does not accept writes or the request is not
  smaller than the ring).  At most one such call happens per frame on the non-error paths;
* `old` = what the region handed out by `channel_write_map` held before (ring memory is reused);
* per batch `reset` = `sig_accumulator_reset` was raised when the batch had been consumed.

Trusted base of the float statement (not modelled, stated in `Props/C10.lean`): IEEE-754 binary32
represents every integer of absolute value ≤ 2^24 exactly, adds two such integers exactly when the
result is again ≤ 2^24 in absolute value, converts u8/u16/i8/i16 samples exactly, and
`x *= 1.0f/k` is one division and one multiplication, each correctly rounded.
-/
namespace AcqVerif.Filter

/-- `enum SampleType` (device/props/components.h); `unknown` stands for every other code -/
inductive SampleType where
  | u8 | u16 | i8 | i16 | f32 | u10 | u12 | u14 | unknown
  deriving DecidableEq, Repr, Inhabited

def SampleType.ofCode : Nat → SampleType
  | 0 => .u8 | 1 => .u16 | 2 => .i8 | 3 => .i16 | 4 => .f32 | 5 => .u10 | 6 => .u12 | 7 => .u14
  | _ => .unknown

def SampleType.code : SampleType → Nat
  | .u8 => 0 | .u16 => 1 | .i8 => 2 | .i16 => 3 | .f32 => 4 | .u10 => 5 | .u12 => 6 | .u14 => 7
  | .unknown => 9

/-- the integer sample types `accumulate` has a case for -/
def SampleType.isInteger : SampleType → Bool
  | .u8 => true | .u16 => true | .i8 => true | .i16 => true | .u10 => true | .u12 => true
  | .u14 => true | .f32 => false | .unknown => false

/-- `bytes_of_type` -/
def SampleType.bytes : SampleType → Nat
  | .u8 => 1 | .i8 => 1 | .u16 => 2 | .i16 => 2 | .u10 => 2 | .u12 => 2 | .u14 => 2 | .f32 => 4
  | .unknown => 0

/-- `struct ImageShape` without its `type` field: `dims` and `strides` (what
`assert_consistent_shape` compares) -/
structure Shape where
  channels : Nat
  width : Nat
  height : Nat
  planes : Nat
  sChannels : Nat
  sWidth : Nat
  sHeight : Nat
  sPlanes : Nat
  deriving DecidableEq, Repr, Inhabited

/-- `npx = acc->shape.strides.planes` -/
def Shape.npx (s : Shape) : Nat := s.sPlanes

/-- the shape a camera reports for a `w × h` single-channel image -/
def Shape.image (w h : Nat) : Shape :=
  { channels := 1, width := w, height := h, planes := 1, sChannels := 1, sWidth := 1, sHeight := w, sPlanes := w * h }

/-- an input `VideoFrame`; `pix` = the `npx` samples as `accumulate` reads them through a pointer
of the frame's sample type -/
structure Frame where
  id : Nat
  shape : Shape
  ty : SampleType
  pix : List Int
  deriving Repr, Inhabited

/-- the accumulator: a `VideoFrame` inside the sink's ring (`*accumulator`), type f32 -/
structure Acc where
  id : Nat
  shape : Shape
  sums : List Int
  deriving Repr, Inhabited, DecidableEq

/-- a frame committed to the sink's channel.  `div` = the `frame_count` it was normalised with
(`x *= 1.0f / div`); `div = 1` for a frame committed without `normalize` (multiplying by `1.0f`
changes nothing). -/
structure Out where
  id : Nat
  shape : Shape
  ty : SampleType
  bytesOfFrame : Nat
  sums : List Int
  div : Nat
  deriving Repr, Inhabited, DecidableEq

/-- locals of `video_filter_thread` (`accumulator`, `frame_count`) + everything committed so far -/
structure St where
  acc : Option Acc
  frameCount : Nat
  out : List Out
  deriving Repr, Inhabited, DecidableEq

def St.init : St := { acc := none, frameCount := 0, out := [] }

structure FrameEnv where
  ok : Bool
  old : Nat → Int

structure Batch where
  frames : List (Frame × FrameEnv)
  reset : Bool

/-- `assert_consistent_shape`: `dims` and `strides` equal (the sample type is not compared) -/
def consistentShape (a b : Shape) : Bool := decide (a = b)

/-- the region `channel_write_map` hands out, seen as `n` float slots with their previous contents -/
def mapRegion (old : Nat → Int) (n : Nat) : List Int := (List.range n).map old

/-- `memset((*accumulator)->data, 0, bytes_of_image(&shape))`: every slot of the region becomes 0 -/
def memsetZero (region : List Int) : List Int := region.map fun _ => 0

/-- `for (i < npx) x[i] += y[i]` -/
def addPix (x y : List Int) : List Int := List.zipWith (· + ·) x y

/-- `accumulate`: `none` = returns 0 ("Unsupported pixel type"); the accumulator's own type is
f32 by construction, so the first test of the C never fails -/
def accumulate (x : List Int) (fr : Frame) : Option (List Int) :=
  match fr.ty with
  | .u8 => some (addPix x fr.pix)
  | .u10 => some (addPix x fr.pix)
  | .u12 => some (addPix x fr.pix)
  | .u14 => some (addPix x fr.pix)
  | .u16 => some (addPix x fr.pix)
  | .i8 => some (addPix x fr.pix)
  | .i16 => some (addPix x fr.pix)
  | .f32 => none
  | .unknown => none

def headerBytes : Nat := 96

/-- `bytes_of_accumulator = 8*((bytes_of_image(&shape)+sizeof(struct VideoFrame)+7)/8)` -/
def bytesOfAccumulator (sh : Shape) : Nat := 8 * ((sh.npx * SampleType.f32.bytes + headerBytes + 7) / 8)

/-- the accumulator as it stands in the ring, not normalised -/
def rawOut (a : Acc) : Out :=
  { id := a.id, shape := a.shape, ty := .f32, bytesOfFrame := bytesOfAccumulator a.shape, sums := a.sums, div := 1 }

/-- `normalize(acc, fc ? 1.0f / fc : 1.0f)` -/
def normalize (a : Acc) (fc : Nat) : Out :=
  { rawOut a with div := if fc = 0 then 1 else fc }

/-- `channel_write_unmap(self->out)` on a mapped accumulator: takes effect iff the channel accepts writes -/
def commit (ok : Bool) (out : List Out) (o : Out) : List Out := if ok then out ++ [o] else out

/-- the `Error:` block of `process_data`: `*frame_count = 0; *accumulator = 0;
channel_write_unmap(self->out)` — a mapped accumulator is committed as it stands -/
def errorPath (s : St) (ok : Bool) : St :=
  match s.acc with
  | some a => { acc := none, frameCount := 0, out := commit ok s.out (rawOut a) }
  | none => { acc := none, frameCount := 0, out := s.out }

/-- body of the `while ((in = frame_iterator_next(&it)))` loop.  Second component `false` = a
`CHECK` failed (the state returned is the one after the `Error:` block). -/
def onFrame (k : Nat) (s : St) (fr : Frame) (e : FrameEnv) : St × Bool :=
  match s.acc with
  | none =>
    if e.ok then
      match accumulate (memsetZero (mapRegion e.old fr.shape.npx)) fr with
      | some x => ({ acc := some { id := fr.id, shape := fr.shape, sums := x }, frameCount := 1, out := s.out }, true)
      | none =>
        (errorPath { acc := some { id := fr.id, shape := fr.shape, sums := memsetZero (mapRegion e.old fr.shape.npx) },
                     frameCount := s.frameCount, out := s.out } e.ok, false)
    else (s, true)
  | some a =>
    if consistentShape a.shape fr.shape then
      match accumulate a.sums fr with
      | some x =>
        if s.frameCount + 1 ≥ k then
          ({ acc := none, frameCount := 0, out := commit e.ok s.out (normalize { a with sums := x } (s.frameCount + 1)) }, true)
        else ({ acc := some { a with sums := x }, frameCount := s.frameCount + 1, out := s.out }, true)
      | none => (errorPath s e.ok, false)
    else ({ acc := none, frameCount := 0, out := s.out }, true)

/-- the frame loop of `process_data` over one mapped slice; stops at the first failed `CHECK` -/
def framesLoop (k : Nat) (s : St) : List (Frame × FrameEnv) → St × Bool
  | [] => (s, true)
  | fe :: rest =>
    match onFrame k s fe.1 fe.2 with
    | (s1, true) => framesLoop k s1 rest
    | (s1, false) => (s1, false)

/-- `if (self->sig_accumulator_reset) { if (*accumulator) { … channel_abort_write } … }` -/
def resetAcc (s : St) : St :=
  match s.acc with
  | some _ => { acc := none, frameCount := 0, out := s.out }
  | none => s

/-- `process_data` -/
def processData (k : Nat) (s : St) (b : Batch) : St × Bool :=
  match framesLoop k s b.frames with
  | (s1, true) => (if b.reset then resetAcc s1 else s1, true)
  | (s1, false) => (s1, false)

/-- the two loops of `video_filter_thread` (`while (!is_stopping)` and the flush `do … while
(nbytes_read)`): `process_data` once per batch, left at the first failure -/
def threadLoop (k : Nat) (s : St) : List Batch → St × Bool
  | [] => (s, true)
  | b :: bs =>
    match processData k s b with
    | (s1, true) => threadLoop k s1 bs
    | (s1, false) => (s1, false)

/-- `Finalize: if (accumulator) channel_write_unmap(self->out);` -/
def finalize (s : St) (ok : Bool) : St :=
  match s.acc with
  | some a => { acc := none, frameCount := s.frameCount, out := commit ok s.out (rawOut a) }
  | none => s

/-- `video_filter_thread`: everything the thread commits to the sink's channel -/
def thread (k : Nat) (bs : List Batch) (finOk : Bool) : St :=
  finalize (threadLoop k St.init bs).1 finOk

/-- exit code of the thread (`ecode`) -/
def threadFailed (k : Nat) (bs : List Batch) : Bool := !(threadLoop k St.init bs).2

/-! ## How the window size reaches the filter (acquire.c `configure_video_stream`, source.c)

`video_source_configure(…, enable_filter = frame_average_count > 1)` and
`video_filter_configure(…, frame_average_count)`: with `k < 2` the source thread writes its frames
to the sink's channel directly and the filter thread sees no input. -/
inductive Delivered where
  | raw (f : Frame)
  | averaged (o : Out)

def enableFilter (k : Nat) : Bool := decide (k > 1)

/-- what the sink's channel receives for one acquisition -/
def pipeline (k : Nat) (bs : List Batch) (finOk : Bool) : List Delivered :=
  if enableFilter k then (thread k bs finOk).out.map .averaged
  else (bs.flatMap fun b => b.frames.map (·.1)).map .raw

end AcqVerif.Filter
