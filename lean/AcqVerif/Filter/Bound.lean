import AcqVerif.Filter.Lemmas
/-!
# Every partial sum stays below 2^24 (so that float32 accumulation of integer samples is exact)

For ANY environment (refused maps, failed commits, shape changes, resets, unsupported frames in
between): every slot of a mapped accumulator holds at most `frame_count * M` in absolute value,
`frame_count < k`, and every committed frame at most `k * M`, where `M` bounds the samples.
-/
namespace AcqVerif.Filter

/-- largest absolute value a sample of the type can have -/
def maxAbs : SampleType → Nat
  | .u8 => 255 | .u10 => 1023 | .u12 => 4095 | .u14 => 16383 | .u16 => 65535
  | .i8 => 128 | .i16 => 32768 | .f32 => 0 | .unknown => 0

/-- value range of the integer sample types (what a `uint8_t`/`uint16_t`/`int8_t`/`int16_t` read
can return; u10/u12/u14 are unpacked in 16 bits and the camera keeps them in range) -/
def inRange : SampleType → Int → Prop
  | .u8, p => 0 ≤ p ∧ p ≤ 255
  | .u10, p => 0 ≤ p ∧ p ≤ 1023
  | .u12, p => 0 ≤ p ∧ p ≤ 4095
  | .u14, p => 0 ≤ p ∧ p ≤ 16383
  | .u16, p => 0 ≤ p ∧ p ≤ 65535
  | .i8, p => -128 ≤ p ∧ p ≤ 127
  | .i16, p => -32768 ≤ p ∧ p ≤ 32767
  | .f32, _ => False
  | .unknown, _ => False

theorem inRange_natAbs {ty : SampleType} {p : Int} (h : inRange ty p) : p.natAbs ≤ maxAbs ty := by
  cases ty <;> simp only [inRange, maxAbs] at * <;> omega

/-- largest window size for which `k * maxAbs ty < 2^24` -/
def kmax (ty : SampleType) : Nat := (2 ^ 24 - 1) / maxAbs ty

theorem kmax_ok {ty : SampleType} (hty : ty.isInteger = true) {k : Nat} (hk : k ≤ kmax ty) :
    k * maxAbs ty < 2 ^ 24 := by
  have hpos : 0 < maxAbs ty := by cases ty <;> simp_all [SampleType.isInteger, maxAbs]
  have : k * maxAbs ty ≤ (2 ^ 24 - 1) / maxAbs ty * maxAbs ty := Nat.mul_le_mul_right _ hk
  have h2 : (2 ^ 24 - 1) / maxAbs ty * maxAbs ty ≤ 2 ^ 24 - 1 := Nat.div_mul_le_self _ _
  omega

def FrameBounded (M : Nat) (fr : Frame) : Prop := ∀ p ∈ fr.pix, p.natAbs ≤ M

def SumsBounded (B : Nat) (l : List Int) : Prop := ∀ x ∈ l, x.natAbs ≤ B

theorem SumsBounded.mono {A B : Nat} {l : List Int} (h : SumsBounded A l) (hab : A ≤ B) : SumsBounded B l :=
  fun x hx => Nat.le_trans (h x hx) hab

theorem addPix_bounded {A M : Nat} {x : List Int} {fr : Frame} (hx : SumsBounded A x) (hf : FrameBounded M fr) :
    SumsBounded (A + M) (addPix x fr.pix) := by
  intro z hz
  obtain ⟨i, hi, rfl⟩ := List.mem_iff_getElem.mp hz
  simp only [addPix, List.getElem_zipWith]
  simp only [addPix, List.length_zipWith] at hi
  have h1 := hx x[i] (List.getElem_mem _)
  have h2 := hf fr.pix[i] (List.getElem_mem _)
  omega

theorem accumulate_bounded {A M : Nat} {x y : List Int} {fr : Frame} (hx : SumsBounded A x)
    (hf : FrameBounded M fr) (h : accumulate x fr = some y) : SumsBounded (A + M) y := by
  unfold accumulate at h
  split at h <;> first | (cases h; exact addPix_bounded hx hf) | cases h

theorem zeros_bounded (old : Nat → Int) (n : Nat) : SumsBounded 0 (memsetZero (mapRegion old n)) := by
  rw [memsetZero_mapRegion]
  intro x hx
  simp only [List.mem_replicate] at hx
  simp [hx.2]

structure BoundInv (k M : Nat) (s : St) : Prop where
  accB : ∀ a, s.acc = some a → 1 ≤ s.frameCount ∧ s.frameCount < k ∧ SumsBounded (s.frameCount * M) a.sums
  outB : ∀ o ∈ s.out, SumsBounded (k * M) o.sums

theorem BoundInv.init (k M : Nat) : BoundInv k M St.init :=
  ⟨by simp [St.init], by simp [St.init]⟩

theorem commit_bounded {B : Nat} {out : List Out} {o : Out} (ok : Bool)
    (ho : ∀ o ∈ out, SumsBounded B o.sums) (h : SumsBounded B o.sums) :
    ∀ o' ∈ commit ok out o, SumsBounded B o'.sums := by
  intro o' ho'
  unfold commit at ho'
  split at ho'
  · rcases List.mem_append.mp ho' with h' | h'
    · exact ho o' h'
    · simp only [List.mem_singleton] at h'; subst h'; exact h
  · exact ho o' ho'

theorem errorPath_inv {k M : Nat} {s : St} (ok : Bool)
    (hout : ∀ o ∈ s.out, SumsBounded (k * M) o.sums)
    (hacc : ∀ a, s.acc = some a → SumsBounded (k * M) a.sums) : BoundInv k M (errorPath s ok) := by
  unfold errorPath
  split
  · next a ha =>
    exact ⟨by simp, commit_bounded ok hout (by simpa [rawOut] using hacc a ha)⟩
  · exact ⟨by simp, hout⟩

theorem onFrame_inv {k M : Nat} (hk : 2 ≤ k) {s : St} (hs : BoundInv k M s) {fr : Frame}
    (hf : FrameBounded M fr) (e : FrameEnv) : BoundInv k M (onFrame k s fr e).1 := by
  unfold onFrame
  split
  · next hnone =>
    split
    · split
      · next x hx =>
        refine ⟨?_, hs.outB⟩
        intro a ha
        dsimp only at ha ⊢
        simp only [Option.some.injEq] at ha
        subst ha
        refine ⟨Nat.le_refl _, by omega, ?_⟩
        have := accumulate_bounded (zeros_bounded e.old fr.shape.npx) hf hx
        simpa using this
      · dsimp only
        apply errorPath_inv
        · exact hs.outB
        · intro a ha
          dsimp only at ha
          simp only [Option.some.injEq] at ha
          subst ha
          exact (zeros_bounded e.old fr.shape.npx).mono (Nat.zero_le _)
    · exact hs
  · next a ha =>
    obtain ⟨h1, h2, h3⟩ := hs.accB a ha
    split
    · split
      · next x hx =>
        have hb := accumulate_bounded h3 hf hx
        have hb' : SumsBounded ((s.frameCount + 1) * M) x := by
          rw [Nat.succ_mul]; exact hb
        split
        · refine ⟨by simp, ?_⟩
          apply commit_bounded _ hs.outB
          simp only [normalize, rawOut]
          exact hb'.mono (Nat.mul_le_mul_right _ (by omega))
        · refine ⟨?_, hs.outB⟩
          intro a' ha'
          dsimp only at ha' ⊢
          simp only [Option.some.injEq] at ha'
          subst ha'
          exact ⟨by omega, by omega, hb'⟩
      · dsimp only
        apply errorPath_inv _ hs.outB
        intro a' ha'
        rw [ha] at ha'
        simp only [Option.some.injEq] at ha'
        subst ha'
        exact h3.mono (Nat.mul_le_mul_right _ (by omega))
    · exact ⟨by simp, hs.outB⟩

theorem resetAcc_inv {k M : Nat} {s : St} (hs : BoundInv k M s) : BoundInv k M (resetAcc s) := by
  unfold resetAcc
  split
  · exact ⟨by simp, hs.outB⟩
  · exact hs

theorem finalize_inv {k M : Nat} {s : St} (hs : BoundInv k M s) (ok : Bool) : BoundInv k M (finalize s ok) := by
  unfold finalize
  split
  · next a ha =>
    obtain ⟨_, h2, h3⟩ := hs.accB a ha
    refine ⟨by simp, commit_bounded ok hs.outB ?_⟩
    simp only [rawOut]
    exact h3.mono (Nat.mul_le_mul_right _ (by omega))
  · exact hs

/-- the states the filter thread can be in, between any two frames, under any environment, while
the samples of its input stay within `M` -/
inductive Reach (k M : Nat) : St → Prop where
  | init : Reach k M St.init
  | frame {s : St} {fr : Frame} (e : FrameEnv) : Reach k M s → FrameBounded M fr → Reach k M (onFrame k s fr e).1
  | reset {s : St} : Reach k M s → Reach k M (resetAcc s)
  | fin {s : St} (ok : Bool) : Reach k M s → Reach k M (finalize s ok)

theorem Reach.inv {k M : Nat} (hk : 2 ≤ k) {s : St} (h : Reach k M s) : BoundInv k M s := by
  induction h with
  | init => exact BoundInv.init k M
  | frame e _ hf ih => exact onFrame_inv hk ih hf e
  | reset _ ih => exact resetAcc_inv ih
  | fin ok _ ih => exact finalize_inv ih ok

theorem Reach.framesLoop {k M : Nat} {s : St} (h : Reach k M s) (fs : List (Frame × FrameEnv))
    (hfs : ∀ fe ∈ fs, FrameBounded M fe.1) : Reach k M (framesLoop k s fs).1 := by
  induction fs generalizing s with
  | nil => exact h
  | cons fe t ih =>
    have hstep := Reach.frame fe.2 h (hfs fe (by simp))
    simp only [AcqVerif.Filter.framesLoop]
    rcases hh : onFrame k s fe.1 fe.2 with ⟨s1, ok⟩
    rw [hh] at hstep
    cases ok
    · exact hstep
    · exact ih hstep (fun g hg => hfs g (by simp [hg]))

theorem Reach.processData {k M : Nat} {s : St} (h : Reach k M s) (b : Batch)
    (hb : ∀ fe ∈ b.frames, FrameBounded M fe.1) : Reach k M (processData k s b).1 := by
  have hl := h.framesLoop b.frames hb
  unfold AcqVerif.Filter.processData
  rcases hh : AcqVerif.Filter.framesLoop k s b.frames with ⟨s1, ok⟩
  rw [hh] at hl
  cases ok
  · exact hl
  · simp only
    split
    · exact Reach.reset hl
    · exact hl

theorem Reach.threadLoop {k M : Nat} {s : St} (h : Reach k M s) (bs : List Batch)
    (hbs : ∀ b ∈ bs, ∀ fe ∈ b.frames, FrameBounded M fe.1) : Reach k M (threadLoop k s bs).1 := by
  induction bs generalizing s with
  | nil => exact h
  | cons b t ih =>
    have hstep := h.processData b (hbs b (by simp))
    simp only [AcqVerif.Filter.threadLoop]
    rcases hh : AcqVerif.Filter.processData k s b with ⟨s1, ok⟩
    rw [hh] at hstep
    cases ok
    · exact hstep
    · exact ih hstep (fun b hb => hbs b (by simp [hb]))

end AcqVerif.Filter
