import AcqVerif.Filter.Model
/-!
# Specification of frame averaging: windows of `k` consecutive frames

`chunks k l` cuts `l` into consecutive pieces of length `k`; what is left over (fewer than `k`
frames) is the last piece.  `spec k input` is what C10 asks the sink's channel to receive.
The theorems of this file say that the definition is the intended one (explicit index form,
nothing skipped, nothing twice, pointwise sums).
-/
namespace AcqVerif.Filter

/-- consecutive pieces of length `k`, then the non-empty rest -/
def chunks (k : Nat) (l : List α) : List (List α) :=
  if _h : 0 < k ∧ k ≤ l.length then l.take k :: chunks k (l.drop k)
  else match l with
    | [] => []
    | _ :: _ => [l]
termination_by l.length
decreasing_by simp only [List.length_drop]; omega

/-- pointwise sum of the pixel lists of `w`, `n` pixels -/
def sumWindow (n : Nat) (w : List Frame) : List Int :=
  w.foldl (fun s f => addPix s f.pix) (List.replicate n 0)

/-- the frame C10 wants for the window `w`: id/shape of its first frame, type f32, pointwise sums,
divided by `k` when the window is complete -/
def mkOut (k : Nat) : List Frame → Out
  | [] => default
  | f :: rest =>
    { id := f.id, shape := f.shape, ty := .f32, bytesOfFrame := bytesOfAccumulator f.shape,
      sums := sumWindow f.shape.npx (f :: rest), div := if (f :: rest).length = k then k else 1 }

def spec (k : Nat) (input : List Frame) : List Out := (chunks k input).map (mkOut k)

/-! ## `chunks` is the intended partition -/

theorem chunks_nil (k : Nat) : chunks k ([] : List α) = [] := by
  rw [chunks]
  have : ¬ (0 < k ∧ k ≤ ([] : List α).length) := by simp only [List.length_nil]; omega
  simp only [this, dite_false]

theorem chunks_step {k : Nat} {l : List α} (hk : 0 < k) (h : k ≤ l.length) :
    chunks k l = l.take k :: chunks k (l.drop k) := by
  rw [chunks]; simp [hk, h]

theorem chunks_short {k : Nat} {l : List α} (h : l.length < k) (hne : l ≠ []) : chunks k l = [l] := by
  rw [chunks]
  have : ¬ (0 < k ∧ k ≤ l.length) := by omega
  simp only [this, dite_false]
  cases l with
  | nil => exact absurd rfl hne
  | cons a t => rfl

theorem chunks_append {k : Nat} (hk : 0 < k) (w rest : List α) (hw : w.length = k) :
    chunks k (w ++ rest) = w :: chunks k rest := by
  rw [chunks_step hk (by simp [hw])]
  simp [hw]

/-- no frame is skipped or counted twice: the windows, put end to end, are the input -/
theorem chunks_flatten (k : Nat) (l : List α) : (chunks k l).flatten = l := by
  induction hn : l.length using Nat.strongRecOn generalizing l with
  | _ n ih =>
    subst hn
    by_cases h : 0 < k ∧ k ≤ l.length
    · rw [chunks_step h.1 h.2, List.flatten_cons, ih (l.drop k).length (by simp; omega) _ rfl]
      exact List.take_append_drop k l
    · rw [chunks]
      simp only [h, dite_false]
      cases l <;> simp

/-- every window is non-empty and has at most `k` frames -/
theorem chunks_mem_length {k : Nat} (hk : 0 < k) (l : List α) :
    ∀ c ∈ chunks k l, 0 < c.length ∧ c.length ≤ k := by
  induction hn : l.length using Nat.strongRecOn generalizing l with
  | _ n ih =>
    subst hn
    by_cases h : k ≤ l.length
    · rw [chunks_step hk h]
      intro c hc
      rcases List.mem_cons.mp hc with rfl | hc
      · simp; omega
      · exact ih (l.drop k).length (by simp; omega) _ rfl c hc
    · cases l with
      | nil => simp [chunks_nil]
      | cons a t =>
        rw [chunks_short (by omega) (by simp)]
        intro c hc
        simp at hc; subst hc; simp; simp at h; omega

/-- explicit form: window `j` is `input[j*k .. j*k+k)` for `j < n/k`; if `k` does not divide `n`
one more window holds the last `n % k` frames -/
theorem chunks_explicit {k : Nat} (hk : 0 < k) (l : List α) :
    chunks k l = (List.range (l.length / k)).map (fun j => (l.drop (j * k)).take k)
      ++ (if l.length % k = 0 then [] else [l.drop (l.length / k * k)]) := by
  induction hn : l.length using Nat.strongRecOn generalizing l with
  | _ n ih =>
    subst hn
    by_cases h : k ≤ l.length
    · rw [chunks_step hk h, ih (l.drop k).length (by simp; omega) _ rfl]
      have hlen : (l.drop k).length = l.length - k := by simp
      have hdiv : l.length / k = (l.length - k) / k + 1 := by
        rw [← Nat.sub_add_cancel h]; rw [Nat.add_div_right _ hk]; simp
      have hmod : l.length % k = (l.length - k) % k := by
        conv => lhs; rw [← Nat.sub_add_cancel h]
        simp
      rw [hlen, hdiv, hmod, List.range_succ_eq_map]
      simp only [List.map_cons, List.map_map, Nat.zero_mul, List.drop_zero, List.cons_append]
      congr 1
      congr 1
      · apply List.map_congr_left
        intro j _
        simp only [Function.comp, List.drop_drop]
        congr 2
        rw [Nat.succ_mul]; omega
      · split
        · rfl
        · simp only [List.drop_drop]
          congr 2
          rw [Nat.succ_mul]; omega
    · have hlt : l.length < k := by omega
      rw [Nat.div_eq_of_lt hlt, Nat.mod_eq_of_lt hlt]
      cases l with
      | nil => simp [chunks_nil]
      | cons a t =>
        rw [chunks_short hlt (by simp)]
        simp

/-- the number of complete windows -/
theorem chunks_complete_count {k : Nat} (hk : 0 < k) (l : List α) :
    ((chunks k l).filter (fun c => c.length = k)).length = l.length / k := by
  induction hn : l.length using Nat.strongRecOn generalizing l with
  | _ n ih =>
    subst hn
    by_cases h : k ≤ l.length
    · rw [chunks_step hk h]
      have hdiv : l.length / k = (l.length - k) / k + 1 := by
        rw [← Nat.sub_add_cancel h]; rw [Nat.add_div_right _ hk]; simp
      have : (l.take k).length = k := by simp; omega
      simp only [List.filter_cons, this, decide_true, if_true, List.length_cons]
      rw [ih (l.drop k).length (by simp; omega) _ rfl, hdiv]; simp
    · have hlt : l.length < k := by omega
      rw [Nat.div_eq_of_lt hlt]
      cases l with
      | nil => simp [chunks_nil]
      | cons a t =>
        rw [chunks_short hlt (by simp)]
        have : ¬ t.length + 1 = k := by simp only [List.length_cons] at hlt; omega
        simp [this]

/-- at most one window is incomplete, and it is the last one -/
theorem chunks_incomplete_last {k : Nat} (hk : 0 < k) (l : List α) :
    ∀ c ∈ (chunks k l).dropLast, c.length = k := by
  rw [chunks_explicit hk l]
  split
  · intro c hc
    have := (List.dropLast_sublist _).subset hc
    simp only [List.append_nil, List.mem_map, List.mem_range] at this
    obtain ⟨j, hj, rfl⟩ := this
    simp only [List.length_take, List.length_drop]
    have : j * k + k ≤ l.length := by
      calc j * k + k = (j + 1) * k := by rw [Nat.succ_mul]
        _ ≤ l.length / k * k := Nat.mul_le_mul_right k hj
        _ ≤ l.length := Nat.div_mul_le_self _ _
    omega
  · intro c hc
    rw [List.dropLast_concat] at hc
    simp only [List.mem_map, List.mem_range] at hc
    obtain ⟨j, hj, rfl⟩ := hc
    simp only [List.length_take, List.length_drop]
    have : j * k + k ≤ l.length := by
      calc j * k + k = (j + 1) * k := by rw [Nat.succ_mul]
        _ ≤ l.length / k * k := Nat.mul_le_mul_right k hj
        _ ≤ l.length := Nat.div_mul_le_self _ _
    omega

/-! ## `sumWindow` is the pointwise sum -/

theorem addPix_length (x y : List Int) : (addPix x y).length = min x.length y.length := by
  simp [addPix]

theorem foldl_addPix_length (n : Nat) (w : List Frame) (x : List Int) (hx : x.length = n)
    (hw : ∀ f ∈ w, f.pix.length = n) : (w.foldl (fun s f => addPix s f.pix) x).length = n := by
  induction w generalizing x with
  | nil => simpa using hx
  | cons f t ih =>
    simp only [List.foldl_cons]
    apply ih
    · rw [addPix_length, hx, hw f (by simp)]; simp
    · intro g hg; exact hw g (by simp [hg])

theorem sumWindow_length (n : Nat) (w : List Frame) (hw : ∀ f ∈ w, f.pix.length = n) :
    (sumWindow n w).length = n :=
  foldl_addPix_length n w _ (by simp) hw

theorem foldl_addPix_getD (n i : Nat) (hi : i < n) (w : List Frame) (x : List Int) (hx : x.length = n)
    (hw : ∀ f ∈ w, f.pix.length = n) :
    (w.foldl (fun s f => addPix s f.pix) x).getD i 0 = x.getD i 0 + (w.map fun f => f.pix.getD i 0).sum := by
  induction w generalizing x with
  | nil => simp
  | cons f t ih =>
    simp only [List.foldl_cons, List.map_cons, List.sum_cons]
    have hf : f.pix.length = n := hw f (by simp)
    rw [ih (addPix x f.pix) (by rw [addPix_length, hx, hf]; simp) (fun g hg => hw g (by simp [hg]))]
    have : (addPix x f.pix).getD i 0 = x.getD i 0 + f.pix.getD i 0 := by
      simp only [addPix, List.getD_eq_getElem?_getD, List.getElem?_zipWith]
      rw [List.getElem?_eq_getElem (by omega), List.getElem?_eq_getElem (by omega)]
      simp
    rw [this]; omega

/-- pixel `i` of the sum of a window is the sum of pixel `i` of its frames -/
theorem sumWindow_pointwise (n i : Nat) (hi : i < n) (w : List Frame) (hw : ∀ f ∈ w, f.pix.length = n) :
    (sumWindow n w).getD i 0 = (w.map fun f => f.pix.getD i 0).sum := by
  unfold sumWindow
  rw [foldl_addPix_getD n i hi w _ (by simp) hw]
  simp [List.getD_eq_getElem?_getD, hi]

end AcqVerif.Filter
