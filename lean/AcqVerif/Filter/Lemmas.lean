import AcqVerif.Filter.Spec
/-!
# The model of `process_data` / `video_filter_thread` against the window specification
-/
namespace AcqVerif.Filter

/-- all frames an acquisition fed to the filter thread, in the order they were read -/
def input (bs : List Batch) : List Frame := bs.flatMap fun b => b.frames.map (·.1)

/-- the hypotheses of the main theorem for one frame: the shape of the acquisition, an integer
sample type, as many samples as the shape has pixels, and the output channel takes the call -/
def Clean (sh : Shape) (fe : Frame × FrameEnv) : Prop :=
  fe.1.shape = sh ∧ fe.1.ty.isInteger = true ∧ fe.1.pix.length = sh.npx ∧ fe.2.ok = true

instance (sh : Shape) (fe : Frame × FrameEnv) : Decidable (Clean sh fe) := by
  unfold Clean; infer_instance

theorem memsetZero_mapRegion (old : Nat → Int) (n : Nat) :
    memsetZero (mapRegion old n) = List.replicate n 0 := by
  simp only [memsetZero, mapRegion, List.map_map]
  apply List.ext_getElem <;> simp

theorem accumulate_integer {fr : Frame} (h : fr.ty.isInteger = true) (x : List Int) :
    accumulate x fr = some (addPix x fr.pix) := by
  unfold accumulate
  cases hty : fr.ty <;> simp_all [SampleType.isInteger]

theorem accumulate_unsupported {fr : Frame} (h : fr.ty.isInteger = false) (x : List Int) :
    accumulate x fr = none := by
  unfold accumulate
  cases hty : fr.ty <;> simp_all [SampleType.isInteger]

theorem framesLoop_append (k : Nat) (s : St) (a b : List (Frame × FrameEnv)) :
    framesLoop k s (a ++ b) =
      match framesLoop k s a with
      | (s1, true) => framesLoop k s1 b
      | (s1, false) => (s1, false) := by
  induction a generalizing s with
  | nil => simp [framesLoop]
  | cons fe t ih =>
    simp only [List.cons_append, framesLoop]
    rcases h : onFrame k s fe.1 fe.2 with ⟨s1, ok⟩
    cases ok
    · simp
    · simp only [ih]

/-- pixel sums after adding the frames `fs` to `x` -/
def addFrames (x : List Int) (fs : List (Frame × FrameEnv)) : List Int :=
  fs.foldl (fun s fe => addPix s fe.1.pix) x

theorem addFrames_eq (x : List Int) (fs : List (Frame × FrameEnv)) :
    addFrames x fs = (fs.map (·.1)).foldl (fun s f => addPix s f.pix) x := by
  unfold addFrames
  induction fs generalizing x with
  | nil => rfl
  | cons fe t ih => simp only [List.foldl_cons, List.map_cons]; exact ih _

/-- the step on a frame that continues a window without completing it -/
theorem onFrame_continue {k : Nat} {sh : Shape} {fe : Frame × FrameEnv} (hc : Clean sh fe)
    (a : Acc) (c : Nat) (out : List Out) (ha : a.shape = sh) (hlt : c + 1 < k) :
    onFrame k { acc := some a, frameCount := c, out := out } fe.1 fe.2 =
      ({ acc := some { a with sums := addPix a.sums fe.1.pix }, frameCount := c + 1, out := out }, true) := by
  obtain ⟨h1, h2, _, _⟩ := hc
  have hcons : consistentShape a.shape fe.1.shape = true := by simp [consistentShape, ha, h1]
  have hnot : ¬ (c + 1 ≥ k) := by omega
  simp only [onFrame, hcons, accumulate_integer h2, if_true, hnot, if_false]

/-- the step on the frame that completes a window -/
theorem onFrame_complete {k : Nat} {sh : Shape} {fe : Frame × FrameEnv} (hc : Clean sh fe)
    (a : Acc) (c : Nat) (out : List Out) (ha : a.shape = sh) (hge : c + 1 ≥ k) :
    onFrame k { acc := some a, frameCount := c, out := out } fe.1 fe.2 =
      ({ acc := none, frameCount := 0, out := out ++ [normalize { a with sums := addPix a.sums fe.1.pix } (c + 1)] }, true) := by
  obtain ⟨h1, h2, _, h4⟩ := hc
  have hcons : consistentShape a.shape fe.1.shape = true := by simp [consistentShape, ha, h1]
  simp only [onFrame, hcons, accumulate_integer h2, if_true, hge, commit, h4]

/-- the step on the first frame of a window -/
theorem onFrame_first {k : Nat} {sh : Shape} {fe : Frame × FrameEnv} (hc : Clean sh fe)
    (s : St) (hs : s.acc = none) :
    onFrame k s fe.1 fe.2 =
      ({ acc := some { id := fe.1.id, shape := sh, sums := addPix (List.replicate sh.npx 0) fe.1.pix },
         frameCount := 1, out := s.out }, true) := by
  obtain ⟨h1, h2, _, h4⟩ := hc
  simp only [onFrame, hs, h4, if_true, memsetZero_mapRegion, accumulate_integer h2, h1]

theorem framesLoop_partial (k : Nat) (sh : Shape) (fs : List (Frame × FrameEnv))
    (hfs : ∀ fe ∈ fs, Clean sh fe) (a : Acc) (c : Nat) (out : List Out) (ha : a.shape = sh)
    (hlt : c + fs.length < k) :
    framesLoop k { acc := some a, frameCount := c, out := out } fs =
      ({ acc := some { a with sums := addFrames a.sums fs }, frameCount := c + fs.length, out := out }, true) := by
  induction fs generalizing a c with
  | nil => simp [framesLoop, addFrames]
  | cons fe t ih =>
    simp only [List.length_cons] at hlt
    simp only [framesLoop]
    rw [onFrame_continue (hfs fe (by simp)) a c out ha (by omega)]
    simp only
    rw [ih (fun g hg => hfs g (by simp [hg])) _ (c + 1) (by simpa using ha) (by omega)]
    simp only [addFrames, List.foldl_cons, List.length_cons]
    congr 2
    omega

theorem framesLoop_complete (k : Nat) (sh : Shape) (fs : List (Frame × FrameEnv))
    (hfs : ∀ fe ∈ fs, Clean sh fe) (a : Acc) (c : Nat) (out : List Out) (ha : a.shape = sh)
    (hne : fs ≠ []) (hlen : c + fs.length = k) :
    framesLoop k { acc := some a, frameCount := c, out := out } fs =
      ({ acc := none, frameCount := 0, out := out ++ [normalize { a with sums := addFrames a.sums fs } k] }, true) := by
  induction fs generalizing a c with
  | nil => exact absurd rfl hne
  | cons fe t ih =>
    simp only [List.length_cons] at hlen
    cases t with
    | nil =>
      simp only [List.length_nil] at hlen
      simp only [framesLoop]
      rw [onFrame_complete (hfs fe (by simp)) a c out ha (by omega)]
      simp only [addFrames, List.foldl_cons, List.foldl_nil]
      rw [show c + 1 = k by omega]
    | cons g t' =>
      simp only [List.length_cons] at hlen
      rw [framesLoop]
      rw [onFrame_continue (hfs fe (by simp)) a c out ha (by omega)]
      simp only
      rw [ih (fun g hg => hfs g (by simp [hg])) _ (c + 1) (by simpa using ha) (by simp)
        (by simp only [List.length_cons]; omega)]
      simp only [addFrames, List.foldl_cons]

theorem normalize_eq_mkOut {k : Nat} (hk : 0 < k) (sh : Shape) (fe : Frame × FrameEnv)
    (t : List (Frame × FrameEnv)) (h1 : fe.1.shape = sh) (hlen : (fe :: t).length = k) :
    normalize { id := fe.1.id, shape := sh, sums := addFrames (addPix (List.replicate sh.npx 0) fe.1.pix) t } k
      = mkOut k ((fe :: t).map (·.1)) := by
  have hk0 : ¬ k = 0 := by omega
  have hl : (List.map (fun x => x.1) t).length + 1 = k := by simpa using hlen
  simp only [normalize, rawOut, mkOut, List.map_cons, hk0, if_false, sumWindow, List.foldl_cons,
    addFrames_eq, h1, List.length_cons, hl, if_true]

theorem rawOut_eq_mkOut {k : Nat} (sh : Shape) (fe : Frame × FrameEnv)
    (t : List (Frame × FrameEnv)) (h1 : fe.1.shape = sh) (hlen : (fe :: t).length < k) :
    rawOut { id := fe.1.id, shape := sh, sums := addFrames (addPix (List.replicate sh.npx 0) fe.1.pix) t }
      = mkOut k ((fe :: t).map (·.1)) := by
  have hl : ¬ (List.map (fun x => x.1) t).length + 1 = k := by
    simp only [List.length_cons] at hlen; simp; omega
  simp only [rawOut, mkOut, List.map_cons, sumWindow, List.foldl_cons,
    addFrames_eq, h1, List.length_cons, hl, if_false]

/-- a whole window, starting with no accumulator mapped: one frame is committed -/
theorem framesLoop_window (k : Nat) (hk : 2 ≤ k) (sh : Shape) (w : List (Frame × FrameEnv))
    (hw : ∀ fe ∈ w, Clean sh fe) (hlen : w.length = k) (s : St) (hs : s.acc = none) :
    framesLoop k s w = ({ acc := none, frameCount := 0, out := s.out ++ [mkOut k (w.map (·.1))] }, true) := by
  cases w with
  | nil => simp at hlen; omega
  | cons fe t =>
    rw [framesLoop, onFrame_first (hw fe (by simp)) s hs]
    simp only
    have ht : t ≠ [] := by
      intro h; subst h; simp at hlen; omega
    rw [framesLoop_complete k sh t (fun g hg => hw g (by simp [hg])) _ 1 s.out rfl ht
      (by simp only [List.length_cons] at hlen; omega)]
    rw [normalize_eq_mkOut (by omega) sh fe t (hw fe (by simp)).1 hlen]

/-- fewer than `k` frames, starting with no accumulator mapped: they stay pending -/
theorem framesLoop_rest (k : Nat) (sh : Shape) (fe : Frame × FrameEnv) (t : List (Frame × FrameEnv))
    (hw : ∀ g ∈ fe :: t, Clean sh g) (hlen : (fe :: t).length < k) (s : St) (hs : s.acc = none) :
    framesLoop k s (fe :: t) =
      ({ acc := some { id := fe.1.id, shape := sh, sums := addFrames (addPix (List.replicate sh.npx 0) fe.1.pix) t },
         frameCount := 1 + t.length, out := s.out }, true) := by
  rw [framesLoop, onFrame_first (hw fe (by simp)) s hs]
  simp only
  rw [framesLoop_partial k sh t (fun g hg => hw g (by simp [hg])) _ 1 s.out rfl
    (by simp only [List.length_cons] at hlen; omega)]

/-- the frame loop over any number of clean frames, followed by `Finalize` -/
theorem framesLoop_spec (k : Nat) (hk : 2 ≤ k) (sh : Shape) :
    ∀ (n : Nat) (fs : List (Frame × FrameEnv)), fs.length = n → (∀ fe ∈ fs, Clean sh fe) →
      ∀ s : St, s.acc = none →
        (framesLoop k s fs).2 = true ∧
        (finalize (framesLoop k s fs).1 true).out = s.out ++ spec k (fs.map (·.1)) ∧
        (finalize (framesLoop k s fs).1 true).acc = none := by
  intro n
  induction n using Nat.strongRecOn with
  | _ n ih =>
    intro fs hn hfs s hs
    subst hn
    by_cases h : k ≤ fs.length
    · have hsplit : fs = fs.take k ++ fs.drop k := (List.take_append_drop k fs).symm
      have htake : (fs.take k).length = k := by simp; omega
      have hw := framesLoop_window k hk sh (fs.take k)
        (fun g hg => hfs g (List.mem_of_mem_take hg)) htake s hs
      have hrec := ih (fs.drop k).length (by simp; omega) (fs.drop k) rfl
        (fun g hg => hfs g (List.mem_of_mem_drop hg))
        { acc := none, frameCount := 0, out := s.out ++ [mkOut k ((fs.take k).map (·.1))] } rfl
      have hspec : spec k (fs.map (·.1)) = mkOut k ((fs.take k).map (·.1)) :: spec k ((fs.drop k).map (·.1)) := by
        conv => lhs; rw [hsplit]
        rw [List.map_append]
        unfold spec
        rw [chunks_append (by omega) _ _ (by simpa using htake)]
        simp
      have hloop : framesLoop k s fs =
          framesLoop k { acc := none, frameCount := 0, out := s.out ++ [mkOut k ((fs.take k).map (·.1))] } (fs.drop k) := by
        conv => lhs; rw [hsplit]
        rw [framesLoop_append, hw]
      rw [hloop, hspec]
      refine ⟨hrec.1, ?_, hrec.2.2⟩
      rw [hrec.2.1]; simp
    · cases fs with
      | nil =>
        simp only [framesLoop, finalize, hs, List.map_nil, spec, chunks_nil, List.append_nil, and_self]
      | cons fe t =>
        have hlt : (fe :: t).length < k := by omega
        rw [framesLoop_rest k sh fe t hfs hlt s hs]
        refine ⟨rfl, ?_, rfl⟩
        simp only [finalize, commit, if_true]
        rw [rawOut_eq_mkOut sh fe t (hfs fe (by simp)).1 hlt]
        unfold spec
        rw [chunks_short (by simpa using hlt) (by simp)]
        simp

/-! ## batches -/

theorem processData_noReset (k : Nat) (s : St) (b : Batch) (hb : b.reset = false) :
    processData k s b = framesLoop k s b.frames := by
  unfold processData
  rcases framesLoop k s b.frames with ⟨s1, ok⟩
  cases ok <;> simp [hb]

/-- without accumulator resets, `process_data` once per batch is the frame loop over all frames:
where the input queue is cut into batches does not matter -/
theorem threadLoop_noReset (k : Nat) (s : St) (bs : List Batch) (hbs : ∀ b ∈ bs, b.reset = false) :
    threadLoop k s bs = framesLoop k s (bs.flatMap (·.frames)) := by
  induction bs generalizing s with
  | nil => simp [threadLoop, framesLoop]
  | cons b t ih =>
    simp only [threadLoop, List.flatMap_cons, framesLoop_append]
    rw [processData_noReset k s b (hbs b (by simp))]
    rcases framesLoop k s b.frames with ⟨s1, ok⟩
    cases ok
    · simp
    · simp only
      exact ih s1 (fun b hb => hbs b (by simp [hb]))

theorem input_eq (bs : List Batch) : input bs = (bs.flatMap (·.frames)).map (·.1) := by
  unfold input
  induction bs with
  | nil => rfl
  | cons b t ih => simp only [List.flatMap_cons, List.map_append, ih]

/-! ## previous contents of the region -/

def FrameEnv.withOld (g : Nat → Int) (e : FrameEnv) : FrameEnv := { e with old := g }

def Batch.withOld (g : Nat → Int) (b : Batch) : Batch :=
  { b with frames := b.frames.map fun fe => (fe.1, fe.2.withOld g) }

theorem onFrame_withOld (k : Nat) (s : St) (fr : Frame) (e : FrameEnv) (g : Nat → Int) :
    onFrame k s fr (e.withOld g) = onFrame k s fr e := by
  simp only [onFrame, FrameEnv.withOld, memsetZero_mapRegion]

theorem framesLoop_withOld (k : Nat) (s : St) (fs : List (Frame × FrameEnv)) (g : Nat → Int) :
    framesLoop k s (fs.map fun fe => (fe.1, fe.2.withOld g)) = framesLoop k s fs := by
  induction fs generalizing s with
  | nil => rfl
  | cons fe t ih =>
    simp only [List.map_cons, framesLoop, onFrame_withOld]
    rcases onFrame k s fe.1 fe.2 with ⟨s1, ok⟩
    cases ok
    · rfl
    · exact ih s1

theorem processData_withOld (k : Nat) (s : St) (b : Batch) (g : Nat → Int) :
    processData k s (b.withOld g) = processData k s b := by
  unfold processData
  have h1 : (b.withOld g).frames = b.frames.map fun fe => (fe.1, fe.2.withOld g) := rfl
  have h2 : (b.withOld g).reset = b.reset := rfl
  rw [h1, h2, framesLoop_withOld]

theorem threadLoop_withOld (k : Nat) (s : St) (bs : List Batch) (g : Nat → Int) :
    threadLoop k s (bs.map (Batch.withOld g)) = threadLoop k s bs := by
  induction bs generalizing s with
  | nil => rfl
  | cons b t ih =>
    simp only [List.map_cons, threadLoop, processData_withOld]
    rcases processData k s b with ⟨s1, ok⟩
    cases ok
    · rfl
    · exact ih s1

end AcqVerif.Filter
