#!/usr/bin/env python3
"""Regenerate MANIFEST.json from the table below (kept next to the checks so that it stays valid)."""
import json, os
V = os.path.dirname(os.path.dirname(os.path.abspath(__file__)))
BASE = "cmake -G Ninja -B /repo/_build -S /repo && cmake --build /repo/_build && ctest --test-dir /repo/_build -j8 --timeout 900"

# id -> (engine, technique, level text, level note, design ref)
CLAIMED = {
 "C01": ("lean-channel", "Lean 4 theorems: invariant by induction over all operation histories of a transcription of channel.c with ghost stream indices; model tied to channel.c by differential correspondence (exhaustive small histories + random) and an implementation-only stream oracle",
         "Machine-checked proof over the model for all capacities, write sizes, reader counts and interleavings of (atomic) channel operations; the tie to channel.c is a correspondence check run on every invocation.",
         "Trusted: Lean kernel; axioms propext/Quot.sound/Classical.choice only; operations atomic (every body under the channel lock — checked for the real code by the C03 lock-discipline extractor); size_t overflow not modelled; correspondence = differential testing of real channel.c (ASan+UBSan) vs the compiled model.",
         "DESIGN.md section 5, C01"),
 "C02": ("lean-channel", "Lean 4 theorems over the same channel invariant (write placement never meets a mapped region nor an unconsumed byte; mapped regions stay byte-identical); tie: differential correspondence of real channel.c vs model + per-byte shadow oracle on every region channel_write_map returns",
         "Machine-checked proof over the model for all reachable states incl. exactly-full and exactly-empty-at-wrap instants; correspondence check on every run.",
         "Trusted as for C01; additionally the producer is assumed to store only inside the region it was handed (discharged for source.c/filter.c in C05/C10).",
         "DESIGN.md section 5, C02"),
}
PLANNED = {}
ALL = ["C%02d" % i for i in range(1, 19)]

def main():
    checks = []
    for pid in ALL:
        if pid not in CLAIMED:
            continue
        eng, tech, text, note, ref = CLAIMED[pid]
        checks.append({
            "property_id": pid,
            "quick_cmd": "python3 bin/check %s --tier quick" % pid,
            "thorough_cmd": "python3 bin/check %s --tier thorough" % pid,
            "evidence_file": "/verif/evidence/%s.json" % pid,
            "replay_cmd_template": "python3 bin/check %s --replay {path}" % pid,
            "engine": eng,
            "level_claimed": {"category": "proof", "text": text, "design_ref": ref},
            "level_note": note,
            "technique": tech,
        })
    na = [{"property_id": p, "reason": PLANNED.get(p, "no check registered yet: the Lean model/proof and correspondence harness for this property are not finished (see DESIGN.md section 8 staging); not a statement that the technique cannot apply")}
          for p in ALL if p not in CLAIMED]
    m = {
        "version": 1,
        "setup_cmd": "python3 bin/setup",
        "hooks": {
            "guard": "ACQUIRE_COMMON_VERIF",
            "enable": "none needed: harnesses compile /repo's sources directly against /verif/harness (alternative platform layer, wrapper translation units); no hook lives in /repo",
            "baseline_off_cmd": BASE,
            "source_commits": [],
            "add_only": True,
        },
        "engines": [
            {"name": "lean-channel", "path": "lean/AcqVerif/Channel", "serves_properties": ["C01", "C02", "C03", "C05"], "kind_free_text": "Lean 4 model + proofs of channel.c; driver lean/Driver/ChanMain.lean; harness harness/chan"},
        ],
        "checks": checks,
        "not_applicable": na,
        "notes": "Every check: python3 bin/check <ID> --tier quick|thorough. Known findings: known_findings.json. Conventions: docs/CONVENTIONS.md.",
    }
    json.dump(m, open(os.path.join(V, "MANIFEST.json"), "w"), indent=1)

if __name__ == "__main__":
    main()
