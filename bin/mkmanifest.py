#!/usr/bin/env python3
"""Regenerate MANIFEST.json from the table below (kept next to the checks so that it stays valid)."""
import json, os
V = os.path.dirname(os.path.dirname(os.path.abspath(__file__)))
BASE = "cmake -G Ninja -B /repo/_build -S /repo && cmake --build /repo/_build && ctest --test-dir /repo/_build -j8 --timeout 900"

# id -> (engine, technique, level text, level note, design ref)
CLAIMED = {
 "C01": ("lean-channel", "Lean 4 theorems: invariant by induction over all operation histories of a transcription of channel.c with ghost stream indices; model tied to channel.c by differential correspondence (exhaustive small histories + random) and an implementation-only stream oracle",
         "Machine-checked proof over the model for all capacities, write sizes, reader counts and interleavings of (atomic) channel operations; the tie to channel.c is a correspondence check run on every invocation.",
         "Trusted: Lean kernel; axioms propext/Quot.sound/Classical.choice only; operations atomic (every body under the channel lock — checked for the real code by the C03 lock-discipline extractor); size_t overflow not modelled; correspondence = differential testing of real channel.c (ASan+UBSan) vs the compiled model.",
         "DESIGN.md section 5, C01"),
 "C02": ("lean-channel", "Lean 4 theorems over the same channel invariant (write placement never meets a mapped region nor an unconsumed byte; mapped regions stay byte-identical); tie: differential correspondence of real channel.c vs model + per-byte shadow oracle on every region channel_write_map returns",
         "Machine-checked proof over the model for all reachable states incl. exactly-full and exactly-empty-at-wrap instants; correspondence check on every run.",
         "Trusted as for C01; additionally the producer is assumed to store only inside the region it was handed (discharged for source.c/filter.c in C05/C10).",
         "DESIGN.md section 5, C02"),
 "C03": ("lean-channel-conc", "Lean 4 theorems over an interleaving model of channel.c at synchronisation-call granularity: no-lost-wake-up invariant for every schedule (induction over scheduler steps), progress lemmas; lock-discipline table regenerated from channel.c by a clang-AST extractor and re-checked by `decide`; tie: step-by-step co-simulation of the real channel.c on a deterministic scheduler (detsched) over DFS-enumerated schedules, lost-wake-up oracle at DEADLOCK",
         "Machine-checked proof for all schedules of the model; the safety half (no lost wake-up, lock only held at wait entry) is an invariant, the liveness half is given as bounded-progress lemmas under an assumed fair scheduler.",
         "Trusted: Lean kernel; detsched (mutex/condvar semantics, a step = interval between synchronisation calls); sequential consistency of plain loads/stores; scheduler fairness for 'eventually'; one writer thread, one thread per reader handle; the extractor (clang AST walk).",
         "DESIGN.md section 5, C03"),
 "C05": ("lean-channel", "Lean 4 theorems: frame-size arithmetic (multiple of 8, minimal) over constants and rounding expressions translated from components.c/source.c/filter.c on every run; channel invariants by induction over histories (all cursors multiples of 8; every reader position and every region end is a write boundary); tie: generated Lean file + differential run of the real bytes_of_image and verbatim rounding expressions + channel correspondence in frame mode with an alignment/whole-frame oracle",
         "Machine-checked proof for all shapes, sample types, capacities, wrap positions and histories whose writes are frames and whose readers consume whole frames; the translator regenerates the size formulas from the source on every run.",
         "Trusted: Lean kernel; the regex-based translator of the two one-line rounding expressions (fails closed); malloc alignment >= 8 of the ring; the client consumes whole frames (API obligation); pipeline-level packets are re-checked by the runtime checks.",
         "DESIGN.md section 5, C05"),
 "C11": ("lean-hal", "Lean 4 theorems: protocol automaton accepts the event log (driver calls and device-memory reads/writes) of every HAL call sequence under every driver response oracle, by invariant over the call list; tie: differential correspondence of real camera.c/storage.c/driver.c against a scripted mock driver whose close frees the device (ASan), exhaustive length-5 call scripts + random",
         "Machine-checked proof over a transcription of the HAL wrappers for all call histories and all driver answers; correspondence on status, reported state and driver call log on every run.",
         "Trusted: Lean kernel; one handle at a time; complete vtable; describe reports the requested kind; memory events after release observable on the real code only through ASan / pattern fill.",
         "DESIGN.md section 5, C11"),
 "C12": ("lean-select", "Lean 4 theorems: selection = first enumerated device of the kind whose whole name the regex engine accepts (engine as a parameter), totality, NUL rule, open/describe agreement by `decide` over the device table extracted from basics.driver.c on every run; a Brzozowski-derivative matcher proved equal to the inductive language semantics with ASCII case folding; tie: differential correspondence of real device.manager.cpp/loader.c/driver.c with real and mock driver libraries, harness-side independent std::regex verdicts, forked children under a watchdog",
         "Machine-checked proof over the model for all byte strings, kinds, indices and driver subsets; libstdc++'s regex engine is a parameter (validated against the proved matcher on the generated subset).",
         "Trusted: Lean kernel; libstdc++ std::regex outside the modelled subset; dlopen; the pattern renderer of the layer-2 generator; watchdog expiries (exponential backtracking) are counted, not violations.",
         "DESIGN.md section 5, C12"),
 "C13": ("lean-sprops", "Lean 4 theorems: ownership invariant (every live allocation owned by exactly one field of one object) over an abstract heap for every init/set/copy/destroy script with arbitrary byte strings; copy equality, independence, no UAF/double free/leak, NUL termination; tie: differential correspondence of real props/storage.c with a logging allocator (ASan+UBSan), exhaustive short scripts + random",
         "Machine-checked proof over a transcription of props/storage.c for all op scripts; correspondence on fields, allocation ordinals and alloc/free event sequence on every run.",
         "Trusted: Lean kernel; malloc returns fresh blocks and never fails; size_t wrap-around not modelled; ill-formed uses (init over an owning object, self-copy) skipped identically.",
         "DESIGN.md section 5, C13"),
 "C14": ("lean-storage", "Lean 4 theorems: file_write's retry loop (termination by measure) writes exactly the buffer under every short-write oracle; raw device over an abstract file system: file of an acquisition = concatenation of its packets for every history, grouping and URI spelling; tie: differential correspondence of real raw.c + real linux/platform.c with pwrite/open/close interposed and scripted faults, file bytes compared",
         "Machine-checked proof over a transcription of file_write and raw.c for all histories, packet groupings and short-write patterns; correspondence on status, state, syscall log and file hash on every run.",
         "Trusted: Lean kernel; kernel model (open returns an unused descriptor or fails, pwrite writes a prefix or fails, close releases); offset overflow not modelled; set-while-running and calls after close are skipped as ill-formed.",
         "DESIGN.md section 5, C14"),
 "C15": ("lean-tiff", "Lean 4 theorems: an independent bounds-checked BigTIFF reader applied to the model writer's file returns exactly N pages with each frame's tags, pixels and JSON description (round trip), chain of N directories ending in a zero link, sections disjoint and inside the file, for both device kinds through the HAL; tag table and struct sizes regenerated from tiff.cpp on every run and tied by `decide`; tie: byte-for-byte comparison of real tiff.cpp/side-by-side-tiff.cpp output files with the model's file, and the Lean reader run on the real files",
         "Machine-checked proof over a transcription of the writers for all shapes, sample types, N >= 1, packet groupings and metadata strings; byte-exact correspondence on every run.",
         "Trusted: Lean kernel; writes succeed in full (failures are C16); printf decimal formatting = Nat.repr; pixel-scale float conversion by truncation; tiff-json uri without trailing slash.",
         "DESIGN.md section 5, C15"),
 "C16": ("lean-storage", "Lean 4 theorems: for every storage kind, life-cycle history, fault oracle and descriptor choice the syscall trace passes the ownership automaton (pwrite/flock/close only on descriptors the device opened and still owns, each closed exactly once), a never-started device issues no writes, a failed write inside append leaves the device not Running, all functions total with bounded syscall counts; tie: differential correspondence of the real writers + HAL + platform.c with syscalls interposed, every fault index of short histories x 4 kinds, each case in a forked child with small stack and watchdog",
         "Machine-checked proof over I/O skeleton models of raw/tiff/tiff-json/trash wrapped by the HAL storage state machine, for all histories and fault oracles; correspondence on status, state and canonicalised syscall log.",
         "Trusted: Lean kernel; kernel model as for C14; TIFF offsets/contents are C15's subject (masked here); set-while-running is outside the life cycles C16 names.",
         "DESIGN.md section 5, C16"),
 "C17": ("lean-simcam", "Lean 4 theorems: for every kind, binning, sample type, requested shape and set/start/get_frame/stop/set history the reported shape is the clamped request with matching strides, get returns what is in effect, buffers are re-sized on every set, and every renderer pass (im_fill_rand, im_fill_pattern, each bin2 pass, copy-out) stays inside its buffer; constants regenerated from simulated.camera.c; tie: differential correspondence of the real simulated.camera.c (AVX2 and plain builds, ASan+UBSan) incl. allocated sizes and canary-framed caller buffers, tight-extent runs of bin2/fill on exactly-sized heap blocks",
         "Machine-checked proof over a transcription of simcam_set/get/get_frame and the byte extents of the renderers; correspondence and exact-extent validation on every run.",
         "Trusted: Lean kernel; AVX2 lane semantics (only touched bytes modelled); the cascade's pass schedule tied indirectly through allocated sizes and ASan-clean runs; realloc failure not modelled; set while running (races the streamer) is outside the quantifier.",
         "DESIGN.md section 5, C17"),
 "C18": ("lean-simconc", "Lean 4 theorems over an interleaving model of simulated.camera.c at synchronisation-call granularity (streamer thread + two caller threads, mutex/condvar transitions): delivered ids strictly increase and count generated frames, delivered <= triggers when gated, no lost wake-up for a pending frame call or a streamer waiting for a trigger, stop's join terminates (decreasing measure), for every schedule and caller history; tie: step-by-step co-simulation of the real simulated.camera.c + HAL camera.c on detsched over schedules enumerated by deviation bounding, client-view oracle",
         "Machine-checked proof for all schedules and caller scripts of the model; co-simulation of every scheduler step with the real code on every run.",
         "Trusted: Lean kernel; detsched; atomic steps between synchronisation calls; camera kind Empty (rendering trivial), simcam_set never fails; fairness for the termination conclusions; the set(off) race (streamer may sleep with the trigger disabled) is outside C18's statement and proved reachable.",
         "DESIGN.md section 5, C18"),
 "C07": ("lean-runtime", "Lean 4 theorems over M1 (guarded-command model of source/filter/sink/client threads over the channel model): thread-flag-device invariant TInv proved for every action of every thread and lifted to every state of every schedule (micro-steps included): when acquire_stop/abort returns the runtime is Armed, all workers have finished, flags clear, devices stopped; joins and thread creation ordered; DWake/DStop: a refusal of writes always has its notify_all ahead of a sleeping source, refused writes stay refused while the source lives, and inside acquire_stop a source asleep on a full ring has a live sink behind it (no orphaned sleeper); tie: decision-by-decision co-simulation of the real acquire.c/source.c/filter.c/sink.c/channel.c/HAL on detsched with a mock driver against the compiled model, plus HANG/DEADLOCK and device/storage oracles on abort scenarios outside M1 (triggers, averaging)",
         "Safety half machine-checked for all client programs, faults and schedules of the model; 'returns after finitely many steps' is reduced by the no-lost-wake-up and no-orphaned-sleeper theorems to fairness plus the channel-level progress lemmas of C03, and decided on the implementation by the deterministic scheduler's hang oracle over the explored and enumerated schedules (partial: liveness needs fairness).",
         "Trusted: Lean kernel; detsched; mock driver contract; M1's granularity (a step = code between two synchronisation calls, checked by co-simulation of every decision); ring capacity overridden by a wrapper TU; fairness for every 'returns'. Known finding: stalled monitor (known_findings.json).",
         "DESIGN.md section 5, C07"),
 "C08": ("lean-runtime", "Lean 4 theorems over M1: driver starts/stops of a camera pair up in every reachable state whoever stops it, start only on an Armed camera, get_frame/stop only on a Running one, Running devices belong to live workers, acquire_get_state says Running only while a worker of a valid stream is alive, unconfigured streams never get workers, start while Running is refused without touching the acquisition; tie: co-simulation as for C07 + recording mock driver with life-cycle oracles (open/close/start/stop/use-after-close/double close) over API programs generated from the usage grammar incl. device switches, re-configuration, start while running and shutdown",
         "Machine-checked for the data-path life cycle (start/stop/use, flags, reported state) for all programs and schedules of M1; open/close on identifier change and shutdown are decided by the implementation-side oracles only (partial).",
         "Trusted: as C07; per-stream device pools are disjoint in generated programs; C11's proved HAL automaton for a single device.",
         "DESIGN.md section 5, C08"),
 "C09": ("lean-runtime", "Lean 4 theorems over M1 with a scripted fault per device (any call index, persistent or not): no append after a failed append, no get_frame after a failed get_frame (ghost counters are 0 in every reachable state), failed storage not Running, failed camera stopped by exactly one driver stop, runtime not Running once workers exited, everything at rest when stop/abort/failed start has returned; the storage of a failing run holds a gap-free prefix of the camera's frames and a later undisturbed acquisition on the same stream is complete and correct (the data-path invariants carry no 'no camera fault' premise: a map over the write region a failed get_frame left behind is within the channel model's rules); tie: co-simulation of the real runtime with the mock driver's fault injection against the compiled model (faults at call 0..3, storage and camera, stop/abort/wait, with and without re-configuration incl. the failed-start path), oracles for later fault-free acquisitions",
         "Machine-checked for all fault indices, programs and schedules of the model (safety); 'stop and abort still return' by the hang oracle over explored schedules (partial: liveness needs fairness).",
         "Trusted: as C07; faults are scripted for the first run of a device.",
         "DESIGN.md section 5, C09"),
 "C10": ("lean-filter", "Lean 4 theorems over a frame-level model of filter.c's process_data / video_filter_thread with exact integer sums: for every window size k >= 2, input sequence, batching of the input (= every schedule of source against filter at this layer) and previous ring contents the emitted frames are exactly the window sums of `windows k input` with the first frame's id, at most one trailing frame, nothing skipped or counted twice, independent of what the accumulator region held, every partial sum below 2^24 for the integer types and k within the stated limits; refusal / shape change / reset / k < 2 branches stated separately; tie: differential correspondence of the real filter.c (included into a single-threaded harness with real channel.c on small dirty rings) against the compiled model, float32 bit patterns compared via exact rational rounding, harness-side mean oracle; pipeline level: the whole runtime on detsched with averaging (classes avg/avgmon/avgabort) under random schedules with storage/monitor oracles",
         "Machine-checked for the integer layer (sums, windows, ids, batching independence); float32 arithmetic is in the trusted base (adds integers below 2^24 exactly; one rounded multiply by fl(1/k)); schedules of filter against sink and monitor are explored on the implementation only.",
         "Trusted: Lean kernel; binary32 semantics as stated; planes = channels = 1; detsched + mock driver for the pipeline level. Known finding: windows with k*max|sample| >= 2^24 (known_findings.json).",
         "DESIGN.md section 5, C10"),
 "C04": ("lean-runtime", "Lean 4 theorems over M1 (thread model over the channel model with ghost records of delivered / committed / stored frames): three invariants proved for every action of every thread and lifted to every state of every schedule — DUse (sink.in is only ever used within channel.c's rules, thread bookkeeping = channel view), DLog (the storage log is exactly the frames committed at stream positions [base, appended), consecutive reads select consecutive frames), DId (the frames committed since the storage start are the camera's frames 0..n-1 of the run, none after a refused commit); corollary: stored = camera frames 0..m-1 in order with ids, hardware ids, run unchanged, for every client program incl. monitoring, abort, storage faults, any ring size; tie: decision-by-decision co-simulation of the real runtime (acquire.c, source.c, filter.c, sink.c, channel.c, vfslice.c, HAL) on detsched with the mock driver against the compiled model (state digests incl. channel cursors and reader holds), storage-side oracle comparing appended frames (ids, order, payload) with what the camera delivered, classes single/two/mon/slowmon/restart/delay/abort/stofault/camempty",
         "Safety (order, no duplication, no mixing, bit-exactness as frame identity, prefix) machine-checked for all schedules/programs/ring sizes of M1, scripted camera and storage faults and cameras that hand out empty frames included (premise: the client keeps the map/unmap rule); completeness is machine-checked as a safety statement (DEnd/DFin: once the sink has drained an undisturbed run the log is exactly frames 0..N-1); that the sink reaches that point is liveness, decided by the implementation-side count and hang oracles over explored schedules (partial: needs fairness).",
         "Trusted: Lean kernel; detsched; mock driver (pixels = function of run and hardware id); frame identity stands for pixel bytes; M1 granularity validated by co-simulation; write delay and averaging paths explored on the implementation only; the ghost `clean` (sink reader caught up at start) holds after every stop/abort.",
         "DESIGN.md section 5, C04"),
 "C06": ("lean-runtime", "Lean 4 theorems over M1: in every reachable state sink.in comes from a well-formed history of channel.c (DUse), hence by C01/C02 the monitor reader (reader 1) has consumed exactly stream positions join..idx-1 in order, its mapped region holds its next bytes, its status stays Ok; DMon: a registered monitor flushed by stop/abort has nothing unread until the next source thread exists, a monitor registered and caught up at storage start never sees bytes committed before it; with DId the frames it then sees are the current run's 0,1,2,…; storage independent of the client (C04 theorems quantify over all client programs); tie: co-simulation of the real runtime incl. acquire_map_read/unmap_read and the flush in acquire_stop against the model; client-side oracle on every consumed frame (consecutive ids, payload of the current camera run, alignment, whole frames) over classes mon/slowmon/holdmon/abortmon/latemon/avgmon",
         "Machine-checked for all client polling patterns, schedules and ring sizes of M1 (byte-stream level + frame identity); the late-joining monitor (first map after a finished acquisition) is a known finding of the unchanged tree.",
         "Trusted: as C04; the client keeps the API's usage rule (no map while mapped; otherwise the model sets `misused` and the theorems do not apply).",
         "DESIGN.md section 5, C06"),
}
PLANNED = {}
ALL = ["C%02d" % i for i in range(1, 19)]

def main():
    checks = []
    for pid in ALL:
        if pid not in CLAIMED:
            continue
        eng, tech, text, note, ref = CLAIMED[pid]
        checks.append({
            "property_id": pid,
            "quick_cmd": "python3 bin/check %s --tier quick" % pid,
            "thorough_cmd": "python3 bin/check %s --tier thorough" % pid,
            "evidence_file": "/verif/evidence/%s.json" % pid,
            "replay_cmd_template": "python3 bin/check %s --replay {path}" % pid,
            "engine": eng,
            "level_claimed": {"category": "proof", "text": text, "design_ref": ref},
            "level_note": note,
            "technique": tech,
        })
    na = [{"property_id": p, "reason": PLANNED.get(p, "no check registered yet: the Lean model/proof and correspondence harness for this property are not finished (see DESIGN.md section 8 staging); not a statement that the technique cannot apply")}
          for p in ALL if p not in CLAIMED]
    m = {
        "version": 1,
        "setup_cmd": "python3 bin/setup",
        "hooks": {
            "guard": "ACQUIRE_COMMON_VERIF",
            "enable": "none needed: harnesses compile /repo's sources directly against /verif/harness (alternative platform layer, wrapper translation units); no hook lives in /repo",
            "baseline_off_cmd": BASE,
            "source_commits": [],
            "add_only": True,
        },
        "engines": [
            {"name": "lean-channel", "path": "lean/AcqVerif/Channel", "serves_properties": ["C01", "C02", "C05"], "kind_free_text": "Lean 4 model + proofs of channel.c (Model, Sys, Inv, InvStep); driver lean/Driver/ChanMain.lean; harness harness/chan/h_chan_seq.c"},
            {"name": "lean-channel-conc", "path": "lean/AcqVerif/Channel/Conc.lean", "serves_properties": ["C03"], "kind_free_text": "interleaving model (Conc, ConcInv, ConcStep), driver lean/Driver/ConcMain.lean, harness harness/chan/h_chan_conc.c on harness/detsched, extractor extract/syncskel.py"},
            {"name": "detsched", "path": "harness/detsched", "serves_properties": ["C03", "C18"], "kind_free_text": "deterministic scheduler: alternative implementation of the repo's platform.h API (baton-passing pthreads, every synchronisation call a yield point)"},
            {"name": "lean-hal", "path": "lean/AcqVerif/Hal", "serves_properties": ["C11"], "kind_free_text": "HAL wrappers model + protocol automaton; harness harness/hal"},
            {"name": "lean-select", "path": "lean/AcqVerif/Select", "serves_properties": ["C12"], "kind_free_text": "device manager model + regex matcher; harness harness/select"},
            {"name": "lean-storage", "path": "lean/AcqVerif/Storage", "serves_properties": ["C14", "C16"], "kind_free_text": "OS model, file_write, raw/tiff/tiff-json/trash I/O skeletons, HAL storage; harness harness/storage_io"},
            {"name": "lean-tiff", "path": "lean/AcqVerif/Tiff", "serves_properties": ["C15"], "kind_free_text": "BigTIFF writer model, independent reader, JSON description scanner; harness harness/tiff"},
            {"name": "lean-simcam", "path": "lean/AcqVerif/Simcam", "serves_properties": ["C17"], "kind_free_text": "simulated camera configuration/buffer-extent model; harness harness/simcam_shape"},
            {"name": "lean-simconc", "path": "lean/AcqVerif/SimConc", "serves_properties": ["C18"], "kind_free_text": "simulated camera thread-protocol model; harness harness/simcam_conc on detsched"},
            {"name": "lean-runtime", "path": "lean/AcqVerif/Runtime", "serves_properties": ["C04", "C06", "C07", "C08", "C09", "C10"], "kind_free_text": "M1: guarded-command model of the source/filter/sink/client threads over the channel model, HAL device states, scripted faults (Model, Client, Init); invariants per action family (Inv, TInv/*, Cam/*, Clean); driver lean/Driver/RuntimeMain.lean; harness harness/runtime (real runtime on detsched + mock driver); engine checks/rtx.py"},
            {"name": "lean-filter", "path": "lean/AcqVerif/Filter", "serves_properties": ["C10"], "kind_free_text": "frame-level model of filter.c (Model, Spec, Lemmas, Bound); driver lean/Driver/FilterMain.lean; harness harness/filter/h_filter.c"},
            {"name": "lean-control", "path": "lean/AcqVerif/Control", "serves_properties": ["C08"], "kind_free_text": "M2: control-plane model of acquire.c (configure/start/stop/abort/shutdown, device open/close/set/start/stop per API call); driver lean/Driver/ControlMain.lean; correspondence checks/c08m2.py on harness/runtime"},
            {"name": "lean-sprops", "path": "lean/AcqVerif/SProps", "serves_properties": ["C13"], "kind_free_text": "StorageProperties heap model; harness harness/props"},
        ],
        "checks": checks,
        "not_applicable": na,
        "notes": "Every check: python3 bin/check <ID> --tier quick|thorough. Known findings: known_findings.json. Conventions: docs/CONVENTIONS.md.",
    }
    json.dump(m, open(os.path.join(V, "MANIFEST.json"), "w"), indent=1)

if __name__ == "__main__":
    main()
