#!/usr/bin/env python3
"""Run the registered checks against seeded changes (seeded/<id>/patch.diff).

usage: bin/seedtest.py [--workers N] [--only C01-m1,C07-m3] [--thorough-on-miss]
Each worker owns a scratch copy of /verif (with its build products) and a scratch worktree of /repo, both under /tmp,
applies one patch at a time to the worktree and runs `bin/check <P> --tier quick` with ACQ_REPO pointing at it.
Nothing is committed to /repo; the scratch directories are removed at the end. Results: seeded/results.json.
"""
import argparse, json, os, shutil, subprocess, sys, time, concurrent.futures as cf

V = os.path.dirname(os.path.dirname(os.path.abspath(__file__)))


def sh(cmd, **kw):
    return subprocess.run(cmd, capture_output=True, text=True, **kw)


def setup_worker(i):
    vw, mw = "/tmp/vw-%d" % i, "/tmp/mw-%d" % i
    sh(["git", "-C", "/repo", "worktree", "remove", "--force", mw])
    shutil.rmtree(mw, ignore_errors=True)
    shutil.rmtree(vw, ignore_errors=True)
    r = sh(["git", "-C", "/repo", "worktree", "add", "--detach", mw, "HEAD"])
    assert r.returncode == 0, r.stderr
    sh(["rsync", "-a", "--exclude", ".git", "--exclude", "replays", "--exclude", "seeded", V + "/", vw + "/"])
    return vw, mw


def run_check(vw, mw, prop, tier, timeout):
    env = dict(os.environ, ACQ_REPO=mw, VERIF_SEED=os.environ.get("VERIF_SEED", "1"))
    t = time.time()
    try:
        r = subprocess.run(["python3", "bin/check", prop, "--tier", tier], cwd=vw, env=env, capture_output=True, text=True, timeout=timeout)
        out, rc = r.stdout + r.stderr, r.returncode
    except subprocess.TimeoutExpired as e:
        out, rc = "TIMEOUT " + str(e.stdout)[-500:], -9
    lines = [l for l in out.split("\n") if l.startswith(("VIOLATION", "KNOWN-FINDING", "ok ", "  "))]
    return {"rc": rc, "wall": round(time.time() - t, 1), "lines": lines[:8], "tail": out[-600:] if rc not in (0, 1) else ""}


def work(args):
    i, items, thorough_on_miss = args
    vw, mw = setup_worker(i)
    res = []
    for mid in items:
        prop = mid.split("-")[0]
        if ":" in mid:  # cross run: <seed id>:<check to run>
            mid, prop = mid.split(":")
        patch = os.path.join(V, "seeded", mid, "patch.diff")
        sh(["git", "-C", mw, "checkout", "--", "."])
        sh(["git", "-C", mw, "clean", "-fdq"])
        a = sh(["git", "-C", mw, "apply", "--whitespace=nowarn", patch])
        ent = {"id": mid, "property": prop}
        if prop != mid.split("-")[0]:
            ent["id"] = mid + ":" + prop
        if a.returncode != 0:
            ent["apply_error"] = a.stderr[-400:]
            res.append(ent)
            continue
        ent["quick"] = run_check(vw, mw, prop, "quick", 1500)
        ent["caught_quick"] = ent["quick"]["rc"] == 1 and any(l.startswith("VIOLATION property=%s" % prop) for l in ent["quick"]["lines"])
        if not ent["caught_quick"] and thorough_on_miss:
            ent["thorough"] = run_check(vw, mw, prop, "thorough", 3600)
            ent["caught_thorough"] = ent["thorough"]["rc"] == 1 and any(l.startswith("VIOLATION property=%s" % prop) for l in ent["thorough"]["lines"])
        res.append(ent)
        print(json.dumps({k: ent[k] for k in ent if k in ("id", "caught_quick", "caught_thorough", "apply_error")}), flush=True)
    sh(["git", "-C", mw, "checkout", "--", "."])
    sh(["git", "-C", "/repo", "worktree", "remove", "--force", mw])
    shutil.rmtree(vw, ignore_errors=True)
    return res


def main():
    ap = argparse.ArgumentParser()
    ap.add_argument("--workers", type=int, default=6)
    ap.add_argument("--only", default="")
    ap.add_argument("--thorough-on-miss", action="store_true")
    ap.add_argument("--pairs", default="", help="cross runs, e.g. C01-m8:C03,C14-m8:C04 (results in seeded/cross.json)")
    a = ap.parse_args()
    ids = sorted(d for d in os.listdir(os.path.join(V, "seeded")) if os.path.isfile(os.path.join(V, "seeded", d, "patch.diff")))
    if a.only:
        ids = [x for x in ids if x in a.only.split(",")]
    if a.pairs:
        ids = a.pairs.split(",")
    n = max(1, min(a.workers, len(ids)))
    buckets = [ids[i::n] for i in range(n)]
    allres = []
    with cf.ThreadPoolExecutor(n) as ex:
        for r in ex.map(work, [(i, b, a.thorough_on_miss) for i, b in enumerate(buckets)]):
            allres += r
    path = os.path.join(V, "seeded", "cross.json" if a.pairs else "results.json")
    old = json.load(open(path)) if os.path.exists(path) else {}
    for r in allres:
        old[r["id"]] = r
    json.dump(old, open(path, "w"), indent=1, sort_keys=True)
    sh(["git", "-C", "/repo", "worktree", "prune"])
    caught = sum(1 for r in allres if r.get("caught_quick") or r.get("caught_thorough"))
    print("seeded changes: %d run, %d caught" % (len(allres), caught))


if __name__ == "__main__":
    main()
