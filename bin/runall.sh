#!/bin/bash
# run every quick check on the clean tree, 4 at a time
cd /verif
for p in C01 C02 C03 C04 C05 C06 C07 C08 C09 C10 C11 C12 C13 C14 C15 C16 C17 C18; do echo $p; done | xargs -P 4 -I{} sh -c 'python3 bin/check {} --tier quick > /tmp/verif-runall-{}.log 2>&1; echo "{} rc=$? $(tail -1 /tmp/verif-runall-{}.log | cut -c1-160)"'
