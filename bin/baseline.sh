#!/bin/bash
# Run the repository's own test-suite on a scratch worktree of /repo's HEAD
# (outside /repo and /verif), then remove the worktree with its build output.
# usage: bin/baseline.sh [ctest -R regex]
set -u
WT=${WT:-/tmp/acq-baseline-wt}
git -C /repo worktree remove --force "$WT" 2>/dev/null
rm -rf "$WT"
git -C /repo worktree add --detach "$WT" HEAD >/dev/null 2>&1 || exit 2
cd "$WT" || exit 2
cmake -G Ninja -B _build -DCMAKE_BUILD_TYPE=RelWithDebInfo >/dev/null 2>&1 || { echo "cmake configure failed"; exit 2; }
cmake --build _build 2>&1 | tail -3
if [ $# -gt 0 ]; then
  ctest --test-dir _build -j8 --timeout 900 -R "$1" 2>&1 | tail -45
else
  ctest --test-dir _build -j8 --timeout 900 2>&1 | tail -45
fi
rc=${PIPESTATUS[0]}
cd /
git -C /repo worktree remove --force "$WT"
exit $rc
