#!/usr/bin/env python3
"""Lock-discipline extractor for acquire-driver-common/src/simcams/simulated.camera.c (translator part of C18).

The interleaving model of the simulated camera (lean/AcqVerif/SimConc) lets threads switch only at synchronisation calls: that is
sound for the real code only if the fields the streamer thread and the callers share are touched under `im.lock`.  This extractor
walks the typed clang AST of the *current* source (the walker of extract/syncskel.py, extended for this file) and lists, for every
function that runs while the camera object is shared, every access to a field of `struct SimulatedCamera` with the lock depth at
that point.  Output: lean/AcqVerif/Generated/SimcamSync.lean; the theorem over it (Props/SimcamLock.lean, by `decide`) says: every
access to a guarded field at lock depth 0 is one of the listed, individually justified exceptions of the unchanged code.
A new unlocked access — e.g. a frame id read after the lock has been released — changes the table and the theorem stops checking.
Anything the walker does not understand raises Unsupported: the extractor fails closed.
"""
import json, os, subprocess, sys

sys.path.insert(0, os.path.dirname(os.path.abspath(__file__)))
import syncskel as S

SRC = "acquire-driver-common/src/simcams/simulated.camera.c"
LOCK_PATH = "im.lock"
SYNC_PATHS = ("im.lock", "im.frame_ready", "software_trigger.trigger_ready", "streamer.thread", "streamer.throttle")
LIFECYCLE = ("simcam_make_camera", "simcam_close_camera")   # before the object is shared / after the streamer has been joined


def clang_ast(repo):
    src = os.path.join(repo, SRC)
    inc = ["acquire-driver-common/src", "acquire-core-libs/src/acquire-device-kit", "acquire-core-libs/src/acquire-device-properties",
           "acquire-core-libs/src/acquire-core-platform/linux", "acquire-core-libs/src/acquire-core-logger",
           "acquire-driver-common/src/simcams/3rdParty/pcg-c-basic-0.9"]
    cmd = ["clang-14", "-std=gnu11", "-fsyntax-only", "-mavx2", "-Xclang", "-ast-dump=json"] + ["-I" + os.path.join(repo, i) for i in inc] + [src]
    p = subprocess.run(cmd, capture_output=True, text=True, timeout=180)
    if p.returncode != 0:
        raise S.Unsupported("clang failed: " + p.stderr[-500:])
    return json.loads(p.stdout), src


class Walker(S.Walker):
    def self_field(self, n, env):
        """dotted path (at most two components) of the field of *self that expression n denotes, else None"""
        n = S.strip(n)
        k = n.get("kind")
        if k == "MemberExpr":
            path = [n["name"]]
            base = S.strip(n["inner"][0])
            while base.get("kind") == "MemberExpr" and not base.get("isArrow"):
                path.insert(0, base["name"])
                base = S.strip(base["inner"][0])
            if base.get("kind") == "MemberExpr" and base.get("isArrow"):
                root = S.strip(base["inner"][0])
                if root.get("kind") == "DeclRefExpr" and root["referencedDecl"]["name"] in env["selfs"]:
                    return ".".join(([base["name"]] + path)[:2])
                return None
            if base.get("kind") == "DeclRefExpr" and base["referencedDecl"]["name"] in env["selfs"] and n.get("isArrow"):
                return n["name"]
            if base.get("kind") == "DeclRefExpr" and base["referencedDecl"]["name"] in env["alias"]:
                return env["alias"][base["referencedDecl"]["name"]]
            return self.self_field(base, env) if base.get("kind") in ("ArraySubscriptExpr", "UnaryOperator") else None
        if k == "ArraySubscriptExpr":
            return self.self_field(n["inner"][0], env)
        if k == "UnaryOperator" and n.get("opcode") in ("*", "&"):
            inner = S.strip(n["inner"][0])
            if inner.get("kind") == "DeclRefExpr" and inner["referencedDecl"]["name"] in env["alias"]:
                return env["alias"][inner["referencedDecl"]["name"]]
            return self.self_field(inner, env)
        if k == "DeclRefExpr" and n["referencedDecl"]["name"] in env["alias"] and env.get("deref_alias"):
            return env["alias"][n["referencedDecl"]["name"]]
        return None

    def expr(self, n, env, depth, write=False):
        n0 = S.strip(n)
        k = n0.get("kind")
        if k in ("StmtExpr",):
            out = self.stmt(n0["inner"][0], env, depth)
            return depth if out is None else out
        if k in ("PredefinedExpr", "OffsetOfExpr", "ConstantExpr", "CompoundLiteralExpr", "VAArgExpr") and k != "CompoundLiteralExpr":
            return depth
        if k == "CallExpr":
            callee = S.strip(n0["inner"][0])
            name = callee.get("referencedDecl", {}).get("name")
            args = n0["inner"][1:]
            if name in ("lock_acquire", "lock_release") and args:
                f = self.self_field(args[0], env)
                if f != LOCK_PATH:
                    raise S.Unsupported("%s on something other than im.lock in %s" % (name, env["fn"]))
            if name in ("thread_join", "thread_create", "thread_init", "clock_init", "clock_tic", "clock_toc_ms", "clock_sleep_ms", "lock_init", "condition_variable_init"):
                # synchronisation / clock objects are not data: walk the other arguments only
                for a in args[1:]:
                    depth = self.expr(a, env, depth, False)
                return depth
        return super().expr(n, env, depth, write)

    def stmt(self, n, env, depth):
        k = n.get("kind")
        if "label_ids" not in env:      # a helper analysed at its call site: its own labels
            ids = {}
            f = self.funcs.get(env["fn"].split("@")[0])
            if f is not None:
                S.collect_label_ids(f, ids)
            env["label_ids"] = ids
        if k == "DeclStmt":
            # `struct SimulatedCamera* self = containerof(camera, ...)`: a second name for the object
            for d in n.get("inner", []):
                if d.get("kind") == "VarDecl" and "struct SimulatedCamera *" in d.get("type", {}).get("qualType", "") and d.get("inner"):
                    env["selfs"].add(d["name"])
                    return depth
        if k == "SwitchStmt":
            parts = [p for p in n["inner"] if p]
            depth = self.expr(parts[0], env, depth, False)
            out = self.stmt(parts[-1], dict(env, in_switch=True), depth)
            if out is not None and out != depth:
                raise S.Unsupported("switch changes the lock depth in " + env["fn"])
            return depth
        if k in ("CaseStmt", "DefaultStmt"):
            subs = [c for c in n.get("inner", []) if c.get("kind") not in ("ConstantExpr", "IntegerLiteral", None)]
            for c in subs:
                out = self.stmt(c, env, depth)
                if out is not None and out != depth:
                    raise S.Unsupported("case changes the lock depth in " + env["fn"])
            return depth
        if k in ("BreakStmt", "ContinueStmt"):
            return depth
        return super().stmt(n, env, depth)


def extract(repo):
    ast, src = clang_ast(repo)
    funcs = {}
    for c in ast.get("inner", []):
        if c.get("kind") == "FunctionDecl" and any(x.get("kind") == "CompoundStmt" for x in c.get("inner", [])):
            loc = c.get("loc", {})
            if loc.get("includedFrom") or loc.get("expansionLoc", {}).get("includedFrom"):
                continue
            funcs[c["name"]] = c
    w = Walker(funcs)
    entry = []
    for name, f in funcs.items():
        params = [p for p in f["inner"] if p.get("kind") == "ParmVarDecl"]
        ptypes = [p.get("type", {}).get("qualType", "") for p in params]
        is_entry = any("struct Camera *" in t for t in ptypes[:1]) or (name == "simulated_camera_streamer_thread")
        if not is_entry or name in LIFECYCLE:
            continue
        entry.append(name)
        ids = {}
        S.collect_label_ids(f, ids)
        selfs = set(p["name"] for p, t in zip(params, ptypes) if "struct SimulatedCamera *" in t)
        env = {"fn": name, "selfs": selfs, "alias": {}, "labels": {}, "label_ids": ids}
        body = [c for c in f["inner"] if c.get("kind") == "CompoundStmt"][0]
        try:
            out = w.stmt(body, env, 0)
        except S.Unsupported as ex:
            raise S.Unsupported("%s: %s" % (name, ex))
        if out not in (None, 0):
            raise S.Unsupported("%s ends with the lock held" % name)
    return w, sorted(entry)


def lean_source(w, entry):
    acc = sorted(set((f, fl, wr, min(d, 1)) for f, fl, wr, d in w.acc if fl not in SYNC_PATHS))
    esc = lambda s: s.replace('"', "")
    lines = ["/-! GENERATED by extract/simskel.py from acquire-driver-common/src/simcams/simulated.camera.c -- do not edit.",
             "Every access to a field of `struct SimulatedCamera` in the functions that run while the object is shared (the vtable functions",
             "and the streamer thread; helpers are listed as `helper@caller`), with `locked` = the access happens while `im.lock` is held. -/",
             "namespace AcqVerif.Generated.SimcamSync", "",
             "def entryFunctions : List String := [%s]" % ", ".join('"%s"' % e for e in entry), "",
             "/-- (function, field, is-write, locked) -/",
             "def accesses : List (String × String × Bool × Bool) := ["]
    lines += ['  ("%s", "%s", %s, %s)%s' % (esc(f), esc(fl), "true" if wr else "false", "true" if d else "false", "," if i + 1 < len(acc) else "")
              for i, (f, fl, wr, d) in enumerate(acc)]
    lines += ["]", "",
              "/-- (function, locked) for every condition_variable_wait -/",
              "def waits : List (String × Bool) := [%s]" % ", ".join('("%s", %s)' % (esc(f), "true" if d else "false") for f, d, _ in sorted(set(w.waits))),
              "", "end AcqVerif.Generated.SimcamSync", ""]
    return "\n".join(lines)


if __name__ == "__main__":
    w, entry = extract(sys.argv[1] if len(sys.argv) > 1 else "/repo")
    sys.stdout.write(lean_source(w, entry))
